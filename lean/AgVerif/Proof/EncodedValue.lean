/-
Lemmas for C04: little-endian reads (`_getintvalue`, `_getfloatvalue`) against the arithmetic
definitions of the specification, header split, element lists.
-/
import AgVerif.Model.EncodedValue
import AgVerif.Spec.EncodedValue
import AgVerif.Proof.Bits
import AgVerif.Props.C03
namespace AgVerif.EncodedValue
open AgVerif.Bits AgVerif.Leb AgVerif.Gen.ValueTypes
open AgVerif.Spec.EncodedValue (le sext SValue Encodes Elem Pools)

/-! ### little-endian numbers -/

theorem le_lt (p : List Nat) (h : ∀ b ∈ p, b < 256) : le p < 2 ^ (8 * p.length) := by
  induction p with
  | nil => simp [le]
  | cons b bs ih =>
    have hb : b < 256 := h b (by simp)
    have := ih (fun x hx => h x (by simp [hx]))
    simp only [le, List.length_cons]
    have e : 2 ^ (8 * (bs.length + 1)) = 256 * 2 ^ (8 * bs.length) := by
      rw [Nat.mul_add, Nat.pow_add]; omega
    omega

theorem le_append (xs ys : List Nat) : le (xs ++ ys) = le xs + 2 ^ (8 * xs.length) * le ys := by
  induction xs with
  | nil => simp [le]
  | cons b bs ih =>
    simp only [List.cons_append, le, ih, List.length_cons]
    have e : 2 ^ (8 * (bs.length + 1)) = 256 * 2 ^ (8 * bs.length) := by
      rw [Nat.mul_add, Nat.pow_add]; omega
    rw [e, Nat.mul_add, Nat.mul_assoc]; omega

theorem le_replicate_zero (k : Nat) : le (List.replicate k 0) = 0 := by
  induction k with
  | zero => rfl
  | succ k ih => simp [List.replicate, le, ih]

theorem getIntLoop_spec (buf : List Nat) (h : ∀ b ∈ buf, b < 256) (ret shift : Nat)
    (hr : ret < 2 ^ shift) :
    getIntLoop buf ret shift = (ret + 2 ^ shift * le buf, shift + 8 * buf.length) := by
  induction buf generalizing ret shift with
  | nil => simp [getIntLoop, le]
  | cons b bs ih =>
    have hb : b < 256 := h b (by simp)
    have e : 2 ^ (shift + 8) = 256 * 2 ^ shift := by rw [Nat.pow_add]; omega
    have hm : b * 2 ^ shift ≤ 255 * 2 ^ shift := Nat.mul_le_mul_right _ (by omega)
    rw [getIntLoop, or_shl _ _ _ hr, ih (fun x hx => h x (by simp [hx])) _ _ (by omega)]
    simp only [le, List.length_cons, Prod.mk.injEq]
    refine ⟨?_, by omega⟩
    rw [e, Nat.mul_add, Nat.mul_comm b, Nat.mul_assoc, Nat.mul_left_comm 256]
    omega

theorem getIntNat_spec (buf : List Nat) (h : ∀ b ∈ buf, b < 256) : getIntNat buf = le buf := by
  simp [getIntNat, getIntLoop_spec buf h 0 0 (by simp)]

theorem getIntValue_unsigned (buf : List Nat) (h : ∀ b ∈ buf, b < 256) :
    getIntValue buf false = (le buf : Int) := by
  simp [getIntValue, getIntLoop_spec buf h 0 0 (by simp)]

/-- the signed read is the two's-complement reading of the stored bytes -/
theorem getIntValue_signed (buf : List Nat) (h : ∀ b ∈ buf, b < 256) (hne : buf ≠ []) :
    getIntValue buf true = sext (8 * buf.length) (le buf) := by
  have hl : 0 < buf.length := List.length_pos_iff.mpr hne
  have hlt := le_lt buf h
  simp only [getIntValue, getIntLoop_spec buf h 0 0 (by simp), Nat.zero_add, Nat.pow_zero, Nat.one_mul,
    sext, shr, Nat.shiftLeft_eq]
  have hpos : 0 < 2 ^ (8 * buf.length - 1) := Nat.pow_pos (by omega)
  by_cases hc : le buf < 2 ^ (8 * buf.length - 1)
  · have : le buf / 2 ^ (8 * buf.length - 1) = 0 := Nat.div_eq_of_lt hc
    simp [hc, this]
  · have : le buf / 2 ^ (8 * buf.length - 1) ≠ 0 := by
      intro h0
      exact hc ((Nat.div_eq_zero_iff_lt hpos).mp h0)
    have hs : 8 * buf.length ≠ 0 := by omega
    simp [hc, this, hs]

/-- zero-extension "to the right" -/
theorem getFloatBits_spec (buf : List Nat) (h : ∀ b ∈ buf, b < 256) (size : Nat)
    (hl : buf.length ≤ size) :
    getFloatBits buf size = le buf * 2 ^ (8 * (size - buf.length)) := by
  have hd : (List.replicate size 0 ++ buf).drop ((List.replicate size 0 ++ buf).length - size)
      = List.replicate (size - buf.length) 0 ++ buf := by
    rw [List.length_append, List.length_replicate, Nat.add_sub_cancel_left,
      List.drop_append_of_le_length (by simp [hl]), List.drop_replicate]
  have hb : ∀ b ∈ List.replicate (size - buf.length) 0 ++ buf, b < 256 := by
    intro b hb
    rcases List.mem_append.mp hb with h1 | h1
    · rw [(List.mem_replicate.mp h1).2]; omega
    · exact h b h1
  simp only [getFloatBits, hd, getIntNat_spec _ hb, le_append, le_replicate_zero, List.length_replicate,
    Nat.zero_add, Nat.mul_comm]

/-! ### header byte -/

theorem hdr_arg (t a : Nat) (ht : t < 32) : (a * 32 + t) >>> argShift = a := by
  simp only [argShift, shr]; omega

theorem hdr_type (t a : Nat) (ht : t < 32) : (a * 32 + t) &&& typeMask = t := by
  have e : typeMask = 2 ^ 5 - 1 := rfl
  rw [e, and_mask]; omega

/-! ### the generated dispatch table, row by row (these break when the if-chain of
`EncodedValue.__init__` changes what a type does) -/
theorem kind_byte : kindOf 0x00 = .sbyte := by decide
theorem kind_short : kindOf 0x02 = .intS := by decide
theorem kind_char : kindOf 0x03 = .intU := by decide
theorem kind_int : kindOf 0x04 = .intS := by decide
theorem kind_long : kindOf 0x06 = .intS := by decide
theorem kind_float : kindOf 0x10 = .float32 := by decide
theorem kind_double : kindOf 0x11 = .float64 := by decide
theorem kind_string : kindOf 0x17 = .str := by decide
theorem kind_type : kindOf 0x18 = .type := by decide
theorem kind_field : kindOf 0x19 = .field := by decide
theorem kind_method : kindOf 0x1a = .method := by decide
theorem kind_enum : kindOf 0x1b = .field := by decide
theorem kind_array : kindOf 0x1c = .array := by decide
theorem kind_annotation : kindOf 0x1d = .annotation := by decide
theorem kind_null : kindOf 0x1e = .null := by decide
theorem kind_boolean : kindOf 0x1f = .bool := by decide

/-! ### from the specification's values to the model's -/

def toCM (P : Pools) : CM := ⟨P.string, P.type, P.field, P.method⟩

mutual
/-- the Python object `EncodedValue.value` the specification's value stands for -/
def embed (P : Pools) : SValue → Value
  | .byte v => .int 0x00 v
  | .short v => .int 0x02 v
  | .char v => .int 0x03 (v : Int)
  | .int v => .int 0x04 v
  | .long v => .int 0x06 v
  | .float b => .float b
  | .double b => .double b
  | .string i => .ref 0x17 [P.string i]
  | .type i => .ref 0x18 [P.type i]
  | .field i => .ref 0x19 (P.field i)
  | .method i => .ref 0x1a (P.method i)
  | .enum i => .ref 0x1b (P.field i)
  | .array vs => .array (embedList P vs)
  | .annotation t es => .annotation t (embedElems P es)
  | .null => .null
  | .boolean b => .bool b
def embedList (P : Pools) : List SValue → List Value
  | [] => []
  | v :: vs => embed P v :: embedList P vs
def embedElems (P : Pools) : List (Nat × SValue) → List (Nat × Value)
  | [] => []
  | (n, v) :: es => (n, embed P v) :: embedElems P es
end

theorem embedList_eq_map (P : Pools) (vs : List SValue) : embedList P vs = vs.map (embed P) := by
  induction vs with
  | nil => rfl
  | cons v vs ih => simp [embedList, ih]

theorem embedElems_eq_map (P : Pools) (es : List (Nat × SValue)) :
    embedElems P es = es.map (fun e => (e.1, embed P e.2)) := by
  induction es with
  | nil => rfl
  | cons e es ih => cases e; simp [embedElems, ih]

/-! ### scalar rows -/

theorem sext8_byte (b : Nat) (hb : b < 256) :
    (if b > 127 then (b : Int) - 256 else (b : Int)) = sext 8 (le [b]) := by
  simp only [sext, le, Nat.mul_zero, Nat.add_zero, Nat.reducePow, Nat.reduceSub]
  by_cases h : b < 128
  · have h' : ¬ b > 127 := by omega
    simp [h, h']
  · have h' : b > 127 := by omega
    simp [h, h']

section step
variable (cm : CM) (dec : List Nat → Except Err (Value × Nat))

theorem take_payload (a : Nat) (p rest : List Nat) (hl : p.length = a + 1) :
    List.take (a + 1) (p ++ rest) = p := by
  rw [← hl]; exact List.take_left

theorem step_intS (t a : Nat) (p rest : List Nat) (ht : t < 32) (hk : kindOf t = .intS)
    (hl : p.length = a + 1) (hp : ∀ b ∈ p, b < 256) :
    decodeStep cm dec (a * 32 + t) (p ++ rest)
      = .ok (.int t (sext (8 * (a + 1)) (le p)), 1 + p.length) := by
  have hne : p ≠ [] := by intro h; simp [h] at hl
  simp only [decodeStep, hdr_arg t a ht, hdr_type t a ht, hk, take_payload a p rest hl,
    getIntValue_signed p hp hne, hl]

theorem step_intU (t a : Nat) (p rest : List Nat) (ht : t < 32) (hk : kindOf t = .intU)
    (hl : p.length = a + 1) (hp : ∀ b ∈ p, b < 256) :
    decodeStep cm dec (a * 32 + t) (p ++ rest) = .ok (.int t (le p : Int), 1 + p.length) := by
  simp only [decodeStep, hdr_arg t a ht, hdr_type t a ht, hk, take_payload a p rest hl,
    getIntValue_unsigned p hp]

theorem step_float32 (t a : Nat) (p rest : List Nat) (ht : t < 32) (hk : kindOf t = .float32)
    (hl : p.length = a + 1) (ha : a ≤ 3) (hp : ∀ b ∈ p, b < 256) :
    decodeStep cm dec (a * 32 + t) (p ++ rest)
      = .ok (.float (le p * 2 ^ (8 * (3 - a))), 1 + p.length) := by
  have e : 4 - p.length = 3 - a := by omega
  simp only [decodeStep, hdr_arg t a ht, hdr_type t a ht, hk, take_payload a p rest hl,
    getFloatBits_spec p hp 4 (by omega), e]

theorem step_float64 (t a : Nat) (p rest : List Nat) (ht : t < 32) (hk : kindOf t = .float64)
    (hl : p.length = a + 1) (ha : a ≤ 7) (hp : ∀ b ∈ p, b < 256) :
    decodeStep cm dec (a * 32 + t) (p ++ rest)
      = .ok (.double (le p * 2 ^ (8 * (7 - a))), 1 + p.length) := by
  have e : 8 - p.length = 7 - a := by omega
  simp only [decodeStep, hdr_arg t a ht, hdr_type t a ht, hk, take_payload a p rest hl,
    getFloatBits_spec p hp 8 (by omega), e]

theorem step_str (t a : Nat) (p rest : List Nat) (ht : t < 32) (hk : kindOf t = .str)
    (hl : p.length = a + 1) (hp : ∀ b ∈ p, b < 256) :
    decodeStep cm dec (a * 32 + t) (p ++ rest)
      = .ok (.ref t [cm.rawString (le p)], 1 + p.length) := by
  simp only [decodeStep, hdr_arg t a ht, hdr_type t a ht, hk, take_payload a p rest hl,
    getIntNat_spec p hp]

theorem step_type (t a : Nat) (p rest : List Nat) (ht : t < 32) (hk : kindOf t = .type)
    (hl : p.length = a + 1) (hp : ∀ b ∈ p, b < 256) :
    decodeStep cm dec (a * 32 + t) (p ++ rest) = .ok (.ref t [cm.type (le p)], 1 + p.length) := by
  simp only [decodeStep, hdr_arg t a ht, hdr_type t a ht, hk, take_payload a p rest hl,
    getIntNat_spec p hp]

theorem step_field (t a : Nat) (p rest : List Nat) (ht : t < 32) (hk : kindOf t = .field)
    (hl : p.length = a + 1) (hp : ∀ b ∈ p, b < 256) :
    decodeStep cm dec (a * 32 + t) (p ++ rest) = .ok (.ref t (cm.field (le p)), 1 + p.length) := by
  simp only [decodeStep, hdr_arg t a ht, hdr_type t a ht, hk, take_payload a p rest hl,
    getIntNat_spec p hp]

theorem step_method (t a : Nat) (p rest : List Nat) (ht : t < 32) (hk : kindOf t = .method)
    (hl : p.length = a + 1) (hp : ∀ b ∈ p, b < 256) :
    decodeStep cm dec (a * 32 + t) (p ++ rest) = .ok (.ref t (cm.method (le p)), 1 + p.length) := by
  simp only [decodeStep, hdr_arg t a ht, hdr_type t a ht, hk, take_payload a p rest hl,
    getIntNat_spec p hp]

theorem step_sbyte (t a b : Nat) (rest : List Nat) (ht : t < 32) (hk : kindOf t = .sbyte)
    (hb : b < 256) :
    decodeStep cm dec (a * 32 + t) (b :: rest) = .ok (.int t (sext 8 (le [b])), 2) := by
  simp only [decodeStep, hdr_type t a ht, hk, sext8_byte b hb]

theorem step_null (t a : Nat) (rest : List Nat) (ht : t < 32) (hk : kindOf t = .null) :
    decodeStep cm dec (a * 32 + t) rest = .ok (.null, 1) := by
  simp only [decodeStep, hdr_type t a ht, hk]

theorem step_bool (t a : Nat) (rest : List Nat) (ht : t < 32) (hk : kindOf t = .bool) :
    decodeStep cm dec (a * 32 + t) rest = .ok (.bool (a != 0), 1) := by
  simp only [decodeStep, hdr_arg t a ht, hdr_type t a ht, hk]

end step

/-- every scalar row of the specification's table is what the code reads -/
theorem decode_scalar (P : Pools) (t a : Nat) (p : List Nat) (v : SValue) (rest : List Nat) (f : Nat)
    (ht : t < 32) (hp : ∀ b ∈ p, b < 256)
    (hs : AgVerif.Spec.EncodedValue.scalar t a p = some v) :
    decodeValue (toCM P) (f + 1) ((a * 32 + t) :: (p ++ rest)) = .ok (embed P v, 1 + p.length) := by
  show decodeStep (toCM P) (decodeValue (toCM P) f) (a * 32 + t) (p ++ rest) = _
  have hcases : t = 0x00 ∨ t = 0x02 ∨ t = 0x03 ∨ t = 0x04 ∨ t = 0x06 ∨ t = 0x10 ∨ t = 0x11 ∨ t = 0x17
      ∨ t = 0x18 ∨ t = 0x19 ∨ t = 0x1a ∨ t = 0x1b ∨ t = 0x1e ∨ t = 0x1f
      ∨ (t ≠ 0x00 ∧ t ≠ 0x02 ∧ t ≠ 0x03 ∧ t ≠ 0x04 ∧ t ≠ 0x06 ∧ t ≠ 0x10 ∧ t ≠ 0x11 ∧ t ≠ 0x17
        ∧ t ≠ 0x18 ∧ t ≠ 0x19 ∧ t ≠ 0x1a ∧ t ≠ 0x1b ∧ t ≠ 0x1e ∧ t ≠ 0x1f) := by omega
  rcases hcases with rfl | rfl | rfl | rfl | rfl | rfl | rfl | rfl | rfl | rfl | rfl | rfl | rfl | rfl | hno
  · -- BYTE
    simp [AgVerif.Spec.EncodedValue.scalar] at hs
    obtain ⟨⟨rfl, hl⟩, rfl⟩ := hs
    obtain ⟨b, rfl⟩ := List.length_eq_one_iff.mp hl
    rw [List.singleton_append, step_sbyte _ _ _ _ _ _ ht kind_byte (hp b (by simp))]
    rfl
  · -- SHORT
    simp [AgVerif.Spec.EncodedValue.scalar] at hs
    obtain ⟨⟨_, hl⟩, rfl⟩ := hs
    rw [step_intS _ _ _ _ _ _ ht kind_short hl hp]; rfl
  · -- CHAR
    simp [AgVerif.Spec.EncodedValue.scalar] at hs
    obtain ⟨⟨_, hl⟩, rfl⟩ := hs
    rw [step_intU _ _ _ _ _ _ ht kind_char hl hp]; rfl
  · -- INT
    simp [AgVerif.Spec.EncodedValue.scalar] at hs
    obtain ⟨⟨_, hl⟩, rfl⟩ := hs
    rw [step_intS _ _ _ _ _ _ ht kind_int hl hp]; rfl
  · -- LONG
    simp [AgVerif.Spec.EncodedValue.scalar] at hs
    obtain ⟨⟨_, hl⟩, rfl⟩ := hs
    rw [step_intS _ _ _ _ _ _ ht kind_long hl hp]; rfl
  · -- FLOAT
    simp [AgVerif.Spec.EncodedValue.scalar] at hs
    obtain ⟨⟨ha, hl⟩, rfl⟩ := hs
    rw [step_float32 _ _ _ _ _ _ ht kind_float hl ha hp]; rfl
  · -- DOUBLE
    simp [AgVerif.Spec.EncodedValue.scalar] at hs
    obtain ⟨⟨ha, hl⟩, rfl⟩ := hs
    rw [step_float64 _ _ _ _ _ _ ht kind_double hl ha hp]; rfl
  · -- STRING
    simp [AgVerif.Spec.EncodedValue.scalar] at hs
    obtain ⟨⟨_, hl⟩, rfl⟩ := hs
    rw [step_str _ _ _ _ _ _ ht kind_string hl hp]; rfl
  · -- TYPE
    simp [AgVerif.Spec.EncodedValue.scalar] at hs
    obtain ⟨⟨_, hl⟩, rfl⟩ := hs
    rw [step_type _ _ _ _ _ _ ht kind_type hl hp]; rfl
  · -- FIELD
    simp [AgVerif.Spec.EncodedValue.scalar] at hs
    obtain ⟨⟨_, hl⟩, rfl⟩ := hs
    rw [step_field _ _ _ _ _ _ ht kind_field hl hp]; rfl
  · -- METHOD
    simp [AgVerif.Spec.EncodedValue.scalar] at hs
    obtain ⟨⟨_, hl⟩, rfl⟩ := hs
    rw [step_method _ _ _ _ _ _ ht kind_method hl hp]; rfl
  · -- ENUM
    simp [AgVerif.Spec.EncodedValue.scalar] at hs
    obtain ⟨⟨_, hl⟩, rfl⟩ := hs
    rw [step_field _ _ _ _ _ _ ht kind_enum hl hp]; rfl
  · -- NULL
    simp [AgVerif.Spec.EncodedValue.scalar] at hs
    obtain ⟨⟨_, rfl⟩, rfl⟩ := hs
    rw [List.nil_append, step_null _ _ _ _ _ ht kind_null]; rfl
  · -- BOOLEAN
    simp [AgVerif.Spec.EncodedValue.scalar] at hs
    obtain ⟨⟨ha, rfl⟩, rfl⟩ := hs
    rw [List.nil_append, step_bool _ _ _ _ _ ht kind_boolean]
    have : (a != 0) = (a == 1) := by
      rcases Nat.le_one_iff_eq_zero_or_eq_one.mp ha with rfl | rfl <;> rfl
    simp [embed, this]
  · obtain ⟨h0, h2, h3, h4, h6, h10, h11, h17, h18, h19, h1a, h1b, h1e, h1f⟩ := hno
    simp [AgVerif.Spec.EncodedValue.scalar, h0, h2, h3, h4, h6, h10, h11, h17, h18, h19, h1a, h1b, h1e, h1f] at hs

/-! ### element lists -/

theorem decodeMany_parts {α β : Type} (dec : List Nat → Except Err (α × Nat)) (parts : List β)
    (bytes : β → List Nat) (val : β → α)
    (h : ∀ p ∈ parts, ∀ rest, dec (bytes p ++ rest) = .ok (val p, (bytes p).length)) (rest : List Nat) :
    decodeMany dec parts.length ((parts.map bytes).flatten ++ rest)
      = .ok (parts.map val, ((parts.map bytes).flatten).length) := by
  induction parts with
  | nil => simp [decodeMany]
  | cons p ps ih =>
    have h1 := h p (by simp) ((ps.map bytes).flatten ++ rest)
    have h2 := ih (fun q hq => h q (by simp [hq]))
    simp only [List.length_cons, List.map_cons, List.flatten_cons, List.append_assoc, decodeMany, h1,
      List.drop_left, h2, List.length_append]

theorem length_le_flatten {β : Type} (parts : List β) (bytes : β → List Nat) (p : β) (hp : p ∈ parts) :
    (bytes p).length ≤ ((parts.map bytes).flatten).length := by
  induction parts with
  | nil => simp at hp
  | cons q qs ih =>
    simp only [List.map_cons, List.flatten_cons, List.length_append]
    rcases List.mem_cons.mp hp with rfl | h
    · omega
    · have := ih h; omega

theorem readUleb_item (item rest : List Nat) (v : Nat) (hi : AgVerif.Spec.Leb.IsItem item)
    (hl : item.length ≤ 5) (hv : AgVerif.Spec.Leb.unsignedValue item = some v) :
    readUleb (item ++ rest) = some (v, item.length) :=
  AgVerif.C03.uleb_decode_spec item rest v hi hl hv

theorem hdr1c_arg : (0x1c : Nat) >>> argShift = 0 := by decide
theorem hdr1c_type : (0x1c : Nat) &&& typeMask = 0x1c := by decide
theorem hdr1d_arg : (0x1d : Nat) >>> argShift = 0 := by decide
theorem hdr1d_type : (0x1d : Nat) &&& typeMask = 0x1d := by decide

/-- Every byte string that is one encoded_value according to the specification (scalars of every
    legal width, arrays and annotations nested to any depth) is decoded to the value it denotes,
    consuming exactly its bytes, whatever follows it, with any recursion bound ≥ its length. -/
theorem decodeValue_encodes (P : Pools) (bs : List Nat) (v : SValue) (h : Encodes bs v) :
    ∀ (rest : List Nat) (f : Nat), bs.length ≤ f →
      decodeValue (toCM P) f (bs ++ rest) = .ok (embed P v, bs.length) := by
  induction h with
  | scalar t a p v ht _ hp hs =>
    intro rest f hf
    obtain ⟨f', rfl⟩ : ∃ f', f = f' + 1 := ⟨f - 1, by simp at hf; omega⟩
    rw [List.cons_append, decode_scalar P t a p v rest f' ht hp hs, List.length_cons, Nat.add_comm]
  | array item parts hi hl hv _ ih =>
    intro rest f hf
    obtain ⟨f', rfl⟩ : ∃ f', f = f' + 1 := ⟨f - 1, by simp at hf; omega⟩
    simp only [List.length_cons, List.length_append] at hf
    have hparts : ∀ p ∈ parts, ∀ rest, decodeValue (toCM P) f' (p.1 ++ rest)
        = .ok (embed P p.2, p.1.length) := by
      intro p hp rest
      have := length_le_flatten parts (·.1) p hp
      exact ih p hp rest f' (by omega)
    have hm := decodeMany_parts (decodeValue (toCM P) f') parts (·.1) (fun p => embed P p.2) hparts rest
    show decodeStep (toCM P) (decodeValue (toCM P) f') 0x1c ((item ++ (parts.map (·.1)).flatten) ++ rest) = _
    simp only [decodeStep, hdr1c_type, kind_array, List.append_assoc,
      readUleb_item item _ _ hi hl hv, List.drop_left, hm, embed, embedList_eq_map, List.map_map,
      List.length_cons, List.length_append]
    congr 2
    omega
  | annotation titem sitem typeIdx parts hti htl htv hsi hsl hsv hnames _ ih =>
    intro rest f hf
    obtain ⟨f', rfl⟩ : ∃ f', f = f' + 1 := ⟨f - 1, by simp at hf; omega⟩
    simp only [List.length_cons, List.length_append] at hf
    have hparts : ∀ p ∈ parts, ∀ rest, decodeElem (decodeValue (toCM P) f') ((p.nameItem ++ p.bytes) ++ rest)
        = .ok ((p.name, embed P p.value), (p.nameItem ++ p.bytes).length) := by
      intro p hp rest
      have hlen := length_le_flatten parts (fun p => p.nameItem ++ p.bytes) p hp
      simp only [List.length_append] at hlen
      obtain ⟨hn1, hn2, hn3⟩ := hnames p hp
      have := ih p hp rest f' (by omega)
      simp only [decodeElem, List.append_assoc, readUleb_item p.nameItem _ _ hn1 hn2 hn3, List.drop_left,
        this, List.length_append]
    have hm := decodeMany_parts (decodeElem (decodeValue (toCM P) f')) parts
      (fun p => p.nameItem ++ p.bytes) (fun p => (p.name, embed P p.value)) hparts rest
    show decodeStep (toCM P) (decodeValue (toCM P) f') 0x1d
      ((titem ++ (sitem ++ (parts.map (fun p => p.nameItem ++ p.bytes)).flatten)) ++ rest) = _
    have hd : ∀ (X : List Nat), List.drop (titem.length + sitem.length) (titem ++ (sitem ++ X)) = X := by
      intro X
      rw [← List.append_assoc, ← List.length_append, List.drop_left]
    simp only [decodeStep, hdr1d_type, kind_annotation, List.append_assoc,
      readUleb_item titem _ _ hti htl htv, List.drop_left, readUleb_item sitem _ _ hsi hsl hsv, hd, hm,
      embed, embedElems_eq_map, List.map_map, List.length_cons, List.length_append]
    congr 2
    omega

/-! ### set_static_fields -/

theorem bindLoop_length {α : Type} (vs : List α) (i : Nat) (fields : List (Option α)) :
    (bindLoop vs i fields).length = fields.length := by
  induction vs generalizing i fields with
  | nil => rfl
  | cons v vs ih => simp [bindLoop, ih]

theorem bindLoop_get {α : Type} (vs : List α) (i : Nat) (fields : List (Option α)) (j : Nat) :
    (bindLoop vs i fields)[j]? =
      if i ≤ j ∧ j < i + vs.length ∧ j < fields.length then some (vs[j - i]?) else fields[j]? := by
  induction vs generalizing i fields with
  | nil =>
    have : ¬ (i ≤ j ∧ j < i + 0 ∧ j < fields.length) := by omega
    simp [bindLoop]
    intro h1 h2; omega
  | cons v vs ih =>
    rw [bindLoop, ih, List.length_set, List.getElem?_set]
    by_cases hij : i = j
    · subst hij
      have c1 : ¬ (i + 1 ≤ i ∧ i < i + 1 + vs.length ∧ i < fields.length) := by omega
      rw [if_neg c1]
      by_cases hl : i < fields.length
      · have c2 : i ≤ i ∧ i < i + (v :: vs).length ∧ i < fields.length := by
          simp only [List.length_cons]; omega
        simp [hl]
      · have c2 : ¬ (i ≤ i ∧ i < i + (v :: vs).length ∧ i < fields.length) := by omega
        have hn : fields[i]? = none := List.getElem?_eq_none (by omega)
        simp [hl]
    · by_cases c : i + 1 ≤ j ∧ j < i + 1 + vs.length ∧ j < fields.length
      · have c2 : i ≤ j ∧ j < i + (v :: vs).length ∧ j < fields.length := by
          simp only [List.length_cons]; omega
        have e : j - i = (j - (i + 1)) + 1 := by omega
        rw [if_pos c, if_pos c2, e, List.getElem?_cons_succ]
      · have c2 : ¬ (i ≤ j ∧ j < i + (v :: vs).length ∧ j < fields.length) := by
          simp only [List.length_cons]; omega
        rw [if_neg c, if_neg c2, if_neg hij]

theorem bindStatics_spec {α : Type} (vs : List α) (n : Nat) (h : vs.length ≤ n) (i : Nat) :
    (bindStatics (some vs) (List.replicate n none))[i]? = AgVerif.Spec.EncodedValue.staticInit vs n i ∧
    (bindStatics (some vs) (List.replicate n none)).length = n := by
  have e : bindStatics (some vs) (List.replicate n (none : Option α))
      = bindLoop vs 0 (List.replicate n none) := by
    simp [bindStatics, h]
  rw [e, bindLoop_length, bindLoop_get]
  refine ⟨?_, by simp⟩
  simp only [List.length_replicate, AgVerif.Spec.EncodedValue.staticInit, Nat.zero_le, true_and,
    Nat.zero_add, Nat.sub_zero]
  by_cases hi : i < n
  · by_cases hv : i < vs.length
    · simp [hi, hv]
    · simp [hi, hv]
  · simp [hi]

end AgVerif.EncodedValue
