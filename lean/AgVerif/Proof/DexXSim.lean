/-
The extended loader (Model/DexFileX.lean) refines the base loader (Model/DexFile.lean): whenever
`stepX` / `loadEntriesX` / `parseDexX` succeed, `step` / `loadEntries` / `parseDex` succeed on the
base component with the base component of the result.  (The converse is false: the extended loader
also raises what ClassDefItem.reload raises for a missing annotations directory / encoded array.)
-/
import AgVerif.Model.DexFileX
import AgVerif.Proof.DexFrame
namespace AgVerif.DexX
open AgVerif.DexFile AgVerif.LoadOrder AgVerif.DexFrame

theorem mapE_fst {α β γ ε} (f : α → Except ε β) (g : α → Except ε (β × γ))
    (h : ∀ x r, g x = .ok r → f x = .ok r.1) :
    ∀ (l : List α) (rs : List (β × γ)), mapE g l = .ok rs → mapE f l = .ok (rs.map (·.1))
  | [], rs, hm => by
    simp only [mapE, Except.ok.injEq] at hm
    subst hm
    rfl
  | x :: xs, rs, hm => by
    simp only [mapE] at hm
    cases hg : g x with
    | error e => simp [hg] at hm
    | ok r =>
      simp only [hg] at hm
      cases hg' : mapE g xs with
      | error e => simp [hg'] at hm
      | ok rs' =>
        simp only [hg', Except.ok.injEq] at hm
        subst hm
        simp only [mapE, h x r hg, mapE_fst f g h xs rs' hg', List.map_cons]

theorem resolveClassFull_fst (cx : CMx) (c : ClassDef) (r : ClassR × ClassX × Option (Nat × List EncodedValue.Value))
    (h : resolveClassFull cx c = .ok r) : resolveClass cx.base c = .ok r.1 := by
  unfold resolveClassFull at h
  cases hr : resolveClass cx.base c with
  | error e => simp [hr] at h
  | ok r0 =>
    simp only [hr] at h
    cases hx : resolveClassX cx c r0.data with
    | error e => simp [hx] at h
    | ok p =>
      obtain ⟨x, log⟩ := p
      simp only [hx, Except.ok.injEq] at h
      subst h
      rfl

/-- one map entry: the base component of `stepX` is `step` -/
theorem stepX_base (file : Bytes) (cx cx' : CMx) (e : MapEntry) (h : stepX file cx e = .ok cx') :
    step file cx.base e = .ok cx'.base := by
  unfold stepX at h
  by_cases h1 : e.type = 0x2005
  · have hn : e.type ∉ modelled := by rw [h1]; decide
    rw [step_other _ _ _ hn]
    simp only [h1, ↓reduceIte] at h
    cases hd : decSeqX (decArrayX (lookOf cx.base)) file e.size e.offset with
    | error x => simp [hd] at h
    | ok l => simp only [hd, Except.ok.injEq] at h; subst h; rfl
  by_cases h2 : e.type = 0x2004
  · have hn : e.type ∉ modelled := by rw [h2]; decide
    rw [step_other _ _ _ hn]
    simp only [h2, Nat.reduceEqDiff, ↓reduceIte] at h
    cases hd : decSeqX (decAnnItemX (lookOf cx.base)) file e.size e.offset with
    | error x => simp [hd] at h
    | ok l => simp only [hd, Except.ok.injEq] at h; subst h; rfl
  by_cases h3 : e.type = 0x1003
  · have hn : e.type ∉ modelled := by rw [h3]; decide
    rw [step_other _ _ _ hn]
    simp only [h3, Nat.reduceEqDiff, ↓reduceIte] at h
    cases hd : structErr (decSeq decOffList file e.size (seek4 e.offset)) with
    | error x => simp [hd] at h
    | ok l => simp only [hd, Except.ok.injEq] at h; subst h; rfl
  by_cases h4 : e.type = 0x1002
  · have hn : e.type ∉ modelled := by rw [h4]; decide
    rw [step_other _ _ _ hn]
    simp only [h4, Nat.reduceEqDiff, ↓reduceIte] at h
    cases hd : structErr (decSeq decOffList file e.size (seek4 e.offset)) with
    | error x => simp [hd] at h
    | ok l => simp only [hd, Except.ok.injEq] at h; subst h; rfl
  by_cases h5 : e.type = 0x2006
  · have hn : e.type ∉ modelled := by rw [h5]; decide
    rw [step_other _ _ _ hn]
    simp only [h5, Nat.reduceEqDiff, ↓reduceIte] at h
    cases hd : structErr (decSeq decAnnDir file e.size (seek4 e.offset)) with
    | error x => simp [hd] at h
    | ok l => simp only [hd, Except.ok.injEq] at h; subst h; rfl
  by_cases h6 : e.type = 0x0006
  · rw [step_6 _ _ _ h6]
    simp only [h6, Nat.reduceEqDiff, ↓reduceIte] at h
    cases hd : structErr (decSeq decClassDef file e.size (seek4 e.offset)) with
    | error x => simp [hd] at h
    | ok l =>
      simp only [hd] at h
      cases hm : mapE (fun p : Nat × ClassDef => resolveClassFull cx p.2) l with
      | error x => simp [hm] at h
      | ok rs =>
        simp only [hm, Except.ok.injEq] at h
        subst h
        have := mapE_fst (fun p : Nat × ClassDef => resolveClass cx.base p.2)
          (fun p : Nat × ClassDef => resolveClassFull cx p.2)
          (fun x r hr => resolveClassFull_fst cx x.2 r hr) l rs hm
        simp only [Except.bind, this]
  · simp only [h1, h2, h3, h4, h5, h6, ↓reduceIte] at h
    cases hs : step file cx.base e with
    | error x => simp [hs] at h
    | ok b => simp only [hs, Except.ok.injEq] at h; subst h; rfl

theorem foldX_base (file : Bytes) : ∀ (es : List MapEntry) (cx cx' : CMx),
    foldSteps (stepX file) cx es = .ok cx' → foldSteps (step file) cx.base es = .ok cx'.base
  | [], cx, cx', h => by
    simp only [foldSteps, Except.ok.injEq] at h
    subst h
    rfl
  | e :: es, cx, cx', h => by
    simp only [foldSteps] at h ⊢
    cases hs : stepX file cx e with
    | error x => simp [hs] at h
    | ok c1 =>
      simp only [hs] at h
      rw [stepX_base file cx c1 e hs]
      exact foldX_base file es c1 cx' h

theorem loadEntriesX_base (file : Bytes) (es : List MapEntry) (cx : CMx)
    (h : loadEntriesX file es = .ok cx) : loadEntries file es = .ok cx.base := by
  unfold loadEntriesX loadWith at h
  unfold loadEntries loadWith
  cases ho : orderEntries Gen.MapDeps.loadOrder es with
  | none => simp [ho] at h
  | some ordered =>
    simp only [ho] at h ⊢
    exact foldX_base file ordered {} cx h

theorem viewOfX_base (cx : CMx) (v : DexVX) (h : viewOfX cx = .ok v) : viewOf cx.base = .ok v.base := by
  unfold viewOfX at h
  cases hv : viewOf cx.base with
  | error e => simp [hv] at h
  | ok b =>
    simp only [hv] at h
    cases hm : mapE (viewClassX cx) ((cx.base.classDefs.getD []).zip cx.classX) with
    | error e => simp [hm] at h
    | ok cs => simp only [hm, Except.ok.injEq] at h; subst h; rfl

/-- the base view of the extended parse is the base parse -/
theorem parseDexX_base (file : Bytes) (v : DexVX) (h : parseDexX file = .ok v) :
    parseDex file = .ok v.base := by
  unfold parseDexX at h
  unfold parseDex
  cases hu : u32 (file.drop 0x34) with
  | none => simp [hu] at h
  | some p =>
    obtain ⟨mapOff, r⟩ := p
    simp only [hu] at h ⊢
    by_cases h0 : mapOff = 0
    · simp only [h0, ↓reduceIte, Except.ok.injEq] at h ⊢
      subst h
      rfl
    · simp only [h0, ↓reduceIte] at h ⊢
      cases hm : readMap file mapOff with
      | error e => simp [hm] at h
      | ok es =>
        simp only [hm] at h ⊢
        cases hl : loadEntriesX file es with
        | error e => simp [hl] at h
        | ok cx =>
          simp only [hl] at h
          rw [loadEntriesX_base file es cx hl]
          exact viewOfX_base cx v h

end AgVerif.DexX
