/- C26: the model-side `treeOf` of a well-formed document is the specification tree `specTreeOf`. -/
import AgVerif.Spec.AxmlDoc
import AgVerif.Proof.AxmlSpecValue
import AgVerif.Proof.Axml
namespace AgVerif.Proof.AxmlDoc
open AgVerif.Axml AgVerif.Spec.Axml AgVerif.Proof.Axml AgVerif.Proof.AxmlSpecValue
open AgVerif.Spec.AxmlTree (XAttr XNode valueString)

theorem foldl_setAttr_distinct (opq : Nat → Nat → Str) (l : List SAttr) (acc : List Attr)
    (h : ((acc.map fun b => (b.ns, b.name)) ++ (l.map fun a => (a.ns.getD [], a.name))).Nodup) :
    l.foldl (fun acc a => setAttr (attrOf opq a) acc) acc = acc ++ l.map (attrOf opq) := by
  induction l generalizing acc with
  | nil => simp
  | cons a r ih =>
    simp only [List.foldl_cons, List.map_cons]
    have hfresh : ∀ b ∈ acc, ¬ (b.ns = (attrOf opq a).ns ∧ b.name = (attrOf opq a).name) := by
      intro b hb hc
      rw [List.nodup_append] at h
      have := h.2.2 (b.ns, b.name) (List.mem_map.2 ⟨b, hb, rfl⟩) (a.ns.getD [], a.name) (by simp)
      exact this (by simp only [attrOf] at hc; rw [hc.1, hc.2])
    rw [setAttr_fresh _ _ hfresh, ih]
    · simp
    · simp only [List.map_append, List.map_cons, List.map_nil, attrOf, List.append_assoc, List.cons_append, List.nil_append]
      simpa using h

theorem attrsOf_distinct (opq : Nat → Nat → Str) (l : List SAttr) (h : (l.map fun a => (a.ns.getD [], a.name)).Nodup) :
    attrsOf opq l = l.map (attrOf opq) := by
  unfold attrsOf
  rw [foldl_setAttr_distinct opq l [] (by simpa using h)]
  simp

theorem attr_spec (opq : Nat → Nat → Str) (E : Enc) (a : SAttr) (h : wfAttr opq E a = true) :
    toXAttr (attrOf opq a) = specAttrOf opq a := by
  simp only [wfAttr, Bool.and_eq_true, decide_eq_true_eq] at h
  simp only [toXAttr, attrOf, specAttrOf]
  rw [formatValue_eq_valueString opq a.ty a.data a.str h.1.1.1.1.2 h.1.1.2]

theorem attrs_spec (opq : Nat → Nat → Str) (E : Enc) (l : List SAttr) (h : l.all (wfAttr opq E) = true) :
    (l.map (attrOf opq)).map toXAttr = l.map (specAttrOf opq) := by
  induction l with
  | nil => rfl
  | cons a r ih =>
    simp only [List.all_cons, Bool.and_eq_true] at h
    simp only [List.map_cons, attr_spec opq E a h.1, ih h.2]

mutual
theorem tree_spec (opq : Nat → Nat → Str) (E : Enc) (d : SNode) (hwf : wfNode opq E d = true) (hd : distinctAttrs d) :
    toX (treeOf opq d) = specTreeOf opq d := by
  match d with
  | .text _ s => simp [treeOf, toX, specTreeOf]
  | .elem line tag ns decls attrs kids =>
    simp only [wfNode, Bool.and_eq_true] at hwf
    simp only [distinctAttrs] at hd
    simp only [treeOf, toX, specTreeOf]
    rw [attrsOf_distinct opq attrs hd.1, attrs_spec opq E attrs hwf.1.2, trees_spec opq E kids hwf.2 hd.2]
theorem trees_spec (opq : Nat → Nat → Str) (E : Enc) (l : List SNode) (hwf : wfNodes opq E l = true) (hd : distinctAttrsL l) :
    toXL (treeOfL opq l) = specTreeOfL opq l := by
  match l with
  | [] => simp [treeOfL, toXL, specTreeOfL]
  | n :: r =>
    simp only [wfNodes, Bool.and_eq_true] at hwf
    simp only [distinctAttrsL] at hd
    simp only [treeOfL, toXL, specTreeOfL]
    rw [tree_spec opq E n hwf.1 hd.1, trees_spec opq E r hwf.2 hd.2]
end

end AgVerif.Proof.AxmlDoc
