/-
C20 helper lemmas, part 2: the work-list loop.  Semantic description of one iteration, the invariants
(monotonicity, "every violated equation is on the work list", below every pre-solution, inside the
universe of definitions), the termination measure.  Core Lean only.
-/
import AgVerif.Proof.ReachDefSets
namespace AgVerif.ReachDef
open AgVerif.Spec.ReachDef

theorem mem_inSet {g : Prog} {A : Nat → List Int} {v : Nat} {d : Int} :
    d ∈ inSet g A v ↔ d ∈ initOf g v ∨ ∃ p, p < nA g ∧ v ∈ sucsA g p ∧ d ∈ A p := by
  unfold inSet predsOf
  rw [mem_foldl_uni]
  simp only [List.mem_filter, List.mem_range, List.contains_eq_mem, decide_eq_true_eq]
  constructor
  · rintro (h | ⟨p, ⟨hp, hv⟩, hd⟩)
    · exact Or.inl h
    · exact Or.inr ⟨p, hp, hv, hd⟩
  · rintro (h | ⟨p, hp, hv, hd⟩)
    · exact Or.inl h
    · exact Or.inr ⟨p, ⟨hp, hv⟩, hd⟩

theorem mem_outSet {g : Prog} {v : Nat} {R : List Int} {d : Int} :
    d ∈ outSet g v R ↔ (d ∈ R ∧ d ∉ killed g v) ∨ d ∈ DB g v := by
  simp [outSet, mem_uni, List.mem_filter]

theorem inSet_mono {g : Prog} {A A' : Nat → List Int} (h : ∀ p d, d ∈ A p → d ∈ A' p) {v : Nat} {d : Int}
    (hd : d ∈ inSet g A v) : d ∈ inSet g A' v := by
  rw [mem_inSet] at hd ⊢
  rcases hd with hd | ⟨p, hp, hv, hd⟩
  · exact Or.inl hd
  · exact Or.inr ⟨p, hp, hv, h p d hd⟩

theorem outSet_mono {g : Prog} {v : Nat} {R R' : List Int} (h : ∀ d, d ∈ R → d ∈ R') {d : Int}
    (hd : d ∈ outSet g v R) : d ∈ outSet g v R' := by
  rw [mem_outSet] at hd ⊢
  rcases hd with ⟨hd, hk⟩ | hd
  · exact Or.inl ⟨h d hd, hk⟩
  · exact Or.inr hd

/-! ### one iteration, described by membership -/

def chR (g : Prog) (st : St) (v : Nat) : Bool :=
  !(inSet g st.A v).isEmpty && !setEq (inSet g st.A v) (st.R v)
def R1 (g : Prog) (st : St) (v : Nat) : Nat → List Int :=
  if chR g st v then upd st.R v (inSet g st.A v) else st.R
def chA (g : Prog) (st : St) (v : Nat) : Bool := !setEq (outSet g v (R1 g st v v)) (st.A v)
def A1 (g : Prog) (st : St) (v : Nat) : Nat → List Int :=
  if chA g st v then upd st.A v (outSet g v (R1 g st v v)) else st.A
def wl1 (g : Prog) (st : St) (v : Nat) (rest : List Nat) : List Nat :=
  if chR g st v then pushAll rest (sucsA g v) else rest
def wl2 (g : Prog) (st : St) (v : Nat) (rest : List Nat) : List Nat :=
  if chA g st v then pushAll (wl1 g st v rest) (sucsA g v) else wl1 g st v rest

theorem step_eq {g : Prog} {st : St} {v : Nat} {rest : List Nat} (hwl : st.wl = v :: rest) :
    step g st = { R := R1 g st v, A := A1 g st v, wl := wl2 g st v rest, steps := st.steps + 1 } := by
  unfold step
  rw [hwl]
  rfl

theorem R1_mem {g : Prog} {st : St} {v : Nat} (h1 : ∀ d, d ∈ st.R v → d ∈ inSet g st.A v) (w : Nat) (d : Int) :
    d ∈ R1 g st v w ↔ if w = v then d ∈ inSet g st.A v else d ∈ st.R w := by
  unfold R1
  by_cases hc : chR g st v = true
  · rw [if_pos hc]; unfold upd
    by_cases hw : w = v <;> simp [hw]
  · rw [if_neg hc]
    by_cases hw : w = v
    · subst hw
      simp only [if_true]
      unfold chR at hc
      simp only [Bool.and_eq_true, Bool.not_eq_eq_eq_not, Bool.not_true, not_and, Bool.not_eq_false] at hc
      by_cases he : (inSet g st.A w).isEmpty = true
      · have hnil : inSet g st.A w = [] := by simpa using he
        constructor
        · exact h1 d
        · intro h; rw [hnil] at h; simp at h
      · have := hc (by simpa using he)
        exact ((setEq_iff.1 this) d).symm
    · simp [hw]

theorem A1_mem {g : Prog} {st : St} {v : Nat} (w : Nat) (d : Int) :
    d ∈ A1 g st v w ↔ if w = v then d ∈ outSet g v (R1 g st v v) else d ∈ st.A w := by
  unfold A1
  by_cases hc : chA g st v = true
  · rw [if_pos hc]; unfold upd
    by_cases hw : w = v <;> simp [hw]
  · rw [if_neg hc]
    by_cases hw : w = v
    · subst hw
      simp only [if_true]
      unfold chA at hc
      simp only [Bool.not_eq_eq_eq_not, Bool.not_true, Bool.not_eq_false] at hc
      exact ((setEq_iff.1 hc) d).symm
    · simp [hw]

theorem rest_sub_wl2 {g : Prog} {st : St} {v : Nat} {rest : List Nat} {x : Nat} (hx : x ∈ rest) :
    x ∈ wl2 g st v rest := by
  have h1 : x ∈ wl1 g st v rest := by
    unfold wl1; split
    · exact (mem_pushAll _ _ _).2 (Or.inl hx)
    · exact hx
  unfold wl2; split
  · exact (mem_pushAll _ _ _).2 (Or.inl h1)
  · exact h1

theorem wl2_sub {g : Prog} {st : St} {v : Nat} {rest : List Nat} {x : Nat} (hx : x ∈ wl2 g st v rest) :
    x ∈ rest ∨ x ∈ sucsA g v := by
  have h1 : ∀ x, x ∈ wl1 g st v rest → x ∈ rest ∨ x ∈ sucsA g v := by
    intro x hx; unfold wl1 at hx; split at hx
    · exact (mem_pushAll _ _ _).1 hx
    · exact Or.inl hx
  unfold wl2 at hx; split at hx
  · rcases (mem_pushAll _ _ _).1 hx with h | h
    · exact h1 x h
    · exact Or.inr h
  · exact h1 x hx

/-- when `A[v]` changes (as a set), every successor of `v` is on the work list afterwards -/
theorem pushed_of_A_changed {g : Prog} {st : St} {v : Nat} {rest : List Nat}
    (hch : ¬ ∀ d, d ∈ A1 g st v v ↔ d ∈ st.A v) {s : Nat} (hs : s ∈ sucsA g v) : s ∈ wl2 g st v rest := by
  have hc : chA g st v = true := by
    cases h : chA g st v
    · exfalso; apply hch; intro d; unfold A1; rw [h]; simp
    · rfl
  unfold wl2; rw [if_pos hc]
  exact (mem_pushAll _ _ _).2 (Or.inr hs)

theorem length_wl2_le {g : Prog} {st : St} {v : Nat} {rest : List Nat} :
    (wl2 g st v rest).length ≤ rest.length + 2 * (sucsA g v).length := by
  have h1 : (wl1 g st v rest).length ≤ rest.length + (sucsA g v).length := by
    unfold wl1; split
    · exact length_pushAll_le _ _
    · omega
  unfold wl2; split
  · have := length_pushAll_le (sucsA g v) (wl1 g st v rest); omega
  · omega

/-! ### invariants -/

structure Inv (g : Prog) (st : St) : Prop where
  /-- `R[v] ⊆ ⋃ A[pred]` -/
  rIn : ∀ v d, d ∈ st.R v → d ∈ inSet g st.A v
  /-- `A[v] ⊆ f_v(R[v])` -/
  aOut : ∀ v d, d ∈ st.A v → d ∈ outSet g v (st.R v)
  /-- a node that is not on the work list satisfies both of its equations -/
  fix : ∀ v, v < nA g → v ∉ st.wl →
    (∀ d, d ∈ inSet g st.A v → d ∈ st.R v) ∧ (∀ d, d ∈ outSet g v (st.R v) → d ∈ st.A v)

theorem inv_init (g : Prog) : Inv g (init g) := by
  refine ⟨?_, ?_, ?_⟩
  · intro v d h; simp [init] at h
  · intro v d h; simp [init] at h
  · intro v hv hn; exfalso; apply hn; simp [init, List.mem_range, hv]

theorem R_sub_R1 {g : Prog} {st : St} (hI : Inv g st) {v : Nat} (w : Nat) (d : Int) (h : d ∈ st.R w) :
    d ∈ R1 g st v w := by
  rw [R1_mem (hI.rIn v)]
  by_cases hw : w = v
  · subst hw; simp only [if_true]; exact hI.rIn w d h
  · simp only [hw, if_false]; exact h

theorem A_sub_A1 {g : Prog} {st : St} (hI : Inv g st) {v : Nat} (w : Nat) (d : Int) (h : d ∈ st.A w) :
    d ∈ A1 g st v w := by
  rw [A1_mem]
  by_cases hw : w = v
  · subst hw; simp only [if_true]
    exact outSet_mono (fun d hd => R_sub_R1 hI w d hd) (hI.aOut w d h)
  · simp only [hw, if_false]; exact h

theorem inv_step {g : Prog} {st : St} (hI : Inv g st) {v : Nat} {rest : List Nat} (hwl : st.wl = v :: rest) :
    Inv g (step g st) := by
  rw [step_eq hwl]
  have hR := R1_mem (g := g) (st := st) (v := v) (hI.rIn v)
  have hA := A1_mem (g := g) (st := st) (v := v)
  refine ⟨?_, ?_, ?_⟩
  · intro w d h
    show d ∈ inSet g (A1 g st v) w
    have h' := (hR w d).1 h
    apply inSet_mono (fun p d hd => A_sub_A1 hI p d hd)
    by_cases hw : w = v
    · subst hw; simpa using h'
    · simp only [hw, if_false] at h'; exact hI.rIn w d h'
  · intro w d h
    show d ∈ outSet g w (R1 g st v w)
    have h' := (hA w d).1 h
    by_cases hw : w = v
    · subst hw; simpa using h'
    · simp only [hw, if_false] at h'
      exact outSet_mono (fun d hd => R_sub_R1 hI w d hd) (hI.aOut w d h')
  · intro w hw hnw
    show (∀ d, d ∈ inSet g (A1 g st v) w → d ∈ R1 g st v w) ∧
      (∀ d, d ∈ outSet g w (R1 g st v w) → d ∈ A1 g st v w)
    have hnw' : w ∉ wl2 g st v rest := hnw
    -- membership in A1 equals membership in A, except possibly at v; and if it differs at v, successors are pushed
    have hAeq : ∀ p, w ∈ sucsA g p → ∀ d, d ∈ A1 g st v p → d ∈ st.A p := by
      intro p hp d hd
      by_cases hpv : p = v
      · subst hpv
        by_cases hch : ∀ d, d ∈ A1 g st p p ↔ d ∈ st.A p
        · exact (hch d).1 hd
        · exact absurd (pushed_of_A_changed hch hp) hnw'
      · have := (hA p d).1 hd; simpa [hpv] using this
    have hin : ∀ d, d ∈ inSet g (A1 g st v) w → d ∈ inSet g st.A w := by
      intro d hd
      rw [mem_inSet] at hd ⊢
      rcases hd with hd | ⟨p, hp, hwp, hd⟩
      · exact Or.inl hd
      · exact Or.inr ⟨p, hp, hwp, hAeq p hwp d hd⟩
    by_cases hwv : w = v
    · subst hwv
      constructor
      · intro d hd
        rw [hR]; simp only [if_true]; exact hin d hd
      · intro d hd
        rw [hA]; simp only [if_true]; exact hd
    · have hnot : w ∉ st.wl := by
        rw [hwl]; intro hmem
        rcases List.mem_cons.1 hmem with h | h
        · exact hwv h
        · exact hnw' (rest_sub_wl2 h)
      obtain ⟨f1, f2⟩ := hI.fix w hw hnot
      constructor
      · intro d hd
        rw [hR]; simp only [hwv, if_false]; exact f1 d (hin d hd)
      · intro d hd
        rw [hA]; simp only [hwv, if_false]
        apply f2
        refine outSet_mono (fun d hd => ?_) hd
        have := (hR w d).1 hd; simpa [hwv] using this

/-! ### below every pre-solution -/

/-- a pre-solution of the data-flow equations, as predicates -/
structure PreSol (g : Prog) (SR SA : Nat → Int → Prop) : Prop where
  init : ∀ v d, d ∈ initOf g v → SR v d
  edge : ∀ p v d, p < nA g → v ∈ sucsA g p → SA p d → SR v d
  pass : ∀ v d, SR v d → d ∉ killed g v → SA v d
  gen : ∀ v d, d ∈ DB g v → SA v d

def Below (st : St) (SR SA : Nat → Int → Prop) : Prop :=
  (∀ v d, d ∈ st.R v → SR v d) ∧ (∀ v d, d ∈ st.A v → SA v d)

theorem below_step {g : Prog} {st : St} {SR SA : Nat → Int → Prop} (hP : PreSol g SR SA) (hI : Inv g st)
    (hB : Below st SR SA) {v : Nat} {rest : List Nat} (hwl : st.wl = v :: rest) : Below (step g st) SR SA := by
  rw [step_eq hwl]
  have hR := R1_mem (g := g) (st := st) (v := v) (hI.rIn v)
  have hA := A1_mem (g := g) (st := st) (v := v)
  have hBR : ∀ w d, d ∈ R1 g st v w → SR w d := by
    intro w d h
    have h' := (hR w d).1 h
    by_cases hw : w = v
    · subst hw
      simp only [if_true] at h'
      rcases mem_inSet.1 h' with h0 | ⟨p, hp, hwp, hd⟩
      · exact hP.init w d h0
      · exact hP.edge p w d hp hwp (hB.2 p d hd)
    · simp only [hw, if_false] at h'; exact hB.1 w d h'
  refine ⟨hBR, ?_⟩
  intro w d h
  have h' := (hA w d).1 h
  by_cases hw : w = v
  · subst hw
    simp only [if_true] at h'
    rcases mem_outSet.1 h' with ⟨hd, hk⟩ | hd
    · exact hP.pass w d (hBR w d hd) hk
    · exact hP.gen w d hd
  · simp only [hw, if_false] at h'; exact hB.2 w d h'

/-- generic induction over the loop -/
theorem run_ind {g : Prog} (P : St → Prop)
    (hstep : ∀ st v rest, st.wl = v :: rest → P st → P (step g st)) :
    ∀ fuel st, P st → P (run g fuel st) := by
  intro fuel
  induction fuel with
  | zero => intro st h; exact h
  | succ f ih =>
    intro st h
    unfold run
    cases hwl : st.wl with
    | nil => exact h
    | cons v rest => exact ih _ (hstep st v rest hwl h)

theorem inv_run (g : Prog) (fuel : Nat) : Inv g (run g fuel (init g)) :=
  run_ind (Inv g) (fun _ _ _ hwl h => inv_step h hwl) fuel _ (inv_init g)

theorem below_run {g : Prog} {SR SA : Nat → Int → Prop} (hP : PreSol g SR SA) (fuel : Nat) :
    Below (run g fuel (init g)) SR SA := by
  have := run_ind (g := g) (fun st => Inv g st ∧ Below st SR SA)
    (fun st v rest hwl h => ⟨inv_step h.1 hwl, below_step hP h.1 h.2 hwl⟩) fuel (init g)
    ⟨inv_init g, by constructor <;> intro v d h <;> simp [init] at h⟩
  exact this.2

end AgVerif.ReachDef
