/-
C28 deepening, step 4a: a ResTable_config and an entry at a cursor of the file: `readConfig`,
`readEntry` (through `reader_eq_decoder_entry` and the L1 round trips).  Core Lean only.
-/
import AgVerif.Proof.ArscStr
namespace AgVerif.Arsc
open AgVerif.Gen.ArscConsts AgVerif.Spec.Arsc
attribute [local irreducible] enc16 enc32

theorem readConfig_of {b : Buf} {q w1 w2 w3 w4 w5 w6 w7 w8 w9 : Nat}
    (h0 : rd32 b q = some 64) (h1 : rd32 b (q + 4) = some w1) (h2 : rd32 b (q + 8) = some w2)
    (h3 : rd32 b (q + 12) = some w3) (h4 : rd32 b (q + 16) = some w4) (h5 : rd32 b (q + 20) = some w5)
    (h6 : rd32 b (q + 24) = some w6) (h7 : rd32 b (q + 28) = some w7) (h8 : rd32 b (q + 32) = some w8)
    (h9 : rd32 b (q + 48) = some w9) (hsz : q + 52 ≤ b.size) :
    readConfig b q = some ([w1, w2, w3, w4, w5, w6, w7, w8, w9], q + 64) := by
  unfold readConfig
  simp only [h0, h1, h2, h3, Option.bind_eq_bind, Option.bind_some, Option.pure_def]
  simp [h4, h5, h6, h7, h8, h9]
  split <;> omega

theorem replicate_append_at {bs r : List Nat} {p n : Nat} (h : bs.drop p = List.replicate n 0 ++ r) :
    bs.drop (p + n) = r := drop_at' n h (by simp)

theorem readConfig_at {bs r : List Nat} {q : Nat} (c : Config)
    (h : bs.drop q = encConfig c ++ r) (hwf : wfConfig c = true) :
    readConfig bs.toArray q = some (c.words, q + 64) := by
  simp only [wfConfig, Config.words, List.all_cons, List.all_nil, Bool.and_true, Bool.and_eq_true,
    decide_eq_true_eq] at hwf
  obtain ⟨w1, w2, w3, w4, w5, w6, w7, w8, w9⟩ := hwf
  have a0 : bs.drop q = enc32 64 ++ (enc32 c.imsi ++ (enc32 c.locale ++ (enc32 c.screenType ++ (enc32 c.input ++
      (enc32 c.screenSize ++ (enc32 c.version ++ (enc32 c.screenConfig ++ (enc32 c.screenSizeDp ++
      (List.replicate 12 0 ++ (enc32 c.screenConfig2 ++ (List.replicate 12 0 ++ r))))))))))) := by
    rw [h]; simp only [encConfig, List.append_assoc]
  have a4 := drop_at' 4 a0 (enc32_length _)
  have a8 := drop_at' 4 a4 (enc32_length _)
  have a12 := drop_at' 4 a8 (enc32_length _)
  have a16 := drop_at' 4 a12 (enc32_length _)
  have a20 := drop_at' 4 a16 (enc32_length _)
  have a24 := drop_at' 4 a20 (enc32_length _)
  have a28 := drop_at' 4 a24 (enc32_length _)
  have a32 := drop_at' 4 a28 (enc32_length _)
  have a36 := drop_at' 4 a32 (enc32_length _)
  have a48 := replicate_append_at a36
  have a52 := drop_at' 4 a48 (enc32_length _)
  simp only [Nat.add_assoc, Nat.reduceAdd] at a8 a12 a16 a20 a24 a28 a32 a36 a48 a52
  have hsz : q + 52 ≤ (bs.toArray : Buf).size := by
    have := congrArg List.length a52
    simp only [List.length_drop, List.length_append, List.length_replicate] at this
    simp only [List.size_toArray]; omega
  exact readConfig_of (rd32_at a0 (by omega)) (rd32_at a4 w1) (rd32_at a8 w2) (rd32_at a12 w3)
    (rd32_at a16 w4) (rd32_at a20 w5) (rd32_at a24 w6) (rd32_at a28 w7) (rd32_at a32 w8) (rd32_at a48 w9) hsz

theorem encConfig_length (c : Config) : (encConfig c).length = 64 := by
  simp only [encConfig, List.length_append, enc32_length, List.length_replicate]


/-! ### entries at a cursor -/

def rawOf : Entry → RawEntry
  | .simple f k t d => ⟨f, k, .simple (t, d)⟩
  | .complex f k p items => ⟨f, k, .complex p items⟩
  | .compact f k d => ⟨f, k, .compact ((f >>> 8) &&& 0xFF) d⟩

theorem encMap_length (items : List (Nat × (Nat × Nat))) : (encMap items).length = 12 * items.length := by
  induction items with
  | nil => rfl
  | cons it r ih =>
    obtain ⟨n, t, d⟩ := it
    simp only [encMap, encValue, List.length_append, enc16_length, enc32_length, List.length_cons,
      List.length_nil, ih]
    omega

theorem encEntry_length_simple (f k t d : Nat) : (encEntry (.simple f k t d)).length = 16 := by
  simp only [encEntry, encSimple, encValue, List.length_append, enc16_length, enc32_length,
      List.length_cons, List.length_nil]

theorem encEntry_length_complex (f k p : Nat) (items : List (Nat × (Nat × Nat))) :
    (encEntry (.complex f k p items)).length = 16 + 12 * items.length := by
  simp only [encEntry, encComplex, List.length_append, enc16_length, enc32_length, encMap_length]

theorem encEntry_length_compact (f k d : Nat) : (encEntry (.compact f k d)).length = 8 := by
  simp only [encEntry, encCompact, List.length_append, enc16_length, enc32_length]

theorem encEntry_length_mod (e : Entry) : (encEntry e).length % 4 = 0 ∧ 8 ≤ (encEntry e).length := by
  cases e with
  | simple f k t d => rw [encEntry_length_simple]; omega
  | complex f k p items => rw [encEntry_length_complex]; omega
  | compact f k d => rw [encEntry_length_compact]; omega

theorem wfEntry_simple {f k t d : Nat} (h : wfEntry (.simple f k t d) = true) :
    f < 65536 ∧ f &&& flagComplex = 0 ∧ f &&& flagCompact = 0 ∧ k < 4294967296 ∧ t < 256 ∧ d < 4294967296 := by
  simpa [wfEntry, wfValue, flagComplex, flagCompact, and_assoc] using h

theorem wfEntry_compact {f k d : Nat} (h : wfEntry (.compact f k d) = true) :
    f < 65536 ∧ f &&& flagComplex = 0 ∧ f &&& flagCompact ≠ 0 ∧ k < 65536 ∧ d < 4294967296 := by
  simpa [wfEntry, flagComplex, flagCompact, and_assoc] using h

theorem wfEntry_complex {f k p : Nat} {items : List (Nat × (Nat × Nat))} (h : wfEntry (.complex f k p items) = true) :
    f < 65536 ∧ f &&& flagComplex ≠ 0 ∧ k < 4294967296 ∧ p < 4294967296 ∧ items.length < 4294967296 ∧
      ∀ it ∈ items, it.1 < 4294967296 ∧ it.2.1 < 256 ∧ it.2.2 < 4294967296 := by
  simpa [wfEntry, wfValue, flagComplex, and_assoc] using h

/-- L1: every well-formed entry of the specification decodes to itself -/
theorem decodeEntryL_enc (e : Entry) (rest : List Nat) (hwf : wfEntry e = true) :
    decodeEntryL (encEntry e ++ rest) = some (rawOf e, rest) := by
  cases e with
  | simple f k t d =>
    obtain ⟨hf, hc, hk, hkey, ht, hd⟩ := wfEntry_simple hwf
    have e1 : encEntry (.simple f k t d) ++ rest = enc16 8 ++ enc16 f ++ enc32 k ++ (encValue t d ++ rest) := by
      simp only [encEntry, encSimple, List.append_assoc]
    rw [e1, decodeEntryL_hdr 8 f k _ (by omega) hf hkey]
    unfold decodeBodyL
    rw [if_neg (by simpa using hc), if_neg (by simpa using hk), resValueL_enc _ _ _ ht hd]
    rfl
  | complex f k p items =>
    obtain ⟨hf, hc, hkey, hp, hn, hi⟩ := wfEntry_complex hwf
    exact decodeEntryL_complex f k p items rest hf hc hkey hp hn hi
  | compact f k d =>
    obtain ⟨hf, hc, hk, hkey, hd⟩ := wfEntry_compact hwf
    have e1 : encEntry (.compact f k d) ++ rest = enc16 k ++ enc16 f ++ enc32 d ++ rest := by
      simp only [encEntry, encCompact, List.append_assoc]
    rw [e1, decodeEntryL_hdr k f d _ hkey hf hd]
    unfold decodeBodyL
    rw [if_neg (by simpa using hc), if_pos hk]
    rfl

/-- the flags and (for a complex entry) the item count, as stored -/
theorem entry_fields_at {bs r : List Nat} {q : Nat} (e : Entry) (h : bs.drop q = encEntry e ++ r)
    (hwf : wfEntry e = true) :
    ∃ f, rd16 bs.toArray (q + 2) = some f ∧
      (f &&& flagComplex ≠ 0 → ∃ n, rd32 bs.toArray (q + 12) = some n ∧ q + 16 + 12 * n = q + (encEntry e).length) := by
  cases e with
  | simple f k t d =>
    obtain ⟨hf, hc, hk, hkey, ht, hd⟩ := wfEntry_simple hwf
    have e1 : bs.drop q = enc16 8 ++ (enc16 f ++ (enc32 k ++ (encValue t d ++ r))) := by
      rw [h]; simp only [encEntry, encSimple, List.append_assoc]
    exact ⟨f, rd16_at (drop_at' 2 e1 (enc16_length _)) hf, fun hne => absurd hc hne⟩
  | complex f k p items =>
    obtain ⟨hf, hc, hkey, hp, hn, hi⟩ := wfEntry_complex hwf
    have e1 : bs.drop q = enc16 16 ++ (enc16 f ++ (enc32 k ++ (enc32 p ++ (enc32 items.length ++ (encMap items ++ r))))) := by
      rw [h]; simp only [encEntry, encComplex, List.append_assoc]
    have a2 := drop_at' 2 e1 (enc16_length _)
    have a4 := drop_at' 2 a2 (enc16_length _)
    have a8 := drop_at' 4 a4 (enc32_length _)
    have a12 := drop_at' 4 a8 (enc32_length _)
    simp only [Nat.add_assoc, Nat.reduceAdd] at a12
    refine ⟨f, rd16_at a2 hf, fun _ => ⟨items.length, rd32_at a12 hn, ?_⟩⟩
    rw [encEntry_length_complex]; omega
  | compact f k d =>
    obtain ⟨hf, hc, hk, hkey, hd⟩ := wfEntry_compact hwf
    have e1 : bs.drop q = enc16 k ++ (enc16 f ++ (enc32 d ++ r)) := by
      rw [h]; simp only [encEntry, encCompact, List.append_assoc]
    exact ⟨f, rd16_at (drop_at' 2 e1 (enc16_length _)) hf, fun hne => absurd hc hne⟩

/-- `ARSCResTableEntry(buff, q, end_of_chunk)` where the file holds an encoded entry inside the chunk -/
theorem readEntry_at {bs r : List Nat} {q eoc : Nat} (e : Entry) (h : bs.drop q = encEntry e ++ r)
    (hwf : wfEntry e = true) (hin : q + (encEntry e).length ≤ eoc) :
    readEntry bs.toArray q eoc = some (rawOf e) := by
  have hfit : ComplexFits bs.toArray q eoc := by
    intro flags count h1 hc h2
    obtain ⟨f, hf, hn⟩ := entry_fields_at e h hwf
    rw [hf] at h1; injection h1 with h1; subst h1
    obtain ⟨n, hn1, hn2⟩ := hn hc
    rw [hn1] at h2; injection h2 with h2; subst h2
    omega
  rw [readEntry_eq _ _ _ hfit, toArray_toList_drop, h, decodeEntryL_enc e r hwf]
  rfl

end AgVerif.Arsc
