/-
C22 (B2) — `util.common_dom` on a dominator tree returns the nearest common dominator.

Setting: a graph `g`, a parent function `t` with `IsDomTree g t` (the textbook dominator tree, what
`dom_lt` returns by C18), and a numbering `num` (the RPO numbers `node.num`) such that
  * `t v = some d → num d < num v`   (the immediate dominator is numbered before the node), and
  * `num` is injective on the reachable nodes.
Then `commonDomG t num fuel a b` (the line-by-line model of `common_dom`) returns the nearest common
dominator of `a` and `b` — a notion that does not mention any order — and so the fold of
`place_declarations` over a set of definition nodes returns the nearest common dominator of the
set, for every enumeration order.
-/
import AgVerif.Model.Order
import AgVerif.Model.DomRef
import AgVerif.Proof.Rpo
namespace AgVerif.CommonDom
open AgVerif AgVerif.Spec AgVerif.DomRef AgVerif.Order List

/-- `c` is the nearest common dominator of the vertices in `S`: it dominates all of them and every
    vertex that dominates all of them dominates `c` -/
def NCD (E : Nat → Nat → Prop) (r c : Nat) (S : List Nat) : Prop :=
  (∀ a ∈ S, Dominates E r c a) ∧ ∀ c', (∀ a ∈ S, Dominates E r c' a) → Dominates E r c' c

/-- the hypotheses on the tree and the numbering -/
structure Ctx (g : Digraph) (t : Nat → Option Nat) (num : Nat → Nat) : Prop where
  wf : g.WF
  tree : IsDomTree g t
  up : ∀ v, v < g.n → ∀ d, t v = some d → num d < num v
  inj : ∀ u v, u < g.n → v < g.n → Reach g.Edge g.entry u → Reach g.Edge g.entry v → num u = num v → u = v

variable {g : Digraph} {t : Nat → Option Nat} {num : Nat → Nat}

/-! ### the nearest common dominator is unique and depends only on the set -/

theorem NCD.reach {c : Nat} {S : List Nat} (h : NCD g.Edge g.entry c S) {a : Nat} (ha : a ∈ S)
    (hr : Reach g.Edge g.entry a) : Reach g.Edge g.entry c :=
  (h.1 a ha).reach hr

theorem NCD.unique {c c' : Nat} {S : List Nat} (h : NCD g.Edge g.entry c S) (h' : NCD g.Edge g.entry c' S)
    {a : Nat} (ha : a ∈ S) (hr : Reach g.Edge g.entry a) : c = c' :=
  Dominates.antisymm (h'.reach ha hr) (h'.2 c h.1) (h.2 c' h'.1)

theorem NCD.congr {c : Nat} {S S' : List Nat} (hS : ∀ x, x ∈ S ↔ x ∈ S') (h : NCD g.Edge g.entry c S) :
    NCD g.Edge g.entry c S' :=
  ⟨fun a ha => h.1 a ((hS a).mpr ha), fun c' hc' => h.2 c' (fun a ha => hc' a ((hS a).mp ha))⟩

theorem NCD.single (a : Nat) : NCD g.Edge g.entry a [a] :=
  ⟨fun x hx => by simp at hx; subst hx; exact dominates_refl, fun c' hc' => hc' a (by simp)⟩

/-- folding step: the NCD of `d :: P` is the NCD of the pair (NCD of `P`, `d`) -/
theorem NCD.cons {c e d : Nat} {P : List Nat} (hP : NCD g.Edge g.entry c P)
    (he : NCD g.Edge g.entry e [c, d]) : NCD g.Edge g.entry e (d :: P) := by
  refine ⟨?_, ?_⟩
  · intro a ha
    rcases mem_cons.mp ha with h | h
    · subst h; exact he.1 a (by simp)
    · exact (he.1 c (by simp)).trans (hP.1 a h)
  · intro c' hc'
    apply he.2 c'
    intro x hx
    simp at hx
    rcases hx with h | h
    · subst h; exact hP.2 c' (fun a ha => hc' a (mem_cons_of_mem _ ha))
    · subst h; exact hc' x (by simp)

/-! ### the dominators of a vertex are its ancestors in the dominator tree -/

/-- the entry is dominated only by itself -/
theorem dom_entry {x : Nat} (h : Dominates g.Edge g.entry x g.entry) : x = g.entry := by
  apply Classical.byContradiction
  intro hne
  exact not_sdom_entry ⟨h, hne⟩

/-- a dominator of `v` is `v` or a dominator of the immediate dominator of `v` -/
theorem dom_step {x v d : Nat} (hi : IDom g.Edge g.entry d v) :
    Dominates g.Edge g.entry x v ↔ x = v ∨ Dominates g.Edge g.entry x d := by
  constructor
  · intro h
    by_cases e : x = v
    · exact Or.inl e
    · exact Or.inr (hi.2 x ⟨h, e⟩)
  · rintro (h | h)
    · subst h; exact dominates_refl
    · exact h.trans hi.1.1

/-- what the tree says about a reachable vertex -/
theorem Ctx.parent (C : Ctx g t num) {v : Nat} (hr : Reach g.Edge g.entry v) (hne : v ≠ g.entry) :
    ∃ d, t v = some d ∧ IDom g.Edge g.entry d v ∧ num d < num v ∧ Reach g.Edge g.entry d ∧ d < g.n := by
  have hv : v < g.n := Rpo.reach_lt C.wf hr
  obtain ⟨d, hd, hi⟩ := (C.tree v hv).2 hne hr
  have hdr := hi.1.1.reach hr
  exact ⟨d, hd, hi, C.up v hv d hd, hdr, Rpo.reach_lt C.wf hdr⟩

/-- a dominator is numbered no later than the vertex it dominates, and strictly earlier if different -/
theorem Ctx.dom_num (C : Ctx g t num) : ∀ (k : Nat) (v x : Nat), num v ≤ k → Reach g.Edge g.entry v →
    Dominates g.Edge g.entry x v → x = v ∨ num x < num v := by
  intro k
  induction k with
  | zero =>
    intro v x hk hr hd
    by_cases hne : v = g.entry
    · subst hne; exact Or.inl (dom_entry hd)
    · obtain ⟨d, _, _, hlt, _⟩ := C.parent hr hne
      omega
  | succ k ih =>
    intro v x hk hr hd
    by_cases hne : v = g.entry
    · subst hne; exact Or.inl (dom_entry hd)
    · obtain ⟨d, _, hi, hlt, hdr, _⟩ := C.parent hr hne
      rcases (dom_step hi).mp hd with h | h
      · exact Or.inl h
      · rcases ih d x (by omega) hdr h with h2 | h2
        · subst h2; exact Or.inr hlt
        · exact Or.inr (by omega)

theorem Ctx.dom_num_le (C : Ctx g t num) {v x : Nat} (hr : Reach g.Edge g.entry v)
    (hd : Dominates g.Edge g.entry x v) : num x ≤ num v := by
  rcases C.dom_num (num v) v x (Nat.le_refl _) hr hd with h | h
  · subst h; exact Nat.le_refl _
  · omega

/-! ### `common_dom` returns the nearest common dominator -/

/-- one walking step: when `a` is numbered before `b`, replacing `b` by its immediate dominator keeps
    the set of common dominators -/
theorem Ctx.ncd_up (C : Ctx g t num) {a b p c : Nat} (ha : Reach g.Edge g.entry a)
    (hlt : num a < num b) (hi : IDom g.Edge g.entry p b)
    (h : NCD g.Edge g.entry c [a, p]) : NCD g.Edge g.entry c [a, b] := by
  refine ⟨?_, ?_⟩
  · intro x hx
    simp at hx
    rcases hx with e | e
    · subst e; exact h.1 x (by simp)
    · subst e; exact (h.1 p (by simp)).trans hi.1.1
  · intro c' hc'
    apply h.2 c'
    intro x hx
    simp at hx
    rcases hx with e | e
    · subst e; exact hc' x (by simp)
    · subst e
      rcases (dom_step hi).mp (hc' b (by simp)) with e | e
      · subst e
        have := C.dom_num_le ha (hc' a (by simp))
        omega
      · exact e

theorem NCD.swap {a b c : Nat} (h : NCD g.Edge g.entry c [a, b]) : NCD g.Edge g.entry c [b, a] :=
  h.congr (fun x => by simp [or_comm])

/-- MAIN LEMMA: with fuel above `num a + num b` the model of `common_dom` returns the nearest common
    dominator of `a` and `b` (no `KeyError`, no `None.num`, no endless loop) -/
theorem Ctx.commonDomG_spec (C : Ctx g t num) : ∀ (fuel a b : Nat), Reach g.Edge g.entry a →
    Reach g.Edge g.entry b → num a + num b < fuel →
    ∃ c, commonDomG t num fuel a b = some c ∧ NCD g.Edge g.entry c [a, b] := by
  intro fuel
  induction fuel with
  | zero => intro a b _ _ h; omega
  | succ f ih =>
    intro a b ha hb hf
    unfold commonDomG
    by_cases e : a = b
    · subst e
      refine ⟨a, by simp, ?_⟩
      exact (NCD.single a).congr (fun x => by simp)
    · simp only [e, if_false]
      by_cases h1 : num a < num b
      · simp only [h1, if_true]
        have hne : b ≠ g.entry := by
          intro hb'
          subst hb'
          have := C.dom_num_le ha (dominates_entry (E := g.Edge) (r := g.entry) (v := a))
          omega
        obtain ⟨p, hp, hi, hlt, hpr, _⟩ := C.parent hb hne
        obtain ⟨c, hc, hn⟩ := ih a p ha hpr (by omega)
        exact ⟨c, by simp only [hp]; exact hc, C.ncd_up ha h1 hi hn⟩
      · simp only [h1, if_false]
        by_cases h2 : num b < num a
        · simp only [h2, if_true]
          have hne : a ≠ g.entry := by
            intro ha'
            subst ha'
            have := C.dom_num_le hb (dominates_entry (E := g.Edge) (r := g.entry) (v := b))
            omega
          obtain ⟨p, hp, hi, hlt, hpr, _⟩ := C.parent ha hne
          obtain ⟨c, hc, hn⟩ := ih p b hpr hb (by omega)
          exact ⟨c, by simp only [hp]; exact hc, (C.ncd_up hb h2 hi hn.swap).swap⟩
        · exact absurd (C.inj a b (Rpo.reach_lt C.wf ha) (Rpo.reach_lt C.wf hb) ha hb (by omega)) e

/-! ### algebra of `common_dom` on reachable nodes -/

theorem Ctx.commonDomG_comm (C : Ctx g t num) {fuel a b : Nat} (ha : Reach g.Edge g.entry a)
    (hb : Reach g.Edge g.entry b) (hf : num a + num b < fuel) :
    commonDomG t num fuel a b = commonDomG t num fuel b a := by
  obtain ⟨c, hc, hn⟩ := C.commonDomG_spec fuel a b ha hb hf
  obtain ⟨c', hc', hn'⟩ := C.commonDomG_spec fuel b a hb ha (by omega)
  rw [hc, hc', hn.unique hn'.swap (by simp) ha]

theorem commonDomG_idem (t : Nat → Option Nat) (num : Nat → Nat) (fuel a : Nat) :
    commonDomG t num (fuel + 1) a a = some a := by
  simp [commonDomG]

/-! ### the fold of `place_declarations` -/

theorem Ctx.foldlM_spec (C : Ctx g t num) (fuel : Nat) : ∀ (rest : List Nat) (c a0 : Nat) (P : List Nat),
    NCD g.Edge g.entry c P → a0 ∈ P → (∀ a ∈ P, Reach g.Edge g.entry a) → (∀ a ∈ P, 2 * num a < fuel) →
    (∀ a ∈ rest, Reach g.Edge g.entry a) → (∀ a ∈ rest, 2 * num a < fuel) →
    ∃ e, rest.foldlM (commonDomG t num fuel) c = some e ∧ NCD g.Edge g.entry e (rest ++ P) := by
  intro rest
  induction rest with
  | nil => intro c a0 P hP _ _ _ _ _; exact ⟨c, rfl, hP⟩
  | cons d rest ih =>
    intro c a0 P hP ha0 hPr hPf hr hf
    have hcr : Reach g.Edge g.entry c := hP.reach ha0 (hPr a0 ha0)
    have hdr := hr d (by simp)
    have hle := C.dom_num_le (hPr a0 ha0) (hP.1 a0 ha0)
    have h1 := hPf a0 ha0
    have h2 := hf d (by simp)
    obtain ⟨c', hc', hn'⟩ := C.commonDomG_spec fuel c d hcr hdr (by omega)
    have hP' : NCD g.Edge g.entry c' (d :: P) := hP.cons hn'
    obtain ⟨e, he, hne⟩ := ih c' d (d :: P) hP' (by simp)
      (fun a ha => by rcases mem_cons.mp ha with h | h; exact h ▸ hdr; exact hPr a h)
      (fun a ha => by rcases mem_cons.mp ha with h | h; exact h ▸ h2; exact hPf a h)
      (fun a ha => hr a (mem_cons_of_mem _ ha)) (fun a ha => hf a (mem_cons_of_mem _ ha))
    refine ⟨e, by simp only [foldlM_cons, hc']; exact he, hne.congr (fun x => ?_)⟩
    simp only [mem_append, mem_cons]
    constructor
    · rintro (h | h | h)
      · exact Or.inl (Or.inr h)
      · exact Or.inl (Or.inl h)
      · exact Or.inr h
    · rintro ((h | h) | h)
      · exact Or.inr (Or.inl h)
      · exact Or.inl h
      · exact Or.inr (Or.inr h)

/-- the fold over a non-empty set of reachable nodes, enumerated in any order, succeeds and returns
    the nearest common dominator of the set -/
theorem Ctx.popFoldM_spec (C : Ctx g t num) (fuel : Nat) (σ : List Nat) (hne : σ ≠ [])
    (hr : ∀ a ∈ σ, Reach g.Edge g.entry a) (hf : ∀ a ∈ σ, 2 * num a < fuel) :
    ∃ c, popFoldM (commonDomG t num fuel) σ = some c ∧ NCD g.Edge g.entry c σ := by
  match σ, hne with
  | a :: rest, _ =>
    obtain ⟨e, he, hn⟩ := C.foldlM_spec fuel rest a a [a] (NCD.single a) (by simp)
      (fun x hx => by simp at hx; subst hx; exact hr x (by simp))
      (fun x hx => by simp at hx; subst hx; exact hf x (by simp))
      (fun x hx => hr x (mem_cons_of_mem _ hx)) (fun x hx => hf x (mem_cons_of_mem _ hx))
    exact ⟨e, he, hn.congr (fun x => by simp [or_comm])⟩

/-- hence the result does not depend on the enumeration order -/
theorem Ctx.popFoldM_perm (C : Ctx g t num) (fuel : Nat) {σ₁ σ₂ : List Nat} (h : σ₁ ~ σ₂)
    (hr : ∀ a ∈ σ₁, Reach g.Edge g.entry a) (hf : ∀ a ∈ σ₁, 2 * num a < fuel) :
    popFoldM (commonDomG t num fuel) σ₁ = popFoldM (commonDomG t num fuel) σ₂ := by
  by_cases hne : σ₁ = []
  · subst hne; rw [h.symm.eq_nil]
  · have hne2 : σ₂ ≠ [] := fun e => hne (by rw [e] at h; exact h.eq_nil)
    obtain ⟨c1, h1, n1⟩ := C.popFoldM_spec fuel σ₁ hne hr hf
    obtain ⟨c2, h2, n2⟩ := C.popFoldM_spec fuel σ₂ hne2
      (fun a ha => hr a (h.mem_iff.mpr ha)) (fun a ha => hf a (h.mem_iff.mpr ha))
    obtain ⟨a, ha⟩ := exists_mem_of_ne_nil σ₁ hne
    rw [h1, h2, n1.unique (n2.congr (fun x => h.mem_iff.symm)) ha (hr a ha)]

/-- associativity, in the form the fold uses: both bracketings return the nearest common dominator of
    the three nodes -/
theorem Ctx.commonDomG_assoc (C : Ctx g t num) {fuel a b c : Nat} (ha : Reach g.Edge g.entry a)
    (hb : Reach g.Edge g.entry b) (hc : Reach g.Edge g.entry c)
    (fa : 2 * num a < fuel) (fb : 2 * num b < fuel) (fc : 2 * num c < fuel) :
    (commonDomG t num fuel a b).bind (fun x => commonDomG t num fuel x c)
      = (commonDomG t num fuel b c).bind (fun y => commonDomG t num fuel a y) := by
  have hr : ∀ x ∈ [a, b, c], Reach g.Edge g.entry x := by
    intro x hx; simp at hx; rcases hx with h | h | h <;> subst h <;> assumption
  have hf : ∀ x ∈ [a, b, c], 2 * num x < fuel := by
    intro x hx; simp at hx; rcases hx with h | h | h <;> subst h <;> assumption
  obtain ⟨e, he, hn⟩ := C.popFoldM_spec fuel [a, b, c] (by simp) hr hf
  -- left bracketing is the fold itself
  have hl : (commonDomG t num fuel a b).bind (fun x => commonDomG t num fuel x c) = some e := by
    simp only [popFoldM, foldlM_cons, foldlM_nil] at he
    cases hab : commonDomG t num fuel a b with
    | none => rw [hab] at he; simp at he
    | some x => rw [hab] at he; simpa using he
  -- right bracketing
  obtain ⟨y, hy, hny⟩ := C.commonDomG_spec fuel b c hb hc (by omega)
  have hyr : Reach g.Edge g.entry y := hny.reach (a := b) (by simp) hb
  have hyle := C.dom_num_le hb (hny.1 b (by simp))
  obtain ⟨z, hz, hnz⟩ := C.commonDomG_spec fuel a y ha hyr (by omega)
  have hz3 : NCD g.Edge g.entry z [a, b, c] := by
    have := (hny.swap.cons (P := [c, b]) (d := a) (e := z) ?_)
    · exact this.congr (fun x => by simp; constructor <;> (rintro (h | h | h) <;> simp [h]))
    · exact hnz.swap
  rw [hl, hy]
  simp only [Option.bind_some, hz]
  rw [hn.unique hz3 (a := a) (by simp) ha]

end AgVerif.CommonDom
