/-
C07, concrete loader: the item decoders of Model/DexFile.lean are *local* — a successful decode is
determined by the bytes it consumed (and the total length, for the plain `read`s that may run into
the end of the file).  Used to derive `DexPerm.sameItems` from the geometry of the file.
-/
import AgVerif.Model.DexFile
namespace AgVerif.DexLocal
open AgVerif.DexFile

/-- `d` consumed the first `k` bytes, and any buffer of the same length with the same first `k`
    bytes decodes to the same value -/
def Good {α} (d : Dec α) : Prop :=
  ∀ bs x r, d bs = some (x, r) → ∃ k, k ≤ bs.length ∧ r = bs.drop k ∧
    ∀ bs' : Bytes, bs'.length = bs.length → bs'.take k = bs.take k → d bs' = some (x, bs'.drop k)

def bindD {α β} (d₁ : Dec α) (d₂ : α → Dec β) : Dec β := fun bs => (d₁ bs).bind fun p => d₂ p.1 p.2
def pureD {α} (x : α) : Dec α := fun bs => some (x, bs)

theorem good_pure {α} (x : α) : Good (pureD x) := by
  intro bs y r h
  simp only [pureD, Option.some.injEq, Prod.mk.injEq] at h
  obtain ⟨rfl, rfl⟩ := h
  exact ⟨0, Nat.zero_le _, rfl, fun bs' _ _ => rfl⟩

theorem good_bind {α β} (d₁ : Dec α) (d₂ : α → Dec β) (h₁ : Good d₁) (h₂ : ∀ x, Good (d₂ x)) :
    Good (bindD d₁ d₂) := by
  intro bs y r h
  unfold bindD at h
  cases h1 : d₁ bs with
  | none => simp [h1] at h
  | some p =>
    obtain ⟨x, r1⟩ := p
    simp only [h1, Option.bind] at h
    obtain ⟨k1, hk1, rfl, hd1⟩ := h₁ bs x r1 h1
    obtain ⟨k2, hk2, rfl, hd2⟩ := h₂ x _ y r h
    rw [List.length_drop] at hk2
    refine ⟨k1 + k2, by omega, by rw [List.drop_drop], ?_⟩
    intro bs' hl ht
    have ht1 : bs'.take k1 = bs.take k1 := by
      have := congrArg (List.take k1) ht
      simpa [List.take_take, Nat.min_eq_left (Nat.le_add_right k1 k2)] using this
    have ht2 : (bs'.drop k1).take k2 = (bs.drop k1).take k2 := by
      have := congrArg (List.drop k1) ht
      simpa [List.drop_take] using this
    unfold bindD
    rw [hd1 bs' hl ht1]
    simp only [Option.bind]
    rw [hd2 (bs'.drop k1) (by simp [hl]) ht2, List.drop_drop]

/-- a helper: buffers with the same first `k` bytes -/
theorem eq_take_append {bs bs' : Bytes} {k : Nat} (ht : bs'.take k = bs.take k) :
    bs' = bs.take k ++ bs'.drop k := by
  rw [← ht, List.take_append_drop]

theorem good_u16 : Good u16 := by
  intro bs x r h
  match bs, h with
  | a :: b :: r', h =>
    simp only [u16, Option.some.injEq, Prod.mk.injEq] at h
    obtain ⟨rfl, rfl⟩ := h
    refine ⟨2, by simp, rfl, ?_⟩
    intro bs' _ ht
    rw [eq_take_append ht]
    simp [u16]

theorem good_u32 : Good u32 := by
  intro bs x r h
  match bs, h with
  | a :: b :: c :: d :: r', h =>
    simp only [u32, Option.some.injEq, Prod.mk.injEq] at h
    obtain ⟨rfl, rfl⟩ := h
    refine ⟨4, by simp, rfl, ?_⟩
    intro bs' _ ht
    rw [eq_take_append ht]
    simp [u32]

theorem readUleb_take (bs : Bytes) (v n : Nat) (h : Leb.readUleb bs = some (v, n)) :
    n ≤ bs.length ∧ ∀ t, Leb.readUleb (bs.take n ++ t) = some (v, n) := by
  unfold Leb.readUleb at h
  repeat' split at h
  all_goals first
    | (cases h; done)
    | (simp only [Option.some.injEq, Prod.mk.injEq] at h
       obtain ⟨rfl, rfl⟩ := h
       refine ⟨by simp, fun t => ?_⟩
       simp [Leb.readUleb, *])

theorem good_uleb : Good uleb := by
  intro bs x r h
  unfold uleb at h
  cases hr : Leb.readUleb bs with
  | none => simp [hr] at h
  | some p =>
    obtain ⟨v, n⟩ := p
    simp only [hr, Option.some.injEq, Prod.mk.injEq] at h
    obtain ⟨rfl, rfl⟩ := h
    obtain ⟨hn, ht⟩ := readUleb_take bs v n hr
    refine ⟨n, hn, rfl, ?_⟩
    intro bs' _ hk
    have := ht (bs'.drop n)
    rw [← eq_take_append hk] at this
    simp only [uleb, this]

theorem readSlebLoop_take : ∀ (k res sh n0 : Nat) (bs : Bytes) (v : Int) (n : Nat),
    Leb.readSlebLoop k res sh n0 bs = some (v, n) →
    ∃ j, n = n0 + j ∧ j ≤ bs.length ∧ ∀ t, Leb.readSlebLoop k res sh n0 (bs.take j ++ t) = some (v, n)
  | 0, res, sh, n0, bs, v, n, h => by
    simp only [Leb.readSlebLoop, Option.some.injEq, Prod.mk.injEq] at h
    obtain ⟨rfl, rfl⟩ := h
    exact ⟨0, rfl, Nat.zero_le _, fun t => by simp [Leb.readSlebLoop]⟩
  | k + 1, res, sh, n0, [], v, n, h => by simp [Leb.readSlebLoop] at h
  | k + 1, res, sh, n0, cur :: rest, v, n, h => by
    simp only [Leb.readSlebLoop] at h
    split at h
    · rename_i hc
      simp only [Option.some.injEq, Prod.mk.injEq] at h
      obtain ⟨rfl, rfl⟩ := h
      exact ⟨1, rfl, by simp, fun t => by simp [Leb.readSlebLoop, hc]⟩
    · rename_i hc
      obtain ⟨j, hj, hle, ht⟩ := readSlebLoop_take k _ _ _ rest v n h
      refine ⟨j + 1, by omega, by simp; omega, fun t => ?_⟩
      simp only [List.take_succ_cons, List.cons_append, Leb.readSlebLoop, hc, ↓reduceIte]
      exact ht t

theorem good_sleb : Good sleb := by
  intro bs x r h
  unfold sleb at h
  cases hr : Leb.readSleb bs with
  | none => simp [hr] at h
  | some p =>
    obtain ⟨v, n⟩ := p
    simp only [hr, Option.some.injEq, Prod.mk.injEq] at h
    obtain ⟨rfl, rfl⟩ := h
    obtain ⟨j, hj, hn, ht⟩ := readSlebLoop_take 5 0 0 0 bs v n hr
    simp only [Nat.zero_add] at hj
    subst hj
    refine ⟨n, hn, rfl, ?_⟩
    intro bs' _ hk
    have := ht (bs'.drop n)
    rw [← eq_take_append hk] at this
    simp only [sleb, Leb.readSleb, this]

/-- plain `buff.read(n)` whose value is dropped -/
def skipD (n : Nat) : Dec Unit := fun bs => some ((), bs.drop n)
/-- plain `buff.read(n)` -/
def takeD (n : Nat) : Dec Bytes := fun bs => some (bs.take n, bs.drop n)

theorem good_skip (n : Nat) : Good (skipD n) := by
  intro bs x r h
  simp only [skipD, Option.some.injEq, Prod.mk.injEq] at h
  obtain ⟨_, rfl⟩ := h
  refine ⟨min n bs.length, Nat.min_le_right _ _, ?_, ?_⟩
  · by_cases hn : n ≤ bs.length
    · rw [Nat.min_eq_left hn]
    · rw [Nat.min_eq_right (by omega), List.drop_eq_nil_of_le (by omega), List.drop_eq_nil_of_le (by omega)]
  · intro bs' hl _
    simp only [skipD]
    by_cases hn : n ≤ bs.length
    · rw [Nat.min_eq_left hn]
    · rw [Nat.min_eq_right (by omega), List.drop_eq_nil_of_le (by omega), List.drop_eq_nil_of_le (by omega)]

theorem good_take (n : Nat) : Good (takeD n) := by
  intro bs x r h
  simp only [takeD, Option.some.injEq, Prod.mk.injEq] at h
  obtain ⟨rfl, rfl⟩ := h
  refine ⟨min n bs.length, Nat.min_le_right _ _, ?_, ?_⟩
  · by_cases hn : n ≤ bs.length
    · rw [Nat.min_eq_left hn]
    · rw [Nat.min_eq_right (by omega), List.drop_eq_nil_of_le (by omega), List.drop_eq_nil_of_le (by omega)]
  · intro bs' hl ht
    simp only [takeD]
    by_cases hn : n ≤ bs.length
    · rw [Nat.min_eq_left hn] at ht ⊢
      rw [ht]
    · have h1 : min n bs.length = bs.length := Nat.min_eq_right (by omega)
      rw [h1] at ht ⊢
      have e1 : bs'.take bs.length = bs' := List.take_of_length_le (by omega)
      have e2 : bs.take bs.length = bs := List.take_of_length_le (Nat.le_refl _)
      rw [e1, e2] at ht
      subst ht
      rw [List.take_of_length_le (by omega), List.drop_eq_nil_of_le (by omega),
        List.drop_eq_nil_of_le (Nat.le_refl _)]

theorem good_readNT : Good readNT := by
  intro bs
  induction bs with
  | nil => intro x r h; simp [readNT] at h
  | cons b t ih =>
    intro x r h
    simp only [readNT] at h
    split at h
    · rename_i hb
      simp only [Option.some.injEq, Prod.mk.injEq] at h
      obtain ⟨rfl, rfl⟩ := h
      refine ⟨1, by simp, rfl, ?_⟩
      intro bs' _ ht
      rw [eq_take_append ht]
      simp [readNT, hb]
    · rename_i hb
      cases hr : readNT t with
      | none => simp [hr] at h
      | some p =>
        obtain ⟨s', r'⟩ := p
        simp only [hr, Option.some.injEq, Prod.mk.injEq] at h
        obtain ⟨rfl, rfl⟩ := h
        obtain ⟨k, hk, rfl, hd⟩ := ih s' r' hr
        refine ⟨k + 1, by simp; omega, rfl, ?_⟩
        intro bs' hl ht
        cases bs' with
        | nil => simp at hl
        | cons b' t' =>
          simp only [List.take_succ_cons, List.cons.injEq] at ht
          obtain ⟨rfl, ht⟩ := ht
          have hl' : t'.length = t.length := by simpa using hl
          simp only [readNT, hb, ↓reduceIte, hd t' hl' ht, List.drop_succ_cons]

theorem good_ite {α} (c : Prop) [Decidable c] (d₁ d₂ : Dec α) (h₁ : Good d₁) (h₂ : Good d₂) :
    Good (if c then d₁ else d₂) := by
  split <;> assumption

theorem decN_succ {α} (d : Dec α) (n : Nat) :
    decN d (n + 1) = bindD d fun x => bindD (decN d n) fun xs => pureD (x :: xs) := rfl

theorem good_decN {α} (d : Dec α) (h : Good d) : ∀ n, Good (decN d n)
  | 0 => good_pure []
  | n + 1 => by
    rw [decN_succ]
    exact good_bind _ _ h fun x => good_bind _ _ (good_decN d h n) fun xs => good_pure _

theorem decFields_succ (n prev : Nat) :
    decFields (n + 1) prev = bindD uleb fun d => bindD uleb fun fl =>
      bindD (decFields n (d + prev)) fun rest => pureD (⟨d + prev, fl⟩ :: rest) := rfl

theorem good_decFields : ∀ n prev, Good (decFields n prev)
  | 0, _ => good_pure []
  | n + 1, prev => by
    rw [decFields_succ]
    exact good_bind _ _ good_uleb fun d => good_bind _ _ good_uleb fun fl =>
      good_bind _ _ (good_decFields n _) fun rest => good_pure _

theorem decMethods_succ (n prev : Nat) :
    decMethods (n + 1) prev = bindD uleb fun d => bindD uleb fun fl => bindD uleb fun co =>
      bindD (decMethods n (d + prev)) fun rest => pureD (⟨d + prev, fl, co⟩ :: rest) := rfl

theorem good_decMethods : ∀ n prev, Good (decMethods n prev)
  | 0, _ => good_pure []
  | n + 1, prev => by
    rw [decMethods_succ]
    exact good_bind _ _ good_uleb fun d => good_bind _ _ good_uleb fun fl => good_bind _ _ good_uleb fun co =>
      good_bind _ _ (good_decMethods n _) fun rest => good_pure _

/-! ### the item decoders -/

theorem good_decStringId : Good decStringId := good_u32
theorem good_decTypeId : Good decTypeId := good_u32

theorem good_decProtoId : Good decProtoId := by
  have : decProtoId = bindD u32 fun a => bindD u32 fun b => bindD u32 fun c => pureD ⟨a, b, c⟩ := rfl
  rw [this]
  exact good_bind _ _ good_u32 fun _ => good_bind _ _ good_u32 fun _ => good_bind _ _ good_u32 fun _ => good_pure _

theorem good_decFieldId : Good decFieldId := by
  have : decFieldId = bindD u16 fun a => bindD u16 fun b => bindD u32 fun c => pureD ⟨a, b, c⟩ := rfl
  rw [this]
  exact good_bind _ _ good_u16 fun _ => good_bind _ _ good_u16 fun _ => good_bind _ _ good_u32 fun _ => good_pure _

theorem good_decMethodId : Good decMethodId := by
  have : decMethodId = bindD u16 fun a => bindD u16 fun b => bindD u32 fun c => pureD ⟨a, b, c⟩ := rfl
  rw [this]
  exact good_bind _ _ good_u16 fun _ => good_bind _ _ good_u16 fun _ => good_bind _ _ good_u32 fun _ => good_pure _

theorem good_decClassDef : Good decClassDef := by
  have : decClassDef = bindD u32 fun a => bindD u32 fun b => bindD u32 fun c => bindD u32 fun d =>
      bindD u32 fun e => bindD u32 fun f => bindD u32 fun g => bindD u32 fun h => pureD ⟨a, b, c, d, e, f, g, h⟩ := rfl
  rw [this]
  exact good_bind _ _ good_u32 fun _ => good_bind _ _ good_u32 fun _ => good_bind _ _ good_u32 fun _ =>
    good_bind _ _ good_u32 fun _ => good_bind _ _ good_u32 fun _ => good_bind _ _ good_u32 fun _ =>
    good_bind _ _ good_u32 fun _ => good_bind _ _ good_u32 fun _ => good_pure _

theorem good_decStringData : Good decStringData := by
  have : decStringData = bindD uleb fun _ => readNT := rfl
  rw [this]
  exact good_bind _ _ good_uleb fun _ => good_readNT

theorem good_decClassData : Good decClassData := by
  have : decClassData = bindD uleb fun nsf => bindD uleb fun nif => bindD uleb fun ndm => bindD uleb fun nvm =>
      bindD (decFields nsf 0) fun sf => bindD (decFields nif 0) fun inf => bindD (decMethods ndm 0) fun dm =>
      bindD (decMethods nvm 0) fun vm => pureD ⟨sf, inf, dm, vm⟩ := rfl
  rw [this]
  exact good_bind _ _ good_uleb fun _ => good_bind _ _ good_uleb fun _ => good_bind _ _ good_uleb fun _ =>
    good_bind _ _ good_uleb fun _ => good_bind _ _ (good_decFields _ _) fun _ =>
    good_bind _ _ (good_decFields _ _) fun _ => good_bind _ _ (good_decMethods _ _) fun _ =>
    good_bind _ _ (good_decMethods _ _) fun _ => good_pure _

theorem decTypeList_eq : decTypeList = bindD u32 fun n => bindD (decN u16 n) fun l =>
    bindD (skipD (if n % 2 != 0 then 2 else 0)) fun _ => pureD l := by
  funext bs
  simp only [decTypeList, bindD, pureD, skipD, bind, Option.bind, pure]
  cases u32 bs with
  | none => rfl
  | some p =>
    obtain ⟨n, r⟩ := p
    simp only
    cases decN u16 n r with
    | none => rfl
    | some q =>
      obtain ⟨l, r'⟩ := q
      simp only
      split <;> rfl

theorem good_decTypeList : Good decTypeList := by
  rw [decTypeList_eq]
  exact good_bind _ _ good_u32 fun _ => good_bind _ _ (good_decN _ good_u16 _) fun _ =>
    good_bind _ _ (good_skip _) fun _ => good_pure _

theorem good_decCodeHdr : Good decCodeHdr := by
  have : decCodeHdr = bindD u16 fun a => bindD u16 fun b => bindD u16 fun c => bindD u16 fun d =>
      bindD u32 fun e => bindD u32 fun f => pureD ⟨a, b, c, d, e, f⟩ := rfl
  rw [this]
  exact good_bind _ _ good_u16 fun _ => good_bind _ _ good_u16 fun _ => good_bind _ _ good_u16 fun _ =>
    good_bind _ _ good_u16 fun _ => good_bind _ _ good_u32 fun _ => good_bind _ _ good_u32 fun _ => good_pure _

def pairU : Dec Unit := bindD uleb fun _ => bindD uleb fun _ => pureD ()
def pairT : Dec Unit := bindD u32 fun _ => bindD u32 fun _ => pureD ()

theorem good_pairU : Good pairU := good_bind _ _ good_uleb fun _ => good_bind _ _ good_uleb fun _ => good_pure _
theorem good_pairT : Good pairT := good_bind _ _ good_u32 fun _ => good_bind _ _ good_u32 fun _ => good_pure _

theorem decHandler_eq : decHandler = bindD sleb fun sz => bindD (decN pairU sz.natAbs) fun _ =>
    if sz ≤ 0 then (bindD uleb fun _ => pureD ()) else pureD () := by
  funext bs
  simp only [decHandler, bindD, bind, Option.bind]
  cases sleb bs with
  | none => rfl
  | some p =>
    obtain ⟨sz, r⟩ := p
    simp only
    have : (fun b => do let (_, r) ← uleb b; let (_, r) ← uleb r; pure ((), r)) = pairU := rfl
    simp only [bind, Option.bind] at this
    rw [this]
    cases decN pairU sz.natAbs r with
    | none => rfl
    | some q =>
      obtain ⟨u, r'⟩ := q
      simp only
      split <;> rfl

theorem good_decHandler : Good decHandler := by
  rw [decHandler_eq]
  exact good_bind _ _ good_sleb fun _ => good_bind _ _ (good_decN _ good_pairU _) fun _ =>
    good_ite _ _ _ (good_bind _ _ good_uleb fun _ => good_pure _) (good_pure _)

theorem decCode_eq : decCode = bindD decCodeHdr fun h => bindD (takeD (2 * h.insnsSize)) fun insns =>
    bindD (if (h.insnsSize % 2 == 1 && decide (h.tries > 0)) = true then u16 else pureD 0) fun _ =>
    if h.tries > 0 then
      (bindD (decN pairT h.tries) fun _ => bindD uleb fun n => bindD (decN decHandler n) fun _ => pureD ⟨h, insns⟩)
    else pureD ⟨h, insns⟩ := by
  funext bs
  simp only [decCode, bindD, bind, Option.bind, takeD]
  cases decCodeHdr bs with
  | none => rfl
  | some p =>
    obtain ⟨h, r⟩ := p
    simp only
    have : (fun b => do let (_, r) ← u32 b; let (_, r) ← u32 r; pure ((), r)) = pairT := rfl
    simp only [bind, Option.bind] at this
    rw [this]
    generalize (h.insnsSize % 2 == 1 && decide (h.tries > 0)) = c
    cases c <;> by_cases ht : h.tries > 0 <;>
      simp only [ht, Bool.false_eq_true, ↓reduceIte, pureD] <;>
      first | rfl | (cases u16 (List.drop (2 * h.insnsSize) r) <;> rfl)

theorem good_decCode : Good decCode := by
  rw [decCode_eq]
  exact good_bind _ _ good_decCodeHdr fun h => good_bind _ _ (good_take _) fun _ =>
    good_bind _ _ (good_ite _ _ _ good_u16 (good_pure _)) fun _ =>
    good_ite _ _ _ (good_bind _ _ (good_decN _ good_pairT _) fun _ => good_bind _ _ good_uleb fun _ =>
      good_bind _ _ (good_decN _ good_decHandler _) fun _ => good_pure _) (good_pure _)

/-! ### sequences of items in a file -/

/-- `decSeq` / `decCodes` in one: every item is read at `al` of the offset the previous one ended at -/
def decSeqA {α} (al : Nat → Nat) (d : Dec α) (file : Bytes) : Nat → Nat → Option (List (Nat × α))
  | 0, _ => some []
  | n + 1, off =>
    match d (file.drop (al off)) with
    | none => none
    | some (x, r) =>
      match decSeqA al d file n (al off + ((file.drop (al off)).length - r.length)) with
      | none => none
      | some rest => some ((al off, x) :: rest)

/-- the offset behind the last of the `n` items (none: a decoder failed) -/
def seqEndA {α} (al : Nat → Nat) (d : Dec α) (file : Bytes) : Nat → Nat → Option Nat
  | 0, off => some off
  | n + 1, off =>
    match d (file.drop (al off)) with
    | none => none
    | some (_, r) => seqEndA al d file n (al off + ((file.drop (al off)).length - r.length))

def align4 (off : Nat) : Nat := if off % 4 != 0 then off + (4 - off % 4) else off

theorem le_align4 (o : Nat) : o ≤ align4 o := by unfold align4; split <;> omega

theorem decSeq_eq {α} (d : Dec α) (file : Bytes) : ∀ n off, decSeq d file n off = decSeqA id d file n off
  | 0, _ => rfl
  | n + 1, off => by
    simp only [decSeq, decSeqA, id, bind, Option.bind, pure]
    cases d (file.drop off) with
    | none => rfl
    | some p =>
      obtain ⟨x, r⟩ := p
      simp only [decSeq_eq d file n]
      cases decSeqA id d file n (off + ((file.drop off).length - r.length)) <;> rfl

theorem decCodes_eq (file : Bytes) : ∀ n off, decCodes file n off = decSeqA align4 decCode file n off
  | 0, _ => rfl
  | n + 1, off => by
    simp only [decCodes, decSeqA, bind, Option.bind, pure]
    have : (if off % 4 != 0 then off + (4 - off % 4) else off) = align4 off := rfl
    simp only [this]
    cases decCode (file.drop (align4 off)) with
    | none => rfl
    | some p =>
      obtain ⟨x, r⟩ := p
      simp only [decCodes_eq file n]
      cases decSeqA align4 decCode file n (align4 off + ((file.drop (align4 off)).length - r.length)) <;> rfl

theorem seqEndA_ge {α} (al : Nat → Nat) (hal : ∀ o, o ≤ al o) (d : Dec α) (file : Bytes) :
    ∀ n off E, seqEndA al d file n off = some E → off ≤ E
  | 0, off, E, h => by simp only [seqEndA, Option.some.injEq] at h; omega
  | n + 1, off, E, h => by
    simp only [seqEndA] at h
    cases hd : d (file.drop (al off)) with
    | none => simp [hd] at h
    | some p =>
      obtain ⟨x, r⟩ := p
      simp only [hd] at h
      have := seqEndA_ge al hal d file n _ E h
      have := hal off
      omega

/-- items that start where the two files already agree to the end -/
theorem decSeqA_after {α} (al : Nat → Nat) (hal : ∀ o, o ≤ al o) (d : Dec α) (f g : Bytes) (b : Nat)
    (hfg : ∀ o, b ≤ o → g.drop o = f.drop o) :
    ∀ n off, b ≤ off → decSeqA al d g n off = decSeqA al d f n off
  | 0, _, _ => rfl
  | n + 1, off, hb => by
    have h1 := hfg (al off) (Nat.le_trans hb (hal off))
    simp only [decSeqA, h1]
    cases d (f.drop (al off)) with
    | none => rfl
    | some p =>
      obtain ⟨x, r⟩ := p
      simp only
      rw [decSeqA_after al hal d f g b hfg n _ (by have := hal off; omega)]

theorem take_of_take_le {α} {f g : List α} {E k : Nat} (h : g.take E = f.take E) (hk : k ≤ E) :
    g.take k = f.take k := by
  have := congrArg (List.take k) h
  simpa [List.take_take, Nat.min_eq_left hk] using this

/-- items that were decoded successfully from bytes below `E`, in a file of the same length with
    the same first `E` bytes -/
theorem decSeqA_before {α} (al : Nat → Nat) (hal : ∀ o, o ≤ al o) (d : Dec α) (hd : Good d) (f g : Bytes)
    (hl : g.length = f.length) (E : Nat) (hfg : g.take E = f.take E) :
    ∀ n off, seqEndA al d f n off = some E → decSeqA al d g n off = decSeqA al d f n off
  | 0, _, _ => rfl
  | n + 1, off, hE => by
    simp only [seqEndA] at hE
    cases h1 : d (f.drop (al off)) with
    | none => simp [h1] at hE
    | some p =>
      obtain ⟨x, r⟩ := p
      simp only [h1] at hE
      obtain ⟨k, hk, rfl, hloc⟩ := hd _ x r h1
      have hk' : k ≤ f.length - al off := by simpa using hk
      have hlen : (f.drop (al off)).length - ((f.drop (al off)).drop k).length = k := by
        simp only [List.length_drop]; omega
      rw [hlen] at hE
      have hge := seqEndA_ge al hal d f n _ E hE
      have htk : (g.drop (al off)).take k = (f.drop (al off)).take k := by
        have := take_of_take_le hfg hge
        have := congrArg (List.drop (al off)) this
        simpa [List.drop_take] using this
      have h2 := hloc (g.drop (al off)) (by simp [hl]) htk
      have hlen' : (g.drop (al off)).length - ((g.drop (al off)).drop k).length = k := by
        simp only [List.length_drop, hl]; omega
      simp only [decSeqA, h1, h2, hlen, hlen']
      rw [decSeqA_before al hal d hd f g hl E hfg n _ hE]

end AgVerif.DexLocal
