/-
The definitions generated from the Python source by gen/py2lean.py (AgVerif.Gen.PyLocale) equal
the hand-written model AgVerif.Locale.unpack / AgVerif.Locale.pack of the C30 theorems.
-/
import AgVerif.Gen.PyLocale
import AgVerif.Model.Locale
import AgVerif.Proof.PyInt
set_option linter.unusedSimpArgs false
namespace AgVerif.PyLocale
open AgVerif.Locale AgVerif.Py AgVerif.Gen.PyLocale

/-- code points / list elements of the hand model as Python ints -/
def ints (l : List Nat) : List Int := l.map (fun b : Nat => (b : Int))

theorem chrOk_cast (m : Nat) (h : m < 1114112) : chrOk (m : Int) = true := by
  simp [chrOk]; omega

theorem add_cast (a b : Nat) : (a : Int) + (b : Int) = ((a + b : Nat) : Int) := by simp

theorem gen_unpack_eq (c0 c1 base : Nat) (h0 : c0 < 256) (h1 : c1 < 256) (hb : base ≤ 1114000) :
    unpack_language_or_region [(c0 : Int), (c1 : Int)] (base : Int)
      = some (ints (unpack c0 c1 base)) := by
  have a1 : c1 &&& 31 < 32 := by rw [show (31 : Nat) = 2 ^ 5 - 1 from rfl, Nat.and_two_pow_sub_one_eq_mod]; omega
  have a2 : (c1 &&& 224) >>> 5 + (c0 &&& 3) <<< 3 < 64 := by
    have : c1 &&& 224 ≤ c1 := Nat.and_le_left
    have : c0 &&& 3 < 4 := by rw [show (3 : Nat) = 2 ^ 2 - 1 from rfl, Nat.and_two_pow_sub_one_eq_mod]; omega
    simp only [Nat.shiftRight_eq_div_pow, Nat.shiftLeft_eq]; omega
  have a3 : (c0 &&& 124) >>> 2 < 64 := by
    have : c0 &&& 124 ≤ c0 := Nat.and_le_left
    simp only [Nat.shiftRight_eq_div_pow]; omega
  simp only [unpack_language_or_region, unpack, List.getElem?_cons_zero, List.getElem?_cons_succ,
    band_cast_lit, shr_cast, shl_cast, add_cast, ne_cast_lit]
  by_cases hp : c0 &&& 128 ≠ 0
  · simp [-Int.natCast_shiftRight, -Int.natCast_shiftLeft, -Int.natCast_add, hp, ints,
      chrOk_cast _ (by omega : (c1 &&& 31) + base < 1114112),
      chrOk_cast _ (by omega : (c1 &&& 224) >>> 5 + (c0 &&& 3) <<< 3 + base < 1114112),
      chrOk_cast _ (by omega : (c0 &&& 124) >>> 2 + base < 1114112)]
  · by_cases z0 : c0 = 0 <;> by_cases z1 : c1 = 0 <;>
      simp [hp, z0, z1, ints, chrOk_cast c0 (by omega), chrOk_cast c1 (by omega)]

theorem band_sub_7F (a base : Nat) : band ((a : Int) - (base : Int)) 127 = ((sub7 a base : Nat) : Int) := by
  rw [band_7F]; unfold sub7; omega

theorem gen_pack_eq (s : List Nat) (base : Nat) :
    pack_language_or_region (ints s) (base : Int)
      = some [(((pack s base).1 : Nat) : Int), (((pack s base).2 : Nat) : Int)] := by
  match s with
  | [] => simp [pack_language_or_region, pack, ints]
  | [a] => simp [pack_language_or_region, pack, ints]
  | [a, b] => simp [pack_language_or_region, pack, ints]
  | [a, b, c] =>
    simp only [pack_language_or_region, pack, ints, List.map, List.length, List.getElem?_cons_zero,
      List.getElem?_cons_succ, band_sub_7F, bor_lit_cast, bor_cast, shl_cast, shr_cast, band_cast_lit]
    simp [-Int.natCast_shiftRight, -Int.natCast_shiftLeft]
  | a :: b :: c :: d :: r =>
    have h2 : ¬ ((r.length : Int) + 1 + 1 + 1 + 1 = 2) := by omega
    have h3 : ¬ ((r.length : Int) + 1 + 1 + 1 + 1 = 3) := by omega
    simp [pack_language_or_region, pack, ints, h2, h3]

end AgVerif.PyLocale
