/-
C05, file level: the vocabulary of `parse_encode`.

  Tables     the raw tables of a DEX file as the format document names them, each row together
             with the encoding choices the writer made for it (uleb128 items, padding bytes)
  Layout     where things are: the offset of the map list and the map list itself (one entry per
             section: type, number of items, offset).  Any order, any gaps, any extra entries of
             item types the loader does not look at.
  Encodes    `file` holds `T` in layout `L`: header → map list, every section stored at the offset
             its map entry gives, as the concatenation of the specification encodings of its rows
  WF         decidable well-formedness of the tables (value ranges; the sections a row refers to
             exist; proto / type-list references designate rows)
  tablesCM   the ClassManager state the tables denote (rows keyed by the offsets the layout gives)
  declared   the view the tables denote

Definitions only; the proofs are in Proof/DexLoad*.lean, the theorems in Props/C05.lean.
-/
import AgVerif.Model.DexFile
import AgVerif.Spec.DexFile
import AgVerif.Spec.Tries
namespace AgVerif.C05
open AgVerif.DexFile AgVerif.LoadOrder
open AgVerif.Spec.DexFile (ushort uint ULeb protoId fieldId methodId classDef typeListBody codeHdr EncClassData)

/-- `file` holds `bs` at byte offset `off` -/
def At (file : Bytes) (off : Nat) (bs : Bytes) : Prop :=
  ∃ pre post, file = pre ++ bs ++ post ∧ pre.length = off

/-- the raw tables of a DEX file, with the writer's encoding choices -/
structure Tables where
  strings : List (Bytes × Bytes)        -- (uleb128 item of utf16_size, MUTF-8 bytes without the NUL)
  stringIds : List Nat                  -- string_data_off
  typeIds : List Nat                    -- descriptor_idx
  protoIds : List ProtoId
  fieldIds : List FieldId
  methodIds : List MethodId
  typeLists : List (List Nat × Bytes)    -- entries and the padding bytes that follow them
  classData : List (ClassData × Bytes)   -- content and an encoding of it (EncClassData)
  codes : List (Code × Bytes)            -- code item (header, instructions) and the bytes that follow its
                                         -- instructions: try items, handler list, alignment padding
  classDefs : List ClassDef

structure Layout where
  mapOff : Nat
  map : List MapEntry

/-- the map entry of item type `t` (none: the file has no such section) -/
def Layout.sec (L : Layout) (t : Nat) : Option MapEntry := L.map.find? (fun e => e.type == t)

/-- items stored back to back from `off` on: each value with the offset it starts at -/
def placed {α} : Nat → List (α × Bytes) → List (Nat × α)
  | _, [] => []
  | o, (x, b) :: r => (o, x) :: placed (o + b.length) r

def mapEntryBytes (e : MapEntry) : Bytes :=
  ushort e.type ++ ushort 0 ++ uint e.size ++ uint e.offset

def encCode (c : Code) : Bytes :=
  codeHdr c.hdr.regs c.hdr.ins c.hdr.outs c.hdr.tries c.hdr.debugOff c.hdr.insnsSize ++ c.insns

/-- what follows the instructions of a code item (format document, as transcribed in
    AgVerif.Spec.Tries): nothing when `tries_size` is 0; otherwise two bytes of padding after an
    odd number of code units, `tries_size` try items, and the encoded_catch_handler_list — `size`
    handlers, each with any valid LEB128 items, typed pairs and optional catch-all.  (Which handler
    a try item points to is C08's subject; the loader of C05 only has to get past these bytes.) -/
def CodeTail (c : Code) (tail : Bytes) : Prop :=
  if c.hdr.tries = 0 then tail = [] else
  ∃ (pad : Bytes) (p : Spec.Tries.Plan), tail = pad ++ p.bytes ∧
    pad.length = (if c.hdr.insnsSize % 2 = 1 then 2 else 0) ∧ p.tries.length = c.hdr.tries ∧
    p.listSize.WF ∧ p.listSize.val = p.handlers.length ∧ ∀ h ∈ p.handlers, h.WF

/-! ### rows with their bytes -/

def Tables.strItems (T : Tables) : List (Bytes × Bytes) := T.strings.map fun s => (s.2, s.1 ++ s.2 ++ [0])
def Tables.tlItems (T : Tables) : List (List Nat × Bytes) := T.typeLists.map fun p => (p.1, typeListBody p.1 ++ p.2)
def Tables.cdItems (T : Tables) : List (ClassData × Bytes) := T.classData
def Tables.codeItems (T : Tables) : List (Code × Bytes) := T.codes.map fun p => (p.1, encCode p.1 ++ p.2)

def bytesOf {α} (items : List (α × Bytes)) : Bytes := items.flatMap (·.2)

/-- the section of map type `t`: `n` items whose bytes are `bytes`.  Not listed only if empty;
    listed: the entry gives the number of items and the offset the bytes are stored at
    (`aligned`: the format wants the offset 4-aligned, and the loader relies on it). -/
def Section (file : Bytes) (L : Layout) (t n : Nat) (bytes : Bytes) (aligned : Bool) : Prop :=
  match L.sec t with
  | none => n = 0
  | some e => e.size = n ∧ (aligned = true → e.offset % 4 = 0) ∧ At file e.offset bytes

/-- `file` is an encoding of the tables `T` in layout `L`. -/
structure Encodes (file : Bytes) (L : Layout) (T : Tables) : Prop where
  mapOff_ne : L.mapOff ≠ 0
  mapOff_lt : L.mapOff < 2 ^ 32
  header : At file 0x34 (uint L.mapOff)
  mapLen : L.map.length < 2 ^ 32
  mapAt : At file L.mapOff (uint L.map.length ++ L.map.flatMap mapEntryBytes)
  nodup : (L.map.map (·.type)).Nodup
  members : ∀ e ∈ L.map, e.type ∈ Gen.MapDeps.members.map (·.2)
  ranges : ∀ e ∈ L.map, e.size < 2 ^ 32 ∧ e.offset < 2 ^ 32
  strItem : ∀ s ∈ T.strings, (∃ n, ULeb s.1 n) ∧ 0 ∉ s.2
  tlPad : ∀ p ∈ T.typeLists, p.2.length = if p.1.length % 2 = 1 then 2 else 0
  cdEnc : ∀ c ∈ T.classData,
    EncClassData (c.1.sf.map fun f => (f.idx, f.flags)) (c.1.inf.map fun f => (f.idx, f.flags))
      (c.1.dm.map fun m => (m.idx, m.flags, m.codeOff)) (c.1.vm.map fun m => (m.idx, m.flags, m.codeOff)) c.2
  codeRest : ∀ p ∈ T.codes, ∃ tail pad, p.2 = tail ++ pad ∧ CodeTail p.1 tail ∧
    pad.length = (4 - (encCode p.1 ++ tail).length % 4) % 4
  strings : Section file L 0x2002 T.strings.length (bytesOf T.strItems) false
  stringIds : Section file L 0x0001 T.stringIds.length (T.stringIds.flatMap uint) false
  typeIds : Section file L 0x0002 T.typeIds.length (T.typeIds.flatMap uint) true
  protoIds : Section file L 0x0003 T.protoIds.length
    (T.protoIds.flatMap fun p => protoId p.shorty p.ret p.paramsOff) true
  fieldIds : Section file L 0x0004 T.fieldIds.length (T.fieldIds.flatMap fun f => fieldId f.cls f.typ f.name) true
  methodIds : Section file L 0x0005 T.methodIds.length
    (T.methodIds.flatMap fun m => methodId m.cls m.proto m.name) true
  typeLists : Section file L 0x1001 T.typeLists.length (bytesOf T.tlItems) true
  classData : Section file L 0x2000 T.classData.length (bytesOf T.cdItems) false
  codes : Section file L 0x2001 T.codes.length (bytesOf T.codeItems) true
  classDefs : Section file L 0x0006 T.classDefs.length
    (T.classDefs.flatMap fun c =>
      classDef c.cls c.access c.super c.ifacesOff c.srcIdx c.annOff c.dataOff c.staticOff) true

/-! ### what the tables denote -/

/-- rows of the offset-addressed section `t`, keyed by the offsets the layout gives them -/
def tab {α} (L : Layout) (t : Nat) (items : List (α × Bytes)) : List (Nat × α) :=
  match L.sec t with
  | none => []
  | some e => placed e.offset items

def strTab (T : Tables) (L : Layout) : List (Nat × Bytes) := tab L 0x2002 T.strItems
def tlTab (T : Tables) (L : Layout) : List (Nat × List Nat) := tab L 0x1001 T.tlItems
def cdTab (T : Tables) (L : Layout) : List (Nat × ClassData) := tab L 0x2000 T.cdItems
def codeTab (T : Tables) (L : Layout) : List (Nat × Code) := tab L 0x2001 T.codeItems

/-- string `i` (androguard's placeholder when the index or the offset designates nothing) -/
def strAt (T : Tables) (L : Layout) (i : Nat) : Bytes :=
  match T.stringIds[i]? with
  | none => invalidString
  | some off =>
    match lookupOff off (strTab T L) with
    | none => invalidString
    | some s => s

/-- descriptor of type `i` -/
def typeAt (T : Tables) (L : Layout) (i : Nat) : Bytes :=
  match T.typeIds[i]? with
  | none => invalidType
  | some s => strAt T L s

/-- the descriptors of the type list stored at `off` (0: the empty list); none: no such list -/
def typeListAt (T : Tables) (L : Layout) (off : Nat) : Option (List Bytes) :=
  if off = 0 then some [] else (lookupOff off (tlTab T L)).map (·.map (typeAt T L))

def protoR (T : Tables) (L : Layout) (p : ProtoId) : ProtoR := ⟨p, strAt T L p.shorty, typeAt T L p.ret⟩

def fieldR (T : Tables) (L : Layout) (f : FieldId) : FieldR :=
  ⟨f, typeAt T L f.cls, typeAt T L f.typ, strAt T L f.name⟩

/-- `(` parameter descriptors separated by blanks `)` of prototype `i`, and its return type -/
def paramsAt (T : Tables) (L : Layout) (i : Nat) : Option (Bytes × Bytes) :=
  match T.protoIds[i]? with
  | none => none
  | some p =>
    match typeListAt T L p.paramsOff with
    | none => none
    | some l => some ([0x28] ++ joinSp l ++ [0x29], typeAt T L p.ret)

def methodR (T : Tables) (L : Layout) (m : MethodId) : MethodR :=
  let pr := (paramsAt T L m.proto).getD ([], [])      -- WF: isSome
  ⟨m, typeAt T L m.cls, pr.1, pr.2, strAt T L m.name⟩

def classDataAt (T : Tables) (L : Layout) (off : Nat) : Option ClassData :=
  if off != 0 then lookupOff off (cdTab T L) else none

def classR (T : Tables) (L : Layout) (c : ClassDef) : ClassR :=
  ⟨c, typeAt T L c.cls, typeAt T L c.super, (typeListAt T L c.ifacesOff).getD [],   -- WF: isSome
   classDataAt T L c.dataOff⟩

/-- the ClassManager state the tables denote: a section that is not in the map is not registered -/
def tablesCM (T : Tables) (L : Layout) : CM :=
  { strData := (L.sec 0x2002).map fun _ => strTab T L
    stringIds := (L.sec 0x0001).map fun _ => T.stringIds
    typeIds := (L.sec 0x0002).map fun _ => T.typeIds
    protoIds := (L.sec 0x0003).map fun _ => T.protoIds.map (protoR T L)
    fieldIds := (L.sec 0x0004).map fun _ => T.fieldIds.map (fieldR T L)
    methodIds := (L.sec 0x0005).map fun _ => T.methodIds.map (methodR T L)
    typeLists := (L.sec 0x1001).map fun _ => tlTab T L
    classData := (L.sec 0x2000).map fun _ => cdTab T L
    codes := (L.sec 0x2001).map fun _ => codeTab T L
    classDefs := (L.sec 0x0006).map fun _ => T.classDefs.map (classR T L) }

/-! ### the declared view -/

def fieldV (T : Tables) (L : Layout) (f : EncField) : FieldV :=
  match T.fieldIds[f.idx]? with
  | none => ⟨f.idx, ascii "AG:IFI:invalid_class_name;", ascii "AG:IFI:invalid_name",
             ascii "(AG:IFI:invalid_type)", f.flags⟩
  | some r => ⟨f.idx, typeAt T L r.cls, strAt T L r.name, typeAt T L r.typ, f.flags⟩

def methodV (T : Tables) (L : Layout) (m : EncMethod) : MethodV :=
  match T.methodIds[m.idx]? with
  | none => ⟨m.idx, ascii "AG:IMI:invalid_class_name;", ascii "AG:IMI:invalid_name",
             ascii "()AG:IMI:invalid_proto", m.flags, lookupOff m.codeOff (codeTab T L)⟩
  | some r =>
    let pr := (paramsAt T L r.proto).getD ([], [])
    ⟨m.idx, typeAt T L r.cls, strAt T L r.name, pr.1 ++ pr.2, m.flags, lookupOff m.codeOff (codeTab T L)⟩

def classV (T : Tables) (L : Layout) (c : ClassDef) : ClassV :=
  let src := if c.srcIdx = 0xFFFFFFFF then none else some (strAt T L c.srcIdx)
  match classDataAt T L c.dataOff with
  | none => ⟨typeAt T L c.cls, typeAt T L c.super, (typeListAt T L c.ifacesOff).getD [], c.access, src, [], [], [], []⟩
  | some d => ⟨typeAt T L c.cls, typeAt T L c.super, (typeListAt T L c.ifacesOff).getD [], c.access, src,
               d.sf.map (fieldV T L), d.inf.map (fieldV T L), d.dm.map (methodV T L), d.vm.map (methodV T L)⟩

/-- what the file declares: its strings in file order, its classes in class_defs order, every
    index replaced by the row it designates -/
def declared (T : Tables) (L : Layout) : DexV := ⟨T.strings.map (·.2), T.classDefs.map (classV T L)⟩

/-! ### well-formedness (decidable) -/

def CodeOk (c : Code) : Prop :=
  c.hdr.regs < 65536 ∧ c.hdr.ins < 65536 ∧ c.hdr.outs < 65536 ∧ c.hdr.tries < 65536 ∧
  c.hdr.debugOff < 2 ^ 32 ∧ c.hdr.insnsSize < 2 ^ 32 ∧ c.insns.length = 2 * c.hdr.insnsSize

def ClassDefOk (c : ClassDef) : Prop :=
  c.cls < 2 ^ 32 ∧ c.access < 2 ^ 32 ∧ c.super < 2 ^ 32 ∧ c.ifacesOff < 2 ^ 32 ∧ c.srcIdx < 2 ^ 32 ∧
  c.annOff < 2 ^ 32 ∧ c.dataOff < 2 ^ 32 ∧ c.staticOff < 2 ^ 32

structure WF (T : Tables) (L : Layout) : Prop where
  /- value ranges of the fixed-width fields -/
  stringIds : ∀ x ∈ T.stringIds, x < 2 ^ 32
  typeIds : ∀ x ∈ T.typeIds, x < 2 ^ 32
  protoIds : ∀ p ∈ T.protoIds, p.shorty < 2 ^ 32 ∧ p.ret < 2 ^ 32 ∧ p.paramsOff < 2 ^ 32
  fieldIds : ∀ f ∈ T.fieldIds, f.cls < 65536 ∧ f.typ < 65536 ∧ f.name < 2 ^ 32
  methodIds : ∀ m ∈ T.methodIds, m.cls < 65536 ∧ m.proto < 65536 ∧ m.name < 2 ^ 32
  typeLists : ∀ p ∈ T.typeLists, p.1.length < 2 ^ 32 ∧ ∀ x ∈ p.1, x < 65536
  codes : ∀ p ∈ T.codes, CodeOk p.1
  classDefs : ∀ c ∈ T.classDefs, ClassDefOk c
  /- a table that refers to strings / types / prototypes comes with those sections -/
  typeSecs : T.typeIds ≠ [] → (L.sec 0x0001).isSome
  protoSecs : T.protoIds ≠ [] → (L.sec 0x0001).isSome ∧ (L.sec 0x0002).isSome
  fieldSecs : T.fieldIds ≠ [] → (L.sec 0x0001).isSome ∧ (L.sec 0x0002).isSome
  methodSecs : T.methodIds ≠ [] → (L.sec 0x0001).isSome ∧ (L.sec 0x0002).isSome ∧ (L.sec 0x0003).isSome
  classSecs : T.classDefs ≠ [] → (L.sec 0x0001).isSome ∧ (L.sec 0x0002).isSome
  /- every method's prototype exists and its parameter list is stored where it says -/
  methodProtos : ∀ m ∈ T.methodIds, (paramsAt T L m.proto).isSome
  /- every class's interface list is stored where it says; its members' id tables exist -/
  classIfaces : ∀ c ∈ T.classDefs, (typeListAt T L c.ifacesOff).isSome
  classMembers : ∀ c ∈ T.classDefs, ∀ d ∈ classDataAt T L c.dataOff,
    ((d.sf ≠ [] ∨ d.inf ≠ []) → (L.sec 0x0004).isSome) ∧ ((d.dm ≠ [] ∨ d.vm ≠ []) → (L.sec 0x0005).isSome)

instance (c : Code) : Decidable (CodeOk c) := by unfold CodeOk; exact inferInstance
instance (c : ClassDef) : Decidable (ClassDefOk c) := by unfold ClassDefOk; exact inferInstance

instance (T : Tables) (L : Layout) : Decidable (WF T L) :=
  decidable_of_iff
    ((∀ x ∈ T.stringIds, x < 2 ^ 32) ∧ (∀ x ∈ T.typeIds, x < 2 ^ 32) ∧
     (∀ p ∈ T.protoIds, p.shorty < 2 ^ 32 ∧ p.ret < 2 ^ 32 ∧ p.paramsOff < 2 ^ 32) ∧
     (∀ f ∈ T.fieldIds, f.cls < 65536 ∧ f.typ < 65536 ∧ f.name < 2 ^ 32) ∧
     (∀ m ∈ T.methodIds, m.cls < 65536 ∧ m.proto < 65536 ∧ m.name < 2 ^ 32) ∧
     (∀ p ∈ T.typeLists, p.1.length < 2 ^ 32 ∧ ∀ x ∈ p.1, x < 65536) ∧
     (∀ p ∈ T.codes, CodeOk p.1) ∧ (∀ c ∈ T.classDefs, ClassDefOk c) ∧
     (T.typeIds ≠ [] → (L.sec 0x0001).isSome) ∧
     (T.protoIds ≠ [] → (L.sec 0x0001).isSome ∧ (L.sec 0x0002).isSome) ∧
     (T.fieldIds ≠ [] → (L.sec 0x0001).isSome ∧ (L.sec 0x0002).isSome) ∧
     (T.methodIds ≠ [] → (L.sec 0x0001).isSome ∧ (L.sec 0x0002).isSome ∧ (L.sec 0x0003).isSome) ∧
     (T.classDefs ≠ [] → (L.sec 0x0001).isSome ∧ (L.sec 0x0002).isSome) ∧
     (∀ m ∈ T.methodIds, (paramsAt T L m.proto).isSome) ∧
     (∀ c ∈ T.classDefs, (typeListAt T L c.ifacesOff).isSome) ∧
     (∀ c ∈ T.classDefs, ∀ d ∈ classDataAt T L c.dataOff,
        ((d.sf ≠ [] ∨ d.inf ≠ []) → (L.sec 0x0004).isSome) ∧ ((d.dm ≠ [] ∨ d.vm ≠ []) → (L.sec 0x0005).isSome)))
    ⟨fun ⟨h1, h2, h3, h4, h5, h6, h7, h8, h9, h10, h11, h12, h13, h14, h15, h16⟩ =>
      ⟨h1, h2, h3, h4, h5, h6, h7, h8, h9, h10, h11, h12, h13, h14, h15, h16⟩,
     fun h => ⟨h.stringIds, h.typeIds, h.protoIds, h.fieldIds, h.methodIds, h.typeLists, h.codes, h.classDefs,
      h.typeSecs, h.protoSecs, h.fieldSecs, h.methodSecs, h.classSecs, h.methodProtos, h.classIfaces,
      h.classMembers⟩⟩

end AgVerif.C05
