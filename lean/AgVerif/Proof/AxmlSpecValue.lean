/- C26: the model's `formatValue` (transliteration of `format_value`) against the independent `Spec.AxmlTree.valueString`. -/
import AgVerif.Spec.AxmlTree
import AgVerif.Model.Axml
namespace AgVerif.Proof.AxmlSpecValue
open AgVerif.Axml AgVerif.Gen.AxmlConsts
open AgVerif.Spec.AxmlTree (hexChar hex8 hex2 hexMin dec int32String packagePrefix valueString ascii)

theorem hexDigitU_eq (n : Nat) : hexDigitU n = hexChar n := rfl

theorem lit_eq_ascii (s : String) : lit s = ascii s := rfl

/-- variable-length digits: the fuel-driven loop prints the hexadecimal expansion -/
theorem hexDigits_min (fuel n : Nat) (h : n < 16 ^ (fuel + 1)) : hexDigits hexDigitU (fuel + 1) 1 n = hexMin n := by
  induction fuel generalizing n with
  | zero =>
    have : n < 16 := by simpa using h
    rw [hexDigits, hexMin]; simp [this, hexDigitU_eq]
  | succ f ih =>
    rw [hexDigits, hexMin]
    by_cases hn : n < 16
    · simp [hn, hexDigitU_eq]
    · have hlt : n / 16 < 16 ^ (f + 1) := by
        rw [Nat.div_lt_iff_lt_mul (by decide)]; rw [Nat.pow_succ] at h; exact h
      simp only [hn, false_and, if_false, dif_neg, not_false_eq_true]
      rw [show (1 - 1 : Nat) = 0 from rfl]
      have e : hexDigits hexDigitU (f + 1) 0 (n / 16) = hexDigits hexDigitU (f + 1) 1 (n / 16) := by
        rw [hexDigits, hexDigits]; simp
      rw [e, ih _ hlt, hexDigitU_eq]

theorem hexU_eq (n : Nat) (h : n < 2 ^ 32) : hexU n = hexMin n := by
  have h2 : (2 : Nat) ^ 32 ≤ 16 ^ (63 + 1) := by decide
  exact hexDigits_min 63 n (by omega)

theorem hexDigits_step (dig : Nat → Nat) (fuel w n : Nat) :
    hexDigits dig (fuel + 1) (w + 2) n = hexDigits dig fuel (w + 1) (n / 16) ++ [dig (n % 16)] := by
  rw [hexDigits]
  have : ¬ (n < 16 ∧ w + 2 ≤ 1) := by omega
  simp [this]

theorem hexDigits_last (dig : Nat → Nat) (fuel n : Nat) (h : n < 16) : hexDigits dig (fuel + 1) 1 n = [dig n] := by
  rw [hexDigits]; simp [h]

theorem hex8U_eq (d : Nat) (h : d < 2 ^ 32) : hex8U d = hex8 d := by
  have h7 : d / 16 / 16 / 16 / 16 / 16 / 16 / 16 < 16 := by omega
  show hexDigits hexDigitU (63 + 1) (6 + 2) d = hex8 d
  rw [hexDigits_step]
  show hexDigits hexDigitU (62 + 1) (5 + 2) _ ++ _ = _
  rw [hexDigits_step]
  show hexDigits hexDigitU (61 + 1) (4 + 2) _ ++ _ ++ _ = _
  rw [hexDigits_step]
  show hexDigits hexDigitU (60 + 1) (3 + 2) _ ++ _ ++ _ ++ _ = _
  rw [hexDigits_step]
  show hexDigits hexDigitU (59 + 1) (2 + 2) _ ++ _ ++ _ ++ _ ++ _ = _
  rw [hexDigits_step]
  show hexDigits hexDigitU (58 + 1) (1 + 2) _ ++ _ ++ _ ++ _ ++ _ ++ _ = _
  rw [hexDigits_step]
  show hexDigits hexDigitU (57 + 1) (0 + 2) _ ++ _ ++ _ ++ _ ++ _ ++ _ ++ _ = _
  rw [hexDigits_step]
  show hexDigits hexDigitU (56 + 1) 1 _ ++ _ ++ _ ++ _ ++ _ ++ _ ++ _ ++ _ = _
  rw [hexDigits_last _ _ _ h7]
  simp only [hex8, hexDigitU_eq, List.cons_append, List.nil_append, List.append_assoc]
  have e1 : d / 16 / 16 / 16 / 16 / 16 / 16 / 16 = d / 16 ^ 7 % 16 := by omega
  have e2 : d / 16 / 16 / 16 / 16 / 16 / 16 % 16 = d / 16 ^ 6 % 16 := by omega
  have e3 : d / 16 / 16 / 16 / 16 / 16 % 16 = d / 16 ^ 5 % 16 := by omega
  have e4 : d / 16 / 16 / 16 / 16 % 16 = d / 16 ^ 4 % 16 := by omega
  have e5 : d / 16 / 16 / 16 % 16 = d / 16 ^ 3 % 16 := by omega
  have e6 : d / 16 / 16 % 16 = d / 16 ^ 2 % 16 := by omega
  rw [e1, e2, e3, e4, e5, e6]

theorem hex2U_eq (t : Nat) (h : t < 256) : hex2U t = hex2 t := by
  have h1 : t / 16 < 16 := by omega
  show hexDigits hexDigitU (63 + 1) (0 + 2) t = hex2 t
  rw [hexDigits_step]
  show hexDigits hexDigitU (62 + 1) 1 _ ++ _ = _
  rw [hexDigits_last _ _ _ h1]
  simp [hex2, hexDigitU_eq, Nat.mod_eq_of_lt h1]

theorem decDigits_eq (fuel n : Nat) (h : n < 10 ^ (fuel + 1)) : decDigits (fuel + 1) n = dec n := by
  induction fuel generalizing n with
  | zero =>
    have : n < 10 := by simpa using h
    rw [decDigits, dec]; simp [this]
  | succ f ih =>
    rw [decDigits, dec]
    by_cases hn : n < 10
    · simp [hn]
    · have hlt : n / 10 < 10 ^ (f + 1) := by
        rw [Nat.div_lt_iff_lt_mul (by decide)]; rw [Nat.pow_succ] at h; exact h
      simp only [hn, if_false, dif_neg, not_false_eq_true]
      rw [ih _ hlt]

theorem decNat_eq (n : Nat) (h : n ≤ 2 ^ 32) : decNat n = dec n := by
  have h2 : (2 : Nat) ^ 32 < 10 ^ (63 + 1) := by decide
  exact decDigits_eq 63 n (by omega)

theorem fmtIntDec_eq (d : Nat) (h : d < 2 ^ 32) : fmtIntDec d = int32String d := by
  unfold fmtIntDec int32String
  by_cases hd : d < 2 ^ 31
  · have : ¬ d > 0x7FFFFFFF := by omega
    simp only [this, if_false, hd, if_true]
    exact decNat_eq d (by omega)
  · have h1 : d > 0x7FFFFFFF := by omega
    have h2 : 0x80000000 - d % 0x80000000 = 2 ^ 32 - d := by omega
    simp only [h1, if_true, hd, if_false, h2]
    rw [decNat_eq _ (by omega)]

theorem fmtPackage_eq (d : Nat) : fmtPackage d = packagePrefix d := by
  unfold fmtPackage packagePrefix
  simp [lit_eq_ascii]

/-- `format_value` returns the string the value denotes, for every type byte and every 32-bit data word -/
theorem formatValue_eq_valueString (opq : Nat → Nat → Str) (ty data : Nat) (str : Str) (ht : ty < 256) (hd : data < 2 ^ 32) :
    formatValue opq ty data str = valueString opq ty data str := by
  unfold formatValue valueString
  simp only [TYPE_STRING, TYPE_ATTRIBUTE, TYPE_REFERENCE, TYPE_FLOAT, TYPE_INT_HEX, TYPE_INT_BOOLEAN, TYPE_DIMENSION,
    TYPE_FRACTION, TYPE_FIRST_COLOR_INT, TYPE_LAST_COLOR_INT, TYPE_FIRST_INT, TYPE_LAST_INT,
    hex8U_eq data hd, fmtPackage_eq, fmtIntDec_eq data hd, hexU_eq data hd, hex2U_eq ty ht, lit_eq_ascii]
  by_cases h3 : ty = 3
  · simp [h3]
  by_cases h2 : ty = 2
  · simp [h2]
  by_cases h1 : ty = 1
  · simp [h1]
  by_cases h4 : ty = 4
  · simp [h4]
  by_cases h5 : ty = 5
  · simp [h5]
  by_cases h6 : ty = 6
  · simp [h6]
  by_cases h11 : ty = 0x11
  · simp [h11]
  by_cases h12 : ty = 0x12
  · simp [h12]
  simp only [h3, h2, h1, h4, h5, h6, h11, h12, if_false, false_or]

end AgVerif.Proof.AxmlSpecValue
