/- C26: the strings `format_value` builds for the integer-like Res_value types consist of XML characters. -/
import AgVerif.Spec.AxmlFile
namespace AgVerif.Proof.Axml
open AgVerif.Axml AgVerif.Spec.Axml AgVerif.Gen.AxmlConsts

theorem legal_append {a b : Str} (ha : LegalValue a) (hb : LegalValue b) : LegalValue (a ++ b) := by
  intro c hc
  rcases List.mem_append.1 hc with h | h
  · exact ha c h
  · exact hb c h

theorem legal_cons {c : Nat} {r : Str} (hc : XmlChar c) (hr : LegalValue r) : LegalValue (c :: r) := by
  intro x hx
  rcases List.mem_cons.1 hx with h | h
  · rw [h]; exact hc
  · exact hr x h

theorem legal_hexDigits (dig : Nat → Nat) (hd : ∀ k, k < 16 → XmlChar (dig k)) (fuel w n : Nat) :
    LegalValue (hexDigits dig fuel w n) := by
  induction fuel generalizing w n with
  | zero => intro c hc; simp [hexDigits] at hc
  | succ f ih =>
    rw [hexDigits]
    split
    · rename_i h
      exact legal_cons (hd n h.1) (by intro c hc; cases hc)
    · exact legal_append (ih _ _) (legal_cons (hd _ (Nat.mod_lt _ (by omega))) (by intro c hc; cases hc))

theorem hexDigitU_legal (k : Nat) (h : k < 16) : XmlChar (hexDigitU k) := by
  unfold hexDigitU XmlChar; split <;> omega

theorem legal_decDigits (fuel n : Nat) : LegalValue (decDigits fuel n) := by
  induction fuel generalizing n with
  | zero => intro c hc; simp [decDigits] at hc
  | succ f ih =>
    rw [decDigits]
    split
    · exact legal_cons (by unfold XmlChar; omega) (by intro c hc; cases hc)
    · exact legal_append (ih _) (legal_cons (by unfold XmlChar; omega) (by intro c hc; cases hc))

theorem legal_fmtIntDec (x : Nat) : LegalValue (fmtIntDec x) := by
  unfold fmtIntDec decNat
  split
  · exact legal_cons (by unfold XmlChar; omega) (legal_decDigits _ _)
  · exact legal_decDigits _ _

theorem legal_fmtPackage (x : Nat) : LegalValue (fmtPackage x) := by
  unfold fmtPackage
  split
  · decide
  · intro c hc; cases hc

theorem legal_ite {c : Prop} [Decidable c] {a b : Str} (ha : c → LegalValue a) (hb : ¬ c → LegalValue b) :
    LegalValue (if c then a else b) := by
  split
  · exact ha (by assumption)
  · exact hb (by assumption)

/-- `format_value` returns XML characters: always for the reference / integer / boolean / colour / unknown types, for a string
    value when the string is one, for float / dimension / fraction when the (C27) rendering is one -/
theorem formatValue_legal (opq : Nat → Nat → Str) (ty data : Nat) (str : Str) (hs : ty = 3 → LegalValue str)
    (ho : ty = 4 ∨ ty = 5 ∨ ty = 6 → LegalValue (opq ty data)) : LegalValue (formatValue opq ty data str) := by
  have hx8 : LegalValue (hex8U data) := legal_hexDigits hexDigitU hexDigitU_legal 64 8 data
  have c3F : XmlChar 0x3F := by unfold XmlChar; omega
  have c40 : XmlChar 0x40 := by unfold XmlChar; omega
  have c23 : XmlChar 0x23 := by unfold XmlChar; omega
  unfold formatValue
  simp only [TYPE_STRING, TYPE_ATTRIBUTE, TYPE_REFERENCE, TYPE_FLOAT, TYPE_INT_HEX, TYPE_INT_BOOLEAN, TYPE_DIMENSION,
    TYPE_FRACTION, TYPE_FIRST_COLOR_INT, TYPE_LAST_COLOR_INT, TYPE_FIRST_INT, TYPE_LAST_INT]
  refine legal_ite hs fun _ => ?_
  refine legal_ite (fun _ => legal_cons c3F (legal_append (legal_fmtPackage _) hx8)) fun _ => ?_
  refine legal_ite (fun _ => legal_cons c40 (legal_append (legal_fmtPackage _) hx8)) fun _ => ?_
  refine legal_ite (fun h => ho (Or.inl h)) fun _ => ?_
  refine legal_ite (fun _ => legal_append (by decide) hx8) fun _ => ?_
  refine legal_ite (fun _ => legal_ite (fun _ => by decide) (fun _ => by decide)) fun _ => ?_
  refine legal_ite (fun h => ho (Or.inr (Or.inl h))) fun _ => ?_
  refine legal_ite (fun h => ho (Or.inr (Or.inr h))) fun _ => ?_
  refine legal_ite (fun _ => legal_cons c23 hx8) fun _ => ?_
  refine legal_ite (fun _ => legal_fmtIntDec _) fun _ => ?_
  exact legal_append (legal_append (legal_append (legal_append (by decide) (legal_hexDigits hexDigitU hexDigitU_legal 64 1 data))
    (by decide)) (legal_hexDigits hexDigitU hexDigitU_legal 64 2 ty)) (by decide)

end AgVerif.Proof.Axml
