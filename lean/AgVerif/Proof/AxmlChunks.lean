/- C26, file level: one iteration of `AXMLParser._do_next` on each kind of encoded chunk. -/
import AgVerif.Proof.AxmlPool
import AgVerif.Proof.AxmlResolve
namespace AgVerif.Proof.Axml
open AgVerif.Axml AgVerif.Spec.Axml AgVerif.Gen.AxmlConsts

theorem idx_lt (E : Enc) (x : Str) (h : x ∈ E.strings) : sidx E x < E.strings.length := by
  unfold sidx; exact List.idxOf_lt_length_of_mem h

theorem nextLoop_startNs (f : Nat) (s : PState) (B : Bytes) (p : Nat) (tail : Bytes) (E : Enc) (line : Nat) (d : Str × Str)
    (hcur : s.cur = ⟨B, encStartNs E line d ++ tail, p⟩) (hB : B.drop p = encStartNs E line d ++ tail)
    (hfs : s.filesize = B.length) (hp : PoolOk E s) (h1 : d.1 ∈ E.strings) (h2 : d.2 ∈ E.strings)
    (hline : line < 2 ^ 32) :
    nextLoop (f + 1) s = nextLoop f
      { s with cur := ⟨B, tail, p + 24⟩, comment := noEntry, namespaces := s.namespaces ++ [(sidx E d.1, sidx E d.2)] } := by
  have hlen : p + 24 ≤ B.length := by
    have := congrArg List.length hB; simp [encStartNs, node] at this; omega
  have hne : ¬ p = B.length := by omega
  have i1 := idx_lt E _ h1
  have i2 := idx_lt E _ h2
  have hsm := hp.small
  have hsize : 16 + (w32 (sidx E d.1) ++ w32 (sidx E d.2)).length = 24 := by simp
  rw [nextLoop]
  simp only [hcur, hfs, hne, if_false, encStartNs, node, List.append_assoc, hsize]
  rw [readHdr_mk B p 0x100 16 24 _ none (by omega) (by omega) (by omega) (by omega) (by omega) (by omega) (by simp)]
  simp only [u32_mk B line _ _ hline, u32_mk B 0xFFFFFFFF _ _ (by omega), u32_mk B (sidx E d.1) _ _ (by omega),
    u32_mk B (sidx E d.2) _ _ (by omega), hp.get _ h1, hp.get _ h2]
  simp [RES_XML_RESOURCE_MAP_TYPE, isNodeType, RES_XML_FIRST_CHUNK_TYPE, RES_XML_LAST_CHUNK_TYPE, NODE_HEADER_SIZE,
    RES_XML_START_NAMESPACE_TYPE, noEntry]

theorem oidx_lt (E : Enc) (ns : Option Str) (h : wfNs E ns = true) (hs : E.strings.length < 0xFFFFFFFF) :
    oidx E ns < 2 ^ 32 := by
  cases ns with
  | none => simp [oidx]
  | some u =>
    simp only [wfNs, Bool.and_eq_true, decide_eq_true_eq] at h
    have := idx_lt E u h.1
    simp only [oidx]; omega

theorem nextLoop_endNs (f : Nat) (s : PState) (B : Bytes) (p : Nat) (tail : Bytes) (E : Enc) (line : Nat) (d : Str × Str)
    (hcur : s.cur = ⟨B, encEndNs E line d ++ tail, p⟩) (hB : B.drop p = encEndNs E line d ++ tail)
    (hfs : s.filesize = B.length) (hp : PoolOk E s) (h1 : d.1 ∈ E.strings) (h2 : d.2 ∈ E.strings)
    (hline : line < 2 ^ 32) :
    nextLoop (f + 1) s = nextLoop f
      { s with cur := ⟨B, tail, p + 24⟩, comment := noEntry, namespaces := removeFirst (sidx E d.1, sidx E d.2) s.namespaces } := by
  have hlen : p + 24 ≤ B.length := by
    have := congrArg List.length hB; simp [encEndNs, node] at this; omega
  have hne : ¬ p = B.length := by omega
  have i1 := idx_lt E _ h1
  have i2 := idx_lt E _ h2
  have hsm := hp.small
  have hsize : 16 + (w32 (sidx E d.1) ++ w32 (sidx E d.2)).length = 24 := by simp
  rw [nextLoop]
  simp only [hcur, hfs, hne, if_false, encEndNs, node, List.append_assoc, hsize]
  rw [readHdr_mk B p 0x101 16 24 _ none (by omega) (by omega) (by omega) (by omega) (by omega) (by omega) (by simp)]
  simp only [u32_mk B line _ _ hline, u32_mk B 0xFFFFFFFF _ _ (by omega), u32_mk B (sidx E d.1) _ _ (by omega),
    u32_mk B (sidx E d.2) _ _ (by omega)]
  simp [RES_XML_RESOURCE_MAP_TYPE, isNodeType, RES_XML_FIRST_CHUNK_TYPE, RES_XML_LAST_CHUNK_TYPE, NODE_HEADER_SIZE,
    RES_XML_START_NAMESPACE_TYPE, RES_XML_END_NAMESPACE_TYPE, noEntry]

theorem nextLoop_end (f : Nat) (s : PState) (B : Bytes) (p : Nat) (tail : Bytes) (E : Enc) (line : Nat) (tag : Str)
    (ns : Option Str)
    (hcur : s.cur = ⟨B, encEnd E line tag ns ++ tail, p⟩) (hB : B.drop p = encEnd E line tag ns ++ tail)
    (hfs : s.filesize = B.length) (hp : PoolOk E s) (h1 : tag ∈ E.strings) (h2 : wfNs E ns = true)
    (hline : line < 2 ^ 32) :
    nextLoop (f + 1) s = .ok
      { s with cur := ⟨B, tail, p + 24⟩, comment := noEntry, event := .end_, name := sidx E tag, nsUri := oidx E ns } := by
  have hlen : p + 24 ≤ B.length := by
    have := congrArg List.length hB; simp [encEnd, node] at this; omega
  have hne : ¬ p = B.length := by omega
  have i1 := idx_lt E _ h1
  have hsm := hp.small
  have i2 := oidx_lt E ns h2 hsm
  have hsize : 16 + (w32 (oidx E ns) ++ w32 (sidx E tag)).length = 24 := by simp
  have htail : B.drop (p + 24) = tail := by
    have := drop_add_of_drop_eq hB
    simpa [encEnd, node] using this
  rw [nextLoop]
  simp only [hcur, hfs, hne, if_false, encEnd, node, List.append_assoc, hsize]
  rw [readHdr_mk B p 0x103 16 24 _ none (by omega) (by omega) (by omega) (by omega) (by omega) (by omega) (by simp)]
  simp only [bind, Except.bind, u32_mk B line _ _ hline, u32_mk B 0xFFFFFFFF _ _ (by omega), u32_mk B (sidx E tag) _ _ (by omega),
    u32_mk B (oidx E ns) _ _ i2]
  simp [RES_XML_RESOURCE_MAP_TYPE, isNodeType, RES_XML_FIRST_CHUNK_TYPE, RES_XML_LAST_CHUNK_TYPE, NODE_HEADER_SIZE,
    RES_XML_START_NAMESPACE_TYPE, RES_XML_END_NAMESPACE_TYPE, RES_XML_START_ELEMENT_TYPE, RES_XML_END_ELEMENT_TYPE, noEntry,
    Cur.seek, Hdr.end_, htail]

theorem nextLoop_text (f : Nat) (s : PState) (B : Bytes) (p : Nat) (tail : Bytes) (E : Enc) (line : Nat) (t : Str)
    (hcur : s.cur = ⟨B, encText E line t ++ tail, p⟩) (hB : B.drop p = encText E line t ++ tail)
    (hfs : s.filesize = B.length) (hp : PoolOk E s) (h1 : t ∈ E.strings) (hline : line < 2 ^ 32) :
    nextLoop (f + 1) s = .ok
      { s with cur := ⟨B, tail, p + 28⟩, comment := noEntry, event := .text, name := sidx E t } := by
  have hlen : p + 28 ≤ B.length := by
    have := congrArg List.length hB; simp [encText, node] at this; omega
  have hne : ¬ p = B.length := by omega
  have i1 := idx_lt E _ h1
  have hsm := hp.small
  have hsize : 16 + (w32 (sidx E t) ++ [8, 0, 0, 0, 0, 0, 0, 0]).length = 28 := by simp
  have htail : B.drop (p + 28) = tail := by
    have := drop_add_of_drop_eq hB
    simpa [encText, node] using this
  rw [nextLoop]
  simp only [hcur, hfs, hne, if_false, encText, node, List.append_assoc, hsize]
  rw [readHdr_mk B p 0x104 16 28 _ none (by omega) (by omega) (by omega) (by omega) (by omega) (by omega) (by simp)]
  simp only [bind, Except.bind, u32_mk B line _ _ hline, u32_mk B 0xFFFFFFFF _ _ (by omega), u32_mk B (sidx E t) _ _ (by omega)]
  simp [RES_XML_RESOURCE_MAP_TYPE, isNodeType, RES_XML_FIRST_CHUNK_TYPE, RES_XML_LAST_CHUNK_TYPE, NODE_HEADER_SIZE,
    RES_XML_START_NAMESPACE_TYPE, RES_XML_END_NAMESPACE_TYPE, RES_XML_START_ELEMENT_TYPE, RES_XML_END_ELEMENT_TYPE,
    RES_XML_CDATA_TYPE, noEntry, Cur.seek, Cur.read, Hdr.end_, htail]

theorem nextLoop_endDoc (f : Nat) (s : PState) (h : s.cur.pos = s.filesize) :
    nextLoop (f + 1) s = .ok { s with event := .endDoc } := by
  rw [nextLoop]; simp [h]

theorem nextLoop_resMap (f : Nat) (s : PState) (B : Bytes) (p : Nat) (tail : Bytes) (ids : List Nat)
    (hcur : s.cur = ⟨B, encResMap ids ++ tail, p⟩) (hB : B.drop p = encResMap ids ++ tail)
    (hfs : s.filesize = B.length) (hids : ∀ i ∈ ids, i < 2 ^ 32) (hsmall : B.length < 2 ^ 32) :
    nextLoop (f + 1) s = nextLoop f { s with cur := ⟨B, tail, p + (8 + 4 * ids.length)⟩, resIds := s.resIds ++ ids } := by
  have hlen : p + (8 + 4 * ids.length) ≤ B.length := by
    have := congrArg List.length hB
    simp only [encResMap, List.length_append, List.length_drop, w16_length, w32_length, flatMap_w32_length] at this; omega
  have hne : ¬ p = B.length := by omega
  have hd : (8 + 4 * ids.length - 8) / 4 = ids.length := by omega
  have hm : ¬ ((8 + 4 * ids.length) < 8 ∨ (8 + 4 * ids.length) % 4 ≠ 0) := by omega
  rw [nextLoop]
  simp only [hcur, hfs, hne, if_false, encResMap, List.append_assoc]
  rw [readHdr_mk B p 0x180 8 (8 + 4 * ids.length) _ none (by omega) (by omega) (by omega) (by omega) (by omega) (by omega) (by simp)]
  simp only [RES_XML_RESOURCE_MAP_TYPE, if_true, hm, if_false, hd, readU32s_mk B ids _ tail hids]
  congr 3; omega

/-! ### START_ELEMENT -/

theorem w16_pair (a b : Nat) (t : Bytes) (ha : a < 2 ^ 16) (_hb : b < 2 ^ 16) :
    w16 a ++ (w16 b ++ t) = w32 (a + 65536 * b) ++ t := by
  simp only [w16, w32, leBytes, List.cons_append, List.nil_append, List.cons.injEq, and_true]
  omega

theorem w16_typ (ty : Nat) (t : Bytes) (h : ty < 256) : w16 8 ++ ([0, ty] ++ t) = w32 (8 + 16777216 * ty) ++ t := by
  simp only [w16, w32, leBytes, List.cons_append, List.nil_append, List.cons.injEq, and_true]
  omega

theorem encAttr_length (E : Enc) (a : SAttr) : (encAttr E a).length = 20 := by simp [encAttr]

theorem flatMap_encAttr_length (E : Enc) (l : List SAttr) : (l.flatMap (encAttr E)).length = 20 * l.length := by
  induction l with
  | nil => rfl
  | cons a r ih => simp only [List.flatMap_cons, List.length_append, encAttr_length, ih, List.length_cons]; omega

theorem readAttrs_mk (opq : Nat → Nat → Str) (B : Bytes) (E : Enc) (attrs : List SAttr) (p : Nat) (tail : Bytes)
    (hs : E.strings.length < 0xFFFFFFFF) (hwf : ∀ a ∈ attrs, wfAttr opq E a = true) :
    readAttrs 20 attrs.length ⟨B, attrs.flatMap (encAttr E) ++ tail, p⟩
      = .ok (attrs.map (rawOf E), ⟨B, tail, p + 20 * attrs.length⟩) := by
  induction attrs generalizing p with
  | nil => simp [readAttrs]
  | cons a r ih =>
    have hw := hwf a (by simp)
    simp only [wfAttr, Bool.and_eq_true, Bool.or_eq_true, decide_eq_true_eq] at hw
    obtain ⟨⟨⟨⟨⟨⟨⟨⟨hns, hname⟩, _⟩, _⟩, hty⟩, hraw⟩, hdata⟩, hstr⟩, _⟩ := hw
    have i1 := oidx_lt E a.ns hns hs
    have i2 := idx_lt E _ hname
    have i3 : (if a.ty = 3 then sidx E a.str else a.raw) < 2 ^ 32 := by
      split
      · rename_i h3; rcases hstr with h | h
        · exact absurd h3 h
        · have := idx_lt E _ h; omega
      · exact hraw
    have i4 : (if a.ty = 3 then sidx E a.str else a.data) < 2 ^ 32 := by
      split
      · rename_i h3; rcases hstr with h | h
        · exact absurd h3 h
        · have := idx_lt E _ h; omega
      · exact hdata
    have h2 := ih (p + 4 + 4 + 4 + 4 + 4) (fun x hx => hwf x (by simp [hx]))
    have hdiv : (8 + 16777216 * a.ty) / 16777216 = a.ty := by omega
    simp only [List.flatMap_cons, List.append_assoc, List.length_cons, readAttrs, encAttr, w16_typ a.ty _ hty,
      bind, Except.bind, u32_mk B _ _ _ i1, u32_mk B (sidx E a.name) _ _ (by omega), u32_mk B _ _ _ i3, u32_mk B _ _ _ i4,
      u32_mk B (8 + 16777216 * a.ty) _ _ (by omega)]
    simp only [ATTRIBUTE_SIZE, Nat.lt_irrefl, if_false, Nat.sub_self, Cur.read, List.drop_zero, Nat.zero_min, Nat.add_zero, h2,
      List.map_cons, rawOf, hdiv]
    congr 3; omega

theorem nextLoop_start (opq : Nat → Nat → Str) (f : Nat) (s : PState) (B : Bytes) (p : Nat) (tail : Bytes) (E : Enc)
    (line : Nat) (tag : Str) (ns : Option Str) (attrs : List SAttr)
    (hcur : s.cur = ⟨B, encStart E line tag ns attrs ++ tail, p⟩) (hB : B.drop p = encStart E line tag ns attrs ++ tail)
    (hfs : s.filesize = B.length) (hp : PoolOk E s) (h1 : tag ∈ E.strings) (h2 : wfNs E ns = true)
    (hline : line < 2 ^ 32) (hn : attrs.length < 2 ^ 16) (hwf : ∀ a ∈ attrs, wfAttr opq E a = true) :
    nextLoop (f + 1) s = .ok
      { s with cur := ⟨B, tail, p + (36 + 20 * attrs.length)⟩, comment := noEntry, event := .start, name := sidx E tag,
               nsUri := oidx E ns, attrs := attrs.map (rawOf E) } := by
  have hbl : (w32 (oidx E ns) ++ (w32 (sidx E tag) ++ (w16 0x14 ++ (w16 0x14 ++ (w16 attrs.length ++ (w16 0 ++ (w16 0
      ++ (w16 0 ++ attrs.flatMap (encAttr E))))))))).length = 20 + 20 * attrs.length := by
    simp only [List.length_append, w16_length, w32_length, flatMap_encAttr_length]; omega
  have hlen : p + (36 + 20 * attrs.length) ≤ B.length := by
    have := congrArg List.length hB
    simp only [encStart, node, List.length_append, List.length_drop, w16_length, w32_length, hbl] at this; omega
  have hne : ¬ p = B.length := by omega
  have i1 := idx_lt E _ h1
  have hsm := hp.small
  have i2 := oidx_lt E ns h2 hsm
  have htail : B.drop (p + (36 + 20 * attrs.length)) = tail := by
    have := drop_add_of_drop_eq hB
    simpa only [encStart, node, List.length_append, w16_length, w32_length, hbl, (by omega : 2 + (2 + (4 + (4 + (4 + (20 + 20 * attrs.length))))) = 36 + 20 * attrs.length)] using this
  have hmod : (attrs.length + 65536 * 0) % 65536 = attrs.length := by omega
  rw [nextLoop]
  simp only [hcur, hfs, hne, if_false, encStart, node, List.append_assoc, hbl]
  rw [readHdr_mk B p 0x102 16 (16 + (20 + 20 * attrs.length)) _ none (by omega) (by omega) (by omega) (by omega) (by omega) (by omega) (by simp)]
  simp only [w16_pair attrs.length 0 _ hn (by omega), w16_pair 0 0 _ (by omega) (by omega),
    bind, Except.bind, u32_mk B line _ _ hline, u32_mk B 0xFFFFFFFF _ _ (by omega), u32_mk B (sidx E tag) _ _ (by omega),
    u32_mk B (oidx E ns) _ _ i2, u16_mk B 0x14 _ _ (by omega), u32_mk B (attrs.length + 65536 * 0) _ _ (by omega),
    u32_mk B (0 + 65536 * 0) _ _ (by omega), hmod, readAttrs_mk opq B E attrs _ tail hsm hwf]
  simp [RES_XML_RESOURCE_MAP_TYPE, isNodeType, RES_XML_FIRST_CHUNK_TYPE, RES_XML_LAST_CHUNK_TYPE, NODE_HEADER_SIZE,
    RES_XML_START_NAMESPACE_TYPE, RES_XML_END_NAMESPACE_TYPE, RES_XML_START_ELEMENT_TYPE, noEntry,
    Cur.seek, Hdr.end_, htail, (by omega : 16 + (20 + 20 * attrs.length) = 36 + 20 * attrs.length)]

end AgVerif.Proof.Axml
