/-
C02: the loop rebuilds a valid instruction from its `get_raw()` bytes (encode-then-decode at the level of `build`).
-/
import AgVerif.Proof.SweepSound
import AgVerif.Proof.InsnEdAll
set_option linter.unusedSimpArgs false
set_option linter.unusedVariables false
namespace AgVerif.Sweep
open AgVerif.Insn AgVerif.Gen

/-- a valid instruction object: its class is the one the opcode table names for its opcode, and its attributes are
    in the field ranges of the format document (`fieldsOK`) -/
def ValidInsn (f : Fmt) (x : Insn) : Bool :=
  x.fmt == f && (decide (x.op < 256) && (fmtOf x.op == some f && fieldsOK f x.op x.v))

/-- a constructed 10x object had a zero second byte -/
theorem decode_10x_pad {b0 b1 : Nat} {r : List Nat} {x : Insn} (h : decode .f10x (b0 :: b1 :: r) = .ok x) :
    b1 = 0 := by
  dec_simp at h
  split at h
  · assumption
  · cases h

theorem fmtOf_zero : fmtOf 0 = some .f10x := by decide +kernel

/-- `build` (non-ODEX) applied to the raw bytes of a valid instruction, followed by anything, rebuilds it -/
theorem build_insn_raw (f : Fmt) (x : Insn) (hv : ValidInsn f x = true) :
    ∃ bytes, (Item.insn f x).raw = some bytes ∧ bytes.length = (Item.insn f x).length ∧ AllBytes bytes ∧
      2 ≤ bytes.length ∧ ∀ rest, build false (bytes ++ rest) = some (.insn f x) := by
  obtain ⟨xf, op, v⟩ := x
  simp only [ValidInsn, Bool.and_eq_true, beq_iff_eq, decide_eq_true_eq] at hv
  obtain ⟨hf, hop, hfmt, hok⟩ := hv
  subst hf
  obtain ⟨bytes, henc, hlen, hbytes, hhead, hdec⟩ := encode_decode_fields xf op v hop hok
  have hpos : 0 < Opcodes.length xf := decode_len_pos (hdec [])
  have h2 : 2 ≤ bytes.length := by
    rw [hlen]
    show 2 ≤ Opcodes.length xf
    cases xf <;> simp [Opcodes.length] at hpos ⊢
  refine ⟨bytes, henc, hlen, hbytes, h2, ?_⟩
  intro rest
  obtain ⟨b0, b1, tl, rfl⟩ := ex2 bytes h2
  simp only [List.head?_cons, Option.some.injEq] at hhead
  subst hhead
  simp only [allBytes_cons] at hbytes
  obtain ⟨_, hb1, _⟩ := hbytes
  have hd := hdec rest
  simp only [List.cons_append] at hd ⊢
  have hins : insnItem (some xf) (b0 :: b1 :: (tl ++ rest)) = some (.insn xf ⟨xf, b0, v⟩) := by
    simp only [insnItem, hd]
  have hmod : (b0 + 256 * b1) % 256 = b0 := by omega
  unfold build
  simp only [hmod]
  split
  · rename_i hc
    have hcase : b0 = 0 ∨ b0 = 0xFF := hc.2
    rcases hcase with rfl | rfl
    · exfalso
      rw [fmtOf_zero] at hfmt
      simp only [Option.some.injEq] at hfmt
      subst hfmt
      have := decode_10x_pad hd
      omega
    · rw [if_neg (by omega), if_neg (by omega), if_neg (by omega), if_neg (by simp), if_pos rfl, hfmt]
      exact hins
  · rw [hfmt]; exact hins

end AgVerif.Sweep
