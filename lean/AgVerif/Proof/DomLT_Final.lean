/-
C18, Lengauer–Tarjan correctness, layer 6: Step 4 and the final theorem `domLT_correct`:
on every well-formed graph the model of `dom_lt` terminates without error and returns the dominator
tree.
-/
import AgVerif.Proof.DomLT_Iter
namespace AgVerif.DomLT
open AgVerif AgVerif.Spec

/-- Step 1 does not touch `bucket` and `dom` -/
theorem dfsLoop_frame (g : Digraph) : ∀ (f cur : Nat) (ws : List Nat) (s : St) (n : Nat)
    (s' : St) (n' : Nat), dfsLoop g f cur ws (s, n) = some (s', n') →
    s'.bucket = s.bucket ∧ s'.dom = s.dom
  | 0, _, _, _, _, _, _, h => by simp [dfsLoop] at h
  | f + 1, cur, [], s, n, s', n', h => by
    simp [dfsLoop] at h; obtain ⟨h1, _⟩ := h; subst h1; exact ⟨rfl, rfl⟩
  | f + 1, cur, w :: ws, s, n, s', n', h => by
    simp only [dfsLoop] at h
    split at h
    · split at h
      · simp at h
      · next s2 n2 h1 =>
        have h2 := dfsLoop_frame g f w (g.allSucs w) _ _ s2 n2 h1
        have h3 := dfsLoop_frame g f cur ws _ _ s' n' h
        exact ⟨h3.1.trans h2.1, h3.2.trans h2.2⟩
    · have h3 := dfsLoop_frame g f cur ws (s.addPred w cur) n s' n' h
      exact h3

/-- pigeonhole: an injection of `1..n` into `0..m-1` has `n ≤ m` -/
theorem pigeonhole : ∀ (n m : Nat) (f : Nat → Nat), (∀ i, 1 ≤ i → i ≤ n → f i < m) →
    (∀ i j, 1 ≤ i → i ≤ n → 1 ≤ j → j ≤ n → f i = f j → i = j) → n ≤ m
  | 0, _, _, _, _ => Nat.zero_le _
  | n + 1, m, f, hlt, hinj => by
    have ht := hlt (n + 1) (by omega) (by omega)
    have hne : ∀ i, 1 ≤ i → i ≤ n → f i ≠ f (n + 1) := fun i h1 h2 e => by
      have := hinj i (n + 1) h1 (by omega) (by omega) (by omega) e; omega
    have := pigeonhole n (m - 1) (fun i => if f i < f (n + 1) then f i else f i - 1)
      (by
        intro i h1 h2
        have := hlt i h1 (by omega); have := hne i h1 h2
        show (if f i < f (n + 1) then f i else f i - 1) < m - 1
        split <;> omega)
      (by
        intro i j h1 h2 h3 h4 e
        have := hne i h1 h2; have := hne j h3 h4
        apply hinj i j h1 (by omega) h3 (by omega)
        have e' : (if f i < f (n + 1) then f i else f i - 1) = (if f j < f (n + 1) then f j else f j - 1) := e
        split at e' <;> split at e' <;> omega)
    omega

theorem reach_lt {g : Digraph} (hwf : g.WF) {v : Nat} (h : Reach g.Edge g.entry v) : v < g.n := by
  cases h with
  | refl => exact hwf.1
  | tail _ e => exact hwf.2 _ _ e

/-- the context of Steps 2–4 after Step 1 -/
theorem ctx_of_dfs {g : Digraph} (hwf : g.WF) {f : Nat} {s : St} {n : Nat}
    (h : dfs g f = some (s, n)) : Ctx g s n := by
  have hF := dfs_facts g f s n h
  have hfr := dfsLoop_frame g f g.entry (g.allSucs g.entry) _ _ s n h
  refine ⟨hF, dfs_dtree g f s n h, fun u => by rw [hfr.1]; rfl, fun v => by rw [hfr.2]; rfl, ?_⟩
  -- vertex[1..n] are distinct nodes below g.n
  have hvx : ∀ i, 1 ≤ i → i ≤ n → ∃ v, s.vertex i = some v ∧ s.semi v = i := hF.vertex_semi
  refine pigeonhole n g.n (fun i => (s.vertex i).getD 0) ?_ ?_
  · intro i h1 h2
    obtain ⟨v, hv, hs⟩ := hvx i h1 h2
    show (s.vertex i).getD 0 < g.n
    rw [hv]
    exact reach_lt hwf ((hF.semi_reach v).mp (by omega))
  · intro i j h1 h2 h3 h4 e
    obtain ⟨v, hv, hs⟩ := hvx i h1 h2
    obtain ⟨v', hv', hs'⟩ := hvx j h3 h4
    simp only [hv, hv', Option.getD_some] at e
    rw [← hs, ← hs', e]

theorem IsSemi.unique {E : Nat → Nat → Prop} {r : Nat} {num : Nat → Nat} {par : Nat → Option Nat}
    (T : DTree E r num par) {a b w : Nat} (ha : IsSemi E num a w) (hb : IsSemi E num b w) : a = b := by
  have h1 := ha.2 b hb.1
  have h2 := hb.2 a ha.1
  exact T.inj a b ha.1.1 (by omega)

/-- invariant of Step 4 before the iteration for the vertex numbered `j` -/
structure J4 (g : Digraph) (s0 : St) (j : Nat) (s : St) : Prop where
  vertex : s.vertex = s0.vertex
  semi : ∀ v, 1 < s0.semi v → ∃ sv, IsSemi g.Edge s0.semi sv v ∧ s.semi v = s0.semi sv
  dom_none : ∀ v, s0.semi v = 0 → s.dom v = none
  lo : ∀ v, 1 < s0.semi v → s0.semi v < j → ∃ d, s.dom v = some d ∧ IDom g.Edge g.entry d v
  hi : ∀ v, 1 < s0.semi v → j ≤ s0.semi v → ∃ d, s.dom v = some d ∧ Rel g s0 v d

/-- at level 1 all buckets are empty, so every vertex but the entry has its `dom` entry -/
theorem j4_of_linv {g : Digraph} {s0 : St} {n : Nat} (C : Ctx g s0 n) {s : St}
    (h : LInv g s0 1 s) : J4 g s0 2 s := by
  have T := C.tree
  refine ⟨h.core.stat.vertex, h.core.semi_hi, h.core.dom_none,
    fun v h1 h2 => by omega, ?_⟩
  intro v hv _
  rcases h.dom v hv with ⟨u, hu⟩ | hd
  · exfalso
    obtain ⟨_, _, b3, b4, b5, b6⟩ := h.bucket u v hu
    obtain ⟨c, hc, hcv⟩ := b4.child b5
    have := b6 c hc hcv
    have := (T.par_edge c u hc).2.2
    omega
  · exact hd

/-- Step 4 -/
theorem step4_spec {g : Digraph} {s0 : St} {n : Nat} (C : Ctx g s0 n) :
    ∀ (k j : Nat) (s : St), 2 ≤ j → j + k = n + 1 → J4 g s0 j s →
      ∃ s', step4 k j s = some s' ∧ J4 g s0 (n + 1) s'
  | 0, j, s, _, hk, h => ⟨s, rfl, by have : j = n + 1 := by omega
                                     subst this; exact h⟩
  | k + 1, j, s, hj, hk, h => by
    have T := C.tree
    obtain ⟨w, hvw, hw⟩ := C.facts.vertex_semi j (by omega) (by omega)
    have hw1 : 1 < s0.semi w := by omega
    obtain ⟨dw, hdw, hrel⟩ := h.hi w hw1 (by omega)
    obtain ⟨sv, hsv, hsv2⟩ := h.semi w hw1
    have hvs : s.vertex (s.semi w) = some sv := by
      rw [h.vertex, hsv2]; exact (C.facts.semi_vertex sv hsv.1.1).2.2
    have heq : ∀ v, s0.semi v = j → v = w := fun v hv => T.inj v w (by omega) (by omega)
    obtain ⟨sv', hsv', hcase⟩ := hrel
    have : sv' = sv := IsSemi.unique T hsv' hsv
    subst this
    have hvw2 : s.vertex j = some w := by rw [h.vertex]; exact hvw
    simp only [step4, hvw2, hdw, hvs]
    rcases hcase with ⟨h1, h2⟩ | ⟨h1, h2, h3, h4⟩
    · have hJ : J4 g s0 (j + 1) s := by
        refine ⟨h.vertex, h.semi, h.dom_none, ?_, fun v a b => h.hi v a (by omega)⟩
        intro v a b
        by_cases hvj : s0.semi v = j
        · rw [heq v hvj]; exact ⟨dw, hdw, h2⟩
        · exact h.lo v a (by omega)
      obtain ⟨s', hst, h'⟩ := step4_spec C k (j + 1) s (by omega) (by omega) hJ
      refine ⟨s', ?_, h'⟩
      have : ¬ (dw ≠ sv') := fun hne => hne h1
      rw [if_neg this]; exact hst
    · obtain ⟨ddw, hddw, hid⟩ := h.lo dw h2 (by omega)
      have hJ : J4 g s0 (j + 1) { s with dom := upd s.dom w (some ddw) } := by
        refine ⟨h.vertex, h.semi, ?_, ?_, ?_⟩
        · intro v hv
          have hvw' : v ≠ w := fun e => by subst e; omega
          show upd s.dom w (some ddw) v = none
          simp only [upd, if_neg hvw']; exact h.dom_none v hv
        · intro v a b
          by_cases hvj : s0.semi v = j
          · rw [heq v hvj]; exact ⟨ddw, by simp [upd], h4 ddw hid⟩
          · have hvw' : v ≠ w := fun e => by subst e; exact hvj hw
            obtain ⟨d, hd, hi⟩ := h.lo v a (by omega)
            exact ⟨d, by show upd s.dom w (some ddw) v = some d
                         simp only [upd, if_neg hvw']; exact hd, hi⟩
        · intro v a b
          have hvw' : v ≠ w := fun e => by subst e; omega
          obtain ⟨d, hd, hr⟩ := h.hi v a (by omega)
          exact ⟨d, by show upd s.dom w (some ddw) v = some d
                       simp only [upd, if_neg hvw']; exact hd, hr⟩
      obtain ⟨s', hst, h'⟩ := step4_spec C k (j + 1) _ (by omega) (by omega) hJ
      refine ⟨s', ?_, h'⟩
      rw [if_pos h1]
      simp only [hddw]; exact hst

/-- Steps 2 and 3 of the model are total on well-formed graphs and leave, for every reachable
    vertex other than the entry, `semi` = the number of its semidominator -/
theorem steps23_total {g : Digraph} (hwf : g.WF) {o : Order} (ho : o.Adm) {f : Nat} {s : St} {n : Nat}
    (h : dfs g f = some (s, n)) :
    ∃ s1, steps23 o (g.n + 1) n s none = some s1 ∧ LInv g s 1 s1 := by
  have C := ctx_of_dfs hwf h
  have hn : 1 ≤ n := by
    have := C.facts.semi_vertex g.entry (by rw [C.facts.entry_one]; omega)
    rw [C.facts.entry_one] at this; exact this.2.1
  have hf : ∀ v, s.semi v < g.n + 1 := by
    intro v
    by_cases hv : s.semi v = 0
    · omega
    · have := (C.facts.semi_vertex v hv).2.1
      have := C.fuel
      omega
  exact steps23_spec C ho hf n s none hn (Nat.le_refl _) (linv_init C)

theorem Order.ins_adm : Order.ins.Adm := fun _ _ _ => ⟨Iff.rfl, Iff.rfl⟩

/-- LENGAUER–TARJAN CORRECTNESS for the model of `dom_lt`: on every well-formed graph, and whatever
    the order in which the sets `pred[w]` and `bucket[pw]` are enumerated, the model terminates without
    error and returns the dominator tree -/
theorem domLTWith_correct (o : Order) (ho : o.Adm) (g : Digraph) (hwf : g.WF) :
    ∃ r, domLTWith o g = some r ∧ r.dom g.entry = some none ∧
      (∀ v, v ≠ g.entry → Reach g.Edge g.entry v →
        ∃ d, r.dom v = some (some d) ∧ IDom g.Edge g.entry d v) ∧
      (∀ v, ¬ Reach g.Edge g.entry v → r.dom v = none) := by
  obtain ⟨s, n, hdfs⟩ := dfs_total g hwf
  have C := ctx_of_dfs hwf hdfs
  have T := C.tree
  obtain ⟨s1, hst, hL⟩ := steps23_total hwf ho hdfs
  have hn : 1 ≤ n := by
    have := C.facts.semi_vertex g.entry (by rw [C.facts.entry_one]; omega)
    rw [C.facts.entry_one] at this; exact this.2.1
  obtain ⟨s2, hst4, hJ⟩ := step4_spec C (n - 1) 2 s1 (Nat.le_refl _) (by omega) (j4_of_linv C hL)
  refine ⟨{ dom := fun v => if v = g.entry then some none else (s2.dom v).map some,
            order := (List.range' 1 n).filterMap s.vertex,
            dfnum := s.semi, parent := s.parent, pred := s.pred },
    by simp only [domLTWith, hdfs, hst, hst4], by simp, ?_, ?_⟩
  · intro v hne hr
    have hv0 : s.semi v ≠ 0 := (C.facts.semi_reach v).mpr hr
    have hv1 : s.semi v ≠ 1 := fun e =>
      hne (T.inj v g.entry hv0 (by rw [e, C.facts.entry_one]))
    have hvn := (C.facts.semi_vertex v hv0).2.1
    obtain ⟨d, hd, hi⟩ := hJ.lo v (by omega) (by omega)
    exact ⟨d, by simp [hne, hd], hi⟩
  · intro v hr
    have hv0 : s.semi v = 0 := by
      apply Classical.byContradiction
      intro h0; exact hr ((C.facts.semi_reach v).mp h0)
    have hne : v ≠ g.entry := fun e => hr (e ▸ Reach.refl _)
    simp [hne, hJ.dom_none v hv0]

/-- the instance the driver runs (insertion order) -/
theorem domLT_correct (g : Digraph) (hwf : g.WF) :
    ∃ r, domLT g = some r ∧ r.dom g.entry = some none ∧
      (∀ v, v ≠ g.entry → Reach g.Edge g.entry v →
        ∃ d, r.dom v = some (some d) ∧ IDom g.Edge g.entry d v) ∧
      (∀ v, ¬ Reach g.Edge g.entry v → r.dom v = none) :=
  domLTWith_correct Order.ins Order.ins_adm g hwf

end AgVerif.DomLT
