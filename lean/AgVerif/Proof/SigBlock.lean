/- Helper lemmas for C33 (APK Signing Block). -/
import AgVerif.Model.SigBlock
import AgVerif.Spec.SigBlock
namespace AgVerif.SigBlock
open AgVerif.Spec.SigBlock

deriving instance DecidableEq for Except

theorem leNat_encU32 (n : Nat) (h : n < 2 ^ 32) : leNat (encU32 n) = n := by
  simp only [encU32, leNat]; omega

theorem encU32_length (n : Nat) : (encU32 n).length = 4 := rfl
theorem encU64_length (n : Nat) : (encU64 n).length = 8 := rfl

theorem leNat_encU64 (n : Nat) (h : n < 2 ^ 64) : leNat (encU64 n) = n := by
  simp only [encU64, encU32, leNat, List.cons_append, List.nil_append]; omega

theorem readU32_enc (n : Nat) (r : Bytes) (h : n < 2 ^ 32) :
    readU32 (encU32 n ++ r) = .ok (n, r) := by
  have := leNat_encU32 n h
  simp only [encU32] at this ⊢
  simp only [List.cons_append, List.nil_append, readU32, this]

theorem readUpTo_append (b r : Bytes) : readUpTo b.length (b ++ r) = (b, r) := by
  simp [readUpTo]

/-- reading a length-prefixed field: the prefix, then exactly the field -/
theorem read_lp (b r : Bytes) (h : b.length < 2 ^ 32) :
    readU32 (lp b ++ r) = .ok (b.length, b ++ r) := by
  simp only [lp, List.append_assoc]; exact readU32_enc _ _ h

theorem lp_length (b : Bytes) : (lp b).length = b.length + 4 := by
  simp [lp, encU32_length]; omega

theorem parseSeqF_step (fuel : Nat) (x : AlgItem) (rest : Bytes) (hx : ItemWF x) :
    parseSeqF (fuel + 1) (encodeItem x ++ rest) =
      (do let r ← parseSeqF fuel rest; .ok (x :: r)) := by
  obtain ⟨h1, h2⟩ := hx
  have hne : (encodeItem x ++ rest).isEmpty = false := by
    simp [encodeItem, lp, encU32]
  have hel : (encU32 x.1 ++ lp x.2).length < 2 ^ 32 := by
    simp only [List.length_append, lp_length, encU32_length]; omega
  rw [parseSeqF, hne]
  simp only [encodeItem, Bool.false_eq_true, ↓reduceIte]
  simp only [bind, Except.bind]
  rw [read_lp _ _ hel]
  simp only [readUpTo_append]
  rw [readU32_enc _ _ h1]
  simp only []
  have : lp x.2 = lp x.2 ++ [] := by simp
  rw [this, read_lp _ _ (by omega)]
  simp

theorem encodeSeq_cons (x : AlgItem) (xs : List AlgItem) :
    encodeSeq (x :: xs) = encodeItem x ++ encodeSeq xs := by simp [encodeSeq]

theorem parseSeqF_roundtrip (xs : List AlgItem) (hwf : ∀ x ∈ xs, ItemWF x) :
    ∀ fuel, xs.length < fuel → parseSeqF fuel (encodeSeq xs) = .ok xs := by
  induction xs with
  | nil =>
    intro fuel h
    cases fuel with
    | zero => omega
    | succ f => simp [encodeSeq, parseSeqF]
  | cons x xs ih =>
    intro fuel h
    cases fuel with
    | zero => omega
    | succ f =>
      rw [encodeSeq_cons, parseSeqF_step _ _ _ (hwf x (by simp)),
        ih (fun y hy => hwf y (by simp [hy])) f (by simpa using h)]
      rfl

theorem encodeSeq_length_ge (xs : List AlgItem) : xs.length ≤ (encodeSeq xs).length := by
  induction xs with
  | nil => simp [encodeSeq]
  | cons x xs ih =>
    rw [encodeSeq_cons]
    simp only [List.length_cons, List.length_append, encodeItem, lp_length]
    omega

theorem parseSeq_roundtrip (xs : List AlgItem) (hwf : ∀ x ∈ xs, ItemWF x) :
    parseSeq (encodeSeq xs) = .ok xs :=
  parseSeqF_roundtrip xs hwf _ (by have := encodeSeq_length_ge xs; omega)

/-! certificates -/
theorem encodeCerts_cons (c : Bytes) (cs : List Bytes) :
    encodeCerts (c :: cs) = lp c ++ encodeCerts cs := by simp [encodeCerts]

theorem encodeCerts_length_ge (cs : List Bytes) : cs.length ≤ (encodeCerts cs).length := by
  induction cs with
  | nil => simp [encodeCerts]
  | cons c cs ih =>
    rw [encodeCerts_cons]; simp only [List.length_cons, List.length_append, lp_length]; omega

theorem parseCertsF_roundtrip (cs : List Bytes) (r : Bytes) (hwf : ∀ c ∈ cs, c.length < 2 ^ 32) :
    ∀ fuel, cs.length < fuel →
      parseCertsF fuel (encodeCerts cs).length (encodeCerts cs ++ r) = .ok (cs, r) := by
  induction cs with
  | nil =>
    intro fuel h
    cases fuel with
    | zero => omega
    | succ f => simp [encodeCerts, parseCertsF]
  | cons c cs ih =>
    intro fuel h
    cases fuel with
    | zero => omega
    | succ f =>
      have hc := hwf c (by simp)
      have hb : (encodeCerts (c :: cs)).length ≠ 0 := by
        rw [encodeCerts_cons]; simp only [List.length_append, lp_length]; omega
      rw [parseCertsF, if_neg hb, encodeCerts_cons, List.append_assoc]
      simp only [bind, Except.bind]
      rw [read_lp _ _ hc]
      simp only [readUpTo_append]
      have hbud : (lp c ++ encodeCerts cs).length - (4 + c.length) = (encodeCerts cs).length := by
        simp only [List.length_append, lp_length]; omega
      rw [hbud, ih (fun y hy => hwf y (by simp [hy])) f (by simpa using h)]

/-! signed data, signer, value -/

/-- what the code reports for an abstract signer: the fields as encoded; `_bytes` of the signer is
    the slice `view[off : off + size_signer]`, which starts AT the length prefix (code quirk). -/
def toModel (v3 : Bool) (s : Spec.SigBlock.Signer) : Signer :=
  ⟨(encodeSigner v3 s).take (signerBody v3 s).length,
   ⟨encodeSignedData v3 s, s.digests, s.certs, s.attrs, if v3 then some s.sdSdk else none⟩,
   if v3 then some s.sgSdk else none, s.sigs, s.pubkey⟩

theorem encSdk_length (v3 : Bool) (p : Nat × Nat) :
    (encSdk v3 p).length = if v3 then 8 else 0 := by
  cases v3 <;> simp [encSdk, encU32_length]

theorem signerBody_length (v3 : Bool) (s : Spec.SigBlock.Signer) :
    (signerBody v3 s).length =
      (encodeSeq s.digests).length + (encodeCerts s.certs).length + s.attrs.length +
      (encodeSeq s.sigs).length + s.pubkey.length + 24 + (if v3 then 16 else 0) := by
  simp only [signerBody, encodeSignedData, List.length_append, lp_length, encSdk_length]
  cases v3 <;> simp <;> omega

theorem parseSignedData_roundtrip (v3 : Bool) (s : Spec.SigBlock.Signer) (h : SignerWF v3 s) :
    parseSignedData v3 (encodeSignedData v3 s) = .ok (toModel v3 s).signed := by
  obtain ⟨hd, _, hc, hlen, h1, h2, _, _⟩ := h
  rw [signerBody_length] at hlen
  have hf : s.certs.length < (encodeCerts s.certs ++ (encSdk v3 s.sdSdk ++ lp s.attrs)).length + 1 := by
    have := encodeCerts_length_ge s.certs
    simp only [List.length_append]; omega
  unfold parseSignedData
  simp only [bind, Except.bind]
  rw [encodeSignedData, read_lp _ _ (by omega)]
  simp only [readUpTo_append]
  rw [parseSeq_roundtrip _ hd]
  simp only []
  rw [read_lp _ _ (by omega)]
  simp only []
  rw [parseCertsF_roundtrip _ _ hc _ hf]
  simp only []
  cases v3 with
  | false =>
    simp only [encSdk, Bool.false_eq_true, ↓reduceIte, List.nil_append]
    have : lp s.attrs = lp s.attrs ++ [] := by simp
    rw [this, read_lp _ _ (by omega)]
    simp [toModel, encodeSignedData, encSdk]
  | true =>
    simp only [encSdk, ↓reduceIte, List.append_assoc]
    rw [readU32_enc _ _ h1]
    simp only []
    rw [readU32_enc _ _ h2]
    simp only []
    have : lp s.attrs = lp s.attrs ++ [] := by simp
    rw [this, read_lp _ _ (by omega)]
    simp [toModel, encodeSignedData, encSdk]

theorem encodeSignedData_length (v3 : Bool) (s : Spec.SigBlock.Signer) :
    (encodeSignedData v3 s).length =
      (encodeSeq s.digests).length + (encodeCerts s.certs).length + s.attrs.length + 12 +
        (if v3 then 8 else 0) := by
  simp only [encodeSignedData, List.length_append, lp_length, encSdk_length]
  cases v3 <;> simp <;> omega

theorem parseSigner_roundtrip (v3 : Bool) (s : Spec.SigBlock.Signer) (r : Bytes) (h : SignerWF v3 s) :
    parseSigner v3 (encodeSigner v3 s ++ r) =
      .ok (⟨(encodeSigner v3 s ++ r).take (signerBody v3 s).length, (toModel v3 s).signed,
            (toModel v3 s).sdk, s.sigs, s.pubkey⟩, r) := by
  have hsd := parseSignedData_roundtrip v3 s h
  obtain ⟨_, hs, _, hlen, _, _, h3, h4⟩ := h
  have hlen' := hlen
  rw [signerBody_length] at hlen'
  have hsdl := encodeSignedData_length v3 s
  unfold parseSigner
  simp only [bind, Except.bind]
  rw [encodeSigner, read_lp _ _ hlen]
  simp only []
  rw [signerBody, List.append_assoc, read_lp _ _ (by split at hsdl <;> split at hlen' <;> omega)]
  simp only [readUpTo_append]
  rw [hsd]
  simp only []
  cases v3 with
  | false =>
    simp only [encSdk, Bool.false_eq_true, ↓reduceIte, List.nil_append, List.append_assoc]
    simp only [Bool.false_eq_true, ↓reduceIte] at hlen'
    rw [read_lp _ _ (by omega)]
    simp only [readUpTo_append]
    rw [parseSeq_roundtrip _ hs]
    simp only []
    rw [read_lp _ _ (by omega)]
    simp [readUpTo_append, toModel, signerBody, encSdk]
  | true =>
    simp only [encSdk, ↓reduceIte, List.append_assoc]
    simp only [↓reduceIte] at hlen'
    rw [readU32_enc _ _ h3]
    simp only []
    rw [readU32_enc _ _ h4]
    simp only []
    rw [read_lp _ _ (by omega)]
    simp only [readUpTo_append]
    rw [parseSeq_roundtrip _ hs]
    simp only []
    rw [read_lp _ _ (by omega)]
    simp [readUpTo_append, toModel, signerBody, encSdk]

theorem parseSigner_roundtrip' (v3 : Bool) (s : Spec.SigBlock.Signer) (r : Bytes) (h : SignerWF v3 s) :
    parseSigner v3 (encodeSigner v3 s ++ r) = .ok (toModel v3 s, r) := by
  rw [parseSigner_roundtrip v3 s r h]
  have : (encodeSigner v3 s ++ r).take (signerBody v3 s).length
      = (encodeSigner v3 s).take (signerBody v3 s).length := by
    apply List.take_append_of_le_length
    simp only [encodeSigner, lp_length]; omega
  rw [this]
  cases v3 <;> rfl

def encodeSigners (v3 : Bool) (ss : List Spec.SigBlock.Signer) : Bytes := ss.flatMap (encodeSigner v3)

theorem encodeSigners_cons (v3 : Bool) (s : Spec.SigBlock.Signer) (ss : List Spec.SigBlock.Signer) :
    encodeSigners v3 (s :: ss) = encodeSigner v3 s ++ encodeSigners v3 ss := by simp [encodeSigners]

theorem encodeSigners_length_ge (v3 : Bool) (ss : List Spec.SigBlock.Signer) :
    ss.length ≤ (encodeSigners v3 ss).length := by
  induction ss with
  | nil => simp [encodeSigners]
  | cons s ss ih =>
    rw [encodeSigners_cons]
    simp only [List.length_cons, List.length_append, encodeSigner, lp_length]; omega

theorem parseSignersF_roundtrip (v3 : Bool) (ss : List Spec.SigBlock.Signer)
    (hwf : ∀ s ∈ ss, SignerWF v3 s) :
    ∀ fuel, ss.length < fuel →
      parseSignersF v3 fuel (encodeSigners v3 ss) = .ok (ss.map (toModel v3)) := by
  induction ss with
  | nil =>
    intro fuel h
    cases fuel with
    | zero => omega
    | succ f => simp [encodeSigners, parseSignersF]
  | cons s ss ih =>
    intro fuel h
    cases fuel with
    | zero => omega
    | succ f =>
      have hne : (encodeSigners v3 (s :: ss)).isEmpty = false := by
        simp [encodeSigners, encodeSigner, lp, encU32]
      rw [parseSignersF, hne, encodeSigners_cons]
      simp only [Bool.false_eq_true, ↓reduceIte, bind, Except.bind]
      rw [parseSigner_roundtrip' v3 s _ (hwf s (by simp))]
      simp only []
      rw [ih (fun y hy => hwf y (by simp [hy])) f (by simpa using h)]
      simp

theorem parseValue_roundtrip (v3 : Bool) (ss : List Spec.SigBlock.Signer)
    (hwf : ∀ s ∈ ss, SignerWF v3 s) (hlen : (encodeSigners v3 ss).length < 2 ^ 32) :
    parseValue v3 (encodeValue v3 ss) = .ok (ss.map (toModel v3)) := by
  unfold parseValue
  simp only [bind, Except.bind]
  have : encodeValue v3 ss = lp (encodeSigners v3 ss) ++ [] := by simp [encodeValue, encodeSigners]
  rw [this, read_lp _ _ hlen]
  simp only [List.append_nil, lp_length, ne_eq, not_true_eq_false, ↓reduceIte]
  exact parseSignersF_roundtrip v3 ss hwf _ (by have := encodeSigners_length_ge v3 ss; omega)

/-! the outer walk -/
def ofTriple (t : Nat × Bool × Bytes) : Block := ⟨t.1, t.2.1, t.2.2⟩

theorem encodePairs_cons (p : Pair) (ps : List Pair) :
    encodePairs (p :: ps) = encodePair p ++ encodePairs ps := by simp [encodePairs]

theorem encodePair_length (p : Pair) : (encodePair p).length = p.2.length + 12 := by
  simp only [encodePair, List.length_append, encU64_length, encU32_length]; omega

theorem encodePairs_length_ge (ps : List Pair) : ps.length ≤ (encodePairs ps).length := by
  induction ps with
  | nil => simp [encodePairs]
  | cons p ps ih =>
    rw [encodePairs_cons]; simp only [List.length_cons, List.length_append, encodePair_length]; omega

theorem any_id_eq_contains (acc : List Block) (k : Nat) :
    acc.any (·.id == k) = (acc.map (·.id)).contains k := by
  induction acc with
  | nil => simp
  | cons b acc ih =>
    simp only [List.any_cons, List.map_cons, List.contains_cons, ih]
    rw [Bool.beq_comm]

theorem walkF_step (fuel tl : Nat) (p : Pair) (rest : Bytes) (acc : List Block) (hp : PairWF p)
    (htl : tl ≤ rest.length) :
    walkF (fuel + 1) tl (encodePair p ++ rest) acc =
      walkF fuel tl rest (acc ++ [⟨p.1, (acc.map (·.id)).contains p.1, p.2⟩]) := by
  obtain ⟨h1, h2⟩ := hp
  have hl : (encodePair p ++ rest).length = p.2.length + 12 + rest.length := by
    simp only [List.length_append, encodePair_length]
  have e8 : (encodePair p ++ rest).take 8 = encU64 (4 + p.2.length) := by
    simp [encodePair, encU64, encU32]
  have e4 : ((encodePair p ++ rest).drop 8).take 4 = encU32 p.1 := by
    simp [encodePair, encU64, encU32]
  have e12 : (encodePair p ++ rest).drop 12 = p.2 ++ rest := by
    simp [encodePair, encU64, encU32]
  rw [walkF]
  rw [if_pos (by omega), if_neg (by omega)]
  simp only [e8, e4, e12]
  rw [leNat_encU64 _ (by omega), leNat_encU32 _ h1]
  rw [if_neg (by omega), if_neg (by omega)]
  have : 4 + p.2.length - 4 = p.2.length := by omega
  rw [this, any_id_eq_contains]
  simp

theorem walkF_roundtrip (ps : List Pair) (tail : Bytes) (hwf : ∀ p ∈ ps, PairWF p) :
    ∀ (fuel : Nat) (acc : List Block), ps.length < fuel →
      walkF fuel tail.length (encodePairs ps ++ tail) acc =
        (acc ++ (reported (acc.map (·.id)) ps).map ofTriple, none) := by
  induction ps with
  | nil =>
    intro fuel acc h
    cases fuel with
    | zero => omega
    | succ f => simp [encodePairs, walkF, reported]
  | cons p ps ih =>
    intro fuel acc h
    cases fuel with
    | zero => omega
    | succ f =>
      rw [encodePairs_cons, List.append_assoc,
        walkF_step _ _ _ _ _ (hwf p (by simp)) (by simp only [List.length_append]; omega),
        ih (fun y hy => hwf y (by simp [hy])) f _ (by simpa using h)]
      simp [reported, ofTriple]

/-! the whole file -/
theorem readAt_mid (a b c : Bytes) (pos k : Nat) (hp : pos = a.length) (hk : k = b.length) :
    readAt (a ++ (b ++ c)) pos k = some b := by
  subst hp hk
  simp [readAt]

theorem consts_eq : Gen.SigBlock.pkEocd = zipEocdSig ∧ Gen.SigBlock.pkCd = zipCdSig ∧
    Gen.SigBlock.sigMagic = magic := by decide

/-- the file laid out in parts: local entries `pre`, block = size | pairs `P` | size | magic,
    central directory, EOCD (no comment) whose central-directory offset is `oc`. -/
def fileOf (pre P cdRest mid : Bytes) (sz oc : Nat) : Bytes :=
  pre ++ (encU64 sz ++ (P ++ (encU64 sz ++ (magic ++ (zipCdSig ++ (cdRest ++
    (zipEocdSig ++ (mid ++ (encU32 oc ++ [0, 0])))))))))

theorem fileOf_length (pre P cdRest mid : Bytes) (sz oc : Nat) (hmid : mid.length = 12) :
    (fileOf pre P cdRest mid sz oc).length = pre.length + P.length + cdRest.length + 58 := by
  simp only [fileOf, List.length_append, encU64_length, encU32_length, hmid, magic, zipCdSig,
    zipEocdSig, List.length_cons, List.length_nil]
  omega

theorem readAt_some {f : Bytes} {pos k : Nat} {b : Bytes} (h : readAt f pos k = some b) :
    (f.drop pos).take k = b := by
  unfold readAt at h
  simp only [] at h
  split at h
  · simpa using h
  · simp at h

theorem parseOuter_fileOf (pre P cdRest mid : Bytes) (sz oc : Nat) (bs : List Block)
    (hsz : sz = P.length + 24) (hoc : oc = pre.length + P.length + 32) (hmid : mid.length = 12)
    (hoc32 : oc < 2 ^ 32) (hsz63 : sz + 8 ≤ 2 ^ 63)
    (hwalk : walkF ((fileOf pre P cdRest mid sz oc).length + 1) (cdRest.length + 50)
      (P ++ (encU64 sz ++ (magic ++ (zipCdSig ++ (cdRest ++
        (zipEocdSig ++ (mid ++ (encU32 oc ++ [0, 0])))))))) [] = (bs, none)) :
    parseOuter (fileOf pre P cdRest mid sz oc) =
      ⟨some (hasId bs Gen.SigBlock.keyV2, hasId bs Gen.SigBlock.keyV3, hasId bs Gen.SigBlock.keyV31),
        bs, none⟩ := by
  obtain ⟨c1, c2, c3⟩ := consts_eq
  have hn := fileOf_length pre P cdRest mid sz oc hmid
  have hq : ∃ q, q = pre.length + P.length + cdRest.length + 36 := ⟨_, rfl⟩
  obtain ⟨q, hq⟩ := hq
  have hr0 : readAt (fileOf pre P cdRest mid sz oc) q 4 = some zipEocdSig := by
    have := readAt_mid (pre ++ (encU64 sz ++ (P ++ (encU64 sz ++ (magic ++ (zipCdSig ++ cdRest))))))
        zipEocdSig (mid ++ (encU32 oc ++ [0, 0])) q 4
        (by simp only [List.length_append, encU64_length, magic, zipCdSig, List.length_cons,
              List.length_nil]; omega) rfl
    simpa only [fileOf, List.append_assoc] using this
  have hr1 : readAt (fileOf pre P cdRest mid sz oc) (q + 4) 16 = some (mid ++ encU32 oc) := by
    have := readAt_mid (pre ++ (encU64 sz ++ (P ++ (encU64 sz ++ (magic ++ (zipCdSig ++ (cdRest ++ zipEocdSig)))))))
      (mid ++ encU32 oc) [0, 0] (q + 4) 16
      (by simp only [List.length_append, encU64_length, magic, zipCdSig, zipEocdSig, List.length_cons,
            List.length_nil]; omega)
      (by simp only [List.length_append, hmid, encU32_length])
    simpa only [fileOf, List.append_assoc] using this
  have hr2 : readAt (fileOf pre P cdRest mid sz oc) oc 4 = some zipCdSig := by
    have := readAt_mid (pre ++ (encU64 sz ++ (P ++ (encU64 sz ++ magic)))) zipCdSig
      (cdRest ++ (zipEocdSig ++ (mid ++ (encU32 oc ++ [0, 0])))) oc 4
      (by simp only [List.length_append, encU64_length, magic, List.length_cons, List.length_nil]; omega) rfl
    simpa only [fileOf, List.append_assoc] using this
  have hr3 : readAt (fileOf pre P cdRest mid sz oc) (oc - 24) 24 = some (encU64 sz ++ magic) := by
    have := readAt_mid (pre ++ (encU64 sz ++ P)) (encU64 sz ++ magic)
      (zipCdSig ++ (cdRest ++ (zipEocdSig ++ (mid ++ (encU32 oc ++ [0, 0]))))) (oc - 24) 24
      (by simp only [List.length_append, encU64_length]; omega)
      (by simp only [List.length_append, encU64_length, magic, List.length_cons, List.length_nil])
    simpa only [fileOf, List.append_assoc] using this
  have hr4 : readAt (fileOf pre P cdRest mid sz oc) pre.length 8 = some (encU64 sz) := by
    have := readAt_mid pre (encU64 sz) (P ++ (encU64 sz ++ (magic ++ (zipCdSig ++ (cdRest ++
      (zipEocdSig ++ (mid ++ (encU32 oc ++ [0, 0])))))))) pre.length 8 rfl rfl
    simpa only [fileOf, List.append_assoc] using this
  have hdrop : (fileOf pre P cdRest mid sz oc).drop (pre.length + 8) =
      P ++ (encU64 sz ++ (magic ++ (zipCdSig ++ (cdRest ++
        (zipEocdSig ++ (mid ++ (encU32 oc ++ [0, 0]))))))) := by
    rw [fileOf, ← List.append_assoc]
    apply List.drop_left'
    simp [encU64_length]
  generalize fileOf pre P cdRest mid sz oc = f at hn hwalk hr0 hr1 hr2 hr3 hr4 hdrop ⊢
  have hscan : scanEocd f (f.length - 1 - 20) = some q := by
    have : f.length - 1 - 20 = q + 1 := by omega
    rw [this, scanEocd, readAt_some hr0, c1]; simp
  have hoc' : leNat ((mid ++ encU32 oc).drop 12) = oc := by
    rw [List.drop_left' hmid]; exact leNat_encU32 _ hoc32
  have ht8 : (encU64 sz ++ magic).take 8 = encU64 sz := List.take_left' (encU64_length sz)
  have hd8 : (encU64 sz ++ magic).drop 8 = magic := List.drop_left' (encU64_length sz)
  have hsz' : leNat (encU64 sz) = sz := leNat_encU64 _ (by omega)
  have hpos2 : oc - 24 + 24 - (sz + 8) = pre.length := by omega
  have htl : f.length - oc + 24 = cdRest.length + 50 := by omega
  unfold parseOuter
  simp only [hscan, hr1, hoc', hr2, hr3, ht8, hd8, hsz', hpos2, hr4, hdrop, htl, hwalk, c2, c3]
  have h0 : ¬ oc = 0 := by omega
  have h63 : ¬ 2 ^ 63 < sz + 8 := by omega
  simp [h0, h63]

/-! what `reported` says -/

theorem reported_pairs (seen : List Nat) (ps : List Pair) :
    (reported seen ps).map (fun t => (t.1, t.2.2)) = ps := by
  induction ps generalizing seen with
  | nil => rfl
  | cons p ps ih => simp [reported, ih]

theorem hasId_reported (seen : List Nat) (ps : List Pair) (k : Nat) :
    hasId ((reported seen ps).map ofTriple) k = true ↔ ∃ p ∈ ps, p.1 = k := by
  induction ps generalizing seen with
  | nil => simp [reported, hasId]
  | cons p ps ih =>
    have := ih (seen ++ [p.1])
    simp only [hasId] at this ⊢
    simp only [reported, List.map_cons, List.any_cons, ofTriple, Bool.or_eq_true, beq_iff_eq, this]
    simp

theorem dup_reported (seen : List Nat) (ps : List Pair) :
    ((reported seen ps).map ofTriple).any (·.dup) = true ↔
      ¬ ((ps.map (·.1)).Nodup ∧ ∀ k ∈ ps.map (·.1), k ∉ seen) := by
  induction ps generalizing seen with
  | nil => simp [reported]
  | cons p ps ih =>
    have := ih (seen ++ [p.1])
    simp only [reported, List.map_cons, List.any_cons, Bool.or_eq_true, this, ofTriple]
    simp only [List.contains_eq_mem, decide_eq_true_eq, List.nodup_cons, List.mem_cons, List.mem_append,
      List.not_mem_nil, or_false, List.mem_map, forall_eq_or_imp]
    constructor
    · rintro (h | h)
      · intro ⟨_, h2, _⟩; exact h2 h
      · intro ⟨⟨h1, h2⟩, h3, h4⟩
        apply h
        refine ⟨h2, ?_⟩
        intro k hk
        have := h4 k hk
        intro hh
        rcases hh with hh | hh
        · exact this hh
        · subst hh; exact h1 hk
    · intro h
      by_cases hs : p.1 ∈ seen
      · exact Or.inl hs
      · right
        intro ⟨h2, h4⟩
        apply h
        refine ⟨⟨?_, h2⟩, hs, ?_⟩
        · intro hk
          exact (h4 p.1 hk) (Or.inr rfl)
        · intro k hk hh
          exact (h4 k hk) (Or.inl hh)

theorem find_reported (seen : List Nat) (ps : List Pair) (k : Nat) :
    (((reported seen ps).map ofTriple).find? (·.id == k)).map (·.data) =
      (ps.find? (·.1 == k)).map (·.2) := by
  induction ps generalizing seen with
  | nil => rfl
  | cons p ps ih =>
    simp only [reported, List.map_cons, List.find?_cons, ofTriple]
    by_cases h : p.1 == k
    · simp [h]
    · simp only [h]; exact ih _


/-! the specification's `apkFile` -/
theorem apkFile_eq (pre : Bytes) (ps : List Pair) (cdRest mid : Bytes) :
    apkFile pre ps cdRest mid = fileOf pre (encodePairs ps) cdRest mid
      ((encodePairs ps).length + 24) (pre.length + (encodeBlock ps).length) := by
  simp [apkFile, fileOf, encodeBlock, eocd, List.append_assoc]

theorem parseOuter_apkFile (pre : Bytes) (ps : List Pair) (cdRest mid : Bytes) (h : FileWF pre ps mid) :
    parseOuter (apkFile pre ps cdRest mid) =
      ⟨some (hasId ((reported [] ps).map ofTriple) Gen.SigBlock.keyV2, hasId ((reported [] ps).map ofTriple) Gen.SigBlock.keyV3,
          hasId ((reported [] ps).map ofTriple) Gen.SigBlock.keyV31), (reported [] ps).map ofTriple, none⟩ := by
  obtain ⟨hp, hmid, hoff⟩ := h
  have hbl : (encodeBlock ps).length = (encodePairs ps).length + 32 := by
    simp only [encodeBlock, List.length_append, encU64_length, magic, List.length_cons, List.length_nil]
    omega
  rw [apkFile_eq]
  apply parseOuter_fileOf _ _ _ _ _ _ _ rfl (by omega) hmid (by omega) (by omega)
  have hw := walkF_roundtrip ps
    (encU64 ((encodePairs ps).length + 24) ++ (magic ++ (zipCdSig ++ (cdRest ++
      (zipEocdSig ++ (mid ++ (encU32 (pre.length + (encodeBlock ps).length) ++ [0, 0]))))))) hp
    ((fileOf pre (encodePairs ps) cdRest mid ((encodePairs ps).length + 24)
      (pre.length + (encodeBlock ps).length)).length + 1) []
    (by rw [fileOf_length _ _ _ _ _ _ hmid]; have := encodePairs_length_ge ps; omega)
  have hl : (encU64 ((encodePairs ps).length + 24) ++ (magic ++ (zipCdSig ++ (cdRest ++
      (zipEocdSig ++ (mid ++ (encU32 (pre.length + (encodeBlock ps).length) ++ [0, 0]))))))).length
      = cdRest.length + 50 := by
    simp only [List.length_append, encU64_length, encU32_length, hmid, magic, zipCdSig, zipEocdSig,
      List.length_cons, List.length_nil]
    omega
  rw [hl] at hw
  simpa using hw



/-! an archive without a signing block -/
theorem parseOuter_plainFile (pre cdRest mid : Bytes) (hmid : mid.length = 12)
    (hpre : 24 ≤ pre.length) (hoc32 : pre.length < 2 ^ 32)
    (hmagic : pre.drop (pre.length - 16) ≠ magic) :
    parseOuter (plainFile pre cdRest mid) = ⟨some (false, false, false), [], none⟩ := by
  obtain ⟨c1, c2, c3⟩ := consts_eq
  have hn : (plainFile pre cdRest mid).length = pre.length + cdRest.length + 26 := by
    simp only [plainFile, List.length_append, encU32_length, hmid, zipCdSig, zipEocdSig,
      List.length_cons, List.length_nil]
    omega
  obtain ⟨q, hq⟩ : ∃ q, q = pre.length + cdRest.length + 4 := ⟨_, rfl⟩
  have hr0 : readAt (plainFile pre cdRest mid) q 4 = some zipEocdSig := by
    have := readAt_mid (pre ++ (zipCdSig ++ cdRest)) zipEocdSig (mid ++ (encU32 pre.length ++ [0, 0])) q 4
        (by simp only [List.length_append, zipCdSig, List.length_cons, List.length_nil]; omega) rfl
    simpa only [plainFile, List.append_assoc] using this
  have hr1 : readAt (plainFile pre cdRest mid) (q + 4) 16 = some (mid ++ encU32 pre.length) := by
    have := readAt_mid (pre ++ (zipCdSig ++ (cdRest ++ zipEocdSig))) (mid ++ encU32 pre.length) [0, 0] (q + 4) 16
      (by simp only [List.length_append, zipCdSig, zipEocdSig, List.length_cons, List.length_nil]; omega)
      (by simp only [List.length_append, hmid, encU32_length])
    simpa only [plainFile, List.append_assoc] using this
  have hr2 : readAt (plainFile pre cdRest mid) pre.length 4 = some zipCdSig := by
    have := readAt_mid pre zipCdSig (cdRest ++ (zipEocdSig ++ (mid ++ (encU32 pre.length ++ [0, 0]))))
      pre.length 4 rfl rfl
    simpa only [plainFile, List.append_assoc] using this
  have hr3 : readAt (plainFile pre cdRest mid) (pre.length - 24) 24 = some (pre.drop (pre.length - 24)) := by
    have hsplit : pre = pre.take (pre.length - 24) ++ pre.drop (pre.length - 24) := by simp
    have := readAt_mid (pre.take (pre.length - 24)) (pre.drop (pre.length - 24))
      (zipCdSig ++ (cdRest ++ (zipEocdSig ++ (mid ++ (encU32 pre.length ++ [0, 0]))))) (pre.length - 24) 24
      (by simp only [List.length_take]; omega) (by simp only [List.length_drop]; omega)
    rw [← List.append_assoc, ← hsplit] at this
    simpa only [plainFile] using this
  have hd8 : (pre.drop (pre.length - 24)).drop 8 = pre.drop (pre.length - 16) := by
    rw [List.drop_drop]; congr 1; omega
  generalize plainFile pre cdRest mid = f at hn hr0 hr1 hr2 hr3 ⊢
  have hscan : scanEocd f (f.length - 1 - 20) = some q := by
    have : f.length - 1 - 20 = q + 1 := by omega
    rw [this, scanEocd, readAt_some hr0, c1]; simp
  have hoc' : leNat ((mid ++ encU32 pre.length).drop 12) = pre.length := by
    rw [List.drop_left' hmid]; exact leNat_encU32 _ hoc32
  unfold parseOuter
  simp only [hscan, hr1, hoc', hr2, hr3, hd8, c2, c3]
  have h0 : ¬ pre.length = 0 := by omega
  simp [h0, hmagic]

theorem parseScheme_plainFile (sc : Scheme) (pre cdRest mid : Bytes) (hmid : mid.length = 12)
    (hpre : 24 ≤ pre.length) (hoc32 : pre.length < 2 ^ 32)
    (hmagic : pre.drop (pre.length - 16) ≠ magic) :
    parseScheme sc (plainFile pre cdRest mid) = .ok [] := by
  unfold parseScheme
  rw [parseOuter_plainFile pre cdRest mid hmid hpre hoc32 hmagic]
  cases sc <;> rfl

/-! fuel is never exhausted -/
theorem readU32_ok_length {s : Bytes} {n : Nat} {r : Bytes} (h : readU32 s = .ok (n, r)) :
    r.length + 4 = s.length := by
  match s, h with
  | a :: b :: c :: d :: r', h =>
    simp only [readU32, Except.ok.injEq, Prod.mk.injEq] at h
    obtain ⟨_, rfl⟩ := h
    simp
  | [], h => simp [readU32] at h
  | [_], h => simp [readU32] at h
  | [_, _], h => simp [readU32] at h
  | [_, _, _], h => simp [readU32] at h

theorem readU32_err {s : Bytes} {e : Err} (h : readU32 s = .error e) : e = .struct := by
  match s, h with
  | a :: b :: c :: d :: r', h => simp [readU32] at h
  | [], h => simp [readU32] at h; exact h.symm
  | [_], h => simp [readU32] at h; exact h.symm
  | [_, _], h => simp [readU32] at h; exact h.symm
  | [_, _, _], h => simp [readU32] at h; exact h.symm

/-- the fuel of the digest / signature loop is never exhausted: every iteration consumes ≥ 4 bytes -/
theorem parseSeqF_fuel_ok : ∀ (fuel : Nat) (s : Bytes), s.length < fuel →
    parseSeqF fuel s ≠ .error .fuel
  | 0, s, h => by omega
  | fuel + 1, s, h => by
    rw [parseSeqF]
    split
    · simp
    · simp only [bind, Except.bind]
      cases h1 : readU32 s with
      | error e => have := readU32_err h1; simp [this]
      | ok p1 =>
        obtain ⟨elen, s1⟩ := p1
        have hl := readU32_ok_length h1
        simp only [readUpTo]
        cases h2 : readU32 (s1.take elen) with
        | error e => have := readU32_err h2; simp [this]
        | ok p2 =>
          simp only []
          cases h3 : readU32 p2.2 with
          | error e => have := readU32_err h3; simp [this]
          | ok p3 =>
            simp only []
            have ih := parseSeqF_fuel_ok fuel (s1.drop elen) (by simp only [List.length_drop]; omega)
            cases h4 : parseSeqF fuel (s1.drop elen) with
            | error e => simp only [h4] at ih; simpa using ih
            | ok r => simp

theorem parseSeq_fuel_ok (s : Bytes) : parseSeq s ≠ .error .fuel :=
  parseSeqF_fuel_ok _ s (by omega)



theorem parseCertsF_fuel_ok : ∀ (fuel budget : Nat) (s : Bytes), s.length < fuel →
    parseCertsF fuel budget s ≠ .error .fuel
  | 0, _, s, h => by omega
  | fuel + 1, budget, s, h => by
    rw [parseCertsF]
    split
    · simp
    · simp only [bind, Except.bind]
      cases h1 : readU32 s with
      | error e => have := readU32_err h1; simp [this]
      | ok p1 =>
        obtain ⟨l, s1⟩ := p1
        have hl := readU32_ok_length h1
        simp only [readUpTo]
        have ih := parseCertsF_fuel_ok fuel (budget - (4 + (s1.take l).length)) (s1.drop l)
          (by simp only [List.length_drop]; omega)
        cases h4 : parseCertsF fuel (budget - (4 + (s1.take l).length)) (s1.drop l) with
        | error e => simp only [h4] at ih; simpa using ih
        | ok r => simp

/-- the fuel of the pair walk is never exhausted: every iteration consumes ≥ 12 bytes -/
theorem walkF_fuel_ok : ∀ (fuel tl : Nat) (rest : Bytes) (acc : List Block), rest.length < fuel →
    (walkF fuel tl rest acc).2 ≠ some .fuel
  | 0, _, rest, _, h => by omega
  | fuel + 1, tl, rest, acc, h => by
    rw [walkF]
    split
    · split
      · simp
      · simp only []
        split
        · simp
        · split
          · simp
          · exact walkF_fuel_ok fuel tl _ _ (by simp only [List.length_drop]; omega)
    · simp

theorem walkF_err_ne_fuel {fu tl : Nat} {r : Bytes} {acc bs : List Block} {e : Err}
    (h : r.length < fu) (h2 : walkF fu tl r acc = (bs, some e)) : e ≠ .fuel := by
  have := walkF_fuel_ok fu tl r acc h
  rw [h2] at this
  simpa using this

theorem parseOuter_fuel_ok (f : Bytes) : (parseOuter f).err ≠ some .fuel := by
  unfold parseOuter
  simp only []
  repeat' split
  all_goals first
    | (simp; done)
    | (rename_i heq
       simp only [ne_eq, Option.some.injEq]
       exact walkF_err_ne_fuel (by simp only [List.length_drop]; omega) heq)

def NoFuel {α : Type} (x : Except Err α) : Prop := x ≠ .error .fuel

theorem NoFuel.bind {α β : Type} {x : Except Err α} {f : α → Except Err β} (hx : NoFuel x)
    (hf : ∀ a, x = .ok a → NoFuel (f a)) : NoFuel (x >>= f) := by
  cases x with
  | error e =>
    simp only [NoFuel, ne_eq, Except.error.injEq] at hx
    show (Except.error e : Except Err β) ≠ .error .fuel
    simpa using hx
  | ok a => exact hf a rfl

theorem noFuel_readU32 (s : Bytes) : NoFuel (readU32 s) := by
  intro h; have := readU32_err h; simp at this

theorem noFuel_ok {α : Type} (a : α) : NoFuel (Except.ok a : Except Err α) := by simp [NoFuel]

theorem bind_ok {α β : Type} {x : Except Err α} {f : α → Except Err β} {b : β}
    (h : x >>= f = .ok b) : ∃ a, x = .ok a ∧ f a = .ok b := by
  cases x with
  | error e => simp [bind, Except.bind] at h
  | ok a => exact ⟨a, rfl, h⟩

theorem noFuel_parseSignedData (v3 : Bool) (sd : Bytes) : NoFuel (parseSignedData v3 sd) := by
  unfold parseSignedData
  refine NoFuel.bind (noFuel_readU32 _) ?_
  rintro ⟨a, t0⟩ _
  simp only [readUpTo]
  refine NoFuel.bind (parseSeq_fuel_ok _) ?_
  intro ds _
  refine NoFuel.bind (noFuel_readU32 _) ?_
  rintro ⟨lc, t2⟩ _
  simp only []
  refine NoFuel.bind (parseCertsF_fuel_ok _ _ _ (by omega)) ?_
  rintro ⟨cs, t3⟩ _
  simp only []
  split
  · refine NoFuel.bind (noFuel_readU32 _) ?_
    rintro ⟨mn, t4⟩ _
    refine NoFuel.bind (noFuel_readU32 _) ?_
    rintro ⟨mx, t5⟩ _
    refine NoFuel.bind (noFuel_readU32 _) ?_
    rintro ⟨la, t6⟩ _
    exact noFuel_ok _
  · refine NoFuel.bind (noFuel_readU32 _) ?_
    rintro ⟨la, t6⟩ _
    exact noFuel_ok _

theorem noFuel_parseSigner (v3 : Bool) (s : Bytes) : NoFuel (parseSigner v3 s) := by
  unfold parseSigner
  refine NoFuel.bind (noFuel_readU32 _) ?_
  rintro ⟨a, s1⟩ _
  refine NoFuel.bind (noFuel_readU32 _) ?_
  rintro ⟨b, s2⟩ _
  simp only [readUpTo]
  refine NoFuel.bind (noFuel_parseSignedData _ _) ?_
  intro sd _
  split
  · refine NoFuel.bind (noFuel_readU32 _) ?_
    rintro ⟨mn, s4⟩ _
    refine NoFuel.bind (noFuel_readU32 _) ?_
    rintro ⟨mx, s5⟩ _
    refine NoFuel.bind (noFuel_readU32 _) ?_
    rintro ⟨ls, s6⟩ _
    simp only []
    refine NoFuel.bind (parseSeq_fuel_ok _) ?_
    intro sg _
    refine NoFuel.bind (noFuel_readU32 _) ?_
    rintro ⟨lk, s8⟩ _
    exact noFuel_ok _
  · refine NoFuel.bind (noFuel_readU32 _) ?_
    rintro ⟨ls, s6⟩ _
    simp only []
    refine NoFuel.bind (parseSeq_fuel_ok _) ?_
    intro sg _
    refine NoFuel.bind (noFuel_readU32 _) ?_
    rintro ⟨lk, s8⟩ _
    exact noFuel_ok _

/-- a parsed signer consumed at least its four-byte length prefix -/
theorem parseSigner_ok_length {v3 : Bool} {s : Bytes} {sg : Signer} {r : Bytes}
    (h : parseSigner v3 s = .ok (sg, r)) : r.length + 4 ≤ s.length := by
  unfold parseSigner at h
  obtain ⟨⟨a, s1⟩, h1, h⟩ := bind_ok h
  have l1 := readU32_ok_length h1
  obtain ⟨⟨b, s2⟩, h2, h⟩ := bind_ok h
  have l2 := readU32_ok_length h2
  simp only [readUpTo] at h
  obtain ⟨sd, _, h⟩ := bind_ok h
  split at h
  · obtain ⟨⟨mn, s4⟩, h4, h⟩ := bind_ok h
    have l4 := readU32_ok_length h4
    obtain ⟨⟨mx, s5⟩, h5, h⟩ := bind_ok h
    have l5 := readU32_ok_length h5
    obtain ⟨⟨ls, s6⟩, h6, h⟩ := bind_ok h
    have l6 := readU32_ok_length h6
    simp only [] at h
    obtain ⟨sgs, _, h⟩ := bind_ok h
    obtain ⟨⟨lk, s8⟩, h8, h⟩ := bind_ok h
    have l8 := readU32_ok_length h8
    simp only [Except.ok.injEq, Prod.mk.injEq] at h
    obtain ⟨_, rfl⟩ := h
    simp only [List.length_drop] at *
    omega
  · obtain ⟨⟨ls, s6⟩, h6, h⟩ := bind_ok h
    have l6 := readU32_ok_length h6
    simp only [] at h
    obtain ⟨sgs, _, h⟩ := bind_ok h
    obtain ⟨⟨lk, s8⟩, h8, h⟩ := bind_ok h
    have l8 := readU32_ok_length h8
    simp only [Except.ok.injEq, Prod.mk.injEq] at h
    obtain ⟨_, rfl⟩ := h
    simp only [List.length_drop] at *
    omega

theorem parseSignersF_fuel_ok (v3 : Bool) : ∀ (fuel : Nat) (s : Bytes), s.length < fuel →
    NoFuel (parseSignersF v3 fuel s)
  | 0, s, h => by omega
  | fuel + 1, s, h => by
    rw [parseSignersF]
    split
    · exact noFuel_ok _
    · refine NoFuel.bind (noFuel_parseSigner _ _) ?_
      rintro ⟨sg, r⟩ hsg
      have := parseSigner_ok_length hsg
      refine NoFuel.bind (parseSignersF_fuel_ok v3 fuel r (by omega)) ?_
      intro rest _
      exact noFuel_ok _

theorem parseValue_fuel_ok (v3 : Bool) (b : Bytes) : parseValue v3 b ≠ .error .fuel := by
  unfold parseValue
  refine NoFuel.bind (noFuel_readU32 _) ?_
  rintro ⟨n, r⟩ _
  simp only []
  split
  · simp [NoFuel]
  · exact parseSignersF_fuel_ok v3 _ r (by omega)

theorem parseScheme_fuel_ok (sc : Scheme) (f : Bytes) : parseScheme sc f ≠ .error .fuel := by
  unfold parseScheme
  simp only []
  split
  · split
    · rename_i e he
      have := parseOuter_fuel_ok f
      rw [he] at this
      simpa using this
    · simp
  · split
    · simp
    · split
      · simp
      · exact parseValue_fuel_ok _ _

end AgVerif.SigBlock
