/- Helper lemmas for C33 (APK Signing Block). -/
import AgVerif.Model.SigBlock
import AgVerif.Spec.SigBlock
namespace AgVerif.SigBlock
open AgVerif.Spec.SigBlock

end AgVerif.SigBlock
