/-
The one-line observers `get_ref_off` / `get_ref_kind` / `get_literals` of the instruction classes as
translated from the Python source by gen/py2lean.py (AgVerif.Gen.PyInsnObs), applied to the attributes the
translated constructor sets, return on every object the constructor builds what the hand-written model's
`refOff` / `refKind` / `literals` return: which attribute is the branch offset, the pool index, the
literal is read from the source (by name), not assumed.  (Classes that do not define a method inherit the
base class behaviour; that part stays with the model.)
-/
import AgVerif.Gen.PyInsnObs
import AgVerif.Proof.PyInsnRaw
set_option linter.unusedSimpArgs false
namespace AgVerif.PyInsn
open AgVerif.Insn AgVerif.Py AgVerif.Gen AgVerif.Gen.PyInsn AgVerif.Gen.PyInsnObs

theorem ref_kind_35c_eq (vs : List Int) (hr : InRange .f35c vs) :
    Agrees2 (post .f35c vs) (init_35c vs) get_ref_kind_35c (fun x => refKind x) := by
  simp only [InRange, Opcodes.unpackFmt] at hr
  match vs, hr with
  | [v0, v1, v2], hr =>
    simp only [InRangeL, SC.inRange, Bool.and_eq_true, decide_eq_true_eq] at hr
    simp (disch := omega) [Agrees2, post, init_35c, get_ref_kind_35c, packArgs, refOff, refKind, literals, m0, m1, m2, m3, m4, m5, m7, m8, List.lookup, band_FF, band_0F, shl_eq, shr_eq, bor_add_16, bor_add_256, bor_add_4096]
    try omega

theorem literals_21h_eq (vs : List Int) (hr : InRange .f21h vs) :
    Agrees2 (post .f21h vs) (init_21h vs) get_literals_21h (fun x => some (literals x)) := by
  simp only [InRange, Opcodes.unpackFmt] at hr
  match vs, hr with
  | [v0, v1, v2], hr =>
    simp only [InRangeL, SC.inRange, Bool.and_eq_true, decide_eq_true_eq] at hr
    by_cases h21 : v0 = 21 <;> by_cases h25 : v0 = 25 <;>
      simp (disch := omega) [Agrees2, post, init_21h, get_literals_21h, h21, h25, packArgs, refOff, refKind, literals, m0, m1, m2, m3, m4, m5, m7, m8, List.lookup, band_FF, band_0F, shl_eq, shr_eq, bor_add_16, bor_add_256, bor_add_4096] <;> try omega

theorem literals_11n_eq (vs : List Int) (hr : InRange .f11n vs) :
    Agrees2 (post .f11n vs) (init_11n vs) get_literals_11n (fun x => some (literals x)) := by
  simp only [InRange, Opcodes.unpackFmt] at hr
  match vs, hr with
  | [v0, v1], hr =>
    simp only [InRangeL, SC.inRange, Bool.and_eq_true, decide_eq_true_eq] at hr
    simp (disch := omega) [Agrees2, post, init_11n, get_literals_11n, packArgs, refOff, refKind, literals, m0, m1, m2, m3, m4, m5, m7, m8, List.lookup, band_FF, band_0F, shl_eq, shr_eq, bor_add_16, bor_add_256, bor_add_4096]
    try omega

theorem ref_kind_21c_eq (vs : List Int) (hr : InRange .f21c vs) :
    Agrees2 (post .f21c vs) (init_21c vs) get_ref_kind_21c (fun x => refKind x) := by
  simp only [InRange, Opcodes.unpackFmt] at hr
  match vs, hr with
  | [v0, v1, v2], hr =>
    simp only [InRangeL, SC.inRange, Bool.and_eq_true, decide_eq_true_eq] at hr
    simp (disch := omega) [Agrees2, post, init_21c, get_ref_kind_21c, packArgs, refOff, refKind, literals, m0, m1, m2, m3, m4, m5, m7, m8, List.lookup, band_FF, band_0F, shl_eq, shr_eq, bor_add_16, bor_add_256, bor_add_4096]
    try omega

theorem literals_21s_eq (vs : List Int) (hr : InRange .f21s vs) :
    Agrees2 (post .f21s vs) (init_21s vs) get_literals_21s (fun x => some (literals x)) := by
  simp only [InRange, Opcodes.unpackFmt] at hr
  match vs, hr with
  | [v0, v1, v2], hr =>
    simp only [InRangeL, SC.inRange, Bool.and_eq_true, decide_eq_true_eq] at hr
    simp (disch := omega) [Agrees2, post, init_21s, get_literals_21s, packArgs, refOff, refKind, literals, m0, m1, m2, m3, m4, m5, m7, m8, List.lookup, band_FF, band_0F, shl_eq, shr_eq, bor_add_16, bor_add_256, bor_add_4096]
    try omega

theorem ref_kind_22c_eq (vs : List Int) (hr : InRange .f22c vs) :
    Agrees2 (post .f22c vs) (init_22c vs) get_ref_kind_22c (fun x => refKind x) := by
  simp only [InRange, Opcodes.unpackFmt] at hr
  match vs, hr with
  | [v0, v1], hr =>
    simp only [InRangeL, SC.inRange, Bool.and_eq_true, decide_eq_true_eq] at hr
    simp (disch := omega) [Agrees2, post, init_22c, get_ref_kind_22c, packArgs, refOff, refKind, literals, m0, m1, m2, m3, m4, m5, m7, m8, List.lookup, band_FF, band_0F, shl_eq, shr_eq, bor_add_16, bor_add_256, bor_add_4096]
    try omega

theorem ref_kind_22cs_eq (vs : List Int) (hr : InRange .f22cs vs) :
    Agrees2 (post .f22cs vs) (init_22cs vs) get_ref_kind_22cs (fun x => refKind x) := by
  simp only [InRange, Opcodes.unpackFmt] at hr
  match vs, hr with
  | [v0, v1], hr =>
    simp only [InRangeL, SC.inRange, Bool.and_eq_true, decide_eq_true_eq] at hr
    simp (disch := omega) [Agrees2, post, init_22cs, get_ref_kind_22cs, packArgs, refOff, refKind, literals, m0, m1, m2, m3, m4, m5, m7, m8, List.lookup, band_FF, band_0F, shl_eq, shr_eq, bor_add_16, bor_add_256, bor_add_4096]
    try omega

theorem ref_off_31t_eq (vs : List Int) (hr : InRange .f31t vs) :
    Agrees2 (post .f31t vs) (init_31t vs) get_ref_off_31t (fun x => refOff x) := by
  simp only [InRange, Opcodes.unpackFmt] at hr
  match vs, hr with
  | [v0, v1, v2], hr =>
    simp only [InRangeL, SC.inRange, Bool.and_eq_true, decide_eq_true_eq] at hr
    simp (disch := omega) [Agrees2, post, init_31t, get_ref_off_31t, packArgs, refOff, refKind, literals, m0, m1, m2, m3, m4, m5, m7, m8, List.lookup, band_FF, band_0F, shl_eq, shr_eq, bor_add_16, bor_add_256, bor_add_4096]
    try omega

theorem ref_kind_31c_eq (vs : List Int) (hr : InRange .f31c vs) :
    Agrees2 (post .f31c vs) (init_31c vs) get_ref_kind_31c (fun x => refKind x) := by
  simp only [InRange, Opcodes.unpackFmt] at hr
  match vs, hr with
  | [v0, v1, v2], hr =>
    simp only [InRangeL, SC.inRange, Bool.and_eq_true, decide_eq_true_eq] at hr
    simp (disch := omega) [Agrees2, post, init_31c, get_ref_kind_31c, packArgs, refOff, refKind, literals, m0, m1, m2, m3, m4, m5, m7, m8, List.lookup, band_FF, band_0F, shl_eq, shr_eq, bor_add_16, bor_add_256, bor_add_4096]
    try omega

theorem literals_51l_eq (vs : List Int) (hr : InRange .f51l vs) :
    Agrees2 (post .f51l vs) (init_51l vs) get_literals_51l (fun x => some (literals x)) := by
  simp only [InRange, Opcodes.unpackFmt] at hr
  match vs, hr with
  | [v0, v1, v2], hr =>
    simp only [InRangeL, SC.inRange, Bool.and_eq_true, decide_eq_true_eq] at hr
    simp (disch := omega) [Agrees2, post, init_51l, get_literals_51l, packArgs, refOff, refKind, literals, m0, m1, m2, m3, m4, m5, m7, m8, List.lookup, band_FF, band_0F, shl_eq, shr_eq, bor_add_16, bor_add_256, bor_add_4096]
    try omega

theorem literals_31i_eq (vs : List Int) (hr : InRange .f31i vs) :
    Agrees2 (post .f31i vs) (init_31i vs) get_literals_31i (fun x => some (literals x)) := by
  simp only [InRange, Opcodes.unpackFmt] at hr
  match vs, hr with
  | [v0, v1, v2], hr =>
    simp only [InRangeL, SC.inRange, Bool.and_eq_true, decide_eq_true_eq] at hr
    simp (disch := omega) [Agrees2, post, init_31i, get_literals_31i, packArgs, refOff, refKind, literals, m0, m1, m2, m3, m4, m5, m7, m8, List.lookup, band_FF, band_0F, shl_eq, shr_eq, bor_add_16, bor_add_256, bor_add_4096]
    try omega

theorem ref_off_20t_eq (vs : List Int) (hr : InRange .f20t vs) :
    Agrees2 (post .f20t vs) (init_20t vs) get_ref_off_20t (fun x => refOff x) := by
  simp only [InRange, Opcodes.unpackFmt] at hr
  match vs, hr with
  | [v0, v1, v2], hr =>
    simp only [InRangeL, SC.inRange, Bool.and_eq_true, decide_eq_true_eq] at hr
    by_cases hp : v1 = 0 <;>
      simp (disch := omega) [Agrees2, post, init_20t, get_ref_off_20t, hp, packArgs, refOff, refKind, literals, m0, m1, m2, m3, m4, m5, m7, m8, List.lookup, band_FF, band_0F, shl_eq, shr_eq, bor_add_16, bor_add_256, bor_add_4096] <;> try omega

theorem ref_off_21t_eq (vs : List Int) (hr : InRange .f21t vs) :
    Agrees2 (post .f21t vs) (init_21t vs) get_ref_off_21t (fun x => refOff x) := by
  simp only [InRange, Opcodes.unpackFmt] at hr
  match vs, hr with
  | [v0, v1, v2], hr =>
    simp only [InRangeL, SC.inRange, Bool.and_eq_true, decide_eq_true_eq] at hr
    simp (disch := omega) [Agrees2, post, init_21t, get_ref_off_21t, packArgs, refOff, refKind, literals, m0, m1, m2, m3, m4, m5, m7, m8, List.lookup, band_FF, band_0F, shl_eq, shr_eq, bor_add_16, bor_add_256, bor_add_4096]
    try omega

theorem ref_off_10t_eq (vs : List Int) (hr : InRange .f10t vs) :
    Agrees2 (post .f10t vs) (init_10t vs) get_ref_off_10t (fun x => refOff x) := by
  simp only [InRange, Opcodes.unpackFmt] at hr
  match vs, hr with
  | [v0, v1], hr =>
    simp only [InRangeL, SC.inRange, Bool.and_eq_true, decide_eq_true_eq] at hr
    simp (disch := omega) [Agrees2, post, init_10t, get_ref_off_10t, packArgs, refOff, refKind, literals, m0, m1, m2, m3, m4, m5, m7, m8, List.lookup, band_FF, band_0F, shl_eq, shr_eq, bor_add_16, bor_add_256, bor_add_4096]
    try omega

theorem ref_off_22t_eq (vs : List Int) (hr : InRange .f22t vs) :
    Agrees2 (post .f22t vs) (init_22t vs) get_ref_off_22t (fun x => refOff x) := by
  simp only [InRange, Opcodes.unpackFmt] at hr
  match vs, hr with
  | [v0, v1], hr =>
    simp only [InRangeL, SC.inRange, Bool.and_eq_true, decide_eq_true_eq] at hr
    simp (disch := omega) [Agrees2, post, init_22t, get_ref_off_22t, packArgs, refOff, refKind, literals, m0, m1, m2, m3, m4, m5, m7, m8, List.lookup, band_FF, band_0F, shl_eq, shr_eq, bor_add_16, bor_add_256, bor_add_4096]
    try omega

theorem literals_22s_eq (vs : List Int) (hr : InRange .f22s vs) :
    Agrees2 (post .f22s vs) (init_22s vs) get_literals_22s (fun x => some (literals x)) := by
  simp only [InRange, Opcodes.unpackFmt] at hr
  match vs, hr with
  | [v0, v1], hr =>
    simp only [InRangeL, SC.inRange, Bool.and_eq_true, decide_eq_true_eq] at hr
    simp (disch := omega) [Agrees2, post, init_22s, get_literals_22s, packArgs, refOff, refKind, literals, m0, m1, m2, m3, m4, m5, m7, m8, List.lookup, band_FF, band_0F, shl_eq, shr_eq, bor_add_16, bor_add_256, bor_add_4096]
    try omega

theorem literals_22b_eq (vs : List Int) (hr : InRange .f22b vs) :
    Agrees2 (post .f22b vs) (init_22b vs) get_literals_22b (fun x => some (literals x)) := by
  simp only [InRange, Opcodes.unpackFmt] at hr
  match vs, hr with
  | [v0, v1, v2, v3], hr =>
    simp only [InRangeL, SC.inRange, Bool.and_eq_true, decide_eq_true_eq] at hr
    simp (disch := omega) [Agrees2, post, init_22b, get_literals_22b, packArgs, refOff, refKind, literals, m0, m1, m2, m3, m4, m5, m7, m8, List.lookup, band_FF, band_0F, shl_eq, shr_eq, bor_add_16, bor_add_256, bor_add_4096]
    try omega

theorem ref_off_30t_eq (vs : List Int) (hr : InRange .f30t vs) :
    Agrees2 (post .f30t vs) (init_30t vs) get_ref_off_30t (fun x => refOff x) := by
  simp only [InRange, Opcodes.unpackFmt] at hr
  match vs, hr with
  | [v0, v1, v2], hr =>
    simp only [InRangeL, SC.inRange, Bool.and_eq_true, decide_eq_true_eq] at hr
    by_cases hp : v1 = 0 <;>
      simp (disch := omega) [Agrees2, post, init_30t, get_ref_off_30t, hp, packArgs, refOff, refKind, literals, m0, m1, m2, m3, m4, m5, m7, m8, List.lookup, band_FF, band_0F, shl_eq, shr_eq, bor_add_16, bor_add_256, bor_add_4096] <;> try omega

theorem ref_kind_3rc_eq (vs : List Int) (hr : InRange .f3rc vs) :
    Agrees2 (post .f3rc vs) (init_3rc vs) get_ref_kind_3rc (fun x => refKind x) := by
  simp only [InRange, Opcodes.unpackFmt] at hr
  match vs, hr with
  | [v0, v1, v2, v3], hr =>
    simp only [InRangeL, SC.inRange, Bool.and_eq_true, decide_eq_true_eq] at hr
    simp (disch := omega) [Agrees2, post, init_3rc, get_ref_kind_3rc, packArgs, refOff, refKind, literals, m0, m1, m2, m3, m4, m5, m7, m8, List.lookup, band_FF, band_0F, shl_eq, shr_eq, bor_add_16, bor_add_256, bor_add_4096]
    try omega

theorem ref_kind_35mi_eq (vs : List Int) (hr : InRange .f35mi vs) :
    Agrees2 (post .f35mi vs) (init_35mi vs) get_ref_kind_35mi (fun x => refKind x) := by
  simp only [InRange, Opcodes.unpackFmt] at hr
  match vs, hr with
  | [v0, v1, v2], hr =>
    simp only [InRangeL, SC.inRange, Bool.and_eq_true, decide_eq_true_eq] at hr
    simp (disch := omega) [Agrees2, post, init_35mi, get_ref_kind_35mi, packArgs, refOff, refKind, literals, m0, m1, m2, m3, m4, m5, m7, m8, List.lookup, band_FF, band_0F, shl_eq, shr_eq, bor_add_16, bor_add_256, bor_add_4096]
    try omega

theorem ref_kind_35ms_eq (vs : List Int) (hr : InRange .f35ms vs) :
    Agrees2 (post .f35ms vs) (init_35ms vs) get_ref_kind_35ms (fun x => refKind x) := by
  simp only [InRange, Opcodes.unpackFmt] at hr
  match vs, hr with
  | [v0, v1, v2], hr =>
    simp only [InRangeL, SC.inRange, Bool.and_eq_true, decide_eq_true_eq] at hr
    simp (disch := omega) [Agrees2, post, init_35ms, get_ref_kind_35ms, packArgs, refOff, refKind, literals, m0, m1, m2, m3, m4, m5, m7, m8, List.lookup, band_FF, band_0F, shl_eq, shr_eq, bor_add_16, bor_add_256, bor_add_4096]
    try omega

theorem ref_kind_3rmi_eq (vs : List Int) (hr : InRange .f3rmi vs) :
    Agrees2 (post .f3rmi vs) (init_3rmi vs) get_ref_kind_3rmi (fun x => refKind x) := by
  simp only [InRange, Opcodes.unpackFmt] at hr
  match vs, hr with
  | [v0, v1, v2, v3], hr =>
    simp only [InRangeL, SC.inRange, Bool.and_eq_true, decide_eq_true_eq] at hr
    simp (disch := omega) [Agrees2, post, init_3rmi, get_ref_kind_3rmi, packArgs, refOff, refKind, literals, m0, m1, m2, m3, m4, m5, m7, m8, List.lookup, band_FF, band_0F, shl_eq, shr_eq, bor_add_16, bor_add_256, bor_add_4096]
    try omega

theorem ref_kind_3rms_eq (vs : List Int) (hr : InRange .f3rms vs) :
    Agrees2 (post .f3rms vs) (init_3rms vs) get_ref_kind_3rms (fun x => refKind x) := by
  simp only [InRange, Opcodes.unpackFmt] at hr
  match vs, hr with
  | [v0, v1, v2, v3], hr =>
    simp only [InRangeL, SC.inRange, Bool.and_eq_true, decide_eq_true_eq] at hr
    simp (disch := omega) [Agrees2, post, init_3rms, get_ref_kind_3rms, packArgs, refOff, refKind, literals, m0, m1, m2, m3, m4, m5, m7, m8, List.lookup, band_FF, band_0F, shl_eq, shr_eq, bor_add_16, bor_add_256, bor_add_4096]
    try omega

theorem ref_kind_41c_eq (vs : List Int) (hr : InRange .f41c vs) :
    Agrees2 (post .f41c vs) (init_41c vs) get_ref_kind_41c (fun x => refKind x) := by
  simp only [InRange, Opcodes.unpackFmt] at hr
  match vs, hr with
  | [v0, v1, v2], hr =>
    simp only [InRangeL, SC.inRange, Bool.and_eq_true, decide_eq_true_eq] at hr
    simp (disch := omega) [Agrees2, post, init_41c, get_ref_kind_41c, packArgs, refOff, refKind, literals, m0, m1, m2, m3, m4, m5, m7, m8, List.lookup, band_FF, band_0F, shl_eq, shr_eq, bor_add_16, bor_add_256, bor_add_4096]
    try omega

theorem ref_kind_40sc_eq (vs : List Int) (hr : InRange .f40sc vs) :
    Agrees2 (post .f40sc vs) (init_40sc vs) get_ref_kind_40sc (fun x => refKind x) := by
  simp only [InRange, Opcodes.unpackFmt] at hr
  match vs, hr with
  | [v0, v1, v2], hr =>
    simp only [InRangeL, SC.inRange, Bool.and_eq_true, decide_eq_true_eq] at hr
    simp (disch := omega) [Agrees2, post, init_40sc, get_ref_kind_40sc, packArgs, refOff, refKind, literals, m0, m1, m2, m3, m4, m5, m7, m8, List.lookup, band_FF, band_0F, shl_eq, shr_eq, bor_add_16, bor_add_256, bor_add_4096]
    try omega

theorem ref_kind_52c_eq (vs : List Int) (hr : InRange .f52c vs) :
    Agrees2 (post .f52c vs) (init_52c vs) get_ref_kind_52c (fun x => refKind x) := by
  simp only [InRange, Opcodes.unpackFmt] at hr
  match vs, hr with
  | [v0, v1, v2, v3], hr =>
    simp only [InRangeL, SC.inRange, Bool.and_eq_true, decide_eq_true_eq] at hr
    simp (disch := omega) [Agrees2, post, init_52c, get_ref_kind_52c, packArgs, refOff, refKind, literals, m0, m1, m2, m3, m4, m5, m7, m8, List.lookup, band_FF, band_0F, shl_eq, shr_eq, bor_add_16, bor_add_256, bor_add_4096]
    try omega

theorem ref_kind_5rc_eq (vs : List Int) (hr : InRange .f5rc vs) :
    Agrees2 (post .f5rc vs) (init_5rc vs) get_ref_kind_5rc (fun x => refKind x) := by
  simp only [InRange, Opcodes.unpackFmt] at hr
  match vs, hr with
  | [v0, v1, v2, v3], hr =>
    simp only [InRangeL, SC.inRange, Bool.and_eq_true, decide_eq_true_eq] at hr
    simp (disch := omega) [Agrees2, post, init_5rc, get_ref_kind_5rc, packArgs, refOff, refKind, literals, m0, m1, m2, m3, m4, m5, m7, m8, List.lookup, band_FF, band_0F, shl_eq, shr_eq, bor_add_16, bor_add_256, bor_add_4096]
    try omega

/-- All 27 observers at once. -/
theorem source_observers_agree :
    (∀ vs, InRange .f35c vs → Agrees2 (post .f35c vs) (init_35c vs) get_ref_kind_35c (fun x => refKind x)) ∧
    (∀ vs, InRange .f21h vs → Agrees2 (post .f21h vs) (init_21h vs) get_literals_21h (fun x => some (literals x))) ∧
    (∀ vs, InRange .f11n vs → Agrees2 (post .f11n vs) (init_11n vs) get_literals_11n (fun x => some (literals x))) ∧
    (∀ vs, InRange .f21c vs → Agrees2 (post .f21c vs) (init_21c vs) get_ref_kind_21c (fun x => refKind x)) ∧
    (∀ vs, InRange .f21s vs → Agrees2 (post .f21s vs) (init_21s vs) get_literals_21s (fun x => some (literals x))) ∧
    (∀ vs, InRange .f22c vs → Agrees2 (post .f22c vs) (init_22c vs) get_ref_kind_22c (fun x => refKind x)) ∧
    (∀ vs, InRange .f22cs vs → Agrees2 (post .f22cs vs) (init_22cs vs) get_ref_kind_22cs (fun x => refKind x)) ∧
    (∀ vs, InRange .f31t vs → Agrees2 (post .f31t vs) (init_31t vs) get_ref_off_31t (fun x => refOff x)) ∧
    (∀ vs, InRange .f31c vs → Agrees2 (post .f31c vs) (init_31c vs) get_ref_kind_31c (fun x => refKind x)) ∧
    (∀ vs, InRange .f51l vs → Agrees2 (post .f51l vs) (init_51l vs) get_literals_51l (fun x => some (literals x))) ∧
    (∀ vs, InRange .f31i vs → Agrees2 (post .f31i vs) (init_31i vs) get_literals_31i (fun x => some (literals x))) ∧
    (∀ vs, InRange .f20t vs → Agrees2 (post .f20t vs) (init_20t vs) get_ref_off_20t (fun x => refOff x)) ∧
    (∀ vs, InRange .f21t vs → Agrees2 (post .f21t vs) (init_21t vs) get_ref_off_21t (fun x => refOff x)) ∧
    (∀ vs, InRange .f10t vs → Agrees2 (post .f10t vs) (init_10t vs) get_ref_off_10t (fun x => refOff x)) ∧
    (∀ vs, InRange .f22t vs → Agrees2 (post .f22t vs) (init_22t vs) get_ref_off_22t (fun x => refOff x)) ∧
    (∀ vs, InRange .f22s vs → Agrees2 (post .f22s vs) (init_22s vs) get_literals_22s (fun x => some (literals x))) ∧
    (∀ vs, InRange .f22b vs → Agrees2 (post .f22b vs) (init_22b vs) get_literals_22b (fun x => some (literals x))) ∧
    (∀ vs, InRange .f30t vs → Agrees2 (post .f30t vs) (init_30t vs) get_ref_off_30t (fun x => refOff x)) ∧
    (∀ vs, InRange .f3rc vs → Agrees2 (post .f3rc vs) (init_3rc vs) get_ref_kind_3rc (fun x => refKind x)) ∧
    (∀ vs, InRange .f35mi vs → Agrees2 (post .f35mi vs) (init_35mi vs) get_ref_kind_35mi (fun x => refKind x)) ∧
    (∀ vs, InRange .f35ms vs → Agrees2 (post .f35ms vs) (init_35ms vs) get_ref_kind_35ms (fun x => refKind x)) ∧
    (∀ vs, InRange .f3rmi vs → Agrees2 (post .f3rmi vs) (init_3rmi vs) get_ref_kind_3rmi (fun x => refKind x)) ∧
    (∀ vs, InRange .f3rms vs → Agrees2 (post .f3rms vs) (init_3rms vs) get_ref_kind_3rms (fun x => refKind x)) ∧
    (∀ vs, InRange .f41c vs → Agrees2 (post .f41c vs) (init_41c vs) get_ref_kind_41c (fun x => refKind x)) ∧
    (∀ vs, InRange .f40sc vs → Agrees2 (post .f40sc vs) (init_40sc vs) get_ref_kind_40sc (fun x => refKind x)) ∧
    (∀ vs, InRange .f52c vs → Agrees2 (post .f52c vs) (init_52c vs) get_ref_kind_52c (fun x => refKind x)) ∧
    (∀ vs, InRange .f5rc vs → Agrees2 (post .f5rc vs) (init_5rc vs) get_ref_kind_5rc (fun x => refKind x)) :=
  ⟨ref_kind_35c_eq, literals_21h_eq, literals_11n_eq, ref_kind_21c_eq, literals_21s_eq, ref_kind_22c_eq, ref_kind_22cs_eq, ref_off_31t_eq, ref_kind_31c_eq, literals_51l_eq, literals_31i_eq, ref_off_20t_eq, ref_off_21t_eq, ref_off_10t_eq, ref_off_22t_eq, literals_22s_eq, literals_22b_eq, ref_off_30t_eq, ref_kind_3rc_eq, ref_kind_35mi_eq, ref_kind_35ms_eq, ref_kind_3rmi_eq, ref_kind_3rms_eq, ref_kind_41c_eq, ref_kind_40sc_eq, ref_kind_52c_eq, ref_kind_5rc_eq⟩

end AgVerif.PyInsn
