/-
C05, file level, part 1: sections → tables.  For a file that `Encodes` tables `T` in layout `L`,
each section read at the offset its map entry gives yields exactly the rows of `T`, keyed by the
offsets `placed` assigns (composition of the L1 round trips of Proof/DexFile.lean).
-/
import AgVerif.Proof.DexTables
import AgVerif.Proof.DexFile
namespace AgVerif.C05
open AgVerif.DexFile AgVerif.LoadOrder
open AgVerif.Spec.DexFile (ushort uint ULeb protoId fieldId methodId classDef typeListBody codeHdr EncClassData)

/-! ### `At` -/

theorem At.drop {file : Bytes} {off : Nat} {bs : Bytes} (h : At file off bs) :
    ∃ post, file.drop off = bs ++ post := by
  obtain ⟨pre, post, rfl, rfl⟩ := h
  exact ⟨post, by rw [List.append_assoc, List.drop_left]⟩

theorem At.tail {file : Bytes} {off : Nat} {a b : Bytes} (h : At file off (a ++ b)) :
    At file (off + a.length) b := by
  obtain ⟨pre, post, rfl, rfl⟩ := h
  exact ⟨pre ++ a, post, by simp only [List.append_assoc], by simp⟩

theorem At.head {file : Bytes} {off : Nat} {a b : Bytes} (h : At file off (a ++ b)) : At file off a := by
  obtain ⟨pre, post, rfl, rfl⟩ := h
  exact ⟨pre, b ++ post, by simp only [List.append_assoc], rfl⟩

/-! ### a section of back-to-back items -/

theorem decSeq_placed {α} (d : Dec α) (file : Bytes) :
    ∀ (xs : List (α × Bytes)) (off : Nat),
      (∀ p ∈ xs, ∀ rest, d (p.2 ++ rest) = some (p.1, rest)) →
      At file off (bytesOf xs) →
      decSeq d file xs.length off = some (placed off xs)
  | [], off, _, _ => rfl
  | (x, b) :: xs, off, hd, hat => by
    have hat' : At file off (b ++ bytesOf xs) := by simpa [bytesOf] using hat
    obtain ⟨post, hp⟩ := hat'.drop
    have h1 := hd (x, b) List.mem_cons_self (bytesOf xs ++ post)
    have ih := decSeq_placed d file xs (off + b.length)
      (fun p hp => hd p (List.mem_cons_of_mem _ hp)) hat'.tail
    have hl : (b ++ (bytesOf xs ++ post)).length - (bytesOf xs ++ post).length = b.length := by
      simp only [List.length_append]; omega
    simp only [List.length_cons, decSeq, hp, List.append_assoc, bind, Option.bind] at h1 ⊢
    rw [h1]
    simp only [hl, ih, placed, pure]

/-- fixed-size rows: the offsets are not remembered, only the values -/
theorem decSeq_rows {α} (d : Dec α) (enc : α → Bytes) (file : Bytes) (xs : List α) (off : Nat)
    (hd : ∀ x ∈ xs, ∀ rest, d (enc x ++ rest) = some (x, rest))
    (hat : At file off (xs.flatMap enc)) :
    ∃ l, decSeq d file xs.length off = some l ∧ l.map (·.2) = xs := by
  have h := decSeq_placed d file (xs.map fun x => (x, enc x)) off
    (by
      intro p hp rest
      obtain ⟨x, hx, rfl⟩ := List.mem_map.mp hp
      exact hd x hx rest)
    (by simpa [bytesOf, List.flatMap_map] using hat)
  rw [List.length_map] at h
  refine ⟨_, h, ?_⟩
  have : ∀ (ys : List α) (o : Nat), (placed o (ys.map fun x => (x, enc x))).map (·.2) = ys := by
    intro ys
    induction ys with
    | nil => intro o; rfl
    | cons y ys ih => intro o; simp only [List.map_cons, placed, ih]
  exact this xs off

/-! ### items -/

theorem readNT_enc : ∀ (s rest : Bytes), 0 ∉ s → readNT (s ++ 0 :: rest) = some (s, rest)
  | [], rest, _ => by simp [readNT]
  | b :: s, rest, h => by
    have hb : b ≠ 0 := fun e => h (by simp [e])
    have hs : 0 ∉ s := fun m => h (List.mem_cons_of_mem _ m)
    simp only [List.cons_append, readNT, hb, ↓reduceIte, readNT_enc s rest hs]

theorem decStringData_enc (item s rest : Bytes) (n : Nat) (hi : ULeb item n) (hs : 0 ∉ s) :
    decStringData ((item ++ s ++ [0]) ++ rest) = some (s, rest) := by
  simp only [decStringData, List.append_assoc, bind, Option.bind, uleb_enc item n _ hi,
    List.cons_append, List.nil_append, readNT_enc s rest hs]

theorem decTypeList_item (l : List Nat) (pad rest : Bytes) (hl : l.length < 2 ^ 32)
    (h : ∀ x ∈ l, x < 65536) (hp : pad.length = if l.length % 2 = 1 then 2 else 0) :
    decTypeList ((typeListBody l ++ pad) ++ rest) = some (l, rest) := by
  rw [List.append_assoc, decTypeList_enc l (pad ++ rest) hl h]
  by_cases ho : l.length % 2 = 1
  · rw [if_pos ho] at hp
    have : (l.length % 2 != 0) = true := by simp [ho]
    rw [if_pos this]
    match pad, hp with
    | [_, _], _ => rfl
  · rw [if_neg ho] at hp
    have : ¬ (l.length % 2 != 0) = true := by simp; omega
    rw [if_neg this, List.eq_nil_of_length_eq_zero hp]
    rfl

theorem decClassData_item (cd : ClassData) (bytes rest : Bytes)
    (h : EncClassData (cd.sf.map fun f => (f.idx, f.flags)) (cd.inf.map fun f => (f.idx, f.flags))
      (cd.dm.map fun m => (m.idx, m.flags, m.codeOff)) (cd.vm.map fun m => (m.idx, m.flags, m.codeOff)) bytes) :
    decClassData (bytes ++ rest) = some (cd, rest) := by
  rw [decClassData_enc _ _ _ _ bytes rest h]
  simp only [List.map_map, Function.comp_def, List.map_id']

theorem decCode_item (c : Code) (rest : Bytes) (h : CodeOk c) :
    decCode (encCode c ++ rest) = some (c, rest) := by
  obtain ⟨h1, h2, h3, h4, h5, h6, h7⟩ := h
  obtain ⟨⟨regs, ins, outs, tries, dbg, size⟩, insns⟩ := c
  simp only at h1 h2 h3 h4 h5 h6 h7
  subst h4
  have e : 2 * size = insns.length := h7.symm
  simp only [decCode, encCode, List.append_assoc, bind, Option.bind,
    decCodeHdr_enc regs ins outs 0 dbg size (insns ++ rest) h1 h2 h3 (by omega) h5 h6,
    e, List.take_left', List.drop_left', Nat.lt_irrefl, decide_false, Bool.and_false,
    Bool.false_eq_true, ↓reduceIte, pure]

def align4 (off : Nat) : Nat := if off % 4 != 0 then off + (4 - off % 4) else off

theorem decCodes_align (file : Bytes) : ∀ (n off : Nat), decCodes file n off = decCodes file n (align4 off)
  | 0, _ => rfl
  | n + 1, off => by
    have e : align4 (align4 off) = align4 off := by
      unfold align4
      by_cases h : off % 4 = 0
      · simp [h]
      · have h' : (off % 4 != 0) = true := by simp [h]
        have h2 : (off + (4 - off % 4)) % 4 = 0 := by omega
        simp [h', h2]
    have : ∀ o, decCodes file (n + 1) o = (do
        let bs := file.drop (align4 o)
        let (x, r) ← decCode bs
        let rest ← decCodes file n (align4 o + (bs.length - r.length))
        pure ((align4 o, x) :: rest)) := fun o => rfl
    rw [this off, this (align4 off), e]

/-- `CodeItem.__init__`: every item starts at the next multiple of 4 -/
theorem decCodes_placed (file : Bytes) :
    ∀ (xs : List (Code × Bytes)) (off : Nat), off % 4 = 0 →
      (∀ p ∈ xs, CodeOk p.1 ∧ p.2.length = (4 - (encCode p.1).length % 4) % 4) →
      At file off (bytesOf (xs.map fun p => (p.1, encCode p.1 ++ p.2))) →
      decCodes file xs.length off = some (placed off (xs.map fun p => (p.1, encCode p.1 ++ p.2)))
  | [], off, _, _, _ => rfl
  | (c, pad) :: xs, off, hoff, hd, hat => by
    have hat' : At file off ((encCode c ++ pad) ++ bytesOf (xs.map fun p => (p.1, encCode p.1 ++ p.2))) := by
      simpa [bytesOf] using hat
    obtain ⟨post, hp⟩ := hat'.drop
    obtain ⟨hok, hpad⟩ := hd (c, pad) List.mem_cons_self
    simp only at hok hpad
    have h1 := decCode_item c (pad ++ (bytesOf (xs.map fun p => (p.1, encCode p.1 ++ p.2)) ++ post)) hok
    have hoff' : (off + (encCode c ++ pad).length) % 4 = 0 := by
      simp only [List.length_append]; omega
    have ih := decCodes_placed file xs (off + (encCode c ++ pad).length) hoff'
      (fun p hp => hd p (List.mem_cons_of_mem _ hp)) hat'.tail
    have hne : ¬ (off % 4 != 0) = true := by simp [hoff]
    simp only [List.length_cons, decCodes, hne, Bool.false_eq_true, ↓reduceIte, hp, List.append_assoc,
      bind, Option.bind] at h1 ⊢
    rw [h1]
    simp only [List.map_cons, placed, pure]
    have hl : off + ((encCode c ++ (pad ++ (bytesOf (List.map (fun p => (p.fst, encCode p.fst ++ p.snd)) xs) ++ post))).length -
            List.length (pad ++ (bytesOf (List.map (fun p => (p.fst, encCode p.fst ++ p.snd)) xs) ++ post))) =
        off + (encCode c).length := by
      simp only [List.length_append]; omega
    have ha : align4 (off + (encCode c).length) = off + List.length (encCode c ++ pad) := by
      unfold align4
      simp only [List.length_append]
      by_cases h : (off + (encCode c).length) % 4 = 0
      · have : pad.length = 0 := by omega
        simp [h, this]
      · have h' : ((off + (encCode c).length) % 4 != 0) = true := by simp [h]
        rw [if_pos h']; omega
    rw [hl, decCodes_align, ha, ih]

end AgVerif.C05
