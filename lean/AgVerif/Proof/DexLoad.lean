/-
C05, file level, part 1: sections → tables.  For a file that `Encodes` tables `T` in layout `L`,
each section read at the offset its map entry gives yields exactly the rows of `T`, keyed by the
offsets `placed` assigns (composition of the L1 round trips of Proof/DexFile.lean).
-/
import AgVerif.Proof.DexTables
import AgVerif.Proof.DexFile
import AgVerif.Props.C03
namespace AgVerif.C05
open AgVerif.DexFile AgVerif.LoadOrder
open AgVerif.Spec.DexFile (ushort uint ULeb protoId fieldId methodId classDef typeListBody codeHdr EncClassData)

/-! ### `At` -/

theorem At.drop {file : Bytes} {off : Nat} {bs : Bytes} (h : At file off bs) :
    ∃ post, file.drop off = bs ++ post := by
  obtain ⟨pre, post, rfl, rfl⟩ := h
  exact ⟨post, by rw [List.append_assoc, List.drop_left]⟩

theorem At.tail {file : Bytes} {off : Nat} {a b : Bytes} (h : At file off (a ++ b)) :
    At file (off + a.length) b := by
  obtain ⟨pre, post, rfl, rfl⟩ := h
  exact ⟨pre ++ a, post, by simp only [List.append_assoc], by simp⟩

theorem At.head {file : Bytes} {off : Nat} {a b : Bytes} (h : At file off (a ++ b)) : At file off a := by
  obtain ⟨pre, post, rfl, rfl⟩ := h
  exact ⟨pre, b ++ post, by simp only [List.append_assoc], rfl⟩

/-! ### a section of back-to-back items -/

theorem decSeq_placed {α} (d : Dec α) (file : Bytes) :
    ∀ (xs : List (α × Bytes)) (off : Nat),
      (∀ p ∈ xs, ∀ rest, d (p.2 ++ rest) = some (p.1, rest)) →
      At file off (bytesOf xs) →
      decSeq d file xs.length off = some (placed off xs)
  | [], off, _, _ => rfl
  | (x, b) :: xs, off, hd, hat => by
    have hat' : At file off (b ++ bytesOf xs) := by simpa [bytesOf] using hat
    obtain ⟨post, hp⟩ := hat'.drop
    have h1 := hd (x, b) List.mem_cons_self (bytesOf xs ++ post)
    have ih := decSeq_placed d file xs (off + b.length)
      (fun p hp => hd p (List.mem_cons_of_mem _ hp)) hat'.tail
    have hl : (b ++ (bytesOf xs ++ post)).length - (bytesOf xs ++ post).length = b.length := by
      simp only [List.length_append]; omega
    simp only [List.length_cons, decSeq, hp, List.append_assoc, bind, Option.bind] at h1 ⊢
    rw [h1]
    simp only [hl, ih, placed, pure]

/-- fixed-size rows: the offsets are not remembered, only the values -/
theorem decSeq_rows {α} (d : Dec α) (enc : α → Bytes) (file : Bytes) (xs : List α) (off : Nat)
    (hd : ∀ x ∈ xs, ∀ rest, d (enc x ++ rest) = some (x, rest))
    (hat : At file off (xs.flatMap enc)) :
    ∃ l, decSeq d file xs.length off = some l ∧ l.map (·.2) = xs := by
  have h := decSeq_placed d file (xs.map fun x => (x, enc x)) off
    (by
      intro p hp rest
      obtain ⟨x, hx, rfl⟩ := List.mem_map.mp hp
      exact hd x hx rest)
    (by simpa [bytesOf, List.flatMap_map] using hat)
  rw [List.length_map] at h
  refine ⟨_, h, ?_⟩
  have : ∀ (ys : List α) (o : Nat), (placed o (ys.map fun x => (x, enc x))).map (·.2) = ys := by
    intro ys
    induction ys with
    | nil => intro o; rfl
    | cons y ys ih => intro o; simp only [List.map_cons, placed, ih]
  exact this xs off

/-! ### items -/

theorem readNT_enc : ∀ (s rest : Bytes), 0 ∉ s → readNT (s ++ 0 :: rest) = some (s, rest)
  | [], rest, _ => by simp [readNT]
  | b :: s, rest, h => by
    have hb : b ≠ 0 := fun e => h (by simp [e])
    have hs : 0 ∉ s := fun m => h (List.mem_cons_of_mem _ m)
    simp only [List.cons_append, readNT, hb, ↓reduceIte, readNT_enc s rest hs]

theorem decStringData_enc (item s rest : Bytes) (n : Nat) (hi : ULeb item n) (hs : 0 ∉ s) :
    decStringData ((item ++ s ++ [0]) ++ rest) = some (s, rest) := by
  simp only [decStringData, List.append_assoc, bind, Option.bind, uleb_enc item n _ hi,
    List.cons_append, List.nil_append, readNT_enc s rest hs]

theorem decTypeList_item (l : List Nat) (pad rest : Bytes) (hl : l.length < 2 ^ 32)
    (h : ∀ x ∈ l, x < 65536) (hp : pad.length = if l.length % 2 = 1 then 2 else 0) :
    decTypeList ((typeListBody l ++ pad) ++ rest) = some (l, rest) := by
  rw [List.append_assoc, decTypeList_enc l (pad ++ rest) hl h]
  by_cases ho : l.length % 2 = 1
  · rw [if_pos ho] at hp
    have : (l.length % 2 != 0) = true := by simp [ho]
    rw [if_pos this]
    match pad, hp with
    | [_, _], _ => rfl
  · rw [if_neg ho] at hp
    have : ¬ (l.length % 2 != 0) = true := by simp; omega
    rw [if_neg this, List.eq_nil_of_length_eq_zero hp]
    rfl

theorem decClassData_item (cd : ClassData) (bytes rest : Bytes)
    (h : EncClassData (cd.sf.map fun f => (f.idx, f.flags)) (cd.inf.map fun f => (f.idx, f.flags))
      (cd.dm.map fun m => (m.idx, m.flags, m.codeOff)) (cd.vm.map fun m => (m.idx, m.flags, m.codeOff)) bytes) :
    decClassData (bytes ++ rest) = some (cd, rest) := by
  rw [decClassData_enc _ _ _ _ bytes rest h]
  simp only [List.map_map, Function.comp_def, List.map_id']

/-! ### what follows the instructions of a code item -/

theorem sleb_enc (n : Spec.Tries.SNum) (rest : Bytes) (h : n.WF) : sleb (n.bytes ++ rest) = some (n.val, rest) := by
  unfold sleb
  rw [AgVerif.C03.sleb_decode_spec n.bytes rest n.val h.1 h.2.1 h.2.2]
  simp

theorem unum_enc (n : Spec.Tries.UNum) (rest : Bytes) (h : n.WF) : uleb (n.bytes ++ rest) = some (n.val, rest) :=
  uleb_enc n.bytes n.val rest h

theorem decN_flat {α β} (d : Dec β) (enc : α → Bytes) (val : α → β) : ∀ (xs : List α) (rest : Bytes),
    (∀ x ∈ xs, ∀ r, d (enc x ++ r) = some (val x, r)) →
    decN d xs.length (xs.flatMap enc ++ rest) = some (xs.map val, rest)
  | [], _, _ => rfl
  | x :: xs, rest, h => by
    simp only [List.length_cons, decN, List.flatMap_cons, List.append_assoc, bind, Option.bind,
      h x List.mem_cons_self, decN_flat d enc val xs rest (fun y hy => h y (List.mem_cons_of_mem _ hy)),
      pure, List.map_cons]

theorem decHandler_enc (h : Spec.Tries.EncHandler) (rest : Bytes) (hw : h.WF) :
    decHandler (h.bytes ++ rest) = some ((), rest) := by
  obtain ⟨hs, hp, hc⟩ := hw
  have hpairs := decN_flat (fun b => do let (_, r) ← uleb b; let (_, r) ← uleb r; pure ((), r))
    Spec.Tries.EncPair.bytes (fun _ => ()) h.pairs
  unfold decHandler Spec.Tries.EncHandler.bytes
  simp only [List.append_assoc, bind, Option.bind, sleb_enc h.size _ hs] at hpairs ⊢
  cases hca : h.catchAll with
  | none =>
    rw [hca] at hc
    obtain ⟨hne, hsz⟩ := hc
    have hn : h.size.val.natAbs = h.pairs.length := by omega
    have hpos : ¬ h.size.val ≤ 0 := by
      have : 0 < h.pairs.length := List.length_pos_iff.mpr hne
      omega
    simp only [hn, List.nil_append, hpos, ↓reduceIte]
    rw [hpairs rest (fun p hp' r => by
      simp only [Spec.Tries.EncPair.bytes, List.append_assoc,
        unum_enc p.ty _ (hp p hp').1, unum_enc p.addr _ (hp p hp').2, pure])]
    rfl
  | some c =>
    rw [hca] at hc
    obtain ⟨hcw, hsz⟩ := hc
    have hn : h.size.val.natAbs = h.pairs.length := by omega
    have hpos : h.size.val ≤ 0 := by omega
    simp only [hn, hpos, ↓reduceIte]
    rw [hpairs (c.bytes ++ rest) (fun p hp' r => by
      simp only [Spec.Tries.EncPair.bytes, List.append_assoc,
        unum_enc p.ty _ (hp p hp').1, unum_enc p.addr _ (hp p hp').2, pure])]
    simp only [unum_enc c rest hcw, pure]

theorem decTries_enc : ∀ (ts : List Spec.Tries.EncTry) (rest : Bytes),
    decN (fun b => do let (_, r) ← u32 b; let (_, r) ← u32 r; pure ((), r)) ts.length
      (ts.flatMap Spec.Tries.EncTry.bytes ++ rest) = some (ts.map (fun _ => ()), rest) := by
  intro ts rest
  exact decN_flat _ Spec.Tries.EncTry.bytes (fun _ => ()) ts rest (fun t _ r => by
    simp [Spec.Tries.EncTry.bytes, Spec.Tries.le32, Spec.Tries.le16, u32, bind, Option.bind, pure])

theorem decCode_item (c : Code) (tail rest : Bytes) (h : CodeOk c) (ht : CodeTail c tail) :
    decCode (encCode c ++ tail ++ rest) = some (c, rest) := by
  obtain ⟨h1, h2, h3, h4, h5, h6, h7⟩ := h
  obtain ⟨⟨regs, ins, outs, tries, dbg, size⟩, insns⟩ := c
  simp only at h1 h2 h3 h4 h5 h6 h7
  have e : 2 * size = insns.length := h7.symm
  unfold CodeTail at ht
  simp only at ht
  by_cases h0 : tries = 0
  · subst h0
    simp only [↓reduceIte] at ht
    subst ht
    simp only [decCode, encCode, List.append_assoc, List.nil_append, bind, Option.bind,
      decCodeHdr_enc regs ins outs 0 dbg size (insns ++ rest) h1 h2 h3 (by omega) h5 h6,
      e, List.take_left', List.drop_left', Nat.lt_irrefl, decide_false, Bool.and_false,
      Bool.false_eq_true, ↓reduceIte, pure]
  · rw [if_neg h0] at ht
    obtain ⟨pad, p, rfl, hpad, hnt, hls, hlv, hh⟩ := ht
    have hpos : tries > 0 := by omega
    have hhand := decN_flat decHandler Spec.Tries.EncHandler.bytes (fun _ => ()) p.handlers rest
      (fun x hx r => decHandler_enc x r (hh x hx))
    have htr := decTries_enc p.tries (p.listSize.bytes ++ (List.flatMap Spec.Tries.EncHandler.bytes p.handlers ++ rest))
    simp only [bind, Option.bind, pure] at htr
    simp only [decCode, encCode, Spec.Tries.Plan.bytes, List.append_assoc, bind, Option.bind,
      decCodeHdr_enc regs ins outs tries dbg size _ h1 h2 h3 h4 h5 h6,
      e, List.take_left', List.drop_left', hpos, decide_true, Bool.and_true, ↓reduceIte]
    by_cases hodd : size % 2 = 1
    · rw [if_pos hodd] at hpad
      match pad, hpad with
      | [a, b], _ =>
        simp only [hodd, BEq.rfl, ↓reduceIte, List.cons_append, List.nil_append, u16, ← hnt, htr,
          unum_enc p.listSize _ hls, hlv, hhand, pure]
    · rw [if_neg hodd] at hpad
      have hb : (size % 2 == 1) = false := by simp [hodd]
      rw [List.eq_nil_of_length_eq_zero hpad]
      simp only [hb, Bool.false_eq_true, ↓reduceIte, List.nil_append, ← hnt, htr,
        unum_enc p.listSize _ hls, hlv, hhand, pure]

def align4 (off : Nat) : Nat := if off % 4 != 0 then off + (4 - off % 4) else off

theorem decCodes_align (file : Bytes) : ∀ (n off : Nat), decCodes file n off = decCodes file n (align4 off)
  | 0, _ => rfl
  | n + 1, off => by
    have e : align4 (align4 off) = align4 off := by
      unfold align4
      by_cases h : off % 4 = 0
      · simp [h]
      · have h' : (off % 4 != 0) = true := by simp [h]
        have h2 : (off + (4 - off % 4)) % 4 = 0 := by omega
        simp [h', h2]
    have : ∀ o, decCodes file (n + 1) o = (do
        let bs := file.drop (align4 o)
        let (x, r) ← decCode bs
        let rest ← decCodes file n (align4 o + (bs.length - r.length))
        pure ((align4 o, x) :: rest)) := fun o => rfl
    rw [this off, this (align4 off), e]

/-- `CodeItem.__init__`: every item starts at the next multiple of 4 -/
theorem decCodes_placed (file : Bytes) :
    ∀ (xs : List (Code × Bytes)) (off : Nat), off % 4 = 0 →
      (∀ p ∈ xs, ∃ body pad, p.2 = body ++ pad ∧ (∀ rest, decCode (body ++ rest) = some (p.1, rest)) ∧
        pad.length = (4 - body.length % 4) % 4) →
      At file off (bytesOf xs) →
      decCodes file xs.length off = some (placed off xs)
  | [], off, _, _, _ => rfl
  | (c, item) :: xs, off, hoff, hd, hat => by
    obtain ⟨body, pad, hitem, hdec, hpad⟩ := hd (c, item) List.mem_cons_self
    simp only at hitem hdec hpad
    subst hitem
    have hat' : At file off ((body ++ pad) ++ bytesOf xs) := by simpa [bytesOf] using hat
    obtain ⟨post, hp⟩ := hat'.drop
    have h1 := hdec (pad ++ (bytesOf xs ++ post))
    have hoff' : (off + (body ++ pad).length) % 4 = 0 := by
      simp only [List.length_append]; omega
    have ih := decCodes_placed file xs (off + (body ++ pad).length) hoff'
      (fun p hp => hd p (List.mem_cons_of_mem _ hp)) hat'.tail
    have hne : ¬ (off % 4 != 0) = true := by simp [hoff]
    simp only [List.length_cons, decCodes, hne, Bool.false_eq_true, ↓reduceIte, hp, List.append_assoc,
      bind, Option.bind] at h1 ⊢
    rw [h1]
    simp only [placed, pure]
    have hl : off + ((body ++ (pad ++ (bytesOf xs ++ post))).length - List.length (pad ++ (bytesOf xs ++ post))) =
        off + body.length := by
      simp only [List.length_append]; omega
    have ha : align4 (off + body.length) = off + List.length (body ++ pad) := by
      unfold align4
      simp only [List.length_append]
      by_cases h : (off + body.length) % 4 = 0
      · have : pad.length = 0 := by omega
        simp [h, this]
      · have h' : ((off + body.length) % 4 != 0) = true := by simp [h]
        rw [if_pos h']; omega
    rw [hl, decCodes_align, ha, ih]

end AgVerif.C05
