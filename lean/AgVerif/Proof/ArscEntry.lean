/-
C28 deepening, step 2: whole entries.  The 16 header bytes of a complex entry compose with its map
items; one statement for the three entry kinds of Spec.Arsc; the random-access reader on a file that
holds the encoded entry.  Core Lean only.
-/
import AgVerif.Proof.ArscRead
namespace AgVerif.Arsc
open AgVerif.Gen.ArscConsts AgVerif.Spec.Arsc

theorem decodeEntryL_complex (flags key parent : Nat) (items : List (Nat × (Nat × Nat))) (rest : List Nat)
    (hf : flags < 65536) (hc : flags &&& flagComplex ≠ 0)
    (hkey : key < 4294967296) (hp : parent < 4294967296) (hn : items.length < 4294967296)
    (hi : ∀ it ∈ items, it.1 < 4294967296 ∧ it.2.1 < 256 ∧ it.2.2 < 4294967296) :
    decodeEntryL (encComplex flags key parent items ++ rest)
      = some (⟨flags, key, .complex parent items⟩, rest) := by
  simp only [decodeEntryL, encComplex, List.append_assoc]
  rw [le16_enc 16 _ (by omega)]; simp only []
  rw [le16_enc _ _ hf]; simp only []
  rw [le32_enc _ _ hkey]; simp only [decodeBodyL, hc, ne_eq, not_false_eq_true, if_true, decodeComplexL]
  rw [le32_enc _ _ hp]; simp only []
  rw [le32_enc _ _ hn]; simp only []
  rw [mapItemsL_enc items rest hi]

end AgVerif.Arsc
