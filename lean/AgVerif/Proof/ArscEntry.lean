/-
C28 deepening, step 2: whole entries.  The 16 header bytes of a complex entry compose with its map
items; one statement for the three entry kinds of Spec.Arsc.  Core Lean only.

Proof hygiene: `simp`/`unfold` must never see `le32 (enc32 x ++ …)` feeding a structural recursion on
the decoded number (`whnf` would evaluate `d * 16777216` in unary).  The decoders are therefore
unfolded only against abstract hypotheses (`…_of` lemmas), and `enc16/enc32` are locally irreducible.
-/
import AgVerif.Proof.ArscRead
namespace AgVerif.Arsc
open AgVerif.Gen.ArscConsts AgVerif.Spec.Arsc

attribute [local irreducible] enc16 enc32

theorem decodeComplexL_of {flags index parent count : Nat} {l r3 r4 r' : List Nat}
    {its : List (Nat × ResValue)}
    (h1 : le32 l = some (parent, r3)) (h2 : le32 r3 = some (count, r4))
    (h3 : mapItemsL count r4 = some (its, r')) :
    decodeComplexL flags index l = some (⟨flags, index, .complex parent its⟩, r') := by
  simp only [decodeComplexL, h1, h2, h3]

theorem decodeEntryL_of {size flags index : Nat} {l r0 r1 r2 : List Nat}
    (h0 : le16 l = some (size, r0)) (h1 : le16 r0 = some (flags, r1))
    (h2 : le32 r1 = some (index, r2)) :
    decodeEntryL l = decodeBodyL size flags index r2 := by
  simp only [decodeEntryL, h0, h1, h2]

theorem decodeEntryL_hdr (size flags index : Nat) (r : List Nat)
    (hs : size < 65536) (hf : flags < 65536) (hk : index < 4294967296) :
    decodeEntryL (enc16 size ++ enc16 flags ++ enc32 index ++ r) = decodeBodyL size flags index r := by
  rw [List.append_assoc, List.append_assoc]
  exact decodeEntryL_of (le16_enc _ _ hs) (le16_enc _ _ hf) (le32_enc _ _ hk)

theorem decodeEntryL_complex (flags key parent : Nat) (items : List (Nat × (Nat × Nat))) (rest : List Nat)
    (hf : flags < 65536) (hc : flags &&& flagComplex ≠ 0)
    (hkey : key < 4294967296) (hp : parent < 4294967296) (hn : items.length < 4294967296)
    (hi : ∀ it ∈ items, it.1 < 4294967296 ∧ it.2.1 < 256 ∧ it.2.2 < 4294967296) :
    decodeEntryL (encComplex flags key parent items ++ rest)
      = some (⟨flags, key, .complex parent items⟩, rest) := by
  have e : encComplex flags key parent items ++ rest
      = enc16 16 ++ enc16 flags ++ enc32 key ++ (enc32 parent ++ (enc32 items.length ++ (encMap items ++ rest))) := by
    simp only [encComplex, List.append_assoc]
  rw [e, decodeEntryL_hdr 16 flags key _ (by omega) hf hkey]
  unfold decodeBodyL
  rw [if_pos hc]
  exact decodeComplexL_of (le32_enc _ _ hp) (le32_enc _ _ hn) (mapItemsL_enc items rest hi)

end AgVerif.Arsc
