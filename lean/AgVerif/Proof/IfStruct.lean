/-
C22 (part 6) — `control_flow.if_struct`: the follow node chosen for a conditional, the `follow['if']`
attributes and the returned set do not depend on the enumeration order of the set `unresolved` nor on the
order of the dict `idoms`, as long as the numbers of the candidate follow nodes are pairwise different
(true of `compute_rpo` numbers, C19 `rpo_perm`).
-/
import AgVerif.Model.IfStruct
import Mathlib.Data.List.Nodup
import Mathlib.Data.List.Perm.Basic
namespace AgVerif.IfStruct
open List

/-! ### `max(l, key=num)` -/

theorem maxFirst_none (num : Nat → Nat) : ∀ (l : List Nat), maxFirst num l = none ↔ l = [] := by
  intro l
  cases l with
  | nil => simp [maxFirst]
  | cons a l =>
    simp only [maxFirst]
    cases maxFirst num l with
    | none => simp
    | some b => by_cases h : num a < num b <;> simp [h]

theorem maxFirst_spec (num : Nat → Nat) : ∀ (l : List Nat) (m : Nat), maxFirst num l = some m →
    m ∈ l ∧ ∀ x ∈ l, num x ≤ num m := by
  intro l
  induction l with
  | nil => intro m h; simp [maxFirst] at h
  | cons a l ih =>
    intro m h
    simp only [maxFirst] at h
    cases hb : maxFirst num l with
    | none =>
      rw [hb] at h
      simp at h
      subst h
      have : l = [] := (maxFirst_none num l).mp hb
      subst this
      simp
    | some b =>
      rw [hb] at h
      obtain ⟨hb1, hb2⟩ := ih b hb
      by_cases hlt : num a < num b
      · simp [hlt] at h
        subst h
        refine ⟨mem_cons_of_mem _ hb1, fun x hx => ?_⟩
        rcases mem_cons.mp hx with e | hx'
        · subst e; omega
        · exact hb2 x hx'
      · simp [hlt] at h
        subst h
        refine ⟨mem_cons_self, fun x hx => ?_⟩
        rcases mem_cons.mp hx with e | hx'
        · subst e; exact Nat.le_refl _
        · have := hb2 x hx'; omega

/-- with pairwise different keys `max` does not depend on the order of the list -/
theorem maxFirst_perm (num : Nat → Nat) {l₁ l₂ : List Nat} (h : l₁ ~ l₂)
    (hinj : ∀ a ∈ l₁, ∀ b ∈ l₁, num a = num b → a = b) : maxFirst num l₁ = maxFirst num l₂ := by
  cases h1 : maxFirst num l₁ with
  | none =>
    have : l₁ = [] := (maxFirst_none num l₁).mp h1
    subst this
    have : l₂ = [] := h.symm.eq_nil
    subst this
    rfl
  | some m₁ =>
    cases h2 : maxFirst num l₂ with
    | none =>
      have : l₂ = [] := (maxFirst_none num l₂).mp h2
      subst this
      have : l₁ = [] := h.eq_nil
      subst this
      simp [maxFirst] at h1
    | some m₂ =>
      obtain ⟨a1, a2⟩ := maxFirst_spec num l₁ m₁ h1
      obtain ⟨b1, b2⟩ := maxFirst_spec num l₂ m₂ h2
      have b1' : m₂ ∈ l₁ := h.mem_iff.mpr b1
      have := a2 m₂ b1'
      have := b2 m₁ (h.mem_iff.mp a1)
      rw [hinj m₁ a1 m₂ b1' (by omega)]

theorem ldominates_perm {i₁ i₂ : List (Nat × Nat)} (h : i₁ ~ i₂) (nrev : Nat → Nat) (node : Nat) :
    ldominates i₁ nrev node ~ ldominates i₂ nrev node :=
  (h.filter _).map _

/-! ### the loop over the set `unresolved` -/

/-- the result of the loop, stated without an enumeration -/
def resolveC (num : Nat → Nat) (node n : Nat) (s : St) : St :=
  { follow := fun y => if y ∈ s.unresolved ∧ (num node < num y ∧ num y < num n) then some n else s.follow y
    unresolved := s.unresolved.filter (fun y => !(decide (num node < num y) && decide (num y < num n))) }

theorem resolve_aux (num : Nat → Nat) (node n : Nat) : ∀ (enum : List Nat) (s : St), s.unresolved.Nodup →
    (resolve num node n s enum).unresolved =
      s.unresolved.filter (fun y => !(decide (y ∈ enum) && (decide (num node < num y) && decide (num y < num n)))) ∧
    (resolve num node n s enum).follow =
      fun y => if y ∈ enum ∧ (num node < num y ∧ num y < num n) then some n else s.follow y := by
  intro enum
  induction enum with
  | nil => intro s _; simp [resolve]
  | cons x e ih =>
    intro s hN
    simp only [resolve, foldl_cons]
    by_cases hP : (decide (num node < num x) && decide (num x < num n)) = true
    · rw [if_pos hP]
      have hP' : num node < num x ∧ num x < num n := by simpa using hP
      obtain ⟨i1, i2⟩ := ih ⟨fun y => if y = x then some n else s.follow y, s.unresolved.erase x⟩ (hN.erase x)
      unfold resolve at i1 i2
      constructor
      · rw [i1]
        simp only [hN.erase_eq_filter, filter_filter]
        apply filter_congr
        intro y _
        by_cases hy : y = x
        · subst hy; simp [hP'.1, hP'.2]
        · simp [hy]
      · rw [i2]
        funext y
        by_cases hy : y = x
        · subst hy; simp [hP'.1, hP'.2]
        · simp [hy]
    · rw [if_neg hP]
      have hP' : ¬ (num node < num x ∧ num x < num n) := by simpa using hP
      obtain ⟨i1, i2⟩ := ih s hN
      unfold resolve at i1 i2
      constructor
      · rw [i1]
        apply filter_congr
        intro y _
        by_cases hy : y = x
        · subst hy
          have : (decide (num node < num y) && decide (num y < num n)) = false := by simpa using hP
          simp [this]
        · simp [hy]
      · rw [i2]
        funext y
        by_cases hy : y = x
        · subst hy; simp [hP']
        · simp [hy]

theorem St.ext' {a b : St} (h1 : a.follow = b.follow) (h2 : a.unresolved = b.unresolved) : a = b := by
  cases a; cases b; simp_all

/-- any enumeration of the set gives the same state -/
theorem resolve_eq (num : Nat → Nat) (node n : Nat) (s : St) (hN : s.unresolved.Nodup) (enum : List Nat)
    (he : enum ~ s.unresolved) : resolve num node n s enum = resolveC num node n s := by
  obtain ⟨i1, i2⟩ := resolve_aux num node n enum s hN
  apply St.ext'
  · rw [i2]
    funext y
    simp only [resolveC, he.mem_iff]
  · rw [i1]
    simp only [resolveC]
    apply filter_congr
    intro y hy
    simp [he.mem_iff.mpr hy]

/-! ### the whole function -/

/-- `step` with the enumeration-free loop -/
def stepC (isCond : Nat → Bool) (idoms : List (Nat × Nat)) (nrev num : Nat → Nat) (s : St) (node : Nat) : St :=
  if isCond node then
    match maxFirst num (ldominates idoms nrev node) with
    | some n => resolveC num node n { s with follow := fun y => if y = node then some n else s.follow y }
    | none => { s with unresolved := if s.unresolved.contains node then s.unresolved else s.unresolved ++ [node] }
  else s

theorem step_eq (ord : List Nat → List Nat) (hord : ∀ l, ord l ~ l) (isCond : Nat → Bool)
    (idoms : List (Nat × Nat)) (nrev num : Nat → Nat) (s : St) (hN : s.unresolved.Nodup) (node : Nat) :
    step ord isCond idoms nrev num s node = stepC isCond idoms nrev num s node := by
  unfold step stepC
  by_cases hc : isCond node = true
  · rw [if_pos hc, if_pos hc]
    cases hm : maxFirst num (ldominates idoms nrev node) with
    | none => rfl
    | some n =>
      dsimp only
      exact resolve_eq num node n ⟨fun y => if y = node then some n else s.follow y, s.unresolved⟩ hN _ (hord _)
  · rw [if_neg hc, if_neg hc]

theorem stepC_nodup (isCond : Nat → Bool) (idoms : List (Nat × Nat)) (nrev num : Nat → Nat) (s : St)
    (hN : s.unresolved.Nodup) (node : Nat) : (stepC isCond idoms nrev num s node).unresolved.Nodup := by
  unfold stepC
  split
  · split
    · exact hN.filter _
    · show (if s.unresolved.contains node then s.unresolved else s.unresolved ++ [node]).Nodup
      split
      · exact hN
      · next hc =>
        have : node ∉ s.unresolved := by simpa using hc
        exact nodup_append.mpr ⟨hN, by simp, by
          intro a ha b hb hab
          simp at hb
          exact this (hb ▸ hab ▸ ha)⟩
  · exact hN

theorem fold_eq (ord : List Nat → List Nat) (hord : ∀ l, ord l ~ l) (isCond : Nat → Bool)
    (idoms : List (Nat × Nat)) (nrev num : Nat → Nat) : ∀ (post : List Nat) (s : St), s.unresolved.Nodup →
    post.foldl (step ord isCond idoms nrev num) s = post.foldl (stepC isCond idoms nrev num) s := by
  intro post
  induction post with
  | nil => intro s _; rfl
  | cons a l ih =>
    intro s hN
    simp only [foldl_cons]
    rw [step_eq ord hord isCond idoms nrev num s hN a]
    exact ih _ (stepC_nodup isCond idoms nrev num s hN a)

theorem stepC_idoms {i₁ i₂ : List (Nat × Nat)} (hi : i₁ ~ i₂) (isCond : Nat → Bool) (nrev num : Nat → Nat)
    (hinj : ∀ a ∈ i₁.map Prod.fst, ∀ b ∈ i₁.map Prod.fst, num a = num b → a = b) (s : St) (node : Nat) :
    stepC isCond i₁ nrev num s node = stepC isCond i₂ nrev num s node := by
  unfold stepC
  rw [maxFirst_perm num (ldominates_perm hi nrev node) (fun a ha b hb => hinj a
    (mem_map.mpr (by obtain ⟨p, hp, e⟩ := mem_map.mp ha; exact ⟨p, (mem_filter.mp hp).1, e⟩)) b
    (mem_map.mpr (by obtain ⟨p, hp, e⟩ := mem_map.mp hb; exact ⟨p, (mem_filter.mp hp).1, e⟩)))]

/-- `if_struct` does not depend on how the set `unresolved` is enumerated, nor on the order of the dict
    `idoms`, when the numbers of the nodes of `idoms` are pairwise different -/
theorem ifStruct_order_irrelevant (ord₁ ord₂ : List Nat → List Nat) (h₁ : ∀ l, ord₁ l ~ l) (h₂ : ∀ l, ord₂ l ~ l)
    {i₁ i₂ : List (Nat × Nat)} (hi : i₁ ~ i₂) (post : List Nat) (isCond : Nat → Bool) (nrev num : Nat → Nat)
    (hinj : ∀ a ∈ i₁.map Prod.fst, ∀ b ∈ i₁.map Prod.fst, num a = num b → a = b) :
    ifStruct ord₁ post isCond i₁ nrev num = ifStruct ord₂ post isCond i₂ nrev num := by
  unfold ifStruct
  rw [fold_eq ord₁ h₁ isCond i₁ nrev num post _ (by simp), fold_eq ord₂ h₂ isCond i₂ nrev num post _ (by simp)]
  congr 1
  funext s node
  exact stepC_idoms hi isCond nrev num hinj s node

end AgVerif.IfStruct
