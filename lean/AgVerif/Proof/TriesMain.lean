/-
Lemmas for C08, part 3: a code_item written after the specification is parsed into the
objects of the plan, and determineException reports its tries.
-/
import AgVerif.Proof.Tries
import AgVerif.Proof.TriesExc
namespace AgVerif.Tries
open AgVerif.Leb AgVerif.Spec.Leb AgVerif.Spec.Tries

/-! ### EncodesAll -/

theorem encodesAll_length (p : Plan) : ∀ (ets : List EncTry) (ts : List TrySpec),
    EncodesAll p ets ts → ets.length = ts.length
  | [], [], _ => rfl
  | _ :: ets, _ :: ts, h => by simp [encodesAll_length p ets ts h.2]
  | [], _ :: _, h => by simp [EncodesAll] at h
  | _ :: _, [], h => by simp [EncodesAll] at h

theorem encodesAll_mem (p : Plan) : ∀ (ets : List EncTry) (ts : List TrySpec),
    EncodesAll p ets ts → ∀ et ∈ ets, ∃ t, EncodesTry p et t
  | [], _, _ => by simp
  | et :: ets, t :: ts, h => by
    intro x hx
    simp only [List.mem_cons] at hx
    rcases hx with rfl | hx
    · exact ⟨t, h.1⟩
    · exact encodesAll_mem p ets ts h.2 x hx
  | _ :: _, [], h => by simp [EncodesAll] at h

theorem encodesAll_map (p : Plan) {β} (G : TryItem → β) (E : TrySpec → β)
    (hG : ∀ et t, EncodesTry p et t → G (itemOf et) = E t) : ∀ (ets : List EncTry) (ts : List TrySpec),
    EncodesAll p ets ts → (ets.map itemOf).map G = ts.map E
  | [], [], _ => rfl
  | et :: ets, t :: ts, h => by
    simp only [List.map_cons, hG et t h.1, encodesAll_map p G E hG ets ts h.2]
  | [], _ :: _, h => by simp [EncodesAll] at h
  | _ :: _, [], h => by simp [EncodesAll] at h

theorem encodes_tries_bounds (p : Plan) (ts : List TrySpec) (he : Encodes p ts) :
    ∀ t ∈ p.tries, t.start < 2 ^ 32 ∧ t.count < 2 ^ 16 ∧ t.hoff < 2 ^ 16 := by
  intro et het
  obtain ⟨t, h⟩ := encodesAll_mem p p.tries ts he.2.2.2.2.2 et het
  obtain ⟨h1, h2, h3, h4, h5, _⟩ := h
  exact ⟨by omega, by omega, h5⟩

theorem encodes_ntries (p : Plan) (ts : List TrySpec) (he : Encodes p ts) :
    0 < p.tries.length ∧ p.tries.length < 2 ^ 16 := by
  have hl := encodesAll_length p p.tries ts he.2.2.2.2.2
  have : 0 < ts.length := List.length_pos_iff.mpr he.2.2.2.1
  have := he.2.2.2.2.1
  omega

/-! ### the tail of DalvikCode.__init__ on a written exception table -/

theorem paddingBytes_length (h : Hdr) (units n : Nat) :
    (paddingBytes h units n).length = if units % 2 = 1 ∧ n ≠ 0 then 2 else 0 := by
  unfold paddingBytes; split <;> simp [le16]

theorem parseCodeTail_enc (h : Hdr) (hp : h.padding < 2 ^ 16) (units : Nat) (p : Plan)
    (ts : List TrySpec) (he : Encodes p ts) (rest : List Nat) (pos : Nat) :
    parseCodeTail p.tries.length units (paddingBytes h units p.tries.length ++ p.bytes ++ rest) pos
      = .ok ⟨if units % 2 = 1 then some h.padding else none,
             p.tries.map itemOf,
             pos + (paddingBytes h units p.tries.length).length + 8 * p.tries.length,
             p.handlers.length,
             handlersFrom (pos + (paddingBytes h units p.tries.length).length + 8 * p.tries.length
                            + p.listSize.bytes.length) p.handlers,
             pos + (paddingBytes h units p.tries.length).length + p.bytes.length⟩ := by
  obtain ⟨hn, _⟩ := encodes_ntries p ts he
  have hn0 : p.tries.length ≠ 0 := by omega
  have hb := encodes_tries_bounds p ts he
  obtain ⟨hls, hlv, hhw, _⟩ := he
  have hflat : (p.tries.flatMap EncTry.bytes).length = 8 * p.tries.length := by
    generalize p.tries = l
    induction l with
    | nil => rfl
    | cons t l ih => simp [EncTry.bytes, le32, le16, ih]; omega
  have key : ∀ (pad : Option Nat) (pos1 : Nat),
      (match parseTryItems p.tries.length (p.bytes ++ rest) with
        | .error e => Except.error e
        | .ok (ts, bs2) =>
          match readUleb bs2 with
          | none => Except.error Err.structError
          | some (hsz, k) =>
            match parseHandlers hsz (bs2.drop k) (pos1 + 8 * p.tries.length + k) with
            | .error e => Except.error e
            | .ok (hs, _, q) => Except.ok (⟨pad, ts, pos1 + 8 * p.tries.length, hsz, hs, q⟩ : Tail))
      = .ok ⟨pad, p.tries.map itemOf, pos1 + 8 * p.tries.length, p.handlers.length,
             handlersFrom (pos1 + 8 * p.tries.length + p.listSize.bytes.length) p.handlers,
             pos1 + p.bytes.length⟩ := by
    intro pad pos1
    simp only [Plan.bytes, List.append_assoc]
    rw [parseTryItems_enc p.tries _ hb]
    simp only
    rw [UNum.read p.listSize hls]
    simp only [List.drop_left]
    rw [hlv, parseHandlers_enc p.handlers hhw]
    simp only [List.length_append, hflat]
    congr 2
    omega
  unfold parseCodeTail
  by_cases hodd : units % 2 = 1
  · have hc : units % 2 = 1 ∧ p.tries.length > 0 := ⟨hodd, hn⟩
    have hc' : units % 2 = 1 ∧ p.tries.length ≠ 0 := ⟨hodd, hn0⟩
    have hpb : paddingBytes h units p.tries.length = [h.padding % 256, h.padding / 256 % 256] := by
      unfold paddingBytes; rw [if_pos hc']; rfl
    rw [hpb, if_pos hc, if_pos hodd]
    simp only [List.cons_append, List.nil_append, List.length_cons, List.length_nil, if_pos hn]
    have := key (some (u16 (h.padding % 256) (h.padding / 256 % 256))) (pos + 2)
    rw [u16_le16 _ hp] at this
    rw [u16_le16 _ hp]
    exact this
  · have hc : ¬ (units % 2 = 1 ∧ p.tries.length > 0) := fun h => hodd h.1
    have hc' : ¬ (units % 2 = 1 ∧ p.tries.length ≠ 0) := fun h => hodd h.1
    have hpb : paddingBytes h units p.tries.length = [] := by
      unfold paddingBytes; rw [if_neg hc']
    rw [hpb, if_neg hc, if_neg hodd]
    simp only [List.nil_append, List.length_nil, if_pos hn, Nat.add_zero]
    exact key none pos

/-! ### one try, read back -/

theorem rangeOf_enc (getType : Nat → String) (p : Plan) (hw : ∀ h ∈ p.handlers, h.WF)
    (ho : Nat) (et : EncTry) (t : TrySpec) (he : EncodesTry p et t) :
    rangeOf getType ((⟨et.start, et.count, et.hoff⟩ : TryItem),
        (handlersFrom (ho + p.listSize.bytes.length) p.handlers).filter
          (fun h => h.off = et.hoff + ho))
      = .ok (expected getType t) := by
  obtain ⟨hs, hc, _, _, _, hoff, h, hh, hty, hca⟩ := he
  have hoff' : (offsetsFrom (ho + p.listSize.bytes.length) p.handlers)[et.sel]? = some (et.hoff + ho) := by
    rw [offsetsFrom_shift]
    simp only [Plan.offsets] at hoff
    simp only [List.getElem?_map, hoff, Option.map_some]
    congr 1; omega
  have hf := filter_off p.handlers hw _ et.sel _ h hoff' hh
  rw [hf]
  have hwf := hw h (List.mem_of_getElem? hh)
  obtain ⟨_, _, hcw⟩ := hwf
  have hmap : (pairVals h.pairs).map (fun q => (getType q.1, q.2 * 2))
      = t.typed.map (fun q => (getType q.1, 2 * q.2)) := by
    rw [hty]
    simp only [pairVals, EncHandler.typed, List.map_map]
    apply List.map_congr_left
    intro q _
    simp [Function.comp, Nat.mul_comm]
  cases hcc : h.catchAll with
  | none =>
    rw [hcc] at hcw
    simp only at hcw
    have hpos : ¬ h.size.val ≤ 0 := by
      have : 0 < h.pairs.length := List.length_pos_iff.mpr hcw.1
      omega
    have hcat : t.catchAll = none := by rw [hca]; simp [EncHandler.catchAllVal, hcc]
    simp only [rangeOf, handlerOf, hpos, if_false, expected, hcat, List.append_nil, hmap, hs, hc, Nat.mul_comm]
  | some c =>
    rw [hcc] at hcw
    simp only at hcw
    have hneg : h.size.val ≤ 0 := by rw [hcw.2]; omega
    have hcat : t.catchAll = some c.val := by rw [hca]; simp [EncHandler.catchAllVal, hcc]
    simp only [rangeOf, handlerOf, hneg, if_true, hcc, Option.map_some, expected, hcat, hmap, hs, hc,
      AgVerif.Tries.throwable, AgVerif.Gen.TriesConsts.throwable, AgVerif.Spec.Tries.throwable, Nat.mul_comm]

/-- the core of C08: a parsed code object that carries the objects of a well-formed plan
    reports a permutation of the expected ranges -/
theorem roundtrip_core (getType : Nat → String) (c : Code) (p : Plan) (ts : List TrySpec)
    (he : Encodes p ts) (h1 : c.triesSize = p.tries.length) (h2 : c.tries = p.tries.map itemOf)
    (h3 : c.handlers = handlersFrom (c.handlersOff + p.listSize.bytes.length) p.handlers) :
    ∃ out, determineException getType c = .ok out ∧ out.Perm (ts.map (expected getType)) := by
  obtain ⟨hn, _⟩ := encodes_ntries p ts he
  obtain ⟨order, hperm, heq⟩ := determineException_eq getType c (by omega)
  let f : TryItem → Entry := fun t => (t, c.handlers.filter (fun h => h.off = t.handlerOff + c.handlersOff))
  let G : TryItem → Range := fun t =>
    match rangeOf getType (f t) with
    | .ok r => r
    | .error _ => (0, 0, [])
  have hw := he.2.2.1
  have hall := he.2.2.2.2.2
  have hpt : ∀ et t, EncodesTry p et t → rangeOf getType (f (itemOf et)) = .ok (expected getType t) := by
    intro et t h
    have := rangeOf_enc getType p hw c.handlersOff et t h
    simp only [f, h3]
    exact this
  have hG : ∀ et t, EncodesTry p et t → G (itemOf et) = expected getType t := by
    intro et t h
    simp only [G, hpt et t h]
  have hok : ∀ t ∈ order, rangeOf getType (f t) = .ok (G t) := by
    intro t ht
    have ht' : t ∈ p.tries.map itemOf := by rw [← h2]; exact hperm.mem_iff.mp ht
    simp only [List.mem_map] at ht'
    obtain ⟨et, het, rfl⟩ := ht'
    obtain ⟨ts', hts'⟩ := encodesAll_mem p p.tries ts hall et het
    rw [hpt et ts' hts', hG et ts' hts']
  refine ⟨order.map G, ?_, ?_⟩
  · rw [heq]
    have := mapE_ok (rangeOf getType) (fun e : Entry => G e.1) (order.map f) (by
      intro a ha
      simp only [List.mem_map] at ha
      obtain ⟨t, ht, rfl⟩ := ha
      exact hok t ht)
    simp only [List.map_map] at this
    exact this
  · have := hperm.map G
    rw [h2, encodesAll_map p G (expected getType) hG p.tries ts hall] at this
    exact this

end AgVerif.Tries

namespace AgVerif.Tries
open AgVerif.Leb AgVerif.Spec.Leb AgVerif.Spec.Tries

/-! ### the whole constructor on a written code_item -/

theorem codeItem_length (h : Hdr) (units : Nat) (insns : List Nat) (p : Plan) :
    (codeItem h units insns p).length =
      16 + insns.length + (paddingBytes h units p.tries.length).length + p.bytes.length := by
  simp only [codeItem, le16, le32, List.length_append, List.length_cons, List.length_nil]

/-- the DalvikCode object for a written code item -/
def codeOf (h : Hdr) (units : Nat) (insns : List Nat) (p : Plan) : Code :=
  ⟨h.registers, h.ins, h.outs, p.tries.length, h.debugOff, units, insns,
   if units % 2 = 1 then some h.padding else none,
   p.tries.map itemOf,
   16 + insns.length + (paddingBytes h units p.tries.length).length + 8 * p.tries.length,
   p.handlers.length,
   handlersFrom (16 + insns.length + (paddingBytes h units p.tries.length).length
                  + 8 * p.tries.length + p.listSize.bytes.length) p.handlers,
   (codeItem h units insns p).length⟩

theorem parseCode_enc (h : Hdr) (hw : h.WF) (units : Nat) (hu : units < 2 ^ 32) (insns : List Nat)
    (hi : insns.length = units * 2) (p : Plan) (ts : List TrySpec) (he : Encodes p ts)
    (rest : List Nat) :
    parseCode (codeItem h units insns p ++ rest) = .ok (codeOf h units insns p) := by
  unfold codeOf
  obtain ⟨h1, h2, h3, h4, h5⟩ := hw
  obtain ⟨_, hn⟩ := encodes_ntries p ts he
  rw [codeItem_length]
  simp only [codeItem, le16, le32, List.cons_append, List.nil_append, List.append_assoc, parseCode]
  rw [u16_le16 _ h1, u16_le16 _ h2, u16_le16 _ h3, u16_le16 _ hn, u32_le32 _ h4, u32_le32 _ hu]
  rw [List.take_left' hi, List.drop_left' hi]
  have := parseCodeTail_enc h h5 units p ts he rest (16 + insns.length)
  simp only [List.append_assoc] at this
  rw [this]

end AgVerif.Tries
