/-
C21 `print_parse`: the parser of Model/JExpr.lean returns, on the lexemes the Writer prints for a
well-formed IR expression, the Java tree that expression stands for.
-/
import AgVerif.Model.JExpr
namespace AgVerif.JExpr

/-! ## one-step unfoldings of the parser -/

theorem parseExpr_succ (f p ts) : parseExpr (f+1) p ts =
    match parseUnary f ts with
    | some (l, r) => climb f p l r
    | none => none := by rw [parseExpr]; rfl

theorem climb_bin (f p l o r) : climb (f+1) p l (.bin o :: r) =
    if p ≤ o.prec then
        match parseExpr f (o.prec + 1) r with
        | some (rhs, r') => climb f p (.bin o l rhs) r'
        | none => none
      else some (l, .bin o :: r) := by rw [climb]; rfl

theorem suffixes_dot (f e s r) : suffixes (f+1) e (.dot :: .id s :: r) = suffixes f (.select e s) r := by
  rw [suffixes]

theorem suffixes_lb (f e r) : suffixes (f+1) e (.lb :: r) =
    match parseExpr f 0 r with
    | some (i, .rb :: r') => suffixes f (.index e i) r'
    | _ => none := by rw [suffixes]; rfl

theorem suffixes_lp_select (f e s r) : suffixes (f+1) (.select e s) (.lp :: r) =
    match parseArgs f r with
    | some (as, r') => suffixes f (.call (.select e s) as) r'
    | none => none := by rw [suffixes]; rfl

theorem parseUnary_id (f s r) : parseUnary (f+1) (.id s :: r) = suffixes f (.name s) r := by
  rw [parseUnary]
theorem parseUnary_int (f n r) : parseUnary (f+1) (.int n :: r) = suffixes f (.intLit n) r := by
  rw [parseUnary]
theorem parseUnary_long (f n r) : parseUnary (f+1) (.long n :: r) = suffixes f (.longLit n) r := by
  rw [parseUnary]
theorem parseUnary_null (f r) : parseUnary (f+1) (.kwNull :: r) = suffixes f .null r := by
  rw [parseUnary]
theorem parseUnary_this (f r) : parseUnary (f+1) (.kwThis :: r) = suffixes f .this r := by
  rw [parseUnary]
theorem parseUnary_new (f r) : parseUnary (f+1) (.kwNew :: r) = parseNew f r := by
  rw [parseUnary]
theorem parseUnary_minus (f r) : parseUnary (f+1) (.bin .sub :: r) =
    (parseUnary f r).map fun (e, r') => (.unary .neg e, r') := by rw [parseUnary]
theorem parseUnary_tilde (f r) : parseUnary (f+1) (.tilde :: r) =
    (parseUnary f r).map fun (e, r') => (.unary .compl e, r') := by rw [parseUnary]
theorem parseUnary_bang (f r) : parseUnary (f+1) (.bang :: r) =
    (parseUnary f r).map fun (e, r') => (.unary .not e, r') := by rw [parseUnary]

theorem parseUnary_lp (f r) : parseUnary (f+1) (.lp :: r) =
    match primCast r with
    | some (t, r1) => (parseUnary f r1).map fun (e, r') => (.cast (.prim t) e, r')
    | none =>
      match parseExpr f 0 r with
      | some (e, .rp :: r') => afterParen f e r'
      | _ => none := by rw [parseUnary]; rfl

theorem afterParen_succ (f e r) : afterParen (f+1) e r =
    match asQName e with
    | some q =>
      if starts r then (parseUnary f r).map fun (a, r') => (.cast (.ref q) a, r')
      else suffixes f (.paren e) r
    | none => suffixes f (.paren e) r := by rw [afterParen]; rfl

theorem parseArgs_rp (f r) : parseArgs (f+1) (.rp :: r) = some ([], r) := by rw [parseArgs]
theorem parseArgsTail_rp (f r) : parseArgsTail (f+1) (.rp :: r) = some ([], r) := by rw [parseArgsTail]
theorem parseArgsTail_comma (f r) : parseArgsTail (f+1) (.comma :: r) =
    match parseExpr f 0 r with
    | some (a, r') => (parseArgsTail f r').map fun (as, r'') => (a :: as, r'')
    | none => none := by rw [parseArgsTail]; rfl

/-! ## what may follow an expression -/

/-- the next token closes a bracket / argument, or is a binary operator binding no tighter than `q` -/
def okAfter (q : Nat) : List Tok → Prop
  | [] => True
  | .rp :: _ | .rb :: _ | .comma :: _ => True
  | .bin o :: _ => o.prec ≤ q
  | _ => False

theorem starts_of_ok {q r} (h : okAfter q r) : starts r = false := by
  cases r with
  | nil => rfl
  | cons t r => cases t <;> simp_all [okAfter, starts]

theorem okAfter_mono {q q' : Nat} (h : q ≤ q') : ∀ {r}, okAfter q r → okAfter q' r
  | [], _ => trivial
  | t :: r, h' => by
    cases t <;> simp_all [okAfter]
    omega

theorem suffixes_stop (f e r) (h : okAfter 15 r) : suffixes (f+1) e r = some (e, r) := by
  cases r with
  | nil => simp [suffixes]
  | cons t r' => cases t <;> simp_all [suffixes, okAfter]

theorem climb_stop (f p l r) (h : okAfter 15 r) (hp : ∀ o r', r = .bin o :: r' → o.prec < p) :
    climb (f+1) p l r = some (l, r) := by
  cases r with
  | nil => simp [climb]
  | cons t r' =>
    cases t
    case bin o =>
      rw [climb_bin]
      have := hp o r' rfl
      simp; omega
    all_goals simp [climb]

theorem okAfter_bin {q o r} (h : okAfter q (.bin o :: r)) : o.prec ≤ q := h

theorem prec_le (o : BinOp) : o.prec ≤ 12 := by cases o <;> simp [BinOp.prec]

theorem level_le (e : DExpr) : level e ≤ 15 := by
  cases e <;> simp only [level] <;> try split
  all_goals first | omega | (have := prec_le ‹BinOp›; omega)

/-! ## the statements proved by induction on the IR expression -/

/-- number of lexemes -/
abbrev L (e : DExpr) : Nat := (print e).length

/-- a primary: whatever the suffix loop makes of the tree and the rest is what `parseUnary` returns -/
def PP (e : DExpr) : Prop := ∀ rest n R, (∀ f, n ≤ f → suffixes f (toJava e) rest = some R) →
  ∀ f, n + 8 * L e ≤ f → parseUnary f (print e ++ rest) = some R

def UU (e : DExpr) : Prop := ∀ rest, okAfter 15 rest →
  ∀ f, 8 * L e + 1 ≤ f → parseUnary f (print e ++ rest) = some (toJava e, rest)

def CC (e : DExpr) : Prop := ∀ p rest n R, p ≤ level e → okAfter (level e) rest →
  (∀ f, n ≤ f → climb f p (toJava e) rest = some R) →
  ∀ f, n + 8 * L e + 2 ≤ f → parseExpr f p (print e ++ rest) = some R

def EE (e : DExpr) : Prop := ∀ p rest, p ≤ level e → okAfter (level e) rest →
  (∀ o r', rest = .bin o :: r' → o.prec < p) →
  ∀ f, 8 * L e + 3 ≤ f → parseExpr f p (print e ++ rest) = some (toJava e, rest)

structure Good (e : DExpr) : Prop where
  pp : 15 ≤ level e → PP e
  uu : 13 ≤ level e → UU e
  cc : CC e

theorem UU_of_PP {e} (h : PP e) : UU e := fun rest hok f hf =>
  h rest 1 _ (fun f' hf' => by
    obtain ⟨g, rfl⟩ : ∃ g, f' = g + 1 := ⟨f' - 1, by omega⟩
    exact suffixes_stop g _ _ hok) f (by omega)

theorem CC_of_UU {e} (h : UU e) : CC e := fun p rest n R _ hok hc f hf => by
  obtain ⟨g, rfl⟩ : ∃ g, f = g + 1 := ⟨f - 1, by omega⟩
  rw [parseExpr_succ, h rest (okAfter_mono (level_le e) hok) g (by omega)]
  exact hc g (by omega)

theorem EE_of_CC {e} (h : CC e) : EE e := fun p rest hp hok hstop f hf =>
  h p rest 1 _ hp hok (fun f' hf' => by
    obtain ⟨g, rfl⟩ : ∃ g, f' = g + 1 := ⟨f' - 1, by omega⟩
    exact climb_stop g p _ rest (okAfter_mono (level_le e) hok) hstop) f (by omega)

theorem Good.of_pp {e} (h : PP e) : Good e :=
  ⟨fun _ => h, fun _ => UU_of_PP h, CC_of_UU (UU_of_PP h)⟩

theorem Good.of_uu {e} (hl : level e < 15) (h : UU e) : Good e :=
  ⟨fun h' => absurd h' (by omega), fun _ => h, CC_of_UU h⟩

theorem Good.of_cc {e} (hl : level e < 13) (h : CC e) : Good e :=
  ⟨fun h' => absurd h' (by omega), fun h' => absurd h' (by omega), h⟩

theorem Good.ee {e} (h : Good e) : EE e := EE_of_CC h.cc

/-! ## leaves -/

theorem pp_leaf {e : DExpr} {t : Tok} {j : JExpr} (hp : print e = [t]) (hj : toJava e = j)
    (hu : ∀ f r, parseUnary (f+1) (t :: r) = suffixes f j r) : PP e := fun rest n R hs f hf => by
  have hL : L e = 1 := by simp [L, hp]
  obtain ⟨g, rfl⟩ : ∃ g, f = g + 1 := ⟨f - 1, by omega⟩
  rw [hp, List.singleton_append, hu]
  rw [hj] at hs
  exact hs g (by omega)

theorem good_var (n) : Good (.var n) := .of_pp (pp_leaf rfl rfl (fun _ _ => parseUnary_id ..))
theorem good_param (n) : Good (.param n) := .of_pp (pp_leaf rfl rfl (fun _ _ => parseUnary_id ..))
theorem good_this : Good .this := .of_pp (pp_leaf rfl rfl (fun _ _ => parseUnary_this ..))

theorem good_const (v : Int) (long : Bool) : Good (.const v long) := by
  by_cases hv : v < 0
  · refine .of_uu (by simp [level, hv]) (fun rest hok f hf => ?_)
    have hL : L (.const v long) = 2 := by simp [L, print, constToks, hv]
    obtain ⟨g, rfl⟩ : ∃ g, f = g + 3 := ⟨f - 3, by omega⟩
    cases long <;>
      simp [print, constToks, hv, toJava, constJava, parseUnary_minus, parseUnary_int, parseUnary_long] <;>
      rw [suffixes_stop _ _ _ hok] <;> rfl
  · refine .of_pp ?_
    cases long
    · exact pp_leaf (t := .int v.natAbs) (by simp [print, constToks, hv]) (by simp [toJava, constJava, hv])
        (fun _ _ => parseUnary_int ..)
    · exact pp_leaf (t := .long v.natAbs) (by simp [print, constToks, hv]) (by simp [toJava, constJava, hv])
        (fun _ _ => parseUnary_long ..)

/-! ## bare binary expressions `a op b` -/

/-- the right operand as the parser reads it after the operator -/
def RightOK (o : BinOp) (tb : List Tok) (jb : JExpr) (Lb : Nat) : Prop :=
  ∀ rest, okAfter o.prec rest → ∀ f, 8 * Lb + 3 ≤ f → parseExpr f (o.prec + 1) (tb ++ rest) = some (jb, rest)

theorem rightOK_of_good {o b} (h : Good b) (hl : o.prec < level b) : RightOK o (print b) (toJava b) (L b) :=
  fun rest hok f hf => h.ee (o.prec + 1) rest (by omega) (okAfter_mono (by omega) hok)
    (fun o' r' hr => by subst hr; have := okAfter_bin hok; omega) f hf

theorem rightOK_leaf {o t j} (hu : ∀ f r, parseUnary (f+1) (t :: r) = suffixes f j r) : RightOK o [t] j 1 :=
  fun rest hok f hf => by
    obtain ⟨g, rfl⟩ : ∃ g, f = g + 3 := ⟨f - 3, by omega⟩
    have h15 : okAfter 15 rest := okAfter_mono (by have := prec_le o; omega) hok
    rw [parseExpr_succ, List.singleton_append, hu, suffixes_stop _ _ _ h15]
    exact climb_stop _ _ _ _ h15 (fun o' r' hr => by subst hr; have := okAfter_bin hok; omega)

theorem bare_bin {o : BinOp} {a : DExpr} {tb : List Tok} {jb : JExpr} {Lb : Nat}
    (ha : CC a) (hla : o.prec ≤ level a) (hb : RightOK o tb jb Lb) :
    ∀ p rest n R, p ≤ o.prec → okAfter o.prec rest →
      (∀ f, n ≤ f → climb f p (.bin o (toJava a) jb) rest = some R) →
      ∀ f, n + 8 * (L a + 1 + Lb) + 2 ≤ f → parseExpr f p (print a ++ [.bin o] ++ tb ++ rest) = some R := by
  intro p rest n R hp hok hc f hf
  have e1 : print a ++ [.bin o] ++ tb ++ rest = print a ++ (.bin o :: (tb ++ rest)) := by simp
  rw [e1]
  refine ha p (.bin o :: (tb ++ rest)) (n + 8 * Lb + 4) R (by omega) (show o.prec ≤ level a from hla) (fun f' hf' => ?_) f (by omega)
  obtain ⟨g, rfl⟩ : ∃ g, f' = g + 1 := ⟨f' - 1, by omega⟩
  rw [climb_bin, if_pos hp, hb rest hok g (by omega)]
  exact hc g (by omega)

/-! ## parenthesised forms -/

theorem paren_form {inner : List Tok} {j : JExpr} {Li : Nat}
    (hpc : ∀ r, primCast (inner ++ r) = none) (hq : asQName j = none)
    (hin : ∀ rest f, 8 * Li + 4 ≤ f → parseExpr f 0 (inner ++ .rp :: rest) = some (j, .rp :: rest)) :
    ∀ rest n R, (∀ f, n ≤ f → suffixes f (.paren j) rest = some R) →
      ∀ f, n + 8 * (Li + 2) ≤ f → parseUnary f (.lp :: inner ++ .rp :: rest) = some R := by
  intro rest n R hs f hf
  obtain ⟨g, rfl⟩ : ∃ g, f = g + 2 := ⟨f - 2, by omega⟩
  rw [List.cons_append, parseUnary_lp, hpc, hin rest (g + 1) (by omega)]
  show afterParen (g + 1) j rest = some R
  rw [afterParen_succ, hq]
  exact hs g (by omega)

theorem primCast_print : ∀ (e : DExpr) (r : List Tok), primCast (print e ++ r) = none
  | .const v long, r => by
    by_cases hv : v < 0 <;> cases long <;> simp [print, constToks, hv, primCast]
  | .var _, _ | .param _, _ | .this, _ | .baseClass _ _, _ | .bin _ _ _, _ | .cast _ _, _ | .checkCast _ _ _, _
  | .cmp true _ _, _ | .getStatic _ _ _, _ | .newArray _ _, _ | .newObj _ _ _, _ | .scc _ _ _, _ => by
    simp [print, primCast, qnToks]
  | .un o _, _ => by cases o <;> simp [print, primCast]
  | .cond _ a _, r | .condzCmp _ a _, r | .cmp false a _, r | .condzNum _ a, r | .condzRef _ a, r
  | .getField a _, r | .aload a _, r | .alength a, r | .invoke a _ _, r => by
    simp only [print, List.append_assoc]; exact primCast_print a _
  | .condzBool o a, r => by
    by_cases ho : o = .eq
    · simp [print, ho, primCast]
    · simp only [print, ho, if_false]; exact primCast_print a _

theorem okAfter_rp (q r) : okAfter q (.rp :: r) := trivial

theorem climb_rp (f p l r) : climb (f+1) p l (.rp :: r) = some (l, .rp :: r) :=
  climb_stop f p l _ trivial (fun _ _ h => by cases h)

theorem good_bin {o a b} (ga : Good a) (gb : Good b) (hla : o.prec ≤ level a) (hlb : o.prec < level b) :
    Good (.bin o a b) := by
  refine .of_pp (fun rest n R hs f hf => ?_)
  have e1 : print (.bin o a b) ++ rest = .lp :: (print a ++ [.bin o] ++ print b) ++ .rp :: rest := by
    simp [print]
  have e2 : L (.bin o a b) = (L a + 1 + L b) + 2 := by simp [L, print]; omega
  have e3 : toJava (.bin o a b) = .paren (.bin o (toJava a) (toJava b)) := by simp [toJava]
  rw [e1]; rw [e3] at hs; rw [e2] at hf
  refine paren_form (Li := L a + 1 + L b) (fun r => ?_) rfl (fun rest' f' hf' => ?_) rest n R hs f hf
  · simp only [List.append_assoc]; exact primCast_print a _
  · exact bare_bin ga.cc hla (rightOK_of_good gb hlb) 0 (.rp :: rest') 1 _ (Nat.zero_le _) trivial
      (fun g hg => by
        obtain ⟨g', rfl⟩ : ∃ g', g = g' + 1 := ⟨g - 1, by omega⟩
        exact climb_rp ..) f' (by omega)

/-- `op a` inside parentheses or at the top, for a prefix operator token -/
theorem unary_inner {a : DExpr} {t : Tok} {u : UnOp} (ga : Good a) (hl : 13 ≤ level a)
    (hu : ∀ f r, parseUnary (f+1) (t :: r) = (parseUnary f r).map fun (e, r') => (.unary u e, r')) :
    ∀ rest, okAfter 15 rest → ∀ f, 8 * (L a + 1) + 1 ≤ f →
      parseUnary f (t :: print a ++ rest) = some (.unary u (toJava a), rest) := by
  intro rest hok f hf
  obtain ⟨g, rfl⟩ : ∃ g, f = g + 1 := ⟨f - 1, by omega⟩
  rw [List.cons_append, hu, ga.uu hl rest hok g (by omega)]
  rfl

theorem good_un {o a} (ga : Good a) (hl : 13 ≤ level a) : Good (.un o a) := by
  refine .of_pp (fun rest n R hs f hf => ?_)
  cases o
  · have e1 : print (.un .neg a) ++ rest = .lp :: (.bin .sub :: print a) ++ .rp :: rest := by simp [print]
    have e2 : L (.un .neg a) = (L a + 1) + 2 := by simp [L, print]
    have e3 : toJava (.un .neg a) = .paren (.unary .neg (toJava a)) := by simp [toJava]
    rw [e1]; rw [e3] at hs; rw [e2] at hf
    refine paren_form (Li := L a + 1) (fun r => by simp [primCast]) rfl (fun rest' f' hf' => ?_) rest n R hs f hf
    obtain ⟨g, rfl⟩ : ∃ g, f' = g + 1 := ⟨f' - 1, by omega⟩
    rw [parseExpr_succ, unary_inner ga hl (fun _ _ => parseUnary_minus ..) (.rp :: rest') trivial g (by omega)]
    obtain ⟨g', rfl⟩ : ∃ g', g = g' + 1 := ⟨g - 1, by omega⟩
    exact climb_rp ..
  · have e1 : print (.un .not a) ++ rest = .lp :: (.tilde :: print a) ++ .rp :: rest := by simp [print]
    have e2 : L (.un .not a) = (L a + 1) + 2 := by simp [L, print]
    have e3 : toJava (.un .not a) = .paren (.unary .compl (toJava a)) := by simp [toJava]
    rw [e1]; rw [e3] at hs; rw [e2] at hf
    refine paren_form (Li := L a + 1) (fun r => by simp [primCast]) rfl (fun rest' f' hf' => ?_) rest n R hs f hf
    obtain ⟨g, rfl⟩ : ∃ g, f' = g + 1 := ⟨f' - 1, by omega⟩
    rw [parseExpr_succ, unary_inner ga hl (fun _ _ => parseUnary_tilde ..) (.rp :: rest') trivial g (by omega)]
    obtain ⟨g', rfl⟩ : ∃ g', g = g' + 1 := ⟨g - 1, by omega⟩
    exact climb_rp ..

theorem good_cast {t a} (ga : Good a) (hl : 13 ≤ level a) : Good (.cast t a) := by
  refine .of_pp (fun rest n R hs f hf => ?_)
  have e1 : print (.cast t a) ++ rest = .lp :: (.lp :: .prim t :: .rp :: print a) ++ .rp :: rest := by simp [print]
  have e2 : L (.cast t a) = (L a + 3) + 2 := by simp [L, print]
  have e3 : toJava (.cast t a) = .paren (.cast (.prim t) (toJava a)) := by simp [toJava]
  rw [e1]; rw [e3] at hs; rw [e2] at hf
  refine paren_form (Li := L a + 3) (fun r => by simp [primCast]) rfl (fun rest' f' hf' => ?_) rest n R hs f hf
  obtain ⟨g, rfl⟩ : ∃ g, f' = g + 2 := ⟨f' - 2, by omega⟩
  have e4 : (.lp :: .prim t :: .rp :: print a) ++ .rp :: rest' = .lp :: .prim t :: .rp :: (print a ++ .rp :: rest') := by simp
  rw [parseExpr_succ, e4, parseUnary_lp]
  simp only [primCast]
  rw [ga.uu hl (.rp :: rest') trivial g (by omega)]
  exact climb_rp ..

theorem good_cond {o a b} (ga : Good a) (gb : Good b) (hla : o.prec ≤ level a) (hlb : o.prec < level b) :
    Good (.cond o a b) := by
  refine .of_cc (by have := prec_le o; simp [level]; omega) (fun p rest n R hp hok hc f hf => ?_)
  have e1 : print (.cond o a b) ++ rest = print a ++ [.bin o] ++ print b ++ rest := by simp [print]
  have e2 : L (.cond o a b) = L a + 1 + L b := by simp [L, print]; omega
  have e3 : toJava (.cond o a b) = .bin o (toJava a) (toJava b) := by simp [toJava]
  rw [e1]; rw [e3] at hc; rw [e2] at hf
  exact bare_bin ga.cc hla (rightOK_of_good gb hlb) p rest n R hp hok hc f hf

theorem good_condzCmp {o a b} (ga : Good a) (gb : Good b) (hla : o.prec ≤ level a) (hlb : o.prec < level b) :
    Good (.condzCmp o a b) := by
  refine .of_cc (by have := prec_le o; simp [level]; omega) (fun p rest n R hp hok hc f hf => ?_)
  have e1 : print (.condzCmp o a b) ++ rest = print a ++ [.bin o] ++ print b ++ rest := by simp [print]
  have e2 : L (.condzCmp o a b) = L a + 1 + L b := by simp [L, print]; omega
  have e3 : toJava (.condzCmp o a b) = .bin o (toJava a) (toJava b) := by simp [toJava]
  rw [e1]; rw [e3] at hc; rw [e2] at hf
  exact bare_bin ga.cc hla (rightOK_of_good gb hlb) p rest n R hp hok hc f hf

theorem good_condzNum {o a} (ga : Good a) (hla : o.prec ≤ level a) : Good (.condzNum o a) := by
  refine .of_cc (by have := prec_le o; simp [level]; omega) (fun p rest n R hp hok hc f hf => ?_)
  have e1 : print (.condzNum o a) ++ rest = print a ++ [.bin o] ++ [.int 0] ++ rest := by simp [print]
  have e2 : L (.condzNum o a) = L a + 1 + 1 := by simp [L, print]
  have e3 : toJava (.condzNum o a) = .bin o (toJava a) (.intLit 0) := by simp [toJava]
  rw [e1]; rw [e3] at hc; rw [e2] at hf
  exact bare_bin ga.cc hla (rightOK_leaf (fun _ _ => parseUnary_int ..)) p rest n R hp hok hc f hf

theorem good_condzRef {o a} (ga : Good a) (hla : o.prec ≤ level a) : Good (.condzRef o a) := by
  refine .of_cc (by have := prec_le o; simp [level]; omega) (fun p rest n R hp hok hc f hf => ?_)
  have e1 : print (.condzRef o a) ++ rest = print a ++ [.bin o] ++ [.kwNull] ++ rest := by simp [print]
  have e2 : L (.condzRef o a) = L a + 1 + 1 := by simp [L, print]
  have e3 : toJava (.condzRef o a) = .bin o (toJava a) .null := by simp [toJava]
  rw [e1]; rw [e3] at hc; rw [e2] at hf
  exact bare_bin ga.cc hla (rightOK_leaf (fun _ _ => parseUnary_null ..)) p rest n R hp hok hc f hf

theorem good_condzBool {o a} (ga : Good a) (hl : (if o = .eq then 13 else 15) ≤ level a) :
    Good (.condzBool o a) := by
  by_cases ho : o = .eq
  · subst ho
    refine .of_uu (by simp [level]) (fun rest hok f hf => ?_)
    have e1 : print (.condzBool .eq a) ++ rest = .bang :: print a ++ rest := by simp [print]
    have e2 : L (.condzBool .eq a) = L a + 1 := by simp [L, print]
    have e3 : toJava (.condzBool .eq a) = .unary .not (toJava a) := by simp [toJava]
    rw [e1, e3]; rw [e2] at hf
    exact unary_inner ga (by simpa using hl) (fun _ _ => parseUnary_bang ..) rest hok f hf
  · have hl' : 15 ≤ level a := by simpa [ho] using hl
    have e1 : print (.condzBool o a) = print a := by simp [print, ho]
    have e3 : toJava (.condzBool o a) = toJava a := by simp [toJava, ho]
    refine .of_pp (fun rest n R hs f hf => ?_)
    rw [e1]; rw [e3] at hs
    exact ga.pp hl' rest n R hs f (by simpa [L, e1] using hf)

/-! ## suffixes: field access, array length, array access -/

theorem pp_select {a : DExpr} {s : String} (ga : Good a) (hl : 15 ≤ level a) :
    ∀ rest n R, (∀ f, n ≤ f → suffixes f (.select (toJava a) s) rest = some R) →
      ∀ f, n + 8 * (L a + 2) ≤ f → parseUnary f (print a ++ [.dot, .id s] ++ rest) = some R := by
  intro rest n R hs f hf
  have e1 : print a ++ [.dot, .id s] ++ rest = print a ++ (.dot :: .id s :: rest) := by simp
  rw [e1]
  refine ga.pp hl _ (n + 1) R (fun f' hf' => ?_) f (by omega)
  obtain ⟨g, rfl⟩ : ∃ g, f' = g + 1 := ⟨f' - 1, by omega⟩
  rw [suffixes_dot]
  exact hs g (by omega)

theorem good_getField {a s} (ga : Good a) (hl : 15 ≤ level a) : Good (.getField a s) := by
  refine .of_pp (fun rest n R hs f hf => ?_)
  have e2 : L (.getField a s) = L a + 2 := by simp [L, print]
  have e3 : toJava (.getField a s) = .select (toJava a) s := by simp [toJava]
  rw [e3] at hs; rw [e2] at hf
  simpa [print] using pp_select ga hl rest n R hs f hf

theorem good_alength {a} (ga : Good a) (hl : 15 ≤ level a) : Good (.alength a) := by
  refine .of_pp (fun rest n R hs f hf => ?_)
  have e2 : L (.alength a) = L a + 2 := by simp [L, print]
  have e3 : toJava (.alength a) = .select (toJava a) "length" := by simp [toJava]
  rw [e3] at hs; rw [e2] at hf
  simpa [print] using pp_select ga hl rest n R hs f hf

theorem okAfter_rb (q r) : okAfter q (.rb :: r) := trivial

theorem good_aload {a i} (ga : Good a) (gi : Good i) (hl : 15 ≤ level a) : Good (.aload a i) := by
  refine .of_pp (fun rest n R hs f hf => ?_)
  have e1 : print (.aload a i) ++ rest = print a ++ (.lb :: (print i ++ .rb :: rest)) := by simp [print]
  have e2 : L (.aload a i) = L a + L i + 2 := by simp [L, print]; omega
  have e3 : toJava (.aload a i) = .index (toJava a) (toJava i) := by simp [toJava]
  rw [e1]; rw [e3] at hs; rw [e2] at hf
  refine ga.pp hl _ (n + 8 * L i + 4) R (fun f' hf' => ?_) f (by omega)
  obtain ⟨g, rfl⟩ : ∃ g, f' = g + 1 := ⟨f' - 1, by omega⟩
  rw [suffixes_lb, gi.ee 0 (.rb :: rest) (Nat.zero_le _) trivial (fun _ _ h => by cases h) g (by omega)]
  exact hs g (by omega)

/-! ## qualified names -/

theorem suffixes_qtail : ∀ (t : List String) (acc : JExpr) (r : List Tok) (n : Nat) (R),
    (∀ f, n ≤ f → suffixes f (t.foldl .select acc) r = some R) →
    ∀ f, n + t.length ≤ f → suffixes f acc (t.flatMap (fun s => [Tok.dot, .id s]) ++ r) = some R
  | [], acc, r, n, R, hs, f, hf => by simpa using hs f (by simpa using hf)
  | s :: t, acc, r, n, R, hs, f, hf => by
    obtain ⟨g, rfl⟩ : ∃ g, f = g + 1 := ⟨f - 1, by simp at hf; omega⟩
    simp only [List.flatMap_cons, List.cons_append, List.nil_append]
    rw [suffixes_dot]
    exact suffixes_qtail t (.select acc s) r n R (by simpa using hs) g (by simp at hf; omega)

theorem qnToks_length (h t) : (qnToks h t).length = 1 + 2 * t.length := by
  simp only [qnToks, List.length_cons]
  induction t with
  | nil => simp
  | cons s t ih => simp [List.flatMap_cons] at ih ⊢; omega

theorem pp_qn (h : String) (t : List String) : ∀ rest n R, (∀ f, n ≤ f → suffixes f (qnExpr h t) rest = some R) →
    ∀ f, n + 8 * (qnToks h t).length ≤ f → parseUnary f (qnToks h t ++ rest) = some R := by
  intro rest n R hs f hf
  rw [qnToks_length] at hf
  obtain ⟨g, rfl⟩ : ∃ g, f = g + 1 := ⟨f - 1, by omega⟩
  simp only [qnToks, List.cons_append]
  rw [parseUnary_id]
  exact suffixes_qtail t (.name h) rest n R hs g (by omega)

theorem good_baseClass (h t) : Good (.baseClass h t) :=
  .of_pp (fun rest n R hs f hf => by
    have e1 : print (.baseClass h t) = qnToks h t := by simp [print]
    have e3 : toJava (.baseClass h t) = qnExpr h t := by simp [toJava]
    rw [e1]; rw [e3] at hs; simp only [L, e1] at hf
    exact pp_qn h t rest n R hs f hf)

theorem good_getStatic (h t s) : Good (.getStatic h t s) :=
  .of_pp (fun rest n R hs f hf => by
    have e1 : print (.getStatic h t s) = qnToks h (t ++ [s]) := by simp [print, qnToks]
    have e3 : toJava (.getStatic h t s) = qnExpr h (t ++ [s]) := by simp [toJava, qnExpr]
    rw [e1]; rw [e3] at hs; simp only [L, e1] at hf
    exact pp_qn h (t ++ [s]) rest n R hs f hf)

theorem asQName_foldl : ∀ (t : List String) (acc : JExpr) (q : List String), asQName acc = some q →
    asQName (t.foldl .select acc) = some (q ++ t)
  | [], _, _, h => by simpa using h
  | s :: t, acc, q, h => by
    have := asQName_foldl t (.select acc s) (q ++ [s]) (by simp [asQName, h])
    simpa using this

theorem asQName_qnExpr (h t) : asQName (qnExpr h t) = some (h :: t) := by
  simpa [qnExpr] using asQName_foldl t (.name h) [h] rfl

/-! ## the first lexeme of a primary or array creation can start a cast operand -/

theorem starts_print : ∀ (e : DExpr), wf e = true → 14 ≤ level e → ∀ r, starts (print e ++ r) = true
  | .const v long, _, hl, r => by
    by_cases hv : v < 0
    · simp [level, hv] at hl
    · cases long <;> simp [print, constToks, hv, starts]
  | .var _, _, _, _ | .param _, _, _, _ | .this, _, _, _ | .baseClass _ _, _, _, _ | .bin _ _ _, _, _, _
  | .cast _ _, _, _, _ | .checkCast _ _ _, _, _, _ | .cmp true _ _, _, _, _ | .getStatic _ _ _, _, _, _
  | .newArray _ _, _, _, _ | .newObj _ _ _, _, _, _ => by simp [print, starts, qnToks]
  | .un o _, _, _, _ => by cases o <;> simp [print, starts]
  | .cmp false _ _, hw, _, _ => by simp [wf] at hw
  | .scc i _ _, _, hl, _ => by cases i <;> simp [level] at hl
  | .cond o _ _, _, hl, _ | .condzCmp o _ _, _, hl, _ | .condzNum o _, _, hl, _ | .condzRef o _, _, hl, _ => by
    have := prec_le o; simp [level] at hl; omega
  | .condzBool o a, hw, hl, r => by
    by_cases ho : o = .eq
    · simp [level, ho] at hl
    · simp [wf, ho] at hw
      simp only [print, ho, if_false]
      exact starts_print a hw.1 (by omega) r
  | .getField a _, hw, _, r | .alength a, hw, _, r => by
    simp [wf] at hw
    simp only [print, List.append_assoc]; exact starts_print a hw.1 (by omega) _
  | .aload a _, hw, _, r => by
    simp [wf] at hw
    simp only [print, List.append_assoc]; exact starts_print a hw.1.1 (by omega) _
  | .invoke a _ _, hw, _, r => by
    simp [wf] at hw
    simp only [print, List.append_assoc]; exact starts_print a hw.1.1 (by omega) _

theorem good_checkCast {h t a} (ga : Good a) (hw : wf a = true) (hl : 14 ≤ level a) : Good (.checkCast h t a) := by
  refine .of_pp (fun rest n R hs f hf => ?_)
  have e1 : print (.checkCast h t a) ++ rest = .lp :: (.lp :: (qnToks h t ++ .rp :: print a)) ++ .rp :: rest := by
    simp [print]
  have e2 : L (.checkCast h t a) = ((qnToks h t).length + L a + 2) + 2 := by simp [L, print]; omega
  have e3 : toJava (.checkCast h t a) = .paren (.cast (.ref (h :: t)) (toJava a)) := by simp [toJava]
  rw [e1]; rw [e3] at hs; rw [e2] at hf
  refine paren_form (Li := (qnToks h t).length + L a + 2) (fun r => by simp [primCast]) rfl
    (fun rest' f' hf' => ?_) rest n R hs f hf
  obtain ⟨g, rfl⟩ : ∃ g, f' = g + 3 := ⟨f' - 3, by omega⟩
  have e4 : (.lp :: (qnToks h t ++ .rp :: print a)) ++ .rp :: rest' =
      .lp :: (qnToks h t ++ .rp :: (print a ++ .rp :: rest')) := by simp
  have hq := (good_baseClass h t).ee 0 (.rp :: (print a ++ .rp :: rest')) (Nat.zero_le _) trivial
    (fun _ _ h => by cases h) (g + 1) (by simp [L, print]; omega)
  simp only [print, toJava] at hq
  rw [parseExpr_succ, e4, parseUnary_lp]
  have hpc : primCast (qnToks h t ++ .rp :: (print a ++ .rp :: rest')) = none := by simp [qnToks, primCast]
  rw [hpc]
  simp only [hq]
  rw [afterParen_succ, asQName_qnExpr]
  simp only [starts_print a hw hl, if_true]
  rw [ga.uu (by omega) (.rp :: rest') trivial g (by omega)]
  exact climb_rp ..

/-! ## argument lists -/

def isRp : List Tok → Bool
  | .rp :: _ => true
  | _ => false

theorem isRp_print : ∀ (e : DExpr) (r : List Tok), isRp (print e ++ r) = false
  | .const v long, r => by
    by_cases hv : v < 0 <;> cases long <;> simp [print, constToks, hv, isRp]
  | .var _, _ | .param _, _ | .this, _ | .baseClass _ _, _ | .bin _ _ _, _ | .cast _ _, _ | .checkCast _ _ _, _
  | .cmp true _ _, _ | .getStatic _ _ _, _ | .newArray _ _, _ | .newObj _ _ _, _ | .scc _ _ _, _ => by
    simp [print, isRp, qnToks]
  | .un o _, _ => by cases o <;> simp [print, isRp]
  | .cond _ a _, r | .condzCmp _ a _, r | .cmp false a _, r | .condzNum _ a, r | .condzRef _ a, r
  | .getField a _, r | .aload a _, r | .alength a, r | .invoke a _ _, r => by
    simp only [print, List.append_assoc]; exact isRp_print a _
  | .condzBool o a, r => by
    by_cases ho : o = .eq
    · simp [print, ho, isRp]
    · simp only [print, ho, if_false]; exact isRp_print a _

theorem parseArgs_ne (f ts) (h : isRp ts = false) : parseArgs (f+1) ts =
    match parseExpr f 0 ts with
    | some (a, r) => (parseArgsTail f r).map fun (as, r') => (a :: as, r')
    | none => none := by
  cases ts with
  | nil => rw [parseArgs]; rfl; intro r h'; cases h'
  | cons t r => cases t <;> first | (simp [isRp] at h; done) | (rw [parseArgs]; rfl; intro r h'; cases h')

theorem okAfter_printTail (q as rest) : okAfter q (printTail as ++ .rp :: rest) := by
  cases as <;> simp [printTail, okAfter]

theorem nobin_printTail (as rest) : ∀ o r', printTail as ++ .rp :: rest = .bin o :: r' → o.prec < 0 := by
  intro o r' h
  cases as <;> simp [printTail] at h

theorem tail_ok : ∀ (as : List DExpr), (∀ a ∈ as, Good a) → ∀ rest f, 8 * (printTail as).length + 4 ≤ f →
    parseArgsTail f (printTail as ++ .rp :: rest) = some (toJavaList as, rest)
  | [], _, rest, f, hf => by
    obtain ⟨g, rfl⟩ : ∃ g, f = g + 1 := ⟨f - 1, by omega⟩
    simp [printTail, toJavaList, parseArgsTail_rp]
  | a :: as, hg, rest, f, hf => by
    have hf' : 8 * (1 + L a + (printTail as).length) + 4 ≤ f := by
      simp only [printTail, List.length_cons, List.length_append] at hf; simp only [L]; omega
    obtain ⟨g, rfl⟩ : ∃ g, f = g + 1 := ⟨f - 1, by omega⟩
    have e1 : printTail (a :: as) ++ .rp :: rest = .comma :: (print a ++ (printTail as ++ .rp :: rest)) := by
      simp [printTail]
    rw [e1, parseArgsTail_comma,
      (hg a (by simp)).ee 0 _ (Nat.zero_le _) (okAfter_printTail _ _ _) (nobin_printTail _ _) g (by omega)]
    simp only []
    rw [tail_ok as (fun x hx => hg x (by simp [hx])) rest g (by omega)]
    simp [toJavaList]

theorem args_ok (as : List DExpr) (hg : ∀ a ∈ as, Good a) (rest f) (hf : 8 * (printArgs as).length + 5 ≤ f) :
    parseArgs f (printArgs as ++ .rp :: rest) = some (toJavaList as, rest) := by
  obtain ⟨g, rfl⟩ : ∃ g, f = g + 1 := ⟨f - 1, by omega⟩
  cases as with
  | nil => simp [printArgs, toJavaList, parseArgs_rp]
  | cons a as =>
    have hf' : 8 * (L a + (printTail as).length) + 5 ≤ g + 1 := by
      simp only [printArgs, List.length_append] at hf; simp only [L]; omega
    have e1 : printArgs (a :: as) ++ .rp :: rest = print a ++ (printTail as ++ .rp :: rest) := by
      simp [printArgs]
    rw [e1, parseArgs_ne _ _ (isRp_print a _),
      (hg a (by simp)).ee 0 _ (Nat.zero_le _) (okAfter_printTail _ _ _) (nobin_printTail _ _) g (by omega)]
    simp only []
    rw [tail_ok as (fun x hx => hg x (by simp [hx])) rest g (by omega)]
    simp [toJavaList]

end AgVerif.JExpr
