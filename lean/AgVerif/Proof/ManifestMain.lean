/- C31: the order used by `get_main_activity` (Python `sorted` on `str`), `minStr`, and the tie-break on any analysis. -/
import AgVerif.Proof.Manifest
set_option linter.unusedSimpArgs false
namespace AgVerif.Proof.Manifest
open AgVerif.Manifest AgVerif.Spec.Manifest AgVerif.Gen.AxmlConsts
open AgVerif.Axml (Str Node Attr lit)

/-! ### `strLt` is the lexicographic order by code point: a strict total order -/

theorem strLt_cons (a b : Nat) (r q : Str) : strLt (a :: r) (b :: q) = true ↔ a < b ∨ (a = b ∧ strLt r q = true) := by
  simp [strLt]

theorem strLt_irrefl (s : Str) : strLt s s = false := by
  induction s with
  | nil => rfl
  | cons a r ih => simp [strLt, ih]

theorem strLt_trans (a b c : Str) (h1 : strLt a b = true) (h2 : strLt b c = true) : strLt a c = true := by
  induction a generalizing b c with
  | nil =>
    cases c with
    | nil => cases b <;> simp [strLt] at h2
    | cons z c' => simp [strLt]
  | cons x a' ih =>
    cases b with
    | nil => simp [strLt] at h1
    | cons y b' =>
      cases c with
      | nil => simp [strLt] at h2
      | cons z c' =>
        rw [strLt_cons] at h1 h2 ⊢
        rcases h1 with h1 | ⟨rfl, h1⟩
        · rcases h2 with h2 | ⟨rfl, _⟩
          · left; omega
          · left; exact h1
        · rcases h2 with h2 | ⟨rfl, h2⟩
          · left; exact h2
          · right; exact ⟨rfl, ih b' c' h1 h2⟩

theorem strLt_total (a b : Str) (h1 : strLt a b = false) (h2 : strLt b a = false) : a = b := by
  induction a generalizing b with
  | nil => cases b with
    | nil => rfl
    | cons y b' => simp [strLt] at h1
  | cons x a' ih =>
    cases b with
    | nil => simp [strLt] at h2
    | cons y b' =>
      have n1 : ¬ (x < y ∨ (x = y ∧ strLt a' b' = true)) := by rw [← strLt_cons]; simp [h1]
      have n2 : ¬ (y < x ∨ (y = x ∧ strLt b' a' = true)) := by rw [← strLt_cons]; simp [h2]
      have hxy : x = y := by omega
      subst hxy
      have e1 : strLt a' b' = false := by
        cases h : strLt a' b' with
        | false => rfl
        | true => exact absurd (Or.inr ⟨rfl, h⟩) n1
      have e2 : strLt b' a' = false := by
        cases h : strLt b' a' with
        | false => rfl
        | true => exact absurd (Or.inr ⟨rfl, h⟩) n2
      rw [ih b' e1 e2]

theorem strLt_asymm (a b : Str) (h : strLt a b = true) : strLt b a = false := by
  cases h' : strLt b a with
  | false => rfl
  | true => have := strLt_trans a b a h h'; rw [strLt_irrefl] at this; exact absurd this (by simp)

/-! ### `minStr` returns the least element -/

theorem minStr_none (l : List Str) : minStr l = none ↔ l = [] := by
  cases l with
  | nil => simp [minStr]
  | cons x r =>
    simp only [minStr]
    split
    · simp
    · split <;> simp

theorem minStr_least (l : List Str) (m : Str) (h : minStr l = some m) : ∀ y ∈ l, strLt y m = false := by
  induction l generalizing m with
  | nil => simp [minStr] at h
  | cons x r ih =>
    simp only [minStr] at h
    split at h
    · rename_i hr
      have : r = [] := (minStr_none r).1 hr
      subst this
      simp only [Option.some.injEq] at h; subst h
      intro y hy; simp only [List.mem_singleton] at hy; subst hy; exact strLt_irrefl _
    · rename_i m' hm
      have ih' := ih m' hm
      split at h
      · rename_i hlt
        simp only [Option.some.injEq] at h; subst h
        intro y hy
        simp only [List.mem_cons] at hy
        rcases hy with rfl | hy
        · exact strLt_asymm _ _ hlt
        · exact ih' y hy
      · rename_i hlt
        simp only [Option.some.injEq] at h; subst h
        have hlt' : strLt m' x = false := by simpa using hlt
        intro y hy
        simp only [List.mem_cons] at hy
        rcases hy with rfl | hy
        · exact strLt_irrefl _
        · cases hyx : strLt y x with
          | false => rfl
          | true =>
            exfalso
            have h1 := ih' y hy
            cases hmy : strLt m' y with
            | true => have := strLt_trans _ _ _ hmy hyx; rw [hlt'] at this; exact absurd this (by simp)
            | false =>
              have := strLt_total y m' h1 hmy
              subst this
              rw [hlt'] at hyx; exact absurd hyx (by simp)

/-! ### the tie-break of `get_main_activity` on any analysis -/

/-- the candidates: the completed main names that are declared activities if there is one, all completed main names otherwise -/
def candidates (all : List Str) (declared : List Str) : List Str :=
  if all.filter (declared.contains ·) = [] then all else all.filter (declared.contains ·)

theorem filter_dedup_nil (l : List Str) (p : Str → Bool) : (dedup l).filter p = [] ↔ l.filter p = [] := by
  simp only [List.filter_eq_nil_iff, mem_dedup]

/-- `get_main_activity` returns the least (code-point order) candidate, whatever the order in which the set of main activities
    is iterated -/
theorem mainActivity_least (a : Analysis) (r : Str) (h : a.mainActivity = some r) :
    r ∈ candidates (a.mainActivities.map (formatValue a.package)) a.activities ∧
    ∀ y ∈ candidates (a.mainActivities.map (formatValue a.package)) a.activities, strLt y r = false := by
  unfold Analysis.mainActivity at h
  cases hxs : a.mainActivities with
  | nil => rw [hxs] at h; simp at h
  | cons x r0 =>
    cases r0 with
    | nil =>
      rw [hxs] at h
      simp only [Option.some.injEq] at h; subst h
      simp only [List.map_cons, List.map_nil, candidates]
      by_cases hc : formatValue a.package x ∈ a.activities <;> simp [List.filter_cons, hc, strLt_irrefl]
    | cons z zs =>
      rw [hxs] at h
      simp only at h
      generalize (x :: z :: zs) = xs at h
      unfold candidates
      split at h
      · rename_i g hg
        simp only [Option.some.injEq] at h; subst h
        have hmem := minStr_mem _ _ hg
        have hne : (xs.map (formatValue a.package)).filter (a.activities.contains ·) ≠ [] := by
          intro e
          have := (filter_dedup_nil _ (a.activities.contains ·)).2 e
          rw [this] at hmem; simp at hmem
        simp only [hne, if_false]
        constructor
        · simp only [List.mem_filter, mem_dedup] at hmem ⊢; exact hmem
        · intro y hy
          exact minStr_least _ _ hg y (by simp only [List.mem_filter, mem_dedup] at hy ⊢; exact hy)
      · rename_i hnone
        have he : (xs.map (formatValue a.package)).filter (a.activities.contains ·) = [] :=
          (filter_dedup_nil _ _).1 ((minStr_none _).1 hnone)
        simp only [he, if_true]
        constructor
        · exact (mem_dedup _ _).1 (minStr_mem _ _ h)
        · intro y hy
          exact minStr_least _ _ h y ((mem_dedup _ _).2 hy)

end AgVerif.Proof.Manifest
