/-
C07, concrete loader: a geometric criterion for `DexPerm.sameItems`.  An entry is `clearOf` the
byte range [a, b) of the map entries when its type has no item parser in the model, or its items
start at or behind `b`, or they decode successfully from bytes below `a`.  Then rewriting the map
list does not change what the item decoders return (`sameItems_of_clear`, from the locality of the
decoders, Proof/DexLocal.lean).
-/
import AgVerif.Proof.DexLocal
import AgVerif.Proof.DexPerm
namespace AgVerif.DexGeom
open AgVerif.DexFile AgVerif.LoadOrder AgVerif.DexFrame AgVerif.DexPerm AgVerif.DexLocal
open AgVerif.C05 (mapEntryBytes)

/-- where MapItem.parse seeks to before it reads the items of `e` -/
def startOf (e : MapEntry) : Nat :=
  if e.type = 0x2002 ∨ e.type = 0x0001 ∨ e.type = 0x2000 then e.offset else seek4 e.offset

/-- the offset behind the last item of `e` (none: an item decoder failed) -/
def itemsEnd (file : Bytes) (e : MapEntry) : Option Nat :=
  if e.type = 0x2002 then seqEndA id decStringData file e.size e.offset
  else if e.type = 0x0001 then seqEndA id decStringId file e.size e.offset
  else if e.type = 0x0002 then seqEndA id decTypeId file e.size (seek4 e.offset)
  else if e.type = 0x1001 then seqEndA id decTypeList file e.size (seek4 e.offset)
  else if e.type = 0x0003 then seqEndA id decProtoId file e.size (seek4 e.offset)
  else if e.type = 0x0004 then seqEndA id decFieldId file e.size (seek4 e.offset)
  else if e.type = 0x0005 then seqEndA id decMethodId file e.size (seek4 e.offset)
  else if e.type = 0x2000 then seqEndA id decClassData file e.size e.offset
  else if e.type = 0x2001 then seqEndA align4 decCode file e.size (seek4 e.offset)
  else if e.type = 0x0006 then seqEndA id decClassDef file e.size (seek4 e.offset)
  else none

/-- the items of `e` are not read from the bytes [a, b) of `file` -/
def clearOf (file : Bytes) (a b : Nat) (e : MapEntry) : Prop :=
  e.type ∉ modelled ∨ b ≤ startOf e ∨
    match itemsEnd file e with
    | some E => E ≤ a
    | none => False

instance (file : Bytes) (a b : Nat) (e : MapEntry) : Decidable (clearOf file a b e) := by
  unfold clearOf
  cases itemsEnd file e <;> infer_instance

theorem seq_same {α} (al : Nat → Nat) (hal : ∀ o, o ≤ al o) (d : Dec α) (hd : Good d) (f g : Bytes)
    (a b : Nat) (hl : g.length = f.length) (hta : g.take a = f.take a)
    (hdb : ∀ o, b ≤ o → g.drop o = f.drop o) (n off : Nat)
    (h : b ≤ off ∨ ∃ E, seqEndA al d f n off = some E ∧ E ≤ a) :
    decSeqA al d g n off = decSeqA al d f n off := by
  rcases h with h | ⟨E, hE, hEa⟩
  · exact decSeqA_after al hal d f g b hdb n off h
  · exact decSeqA_before al hal d hd f g hl E (take_of_take_le hta hEa) n off hE

theorem sameItems_of_clear (f g : Bytes) (a b : Nat) (hl : g.length = f.length) (hta : g.take a = f.take a)
    (hdb : ∀ o, b ≤ o → g.drop o = f.drop o) (e : MapEntry) (hc : clearOf f a b e) : sameItems g f e := by
  have key : ∀ {α} (al : Nat → Nat) (_ : ∀ o, o ≤ al o) (d : Dec α) (_ : Good d) (off : Nat),
      e.type ∈ modelled → startOf e = off → itemsEnd f e = seqEndA al d f e.size off →
      decSeqA al d g e.size off = decSeqA al d f e.size off := by
    intro α al hal d hd off hm hs hi
    apply seq_same al hal d hd f g a b hl hta hdb
    rcases hc with hnm | hafter | hbefore
    · exact absurd hm hnm
    · left; rw [← hs]; exact hafter
    · right
      rw [hi] at hbefore
      cases hE : seqEndA al d f e.size off with
      | none => simp [hE] at hbefore
      | some E => exact ⟨E, rfl, by simpa [hE] using hbefore⟩
  unfold sameItems
  refine ⟨?_, ?_, ?_, ?_, ?_, ?_, ?_, ?_, ?_, ?_⟩ <;> intro ht
  · rw [decSeq_eq, decSeq_eq]
    exact key id (fun _ => Nat.le_refl _) decStringData good_decStringData _ (by simp [modelled, ht]) (by simp [startOf, ht])
      (by simp [itemsEnd, ht])
  · rw [decSeq_eq, decSeq_eq]
    exact key id (fun _ => Nat.le_refl _) decStringId good_decStringId _ (by simp [modelled, ht]) (by simp [startOf, ht])
      (by simp [itemsEnd, ht])
  · rw [decSeq_eq, decSeq_eq]
    exact key id (fun _ => Nat.le_refl _) decTypeId good_decTypeId _ (by simp [modelled, ht]) (by simp [startOf, ht])
      (by simp [itemsEnd, ht])
  · rw [decSeq_eq, decSeq_eq]
    exact key id (fun _ => Nat.le_refl _) decTypeList good_decTypeList _ (by simp [modelled, ht]) (by simp [startOf, ht])
      (by simp [itemsEnd, ht])
  · rw [decSeq_eq, decSeq_eq]
    exact key id (fun _ => Nat.le_refl _) decProtoId good_decProtoId _ (by simp [modelled, ht]) (by simp [startOf, ht])
      (by simp [itemsEnd, ht])
  · rw [decSeq_eq, decSeq_eq]
    exact key id (fun _ => Nat.le_refl _) decFieldId good_decFieldId _ (by simp [modelled, ht]) (by simp [startOf, ht])
      (by simp [itemsEnd, ht])
  · rw [decSeq_eq, decSeq_eq]
    exact key id (fun _ => Nat.le_refl _) decMethodId good_decMethodId _ (by simp [modelled, ht]) (by simp [startOf, ht])
      (by simp [itemsEnd, ht])
  · rw [decSeq_eq, decSeq_eq]
    exact key id (fun _ => Nat.le_refl _) decClassData good_decClassData _ (by simp [modelled, ht]) (by simp [startOf, ht])
      (by simp [itemsEnd, ht])
  · rw [decCodes_eq, decCodes_eq]
    exact key align4 le_align4 decCode good_decCode _ (by simp [modelled, ht]) (by simp [startOf, ht])
      (by simp [itemsEnd, ht])
  · rw [decSeq_eq, decSeq_eq]
    exact key id (fun _ => Nat.le_refl _) decClassDef good_decClassDef _ (by simp [modelled, ht]) (by simp [startOf, ht])
      (by simp [itemsEnd, ht])

/-! ### the geometry of `withMap` -/

theorem u16_len {bs r : Bytes} {v : Nat} (h : u16 bs = some (v, r)) : bs.length = r.length + 2 := by
  match bs, h with
  | _ :: _ :: r', h =>
    simp only [u16, Option.some.injEq, Prod.mk.injEq] at h
    obtain ⟨_, rfl⟩ := h
    simp

theorem u32_len {bs r : Bytes} {v : Nat} (h : u32 bs = some (v, r)) : bs.length = r.length + 4 := by
  match bs, h with
  | _ :: _ :: _ :: _ :: r', h =>
    simp only [u32, Option.some.injEq, Prod.mk.injEq] at h
    obtain ⟨_, rfl⟩ := h
    simp

theorem decMapEntry_len {bs r : Bytes} {x : Except String MapEntry} (h : decMapEntry bs = some (x, r)) :
    bs.length = r.length + 12 := by
  unfold decMapEntry at h
  simp only [bind, Option.bind] at h
  cases h1 : u16 bs with
  | none => simp [h1] at h
  | some p1 =>
    obtain ⟨t, r1⟩ := p1
    cases h2 : u16 r1 with
    | none => simp [h1, h2] at h
    | some p2 =>
      obtain ⟨u, r2⟩ := p2
      cases h3 : u32 r2 with
      | none => simp [h1, h2, h3] at h
      | some p3 =>
        obtain ⟨sz, r3⟩ := p3
        cases h4 : u32 r3 with
        | none => simp [h1, h2, h3, h4] at h
        | some p4 =>
          obtain ⟨off, r4⟩ := p4
          simp only [h1, h2, h3, h4] at h
          have l1 := u16_len h1
          have l2 := u16_len h2
          have l3 := u32_len h3
          have l4 := u32_len h4
          split at h <;> simp only [pure, Option.some.injEq, Prod.mk.injEq] at h <;>
            (obtain ⟨_, rfl⟩ := h; omega)

theorem readMapEntries_len : ∀ (n : Nat) (bs : Bytes) (es : List MapEntry),
    readMapEntries n bs = .ok es → 12 * n ≤ bs.length
  | 0, _, _, _ => by omega
  | n + 1, bs, es, h => by
    unfold readMapEntries at h
    cases hd : decMapEntry bs with
    | none => simp [hd] at h
    | some p =>
      obtain ⟨x, r⟩ := p
      have hl := decMapEntry_len hd
      cases x with
      | error x => simp [hd] at h
      | ok e =>
        simp only [hd] at h
        cases hr : readMapEntries n r with
        | error x => simp [hr] at h
        | ok es0 =>
          have := readMapEntries_len n r es0 hr
          omega

/-- the map list read from `file` fits into the file -/
theorem readMap_fits (file : Bytes) (mapOff : Nat) (es : List MapEntry) (hb : ∀ b ∈ file, b < 256)
    (hm : readMap file mapOff = .ok es) : mapOff + 4 + 12 * es.length ≤ file.length := by
  unfold readMap at hm
  cases hu : u32 (file.drop mapOff) with
  | none => simp [hu] at hm
  | some p =>
    obtain ⟨n, r⟩ := p
    simp only [hu] at hm
    have hbd : ∀ b ∈ file.drop mapOff, b < 256 := fun b h => hb b (List.mem_of_mem_drop h)
    have hlen := (readMapEntries_facts n r es hm (u32_bound hu hbd).2).1
    have h12 := readMapEntries_len n r es hm
    have h4 := u32_len hu
    rw [List.length_drop] at h4
    omega

theorem withMap_geometry (file : Bytes) (mapOff : Nat) (es' : List MapEntry)
    (hfit : mapOff + 4 + 12 * es'.length ≤ file.length) :
    (withMap file mapOff es').length = file.length ∧
    (withMap file mapOff es').take (mapOff + 4) = file.take (mapOff + 4) ∧
    ∀ o, mapOff + 4 + 12 * es'.length ≤ o → (withMap file mapOff es').drop o = file.drop o := by
  have hA : (file.take (mapOff + 4)).length = mapOff + 4 := by rw [List.length_take]; omega
  have hX := flatMap_mapEntryBytes_length es'
  refine ⟨?_, ?_, ?_⟩
  · simp only [withMap, List.length_append, hA, hX, List.length_drop]; omega
  · unfold withMap
    rw [List.append_assoc, List.take_left' hA]
  · intro o ho
    unfold withMap
    have hAX : (file.take (mapOff + 4) ++ es'.flatMap mapEntryBytes).length = mapOff + 4 + 12 * es'.length := by
      rw [List.length_append, hA, hX]
    obtain ⟨j, rfl⟩ : ∃ j, o = (file.take (mapOff + 4) ++ es'.flatMap mapEntryBytes).length + j :=
      ⟨o - (mapOff + 4 + 12 * es'.length), by rw [hAX]; omega⟩
    rw [List.drop_append, List.drop_drop, hAX, List.drop_eq_nil_of_le (by rw [hAX]; omega), List.nil_append]
    congr 1
    omega

/-- `sameItems` from the geometry: no entry of the map reads its items from the map entries -/
theorem sameItems_withMap (file : Bytes) (mapOff : Nat) (es es' : List MapEntry)
    (hb : ∀ b ∈ file, b < 256) (hm : readMap file mapOff = .ok es) (hp : es'.Perm es)
    (hclear : ∀ e ∈ es, clearOf file (mapOff + 4) (mapOff + 4 + 12 * es.length) e) :
    ∀ e ∈ es, sameItems (withMap file mapOff es') file e := by
  have hfit := readMap_fits file mapOff es hb hm
  rw [← hp.length_eq] at hfit
  obtain ⟨hl, hta, hdb⟩ := withMap_geometry file mapOff es' hfit
  intro e he
  have hc := hclear e he
  rw [← hp.length_eq] at hc
  exact sameItems_of_clear file _ _ _ hl hta hdb e hc

end AgVerif.DexGeom
