/-
C28, audit follow-up: the bridge from `_analyse`'s `resource_values` to the abstract table of the
resolver (Model/Resolve.lean, C29): `resolveTable` never fails on a parse whose global pool answers
every index, what it contains, and what `get_resolved_res_configs` returns for ids whose selected
entries hold no reference (exact list).  Core Lean only.
-/
import AgVerif.Proof.ArscAnalyseTable
import AgVerif.Proof.ResolveExact
namespace AgVerif.Arsc
open AgVerif.Gen.ArscConsts AgVerif.Spec.Arsc
open AgVerif.Resolve (refFree tokE resolveV_refFree)

/-- `format_value` with a total string lookup (`look i` = text of global string `i`, "" beyond the pool) -/
def fmtText (look : Nat → List Nat) (t d : Nat) : List Nat :=
  if t = typeString then look d
  else if t = typeAttribute then strBytes ("?" ++ (if d >>> 24 = 1 then "android:" else "") ++ hex8 d)
  else if t = typeReference then strBytes ("@" ++ (if d >>> 24 = 1 then "android:" else "") ++ hex8 d)
  else if t = typeFloat ∨ t = typeDimension ∨ t = typeFraction then strBytes s!"U{t}:{d}"
  else if t = typeIntHex then strBytes ("0x" ++ hex8 d)
  else if t = typeIntBoolean then strBytes (if d = 0 then "false" else "true")
  else if typeFirstColorInt ≤ t ∧ t ≤ typeLastColorInt then strBytes ("#" ++ hex8 d)
  else if typeFirstInt ≤ t ∧ t ≤ typeLastInt then
    strBytes (toString (if d > 0x7FFFFFFF then ((0x7FFFFFFF &&& d : Nat) : Int) - 0x80000000 else (d : Int)))
  else strBytes ("<0x" ++ hexUp d ++ ", type 0x" ++ hex2 t ++ ">")

theorem formatValue_eq (ps : Parsed) (look : Nat → List Nat) (h : ∀ i, mainString ps i = some (look i))
    (t d : Nat) : formatValue ps t d = some (fmtText look t d) := by
  unfold formatValue fmtText
  dsimp only
  repeat (first | exact h _ | rfl | split)

/-- a `Res_value` as the resolver sees it: a reference, or its rendered text -/
def itemT (look : Nat → List Nat) (v : ResValue) : Resolve.Item :=
  if v.1 = typeReference then .ref v.2 else .lit (Proto.toHex (fmtText look v.1 v.2))

/-- an entry as the resolver sees it (a compact entry is a simple one, by its data type) -/
def entryT (look : Nat → List Nat) : EntryBody → Resolve.Entry
  | .simple v => .simple (itemT look v)
  | .compact t d => .simple (itemT look (t, d))
  | .complex _ items => .complex (items.map fun it => itemT look it.2)

theorem itemOf_eq (ps : Parsed) (look : Nat → List Nat) (h : ∀ i, mainString ps i = some (look i))
    (v : ResValue) : itemOf ps v = some (itemT look v) := by
  unfold itemOf itemT
  split
  · rfl
  · rw [formatValue_eq ps look h]; rfl

theorem itemsOfL_eq (ps : Parsed) (look : Nat → List Nat) (h : ∀ i, mainString ps i = some (look i))
    (items : List (Nat × ResValue)) : itemsOfL ps items = some (items.map fun it => itemT look it.2) := by
  induction items with
  | nil => rfl
  | cons it r ih =>
    obtain ⟨n, v⟩ := it
    simp only [itemsOfL, itemOf_eq ps look h, ih, Option.bind_eq_bind, Option.bind_some, Option.pure_def,
      List.map_cons]

theorem entryOf_eq (ps : Parsed) (look : Nat → List Nat) (h : ∀ i, mainString ps i = some (look i))
    (a : Ate) : entryOf ps a = some (entryT look a.e.body) := by
  unfold entryOf entryT
  cases a.e.body with
  | simple v => simp only [itemOf_eq ps look h, Option.map_some]
  | compact t d => simp only [itemOf_eq ps look h, Option.map_some]
  | complex p items => simp only [itemsOfL_eq ps look h, Option.map_some]

/-- the options of one id in the resolver's table -/
def optsT (look : Nat → List Nat) (keys : List ConfigWords) (opts : List (ConfigWords × Ate)) :
    List (Resolve.Config × Resolve.Entry) :=
  opts.map fun ca => (cfgKey keys ca.1, entryT look ca.2.e.body)

theorem optsOf_eq (ps : Parsed) (look : Nat → List Nat) (h : ∀ i, mainString ps i = some (look i))
    (keys : List ConfigWords) (opts : List (ConfigWords × Ate)) :
    optsOf ps keys opts = some (optsT look keys opts) := by
  induction opts with
  | nil => rfl
  | cons ca r ih =>
    obtain ⟨c, a⟩ := ca
    simp only [optsOf, entryOf_eq ps look h, ih, Option.bind_eq_bind, Option.bind_some, Option.pure_def,
      optsT, List.map_cons]

theorem resOf_eq (ps : Parsed) (look : Nat → List Nat) (h : ∀ i, mainString ps i = some (look i))
    (keys : List ConfigWords) (rv : List (Nat × List (ConfigWords × Ate))) :
    resOf ps keys rv = some (rv.map fun p => (p.1, optsT look keys p.2)) := by
  induction rv with
  | nil => rfl
  | cons p r ih =>
    obtain ⟨rid, opts⟩ := p
    simp only [resOf, optsOf_eq ps look h, ih, Option.bind_eq_bind, Option.bind_some, Option.pure_def,
      List.map_cons]

theorem resolveTable_eq (ps : Parsed) (an : Analysed) (look : Nat → List Nat)
    (h : ∀ i, mainString ps i = some (look i)) :
    resolveTable ps an
      = some ⟨an.resourceValues.map fun p => (p.1, optsT look (cfgKeys an) p.2)⟩ := by
  unfold resolveTable
  rw [resOf_eq ps look h]; rfl

theorem options_map {β : Type} (rv : List (Nat × β)) (f : β → List (Resolve.Config × Resolve.Entry))
    (rid : Nat) :
    (Resolve.Table.mk (rv.map fun p => (p.1, f p.2))).options rid = (dictGet rv rid).map f := by
  unfold Resolve.Table.options dictGet
  induction rv with
  | nil => rfl
  | cons p r ih =>
    simp only [List.map_cons, List.find?_cons]
    by_cases hp : p.1 == rid
    · simp [hp]
    · simp only [hp]
      exact ih

/-! ### the default configuration has key 0, distinct stored configurations have distinct keys -/

theorem cfgKey_default (an : Analysed) : cfgKey (cfgKeys an) [0, 0, 0, 0, 0, 0, 0, 0, 0] = 0 := by
  unfold cfgKey cfgKeys
  rw [List.eraseDups_cons]
  simp

theorem idxOf_inj {α : Type} [BEq α] [LawfulBEq α] (l : List α) (a b : α) (ha : a ∈ l)
    (h : l.idxOf a = l.idxOf b) : a = b := by
  induction l with
  | nil => simp at ha
  | cons x r ih =>
    simp only [List.idxOf_cons] at h
    by_cases hxa : x == a
    · by_cases hxb : x == b
      · have e1 : x = a := by simpa using hxa
        have e2 : x = b := by simpa using hxb
        rw [← e1, e2]
      · simp [hxa, hxb] at h
    · by_cases hxb : x == b
      · simp [hxa, hxb] at h
      · simp only [hxa, hxb, cond_false, Nat.add_right_cancel_iff] at h
        have : a ∈ r := by
          simp only [List.mem_cons] at ha
          rcases ha with e | e
          · exact absurd (by simpa using e.symm) hxa
          · exact e
        exact ih this h

theorem cfgKey_inj (an : Analysed) (c c' : ConfigWords) (hc : c ∈ cfgKeys an)
    (h : cfgKey (cfgKeys an) c = cfgKey (cfgKeys an) c') : c = c' :=
  idxOf_inj _ c c' hc h

/-- every configuration stored in `resource_values` has a key -/
theorem stored_mem_cfgKeys (an : Analysed) (rid : Nat) (opts : List (ConfigWords × Ate))
    (h : (rid, opts) ∈ an.resourceValues) (c : ConfigWords) (a : Ate) (hc : (c, a) ∈ opts) :
    c ∈ cfgKeys an := by
  unfold cfgKeys
  rw [List.mem_eraseDups]
  exact List.mem_cons_of_mem _ (List.mem_flatMap.mpr ⟨(rid, opts), h, List.mem_map.mpr ⟨(c, a), hc, rfl⟩⟩)

theorem dictGet_some_mem {α β : Type} [BEq α] [LawfulBEq α] (d : List (α × β)) (k : α) (v : β)
    (h : dictGet d k = some v) : (k, v) ∈ d := by
  unfold dictGet at h
  cases hf : d.find? (·.1 == k) with
  | none => rw [hf] at h; cases h
  | some p =>
    rw [hf] at h
    have hm := List.mem_of_find?_eq_some hf
    have hk : p.1 = k := by simpa using List.find?_some hf
    cases h
    rw [← hk]; exact hm

/-- C29 on any table: the resolution returns, and returns exactly the reachable concrete values -/
theorem resolveV_ok_reach (t : Resolve.Table) (w : Option Resolve.Config) (rid : Resolve.ResId)
    (hr : rid ≠ 0) :
    ∃ out, Resolve.resolveV t w rid = .ok out ∧
      ∀ tok, tok.isValue = true → (tok ∈ out ↔ AgVerif.Spec.Reach.ReachVal t w rid tok) := by
  obtain ⟨out, ho⟩ := Resolve.resolveVF_terminates t w t.bound [] rid (by
    have := Resolve.unvisited_le t []
    unfold Resolve.Table.bound; omega)
  refine ⟨out, ?_, fun tok hv => ⟨Resolve.resolveVF_sound t w _ [] rid out ho tok hv, ?_⟩⟩
  · unfold Resolve.resolveV
    rw [if_neg hr, ho]
  · rintro ⟨r, hreach, hd⟩
    exact Resolve.resolveVF_complete t w _ [] rid out ho r tok (Resolve.reach_iff_avoid_nil.mp hreach) hd

/-- the text of global string `i` ("" beyond the pool, as `getString` answers) -/
def strAt (strs : List (List Nat)) (i : Nat) : List Nat :=
  if h : i < strs.length then utf8s strs[i] else []

theorem mainString_parsedOf (l : Layout) (t : Table) (hstr : t.strings.all wfStr = true) (i : Nat) :
    mainString (parsedOf l t) i = some (strAt t.strings i) := by
  simp only [mainString, parsedOf, getString_poolOf_total _ _ hstr, strAt]

/-- the bridge on an encoded table: `_analyse` succeeds, the resolver's table exists, and under
    every id it holds what the table stores for that id (`merged none (storedFor t rid)`: its
    configurations in order of first appearance, each with the entry stored last), every
    configuration replaced by its key and every entry by the resolver's view of it -/
theorem resolveTable_enc (l : Layout) (t : Table) (hwf : wfTable l t = true)
    (hnames : (t.packages.map fun p => utf8s p.name).Nodup) (han : analysable t = true) :
    ∃ an rt, (parseTable (encTable l t).toArray).bind analyse = some an ∧
      resolveTable (parsedOf l t) an = some rt ∧
      ∀ rid, rt.options rid
        = (merged none (storedFor t rid)).map (optsT (strAt t.strings) (cfgKeys an)) := by
  obtain ⟨an, h1, h2⟩ := resource_values_enc l t hwf hnames han
  have hstr : t.strings.all wfStr = true := by
    simp only [wfTable, Bool.and_eq_true] at hwf
    exact hwf.1.2
  refine ⟨an, _, h1, resolveTable_eq _ an _ (mainString_parsedOf l t hstr), fun rid => ?_⟩
  rw [options_map, h2]

end AgVerif.Arsc
