/-
The definition generated from the Python source by gen/py2lean.py (AgVerif.Gen.PyResValue) equals
the hand-written model AgVerif.ResValue.complexToFloat of the C27 theorems.
-/
import AgVerif.Gen.PyResValue
import AgVerif.Model.ResValue
import AgVerif.Proof.PyInt
set_option linter.unusedSimpArgs false
namespace AgVerif.PyResValue
open AgVerif.ResValue AgVerif.Py AgVerif.Gen.ResValues

/-- what the symbolic product `float(mantissa) * RADIX_MULTS[index]` means in the hand model:
    the table generated from the source (exact powers of two, theorem `radix_exact`), the exact
    product, `none` for the `IndexError` of the lookup.  Only non-negative indices are interpreted
    (Python would wrap a negative one; `(x >> 4) & 3` never is). -/
def interp (t : FloatTimesTable) : Option F64 :=
  if t.table = "RADIX_MULTS" ∧ 0 ≤ t.index then
    match radixMults[t.index.toNat]? with
    | none => none
    | some (rn, rd) => some (.fin (decide (t.mantissa < 0)) (t.mantissa.natAbs * rn) rd)
  else none

/-- the integer part of `complexToFloat`, translated from the source, is the model's. -/
theorem gen_complexToFloat_eq (x : Nat) :
    Gen.PyResValue.complexToFloat (x : Int)
      = some ⟨"RADIX_MULTS", signedMantissa x, (((x >>> 4) &&& 3 : Nat) : Int)⟩ := by
  simp only [Gen.PyResValue.complexToFloat, signedMantissa, band_cast_lit, shr_cast, ne_cast_lit]
  by_cases h : (x &&& 4294967040) &&& 2147483648 ≠ 0 <;> simp [-Int.natCast_shiftRight, h]

/-- ... and the hand model is the interpretation of that symbolic product. -/
theorem complexToFloat_interp (x : Nat) :
    ResValue.complexToFloat x = interp ⟨"RADIX_MULTS", signedMantissa x, (((x >>> 4) &&& 3 : Nat) : Int)⟩ := by
  simp [ResValue.complexToFloat, interp]
  rfl

end AgVerif.PyResValue
