/- C31: Python `int()` on the decimal rendering of an integer attribute value gives the integer back. -/
import AgVerif.Spec.ManifestFull
set_option linter.unusedSimpArgs false
namespace AgVerif.Proof.Manifest
open AgVerif.Manifest AgVerif.Spec.Manifest AgVerif.Gen.AxmlConsts
open AgVerif.Axml (Str lit decNat decDigits)

/-- the value of a digit string, continuing from `acc` -/
def valOf (ds : Str) (acc : Nat) : Nat := ds.foldl (fun a c => a * 10 + (c - 0x30)) acc

theorem digitsVal_digits (ds r : Str) (acc : Nat) (p : Bool) (hd : ∀ c ∈ ds, isDigit c = true) (hne : ds ≠ []) :
    digitsVal (ds ++ r) acc p = digitsVal r (valOf ds acc) true := by
  induction ds generalizing acc p with
  | nil => exact absurd rfl hne
  | cons c t ih =>
    have hc := hd c (by simp)
    simp only [List.cons_append, digitsVal, hc, if_true]
    cases t with
    | nil => simp [valOf]
    | cons c' t' =>
      rw [ih _ _ (fun x hx => hd x (by simp [hx])) (by simp)]
      simp [valOf]

theorem valOf_snoc (ds : Str) (c acc : Nat) : valOf (ds ++ [c]) acc = valOf ds acc * 10 + (c - 0x30) := by
  simp [valOf, List.foldl_append]

theorem decDigits_spec (k n : Nat) (h : n < 10 ^ (k + 1)) :
    (∀ c ∈ decDigits (k + 1) n, isDigit c = true) ∧ decDigits (k + 1) n ≠ [] ∧ valOf (decDigits (k + 1) n) 0 = n := by
  induction k generalizing n with
  | zero =>
    have hn : n < 10 := by simpa using h
    unfold decDigits
    simp only [hn, if_true]
    refine ⟨?_, by simp, by simp [valOf]⟩
    intro c hc; simp only [List.mem_singleton] at hc; subst hc
    simp [isDigit]; omega
  | succ k ih =>
    unfold decDigits
    by_cases hn : n < 10
    · simp only [hn, if_true]
      refine ⟨?_, by simp, by simp [valOf]⟩
      intro c hc; simp only [List.mem_singleton] at hc; subst hc
      simp [isDigit]; omega
    · simp only [hn, if_false]
      have hk : n / 10 < 10 ^ (k + 1) := by
        rw [Nat.pow_succ] at h; omega
      obtain ⟨i1, i2, i3⟩ := ih (n / 10) hk
      refine ⟨?_, by simp, ?_⟩
      · intro c hc
        simp only [List.mem_append, List.mem_singleton] at hc
        rcases hc with hc | rfl
        · exact i1 c hc
        · simp [isDigit]; omega
      · rw [valOf_snoc, i3]; omega

theorem dropWhile_head {α : Type} (p : α → Bool) (l : List α) (h : ∀ c, l.head? = some c → p c = false) : l.dropWhile p = l := by
  cases l with
  | nil => rfl
  | cons c r => simp [List.dropWhile_cons, h c rfl]

theorem digit_not_space (c : Nat) (h : isDigit c = true) : intSpace c = false := by
  simp [isDigit] at h; simp [intSpace]; omega

theorem dropWhileEnd_last (s : Str) (h : ∀ c, s.getLast? = some c → intSpace c = false) : dropWhileEnd intSpace s = s := by
  unfold dropWhileEnd
  rw [dropWhile_head intSpace s.reverse (by simpa [List.head?_reverse] using h)]
  simp

/-- `int()` of a non-empty string of ASCII digits -/
theorem pyInt_digits (ds : Str) (hd : ∀ c ∈ ds, isDigit c = true) (hne : ds ≠ []) : pyInt ds = .ok (valOf ds 0 : Nat) := by
  have hany : ds.any (· ≥ 0x80) = false := by
    rw [List.any_eq_false]; intro c hc
    have := hd c hc; simp [isDigit] at this; simp; omega
  have h1 : ds.dropWhile intSpace = ds :=
    dropWhile_head _ _ (fun c hc => digit_not_space c (hd c (List.mem_of_mem_head? hc)))
  have h2 : dropWhileEnd intSpace ds = ds :=
    dropWhileEnd_last _ (fun c hc => digit_not_space c (hd c (List.mem_of_mem_getLast? hc)))
  have hv := digitsVal_digits ds [] 0 false hd hne
  simp only [List.append_nil, digitsVal, if_true] at hv
  unfold pyInt
  simp only [hany, Bool.false_eq_true, if_false, h1, h2]
  cases ds with
  | nil => exact absurd rfl hne
  | cons c r =>
    have hc := hd c (by simp)
    have c1 : c ≠ 0x2D := by simp [isDigit] at hc; omega
    have c2 : c ≠ 0x2B := by simp [isDigit] at hc; omega
    simp [c1, c2, hv]

/-- `int()` of "-" followed by a non-empty string of ASCII digits -/
theorem pyInt_neg_digits (ds : Str) (hd : ∀ c ∈ ds, isDigit c = true) (hne : ds ≠ []) :
    pyInt (0x2D :: ds) = .ok (-(valOf ds 0 : Nat)) := by
  have hany : (0x2D :: ds).any (· ≥ 0x80) = false := by
    rw [List.any_eq_false]; intro c hc
    simp only [List.mem_cons] at hc
    rcases hc with rfl | hc
    · simp
    · have := hd c hc; simp [isDigit] at this; simp; omega
  have h1 : (0x2D :: ds).dropWhile intSpace = 0x2D :: ds := dropWhile_head _ _ (fun c hc => by simp at hc; subst hc; decide)
  have h2 : dropWhileEnd intSpace (0x2D :: ds) = 0x2D :: ds := by
    apply dropWhileEnd_last
    intro c hc
    rw [List.getLast?_cons_of_ne_nil hne] at hc
    exact digit_not_space c (hd c (List.mem_of_mem_getLast? hc))
  have hv := digitsVal_digits ds [] 0 false hd hne
  simp only [List.append_nil, digitsVal, if_true] at hv
  unfold pyInt
  simp only [hany, Bool.false_eq_true, if_false, h1, h2]
  cases ds with
  | nil => exact absurd rfl hne
  | cons c r => simp [hv]

/-- the integer a Res_value of type int_dec stands for (two's complement) -/
def int32 (d : Nat) : Int := if d < 2 ^ 31 then d else (d : Int) - 2 ^ 32

/-- `int()` of the printer's rendering of an integer value is the integer -/
theorem pyInt_render_int (d : Nat) (h : d < 2 ^ 32) : pyInt (Val.int d).render = .ok (int32 d) := by
  unfold Val.render int32
  by_cases hd : d < 2 ^ 31
  · simp only [hd, if_true]
    obtain ⟨a, b, c⟩ := decDigits_spec 63 d (Nat.lt_of_lt_of_le h (by decide))
    rw [decNat, pyInt_digits _ a b, c]
  · simp only [hd, if_false]
    obtain ⟨a, b, c⟩ := decDigits_spec 63 (2 ^ 32 - d) (Nat.lt_of_le_of_lt (Nat.sub_le _ _) (by decide))
    rw [decNat, pyInt_neg_digits _ a b, c]
    have e : -((2 ^ 32 - d : Nat) : Int) = (d : Int) - 2 ^ 32 := by
      have : (2:Nat) ^ 32 = 4294967296 := by decide
      have : (2:Int) ^ 32 = 4294967296 := by decide
      omega
    rw [e]

theorem intOrOne_render_int (d : Nat) (h : d < 2 ^ 32) : intOrOne (Val.int d).render = .ok (int32 d) := by
  simp [intOrOne, pyInt_render_int d h]

theorem intOrNone_render_int (d : Nat) (h : d < 2 ^ 32) : intOrNone (Val.int d).render = some (.ok (int32 d)) := by
  simp [intOrNone, pyInt_render_int d h]

end AgVerif.Proof.Manifest
