/-
C28 deepening, step 3b: `StringBlock.getString` on the pool read back from an encoded pool gives the
UTF-8 text of every string, for UTF-16 and UTF-8 pools (domain: BMP code points without
surrogates, fewer than 0x8000 UTF-16 units and fewer than 0x8000 UTF-8 bytes).  Core Lean only.
-/
import AgVerif.Proof.ArscPool
namespace AgVerif.Arsc
open AgVerif.Gen.ArscConsts AgVerif.Spec.Arsc

theorem decodeLength_wide_short {chars : List Nat} {off a0 a1 b0 b1 : Nat}
    (h0 : lget chars off = some a0) (h1 : lget chars (off + 1) = some a1)
    (h2 : lget chars (off + 2) = some b0) (h3 : lget chars (off + 3) = some b1)
    (hs : (a0 + a1 * 256) &&& 0x8000 = 0) :
    decodeLength chars off true = some (a0 + a1 * 256, 2) := by
  simp [decodeLength, h0, h1, h2, h3, hs]

theorem decodeLength_narrow_short {chars : List Nat} {off l1 l2 : Nat}
    (h0 : lget chars off = some l1) (h1 : lget chars (off + 1) = some l2)
    (hs : l1 &&& 0x80 = 0) :
    decodeLength chars off false = some (l1, 1) := by
  simp [decodeLength, h0, h1, hs]

theorem and_8000_small (x : Nat) (h : x < 0x8000) : x &&& 0x8000 = 0 := by
  apply Nat.eq_of_testBit_eq
  intro i
  simp only [Nat.testBit_and, Nat.zero_testBit]
  by_cases hi : i = 15
  · subst hi
    rw [Nat.testBit_lt_two_pow (by simpa using h)]; rfl
  · have : (0x8000 : Nat).testBit i = false := by
      rw [show (0x8000 : Nat) = 2 ^ 15 from rfl, Nat.testBit_two_pow]; simpa using fun e => hi e.symm
    rw [this, Bool.and_false]

/-- the two-byte length form of a UTF-8 pool: first byte `0x80 + h` (`h < 128`), second byte `l` -/
theorem len8_long_bits (h l : Nat) (hh : h < 128) (hl : l < 256) :
    (0x80 + h) &&& 0x80 ≠ 0 ∧ (((0x80 + h) &&& 0x7F) <<< 8) ||| l = h * 256 + l := by
  have k1 : ∀ y : Fin 128, (0x80 + y.val) &&& 0x80 ≠ 0 ∧ (0x80 + y.val) &&& 0x7F = y.val := by decide +kernel
  obtain ⟨a, b⟩ := k1 ⟨h, hh⟩
  refine ⟨a, ?_⟩
  simp only at b
  rw [b, Nat.or_comm, Bits.or_shl l h 8 (by simpa using hl)]
  omega

theorem decodeLength_narrow_long {chars : List Nat} {off h l : Nat}
    (h0 : lget chars off = some (0x80 + h)) (h1 : lget chars (off + 1) = some l) (hh : h < 128) (hl : l < 256) :
    decodeLength chars off false = some (h * 256 + l, 2) := by
  obtain ⟨a, b⟩ := len8_long_bits h l hh hl
  have hle : h * 256 + l ≤ 0x7FFF := by omega
  simp [decodeLength, h0, h1, a, b, hle]

theorem and_80_small (x : Nat) (h : x < 128) : x &&& 0x80 = 0 := by
  have key : ∀ y : Fin 128, y.val &&& 0x80 = 0 := by decide +kernel
  exact key ⟨x, h⟩

theorem utf8Of_eq (c : Nat) (h : c < 0x10000) : utf8Of c = utf8 c := by
  simp only [utf8Of, utf8, show c < 65536 from h, if_true]

theorem utf16ToUtf8_bmp (s : List Nat) (h : s.all bmp = true) : utf16ToUtf8 s = utf8s s := by
  induction s with
  | nil => simp [utf16ToUtf8, utf8s]
  | cons u r ih =>
    simp only [List.all_cons, Bool.and_eq_true] at h
    have hu := h.1
    simp only [bmp, Bool.and_eq_true, decide_eq_true_eq, Bool.not_eq_true', Bool.and_eq_false_iff, decide_eq_false_iff_not] at hu
    have ih' := ih h.2
    cases r with
    | nil =>
      have : ¬ (0xD800 ≤ u ∧ u < 0xE000) := by omega
      simp only [utf16ToUtf8, this, if_false, utf8s, List.flatMap_cons, List.flatMap_nil, List.append_nil]
      exact utf8Of_eq u hu.1
    | cons v r' =>
      have h1 : ¬ (0xD800 ≤ u ∧ u < 0xDC00) := by omega
      have h2 : ¬ (0xDC00 ≤ u ∧ u < 0xE000) := by omega
      rw [utf16ToUtf8, if_neg h1, if_neg h2, ih', utf8Of_eq u hu.1]
      simp only [utf8s, List.flatMap_cons]

theorem unitsOf_enc (s : List Nat) (h : ∀ c ∈ s, c < 65536) : unitsOf (s.flatMap enc16) = s := by
  induction s with
  | nil => rfl
  | cons c r ih =>
    have hc := h c (by simp)
    simp only [List.flatMap_cons, enc16, List.cons_append, List.nil_append, unitsOf]
    rw [ih (fun x hx => h x (by simp [hx]))]
    congr 1; omega

theorem offsetsFrom_get (o : Nat) (blobs : List (List Nat)) (i : Nat) (hi : i < blobs.length) :
    (offsetsFrom o blobs)[i]? = some (o + (blobs.take i).flatten.length) := by
  induction blobs generalizing o i with
  | nil => simp at hi
  | cons x r ih =>
    cases i with
    | zero => simp [offsetsFrom]
    | succ k =>
      simp only [List.length_cons, Nat.add_lt_add_iff_right] at hi
      simp only [offsetsFrom, List.getElem?_cons_succ, ih _ k hi, List.take_succ_cons, List.flatten_cons,
        List.length_append]
      congr 1; omega

theorem flatten_split (blobs : List (List Nat)) (i : Nat) (hi : i < blobs.length) :
    blobs.flatten = (blobs.take i).flatten ++ (blobs[i] ++ (blobs.drop (i + 1)).flatten) := by
  induction blobs generalizing i with
  | nil => simp at hi
  | cons x r ih =>
    cases i with
    | zero => simp
    | succ k =>
      simp only [List.length_cons, Nat.add_lt_add_iff_right] at hi
      simp only [List.flatten_cons, List.take_succ_cons, List.getElem_cons_succ, List.drop_succ_cons,
        List.append_assoc]
      rw [← ih k hi]

/-- in the character buffer of `poolOf`, string `i` starts at its offset -/
theorem pool_chars_at (u8 : Bool) (strs : List (List Nat)) (i : Nat) (hi : i < strs.length) :
    ∃ off rest, (poolOf u8 strs).offsets[i]? = some off ∧
      (poolOf u8 strs).chars.drop off = encStr u8 strs[i] ++ rest := by
  have hi' : i < (strs.map (encStr u8)).length := by simpa using hi
  refine ⟨((strs.map (encStr u8)).take i).flatten.length,
    ((strs.map (encStr u8)).drop (i + 1)).flatten ++ List.replicate ((4 - (strs.map (encStr u8)).flatten.length % 4) % 4) 0, ?_, ?_⟩
  · simp only [poolOf]
    rw [offsetsFrom_get 0 _ i hi']; simp
  · simp only [poolOf, pad4]
    rw [flatten_split _ i hi', List.append_assoc, List.drop_left]
    simp only [List.getElem_map, List.append_assoc]


theorem lget_drop (chars : List Nat) (off j : Nat) : lget chars (off + j) = (chars.drop off)[j]? := by
  simp [lget, List.getElem?_drop]

theorem getString16_of {pl : Pool} {idx off n : Nat} {units rest : List Nat}
    (hu : pl.utf8 = false) (ho : pl.offsets[idx]? = some off) (hc : (idx : Int) < pl.count)
    (hch : pl.chars.drop off = enc16 n ++ (units ++ ([0, 0] ++ rest)))
    (hlen : units.length = 2 * n) (hn : n < 0x8000) :
    pl.getString idx = some (utf16ToUtf8 (unitsOf units)) := by
  have hne : ¬ (pl.offsets.isEmpty ∨ (idx : Int) ≥ pl.count) := by
    intro h
    rcases h with h | h
    · rw [List.isEmpty_iff] at h; rw [h] at ho; simp at ho
    · omega
  obtain ⟨b0, b1, tl, htl⟩ : ∃ b0 b1 tl, units ++ ([0, 0] ++ rest) = b0 :: b1 :: tl := by
    match units, hlen with
    | [], _ => exact ⟨0, 0, rest, rfl⟩
    | [x], h => simp at h; omega
    | x :: y :: t, _ => exact ⟨x, y, t ++ ([0, 0] ++ rest), rfl⟩
  have hch' : pl.chars.drop off = (n % 256) :: (n / 256 % 256) :: b0 :: b1 :: tl := by
    rw [hch, htl]; rfl
  have g0 : lget pl.chars off = some (n % 256) := by
    have := lget_drop pl.chars off 0; rw [hch'] at this; simpa using this
  have g1 : lget pl.chars (off + 1) = some (n / 256 % 256) := by
    have := lget_drop pl.chars off 1; rw [hch'] at this; simpa using this
  have g2 : lget pl.chars (off + 2) = some b0 := by
    have := lget_drop pl.chars off 2; rw [hch'] at this; simpa using this
  have g3 : lget pl.chars (off + 3) = some b1 := by
    have := lget_drop pl.chars off 3; rw [hch'] at this; simpa using this
  have hnn : n % 256 + n / 256 % 256 * 256 = n := by omega
  have hdl := decodeLength_wide_short g0 g1 g2 g3 (by rw [hnn]; exact and_8000_small n hn)
  rw [hnn] at hdl
  have hd2 : pl.chars.drop (off + 2) = units ++ ([0, 0] ++ rest) := drop_at' 2 hch rfl
  have hd3 : pl.chars.drop (off + 2 + n * 2) = [0, 0] ++ rest := drop_at' (n * 2) hd2 (by omega)
  have hlen2 : ¬ (pl.chars.length < off + 2 + n * 2) := by
    have := congrArg List.length hd3
    simp only [List.length_drop, List.length_append, List.length_cons, List.length_nil] at this
    omega
  unfold Pool.getString
  rw [if_neg hne, ho]
  simp only [hu, Bool.false_eq_true, if_false, hdl, Option.bind_eq_bind, Option.bind_some]
  rw [if_neg hlen2, hd3, hd2]
  simp only [List.cons_append, List.nil_append, List.take_succ_cons, List.take_zero, ne_eq,
    not_true_eq_false, if_false, Option.pure_def]
  rw [show n * 2 = units.length by omega, List.take_left]


theorem encLen8_ne_nil (m : Nat) : ∃ x tl, encLen8 m = x :: tl := by
  unfold encLen8; split <;> exact ⟨_, _, rfl⟩

/-- `_decode_length(offset, 1)` on an encoded UTF-8 pool length (one- or two-byte form) -/
theorem decodeLength_len8 {chars : List Nat} {off n x : Nat} {tl : List Nat} (hn : n < 0x8000)
    (h : chars.drop off = encLen8 n ++ (x :: tl)) :
    decodeLength chars off false = some (n, (encLen8 n).length) := by
  by_cases hs : n < 0x80
  · have e : encLen8 n = [n] := by simp [encLen8, hs]
    rw [e] at h ⊢
    have g0 : lget chars off = some n := by
      have := lget_drop chars off 0; rw [h] at this; simpa using this
    have g1 : lget chars (off + 1) = some x := by
      have := lget_drop chars off 1; rw [h] at this; simpa using this
    exact decodeLength_narrow_short g0 g1 (and_80_small n hs)
  · have e : encLen8 n = [0x80 + n / 256, n % 256] := by simp [encLen8, hs]
    rw [e] at h ⊢
    have g0 : lget chars off = some (0x80 + n / 256) := by
      have := lget_drop chars off 0; rw [h] at this; simpa using this
    have g1 : lget chars (off + 1) = some (n % 256) := by
      have := lget_drop chars off 1; rw [h] at this; simpa using this
    have := decodeLength_narrow_long g0 g1 (by omega) (by omega)
    rw [this]
    simp only [List.length_cons, List.length_nil, Option.some.injEq, Prod.mk.injEq, and_true]
    omega

theorem getString8_of {pl : Pool} {idx off n m : Nat} {bytes rest : List Nat}
    (hu : pl.utf8 = true) (ho : pl.offsets[idx]? = some off) (hc : (idx : Int) < pl.count)
    (hch : pl.chars.drop off = encLen8 n ++ (encLen8 m ++ (bytes ++ ([0] ++ rest))))
    (hlen : bytes.length = m) (hn : n < 0x8000) (hm : m < 0x8000) :
    pl.getString idx = some bytes := by
  have hne : ¬ (pl.offsets.isEmpty ∨ (idx : Int) ≥ pl.count) := by
    intro h
    rcases h with h | h
    · rw [List.isEmpty_iff] at h; rw [h] at ho; simp at ho
    · omega
  obtain ⟨b0, tl, htl⟩ : ∃ b0 tl, bytes ++ ([0] ++ rest) = b0 :: tl := by
    match bytes with
    | [] => exact ⟨0, rest, rfl⟩
    | x :: t => exact ⟨x, t ++ ([0] ++ rest), rfl⟩
  obtain ⟨m0, mtl, hmtl⟩ := encLen8_ne_nil m
  have hdl1 := decodeLength_len8 (chars := pl.chars) (off := off) (x := m0) (tl := mtl ++ (bytes ++ ([0] ++ rest))) hn
    (by rw [hch, hmtl]; rfl)
  have hd1 : pl.chars.drop (off + (encLen8 n).length) = encLen8 m ++ (bytes ++ ([0] ++ rest)) := drop_at hch
  have hdl2 := decodeLength_len8 (chars := pl.chars) (off := off + (encLen8 n).length) (x := b0) (tl := tl) hm
    (by rw [hd1, htl])
  have hd2 : pl.chars.drop (off + (encLen8 n).length + (encLen8 m).length) = bytes ++ ([0] ++ rest) := drop_at hd1
  have hd3 : pl.chars.drop (off + (encLen8 n).length + (encLen8 m).length + m) = [0] ++ rest := drop_at' m hd2 hlen
  have hlen2 : ¬ (pl.chars.length < off + (encLen8 n).length + (encLen8 m).length + m) := by
    have := congrArg List.length hd3
    simp only [List.length_drop, List.length_append, List.length_cons, List.length_nil] at this
    omega
  have gz : lget pl.chars (off + (encLen8 n).length + (encLen8 m).length + m) = some 0 := by
    have := lget_drop pl.chars (off + (encLen8 n).length + (encLen8 m).length + m) 0; rw [hd3] at this; simpa using this
  unfold Pool.getString
  rw [if_neg hne, ho]
  simp only [hu, if_true, hdl1, hdl2, Option.bind_eq_bind, Option.bind_some]
  rw [if_neg hlen2, gz]
  simp only [Option.bind_some, ne_eq, not_true_eq_false, if_false, Option.pure_def, hd2]
  rw [← hlen, List.take_left]

theorem flatMap_enc16_length (s : List Nat) : (s.flatMap enc16).length = 2 * s.length := by
  induction s with
  | nil => rfl
  | cons c r ih => simp only [List.flatMap_cons, List.length_append, ih, List.length_cons]; simp [enc16]; omega

theorem wfStr_iff (s : List Nat) : wfStr s = true ↔ s.length < 0x8000 ∧ (utf8s s).length < 0x8000 ∧ s.all bmp = true := by
  simp [wfStr, and_assoc]

theorem bmp_lt {c : Nat} (h : bmp c = true) : c < 65536 := by
  simp [bmp] at h; omega

/-- `getString(i)` on the pool read back from an encoded pool is the UTF-8 text of string `i`,
    for UTF-16 and UTF-8 pools -/
theorem pool_getString (u8 : Bool) (strs : List (List Nat)) (hwf : strs.all wfStr = true)
    (i : Nat) (hi : i < strs.length) :
    (poolOf u8 strs).getString i = some (utf8s strs[i]) := by
  obtain ⟨off, rest, ho, hch⟩ := pool_chars_at u8 strs i hi
  have hw : wfStr strs[i] = true := (List.all_eq_true.mp hwf) _ (List.getElem_mem hi)
  obtain ⟨h1, h2, h3⟩ := (wfStr_iff _).mp hw
  have hcount : (i : Int) < (poolOf u8 strs).count := by simp only [poolOf]; omega
  cases u8 with
  | false =>
    have hch' : (poolOf false strs).chars.drop off
        = enc16 strs[i].length ++ (strs[i].flatMap enc16 ++ ([0, 0] ++ rest)) := by
      rw [hch]; simp [encStr, encStr16]
    rw [getString16_of rfl ho hcount hch' (flatMap_enc16_length _) h1,
      unitsOf_enc _ (fun c hc => bmp_lt ((List.all_eq_true.mp h3) c hc)), utf16ToUtf8_bmp _ h3]
  | true =>
    have hch' : (poolOf true strs).chars.drop off
        = encLen8 strs[i].length ++ (encLen8 (utf8s strs[i]).length ++ (utf8s strs[i] ++ ([0] ++ rest))) := by
      rw [hch]; simp [encStr, encStr8]
    rw [getString8_of rfl ho hcount hch' rfl h1 h2]

end AgVerif.Arsc
