/- C01: everything a constructor of a specification class builds is in range (`fieldsOK`) and has a byte opcode (the first byte):
   `fieldsOK` is exactly the set of decodable objects.  GENERATED text (one lemma per class). -/
import AgVerif.Proof.InsnEdAll
import AgVerif.Proof.InsnAll
set_option linter.unusedSimpArgs false
set_option linter.unusedVariables false
namespace AgVerif.Insn
open AgVerif.Gen

set_option hygiene false in
macro "dv_core" : tactic => `(tactic| (
  subst h
  dsimp only
  simp only [fieldsOK, rg, Bool.and_eq_true, decide_eq_true_eq, and_true, true_and, List.head?_cons, Option.some.injEq]
  first | omega | ((repeat' apply And.intro) <;> first | omega | rfl)))

set_option hygiene false in
macro "dv_finish" : tactic => `(tactic| first
  | dv_core
  | (split at h <;> first
      | (simp only [Except.ok.injEq] at h; dv_core)
      | (cases h)))

theorem dv_10x (bs : List Nat) (hb : AllBytes bs) (x : Insn) (h : decode .f10x bs = .ok x) :
    x.op < 256 ∧ fieldsOK .f10x x.op x.v = true ∧ bs.head? = some x.op := by
  have hl := decode_ok_length h
  obtain ⟨b0, b1, r, rfl⟩ := ex2 _ (by simpa [Opcodes.length] using hl)
  simp only [allBytes_cons] at hb
  obtain ⟨h0, h1, _⟩ := hb
  clear hl
  dec_simp at h
  dv_finish

theorem dv_12x (bs : List Nat) (hb : AllBytes bs) (x : Insn) (h : decode .f12x bs = .ok x) :
    x.op < 256 ∧ fieldsOK .f12x x.op x.v = true ∧ bs.head? = some x.op := by
  have hl := decode_ok_length h
  obtain ⟨b0, b1, r, rfl⟩ := ex2 _ (by simpa [Opcodes.length] using hl)
  simp only [allBytes_cons] at hb
  obtain ⟨h0, h1, _⟩ := hb
  clear hl
  dec_simp at h
  dv_finish

theorem dv_11n (bs : List Nat) (hb : AllBytes bs) (x : Insn) (h : decode .f11n bs = .ok x) :
    x.op < 256 ∧ fieldsOK .f11n x.op x.v = true ∧ bs.head? = some x.op := by
  have hl := decode_ok_length h
  obtain ⟨b0, b1, r, rfl⟩ := ex2 _ (by simpa [Opcodes.length] using hl)
  simp only [allBytes_cons] at hb
  obtain ⟨h0, h1, _⟩ := hb
  clear hl
  dec_simp at h
  dv_finish

theorem dv_11x (bs : List Nat) (hb : AllBytes bs) (x : Insn) (h : decode .f11x bs = .ok x) :
    x.op < 256 ∧ fieldsOK .f11x x.op x.v = true ∧ bs.head? = some x.op := by
  have hl := decode_ok_length h
  obtain ⟨b0, b1, r, rfl⟩ := ex2 _ (by simpa [Opcodes.length] using hl)
  simp only [allBytes_cons] at hb
  obtain ⟨h0, h1, _⟩ := hb
  clear hl
  dec_simp at h
  dv_finish

theorem dv_10t (bs : List Nat) (hb : AllBytes bs) (x : Insn) (h : decode .f10t bs = .ok x) :
    x.op < 256 ∧ fieldsOK .f10t x.op x.v = true ∧ bs.head? = some x.op := by
  have hl := decode_ok_length h
  obtain ⟨b0, b1, r, rfl⟩ := ex2 _ (by simpa [Opcodes.length] using hl)
  simp only [allBytes_cons] at hb
  obtain ⟨h0, h1, _⟩ := hb
  clear hl
  dec_simp at h
  dv_finish

theorem dv_20t (bs : List Nat) (hb : AllBytes bs) (x : Insn) (h : decode .f20t bs = .ok x) :
    x.op < 256 ∧ fieldsOK .f20t x.op x.v = true ∧ bs.head? = some x.op := by
  have hl := decode_ok_length h
  obtain ⟨b0, b1, b2, b3, r, rfl⟩ := ex4 _ (by simpa [Opcodes.length] using hl)
  simp only [allBytes_cons] at hb
  obtain ⟨h0, h1, h2, h3, _⟩ := hb
  clear hl
  dec_simp at h
  dv_finish

theorem dv_22x (bs : List Nat) (hb : AllBytes bs) (x : Insn) (h : decode .f22x bs = .ok x) :
    x.op < 256 ∧ fieldsOK .f22x x.op x.v = true ∧ bs.head? = some x.op := by
  have hl := decode_ok_length h
  obtain ⟨b0, b1, b2, b3, r, rfl⟩ := ex4 _ (by simpa [Opcodes.length] using hl)
  simp only [allBytes_cons] at hb
  obtain ⟨h0, h1, h2, h3, _⟩ := hb
  clear hl
  dec_simp at h
  dv_finish

theorem dv_21t (bs : List Nat) (hb : AllBytes bs) (x : Insn) (h : decode .f21t bs = .ok x) :
    x.op < 256 ∧ fieldsOK .f21t x.op x.v = true ∧ bs.head? = some x.op := by
  have hl := decode_ok_length h
  obtain ⟨b0, b1, b2, b3, r, rfl⟩ := ex4 _ (by simpa [Opcodes.length] using hl)
  simp only [allBytes_cons] at hb
  obtain ⟨h0, h1, h2, h3, _⟩ := hb
  clear hl
  dec_simp at h
  dv_finish

theorem dv_21s (bs : List Nat) (hb : AllBytes bs) (x : Insn) (h : decode .f21s bs = .ok x) :
    x.op < 256 ∧ fieldsOK .f21s x.op x.v = true ∧ bs.head? = some x.op := by
  have hl := decode_ok_length h
  obtain ⟨b0, b1, b2, b3, r, rfl⟩ := ex4 _ (by simpa [Opcodes.length] using hl)
  simp only [allBytes_cons] at hb
  obtain ⟨h0, h1, h2, h3, _⟩ := hb
  clear hl
  dec_simp at h
  dv_finish

theorem dv_21h (bs : List Nat) (hb : AllBytes bs) (x : Insn) (h : decode .f21h bs = .ok x) :
    x.op < 256 ∧ fieldsOK .f21h x.op x.v = true ∧ bs.head? = some x.op := by
  have hl := decode_ok_length h
  obtain ⟨b0, b1, b2, b3, r, rfl⟩ := ex4 _ (by simpa [Opcodes.length] using hl)
  simp only [allBytes_cons] at hb
  obtain ⟨h0, h1, h2, h3, _⟩ := hb
  clear hl
  dec_simp at h
  dv_finish

theorem dv_21c (bs : List Nat) (hb : AllBytes bs) (x : Insn) (h : decode .f21c bs = .ok x) :
    x.op < 256 ∧ fieldsOK .f21c x.op x.v = true ∧ bs.head? = some x.op := by
  have hl := decode_ok_length h
  obtain ⟨b0, b1, b2, b3, r, rfl⟩ := ex4 _ (by simpa [Opcodes.length] using hl)
  simp only [allBytes_cons] at hb
  obtain ⟨h0, h1, h2, h3, _⟩ := hb
  clear hl
  dec_simp at h
  dv_finish

theorem dv_23x (bs : List Nat) (hb : AllBytes bs) (x : Insn) (h : decode .f23x bs = .ok x) :
    x.op < 256 ∧ fieldsOK .f23x x.op x.v = true ∧ bs.head? = some x.op := by
  have hl := decode_ok_length h
  obtain ⟨b0, b1, b2, b3, r, rfl⟩ := ex4 _ (by simpa [Opcodes.length] using hl)
  simp only [allBytes_cons] at hb
  obtain ⟨h0, h1, h2, h3, _⟩ := hb
  clear hl
  dec_simp at h
  dv_finish

theorem dv_22b (bs : List Nat) (hb : AllBytes bs) (x : Insn) (h : decode .f22b bs = .ok x) :
    x.op < 256 ∧ fieldsOK .f22b x.op x.v = true ∧ bs.head? = some x.op := by
  have hl := decode_ok_length h
  obtain ⟨b0, b1, b2, b3, r, rfl⟩ := ex4 _ (by simpa [Opcodes.length] using hl)
  simp only [allBytes_cons] at hb
  obtain ⟨h0, h1, h2, h3, _⟩ := hb
  clear hl
  dec_simp at h
  dv_finish

theorem dv_22t (bs : List Nat) (hb : AllBytes bs) (x : Insn) (h : decode .f22t bs = .ok x) :
    x.op < 256 ∧ fieldsOK .f22t x.op x.v = true ∧ bs.head? = some x.op := by
  have hl := decode_ok_length h
  obtain ⟨b0, b1, b2, b3, r, rfl⟩ := ex4 _ (by simpa [Opcodes.length] using hl)
  simp only [allBytes_cons] at hb
  obtain ⟨h0, h1, h2, h3, _⟩ := hb
  clear hl
  dec_simp at h
  dv_finish

theorem dv_22s (bs : List Nat) (hb : AllBytes bs) (x : Insn) (h : decode .f22s bs = .ok x) :
    x.op < 256 ∧ fieldsOK .f22s x.op x.v = true ∧ bs.head? = some x.op := by
  have hl := decode_ok_length h
  obtain ⟨b0, b1, b2, b3, r, rfl⟩ := ex4 _ (by simpa [Opcodes.length] using hl)
  simp only [allBytes_cons] at hb
  obtain ⟨h0, h1, h2, h3, _⟩ := hb
  clear hl
  dec_simp at h
  dv_finish

theorem dv_22c (bs : List Nat) (hb : AllBytes bs) (x : Insn) (h : decode .f22c bs = .ok x) :
    x.op < 256 ∧ fieldsOK .f22c x.op x.v = true ∧ bs.head? = some x.op := by
  have hl := decode_ok_length h
  obtain ⟨b0, b1, b2, b3, r, rfl⟩ := ex4 _ (by simpa [Opcodes.length] using hl)
  simp only [allBytes_cons] at hb
  obtain ⟨h0, h1, h2, h3, _⟩ := hb
  clear hl
  dec_simp at h
  dv_finish

theorem dv_30t (bs : List Nat) (hb : AllBytes bs) (x : Insn) (h : decode .f30t bs = .ok x) :
    x.op < 256 ∧ fieldsOK .f30t x.op x.v = true ∧ bs.head? = some x.op := by
  have hl := decode_ok_length h
  obtain ⟨b0, b1, b2, b3, b4, b5, r, rfl⟩ := ex6 _ (by simpa [Opcodes.length] using hl)
  simp only [allBytes_cons] at hb
  obtain ⟨h0, h1, h2, h3, h4, h5, _⟩ := hb
  clear hl
  dec_simp at h
  dv_finish

theorem dv_32x (bs : List Nat) (hb : AllBytes bs) (x : Insn) (h : decode .f32x bs = .ok x) :
    x.op < 256 ∧ fieldsOK .f32x x.op x.v = true ∧ bs.head? = some x.op := by
  have hl := decode_ok_length h
  obtain ⟨b0, b1, b2, b3, b4, b5, r, rfl⟩ := ex6 _ (by simpa [Opcodes.length] using hl)
  simp only [allBytes_cons] at hb
  obtain ⟨h0, h1, h2, h3, h4, h5, _⟩ := hb
  clear hl
  dec_simp at h
  dv_finish

theorem dv_31i (bs : List Nat) (hb : AllBytes bs) (x : Insn) (h : decode .f31i bs = .ok x) :
    x.op < 256 ∧ fieldsOK .f31i x.op x.v = true ∧ bs.head? = some x.op := by
  have hl := decode_ok_length h
  obtain ⟨b0, b1, b2, b3, b4, b5, r, rfl⟩ := ex6 _ (by simpa [Opcodes.length] using hl)
  simp only [allBytes_cons] at hb
  obtain ⟨h0, h1, h2, h3, h4, h5, _⟩ := hb
  clear hl
  dec_simp at h
  dv_finish

theorem dv_31t (bs : List Nat) (hb : AllBytes bs) (x : Insn) (h : decode .f31t bs = .ok x) :
    x.op < 256 ∧ fieldsOK .f31t x.op x.v = true ∧ bs.head? = some x.op := by
  have hl := decode_ok_length h
  obtain ⟨b0, b1, b2, b3, b4, b5, r, rfl⟩ := ex6 _ (by simpa [Opcodes.length] using hl)
  simp only [allBytes_cons] at hb
  obtain ⟨h0, h1, h2, h3, h4, h5, _⟩ := hb
  clear hl
  dec_simp at h
  dv_finish

theorem dv_31c (bs : List Nat) (hb : AllBytes bs) (x : Insn) (h : decode .f31c bs = .ok x) :
    x.op < 256 ∧ fieldsOK .f31c x.op x.v = true ∧ bs.head? = some x.op := by
  have hl := decode_ok_length h
  obtain ⟨b0, b1, b2, b3, b4, b5, r, rfl⟩ := ex6 _ (by simpa [Opcodes.length] using hl)
  simp only [allBytes_cons] at hb
  obtain ⟨h0, h1, h2, h3, h4, h5, _⟩ := hb
  clear hl
  dec_simp at h
  dv_finish

theorem dv_35c (bs : List Nat) (hb : AllBytes bs) (x : Insn) (h : decode .f35c bs = .ok x) :
    x.op < 256 ∧ fieldsOK .f35c x.op x.v = true ∧ bs.head? = some x.op := by
  have hl := decode_ok_length h
  obtain ⟨b0, b1, b2, b3, b4, b5, r, rfl⟩ := ex6 _ (by simpa [Opcodes.length] using hl)
  simp only [allBytes_cons] at hb
  obtain ⟨h0, h1, h2, h3, h4, h5, _⟩ := hb
  clear hl
  dec_simp at h
  dv_finish

theorem dv_3rc (bs : List Nat) (hb : AllBytes bs) (x : Insn) (h : decode .f3rc bs = .ok x) :
    x.op < 256 ∧ fieldsOK .f3rc x.op x.v = true ∧ bs.head? = some x.op := by
  have hl := decode_ok_length h
  obtain ⟨b0, b1, b2, b3, b4, b5, r, rfl⟩ := ex6 _ (by simpa [Opcodes.length] using hl)
  simp only [allBytes_cons] at hb
  obtain ⟨h0, h1, h2, h3, h4, h5, _⟩ := hb
  clear hl
  dec_simp at h
  dv_finish

theorem dv_45cc (bs : List Nat) (hb : AllBytes bs) (x : Insn) (h : decode .f45cc bs = .ok x) :
    x.op < 256 ∧ fieldsOK .f45cc x.op x.v = true ∧ bs.head? = some x.op := by
  have hl := decode_ok_length h
  obtain ⟨b0, b1, b2, b3, b4, b5, b6, b7, r, rfl⟩ := ex8 _ (by simpa [Opcodes.length] using hl)
  simp only [allBytes_cons] at hb
  obtain ⟨h0, h1, h2, h3, h4, h5, h6, h7, _⟩ := hb
  clear hl
  dec_simp at h
  dv_finish

theorem dv_4rcc (bs : List Nat) (hb : AllBytes bs) (x : Insn) (h : decode .f4rcc bs = .ok x) :
    x.op < 256 ∧ fieldsOK .f4rcc x.op x.v = true ∧ bs.head? = some x.op := by
  have hl := decode_ok_length h
  obtain ⟨b0, b1, b2, b3, b4, b5, b6, b7, r, rfl⟩ := ex8 _ (by simpa [Opcodes.length] using hl)
  simp only [allBytes_cons] at hb
  obtain ⟨h0, h1, h2, h3, h4, h5, h6, h7, _⟩ := hb
  clear hl
  dec_simp at h
  dv_finish

theorem dv_51l (bs : List Nat) (hb : AllBytes bs) (x : Insn) (h : decode .f51l bs = .ok x) :
    x.op < 256 ∧ fieldsOK .f51l x.op x.v = true ∧ bs.head? = some x.op := by
  have hl := decode_ok_length h
  obtain ⟨b0, b1, b2, b3, b4, b5, b6, b7, b8, b9, r, rfl⟩ := ex10 _ (by simpa [Opcodes.length] using hl)
  simp only [allBytes_cons] at hb
  obtain ⟨h0, h1, h2, h3, h4, h5, h6, h7, h8, h9, _⟩ := hb
  clear hl
  dec_simp at h
  dv_finish

/-- every object a specification class constructs from bytes has a byte opcode and in-range attributes -/
theorem decode_fieldsOK (f : Fmt) (hsp : (toSpec f).isSome = true) (bs : List Nat) (hb : AllBytes bs) (x : Insn)
    (h : decode f bs = .ok x) : x.op < 256 ∧ fieldsOK f x.op x.v = true ∧ bs.head? = some x.op := by
  cases f
  case f10x => exact dv_10x bs hb x h
  case f12x => exact dv_12x bs hb x h
  case f11n => exact dv_11n bs hb x h
  case f11x => exact dv_11x bs hb x h
  case f10t => exact dv_10t bs hb x h
  case f20t => exact dv_20t bs hb x h
  case f22x => exact dv_22x bs hb x h
  case f21t => exact dv_21t bs hb x h
  case f21s => exact dv_21s bs hb x h
  case f21h => exact dv_21h bs hb x h
  case f21c => exact dv_21c bs hb x h
  case f23x => exact dv_23x bs hb x h
  case f22b => exact dv_22b bs hb x h
  case f22t => exact dv_22t bs hb x h
  case f22s => exact dv_22s bs hb x h
  case f22c => exact dv_22c bs hb x h
  case f30t => exact dv_30t bs hb x h
  case f32x => exact dv_32x bs hb x h
  case f31i => exact dv_31i bs hb x h
  case f31t => exact dv_31t bs hb x h
  case f31c => exact dv_31c bs hb x h
  case f35c => exact dv_35c bs hb x h
  case f3rc => exact dv_3rc bs hb x h
  case f45cc => exact dv_45cc bs hb x h
  case f4rcc => exact dv_4rcc bs hb x h
  case f51l => exact dv_51l bs hb x h
  all_goals (simp [toSpec] at hsp)

end AgVerif.Insn
