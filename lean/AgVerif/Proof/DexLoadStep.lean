/-
C05, file level, part 2: resolution against the tables, and `step` for each section.
-/
import AgVerif.Proof.DexLoad
namespace AgVerif.C05
open AgVerif.DexFile AgVerif.LoadOrder
open AgVerif.Spec.DexFile (ushort uint ULeb protoId fieldId methodId classDef typeListBody codeHdr EncClassData)

theorem mapE_ok {α β ε} (f : α → Except ε β) (g : α → β) : ∀ (l : List α), (∀ x ∈ l, f x = .ok (g x)) →
    mapE f l = .ok (l.map g)
  | [], _ => rfl
  | x :: xs, h => by
    simp only [mapE, h x List.mem_cons_self, mapE_ok f g xs (fun y hy => h y (List.mem_cons_of_mem _ hy)),
      List.map_cons]

theorem tab_getD {α} (L : Layout) (t : Nat) (items : List (α × Bytes)) :
    ((L.sec t).map fun _ => tab L t items).getD [] = tab L t items := by
  unfold tab
  cases L.sec t <;> rfl

/-- the part of the ClassManager state that index resolution looks at agrees with the tables -/
structure Base (cm : CM) (T : Tables) (L : Layout) : Prop where
  sids : cm.stringIds = some T.stringIds
  sdat : cm.strData.getD [] = strTab T L
  tids : cm.typeIds = some T.typeIds

theorem getString_tab {cm : CM} {T : Tables} {L : Layout} (h : Base cm T L) (i : Nat) :
    getString cm i = .ok (strAt T L i) := by
  unfold getString strAt
  rw [h.sids, h.sdat]
  cases hq : T.stringIds[i]? with
  | none => simp only [hq]
  | some off =>
    simp only [hq]
    cases lookupOff off (strTab T L) <;> rfl

theorem getType_tab {cm : CM} {T : Tables} {L : Layout} (h : Base cm T L) (i : Nat) :
    getType cm i = .ok (typeAt T L i) := by
  unfold getType typeAt
  rw [h.tids]
  cases hq : T.typeIds[i]? with
  | none => simp only [hq]
  | some s => simp only [hq]; exact getString_tab h s

theorem getTypeList_tab {cm : CM} {T : Tables} {L : Layout} (h : Base cm T L)
    (htl : cm.typeLists.getD [] = tlTab T L) (off : Nat) (l : List Bytes)
    (hl : typeListAt T L off = some l) : getTypeList cm off = .ok l := by
  unfold getTypeList
  unfold typeListAt at hl
  by_cases h0 : off = 0
  · simp only [h0, ↓reduceIte, Option.some.injEq] at hl ⊢
    rw [hl]
  · simp only [h0, ↓reduceIte] at hl ⊢
    rw [htl]
    cases hq : lookupOff off (tlTab T L) with
    | none => simp [hq] at hl
    | some tl =>
      simp only [hq, Option.map_some, Option.some.injEq] at hl
      simp only [← hl]
      exact mapE_ok _ _ tl (fun x _ => getType_tab h x)

theorem resolveProto_tab {cm : CM} {T : Tables} {L : Layout} (h : Base cm T L) (p : ProtoId) :
    resolveProto cm p = .ok (protoR T L p) := by
  simp only [resolveProto, getString_tab h, getType_tab h, bind, Except.bind, pure, Except.pure, protoR]

theorem resolveField_tab {cm : CM} {T : Tables} {L : Layout} (h : Base cm T L) (f : FieldId) :
    resolveField cm f = .ok (fieldR T L f) := by
  simp only [resolveField, getString_tab h, getType_tab h, bind, Except.bind, pure, Except.pure, fieldR]

theorem resolveMethod_tab {cm : CM} {T : Tables} {L : Layout} (h : Base cm T L)
    (htl : cm.typeLists.getD [] = tlTab T L)
    (hps : cm.protoIds = some (T.protoIds.map (protoR T L)))
    (m : MethodId) (hm : (paramsAt T L m.proto).isSome) :
    resolveMethod cm m = .ok (methodR T L m) := by
  unfold paramsAt at hm
  unfold methodR
  simp only [paramsAt]
  cases hp : T.protoIds[m.proto]? with
  | none => simp [hp] at hm
  | some p =>
    simp only [hp] at hm ⊢
    cases hl : typeListAt T L p.paramsOff with
    | none => simp [hl] at hm
    | some l =>
      simp only [resolveMethod, getType_tab h, hps, List.getElem?_map, hp, Option.map_some,
        paramsString, getTypeList_tab h htl p.paramsOff l hl, getString_tab h, bind, Except.bind, pure,
        Except.pure, protoR, Option.getD_some]

theorem resolveClass_tab {cm : CM} {T : Tables} {L : Layout} (h : Base cm T L)
    (htl : cm.typeLists.getD [] = tlTab T L) (hcd : cm.classData.getD [] = cdTab T L)
    (c : ClassDef) (hc : (typeListAt T L c.ifacesOff).isSome) :
    resolveClass cm c = .ok (classR T L c) := by
  cases hl : typeListAt T L c.ifacesOff with
  | none => simp [hl] at hc
  | some l =>
    simp only [resolveClass, getType_tab h, getTypeList_tab h htl c.ifacesOff l hl, hcd, bind,
      Except.bind, pure, Except.pure, classR, hl, Option.getD_some, classDataAt]

/-! ### one section -/

theorem sec_some {L : Layout} {t : Nat} {e : MapEntry} (h : L.sec t = some e) : e.type = t ∧ e ∈ L.map := by
  unfold Layout.sec at h
  exact ⟨by simpa using List.find?_some h, List.mem_of_find?_eq_some h⟩

theorem Section.get {file : Bytes} {L : Layout} {t n : Nat} {bytes : Bytes} {al : Bool} {e : MapEntry}
    (h : Section file L t n bytes al) (he : L.sec t = some e) :
    e.size = n ∧ (al = true → e.offset % 4 = 0) ∧ At file e.offset bytes := by
  unfold Section at h
  rw [he] at h
  exact h

theorem seek4_aligned (off : Nat) (h : off % 4 = 0) : seek4 off = off := by
  unfold seek4; omega

theorem map_snd_ne_nil {α β} {l : List (α × β)} {xs : List β} (h : l.map (·.2) = xs) (x : α × β) (hx : x ∈ l) :
    xs ≠ [] := by
  intro e
  rw [e] at h
  rw [List.map_eq_nil_iff.mp h] at hx
  cases hx

variable {file : Bytes} {L : Layout} {T : Tables} {e : MapEntry}

theorem step_strData (henc : Encodes file L T) (he : L.sec 0x2002 = some e) (cm : CM) :
    step file cm e = .ok { cm with strData := some (strTab T L) } := by
  obtain ⟨ht, _⟩ := sec_some he
  obtain ⟨hn, _, hat⟩ := henc.strings.get he
  have hd := decSeq_placed decStringData file T.strItems e.offset (by
      intro p hp rest
      obtain ⟨s, hs, rfl⟩ := List.mem_map.mp hp
      obtain ⟨⟨n, hu⟩, h0⟩ := henc.strItem s hs
      exact decStringData_enc s.1 s.2 rest n hu h0) hat
  have hlen : T.strItems.length = e.size := by simp [Tables.strItems, hn]
  rw [hlen] at hd
  simp only [step, ht, ↓reduceIte, hd, structErr, bind, Except.bind, pure, Except.pure, strTab, tab, he]

theorem step_stringIds (henc : Encodes file L T) (hwf : WF T L) (he : L.sec 0x0001 = some e) (cm : CM) :
    step file cm e = .ok { cm with stringIds := some T.stringIds } := by
  obtain ⟨ht, _⟩ := sec_some he
  obtain ⟨hn, _, hat⟩ := henc.stringIds.get he
  obtain ⟨l, hl, hm⟩ := decSeq_rows decStringId uint file T.stringIds e.offset
    (fun x hx rest => u32_enc x rest (hwf.stringIds x hx)) hat
  rw [← hn] at hl
  simp [step, ht, hl, structErr, bind, Except.bind, pure, Except.pure, hm]

theorem getString_isOk {cm : CM} {ids : List Nat} (h : cm.stringIds = some ids) (i : Nat) :
    ∃ s, getString cm i = .ok s := by
  unfold getString
  rw [h]
  cases hq : ids[i]? with
  | none => simp only [hq]; exact ⟨_, rfl⟩
  | some off =>
    simp only [hq]
    cases lookupOff off (cm.strData.getD []) <;> exact ⟨_, rfl⟩

theorem mapE_getString {cm : CM} : ∀ (l : List (Nat × Nat)), (l ≠ [] → ∃ ids, cm.stringIds = some ids) →
    ∃ r, mapE (fun p => getString cm p.2) l = .ok r
  | [], _ => ⟨[], rfl⟩
  | x :: xs, h => by
    obtain ⟨ids, hi⟩ := h (by simp)
    obtain ⟨s, hs⟩ := getString_isOk hi x.2
    obtain ⟨r, hr⟩ := mapE_getString xs (fun _ => ⟨ids, hi⟩)
    exact ⟨s :: r, by simp only [mapE, hs, hr]⟩

theorem step_typeIds (henc : Encodes file L T) (hwf : WF T L) (he : L.sec 0x0002 = some e) (cm : CM)
    (hs : T.typeIds ≠ [] → ∃ ids, cm.stringIds = some ids) :
    step file cm e = .ok { cm with typeIds := some T.typeIds } := by
  obtain ⟨ht, _⟩ := sec_some he
  obtain ⟨hn, hal, hat⟩ := henc.typeIds.get he
  obtain ⟨l, hl, hm⟩ := decSeq_rows decTypeId uint file T.typeIds e.offset
    (fun x hx rest => u32_enc x rest (hwf.typeIds x hx)) hat
  rw [← hn] at hl
  obtain ⟨r, hr⟩ := mapE_getString (cm := cm) l (fun hne => hs (by
    intro h0; rw [h0] at hm; exact hne (List.map_eq_nil_iff.mp hm)))
  simp [step, ht, seek4_aligned _ (hal rfl), hl, structErr, bind, Except.bind, pure, Except.pure, hm, hr]

theorem step_typeLists (henc : Encodes file L T) (hwf : WF T L) (he : L.sec 0x1001 = some e) (cm : CM) :
    step file cm e = .ok { cm with typeLists := some (tlTab T L) } := by
  obtain ⟨ht, _⟩ := sec_some he
  obtain ⟨hn, hal, hat⟩ := henc.typeLists.get he
  have hd := decSeq_placed decTypeList file T.tlItems e.offset (by
      intro p hp rest
      obtain ⟨s, hs, rfl⟩ := List.mem_map.mp hp
      obtain ⟨h1, h2⟩ := hwf.typeLists s hs
      exact decTypeList_item s.1 s.2 rest h1 h2 (henc.tlPad s hs)) hat
  have hlen : T.tlItems.length = e.size := by simp [Tables.tlItems, hn]
  rw [hlen] at hd
  simp [step, ht, seek4_aligned _ (hal rfl), hd, structErr, bind, Except.bind, pure, Except.pure, tlTab, tab, he]

theorem step_protoIds (henc : Encodes file L T) (hwf : WF T L) (he : L.sec 0x0003 = some e) (cm : CM)
    (hb : T.protoIds ≠ [] → Base cm T L) :
    step file cm e = .ok { cm with protoIds := some (T.protoIds.map (protoR T L)) } := by
  obtain ⟨ht, _⟩ := sec_some he
  obtain ⟨hn, hal, hat⟩ := henc.protoIds.get he
  obtain ⟨l, hl, hm⟩ := decSeq_rows decProtoId (fun p => protoId p.shorty p.ret p.paramsOff) file T.protoIds e.offset
    (fun x hx rest => by
      obtain ⟨h1, h2, h3⟩ := hwf.protoIds x hx
      exact decProtoId_enc _ _ _ rest h1 h2 h3) hat
  rw [← hn] at hl
  have hr := mapE_ok (fun p : Nat × ProtoId => resolveProto cm p.2) (fun p => protoR T L p.2) l
    (fun x hx => resolveProto_tab (hb (map_snd_ne_nil hm x hx)) x.2)
  have hmm : l.map (fun p => protoR T L p.2) = T.protoIds.map (protoR T L) := by
    rw [← hm, List.map_map]; rfl
  simp [step, ht, seek4_aligned _ (hal rfl), hl, structErr, bind, Except.bind, pure, Except.pure, hr, hmm]

theorem step_fieldIds (henc : Encodes file L T) (hwf : WF T L) (he : L.sec 0x0004 = some e) (cm : CM)
    (hb : T.fieldIds ≠ [] → Base cm T L) :
    step file cm e = .ok { cm with fieldIds := some (T.fieldIds.map (fieldR T L)) } := by
  obtain ⟨ht, _⟩ := sec_some he
  obtain ⟨hn, hal, hat⟩ := henc.fieldIds.get he
  obtain ⟨l, hl, hm⟩ := decSeq_rows decFieldId (fun f => fieldId f.cls f.typ f.name) file T.fieldIds e.offset
    (fun x hx rest => by
      obtain ⟨h1, h2, h3⟩ := hwf.fieldIds x hx
      exact decFieldId_enc _ _ _ rest h1 h2 h3) hat
  rw [← hn] at hl
  have hr := mapE_ok (fun p : Nat × FieldId => resolveField cm p.2) (fun p => fieldR T L p.2) l
    (fun x hx => resolveField_tab (hb (map_snd_ne_nil hm x hx)) x.2)
  have hmm : l.map (fun p => fieldR T L p.2) = T.fieldIds.map (fieldR T L) := by
    rw [← hm, List.map_map]; rfl
  simp [step, ht, seek4_aligned _ (hal rfl), hl, structErr, bind, Except.bind, pure, Except.pure, hr, hmm]

theorem step_methodIds (henc : Encodes file L T) (hwf : WF T L) (he : L.sec 0x0005 = some e) (cm : CM)
    (hb : T.methodIds ≠ [] → Base cm T L ∧ cm.typeLists.getD [] = tlTab T L ∧
      cm.protoIds = some (T.protoIds.map (protoR T L))) :
    step file cm e = .ok { cm with methodIds := some (T.methodIds.map (methodR T L)) } := by
  obtain ⟨ht, _⟩ := sec_some he
  obtain ⟨hn, hal, hat⟩ := henc.methodIds.get he
  obtain ⟨l, hl, hm⟩ := decSeq_rows decMethodId (fun m => methodId m.cls m.proto m.name) file T.methodIds e.offset
    (fun x hx rest => by
      obtain ⟨h1, h2, h3⟩ := hwf.methodIds x hx
      exact decMethodId_enc _ _ _ rest h1 h2 h3) hat
  rw [← hn] at hl
  have hr := mapE_ok (fun p : Nat × MethodId => resolveMethod cm p.2) (fun p => methodR T L p.2) l
    (fun x hx => by
      obtain ⟨h1, h2, h3⟩ := hb (map_snd_ne_nil hm x hx)
      refine resolveMethod_tab h1 h2 h3 x.2 (hwf.methodProtos x.2 ?_)
      rw [← hm]; exact List.mem_map_of_mem hx)
  have hmm : l.map (fun p => methodR T L p.2) = T.methodIds.map (methodR T L) := by
    rw [← hm, List.map_map]; rfl
  simp [step, ht, seek4_aligned _ (hal rfl), hl, structErr, bind, Except.bind, pure, Except.pure, hr, hmm]

theorem step_classData (henc : Encodes file L T) (he : L.sec 0x2000 = some e) (cm : CM) :
    step file cm e = .ok { cm with classData := some (cdTab T L) } := by
  obtain ⟨ht, _⟩ := sec_some he
  obtain ⟨hn, _, hat⟩ := henc.classData.get he
  have hd := decSeq_placed decClassData file T.cdItems e.offset (by
      intro p hp rest
      exact decClassData_item p.1 p.2 rest (henc.cdEnc p hp)) hat
  have hlen : T.cdItems.length = e.size := by simp [Tables.cdItems, hn]
  rw [hlen] at hd
  simp [step, ht, hd, structErr, bind, Except.bind, pure, Except.pure, cdTab, tab, he]

theorem step_codes (henc : Encodes file L T) (hwf : WF T L) (he : L.sec 0x2001 = some e) (cm : CM) :
    step file cm e = .ok { cm with codes := some (codeTab T L) } := by
  obtain ⟨ht, _⟩ := sec_some he
  obtain ⟨hn, hal, hat⟩ := henc.codes.get he
  have hd := decCodes_placed file T.codeItems e.offset (hal rfl)
    (fun q hq => by
      obtain ⟨p, hp, rfl⟩ := List.mem_map.mp hq
      obtain ⟨tail, pad, h1, h2, h3⟩ := henc.codeRest p hp
      refine ⟨encCode p.1 ++ tail, pad, by simp only [h1, List.append_assoc], ?_, h3⟩
      intro rest
      exact decCode_item p.1 tail rest (hwf.codes p hp) h2) hat
  have hlen : T.codeItems.length = e.size := by simp [Tables.codeItems, hn]
  rw [hlen] at hd
  simp [step, ht, seek4_aligned _ (hal rfl), hd, structErr, bind, Except.bind, pure, Except.pure, codeTab,
    tab, he]

theorem step_classDefs (henc : Encodes file L T) (hwf : WF T L) (he : L.sec 0x0006 = some e) (cm : CM)
    (hb : T.classDefs ≠ [] → Base cm T L ∧ cm.typeLists.getD [] = tlTab T L ∧
      cm.classData.getD [] = cdTab T L) :
    step file cm e = .ok { cm with classDefs := some (T.classDefs.map (classR T L)) } := by
  obtain ⟨ht, _⟩ := sec_some he
  obtain ⟨hn, hal, hat⟩ := henc.classDefs.get he
  obtain ⟨l, hl, hm⟩ := decSeq_rows decClassDef
    (fun c => classDef c.cls c.access c.super c.ifacesOff c.srcIdx c.annOff c.dataOff c.staticOff)
    file T.classDefs e.offset
    (fun x hx rest => by
      obtain ⟨h1, h2, h3, h4, h5, h6, h7, h8⟩ := hwf.classDefs x hx
      exact decClassDef_enc _ _ _ _ _ _ _ _ rest h1 h2 h3 h4 h5 h6 h7 h8) hat
  rw [← hn] at hl
  have hr := mapE_ok (fun p : Nat × ClassDef => resolveClass cm p.2) (fun p => classR T L p.2) l
    (fun x hx => by
      obtain ⟨h1, h2, h3⟩ := hb (map_snd_ne_nil hm x hx)
      refine resolveClass_tab h1 h2 h3 x.2 (hwf.classIfaces x.2 ?_)
      rw [← hm]; exact List.mem_map_of_mem hx)
  have hmm : l.map (fun p => classR T L p.2) = T.classDefs.map (classR T L) := by
    rw [← hm, List.map_map]; rfl
  simp [step, ht, seek4_aligned _ (hal rfl), hl, structErr, bind, Except.bind, pure, Except.pure, hr, hmm]

end AgVerif.C05
