/-
C22 (part 4) — `control_flow.intervals`: what depends on the list orders.

`grow` (the `while change: for node in graph.rpo[1:]` loop) computes the least set that contains the
header and is closed under "all predecessors inside ⇒ inside" (restricted to the nodes of `order`).
That characterisation does not mention the order of `rpo[1:]`, so the node SET of an interval is a
function of the graph alone; only the insertion order of `Interval.content` (which `compute_end`, site
A1, reads) depends on the numbering.
-/
import AgVerif.Model.Intervals
namespace AgVerif.Intervals
open List

/-- `S` is closed: a node of `order` all of whose predecessors are in `S` is in `S` -/
def Closed (preds : Nat → List Nat) (order : List Nat) (S : Nat → Prop) : Prop :=
  ∀ n ∈ order, (∀ p ∈ preds n, S p) → S n

theorem allPredsIn_iff (preds : Nat → List Nat) (I : List Nat) (n : Nat) :
    allPredsIn preds I n = true ↔ ∀ p ∈ preds n, p ∈ I := by
  simp [allPredsIn]

/-- the sweep step -/
def stepF (preds : Nat → List Nat) (I : List Nat) (n : Nat) : List Nat :=
  if allPredsIn preds I n && !I.contains n then I ++ [n] else I

theorem sweep_eq (preds : Nat → List Nat) (order I : List Nat) :
    sweep preds order I = order.foldl (stepF preds) I := rfl

theorem stepF_sub (preds : Nat → List Nat) (I : List Nat) (n x : Nat) (hx : x ∈ I) : x ∈ stepF preds I n := by
  unfold stepF; split
  · exact mem_append_left _ hx
  · exact hx

theorem stepF_len (preds : Nat → List Nat) (I : List Nat) (n : Nat) : I.length ≤ (stepF preds I n).length := by
  unfold stepF; split <;> simp

theorem foldl_sub (preds : Nat → List Nat) : ∀ (l I : List Nat) (x : Nat), x ∈ I → x ∈ l.foldl (stepF preds) I := by
  intro l
  induction l with
  | nil => intro I x hx; exact hx
  | cons n l ih => intro I x hx; exact ih _ x (stepF_sub preds I n x hx)

theorem foldl_len (preds : Nat → List Nat) : ∀ (l I : List Nat), I.length ≤ (l.foldl (stepF preds) I).length := by
  intro l
  induction l with
  | nil => intro I; exact Nat.le_refl _
  | cons n l ih => intro I; exact Nat.le_trans (stepF_len preds I n) (ih _)

theorem foldl_nodup (preds : Nat → List Nat) : ∀ (l I : List Nat), I.Nodup → (l.foldl (stepF preds) I).Nodup := by
  intro l
  induction l with
  | nil => intro I h; exact h
  | cons n l ih =>
    intro I h
    apply ih
    unfold stepF; split
    · next hc =>
      simp only [Bool.and_eq_true, Bool.not_eq_true', contains_eq_mem, decide_eq_false_iff_not] at hc
      exact nodup_append.mpr ⟨h, by simp, by intro a ha b hb; simp at hb; subst hb; intro e; exact hc.2 (e ▸ ha)⟩
    · exact h

/-- everything a sweep adds is forced by closedness -/
theorem foldl_sound (preds : Nat → List Nat) (order : List Nat) (S : Nat → Prop) (hS : Closed preds order S) :
    ∀ (l I : List Nat), (∀ n ∈ l, n ∈ order) → (∀ x ∈ I, S x) → ∀ x ∈ l.foldl (stepF preds) I, S x := by
  intro l
  induction l with
  | nil => intro I _ hI x hx; exact hI x hx
  | cons n l ih =>
    intro I hl hI
    apply ih _ (fun m hm => hl m (mem_cons_of_mem _ hm))
    intro x hx
    unfold stepF at hx; split at hx
    · next hc =>
      rcases mem_append.mp hx with h | h
      · exact hI x h
      · simp at h; subst h
        simp only [Bool.and_eq_true] at hc
        exact hS x (hl x (mem_cons_self ..)) (fun p hp => hI p ((allPredsIn_iff preds I x).mp hc.1 p hp))
    · exact hI x hx

/-- a sweep that adds nothing found no candidate: the set is closed -/
theorem foldl_fix (preds : Nat → List Nat) : ∀ (l I : List Nat), (l.foldl (stepF preds) I).length = I.length →
    ∀ n ∈ l, (∀ p ∈ preds n, p ∈ I) → n ∈ I := by
  intro l
  induction l with
  | nil => intro I _ n hn; simp at hn
  | cons m l ih =>
    intro I hlen n hn hp
    have h1 := stepF_len preds I m
    have h2 := foldl_len preds l (stepF preds I m)
    simp only [foldl_cons] at hlen
    have hme : (stepF preds I m).length = I.length := by omega
    have hst : stepF preds I m = I := by
      unfold stepF at hme ⊢; split
      · next hc => rw [if_pos hc] at hme; simp at hme
      · rfl
    rw [hst] at hlen
    rcases mem_cons.mp hn with e | e
    · subst e
      apply Classical.byContradiction
      intro hni
      have : stepF preds I n = I ++ [n] := by
        unfold stepF
        rw [if_pos]
        simp only [Bool.and_eq_true, Bool.not_eq_true', contains_eq_mem, decide_eq_false_iff_not]
        exact ⟨(allPredsIn_iff preds I n).mpr hp, hni⟩
      rw [this] at hst
      have := congrArg length hst
      simp at this
    · exact ih I hlen n e hp

/-- a sweep that adds something adds a node of `order` that was not there -/
theorem foldl_grows (preds : Nat → List Nat) : ∀ (l I : List Nat), (l.foldl (stepF preds) I).length ≠ I.length →
    ∃ n ∈ l, n ∉ I ∧ n ∈ l.foldl (stepF preds) I := by
  intro l
  induction l with
  | nil => intro I h; simp at h
  | cons m l ih =>
    intro I hlen
    simp only [foldl_cons] at hlen ⊢
    by_cases hc : (allPredsIn preds I m && !I.contains m) = true
    · have hst : stepF preds I m = I ++ [m] := by unfold stepF; rw [if_pos hc]
      simp only [Bool.and_eq_true, Bool.not_eq_true', contains_eq_mem, decide_eq_false_iff_not] at hc
      refine ⟨m, mem_cons_self .., hc.2, foldl_sub preds l _ m ?_⟩
      rw [hst]; simp
    · have hst : stepF preds I m = I := by unfold stepF; rw [if_neg hc]
      rw [hst] at hlen ⊢
      obtain ⟨n, hn, h1, h2⟩ := ih I hlen
      exact ⟨n, mem_cons_of_mem _ hn, h1, h2⟩

/-! ### `grow`: the least closed set -/

/-- what `grow` returns: a duplicate-free extension of the start that is closed and is contained in
    every closed set containing the start -/
theorem grow_spec (preds : Nat → List Nat) (order : List Nat) : ∀ (f : Nat) (I R : List Nat),
    grow preds order f I = some R →
    (∀ x ∈ I, x ∈ R) ∧ Closed preds order (· ∈ R) ∧
    (∀ S : Nat → Prop, Closed preds order S → (∀ x ∈ I, S x) → ∀ x ∈ R, S x) ∧ (I.Nodup → R.Nodup) := by
  intro f
  induction f with
  | zero => intro I R h; simp [grow] at h
  | succ f ih =>
    intro I R h
    simp only [grow] at h
    split at h
    · next hlen =>
      cases h
      refine ⟨fun x hx => hx, ?_, fun S _ hI x hx => hI x hx, fun h => h⟩
      intro n hn hp
      exact foldl_fix preds order I hlen n hn hp
    · obtain ⟨h1, h2, h3, h4⟩ := ih _ R h
      refine ⟨fun x hx => h1 x (foldl_sub preds order I x hx), h2, ?_, fun hI => h4 (foldl_nodup preds order I hI)⟩
      intro S hS hI x hx
      exact h3 S hS (foldl_sound preds order S hS order I (fun n hn => hn) hI) x hx

theorem filter_length_lt {α} (p q : α → Bool) : ∀ (l : List α), (∀ x, p x = true → q x = true) →
    (∃ n ∈ l, q n = true ∧ p n = false) → (l.filter p).length < (l.filter q).length := by
  intro l
  induction l with
  | nil => intro _ h; obtain ⟨n, hn, _⟩ := h; simp at hn
  | cons a l ih =>
    intro hpq hex
    have hle : (l.filter p).length ≤ (l.filter q).length := by
      clear ih hex
      induction l with
      | nil => simp
      | cons b l ih2 =>
        simp only [filter_cons]
        by_cases hb : p b = true
        · simp [hb, hpq b hb]; exact ih2
        · by_cases hqb : q b = true <;> simp [hb, hqb] <;> omega
    obtain ⟨n, hn, hq, hp⟩ := hex
    simp only [filter_cons]
    rcases mem_cons.mp hn with e | e
    · subst e; simp [hq, hp]; omega
    · have := ih hpq ⟨n, e, hq, hp⟩
      by_cases ha : p a = true
      · simp [ha, hpq a ha]; exact this
      · by_cases hqa : q a = true <;> simp [ha, hqa] <;> omega

/-- `grow` terminates: every sweep that changes something consumes a node of `order` -/
theorem grow_total (preds : Nat → List Nat) (order : List Nat) : ∀ (f : Nat) (I : List Nat),
    (order.filter (fun n => !I.contains n)).length < f → ∃ R, grow preds order f I = some R := by
  intro f
  induction f with
  | zero => intro I h; omega
  | succ f ih =>
    intro I h
    simp only [grow]
    split
    · exact ⟨I, rfl⟩
    · next hlen =>
      apply ih
      obtain ⟨n, hn, hni, hnm⟩ := foldl_grows preds order I hlen
      have := filter_length_lt (fun n => !(sweep preds order I).contains n) (fun n => !I.contains n) order
        (by
          intro x hx
          simp only [Bool.not_eq_true', contains_eq_mem, decide_eq_false_iff_not] at hx ⊢
          exact fun hxi => hx (foldl_sub preds order I x hxi))
        ⟨n, hn, by simpa using hni, by simpa [sweep_eq] using hnm⟩
      omega

/-- the interval of a header is computed without running out of fuel -/
theorem intervalOf_total (preds : Nat → List Nat) (order : List Nat) (h : Nat) :
    ∃ R, intervalOf preds order (order.length + 2) h = some R := by
  apply grow_total
  have := length_filter_le (fun n => !([h] : List Nat).contains n) order
  omega

/-- the node set of an interval does not depend on the order (or multiplicity) in which `rpo[1:]`
    lists the nodes: two runs return permutations of one another -/
theorem intervalOf_perm (preds : Nat → List Nat) {order₁ order₂ : List Nat}
    (ho : ∀ n, n ∈ order₁ ↔ n ∈ order₂) (f₁ f₂ h : Nat) (R₁ R₂ : List Nat)
    (h1 : intervalOf preds order₁ f₁ h = some R₁) (h2 : intervalOf preds order₂ f₂ h = some R₂) :
    R₁ ~ R₂ := by
  obtain ⟨a1, a2, a3, a4⟩ := grow_spec preds order₁ f₁ [h] R₁ h1
  obtain ⟨b1, b2, b3, b4⟩ := grow_spec preds order₂ f₂ [h] R₂ h2
  have c12 : Closed preds order₁ (· ∈ R₂) := fun n hn hp => b2 n ((ho n).mp hn) hp
  have c21 : Closed preds order₂ (· ∈ R₁) := fun n hn hp => a2 n ((ho n).mpr hn) hp
  exact (perm_ext_iff_of_nodup (a4 (by simp)) (b4 (by simp))).mpr
    (fun x => ⟨a3 _ c12 b1 x, b3 _ c21 a1 x⟩)

/-! ### the header loop -/

/-- the interval of `h` as a notion that mentions no order: the least closed set containing `h` -/
def Least (preds : Nat → List Nat) (order : List Nat) (h x : Nat) : Prop :=
  ∀ S : Nat → Prop, Closed preds order S → S h → S x

/-- the headers: the least set that contains the entry and, with a header `a`, every node outside the
    interval of `a` that has a predecessor inside it -/
def IsHead (preds : Nat → List Nat) (order nodes : List Nat) (entry h : Nat) : Prop :=
  ∀ T : Nat → Prop, T entry →
    (∀ a, T a → ∀ n ∈ nodes, ¬ Least preds order a n → (∃ p ∈ preds n, Least preds order a p) → T n) → T h

theorem intervalOf_least (preds : Nat → List Nat) (order : List Nat) (f h : Nat) (R : List Nat)
    (hR : intervalOf preds order f h = some R) : ∀ x, x ∈ R ↔ Least preds order h x := by
  obtain ⟨a1, a2, a3, _⟩ := grow_spec preds order f [h] R hR
  intro x
  constructor
  · intro hx S hS hh
    exact a3 S hS (fun y hy => by simp at hy; subst hy; exact hh) x hx
  · intro hx
    exact hx (· ∈ R) a2 (a1 h (by simp))

def nhStep (preds : Nat → List Nat) (I : List Nat) (hs : List Nat) (n : Nat) : List Nat :=
  if !I.contains n && !hs.contains n && anyPredIn preds I n then hs ++ [n] else hs

theorem newHeads_eq (preds : Nat → List Nat) (nodes I heads : List Nat) :
    newHeads preds nodes I heads = nodes.foldl (nhStep preds I) heads := rfl

theorem anyPredIn_iff (preds : Nat → List Nat) (I : List Nat) (n : Nat) :
    anyPredIn preds I n = true ↔ ∃ p ∈ preds n, p ∈ I := by
  simp [anyPredIn]

theorem nh_sub (preds : Nat → List Nat) (I : List Nat) : ∀ (l hs : List Nat) (x : Nat), x ∈ hs →
    x ∈ l.foldl (nhStep preds I) hs := by
  intro l
  induction l with
  | nil => intro hs x hx; exact hx
  | cons n l ih =>
    intro hs x hx
    apply ih
    unfold nhStep; split
    · exact mem_append_left _ hx
    · exact hx

theorem nh_len (preds : Nat → List Nat) (I : List Nat) : ∀ (l hs : List Nat),
    (l.foldl (nhStep preds I) hs).length ≤ hs.length + l.length := by
  intro l
  induction l with
  | nil => intro hs; simp
  | cons n l ih =>
    intro hs
    have := ih (nhStep preds I hs n)
    have h2 : (nhStep preds I hs n).length ≤ hs.length + 1 := by unfold nhStep; split <;> simp
    simp only [foldl_cons, length_cons]
    omega

theorem nh_sound (preds : Nat → List Nat) (I : List Nat) : ∀ (l hs : List Nat) (x : Nat),
    x ∈ l.foldl (nhStep preds I) hs → x ∈ hs ∨ (x ∈ l ∧ x ∉ I ∧ ∃ p ∈ preds x, p ∈ I) := by
  intro l
  induction l with
  | nil => intro hs x hx; exact Or.inl hx
  | cons n l ih =>
    intro hs x hx
    rcases ih _ x hx with h | ⟨h1, h2⟩
    · unfold nhStep at h; split at h
      · next hc =>
        rcases mem_append.mp h with h | h
        · exact Or.inl h
        · simp at h; subst h
          simp only [Bool.and_eq_true, Bool.not_eq_true', contains_eq_mem, decide_eq_false_iff_not] at hc
          exact Or.inr ⟨mem_cons_self .., hc.1.1, (anyPredIn_iff preds I x).mp hc.2⟩
      · exact Or.inl h
    · exact Or.inr ⟨mem_cons_of_mem _ h1, h2⟩

theorem nh_complete (preds : Nat → List Nat) (I : List Nat) : ∀ (l hs : List Nat) (n : Nat), n ∈ l →
    n ∉ I → (∃ p ∈ preds n, p ∈ I) → n ∈ l.foldl (nhStep preds I) hs := by
  intro l
  induction l with
  | nil => intro hs n hn; simp at hn
  | cons m l ih =>
    intro hs n hn hni hp
    rcases mem_cons.mp hn with e | e
    · subst e
      simp only [foldl_cons]
      apply nh_sub
      unfold nhStep
      by_cases hh : n ∈ hs
      · split
        · exact mem_append_left _ hh
        · exact hh
      · rw [if_pos]
        · simp
        · simp only [Bool.and_eq_true, Bool.not_eq_true', contains_eq_mem, decide_eq_false_iff_not]
          exact ⟨⟨hni, hh⟩, (anyPredIn_iff preds I n).mpr hp⟩
    · exact ih _ n e hni hp

/-- loop invariant of `while heads:` -/
structure Inv (preds : Nat → List Nat) (order nodes : List Nat) (entry : Nat)
    (heads processed : List Nat) (out : List (Nat × List Nat)) : Prop where
  hH : ∀ h ∈ heads, IsHead preds order nodes entry h
  pH : ∀ h ∈ processed, IsHead preds order nodes entry h
  outP : ∀ h, h ∈ out.map Prod.fst ↔ h ∈ processed
  outI : ∀ p ∈ out, ∀ x, x ∈ p.2 ↔ Least preds order p.1 x
  nodup : (out.map Prod.fst).Nodup
  ent : entry ∈ heads ∨ entry ∈ processed
  clo : ∀ a ∈ processed, ∀ n ∈ nodes, ¬ Least preds order a n → (∃ p ∈ preds n, Least preds order a p) →
    n ∈ heads ∨ n ∈ processed
  outN : ∀ p ∈ out, p.2.Nodup

/-- what `intervals` returns, without reference to any order -/
structure Final (preds : Nat → List Nat) (order nodes : List Nat) (entry : Nat)
    (res : List (Nat × List Nat)) : Prop where
  heads : ∀ h, h ∈ res.map Prod.fst ↔ IsHead preds order nodes entry h
  content : ∀ p ∈ res, ∀ x, x ∈ p.2 ↔ Least preds order p.1 x
  nodup : (res.map Prod.fst).Nodup
  cnodup : ∀ p ∈ res, p.2.Nodup

theorem loop_spec (preds : Nat → List Nat) (order nodes : List Nat) (entry ifuel : Nat) :
    ∀ (f : Nat) (heads processed : List Nat) (out res : List (Nat × List Nat)),
    loop preds order nodes ifuel f heads processed out = some res →
    Inv preds order nodes entry heads processed out → Final preds order nodes entry res := by
  intro f
  induction f with
  | zero => intro heads processed out res h; simp [loop] at h
  | succ f ih =>
    intro heads processed out res h inv
    cases heads with
    | nil =>
      simp only [loop] at h
      cases h
      refine ⟨fun h => ⟨fun hh => inv.pH h ((inv.outP h).mp hh), fun hh => (inv.outP h).mpr ?_⟩,
        inv.outI, inv.nodup, inv.outN⟩
      -- `processed` contains the entry and is closed under the header rule
      apply hh (· ∈ processed)
      · rcases inv.ent with e | e
        · simp at e
        · exact e
      · intro a ha n hn h1 h2
        rcases inv.clo a ha n hn h1 h2 with e | e
        · simp at e
        · exact e
    | cons hd heads =>
      simp only [loop] at h
      split at h
      · next hproc =>
        have hproc' : hd ∈ processed := by simpa using hproc
        apply ih heads processed out res h
        refine ⟨fun x hx => inv.hH x (mem_cons_of_mem _ hx), inv.pH, inv.outP, inv.outI, inv.nodup, ?_, ?_,
          inv.outN⟩
        · rcases inv.ent with e | e
          · rcases mem_cons.mp e with e | e
            · exact Or.inr (e ▸ hproc')
            · exact Or.inl e
          · exact Or.inr e
        · intro a ha n hn h1 h2
          rcases inv.clo a ha n hn h1 h2 with e | e
          · rcases mem_cons.mp e with e | e
            · exact Or.inr (e ▸ hproc')
            · exact Or.inl e
          · exact Or.inr e
      · next hproc =>
        have hproc' : hd ∉ processed := by simpa using hproc
        split at h
        · simp at h
        · next I hI =>
          have hL := intervalOf_least preds order ifuel hd I hI
          have hdH : IsHead preds order nodes entry hd := inv.hH hd (mem_cons_self ..)
          apply ih _ _ _ res h
          refine ⟨?_, ?_, ?_, ?_, ?_, ?_, ?_, ?_⟩
          rotate_right
          · intro p hp
            rcases mem_append.mp hp with e | e
            · exact inv.outN p e
            · simp at e; subst e
              exact (grow_spec preds order ifuel [hd] I hI).2.2.2 (by simp)
          · intro x hx
            rcases nh_sound preds I nodes heads x hx with e | ⟨e1, e2, p, hp, hpI⟩
            · exact inv.hH x (mem_cons_of_mem _ e)
            · intro T hT1 hT2
              exact hT2 hd (hdH T hT1 hT2) x e1 (fun c => e2 ((hL x).mpr c)) ⟨p, hp, (hL p).mp hpI⟩
          · intro x hx
            rcases mem_cons.mp hx with e | e
            · exact e ▸ hdH
            · exact inv.pH x e
          · intro x
            simp only [map_append, map_cons, map_nil, mem_append, mem_cons, not_mem_nil, or_false]
            rw [inv.outP x]
            exact or_comm
          · intro p hp x
            rcases mem_append.mp hp with e | e
            · exact inv.outI p e x
            · simp at e; subst e; exact hL x
          · simp only [map_append, map_cons, map_nil]
            refine nodup_append.mpr ⟨inv.nodup, by simp, ?_⟩
            intro a ha b hb
            simp at hb; subst hb
            intro e; subst e
            exact hproc' ((inv.outP a).mp ha)
          · rcases inv.ent with e | e
            · rcases mem_cons.mp e with e | e
              · exact Or.inr (e ▸ mem_cons_self ..)
              · exact Or.inl (nh_sub preds I nodes heads entry e)
            · exact Or.inr (mem_cons_of_mem _ e)
          · intro a ha n hn h1 h2
            rcases mem_cons.mp ha with e | e
            · subst e
              obtain ⟨p, hp, hpL⟩ := h2
              exact Or.inl (nh_complete preds I nodes heads n hn (fun c => h1 ((hL n).mp c))
                ⟨p, hp, (hL p).mpr hpL⟩)
            · rcases inv.clo a e n hn h1 h2 with e' | e'
              · rcases mem_cons.mp e' with e' | e'
                · exact Or.inr (e' ▸ mem_cons_self ..)
                · exact Or.inl (nh_sub preds I nodes heads n e')
              · exact Or.inr (mem_cons_of_mem _ e')

/-- PARTIAL CORRECTNESS of `intervals`: the returned dict has exactly the headers as keys, each once,
    and maps a header to (a duplicate-free list of) its interval -/
theorem intervals_spec (preds : Nat → List Nat) (order nodes : List Nat) (entry : Nat)
    (res : List (Nat × List Nat)) (h : intervals preds order nodes entry = some res) :
    Final preds order nodes entry res := by
  apply loop_spec preds order nodes entry _ _ _ _ _ res h
  refine ⟨?_, by simp, by simp, by simp, by simp, Or.inl (by simp), by simp, by simp⟩
  intro x hx
  simp at hx; subst hx
  intro T hT _
  exact hT

/-! ### termination of the header loop -/

theorem loop_total (preds : Nat → List Nat) (order nodes : List Nat) (entry : Nat) :
    ∀ (f : Nat) (heads processed : List Nat) (out : List (Nat × List Nat)),
    (∀ h ∈ heads, h ∈ entry :: nodes) →
    ((entry :: nodes).filter (fun n => !processed.contains n)).length * (nodes.length + 1) + heads.length < f →
    ∃ res, loop preds order nodes (order.length + 2) f heads processed out = some res := by
  intro f
  induction f with
  | zero => intro heads processed out _ h; omega
  | succ f ih =>
    intro heads processed out hh hf
    cases heads with
    | nil => exact ⟨out, by simp [loop]⟩
    | cons hd heads =>
      simp only [loop]
      split
      · apply ih
        · exact fun x hx => hh x (mem_cons_of_mem _ hx)
        · simp only [length_cons] at hf; omega
      · next hproc =>
        have hproc' : hd ∉ processed := by simpa using hproc
        obtain ⟨I, hI⟩ := intervalOf_total preds order hd
        rw [hI]
        apply ih
        · intro x hx
          rcases nh_sound preds I nodes heads x hx with e | ⟨e, _⟩
          · exact hh x (mem_cons_of_mem _ e)
          · exact mem_cons_of_mem _ e
        · have h1 := nh_len preds I nodes heads
          rw [← newHeads_eq] at h1
          have h2 := filter_length_lt (fun n => !(hd :: processed).contains n)
            (fun n => !processed.contains n) (entry :: nodes)
            (by
              intro x hx
              simp only [Bool.not_eq_true', contains_eq_mem, decide_eq_false_iff_not, mem_cons, not_or] at hx ⊢
              exact hx.2)
            ⟨hd, hh hd (mem_cons_self ..), by simpa using hproc', by simp⟩
          have h3 := Nat.mul_le_mul_right (nodes.length + 1) (Nat.succ_le_of_lt h2)
          rw [Nat.succ_mul] at h3
          simp only [length_cons] at hf
          omega

/-- `intervals` terminates on every input (no fuel exhaustion in either loop) -/
theorem intervals_total (preds : Nat → List Nat) (order nodes : List Nat) (entry : Nat) :
    ∃ res, intervals preds order nodes entry = some res := by
  apply loop_total
  · intro h hh; simp at hh; subst hh; exact mem_cons_self ..
  · have := length_filter_le (fun n => !([] : List Nat).contains n) (entry :: nodes)
    have h3 := Nat.mul_le_mul_right (nodes.length + 1) this
    simp only [length_cons, length_nil] at h3 ⊢
    omega

/-! ### independence of the list orders -/

theorem closed_congr (preds : Nat → List Nat) {o₁ o₂ : List Nat} (ho : ∀ n, n ∈ o₁ ↔ n ∈ o₂)
    (S : Nat → Prop) : Closed preds o₁ S ↔ Closed preds o₂ S :=
  ⟨fun h n hn => h n ((ho n).mpr hn), fun h n hn => h n ((ho n).mp hn)⟩

theorem least_congr (preds : Nat → List Nat) {o₁ o₂ : List Nat} (ho : ∀ n, n ∈ o₁ ↔ n ∈ o₂) (h x : Nat) :
    Least preds o₁ h x ↔ Least preds o₂ h x :=
  ⟨fun hl S hS => hl S ((closed_congr preds ho S).mpr hS), fun hl S hS => hl S ((closed_congr preds ho S).mp hS)⟩

theorem isHead_congr (preds : Nat → List Nat) {o₁ o₂ n₁ n₂ : List Nat} (ho : ∀ n, n ∈ o₁ ↔ n ∈ o₂)
    (hn : ∀ n, n ∈ n₁ ↔ n ∈ n₂) (entry h : Nat) :
    IsHead preds o₁ n₁ entry h → IsHead preds o₂ n₂ entry h := by
  intro hh T hT1 hT2
  apply hh T hT1
  intro a ha n hnn h1 h2
  apply hT2 a ha n ((hn n).mp hnn)
  · exact fun c => h1 ((least_congr preds ho a n).mpr c)
  · obtain ⟨p, hp, hpl⟩ := h2
    exact ⟨p, hp, (least_congr preds ho a p).mp hpl⟩

/-- THE INTERVAL PARTITION IS A FUNCTION OF THE GRAPH ALONE: two runs of `intervals` on the same
    predecessor lists whose `rpo[1:]` and `graph.nodes` lists enumerate the same nodes in any order
    both terminate, produce the same set of headers, and map every header to the same set of nodes.
    (The numbering only decides the insertion orders: of `interv_heads`, and of each `Interval.content`.) -/
theorem intervals_order_independent (preds : Nat → List Nat) {o₁ o₂ n₁ n₂ : List Nat}
    (ho : ∀ n, n ∈ o₁ ↔ n ∈ o₂) (hn : ∀ n, n ∈ n₁ ↔ n ∈ n₂) (entry : Nat) :
    ∃ r₁ r₂, intervals preds o₁ n₁ entry = some r₁ ∧ intervals preds o₂ n₂ entry = some r₂ ∧
      r₁.map Prod.fst ~ r₂.map Prod.fst ∧
      ∀ h R₁ R₂, (h, R₁) ∈ r₁ → (h, R₂) ∈ r₂ → R₁ ~ R₂ := by
  obtain ⟨r₁, e1⟩ := intervals_total preds o₁ n₁ entry
  obtain ⟨r₂, e2⟩ := intervals_total preds o₂ n₂ entry
  have F1 := intervals_spec preds o₁ n₁ entry r₁ e1
  have F2 := intervals_spec preds o₂ n₂ entry r₂ e2
  refine ⟨r₁, r₂, e1, e2, ?_, ?_⟩
  · apply (perm_ext_iff_of_nodup F1.nodup F2.nodup).mpr
    intro h
    rw [F1.heads h, F2.heads h]
    exact ⟨isHead_congr preds ho hn entry h,
      isHead_congr preds (fun n => (ho n).symm) (fun n => (hn n).symm) entry h⟩
  · intro h R₁ R₂ m1 m2
    apply (perm_ext_iff_of_nodup (F1.cnodup _ m1) (F2.cnodup _ m2)).mpr
    intro x
    rw [F1.content _ m1 x, F2.content _ m2 x]
    exact least_congr preds ho h x

end AgVerif.Intervals
