/-
C02: byte round trip of the payload items (packed-switch, sparse-switch, fill-array-data): what the payload
constructors read, `get_raw()` writes back.
-/
import AgVerif.Proof.Sweep
set_option linter.unusedSimpArgs false
set_option linter.unusedVariables false
namespace AgVerif.Sweep
open AgVerif.Insn AgVerif.Gen

theorem allBytes_take {bs : List Nat} (h : AllBytes bs) (n : Nat) : AllBytes (bs.take n) :=
  fun b hb => h b (List.mem_of_mem_take hb)

theorem allBytes_drop {bs : List Nat} (h : AllBytes bs) (n : Nat) : AllBytes (bs.drop n) :=
  fun b hb => h b (List.mem_of_mem_drop hb)

theorem allBytes_append {a b : List Nat} : AllBytes (a ++ b) ↔ AllBytes a ∧ AllBytes b := by
  simp [AllBytes, or_imp, forall_and]

/-- one `l` field: unpack then pack gives the four bytes back -/
theorem pack_l_unpack (b0 b1 b2 b3 : Nat) (h0 : b0 < 256) (h1 : b1 < 256) (h2 : b2 < 256) (h3 : b3 < 256) :
    pack [.l] [SC.l.value (leNat [b0, b1, b2, b3])] = some [b0, b1, b2, b3] := by
  have hr : SC.l.inRange (SC.l.value (leNat [b0, b1, b2, b3])) = true := by
    simp [SC.inRange, SC.value, leNat]; omega
  rw [pack_cons_some hr, pack_nil]
  simp only [Option.map_some, SC.size, SC.value, leNat, leBytes4_sext]
  simp only [leBytes, leBytesFrom, Int.reduceMul, Int.ediv_one, List.cons_append, List.nil_append,
    List.append_nil, Option.some.injEq, List.cons.injEq, and_true]
  omega

/-- `readInts` followed by `packInts` restores the bytes read -/
theorem readInts_packInts : ∀ (n : Nat) (buf : List Nat) (ts : List Int), AllBytes buf → readInts n buf = some ts →
    packInts ts = some (buf.take (4 * n)) ∧ 4 * n ≤ buf.length ∧ ts.length = n := by
  intro n
  induction n with
  | zero =>
    intro buf ts _ h
    simp only [readInts, Option.some.injEq] at h
    subst h
    simp [packInts]
  | succ n ih =>
    intro buf ts hb h
    simp only [readInts] at h
    split at h
    · rename_i v hu
      split at h
      · rename_i r hr
        simp only [Option.some.injEq] at h
        subst h
        simp only [unpack, calcsize, SC.size, List.map_cons, List.map_nil, List.sum_cons, List.sum_nil] at hu
        split at hu
        · rename_i hlen
          simp only [List.length_take] at hlen
          obtain ⟨b0, b1, b2, b3, r', rfl⟩ := ex4 buf (by omega)
          simp only [allBytes_cons] at hb
          obtain ⟨h0, h1, h2, h3, hr'⟩ := hb
          simp only [unpackGo, SC.size, List.take_succ_cons, List.take_zero, Option.some.injEq, List.cons.injEq,
            and_true] at hu
          subst hu
          simp only [List.drop_succ_cons, List.drop_zero] at hr
          obtain ⟨ih1, ih2, ih3⟩ := ih r' r hr' hr
          refine ⟨?_, ?_, ?_⟩
          · simp only [packInts, pack_l_unpack b0 b1 b2 b3 h0 h1 h2 h3, ih1]
            have : 4 * (n + 1) = 4 * n + 4 := by omega
            simp [this, List.take_succ_cons]
          · simp only [List.length_cons]; omega
          · simp [ih3]
        · simp at hu
      · simp at h
    · simp at h

end AgVerif.Sweep
