/-
C02: byte round trip of the payload items (packed-switch, sparse-switch, fill-array-data): what the payload
constructors read, `get_raw()` writes back.
-/
import AgVerif.Proof.Sweep
set_option linter.unusedSimpArgs false
set_option linter.unusedVariables false
namespace AgVerif.Sweep
open AgVerif.Insn AgVerif.Gen

theorem allBytes_take {bs : List Nat} (h : AllBytes bs) (n : Nat) : AllBytes (bs.take n) :=
  fun b hb => h b (List.mem_of_mem_take hb)

theorem allBytes_drop {bs : List Nat} (h : AllBytes bs) (n : Nat) : AllBytes (bs.drop n) :=
  fun b hb => h b (List.mem_of_mem_drop hb)

theorem allBytes_append {a b : List Nat} : AllBytes (a ++ b) ↔ AllBytes a ∧ AllBytes b := by
  simp [AllBytes, or_imp, forall_and]

theorem inRange_l {v : Int} (h : -2147483648 ≤ v ∧ v < 2147483648) : SC.l.inRange v = true := by
  simp [SC.inRange, h]

/-- one `l` field: unpack then pack gives the four bytes back -/
theorem pack_l_unpack (b0 b1 b2 b3 : Nat) (h0 : b0 < 256) (h1 : b1 < 256) (h2 : b2 < 256) (h3 : b3 < 256) :
    pack [.l] [SC.l.value (leNat [b0, b1, b2, b3])] = some [b0, b1, b2, b3] := by
  have hr : SC.l.inRange (SC.l.value (leNat [b0, b1, b2, b3])) = true := by
    apply inRange_l
    simp only [SC.value, leNat]; omega
  rw [pack_cons_some hr, pack_nil]
  simp only [Option.map_some, SC.size, SC.value, leNat, leBytes4_sext]
  simp only [leBytes, leBytesFrom, Int.reduceMul, Int.ediv_one, List.cons_append, List.nil_append,
    List.append_nil, Option.some.injEq, List.cons.injEq, and_true]
  omega

theorem packInts_nil : packInts [] = some [] := by rw [packInts]

theorem packInts_cons (v : Int) (vs : List Int) :
    packInts (v :: vs) = match pack [.l] [v], packInts vs with
      | some a, some b => some (a ++ b)
      | _, _ => none := by rw [packInts]; rfl

theorem readInts_zero (buf : List Nat) : readInts 0 buf = some [] := by rw [readInts]

theorem readInts_succ (n : Nat) (buf : List Nat) :
    readInts (n + 1) buf = match unpack [.l] (buf.take 4) with
      | some [v] => (match readInts n (buf.drop 4) with
        | some r => some (v :: r)
        | none => none)
      | _ => none := by rw [readInts]; rfl

/-- `unpack [l]` of a 4-byte slice -/
theorem unpack_l_some {buf : List Nat} {vs : List Int} (h : unpack [.l] (buf.take 4) = some vs) :
    ∃ b0 b1 b2 b3 r, buf = b0 :: b1 :: b2 :: b3 :: r ∧ vs = [SC.l.value (leNat [b0, b1, b2, b3])] := by
  unfold unpack at h
  split at h
  · rename_i hlen
    have : 4 ≤ buf.length := by
      simp only [List.length_take, calcsize, SC.size, List.map_cons, List.map_nil, List.sum_cons, List.sum_nil] at hlen
      omega
    obtain ⟨b0, b1, b2, b3, r, rfl⟩ := ex4 buf this
    refine ⟨b0, b1, b2, b3, r, rfl, ?_⟩
    simp only [Option.some.injEq] at h
    rw [← h]
    simp only [unpackGo, SC.size, List.take_succ_cons, List.take_zero]
  · simp at h

/-- `readInts` followed by `packInts` restores the bytes read -/
theorem readInts_packInts : ∀ (n : Nat) (buf : List Nat) (ts : List Int), AllBytes buf → readInts n buf = some ts →
    packInts ts = some (buf.take (4 * n)) ∧ 4 * n ≤ buf.length ∧ ts.length = n := by
  intro n
  induction n with
  | zero =>
    intro buf ts _ h
    rw [readInts_zero] at h
    simp only [Option.some.injEq] at h
    subst h
    exact ⟨by rw [packInts_nil]; rfl, Nat.zero_le _, rfl⟩
  | succ n ih =>
    intro buf ts hb h
    rw [readInts_succ] at h
    split at h
    · rename_i v hu
      obtain ⟨b0, b1, b2, b3, r', rfl, hv⟩ := unpack_l_some hu
      simp only [List.cons.injEq, and_true] at hv
      simp only [allBytes_cons] at hb
      obtain ⟨h0, h1, h2, h3, hr'⟩ := hb
      have hp := pack_l_unpack b0 b1 b2 b3 h0 h1 h2 h3
      rw [← hv] at hp
      clear hv hu
      simp only [List.drop_succ_cons, List.drop_zero] at h
      split at h
      · rename_i r hr
        simp only [Option.some.injEq] at h
        subst h
        obtain ⟨ih1, ih2, ih3⟩ := ih r' r hr' hr
        refine ⟨?_, ?_, ?_⟩
        · rw [packInts_cons, hp, ih1]
          have : 4 * (n + 1) = 4 * n + 4 := by omega
          simp only [this, List.take_succ_cons, List.cons_append, List.nil_append]
        · simp only [List.length_cons]; omega
        · simp only [List.length_cons, ih3]
      · simp at h
    · simp at h

end AgVerif.Sweep
