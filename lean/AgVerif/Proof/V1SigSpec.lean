/-
Bridge between the model AgVerif.V1Sig and the independent specification AgVerif.Spec.V1Sig:
the model's helpers (digest table lookup over the GENERATED table, `retag`, `contentTypeChecked`, the
attribute lookups, `findCert`) equal the specification's, so that the property theorems can be stated
against the specification alone.
-/
import AgVerif.Proof.V1Sig
import AgVerif.Spec.V1Sig
namespace AgVerif.V1Sig
open AgVerif.Gen

def toSpecVal : AVal → Spec.V1Sig.Val
  | .str s => .name s
  | .oct b => .octets b

def toSpecAttr (a : Attr) : Spec.V1Sig.Attribute := { oid := a.oid, values := a.values.map toSpecVal }

theorem toSpecVal_inj {a b : AVal} (h : toSpecVal a = toSpecVal b) : a = b := by
  cases a <;> cases b <;> simp [toSpecVal] at h <;> simp [h]

/-- the model's `Crypto`, `Input`, `SignerInfo`, `Cert` seen through the specification -/
def SpecVerifies (cr : Crypto) (inp : Input) (si : SignerInfo) (c : Cert) : Prop :=
  Spec.V1Sig.Verifies (fun sig msg cls => cr.verify c.key sig msg cls = .ok) cr.digest
    si.digestAlg ((attrsOf si).map toSpecAttr) si.attrsDump si.sig inp.sf (toSpecVal inp.encap) inp.maxSdk

def SpecSelects (inp : Input) (si : SignerInfo) (c : Cert) : Prop :=
  Spec.V1Sig.Selects (fun d : Cert => d.isCert = true) (·.issuer) (·.serial) inp.certs si.issuer si.serial c

/-! ### the helpers agree -/

theorem lookup_aux (alg : String) : ∀ (l : List (String × String × String)),
    (match l.find? (fun e => e.1 == alg) with
      | some (_, fn, cls) => some (fn, cls)
      | none => none) = (l.find? (fun e => decide (e.1 = alg))).map (fun e => e.2)
  | [] => rfl
  | e :: rest => by
    by_cases h : e.1 = alg
    · simp [h]
    · have hb : (e.1 == alg) = false := by simpa using h
      simp only [List.find?_cons, hb, h, decide_false]
      exact lookup_aux alg rest

/-- get_hash_algorithm over the generated table = the specification's digest table -/
theorem hashLookup_eq_spec (alg : String) : hashLookup alg = Spec.V1Sig.digestOf alg := by
  have ht : V1SigTables.hashAlgorithms = Spec.V1Sig.digestTable := by decide
  unfold hashLookup Spec.V1Sig.digestOf
  rw [ht]
  exact lookup_aux alg _

/-- `b'\x31' + dump[1:]` = RFC 5652 §5.4 re-tagging -/
theorem retag_eq_spec (d : Bytes) : retag d = Spec.V1Sig.signedBytesOfAttrs d := by
  have : V1SigTables.retagByte = Spec.V1Sig.setOfTag := by decide
  unfold retag Spec.V1Sig.signedBytesOfAttrs
  rw [this, List.drop_one]

/-- `max_sdk_version is None or int(max_sdk_version) >= 24` = "enforced from API 24" -/
theorem contentTypeChecked_iff_spec (m : Option Int) :
    contentTypeChecked m = true ↔ Spec.V1Sig.contentTypeEnforced m := by
  cases m with
  | none => simp [contentTypeChecked, Spec.V1Sig.contentTypeEnforced]
  | some n =>
    simp [contentTypeChecked, Spec.V1Sig.contentTypeEnforced, evalCmp, V1SigTables.maxOp, V1SigTables.maxConst]

theorem hasAttr_iff_spec (attrs : List Attr) (oid : String) (v : AVal) :
    (∃ a ∈ attrs, a.oid = oid ∧ a.values.head? = some v) ↔
      Spec.V1Sig.HasAttr (attrs.map toSpecAttr) oid (toSpecVal v) := by
  unfold Spec.V1Sig.HasAttr
  constructor
  · rintro ⟨a, ha, ho, hv⟩
    refine ⟨toSpecAttr a, List.mem_map.mpr ⟨a, ha, rfl⟩, ho, ?_⟩
    simp [toSpecAttr, List.head?_map, hv]
  · rintro ⟨a', ha', ho, hv⟩
    obtain ⟨a, ha, rfl⟩ := List.mem_map.mp ha'
    refine ⟨a, ha, ho, ?_⟩
    simp only [toSpecAttr] at hv
    cases hvals : a.values with
    | nil => simp [hvals] at hv
    | cons x xs =>
      simp only [hvals, List.map_cons, List.head?_cons, Option.some.injEq] at hv
      simp [toSpecVal_inj hv]

theorem oids_map_spec (attrs : List Attr) :
    (attrs.map toSpecAttr).map (·.oid) = attrs.map (·.oid) := by
  simp [List.map_map, Function.comp_def, toSpecAttr]

/-- **The model-side predicate `Verifies` (built from the model's helpers) is the specification's.** -/
theorem verifies_iff_spec (cr : Crypto) (inp : Input) (si : SignerInfo) (c : Cert) :
    Verifies cr inp si c ↔ SpecVerifies cr inp si c := by
  unfold Verifies SpecVerifies Spec.V1Sig.Verifies
  have hmd : V1SigTables.messageDigestOid = Spec.V1Sig.messageDigestOid := by decide
  have hct : V1SigTables.contentTypeOid = Spec.V1Sig.contentTypeOid := by decide
  have hnil : (attrsOf si).map toSpecAttr = [] ↔ attrsOf si = [] := by simp
  constructor
  · rintro ⟨fn, cls, hh, hcase⟩
    refine ⟨fn, cls, by rw [← hashLookup_eq_spec]; exact hh, ?_⟩
    rcases hcase with ⟨he, hok⟩ | ⟨hne, hnd, h1, h2, hok⟩
    · exact Or.inl ⟨hnil.mpr he, hok⟩
    · refine Or.inr ⟨fun h => hne (hnil.mp h), by rw [oids_map_spec]; exact hnd, ?_, ?_, ?_⟩
      · intro he
        rw [← hct]
        exact (hasAttr_iff_spec _ _ _).mp (h1 ((contentTypeChecked_iff_spec _).mpr he))
      · rw [← hmd]
        exact (hasAttr_iff_spec _ _ (.oct (cr.digest fn inp.sf))).mp h2
      · rw [← retag_eq_spec]; exact hok
  · rintro ⟨fn, cls, hh, hcase⟩
    refine ⟨fn, cls, by rw [hashLookup_eq_spec]; exact hh, ?_⟩
    rcases hcase with ⟨he, hok⟩ | ⟨hne, hnd, h1, h2, hok⟩
    · exact Or.inl ⟨hnil.mp he, hok⟩
    · refine Or.inr ⟨fun h => hne (hnil.mpr h), by rw [← oids_map_spec]; exact hnd, ?_, ?_, ?_⟩
      · intro he
        have := h1 ((contentTypeChecked_iff_spec _).mp he)
        rw [← hct] at this
        exact (hasAttr_iff_spec _ _ _).mpr this
      · rw [← hmd] at h2
        exact (hasAttr_iff_spec _ _ (.oct (cr.digest fn inp.sf))).mpr h2
      · rw [retag_eq_spec]; exact hok

/-- find_certificate = "the first certificate of the set with the sid's issuer and serial" -/
theorem findCert_iff_spec (inp : Input) (si : SignerInfo) (c : Cert) :
    findCert inp.certs si = some c ↔ SpecSelects inp si c := by
  unfold findCert SpecSelects Spec.V1Sig.Selects
  rw [List.find?_eq_some_iff_append]
  simp only [Bool.and_eq_true, beq_iff_eq, Bool.not_eq_true', Bool.and_eq_false_imp]
  constructor
  · rintro ⟨⟨⟨h1, h2⟩, h3⟩, as, bs, hl, hpre⟩
    refine ⟨as, bs, hl, h1, h2, h3, ?_⟩
    rintro d hd ⟨e1, e2, e3⟩
    have := hpre d hd
    simp_all
  · rintro ⟨as, bs, hl, h1, h2, h3, hpre⟩
    refine ⟨⟨⟨h1, h2⟩, h3⟩, as, bs, hl, ?_⟩
    intro d hd
    have := hpre d hd
    by_cases e1 : d.isCert = true
    · by_cases e2 : d.issuer = si.issuer
      · by_cases e3 : d.serial = si.serial
        · exact absurd ⟨e1, e2, e3⟩ this
        · simp [e3]
      · simp [e2]
    · simp [e1]

/-- **verify_signer_info_against_sig_file reports `c` exactly when the sid selects `c` and `c` verifies
    (specification).** -/
theorem verifySI_verified_iff_spec (cr : Crypto) (inp : Input) (si : SignerInfo) (c : Cert) :
    verifySI cr inp si = .verified c ↔ SpecSelects inp si c ∧ SpecVerifies cr inp si c := by
  rw [← findCert_iff_spec, ← verifies_iff_spec]
  exact ⟨verifySI_verified, fun ⟨hf, hv⟩ => verifySI_of_verifies hf hv⟩

end AgVerif.V1Sig
