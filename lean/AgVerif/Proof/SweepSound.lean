/-
C02: every item the loop builds re-encodes to the bytes at its offset (instructions: C01 round trip; payloads:
Proof/SweepPayload2.lean).
-/
import AgVerif.Proof.SweepPayload2
set_option linter.unusedSimpArgs false
set_option linter.unusedVariables false
namespace AgVerif.Sweep
open AgVerif.Insn AgVerif.Gen

/-- what `build` can return, and from which constructor -/
inductive Built (buff : List Nat) : Item → Prop
  | insn (f : Fmt) (x : Insn) (h : decode f buff = .ok x) : Built buff (.insn f x)
  | packed (size : Nat) (fk : Int) (ts : List Int) (h : parsePacked buff = some (size, fk, ts))
      (hid : buff.take 2 = [0x00, 0x01]) : Built buff (.packed size fk ts)
  | sparse (size : Nat) (ks ts : List Int) (h : parseSparse buff = some (size, ks, ts))
      (hid : buff.take 2 = [0x00, 0x02]) : Built buff (.sparse size ks ts)
  | fill (w size : Nat) (data : List Nat) (h : parseFill buff = some (w, size, data))
      (hid : buff.take 2 = [0x00, 0x03]) : Built buff (.fill w size data)

theorem insnItem_built {g : Option Fmt} {buff : List Nat} {it : Item} (h : insnItem g buff = some it) :
    Built buff it := by
  unfold insnItem at h
  split at h
  · split at h
    · rename_i x hd
      simp only [Option.some.injEq] at h
      subst h
      exact .insn _ x hd
    · simp at h
  · simp at h

theorem build_built {odex : Bool} {buff : List Nat} {it : Item} (hb : AllBytes buff)
    (h : build odex buff = some it) : Built buff it := by
  unfold build at h
  split at h
  · rename_i lo hi rest
    simp only [allBytes_cons] at hb
    obtain ⟨hlo, hhi, _⟩ := hb
    simp only at h
    split at h
    · split at h
      · rename_i hop
        have : lo = 0 ∧ hi = 1 := by omega
        obtain ⟨rfl, rfl⟩ := this
        cases hp : parsePacked (0 :: 1 :: rest) with
        | none => simp [hp] at h
        | some p =>
          simp only [hp, Option.map_some, Option.some.injEq] at h
          subst h
          exact .packed _ _ _ hp rfl
      · split at h
        · rename_i hop
          have : lo = 0 ∧ hi = 2 := by omega
          obtain ⟨rfl, rfl⟩ := this
          cases hp : parseSparse (0 :: 2 :: rest) with
          | none => simp [hp] at h
          | some p =>
            simp only [hp, Option.map_some, Option.some.injEq] at h
            subst h
            exact .sparse _ _ _ hp rfl
        · split at h
          · rename_i hop
            have : lo = 0 ∧ hi = 3 := by omega
            obtain ⟨rfl, rfl⟩ := this
            cases hp : parseFill (0 :: 3 :: rest) with
            | none => simp [hp] at h
            | some p =>
              simp only [hp, Option.map_some, Option.some.injEq] at h
              subst h
              exact .fill _ _ _ hp rfl
          · split at h
            · exact insnItem_built h
            · split at h
              · exact insnItem_built h
              · simp at h
    · exact insnItem_built h
  · simp at h

theorem step_build {odex : Bool} {bs : List Nat} {maxIdx o : Nat} {it : Item}
    (h : step odex bs maxIdx o = some it) : build odex (bs.drop o) = some it := by
  unfold step at h
  split at h
  · simp at h
  · split at h
    · rename_i it' hbuild
      split at h
      · simp at h
      · simp only [Option.some.injEq] at h
        subst h
        exact hbuild
    · simp at h

/-- every built item that fits in the buffer re-encodes to the bytes it was built from -/
theorem built_raw {buff : List Nat} {it : Item} (hb : AllBytes buff) (h : Built buff it)
    (hlen : it.length ≤ buff.length) : it.raw = some (buff.take it.length) := by
  cases h with
  | insn f x hd => exact roundtrip_all f _ hb x hd
  | packed size fk ts hp hid => exact (parsePacked_raw hb hp hid (by simpa [Item.length] using hlen)).1
  | sparse size ks ts hp hid => exact (parseSparse_raw hb hp hid).1
  | fill w size data hp hid => exact parseFill_raw hb hp hid

/-- every item the loop yields re-encodes to the bytes at its offset -/
theorem step_raw {odex : Bool} {bs : List Nat} {maxIdx o : Nat} {it : Item} (hb : AllBytes bs)
    (hmax : maxIdx ≤ bs.length) (h : step odex bs maxIdx o = some it) :
    it.raw = some ((bs.drop o).take it.length) := by
  have hbd := (step_bound h).1
  exact built_raw (allBytes_drop hb o) (build_built (allBytes_drop hb o) (step_build h))
    (by rw [List.length_drop]; omega)

end AgVerif.Sweep
