/- C26, file level: what the printer reads out of a parser state that sits on a START / END / TEXT chunk of an encoded document. -/
import AgVerif.Proof.Axml
import AgVerif.Proof.AxmlInv
import AgVerif.Proof.AxmlValue
namespace AgVerif.Proof.Axml
open AgVerif.Axml AgVerif.Spec.Axml AgVerif.Gen.AxmlConsts

/-! ### `_fix_name` / `_fix_value` on legal strings -/

theorem fixName_legal (s : PState) (uri n : Str) (h : LegalName n) : fixName s uri n = .ok (uri, n) := by
  match n, h with
  | c :: r, h =>
    simp only [LegalName] at h
    have hc : NameChar c := Or.inl h.1
    have hall : ∀ x ∈ c :: r, NameChar x := by
      intro x hx; simp only [List.mem_cons] at hx; rcases hx with rfl | hx; exact hc; exact h.2 x hx
    have hcolon : ∀ x ∈ c :: r, x ≠ 0x3A := by
      intro x hx; have := hall x hx; unfold NameChar NameStart at this; omega
    have h80 : ¬ c ≥ 0x80 := by have := h.1; unfold NameStart at this; omega
    have hstart : ¬ (!isAsciiAlpha c ∧ c ≠ 0x5F) := by
      have := h.1; unfold NameStart at this
      simp only [isAsciiAlpha, Bool.not_eq_true', Bool.or_eq_false_iff, Bool.and_eq_false_iff, decide_eq_false_iff_not]
      omega
    have hsplit := splitColon_none (c :: r) hcolon
    have hnot : ¬ ((c :: r).take 8 = lit "android:") := by
      intro he
      have : (0x3A : Nat) ∈ (c :: r).take 8 := by rw [he]; decide
      exact hcolon _ (List.mem_of_mem_take this) rfl
    have hm : nameMatches (c :: r) = true := by
      simp only [nameMatches, Bool.or_eq_true]; left
      rw [List.all_eq_true]; intro x hx; exact (nameClass_iff x).2 (hall x hx)
    have hnot' : ¬ (c :: List.take 7 r = lit "android:") := by simpa using hnot
    unfold fixName
    simp only [List.headD_cons, h80, if_false, hstart]
    by_cases hu : uri.isEmpty = true
    · simp [hnot', hu, hsplit, hm, bind, Except.bind]
    · simp [hnot', hu, hm, bind, Except.bind]

theorem fixValue_legal (v : Str) (h : LegalValue v) : fixValue v = v := by
  have h0 : ∀ c ∈ v, c ≠ 0 := fun c hc => by have := h c hc; unfold XmlChar at this; omega
  have htw : v.takeWhile (fun x => decide (x ≠ 0)) = v :=
    takeWhile_all v (fun c hc => by simpa using h0 c hc)
  have hall : v.all (inClass valueMatchClass) = true := by
    rw [List.all_eq_true]; intro c hc; exact (valueClass_iff c).2 (h c hc)
  simp only [fixValue]
  rw [htw]
  simp only [hall, if_true]

/-! ### indices into the pool -/

theorem res_idxOf_lt (l : List Str) (x : Str) (h : x ∈ l) : l.idxOf x < l.length := by
  induction l with
  | nil => simp at h
  | cons y r ih =>
    rw [List.idxOf_cons]
    by_cases hy : y = x
    · simp [hy]
    · have hx : x ∈ r := by
        simp only [List.mem_cons] at h
        rcases h with h | h
        · exact absurd h.symm hy
        · exact h
      have := ih hx
      have hb : (y == x) = false := by simp [hy]
      simp only [hb, cond_false, List.length_cons]
      omega

theorem res_sidx_ne (E : Enc) (s : PState) (hp : PoolOk E s) (x : Str) (h : x ∈ E.strings) : sidx E x ≠ noEntry := by
  have h1 := res_idxOf_lt E.strings x h
  have h2 := hp.small
  unfold sidx noEntry
  omega

theorem res_legal_ne_nil (n : Str) (h : LegalName n) : n.isEmpty = false := by
  cases n with
  | nil => simp [LegalName] at h
  | cons c r => rfl

theorem res_legal_chars (n : Str) (h : LegalName n) : ∀ x ∈ n, NameChar x := by
  cases n with
  | nil => simp [LegalName] at h
  | cons c r =>
    simp only [LegalName] at h
    intro x hx
    simp only [List.mem_cons] at hx
    rcases hx with rfl | hx
    · exact Or.inl h.1
    · exact h.2 x hx

theorem res_legal_ne_colon (n : Str) (h : LegalName n) : n ≠ [0x3A] := by
  intro he
  have := res_legal_chars n h 0x3A (by rw [he]; simp)
  unfold NameChar NameStart at this
  omega

/-! ### namespaces -/

theorem res_safeUri_ne (u : Str) (h : safeUri u = true) : u.isEmpty = false := by
  unfold safeUri at h
  simp only [Bool.and_eq_true, Bool.not_eq_true'] at h
  exact h.1.1

theorem res_safePrefix_ne (p : Str) (h : safePrefix p = true) : p.isEmpty = false := by
  unfold safePrefix at h
  simp only [Bool.and_eq_true, Bool.not_eq_true'] at h
  exact h.1.1.1.1

theorem res_nsString (E : Enc) (s : PState) (hp : PoolOk E s) (ns : Option Str) (h : wfNs E ns = true) :
    nsString s (oidx E ns) = .ok (ns.getD []) := by
  cases ns with
  | none => simp [nsString, oidx, noEntry]
  | some u =>
    simp only [wfNs, Bool.and_eq_true, decide_eq_true_eq] at h
    have hne := res_sidx_ne E s hp u h.1
    simp only [nsString, oidx, hne, if_false, Option.getD_some]
    exact hp.get u h.1

theorem res_checkUri (E : Enc) (ns : Option Str) (h : wfNs E ns = true) : checkUri (ns.getD []) = .ok () := by
  cases ns with
  | none => simp [checkUri]
  | some u =>
    simp only [wfNs, Bool.and_eq_true, decide_eq_true_eq] at h
    simp [checkUri, h.2]

theorem res_checkName (n : Str) (h : LegalName n) : checkName n = .ok () := by
  have hall := res_legal_chars n h
  cases n with
  | nil => simp [LegalName] at h
  | cons c r =>
    simp only [LegalName] at h
    have h1 : (isAsciiAlpha c || decide (c = 0x5F)) = true := by
      have := h.1; unfold NameStart at this
      simp only [isAsciiAlpha, Bool.or_eq_true, Bool.and_eq_true, decide_eq_true_eq]
      omega
    have h2 : ¬ (c :: r).getLast? = some 0x0A := by
      intro he
      have hm : (0x0A : Nat) ∈ c :: r := List.mem_of_getLast? he
      have := hall _ hm
      unfold NameChar NameStart at this
      omega
    simp [checkName, h1, h2]

theorem res_foldlM_ok {α β : Type} (P : β → Prop) (Q : α → Prop) (f : β → α → Except String β)
    (hf : ∀ b a, P b → Q a → ∃ b', f b a = .ok b' ∧ P b') (l : List α) (hl : ∀ a ∈ l, Q a) (b : β) (hb : P b) :
    ∃ b', l.foldlM f b = .ok b' ∧ P b' := by
  induction l generalizing b with
  | nil => exact ⟨b, rfl, hb⟩
  | cons a r ih =>
    obtain ⟨b1, e1, p1⟩ := hf b a hb (hl a (by simp))
    obtain ⟨b2, e2, p2⟩ := ih (fun x hx => hl x (by simp [hx])) b1 p1
    refine ⟨b2, ?_, p2⟩
    rw [List.foldlM_cons, e1]
    exact e2

theorem res_foldlM_ok' {α β : Type} (P : β → Prop) (Q : α → Prop) (f : β → α → Except String β)
    (hf : ∀ b a, P b → Q a → ∃ b', f b a = .ok b' ∧ P b') (l : List α) (hl : ∀ a ∈ l, Q a) (b : β) (hb : P b) :
    ∃ b', l.foldlM f b = .ok b' := by
  obtain ⟨b', h, _⟩ := res_foldlM_ok P Q f hf l hl b hb
  exact ⟨b', h⟩

/-- the namespace map of the open namespaces can be computed (no prefix/URI the model refuses, no re-binding) -/
theorem nsmap_ok (E : Enc) (D : List (Str × Str)) (s : PState) (hp : PoolOk E s) (hd : DeclsOk E D) (hn : NsOk E D s) :
    ∃ m, nsmap s = .ok m := by
  unfold nsmap
  refine res_foldlM_ok' (fun acc : List (Str × Str) => ∀ pu ∈ acc, pu ∈ D)
    (fun kv : Nat × Nat => ∃ d ∈ D, kv = (sidx E d.1, sidx E d.2)) _ ?_ s.namespaces hn [] (by simp)
  intro acc kv hacc hkv
  obtain ⟨d, hdD, rfl⟩ := hkv
  have hw := hd.1 d hdD
  simp only [wfDecl, Bool.and_eq_true, decide_eq_true_eq] at hw
  obtain ⟨⟨⟨m1, m2⟩, sp⟩, su⟩ := hw
  have e1 := res_safePrefix_ne _ sp
  have e2 := res_safeUri_ne _ su
  simp only [hp.get _ m1, hp.get _ m2, bind, Except.bind, e1, e2, sp, su]
  cases hfind : List.find? (fun x => decide (x.1 = d.1)) acc with
  | none =>
    refine ⟨acc ++ [(d.1, d.2)], by simp, ?_⟩
    intro pu hpu
    simp only [List.mem_append, List.mem_singleton] at hpu
    rcases hpu with h | h
    · exact hacc pu h
    · rw [h]; exact hdD
  | some pu =>
    have hmem := hacc pu (List.mem_of_find?_eq_some hfind)
    have hpred : pu.1 = d.1 := by simpa using List.find?_some hfind
    have := hd.2 pu hmem d hdD hpred
    exact ⟨acc, by simp [this], hacc⟩

/-! ### attributes -/

/-- "_" -> ":" (what `getAttributeName` does to a system attribute name) -/
def colonise (n : Str) : Str := n.map fun c => if c = 0x5F then 0x3A else c

theorem res_colonise_id (n : Str) (h : n.contains 0x5F = false) : colonise n = n := by
  induction n with
  | nil => rfl
  | cons c r ih =>
    simp only [List.contains_cons, Bool.or_eq_false_iff, beq_eq_false_iff_ne, ne_eq] at h
    have hc : ¬ c = 0x5F := fun e => h.1 e.symm
    simp only [colonise, List.map_cons, hc, if_false] at ih ⊢
    rw [ih h.2]

theorem res_uncolonise (n : Str) (h : ∀ x ∈ n, NameChar x) :
    (colonise n).map (fun c => if inClass nameKeepClass c then c else 0x5F) = n := by
  induction n with
  | nil => rfl
  | cons c r ih =>
    have hc := h c (by simp)
    have e : (if inClass nameKeepClass (if c = 0x5F then 0x3A else c) = true then (if c = 0x5F then 0x3A else c) else 0x5F) = c := by
      by_cases h5 : c = 0x5F
      · subst h5; decide
      · have : inClass nameKeepClass c = true := by
          have := (nameClass_iff c).2 hc
          rwa [show nameKeepClass = nameMatchClass from by decide]
        simp [h5, this]
    simp only [colonise, List.map_cons, List.map_map] at ih ⊢
    rw [e, ih (fun x hx => h x (by simp [hx]))]

theorem res_colonise_matches (n : Str) (h : ∀ x ∈ n, NameChar x) (hm : nameMatches (colonise n) = true) : colonise n = n := by
  apply res_colonise_id
  simp only [nameMatches, Bool.or_eq_true, Bool.and_eq_true, decide_eq_true_eq] at hm
  have hall : (colonise n).all (inClass nameMatchClass) = true := by
    rcases hm with hm | hm
    · exact hm
    · exfalso
      have hl := hm.1
      simp only [colonise, List.getLast?_map, Option.map_eq_some_iff] at hl
      obtain ⟨x, hx, hx2⟩ := hl
      have hxn := h x (List.mem_of_getLast? hx)
      by_cases h5 : x = 0x5F
      · simp [h5] at hx2
      · simp only [h5, if_false] at hx2
        subst hx2
        unfold NameChar NameStart at hxn; omega
  cases hc : n.contains 0x5F with
  | false => rfl
  | true =>
    exfalso
    rw [List.contains_iff_mem] at hc
    rw [List.all_eq_true] at hall
    have := hall 0x3A (by
      simp only [colonise, List.mem_map]
      exact ⟨0x5F, hc, by simp⟩)
    revert this; decide

/-- `_fix_name` on a system attribute name whose "_" were turned into ":" gives the name back when the attribute has a namespace -/
theorem fixName_colonised (s : PState) (uri n : Str) (h : LegalName n) (hu : uri.isEmpty = false)
    (hh : n.head? ≠ some 0x5F) : fixName s uri (colonise n) = .ok (uri, n) := by
  have hall := res_legal_chars n h
  match n, h with
  | c :: r, h =>
    simp only [LegalName] at h
    have hc5 : ¬ c = 0x5F := by simpa using hh
    have h80 : ¬ c ≥ 0x80 := by have := h.1; unfold NameStart at this; omega
    have hstart : ¬ (!isAsciiAlpha c ∧ c ≠ 0x5F) := by
      have := h.1; unfold NameStart at this
      simp only [isAsciiAlpha, Bool.not_eq_true', Bool.or_eq_false_iff, Bool.and_eq_false_iff, decide_eq_false_iff_not]
      omega
    have hcol : colonise (c :: r) = c :: colonise r := by simp [colonise, hc5]
    have hun := res_uncolonise (c :: r) hall
    unfold fixName
    rw [hcol]
    simp only [List.headD_cons, h80, if_false, hstart, hu, Bool.false_eq_true, and_false, bind, Except.bind]
    rw [← hcol]
    by_cases hm : nameMatches (colonise (c :: r)) = true
    · have hid := res_colonise_matches _ hall hm
      rw [hid] at hm ⊢
      simp [hm]
    · simp [hm, hun]

theorem res_attrName (E : Enc) (s : PState) (hp : PoolOk E s) (a : SAttr) (hmem : a.name ∈ E.strings)
    (hl : LegalName a.name) (hns : wfNs E a.ns = true) (hr : resNameOk E a = true) :
    ∃ res, AgVerif.Axml.attrName s (rawOf E a) = .ok res ∧ fixName s (a.ns.getD []) res = .ok (a.ns.getD [], a.name) := by
  have hne := res_legal_ne_nil _ hl
  have hne' : a.name ≠ [] := by intro h; rw [h] at hne; simp at hne
  have hcol := res_legal_ne_colon _ hl
  have e : s.pool.get (rawOf E a).name = .ok a.name := hp.get _ hmem
  have hidx : (rawOf E a).name = sidx E a.name := rfl
  unfold resNameOk at hr
  unfold AgVerif.Axml.attrName
  rw [e, hp.res]
  simp only [bind, Except.bind]
  rw [hidx]
  cases ho : (E.resIds.getD [])[sidx E a.name]? with
  | none =>
    refine ⟨a.name, ?_, fixName_legal s _ a.name hl⟩
    simp [hne', hcol]
  | some id =>
    rw [ho] at hr
    cases hq : sysAttrName id with
    | none =>
      refine ⟨a.name, ?_, fixName_legal s _ a.name hl⟩
      simp [hq, hne', hcol]
    | some n =>
      simp only [hq, Bool.and_eq_true, Bool.or_eq_true, decide_eq_true_eq, Bool.not_eq_true'] at hr
      obtain ⟨⟨hn, hus⟩, hhead⟩ := hr
      subst hn
      have hcne : colonise a.name ≠ [] := by
        intro h; simp only [colonise, List.map_eq_nil_iff] at h; exact hne' h
      have hc1 : colonise a.name ≠ [0x3A] := by
        intro h
        cases hnm : a.name with
        | nil => exact hne' hnm
        | cons c r =>
          rw [hnm] at h hhead
          simp only [colonise, List.map_cons, List.cons.injEq, List.map_eq_nil_iff] at h
          have hc5 : ¬ c = 0x5F := by simpa using hhead
          simp only [hc5, if_false] at h
          have := res_legal_chars _ hl c (by rw [hnm]; simp)
          rw [h.1] at this; unfold NameChar NameStart at this; omega
      refine ⟨colonise a.name, ?_, ?_⟩
      · have : a.name.map (fun c => if c = 0x5F then 0x3A else c) = colonise a.name := rfl
        simp [hq, this, hcne, hc1]
      · rcases hus with hsome | hno
        · cases hns' : a.ns with
          | none => rw [hns'] at hsome; simp at hsome
          | some u =>
            rw [hns'] at hns
            simp only [wfNs, Bool.and_eq_true, decide_eq_true_eq] at hns
            simp only [Option.getD_some]
            exact fixName_colonised s u a.name hl (res_safeUri_ne u hns.2) hhead
        · rw [res_colonise_id _ hno]; exact fixName_legal s _ a.name hl

theorem res_formatValue_congr (opq : Nat → Nat → Str) (ty d1 d2 : Nat) (s1 s2 : Str)
    (hs : ty = 3 → s1 = s2) (hd : ty ≠ 3 → d1 = d2) : formatValue opq ty d1 s1 = formatValue opq ty d2 s2 := by
  by_cases h : ty = 3
  · subst h
    simp [formatValue, TYPE_STRING, hs rfl]
  · rw [hd h]
    simp [formatValue, TYPE_STRING, h]

theorem res_buildAttrs_cons (opq : Nat → Nat → Str) (E : Enc) (s : PState) (hp : PoolOk E s) (a : SAttr)
    (hw : wfAttr opq E a = true) (r : List RawAttr) (acc : List Attr) :
    buildAttrs opq s (rawOf E a :: r) acc = buildAttrs opq s r (setAttr (attrOf opq a) acc) := by
  simp only [wfAttr, Bool.and_eq_true, Bool.or_eq_true, decide_eq_true_eq] at hw
  obtain ⟨⟨⟨⟨⟨⟨⟨⟨wns, wmem⟩, wleg⟩, wres⟩, _⟩, _⟩, _⟩, wstr⟩, wval0⟩ := hw
  have wval : LegalValue (formatValue opq a.ty a.data a.str) := by
    apply formatValue_legal
    · intro h3; simpa [valueOk, h3] using wval0
    · intro h456
      have h3 : ¬ a.ty = 3 := by omega
      simpa [valueOk, h3, h456] using wval0
  have e1 : nsString s (rawOf E a).ns = .ok (a.ns.getD []) := res_nsString E s hp a.ns wns
  obtain ⟨shown, e2, e3⟩ := res_attrName E s hp a wmem wleg wns wres
  have e4 := res_checkUri E a.ns wns
  have e5 := res_checkName a.name wleg
  have e6 : ∃ str, (if (rawOf E a).type = TYPE_STRING then s.pool.get (rawOf E a).valueString else .ok []) = .ok str ∧
      formatValue opq (rawOf E a).type (rawOf E a).data str = formatValue opq a.ty a.data a.str := by
    by_cases h3 : a.ty = 3
    · have hm : a.str ∈ E.strings := by
        rcases wstr with h | h
        · exact absurd h3 h
        · exact h
      refine ⟨a.str, ?_, ?_⟩
      · simp only [rawOf, h3, TYPE_STRING, if_true]
        exact hp.get _ hm
      · exact res_formatValue_congr opq _ _ _ _ _ (fun _ => rfl) (fun h => absurd h3 h)
    · refine ⟨[], ?_, ?_⟩
      · simp [rawOf, h3, TYPE_STRING]
      · exact res_formatValue_congr opq _ _ _ _ _ (fun h => absurd h h3) (fun _ => by simp [rawOf, h3])
  obtain ⟨str, e6a, e6b⟩ := e6
  rw [buildAttrs]
  simp only [e1, e2, e3, e4, e5, e6a, e6b, bind, Except.bind, fixValue_legal _ wval, attrOf]

theorem res_buildAttrs (opq : Nat → Nat → Str) (E : Enc) (s : PState) (hp : PoolOk E s) (attrs : List SAttr)
    (hwa : ∀ a ∈ attrs, wfAttr opq E a = true) (acc : List Attr) :
    buildAttrs opq s (attrs.map (rawOf E)) acc = .ok (attrs.foldl (fun acc a => setAttr (attrOf opq a) acc) acc) := by
  induction attrs generalizing acc with
  | nil => simp [buildAttrs]
  | cons a r ih =>
    rw [List.map_cons, res_buildAttrs_cons opq E s hp a (hwa a (by simp)), ih (fun x hx => hwa x (by simp [hx]))]
    rfl

/-! ### the three events -/

theorem resolve_start (opq : Nat → Nat → Str) (E : Enc) (D : List (Str × Str)) (s : PState)
    (tag : Str) (ns : Option Str) (attrs : List SAttr)
    (hp : PoolOk E s) (hd : DeclsOk E D) (hn : NsOk E D s)
    (hev : s.event = .start) (hname : s.name = sidx E tag) (hns : s.nsUri = oidx E ns) (hc : s.comment = noEntry)
    (hattrs : s.attrs = attrs.map (rawOf E))
    (htag : tag ∈ E.strings) (hlegal : LegalName tag) (hwns : wfNs E ns = true)
    (hwa : ∀ a ∈ attrs, wfAttr opq E a = true) :
    resolve opq s = .ok (.start false true (.ok (tag, ns.getD [], attrsOf opq attrs))) := by
  obtain ⟨m, hm⟩ := nsmap_ok E D s hp hd hn
  have e0 : s.pool.get s.name = .ok tag := by rw [hname]; exact hp.get tag htag
  have e1 : nsString s s.nsUri = .ok (ns.getD []) := by rw [hns]; exact res_nsString E s hp ns hwns
  have e2 := fixName_legal s (ns.getD []) tag hlegal
  have e3 := res_checkUri E ns hwns
  have e4 := res_checkName tag hlegal
  have e5 : buildAttrs opq s s.attrs [] = .ok (attrsOf opq attrs) := by
    rw [hattrs, res_buildAttrs opq E s hp attrs hwa []]; rfl
  have e6 := res_legal_ne_nil tag hlegal
  unfold resolve
  simp [hev, e0, e1, e2, e3, e4, e5, e6, hc, hm, bind, Except.bind, xmlCompatible]

theorem resolve_end (opq : Nat → Nat → Str) (E : Enc) (s : PState) (tag : Str) (ns : Option Str)
    (hp : PoolOk E s) (hev : s.event = .end_) (hname : s.name = sidx E tag) (hns : s.nsUri = oidx E ns)
    (htag : tag ∈ E.strings) (hlegal : LegalName tag) (hwns : wfNs E ns = true) :
    resolve opq s = .ok (.end_ false (.ok ())) := by
  have e0 : s.pool.get s.name = .ok tag := by rw [hname]; exact hp.get tag htag
  have e1 : nsString s s.nsUri = .ok (ns.getD []) := by rw [hns]; exact res_nsString E s hp ns hwns
  have e6 := res_legal_ne_nil tag hlegal
  unfold resolve
  simp [hev, e0, e1, e6, bind, Except.bind, Except.map]

theorem resolve_text (opq : Nat → Nat → Str) (E : Enc) (s : PState) (t : Str)
    (hp : PoolOk E s) (hev : s.event = .text) (hname : s.name = sidx E t) (ht : t ∈ E.strings) :
    resolve opq s = .ok (.text (.ok t)) := by
  have e0 : s.pool.get s.name = .ok t := by rw [hname]; exact hp.get t ht
  unfold resolve
  simp [hev, e0]

end AgVerif.Proof.Axml
