/-
C28 deepening, step 5a: the chunk loop inside a package (type chunks, each optionally preceded by
a typeSpec chunk that the parser skips), `readPackage` against abstract hypotheses, the package
name field.  Core Lean only.
-/
import AgVerif.Proof.ArscTypeChunk
namespace AgVerif.Arsc
open AgVerif.Gen.ArscConsts AgVerif.Spec.Arsc
attribute [local irreducible] enc16 enc32

/-- what `ARSCParser` keeps of a type chunk -/
def chunkOf (pkgId : Nat) (tc : Spec.Arsc.TypeChunk) : TypeChunk :=
  ⟨tc.typeId, tc.config.words, atesOf pkgId tc.typeId 0 tc.slots⟩

theorem encTypeSpec_length (ty n : Nat) : (encTypeSpec ty n).length = 16 + 4 * n := by
  simp only [encTypeSpec, chunk_length, List.length_append, enc32_length, List.length_cons, List.length_nil,
    List.length_replicate]

theorem encChunks_cons (arr : Nat → ArrLayout) (spec : Nat → Bool) (i : Nat) (tc : Spec.Arsc.TypeChunk)
    (rest : List Spec.Arsc.TypeChunk) :
    encChunks arr spec i (tc :: rest) =
      (if spec i then encTypeSpec tc.typeId tc.slots.length else []) ++ (encTypeChunk (arr i) tc
        ++ encChunks arr spec (i + 1) rest) := by
  simp only [encChunks, List.append_assoc]

/-- one step of the loop inside a package: a chunk that is not a type chunk is skipped -/
theorem pkgChunks_skip {b : Buf} {pkgEnd fuel p cur : Nat} {h : Hdr}
    (h1 : ¬ p + 8 > pkgEnd) (h2 : readHdr b p none = some h) (h3 : ¬ h.start + h.size > pkgEnd)
    (h4 : h.type ≠ resTableTypeType) :
    pkgChunks b pkgEnd (fuel + 1) p cur = pkgChunks b pkgEnd fuel h.end_ cur := by
  simp only [pkgChunks, h1, if_false, h2, h3, h4]

/-- one step of the loop inside a package: a type chunk -/
theorem pkgChunks_type {b : Buf} {pkgEnd fuel p cur cur' : Nat} {h : Hdr} {tc : TypeChunk}
    (h1 : ¬ p + 8 > pkgEnd) (h2 : readHdr b p none = some h) (h3 : ¬ h.start + h.size > pkgEnd)
    (h4 : h.type = resTableTypeType) (h5 : readTypeChunk b h cur = some (tc, cur')) :
    pkgChunks b pkgEnd (fuel + 1) p cur = (pkgChunks b pkgEnd fuel h.end_ cur').map (tc :: ·) := by
  simp only [pkgChunks, h1, if_false, h2, h3, h4, if_true, h5]
  cases pkgChunks b pkgEnd fuel h.end_ cur' <;> rfl

theorem pkgChunks_end {b : Buf} {pkgEnd fuel p cur : Nat} (h1 : p + 8 > pkgEnd) :
    pkgChunks b pkgEnd (fuel + 1) p cur = some [] := by
  simp only [pkgChunks, h1, if_true]

theorem wfChunks_cons (arr : Nat → ArrLayout) (i : Nat) (tc : Spec.Arsc.TypeChunk) (rest : List Spec.Arsc.TypeChunk) :
    wfChunks arr i (tc :: rest) = true ↔ wfChunk (arr i) tc = true ∧ wfChunks arr (i + 1) rest = true := by
  simp [wfChunks]

theorem pkgChunks_at {bs r : List Nat} (arr : Nat → ArrLayout) (spec : Nat → Bool) (pkgId : Nat)
    (chunks : List Spec.Arsc.TypeChunk) (i p cur fuel : Nat)
    (h : bs.drop p = encChunks arr spec i chunks ++ r) (hwf : wfChunks arr i chunks = true)
    (hlen : (encChunks arr spec i chunks).length < 4294967296) (hcur : IdInv pkgId cur)
    (hfuel : 2 * chunks.length + 1 ≤ fuel) :
    pkgChunks bs.toArray (p + (encChunks arr spec i chunks).length) fuel p cur
      = some (chunks.map (chunkOf pkgId)) := by
  induction chunks generalizing i p cur fuel with
  | nil =>
    obtain ⟨f, rfl⟩ : ∃ f, fuel = f + 1 := ⟨fuel - 1, by omega⟩
    exact pkgChunks_end (by simp [encChunks])
  | cons tc rest ih =>
    obtain ⟨hw1, hw2⟩ := (wfChunks_cons arr i tc rest).mp hwf
    obtain ⟨hty, _, hn, _, _⟩ := (wfChunk_iff (arr i) tc).mp hw1
    rw [encChunks_cons] at h hlen ⊢
    simp only [List.length_cons] at hfuel
    have hTL := encTypeChunk_length (arr i) tc
    -- the type chunk proper, at cursor `q`, with `f + 1` fuel left
    have main : ∀ q f, bs.drop q = encTypeChunk (arr i) tc ++ (encChunks arr spec (i + 1) rest ++ r) →
        2 * rest.length + 1 ≤ f →
        pkgChunks bs.toArray (q + ((encTypeChunk (arr i) tc).length + (encChunks arr spec (i + 1) rest).length))
          (f + 1) q cur = some ((tc :: rest).map (chunkOf pkgId)) := by
      intro q f hq hf
      simp only [List.length_append] at hlen
      obtain ⟨hhdr, cur', hrt, hinv⟩ := readTypeChunk_at (arr i) tc hq hw1 (by omega) hcur
      rw [atesFrom_eq hcur hty tc.slots 0 (by omega)] at hrt
      have hnext := drop_at hq
      have := ih (i + 1) (q + (encTypeChunk (arr i) tc).length) cur' f hnext hw2 (by omega) hinv hf
      rw [pkgChunks_type (by omega) hhdr (by simp only []; omega) rfl hrt]
      simp only [Hdr.end_]
      rw [Nat.add_assoc] at this
      rw [this]
      rfl
    cases hs : spec i with
    | false =>
      simp only [hs, Bool.false_eq_true, if_false, List.nil_append] at h hlen ⊢
      obtain ⟨f, rfl⟩ : ∃ f, fuel = f + 1 := ⟨fuel - 1, by omega⟩
      simp only [List.length_append]
      exact main p f (by rw [h, List.append_assoc]) (by omega)
    | true =>
      simp only [hs, if_true] at h hlen ⊢
      obtain ⟨f, rfl⟩ : ∃ f, fuel = f + 2 := ⟨fuel - 2, by omega⟩
      have hSL := encTypeSpec_length tc.typeId tc.slots.length
      simp only [List.length_append] at hlen ⊢
      have hspec : bs.drop p = chunk 514 ([tc.typeId, 0, 0, 0] ++ enc32 tc.slots.length)
          (List.replicate (4 * tc.slots.length) 0) ++ (encTypeChunk (arr i) tc ++ (encChunks arr spec (i + 1) rest ++ r)) := by
        rw [h]; simp only [encTypeSpec, List.append_assoc]
      have hh := readHdr_at none hspec (Or.inr (by omega))
        (by simp only [List.length_append, enc32_length, List.length_cons, List.length_nil]; omega)
        (by simp only [List.length_append, enc32_length, List.length_cons, List.length_nil, List.length_replicate]; omega)
        (by intro x hx; cases hx)
      simp only [List.length_append, enc32_length, List.length_cons, List.length_nil, List.length_replicate] at hh
      rw [pkgChunks_skip (by omega) hh (by simp only []; omega) (by simp only [resTableTypeType]; omega)]
      simp only [Hdr.end_]
      have hq : bs.drop (p + (encTypeSpec tc.typeId tc.slots.length).length)
          = encTypeChunk (arr i) tc ++ (encChunks arr spec (i + 1) rest ++ r) := by
        apply drop_at (x := encTypeSpec tc.typeId tc.slots.length)
        rw [h]; simp only [List.append_assoc]
      have := main _ f hq (by omega)
      rw [hSL] at this
      rw [show p + (0 + 1 + 1 + 1 + 1 + 4 + 8 + 4 * tc.slots.length) = p + (16 + 4 * tc.slots.length) by omega]
      rw [← this]
      congr 1
      omega


/-! ### a package -/

theorem readPackage_of {b : Buf} {h th kh : Hdr} {id ts x1 ks x2 : Nat} {tp kp : Pool} {chunks : List TypeChunk}
    (h1 : rd32 b (h.pos + 8) = some id) (h2 : rd32 b (h.pos + 8 + 260) = some ts)
    (h3 : rd32 b (h.pos + 8 + 264) = some x1) (h4 : rd32 b (h.pos + 8 + 268) = some ks)
    (h5 : rd32 b (h.pos + 8 + 272) = some x2)
    (h6 : readHdr b (h.start + ts) (some resStringPoolType) = some th) (h7 : readPool b th = some tp)
    (h8 : readHdr b (h.start + ks) (some resStringPoolType) = some kh) (h9 : readPool b kh = some kp)
    (h10 : pkgChunks b h.end_ (b.size + 1) (h.start + h.headerSize + th.size + kh.size) (pkgResId id) = some chunks) :
    readPackage b h = some ⟨packageName (slice b (h.pos + 8 + 4) 256), tp, kp, chunks⟩ := by
  simp only [readPackage, h1, h2, h3, h4, h5, h6, h7, h8, h9, h10, Option.bind_eq_bind, Option.bind_some,
    Option.pure_def]

theorem unitsOf_append_enc (s t : List Nat) (h : ∀ c ∈ s, c < 65536) :
    unitsOf (s.flatMap enc16 ++ t) = s ++ unitsOf t := by
  induction s with
  | nil => rfl
  | cons c r ih =>
    have hc := h c (by simp)
    have e : enc16 c = [c % 256, c / 256 % 256] := by unfold enc16; rfl
    simp only [List.flatMap_cons, e, List.cons_append, List.nil_append, unitsOf]
    rw [ih (fun x hx => h x (by simp [hx]))]
    simp only [List.cons.injEq, and_true]; omega

theorem unitsOf_zeros (k : Nat) : unitsOf (List.replicate (2 * k) 0) = List.replicate k 0 := by
  induction k with
  | zero => rfl
  | succ k ih =>
    rw [show 2 * (k + 1) = 2 * k + 1 + 1 by omega]
    simp only [List.replicate_succ, unitsOf, ih]

theorem takeWhile_name (name : List Nat) (k : Nat) (h : ∀ c ∈ name, c ≠ 0) :
    (name ++ List.replicate (k + 1) 0).takeWhile (· ≠ 0) = name := by
  induction name with
  | nil => simp [List.replicate_succ]
  | cons c r ih =>
    have hc := h c (by simp)
    simp only [List.cons_append, List.takeWhile_cons, ne_eq, hc, not_false_eq_true, decide_true, if_true]
    rw [ih (fun x hx => h x (by simp [hx]))]

theorem wfName_iff (name : List Nat) : wfName name = true ↔
    name.length < 128 ∧ (∀ c ∈ name, c ≠ 0) ∧ name.all bmp = true := by
  simp only [wfName, Bool.and_eq_true, decide_eq_true_eq, List.all_eq_true, ne_eq, decide_not, Bool.not_eq_eq_eq_not,
    Bool.not_true, decide_eq_false_iff_not]
  constructor
  · rintro ⟨h1, h2⟩; exact ⟨h1, fun c hc => (h2 c hc).1, fun c hc => (h2 c hc).2⟩
  · rintro ⟨h1, h2, h3⟩; exact ⟨h1, fun c hc => ⟨h2 c hc, h3 c hc⟩⟩

theorem encName_length (name : List Nat) (h : name.length < 128) : (encName name).length = 256 := by
  simp only [encName, List.length_append, flatMap_enc16_length, List.length_replicate]; omega

/-- `get_name()` on the 256-byte name field -/
theorem packageName_enc (name : List Nat) (h : wfName name = true) : packageName (encName name) = utf8s name := by
  obtain ⟨h1, h2, h3⟩ := (wfName_iff name).mp h
  have hlt : ∀ c ∈ name, c < 65536 := fun c hc => bmp_lt ((List.all_eq_true.mp h3) c hc)
  have hu : unitsOf (encName name) = name ++ List.replicate (127 - name.length + 1) 0 := by
    unfold encName
    rw [unitsOf_append_enc _ _ hlt, show 256 - 2 * name.length = 2 * (127 - name.length + 1) by omega, unitsOf_zeros]
  unfold packageName
  simp only [hu, takeWhile_name name _ h2]
  rw [if_neg (by simp), utf16ToUtf8_bmp name h3]

end AgVerif.Arsc
