/-
Arithmetic normal forms for the Python-integer prelude (core Lean only): `x | lo = x + lo` when the low
`k` bits of `x` are zero and `0 ≤ lo < 2^k` (any sign of `x`), commutativity of `& |`, literal instances.
Used by the proofs that must survive behaviour-preserving rewrites of the source (Proof/PyLeb.lean).
-/
import AgVerif.Proof.PyInt
namespace AgVerif.Py

theorem and_low_ones (p lo k : Nat) (hp : p % 2 ^ k = 2 ^ k - 1) (hlo : lo < 2 ^ k) : p &&& lo = lo := by
  have h1 : lo &&& (2 ^ k - 1) = lo := by
    rw [Nat.and_two_pow_sub_one_eq_mod]; exact Nat.mod_eq_of_lt hlo
  calc p &&& lo = p &&& (lo &&& (2 ^ k - 1)) := by rw [h1]
    _ = (p &&& (2 ^ k - 1)) &&& lo := by rw [Nat.and_comm lo, ← Nat.and_assoc]
    _ = (2 ^ k - 1) &&& lo := by rw [Nat.and_two_pow_sub_one_eq_mod, hp]
    _ = lo := by rw [Nat.and_comm]; exact h1

/-- `x | lo = x + lo` when the low `k` bits of `x` are 0 and `0 ≤ lo < 2^k` (any sign of `x`) -/
theorem bor_add (x lo : Int) (k : Nat) (hx : x % 2 ^ k = 0) (h1 : 0 ≤ lo) (h2 : lo < 2 ^ k) :
    bor x lo = x + lo := by
  obtain ⟨l, rfl⟩ := Int.eq_ofNat_of_zero_le h1
  have hl : l < 2 ^ k := by exact_mod_cast h2
  have hP : 0 < 2 ^ k := Nat.two_pow_pos k
  cases x with
  | ofNat a =>
    have ha : a % 2 ^ k = 0 := by
      have : ((a % 2 ^ k : Nat) : Int) = 0 := by simpa using hx
      exact_mod_cast this
    show ((a ||| l : Nat) : Int) = (a : Int) + (l : Int)
    have e : a = 2 ^ k * (a / 2 ^ k) := by
      have := Nat.div_add_mod a (2 ^ k); omega
    rw [e, ← Nat.two_pow_add_eq_or_of_lt hl]
    simp
  | negSucc m =>
    have hm : m % 2 ^ k = 2 ^ k - 1 := by
      rw [Int.negSucc_emod _ (by exact_mod_cast hP)] at hx
      have h4 : ((2 ^ k : Nat) : Int) = (2 : Int) ^ k := by simp
      rw [← h4] at hx
      have : m % 2 ^ k < 2 ^ k := Nat.mod_lt _ hP
      omega
    have hle : l ≤ m := by
      have : m % 2 ^ k ≤ m := Nat.mod_le _ _
      omega
    show Int.negSucc (natAndNot m l) = Int.negSucc m + (l : Int)
    unfold natAndNot
    rw [and_low_ones m l k hm hl]
    simp only [Int.negSucc_eq]
    omega

theorem bor_comm (a b : Int) : bor a b = bor b a := by
  cases a <;> cases b <;> simp only [bor, Nat.or_comm, Nat.and_comm]
theorem band_comm (a b : Int) : band a b = band b a := by
  cases a <;> cases b <;> simp only [band, Nat.or_comm, Nat.and_comm]

theorem bor_add' (x lo : Int) (k : Nat) (hx : x % 2 ^ k = 0) (h1 : 0 ≤ lo) (h2 : lo < 2 ^ k) :
    bor lo x = lo + x := by
  rw [bor_comm, bor_add x lo k hx h1 h2]; omega

theorem borA7 (x lo : Int) (hx : x % 128 = 0) (h1 : 0 ≤ lo) (h2 : lo < 128) : bor x lo = x + lo := bor_add x lo 7 hx h1 h2
theorem borB7 (x lo : Int) (hx : x % 128 = 0) (h1 : 0 ≤ lo) (h2 : lo < 128) : bor lo x = lo + x := bor_add' x lo 7 hx h1 h2
theorem borA8 (x lo : Int) (hx : x % 256 = 0) (h1 : 0 ≤ lo) (h2 : lo < 256) : bor x lo = x + lo := bor_add x lo 8 hx h1 h2
theorem borB8 (x lo : Int) (hx : x % 256 = 0) (h1 : 0 ≤ lo) (h2 : lo < 256) : bor lo x = lo + x := bor_add' x lo 8 hx h1 h2
theorem borA14 (x lo : Int) (hx : x % 16384 = 0) (h1 : 0 ≤ lo) (h2 : lo < 16384) : bor x lo = x + lo := bor_add x lo 14 hx h1 h2
theorem borB14 (x lo : Int) (hx : x % 16384 = 0) (h1 : 0 ≤ lo) (h2 : lo < 16384) : bor lo x = lo + x := bor_add' x lo 14 hx h1 h2
theorem borA21 (x lo : Int) (hx : x % 2097152 = 0) (h1 : 0 ≤ lo) (h2 : lo < 2097152) : bor x lo = x + lo := bor_add x lo 21 hx h1 h2
theorem borB21 (x lo : Int) (hx : x % 2097152 = 0) (h1 : 0 ≤ lo) (h2 : lo < 2097152) : bor lo x = lo + x := bor_add' x lo 21 hx h1 h2
theorem borA28 (x lo : Int) (hx : x % 268435456 = 0) (h1 : 0 ≤ lo) (h2 : lo < 268435456) : bor x lo = x + lo := bor_add x lo 28 hx h1 h2
theorem borB28 (x lo : Int) (hx : x % 268435456 = 0) (h1 : 0 ≤ lo) (h2 : lo < 268435456) : bor lo x = lo + x := bor_add' x lo 28 hx h1 h2
theorem bor_zero (x : Int) (h : 0 ≤ x) : bor x 0 = x := by
  have := bor_add x 0 0 (by omega) (by omega) (by omega); simpa using this
theorem zero_bor (x : Int) (h : 0 ≤ x) : bor 0 x = x := by rw [bor_comm]; exact bor_zero x h

theorem band_7F' (x : Int) : band 127 x = x % 128 := by rw [band_comm]; exact band_7F x
theorem band_M31 (x : Int) : band x 2147483647 = x % 2147483648 := by
  have := band_mask x 31; simpa using this
theorem band_M31' (x : Int) : band 2147483647 x = x % 2147483648 := by rw [band_comm]; exact band_M31 x
theorem band_FF' (x : Int) : band 255 x = x % 256 := by rw [band_comm]; exact band_FF x

end AgVerif.Py
