/-
Helper lemmas for C27: bit fields of a complex value in arithmetic form, the value of
`complexToFloat`, scaling invariance and correct rounding of `fmtF6`, hexadecimal digits.
-/
import AgVerif.Model.ResValue
import AgVerif.Spec.ResValue
import AgVerif.Proof.Bits
namespace AgVerif.ResValue
open AgVerif.Bits AgVerif.Gen.ResValues AgVerif.Spec.ResValue

/-! ### bit fields -/

theorem and_hi (x : Nat) : x &&& 0xFFFFFF00 = x / 2 ^ 8 % 2 ^ 24 * 2 ^ 8 := by
  have h1 : (x &&& 0xFFFFFF00) / 2 ^ 8 = x / 2 ^ 8 % 2 ^ 24 := by
    rw [← shr, Nat.shiftRight_and_distrib, shr]
    have : (0xFFFFFF00 : Nat) >>> 8 = 2 ^ 24 - 1 := by decide
    rw [this, and_mask]
  have h2 : (x &&& 0xFFFFFF00) % 2 ^ 8 = 0 := by
    have : (x &&& 0xFFFFFF00) % 2 ^ 8 = (x &&& 0xFFFFFF00) &&& 0xFF := (and_FF _).symm
    rw [this, Nat.and_assoc]
    have : (0xFFFFFF00 : Nat) &&& 0xFF = 0 := by decide
    rw [this, Nat.and_zero]
  have := Nat.div_add_mod (x &&& 0xFFFFFF00) (2 ^ 8)
  omega

theorem and_sign (m : Nat) : m &&& 0x80000000 = m / 2 ^ 31 % 2 * 2 ^ 31 := by
  have h1 : (m &&& 0x80000000) / 2 ^ 31 = m / 2 ^ 31 % 2 := by
    rw [← shr, Nat.shiftRight_and_distrib, shr]
    have : (0x80000000 : Nat) >>> 31 = 2 ^ 1 - 1 := by decide
    rw [this, and_mask]
  have h2 : (m &&& 0x80000000) % 2 ^ 31 = 0 := by
    have : (m &&& 0x80000000) % 2 ^ 31 = (m &&& 0x80000000) &&& (2 ^ 31 - 1) := (and_mask _ 31).symm
    rw [this, Nat.and_assoc]
    have : (0x80000000 : Nat) &&& (2 ^ 31 - 1) = 0 := by decide
    rw [this, Nat.and_zero]
  have := Nat.div_add_mod (m &&& 0x80000000) (2 ^ 31)
  omega

/-- the code's sign-extended `x & 0xFFFFFF00` is the specification's 24-bit mantissa times 2^8 -/
theorem signedMantissa_eq (x : Nat) : signedMantissa x = mantissa x * 2 ^ 8 := by
  unfold signedMantissa mantissa
  simp only [and_hi, and_sign]
  have hk : x / 2 ^ 8 % 2 ^ 24 < 2 ^ 24 := Nat.mod_lt _ (by decide)
  generalize x / 2 ^ 8 % 2 ^ 24 = k at hk
  by_cases h : k < 2 ^ 23
  · rw [if_neg (by omega), if_pos h]; omega
  · rw [if_pos (by omega), if_neg h]; omega

theorem radix_index (x : Nat) : (x >>> 4) &&& 3 = x / 2 ^ 4 % 4 := by
  rw [shr]; simpa using and_mask (x / 2 ^ 4) 2

theorem unit_index (d : Nat) : d &&& complexUnitMask = d % 16 := by
  show d &&& 15 = d % 16
  simpa using and_mask d 4

theorem mantissa_bound (d : Nat) : (mantissa d).natAbs ≤ 2 ^ 23 := by
  unfold mantissa
  have hk : d / 2 ^ 8 % 2 ^ 24 < 2 ^ 24 := Nat.mod_lt _ (by decide)
  generalize d / 2 ^ 8 % 2 ^ 24 = k at hk
  simp only
  split <;> omega

/-- the value `complexToFloat` returns: mantissa·2^8 / (2^8 · 2^shift), sign of the mantissa -/
theorem complexToFloat_eq (d : Nat) :
    complexToFloat d
      = some (.fin (decide (mantissa d < 0)) ((mantissa d).natAbs * 2 ^ 8) (complexDen d * 2 ^ 8)) := by
  unfold complexToFloat complexDen
  rw [radix_index, signedMantissa_eq]
  have hr : d / 2 ^ 4 % 4 < 4 := Nat.mod_lt _ (by decide)
  have hneg : decide (mantissa d * 2 ^ 8 < 0) = decide (mantissa d < 0) := by
    congr 1; apply propext; constructor <;> intro h <;> omega
  have habs : (mantissa d * 2 ^ 8).natAbs = (mantissa d).natAbs * 2 ^ 8 := by
    rw [Int.natAbs_mul]; rfl
  generalize d / 2 ^ 4 % 4 = r at hr
  have : r = 0 ∨ r = 1 ∨ r = 2 ∨ r = 3 := by omega
  have e0 : radixMults[0]? = some (1, 2 ^ radixShift 0 * 2 ^ 8) := by decide
  have e1 : radixMults[1]? = some (1, 2 ^ radixShift 1 * 2 ^ 8) := by decide
  have e2 : radixMults[2]? = some (1, 2 ^ radixShift 2 * 2 ^ 8) := by decide
  have e3 : radixMults[3]? = some (1, 2 ^ radixShift 3 * 2 ^ 8) := by decide
  rcases this with rfl | rfl | rfl | rfl
  · rw [e0]; simp only [hneg, habs, Nat.mul_one]
  · rw [e1]; simp only [hneg, habs, Nat.mul_one]
  · rw [e2]; simp only [hneg, habs, Nat.mul_one]
  · rw [e3]; simp only [hneg, habs, Nat.mul_one]

/-! ### `%f` -/

theorem roundHalfEven_scale (a d k : Nat) (hk : 0 < k) :
    roundHalfEven (a * k) (d * k) = roundHalfEven a d := by
  unfold roundHalfEven
  simp only [Nat.mul_div_mul_right a d hk, Nat.mul_mod_mul_right]
  have e1 : (2 * (a % d * k) > d * k) ↔ (2 * (a % d) > d) := by
    rw [← Nat.mul_assoc]; exact Nat.mul_lt_mul_right hk
  have e2 : (2 * (a % d * k) = d * k) ↔ (2 * (a % d) = d) := by
    rw [← Nat.mul_assoc]; exact Nat.mul_left_inj (by omega)
  simp only [e1, e2]

/-- `%f` depends on the value only: a common factor of numerator and denominator is irrelevant -/
theorem fmtF6_scale (neg : Bool) (n d k : Nat) (hk : 0 < k) :
    fmtF6 neg (n * k) (d * k) = fmtF6 neg n d := by
  unfold fmtF6
  have : n * k * 1000000 = n * 1000000 * k := by
    rw [Nat.mul_assoc, Nat.mul_comm k, ← Nat.mul_assoc]
  rw [this, roundHalfEven_scale _ _ _ hk]

/-- `roundHalfEven n d` is a nearest integer to n/d: |n − m·d| ≤ d/2 … -/
theorem roundHalfEven_nearest (n d : Nat) (hd : 0 < d) :
    2 * (n - roundHalfEven n d * d) ≤ d ∧ 2 * (roundHalfEven n d * d - n) ≤ d := by
  unfold roundHalfEven
  have hdm := Nat.div_add_mod n d
  have hr := Nat.mod_lt n hd
  have e : (n / d + 1) * d = d * (n / d) + d := by rw [Nat.add_mul, Nat.mul_comm]; omega
  have e' : n / d * d = d * (n / d) := Nat.mul_comm _ _
  simp only
  split
  · rw [e]; omega
  · rw [e']; omega

/-- … and an exact tie goes to the even neighbour -/
theorem roundHalfEven_tie (n d : Nat) (h : 2 * (n % d) = d) : roundHalfEven n d % 2 = 0 := by
  unfold roundHalfEven
  simp only
  split <;> omega

/-! ### hexadecimal digits -/

/-- the `n` low base-16 digits of `x`, most significant first -/
def fixedDigits : Nat → Nat → List Nat
  | 0, _ => []
  | n + 1, x => fixedDigits n (x / 16) ++ [x % 16]

def hexVal (ds : List Nat) : Nat := ds.foldl (fun a x => a * 16 + x) 0

theorem fixedDigits_length (n x : Nat) : (fixedDigits n x).length = n := by
  induction n generalizing x with
  | zero => rfl
  | succ n ih => simp [fixedDigits, ih]

theorem fixedDigits_zero (n : Nat) : fixedDigits n 0 = List.replicate n 0 := by
  induction n with
  | zero => rfl
  | succ n ih =>
    simp only [fixedDigits, Nat.zero_div, ih, Nat.zero_mod]
    exact (List.replicate_succ' ..).symm

theorem hexDigits_length_pos (x : Nat) : 0 < (hexDigits x).length := by
  rw [hexDigits]; split <;> simp

theorem padZeros_snoc (n : Nat) (l : List Nat) (x : Nat) :
    padZeros (n + 1) (l ++ [x]) = padZeros n l ++ [x] := by
  unfold padZeros
  simp only [List.length_append, List.length_cons, List.length_nil, Nat.zero_add,
    Nat.add_sub_add_right, List.append_assoc]

/-- for `x < 16^n`, zero-padding the digits of `x` to width `n` gives exactly its `n` digits -/
theorem padZeros_hexDigits (n x : Nat) (hn : 0 < n) (h : x < 16 ^ n) :
    padZeros n (hexDigits x) = fixedDigits n x := by
  induction n generalizing x with
  | zero => omega
  | succ n ih =>
    rw [hexDigits]
    split
    · rename_i hx
      simp only [fixedDigits, Nat.div_eq_of_lt hx, fixedDigits_zero, Nat.mod_eq_of_lt hx]
      simp [padZeros]
    · rename_i hx
      have hn' : 0 < n := by
        rcases Nat.eq_zero_or_pos n with rfl | hp
        · simp at h; omega
        · exact hp
      have hx' : x / 16 < 16 ^ n := by
        rw [Nat.pow_succ] at h; omega
      rw [padZeros_snoc, ih (x / 16) hn' hx']
      rfl

theorem hexVal_append (l : List Nat) (x : Nat) : hexVal (l ++ [x]) = hexVal l * 16 + x := by
  simp [hexVal, List.foldl_append]

theorem hexVal_fixedDigits (n x : Nat) : hexVal (fixedDigits n x) = x % 16 ^ n := by
  induction n generalizing x with
  | zero => simp [fixedDigits, hexVal, Nat.mod_one]
  | succ n ih =>
    rw [fixedDigits, hexVal_append, ih, Nat.pow_succ]
    have := Nat.div_add_mod x 16
    have h2 := Nat.mod_mul_right_div_self x 16 (16 ^ n)
    have h3 := Nat.div_add_mod (x % (16 * 16 ^ n)) 16
    have h4 : x % (16 * 16 ^ n) % 16 = x % 16 := Nat.mod_mul_right_mod x 16 (16 ^ n)
    rw [Nat.mul_comm (16 ^ n) 16]
    omega

theorem fixedDigits_lt (n x : Nat) : ∀ y ∈ fixedDigits n x, y < 16 := by
  induction n generalizing x with
  | zero => simp [fixedDigits]
  | succ n ih =>
    intro y hy
    simp only [fixedDigits, List.mem_append, List.mem_cons, List.not_mem_nil, or_false] at hy
    rcases hy with hy | rfl
    · exact ih _ y hy
    · exact Nat.mod_lt _ (by decide)

/-! ### the specification's `coerce` / `coerceText` (audit follow-up) -/

/-- the two formulations of round-half-even agree -/
theorem roundMicro_eq (n d : Nat) (hd : 0 < d) : roundMicro n d = roundHalfEven (n * 1000000) d := by
  unfold roundMicro roundHalfEven
  generalize n * 1000000 = N
  have hdm := Nat.div_add_mod N d
  have hr := Nat.mod_lt N hd
  have hass : 2 * d * (N / d) = 2 * (d * (N / d)) := Nat.mul_assoc ..
  have hass1 : 2 * d * (N / d + 1) = 2 * (d * (N / d)) + 2 * d := by
    rw [Nat.mul_add, Nat.mul_one, hass]
  by_cases hlt : 2 * (N % d) < d
  · have key := (Nat.div_mod_unique (a := 2 * N + d) (b := 2 * d) (c := 2 * (N % d) + d) (d := N / d)
      (by omega)).2 ⟨by rw [hass]; omega, by omega⟩
    simp only [key.1, key.2]
    split <;> split <;> omega
  · by_cases heq : 2 * (N % d) = d
    · have key := (Nat.div_mod_unique (a := 2 * N + d) (b := 2 * d) (c := 0) (d := N / d + 1)
        (by omega)).2 ⟨by rw [hass1]; omega, by omega⟩
      simp only [key.1, key.2]
      split <;> split <;> (clear key hass hass1 hdm; generalize N / d = q at *; generalize N % d = r at *; first | omega | (simp only [true_and] at *; omega))
    · have key := (Nat.div_mod_unique (a := 2 * N + d) (b := 2 * d) (c := 2 * (N % d) - d) (d := N / d + 1)
        (by omega)).2 ⟨by rw [hass1]; omega, by omega⟩
      simp only [key.1, key.2]
      split <;> split <;> omega

theorem fmtF6_microText (neg : Bool) (n d : Nat) :
    fmtF6 neg n d = microText neg (roundHalfEven (n * 1000000) d) := rfl

theorem hexChar_spec (k : Nat) (h : k < 16) : hexChar true k = hexDigitChar k := by
  have key : ∀ y : Fin 16, hexChar true y.val = hexDigitChar y.val := by decide +kernel
  exact key ⟨k, h⟩

/-- the reviewer's chain lemma: for a 32-bit word `%08X` prints exactly its eight digits -/
theorem hexW_eight (d : Nat) (h : d < 2 ^ 32) :
    hexW true 8 d = String.ofList ((fixedDigits 8 d).map (hexChar true)) := by
  unfold hexW; rw [padZeros_hexDigits 8 d (by decide) (by omega)]

theorem hexW_hex8Text (d : Nat) (h : d < 2 ^ 32) : hexW true 8 d = hex8Text d := by
  rw [hexW_eight d h]
  unfold hex8Text
  simp only [fixedDigits, List.nil_append, List.cons_append, List.map_cons, List.map_nil]
  have e7 : d / 16 / 16 / 16 / 16 / 16 / 16 / 16 % 16 = d / 16 ^ 7 % 16 := by omega
  have e6 : d / 16 / 16 / 16 / 16 / 16 / 16 % 16 = d / 16 ^ 6 % 16 := by omega
  have e5 : d / 16 / 16 / 16 / 16 / 16 % 16 = d / 16 ^ 5 % 16 := by omega
  have e4 : d / 16 / 16 / 16 / 16 % 16 = d / 16 ^ 4 % 16 := by omega
  have e3 : d / 16 / 16 / 16 % 16 = d / 16 ^ 3 % 16 := by omega
  have e2 : d / 16 / 16 % 16 = d / 16 ^ 2 % 16 := by omega
  rw [e7, e6, e5, e4, e3, e2]
  simp only [hexChar_spec _ (Nat.mod_lt _ (by decide : 0 < 16))]

/-- `floatBits` in arithmetic form, all 2^32 words: the IEEE value, or the non-finite class -/
theorem floatBits_arith (d : Nat) :
    floatBits d = (match binary32 d with
      | some (s, n, k) => F64.fin s n k
      | none => if d % 2 ^ 23 = 0 then .inf (decide (d / 2 ^ 31 % 2 = 1)) else .nan) := by
  unfold floatBits binary32
  have e1 : (d >>> 31) &&& 1 = d / 2 ^ 31 % 2 := by
    rw [shr]; exact and_mask (d / 2 ^ 31) 1
  have e2 : (d >>> 23) &&& 0xFF = d / 2 ^ 23 % 256 := by rw [shr, and_FF]
  have e3 : d &&& 0x7FFFFF = d % 2 ^ 23 := by simpa using and_mask d 23
  simp only [e1, e2, e3]
  by_cases h255 : d / 2 ^ 23 % 256 = 255
  · simp only [h255, if_true]
  · simp only [h255, if_false]
    by_cases h0 : d / 2 ^ 23 % 256 = 0
    · simp only [h0, if_true]
    · simp only [h0, if_false]
      by_cases h150 : 150 ≤ d / 2 ^ 23 % 256
      · simp only [h150, if_true]
      · simp only [h150, if_false]

theorem binary32_den_pos (d : Nat) (s : Bool) (n k : Nat) (h : binary32 d = some (s, n, k)) : 0 < k := by
  unfold binary32 at h
  simp only at h
  split at h
  · simp at h
  · split at h
    · simp only [Option.some.injEq, Prod.mk.injEq] at h; obtain ⟨_, _, rfl⟩ := h; exact Nat.pow_pos (by decide)
    · split at h
      · simp only [Option.some.injEq, Prod.mk.injEq] at h; obtain ⟨_, _, rfl⟩ := h; decide
      · simp only [Option.some.injEq, Prod.mk.injEq] at h; obtain ⟨_, _, rfl⟩ := h; exact Nat.pow_pos (by decide)

theorem complexDen_pos (d : Nat) : 0 < complexDen d := by
  unfold complexDen; exact Nat.pow_pos (by decide)

/-- the single-valued kinds determine the type number -/
theorem kind_inv (t : Nat) :
    (kind t = .string → t = 3) ∧ (kind t = .attribute → t = 2) ∧ (kind t = .reference → t = 1)
    ∧ (kind t = .float → t = 4) ∧ (kind t = .intHex → t = 0x11) ∧ (kind t = .intBoolean → t = 0x12)
    ∧ (kind t = .dimension → t = 5) ∧ (kind t = .fraction → t = 6) := by
  by_cases ht : t < 32
  · have key : ∀ y : Fin 32,
        (kind y.val = .string → y.val = 3) ∧ (kind y.val = .attribute → y.val = 2)
        ∧ (kind y.val = .reference → y.val = 1) ∧ (kind y.val = .float → y.val = 4)
        ∧ (kind y.val = .intHex → y.val = 0x11) ∧ (kind y.val = .intBoolean → y.val = 0x12)
        ∧ (kind y.val = .dimension → y.val = 5) ∧ (kind y.val = .fraction → y.val = 6) := by
      decide +kernel
    exact key ⟨t, ht⟩
  · have hn : kind t = .none := by
      unfold kind
      rw [if_neg (by omega), if_neg (by omega), if_neg (by omega), if_neg (by omega), if_neg (by omega),
        if_neg (by omega), if_neg (by omega), if_neg (by omega), if_neg (by omega), if_neg (by omega)]
    rw [hn]
    refine ⟨?_, ?_, ?_, ?_, ?_, ?_, ?_, ?_⟩ <;> intro h <;> cases h

end AgVerif.ResValue
