/- Helper lemmas for C26 (tree building, character classes, length prefixes). -/
import AgVerif.Spec.Axml
namespace AgVerif.Proof.Axml
open AgVerif.Axml AgVerif.Spec.Axml AgVerif.Gen.AxmlConsts

/-! ### the printer's stack discipline -/

/-- state of the printer inside the root element -/
def inside (root : Option Node) (o : Open) (rest : List Open) : Printer := ⟨root, true, o :: rest, false⟩

theorem runEvents_cons (e : REvent) (r : List REvent) (p p' : Printer) (h : applyEv e p = .ok p') (hs : p'.stop = false) :
    runEvents (e :: r) p = runEvents r p' := by
  simp [runEvents, h, hs]

mutual
theorem run_node (n : Node) (more : List REvent) (root : Option Node) (o : Open) (rest : List Open) (h : TextsOk n) :
    runEvents (events n ++ more) (inside root o rest)
      = runEvents more (inside root { o with kids := push1 (norm n) o.kids } rest) := by
  match n with
  | .text s =>
    simp only [TextsOk] at h
    simp only [events, List.cons_append, List.nil_append]
    rw [runEvents_cons (.text (.ok s)) more (inside root o rest) (inside root { o with kids := addText s o.kids } rest)]
    · simp [norm, push1]
    · simp [applyEv, inside, h]
    · rfl
  | .elem tag ns attrs kids =>
    simp only [TextsOk] at h
    simp only [events, List.cons_append, List.append_assoc]
    rw [runEvents_cons _ _ (inside root o rest) (inside root ⟨tag, ns, attrs, []⟩ (o :: rest))]
    · rw [run_list kids _ root ⟨tag, ns, attrs, []⟩ (o :: rest) h]
      simp only [List.cons_append, List.nil_append]
      rw [runEvents_cons (.end_ false (.ok ())) more _
        (inside root { o with kids := push1 (norm (.elem tag ns attrs kids)) o.kids } rest)]
      · simp [applyEv, inside, norm, push1, Open.close]
      · rfl
    · simp [applyEv, inside]
    · rfl
theorem run_list (l : List Node) (more : List REvent) (root : Option Node) (o : Open) (rest : List Open) (h : TextsOkL l) :
    runEvents (eventsL l ++ more) (inside root o rest)
      = runEvents more (inside root { o with kids := pushKids (normL l) o.kids } rest) := by
  match l with
  | [] => simp [eventsL, normL, pushKids]
  | n :: r =>
    simp only [TextsOkL] at h
    simp only [eventsL, List.append_assoc]
    rw [run_node n _ root o rest h.1, run_list r more root _ rest h.2]
    simp [normL, pushKids]
end

/-! ### normal forms -/

theorem push1_normal (n : Node) (acc : List Node) (h1 : nonEmptyText n = true)
    (h2 : ¬ (isText n = true ∧ (acc.head?.map isText) = some true)) : push1 n acc = n :: acc := by
  cases n with
  | elem => rfl
  | text s =>
    simp only [nonEmptyText, Bool.not_eq_true', List.isEmpty_eq_false_iff] at h1
    simp only [push1, addText]
    have : s.isEmpty = false := by simpa using h1
    simp only [this]
    cases acc with
    | nil => rfl
    | cons a r =>
      cases a with
      | elem => rfl
      | text t => simp [isText] at h2

theorem pushKids_normal (l acc : List Node) (h1 : l.all nonEmptyText = true) (h2 : noAdjText l = true)
    (h3 : ¬ ((l.head?.map isText) = some true ∧ (acc.head?.map isText) = some true)) :
    pushKids l acc = l.reverse ++ acc := by
  induction l generalizing acc with
  | nil => simp [pushKids]
  | cons n r ih =>
    simp only [List.all_cons, Bool.and_eq_true] at h1
    rw [pushKids, push1_normal n acc h1.1 (by
      intro hc; apply h3; simp [hc.1, hc.2])]
    rw [ih (n :: acc) h1.2]
    · simp
    · cases r with
      | nil => rfl
      | cons b q => simp only [noAdjText, Bool.and_eq_true] at h2; exact h2.2
    · cases r with
      | nil => simp
      | cons b q =>
        simp only [noAdjText, Bool.and_eq_true, Bool.not_eq_true', Bool.and_eq_false_iff] at h2
        intro hc
        simp only [List.head?_cons, Option.map_some, Option.some.injEq] at hc
        rcases h2.1 with h | h <;> simp_all

mutual
theorem norm_normal (n : Node) (h : Normal n) : norm n = n := by
  match n with
  | .text s => rfl
  | .elem tag ns attrs kids =>
    simp only [Normal] at h
    simp only [norm]
    rw [normL_normal kids h.1, pushKids_normal kids [] h.2.2 h.2.1 (by simp)]
    simp
theorem normL_normal (l : List Node) (h : NormalL l) : normL l = l := by
  match l with
  | [] => rfl
  | n :: r =>
    simp only [NormalL] at h
    simp only [normL]
    rw [norm_normal n h.1, normL_normal r h.2]
end

/-! ### character classes -/

theorem valueClass_iff (c : Nat) : inClass valueMatchClass c = true ↔ XmlChar c := by
  simp only [inClass, valueMatchClass, List.any_cons, List.any_nil, Bool.or_false, Bool.or_eq_true, Bool.and_eq_true,
    decide_eq_true_eq, XmlChar]
  omega

theorem valueKeep_eq_match : valueKeepClass = valueMatchClass := by decide

theorem nameClass_iff (c : Nat) : inClass nameMatchClass c = true ↔ NameChar c := by
  simp only [inClass, nameMatchClass, List.any_cons, List.any_nil, Bool.or_false, Bool.or_eq_true, Bool.and_eq_true,
    decide_eq_true_eq, NameChar, NameStart]
  omega

theorem takeWhile_all {p : Nat → Bool} (v : List Nat) (h : ∀ c ∈ v, p c = true) : v.takeWhile p = v := by
  induction v with
  | nil => rfl
  | cons c r ih =>
    have hc := h c (by simp)
    simp only [List.takeWhile_cons, hc, if_true]
    rw [ih (fun x hx => h x (by simp [hx]))]

theorem splitColon_none (n : Str) (h : ∀ c ∈ n, c ≠ 0x3A) : splitColon n = none := by
  induction n with
  | nil => rfl
  | cons c r ih =>
    have hc : c ≠ 0x3A := h c (by simp)
    simp [splitColon, hc, ih (fun x hx => h x (by simp [hx]))]

theorem setAttr_fresh (a : Attr) (l : List Attr) (h : ∀ b ∈ l, ¬ (b.ns = a.ns ∧ b.name = a.name)) :
    setAttr a l = l ++ [a] := by
  induction l with
  | nil => rfl
  | cons b r ih =>
    have hb := h b (by simp)
    simp only [setAttr, hb, if_false, List.cons_append]
    rw [ih (fun x hx => h x (by simp [hx]))]

end AgVerif.Proof.Axml
