/-
Lemmas for C13..C16, part 5: program-level characterisation of every table of `analyse p`, the
order-forgetting `view`, and its invariance under any rearrangement of the classes into DEX files.
-/
import AgVerif.Proof.XrefChar

namespace AgVerif.Xref
open AgVerif.Gen

/-! ### method cross references -/

theorem callTo_iff (p : List Dex) (a b : MKey) (off : Nat) :
    (a, b, off) ∈ (analyse p).callTo ↔ Spec.Calls p a b off := by
  rw [mem_table (·.callTo) (·.callTo) (fun _ _ => rfl) rfl (fun _ _ => rfl) p, (addAll_xr_nil p).1]
  simp only [List.not_mem_nil, false_or, site_callTo, Spec.Calls]
  constructor
  · rintro ⟨s, hs, k, hk, e⟩; cases e; exact ⟨s, hs, rfl, rfl, hk⟩
  · rintro ⟨s, hs, rfl, rfl, hk⟩; exact ⟨s, hs, b, hk, rfl⟩

theorem callFrom_iff (p : List Dex) (a b : MKey) (off : Nat) :
    (b, a, off) ∈ (analyse p).callFrom ↔ Spec.Calls p a b off := by
  rw [mem_table (·.callFrom) (·.callFrom) (fun _ _ => rfl) rfl (fun _ _ => rfl) p, (addAll_xr_nil p).2.1]
  simp only [List.not_mem_nil, false_or, site_callFrom, Spec.Calls]
  constructor
  · rintro ⟨s, hs, k, hk, e⟩; cases e; exact ⟨s, hs, rfl, rfl, hk⟩
  · rintro ⟨s, hs, rfl, rfl, hk⟩; exact ⟨s, hs, b, hk, rfl⟩

theorem called_iff (p : List Dex) (k : MKey) :
    Spec.Called p k ↔ ∃ s ∈ Spec.sites p, Spec.callTarget s.ins = some k := by
  unfold Spec.Called Spec.Calls
  constructor
  · rintro ⟨m, off, s, hs, _, _, h⟩; exact ⟨s, hs, h⟩
  · rintro ⟨s, hs, h⟩; exact ⟨s.meth, s.off, s, hs, rfl, rfl, h⟩

theorem mem_extMethods (p : List Dex) (decl : List FKey) (k : MKey) :
    k ∈ (progDelta decl p).extMethods ↔ Spec.Called p k := by
  rw [mem_progDelta (·.extMethods) (fun _ _ => rfl) rfl, called_iff]
  simp only [site_extMethods]

theorem referenced_iff (p : List Dex) (c : String) :
    Spec.Referenced p c ↔ ∃ s ∈ Spec.sites p,
      (∃ k, Spec.callTarget s.ins = some k ∧ k.1 = c) ∨ Spec.usedClass s.cls s.ins = some c := by
  unfold Spec.Referenced Spec.Uses
  constructor
  · rintro (⟨k, hk, rfl⟩ | ⟨op, m, off, s, hs, _, _, _, h⟩)
    · obtain ⟨s, hs, h⟩ := (called_iff p k).1 hk
      exact ⟨s, hs, Or.inl ⟨k, h, rfl⟩⟩
    · exact ⟨s, hs, Or.inr h⟩
  · rintro ⟨s, hs, ⟨k, h, rfl⟩ | h⟩
    · exact Or.inl ⟨k, (called_iff p k).2 ⟨s, hs, h⟩, rfl⟩
    · exact Or.inr ⟨s.ins.op.val, s.meth, s.off, s, hs, rfl, rfl, rfl, h⟩

theorem mem_extClasses (p : List Dex) (decl : List FKey) (c : String) :
    c ∈ (progDelta decl p).extClasses ↔ Spec.Referenced p c := by
  rw [mem_progDelta (·.extClasses) (fun _ _ => rfl) rfl, referenced_iff]
  simp only [site_extClasses]

open Classical in
theorem dget_methods (p : List Dex) (k : MKey) :
    dget (analyse p).methods k =
      if Spec.DefinedM p k then some false else if Spec.Called p k then some true else none := by
  rw [analyse_eq]
  show dget ((progDelta (addAll p).decl p).extMethods.foldl (fun d k => dsetdefault d k true) (addAll p).methods) k = _
  rw [dget_foldl_dsetdefault, dget_methods_addAll]
  by_cases h : Spec.DefinedM p k
  · simp [h]
  · simp only [h, if_false, mem_extMethods]

open Classical in
theorem dget_classes (p : List Dex) (c : String) :
    dget (analyse p).classes c =
      if Spec.DefinedC p c then some false else if Spec.Referenced p c then some true else none := by
  rw [analyse_eq]
  show dget ((progDelta (addAll p).decl p).extClasses.foldl (fun d k => dsetdefault d k true) (addAll p).classes) c = _
  rw [dget_foldl_dsetdefault, dget_classes_addAll]
  by_cases h : Spec.DefinedC p c
  · simp [h]
  · simp only [h, if_false, mem_extClasses]

theorem nodup_method_keys (p : List Dex) : (keys (analyse p).methods).Nodup := by
  rw [analyse_eq]
  show (keys ((progDelta (addAll p).decl p).extMethods.foldl (fun d k => dsetdefault d k true) (addAll p).methods)).Nodup
  apply nodup_keys_foldl_dsetdefault
  rw [methods_addAll]
  apply nodup_keys_foldl_dset
  simp [keys]

theorem nodup_class_keys (p : List Dex) : (keys (analyse p).classes).Nodup := by
  rw [analyse_eq]
  show (keys ((progDelta (addAll p).decl p).extClasses.foldl (fun d k => dsetdefault d k true) (addAll p).classes)).Nodup
  apply nodup_keys_foldl_dsetdefault
  rw [classes_addAll]
  apply nodup_keys_foldl_dset
  simp [keys]

theorem clsTo_iff (p : List Dex) (r : ClsRef) :
    r ∈ (analyse p).clsTo ↔
      (∃ caller, Spec.CallsWith p r.kind caller r.meth r.off ∧ r.cls = caller.1 ∧ r.other = r.meth.1) ∨
      (Spec.Uses p r.kind r.meth r.other r.off ∧ r.cls = r.meth.1) := by
  rw [mem_table (·.clsTo) (·.clsTo) (fun _ _ => rfl) rfl (fun _ _ => rfl) p, (addAll_xr_nil p).2.2.1]
  simp only [List.not_mem_nil, false_or, site_clsTo, Spec.CallsWith, Spec.Uses]
  constructor
  · rintro ⟨s, hs, ⟨k, hk, rfl⟩ | ⟨c, hc, rfl⟩⟩
    · exact Or.inl ⟨s.meth, ⟨s, hs, rfl, rfl, rfl, hk⟩, site_cls p s hs, rfl⟩
    · exact Or.inr ⟨⟨s, hs, rfl, rfl, rfl, hc⟩, site_cls p s hs⟩
  · rintro (⟨caller, ⟨s, hs, rfl, h2, h3, hk⟩, h4, h5⟩ | ⟨⟨s, hs, h1, h2, h3, hc⟩, h4⟩)
    · refine ⟨s, hs, Or.inl ⟨r.meth, hk, ?_⟩⟩
      cases r; simp_all [site_cls p s hs]
    · refine ⟨s, hs, Or.inr ⟨r.other, hc, ?_⟩⟩
      cases r; simp_all [site_cls p s hs]

theorem clsFrom_iff (p : List Dex) (r : ClsRef) :
    r ∈ (analyse p).clsFrom ↔
      (∃ callee, Spec.CallsWith p r.kind r.meth callee r.off ∧ r.cls = callee.1 ∧ r.other = r.meth.1) ∨
      (Spec.Uses p r.kind r.meth r.cls r.off ∧ r.other = r.meth.1) := by
  rw [mem_table (·.clsFrom) (·.clsFrom) (fun _ _ => rfl) rfl (fun _ _ => rfl) p, (addAll_xr_nil p).2.2.2.1]
  simp only [List.not_mem_nil, false_or, site_clsFrom, Spec.CallsWith, Spec.Uses]
  constructor
  · rintro ⟨s, hs, ⟨k, hk, rfl⟩ | ⟨c, hc, rfl⟩⟩
    · exact Or.inl ⟨k, ⟨s, hs, rfl, rfl, rfl, hk⟩, rfl, site_cls p s hs⟩
    · exact Or.inr ⟨⟨s, hs, rfl, rfl, rfl, hc⟩, site_cls p s hs⟩
  · rintro (⟨callee, ⟨s, hs, h1, h2, h3, hk⟩, h4, h5⟩ | ⟨⟨s, hs, h1, h2, h3, hc⟩, h4⟩)
    · refine ⟨s, hs, Or.inl ⟨callee, hk, ?_⟩⟩
      cases r; simp_all [site_cls p s hs]
    · refine ⟨s, hs, Or.inr ⟨r.cls, hc, ?_⟩⟩
      cases r; simp_all [site_cls p s hs]

/-! ### class usage and strings -/

theorem newInstM_iff (p : List Dex) (m : MKey) (c : String) (off : Nat) :
    (m, c, off) ∈ (analyse p).newInstM ↔ Spec.Uses p Spec.newInstanceOp m c off := by
  rw [mem_table (·.newInstM) (·.newInstM) (fun _ _ => rfl) rfl (fun _ _ => rfl) p, (addAll_xr_nil p).2.2.2.2.1]
  simp only [List.not_mem_nil, false_or, site_newInstM, Spec.Uses]
  constructor
  · rintro ⟨s, hs, c', hc, hop, e⟩; cases e; exact ⟨s, hs, rfl, rfl, hop, hc⟩
  · rintro ⟨s, hs, rfl, rfl, hop, hc⟩; exact ⟨s, hs, c, hc, hop, rfl⟩

theorem constClsM_iff (p : List Dex) (m : MKey) (c : String) (off : Nat) :
    (m, c, off) ∈ (analyse p).constClsM ↔ Spec.Uses p Spec.constClassOp m c off := by
  rw [mem_table (·.constClsM) (·.constClsM) (fun _ _ => rfl) rfl (fun _ _ => rfl) p,
      (addAll_xr_nil p).2.2.2.2.2.2.1]
  simp only [List.not_mem_nil, false_or, site_constClsM, Spec.Uses]
  constructor
  · rintro ⟨s, hs, c', hc, hop, e⟩; cases e; exact ⟨s, hs, rfl, rfl, hop, hc⟩
  · rintro ⟨s, hs, rfl, rfl, hop, hc⟩; exact ⟨s, hs, c, hc, hop, rfl⟩

theorem newInstC_iff (p : List Dex) (m : MKey) (c : String) (off : Nat) :
    (c, m, off) ∈ (analyse p).newInstC ↔ Spec.Uses p Spec.newInstanceOp m c off := by
  rw [← newInstM_iff]
  rw [mem_table (·.newInstC) (·.newInstC) (fun _ _ => rfl) rfl (fun _ _ => rfl) p, (addAll_xr_nil p).2.2.2.2.2.1,
      mem_table (·.newInstM) (·.newInstM) (fun _ _ => rfl) rfl (fun _ _ => rfl) p, (addAll_xr_nil p).2.2.2.2.1]
  simp only [List.not_mem_nil, false_or, siteDelta, emit_newInstC, List.mem_map]
  constructor
  · rintro ⟨s, hs, x, hx, e⟩; cases e; exact ⟨s, hs, hx⟩
  · rintro ⟨s, hs, hx⟩; exact ⟨s, hs, _, hx, rfl⟩

theorem constClsC_iff (p : List Dex) (m : MKey) (c : String) (off : Nat) :
    (c, m, off) ∈ (analyse p).constClsC ↔ Spec.Uses p Spec.constClassOp m c off := by
  rw [← constClsM_iff]
  rw [mem_table (·.constClsC) (·.constClsC) (fun _ _ => rfl) rfl (fun _ _ => rfl) p,
      (addAll_xr_nil p).2.2.2.2.2.2.2.1,
      mem_table (·.constClsM) (·.constClsM) (fun _ _ => rfl) rfl (fun _ _ => rfl) p,
      (addAll_xr_nil p).2.2.2.2.2.2.1]
  simp only [List.not_mem_nil, false_or, siteDelta, emit_constClsC, List.mem_map]
  constructor
  · rintro ⟨s, hs, x, hx, e⟩; cases e; exact ⟨s, hs, hx⟩
  · rintro ⟨s, hs, hx⟩; exact ⟨s, hs, _, hx, rfl⟩

theorem strFrom_iff (p : List Dex) (str : String) (m : MKey) (off : Nat) :
    (str, m, off) ∈ (analyse p).strFrom ↔ Spec.LoadsString p str m off := by
  rw [mem_table (·.strFrom) (·.strFrom) (fun _ _ => rfl) rfl (fun _ _ => rfl) p,
      (addAll_xr_nil p).2.2.2.2.2.2.2.2.1]
  simp only [List.not_mem_nil, false_or, site_strFrom, Spec.LoadsString]
  constructor
  · rintro ⟨s, hs, sv, h1, h2, e⟩; cases e; exact ⟨s, hs, rfl, rfl, h1, h2⟩
  · rintro ⟨s, hs, rfl, rfl, h1, h2⟩; exact ⟨s, hs, str, h1, h2, rfl⟩

theorem strings_iff (p : List Dex) (str : String) :
    str ∈ (analyse p).strings ↔ Spec.InPool p str ∨ ∃ m off, Spec.LoadsString p str m off := by
  rw [mem_table (·.strings) (·.strings) (fun _ _ => rfl) rfl (fun _ _ => rfl) p, mem_strings_addAll]
  simp only [site_strings, Spec.LoadsString]
  constructor
  · rintro (h | ⟨s, hs, h1, h2⟩)
    · exact Or.inl h
    · exact Or.inr ⟨s.meth, s.off, s, hs, rfl, rfl, h1, h2⟩
  · rintro (h | ⟨m, off, s, hs, _, _, h1, h2⟩)
    · exact Or.inl h
    · exact Or.inr ⟨s, hs, h1, h2⟩

/-! ### field accesses -/

theorem fRead_iff (p : List Dex) (h : String) (f : FKey) (m : MKey) (off : Nat) :
    ((h, f), m, off) ∈ (analyse p).fRead ↔ Spec.DefinedF p f ∧ Spec.Reads p f m off ∧ h = m.1 := by
  rw [mem_table (·.fRead) (·.fRead) (fun _ _ => rfl) rfl (fun _ _ => rfl) p,
      (addAll_xr_nil p).2.2.2.2.2.2.2.2.2.1]
  simp only [List.not_mem_nil, false_or, site_fRead, Spec.Reads, mem_decl_addAll]
  constructor
  · rintro ⟨s, hs, f', hd, h1, h2, e⟩; cases e
    exact ⟨hd, ⟨s, hs, rfl, rfl, h1, h2⟩, site_cls p s hs⟩
  · rintro ⟨hd, ⟨s, hs, rfl, rfl, h1, h2⟩, rfl⟩
    exact ⟨s, hs, f, hd, h1, h2, by rw [site_cls p s hs]⟩

theorem fWrite_iff (p : List Dex) (h : String) (f : FKey) (m : MKey) (off : Nat) :
    ((h, f), m, off) ∈ (analyse p).fWrite ↔ Spec.DefinedF p f ∧ Spec.Writes p f m off ∧ h = m.1 := by
  rw [mem_table (·.fWrite) (·.fWrite) (fun _ _ => rfl) rfl (fun _ _ => rfl) p,
      (addAll_xr_nil p).2.2.2.2.2.2.2.2.2.2.1]
  simp only [List.not_mem_nil, false_or, site_fWrite, Spec.Writes, mem_decl_addAll]
  constructor
  · rintro ⟨s, hs, f', hd, h1, h2, e⟩; cases e
    exact ⟨hd, ⟨s, hs, rfl, rfl, h1, h2⟩, site_cls p s hs⟩
  · rintro ⟨hd, ⟨s, hs, rfl, rfl, h1, h2⟩, rfl⟩
    exact ⟨s, hs, f, hd, h1, h2, by rw [site_cls p s hs]⟩

theorem mRead_iff (p : List Dex) (f : FKey) (m : MKey) (off : Nat) :
    (m, f, off) ∈ (analyse p).mRead ↔ Spec.DefinedF p f ∧ Spec.Reads p f m off := by
  rw [mem_table (·.mRead) (·.mRead) (fun _ _ => rfl) rfl (fun _ _ => rfl) p,
      (addAll_xr_nil p).2.2.2.2.2.2.2.2.2.2.2.1]
  simp only [List.not_mem_nil, false_or, site_mRead, Spec.Reads, mem_decl_addAll]
  constructor
  · rintro ⟨s, hs, f', hd, h1, h2, e⟩; cases e
    exact ⟨hd, s, hs, rfl, rfl, h1, h2⟩
  · rintro ⟨hd, s, hs, rfl, rfl, h1, h2⟩
    exact ⟨s, hs, f, hd, h1, h2, rfl⟩

theorem mWrite_iff (p : List Dex) (f : FKey) (m : MKey) (off : Nat) :
    (m, f, off) ∈ (analyse p).mWrite ↔ Spec.DefinedF p f ∧ Spec.Writes p f m off := by
  rw [mem_table (·.mWrite) (·.mWrite) (fun _ _ => rfl) rfl (fun _ _ => rfl) p,
      (addAll_xr_nil p).2.2.2.2.2.2.2.2.2.2.2.2]
  simp only [List.not_mem_nil, false_or, site_mWrite, Spec.Writes, mem_decl_addAll]
  constructor
  · rintro ⟨s, hs, f', hd, h1, h2, e⟩; cases e
    exact ⟨hd, s, hs, rfl, rfl, h1, h2⟩
  · rintro ⟨hd, s, hs, rfl, rfl, h1, h2⟩
    exact ⟨s, hs, f, hd, h1, h2, rfl⟩

/-- class `h` contains an instruction that reads or writes `f` -/
def Spec.AccessedFrom (p : List Dex) (f : FKey) (h : String) : Prop :=
  ∃ m off, (Spec.Reads p f m off ∨ Spec.Writes p f m off) ∧ m.1 = h

theorem fields_iff (p : List Dex) (h : String) (f : FKey) :
    (h, f) ∈ (analyse p).fields ↔ Spec.DefinedF p f ∧ (h = f.1 ∨ Spec.AccessedFrom p f h) := by
  rw [mem_table (·.fas) (·.fields) (fun _ _ => rfl) rfl (fun _ _ => rfl) p, mem_fields_addAll]
  simp only [site_fas, Spec.AccessedFrom, Spec.Reads, Spec.Writes, mem_decl_addAll]
  constructor
  · rintro (⟨hd, rfl⟩ | ⟨s, hs, f', hd, h1, h2, e⟩)
    · exact ⟨hd, Or.inl rfl⟩
    · cases e
      refine ⟨hd, Or.inr ⟨s.meth, s.off, ?_, (site_cls p s hs).symm⟩⟩
      rcases h1 with h1 | h1
      · exact Or.inl ⟨s, hs, rfl, rfl, h1, h2⟩
      · exact Or.inr ⟨s, hs, rfl, rfl, h1, h2⟩
  · rintro ⟨hd, rfl | ⟨m, off, hrw, rfl⟩⟩
    · exact Or.inl ⟨hd, rfl⟩
    · rcases hrw with ⟨s, hs, rfl, rfl, h1, h2⟩ | ⟨s, hs, rfl, rfl, h1, h2⟩
      · exact Or.inr ⟨s, hs, f, hd, Or.inl h1, h2, by rw [site_cls p s hs]⟩
      · exact Or.inr ⟨s, hs, f, hd, Or.inr h1, h2, by rw [site_cls p s hs]⟩

theorem nodup_fields (p : List Dex) : (analyse p).fields.Nodup := by
  rw [analyse_eq]
  show ((progDelta (addAll p).decl p).fas.foldl sadd (addAll p).fields).Nodup
  apply nodup_foldl_sadd
  rw [fields_addAll]
  apply nodup_foldl_sadd
  simp

/-! ### the call graph -/

theorem mem_callGraph_aux (ms : List (MKey × Bool)) (ct : List (MKey × MKey × Nat)) (g : List (MKey × MKey))
    (e : MKey × MKey) :
    e ∈ ms.foldl (fun g kv => (ct.filter (fun x => x.1 = kv.1)).foldl (fun g x => sadd g (kv.1, x.2.1)) g) g ↔
      e ∈ g ∨ ∃ kv ∈ ms, ∃ x ∈ ct, x.1 = kv.1 ∧ e = (kv.1, x.2.1) := by
  induction ms generalizing g with
  | nil => simp
  | cons kv ms ih =>
    have inner : ∀ (l : List (MKey × MKey × Nat)) (g : List (MKey × MKey)),
        e ∈ l.foldl (fun g x => sadd g (kv.1, x.2.1)) g ↔ e ∈ g ∨ ∃ x ∈ l, e = (kv.1, x.2.1) := by
      intro l
      induction l with
      | nil => simp
      | cons y l ihl =>
        intro g
        simp only [List.foldl_cons, ihl, mem_sadd, List.mem_cons]
        constructor
        · rintro ((h | h) | ⟨x, hx, h⟩)
          · exact Or.inl h
          · exact Or.inr ⟨y, Or.inl rfl, h⟩
          · exact Or.inr ⟨x, Or.inr hx, h⟩
        · rintro (h | ⟨x, rfl | hx, h⟩)
          · exact Or.inl (Or.inl h)
          · exact Or.inl (Or.inr h)
          · exact Or.inr ⟨x, hx, h⟩
    simp only [List.foldl_cons, ih, inner, List.mem_filter, List.mem_cons, decide_eq_true_eq]
    constructor
    · rintro ((h | ⟨x, ⟨hx, hk⟩, h⟩) | ⟨kv', hkv, x, hx, h1, h2⟩)
      · exact Or.inl h
      · exact Or.inr ⟨kv, Or.inl rfl, x, hx, hk, h⟩
      · exact Or.inr ⟨kv', Or.inr hkv, x, hx, h1, h2⟩
    · rintro (h | ⟨kv', rfl | hkv, x, hx, h1, h2⟩)
      · exact Or.inl (Or.inl h)
      · exact Or.inl (Or.inr ⟨x, ⟨hx, h1⟩, h2⟩)
      · exact Or.inr ⟨kv', hkv, x, hx, h1, h2⟩

theorem caller_defined (p : List Dex) (a b : MKey) (off : Nat) (h : Spec.Calls p a b off) : Spec.DefinedM p a := by
  obtain ⟨s, hs, rfl, _, _⟩ := h
  obtain ⟨d, hd, c, hc, m, hm, oi, _, rfl⟩ := (mem_sites p s).1 hs
  exact ⟨c, List.mem_flatMap.2 ⟨d, hd, hc⟩, m, hm, rfl⟩

theorem callGraph_iff (p : List Dex) (a b : MKey) :
    (a, b) ∈ callGraph (analyse p) ↔ ∃ off, (a, b, off) ∈ (analyse p).callTo := by
  unfold callGraph
  rw [mem_callGraph_aux]
  simp only [List.not_mem_nil, false_or]
  constructor
  · rintro ⟨kv, _, x, hx, h1, h2⟩
    obtain ⟨xa, xb, xo⟩ := x
    simp only [Prod.mk.injEq] at h2
    obtain ⟨rfl, rfl⟩ := h2
    simp only at h1
    subst h1
    exact ⟨xo, hx⟩
  · rintro ⟨off, h⟩
    have hd := caller_defined p a b off ((callTo_iff p a b off).1 h)
    have hk : a ∈ keys (analyse p).methods := by
      rw [mem_keys_iff, dget_methods]
      simp [hd]
    obtain ⟨kv, hkv, rfl⟩ := List.mem_map.1 hk
    exact ⟨kv, hkv, (kv.1, b, off), h, rfl, rfl⟩

end AgVerif.Xref
