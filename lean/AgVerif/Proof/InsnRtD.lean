/- C01: byte round trip of the classes 30t 32x 31i 31t 31c (generated layout; tactic `rt6` of Proof/InsnRoundtrip.lean) -/
import AgVerif.Proof.InsnRoundtrip
set_option linter.unusedSimpArgs false
set_option linter.unusedVariables false
namespace AgVerif.Insn
open AgVerif.Gen

theorem rt_30t (bs : List Nat) (hb : AllBytes bs) (x : Insn) (h : decode .f30t bs = .ok x) :
    encode x = some (bs.take (Opcodes.length .f30t)) := by
  have hl := decode_ok_length h
  rt6

theorem rt_32x (bs : List Nat) (hb : AllBytes bs) (x : Insn) (h : decode .f32x bs = .ok x) :
    encode x = some (bs.take (Opcodes.length .f32x)) := by
  have hl := decode_ok_length h
  rt6

theorem rt_31i (bs : List Nat) (hb : AllBytes bs) (x : Insn) (h : decode .f31i bs = .ok x) :
    encode x = some (bs.take (Opcodes.length .f31i)) := by
  have hl := decode_ok_length h
  rt6

theorem rt_31t (bs : List Nat) (hb : AllBytes bs) (x : Insn) (h : decode .f31t bs = .ok x) :
    encode x = some (bs.take (Opcodes.length .f31t)) := by
  have hl := decode_ok_length h
  rt6

theorem rt_31c (bs : List Nat) (hb : AllBytes bs) (x : Insn) (h : decode .f31c bs = .ok x) :
    encode x = some (bs.take (Opcodes.length .f31c)) := by
  have hl := decode_ok_length h
  rt6

end AgVerif.Insn
