/- C31, full manifest: attribute lookups on the elements of `AppManifest.toXml`, and the analysis of that tree. -/
import AgVerif.Proof.ManifestFull
set_option linter.unusedSimpArgs false
namespace AgVerif.Proof.Manifest
open AgVerif.Axml AgVerif.Manifest AgVerif.Spec.Manifest AgVerif.Gen.AxmlConsts

/-! ### attribute lookup -/

/-- `el.get(key)` on the attribute list -/
def lookup (attrs : List Attr) (ns name : Str) : Option Str := (attrs.find? fun a => a.ns == ns && a.name == name).map (·.value)

theorem getAttr_eq (e : El) (ns name : Str) : getAttr e ns name = lookup e.attrs ns name := rfl

theorem ns_isEmpty : nsAndroid.isEmpty = false := by decide

theorem lookup_nil (ns name : Str) : lookup [] ns name = none := rfl

theorem lookup_att_cons (n n' : AName) (v : Str) (r : List Attr) :
    lookup (att n v :: r) nsAndroid n'.str = if n = n' then some v else lookup r nsAndroid n'.str := by
  by_cases h : n = n' <;> simp [lookup, att, List.find?_cons, ns_beq_self, AName.str_beq, h]

theorem lookup_att_cons_bare (n : AName) (v : Str) (r : List Attr) (name : Str) :
    lookup (att n v :: r) [] name = lookup r [] name := by
  simp [lookup, att, List.find?_cons, ns_beq_nil, ns_isEmpty]

theorem lookup_optAtt_append (n n' : AName) (o : Option Str) (r : List Attr) :
    lookup (optAtt n o ++ r) nsAndroid n'.str = if n = n' then (o <|> lookup r nsAndroid n'.str) else lookup r nsAndroid n'.str := by
  cases o with
  | none => by_cases h : n = n' <;> simp [optAtt, h]
  | some v => simp [optAtt, lookup_att_cons]

theorem lookup_optAtt (n n' : AName) (o : Option Str) :
    lookup (optAtt n o) nsAndroid n'.str = if n = n' then o else none := by
  cases o with
  | none => by_cases h : n = n' <;> simp [optAtt, h, lookup_nil]
  | some v => simp [optAtt, lookup_att_cons, lookup_nil]

theorem lookup_optAtt_append_bare (n : AName) (o : Option Str) (r : List Attr) (name : Str) :
    lookup (optAtt n o ++ r) [] name = lookup r [] name := by
  cases o <;> simp [optAtt, lookup_att_cons_bare]

theorem lookup_optAtt_bare (n : AName) (o : Option Str) (name : Str) : lookup (optAtt n o) [] name = none := by
  cases o <;> simp [optAtt, lookup_att_cons_bare, lookup_nil]

theorem lookup_package_cons (p : Str) (r : List Attr) (n : AName) :
    lookup (⟨[], lit attrPackage, p⟩ :: r) nsAndroid n.str = lookup r nsAndroid n.str := by
  simp [lookup, List.find?_cons, nil_beq_ns, ns_isEmpty]

theorem lookup_package_cons_ns (p : Str) (r : List Attr) (h : lookup r nsAndroid (lit attrPackage) = none) :
    lookup (⟨[], lit attrPackage, p⟩ :: r) nsAndroid (lit attrPackage) = none := by
  unfold lookup at h ⊢
  rw [List.find?_cons]
  simp only [nil_beq_ns, Bool.false_and]
  exact h

theorem lookup_package_bare (p : Str) (r : List Attr) : lookup (⟨[], lit attrPackage, p⟩ :: r) [] (lit attrPackage) = some p := by
  simp [lookup, List.find?_cons]

theorem lookup_package_cons_bare (p : Str) (r : List Attr) (n : AName) :
    lookup (⟨[], lit attrPackage, p⟩ :: r) [] n.str = lookup r [] n.str := by
  have : (lit attrPackage == n.str) = false := by
    have := AName.str_ne_package n
    rw [Bool.eq_false_iff] at this ⊢
    intro h; apply this; simpa using (by simpa using h : lit attrPackage = n.str).symm
  simp [lookup, List.find?_cons, this]

/-- `a or b` on an element whose bare lookup finds nothing: the namespaced value, when it is not empty -/
theorem attrOr_of (e : El) (name : Str) (o : Option Str) (hb : lookup e.attrs [] name = none)
    (h : lookup e.attrs nsAndroid name = o) (hne : ∀ v ∈ o, v ≠ []) : attrOr e name = o := by
  unfold attrOr
  rw [getAttr_eq, getAttr_eq, h, hb]
  cases o with
  | none => rfl
  | some v =>
    have : v.isEmpty = false := by simpa using hne v rfl
    simp [this]

theorem valueFromTag_of (e : El) (name : Str) (o : Option Str) (hb : lookup e.attrs [] name = none)
    (h : lookup e.attrs nsAndroid name = o) : valueFromTag e name = o := by
  unfold valueFromTag
  rw [getAttr_eq, getAttr_eq, h, hb]
  cases o <;> rfl

/-! ### lookups on the elements of a manifest -/

theorem named_name (t : Tag) (n : Str) (h : n ≠ []) : attrOr (namedEl t n) AName.name.str = some n :=
  attrOr_of _ _ _ (by simp [namedEl, mkEl, lookup_att_cons_bare, lookup_nil]) (by simp [namedEl, mkEl, lookup_att_cons])
    (by simpa using h)

theorem named_name_get (t : Tag) (n : Str) : getAttr (namedEl t n) nsAndroid AName.name.str = some n := by
  simp [getAttr_eq, namedEl, mkEl, lookup_att_cons]

theorem activity_name (a : Activity) (h : a.name ≠ []) : attrOr (activityEl a) AName.name.str = some a.name :=
  attrOr_of _ _ _ (by simp [activityEl, mkEl, lookup_att_cons_bare, lookup_optAtt_append_bare, lookup_optAtt_bare])
    (by simp [activityEl, mkEl, lookup_att_cons]) (by simpa using h)

theorem activity_enabled (a : Activity) : getAttr (activityEl a) nsAndroid AName.enabled.str = a.enabled.map Val.render := by
  simp [getAttr_eq, activityEl, mkEl, lookup_att_cons, lookup_optAtt_append, lookup_optAtt]

theorem permission_name (p : UsesPermission) (h : p.name ≠ []) : attrOr (permissionEl p) AName.name.str = some p.name :=
  attrOr_of _ _ _ (by simp [permissionEl, mkEl, lookup_att_cons_bare, lookup_optAtt_bare])
    (by simp [permissionEl, mkEl, lookup_att_cons]) (by simpa using h)

theorem permission_name_value (p : UsesPermission) : valueFromTag (permissionEl p) AName.name.str = some p.name :=
  valueFromTag_of _ _ _ (by simp [permissionEl, mkEl, lookup_att_cons_bare, lookup_optAtt_bare])
    (by simp [permissionEl, mkEl, lookup_att_cons])

theorem permission_maxSdk (p : UsesPermission) : valueFromTag (permissionEl p) AName.maxSdk.str = p.maxSdk.map Val.render :=
  valueFromTag_of _ _ _ (by simp [permissionEl, mkEl, lookup_att_cons_bare, lookup_optAtt_bare])
    (by simp [permissionEl, mkEl, lookup_att_cons, lookup_optAtt])

theorem usesSdk_lookup (s : UsesSdk) (n : AName) :
    lookup (usesSdkEl s).attrs nsAndroid n.str =
      if n = .minSdk then s.min.map Val.render else if n = .targetSdk then s.target.map Val.render
      else if n = .maxSdk then s.max.map Val.render else none := by
  cases n <;> simp [usesSdkEl, mkEl, lookup_optAtt_append, lookup_optAtt]

theorem usesSdk_bare (s : UsesSdk) (name : Str) : lookup (usesSdkEl s).attrs [] name = none := by
  simp [usesSdkEl, mkEl, lookup_optAtt_append_bare, lookup_optAtt_bare]

theorem root_lookup (m : AppManifest) (n : AName) :
    lookup (rootEl m).attrs nsAndroid n.str =
      if n = .versionCode then m.versionCode.map Val.render else if n = .versionName then m.versionName else none := by
  cases n <;> simp [rootEl, mkEl, lookup_package_cons, lookup_optAtt_append, lookup_optAtt]

theorem root_bare (m : AppManifest) (n : AName) : lookup (rootEl m).attrs [] n.str = none := by
  simp [rootEl, mkEl, lookup_package_cons_bare, lookup_optAtt_append_bare, lookup_optAtt_bare]

theorem root_package (m : AppManifest) : attrOr (rootEl m) (lit attrPackage) = some m.package := by
  have h1 : lookup (rootEl m).attrs nsAndroid (lit attrPackage) = none := by
    simp only [rootEl, mkEl]
    apply lookup_package_cons_ns
    cases m.versionCode <;> cases m.versionName <;>
      simp [optAtt, lookup, att, List.find?_cons, AName.str_ne_package]
  have h2 : lookup (rootEl m).attrs [] (lit attrPackage) = some m.package := by
    simp [rootEl, mkEl, lookup_package_bare]
  unfold attrOr
  rw [getAttr_eq, getAttr_eq, h1, h2]

/-! ### the analysis of the tree -/

/-- `_apk_analysis` on the XML of a manifest, in terms of `find_tags` on its root element -/
theorem analyse_toXml (m : AppManifest) :
    analyse (some m.toXml) =
      (let root := some (rootEl m)
       let pkg : Option Str := match firstAttrValue root (lit tagManifest) (lit attrPackage) with
         | .val s => some s
         | _ => none
       ⟨root, true, pkg, firstAttrValue root (lit tagManifest) (lit attrVersionCode),
         firstAttrValue root (lit tagManifest) (lit attrVersionName),
         dedup (allAttrValues root pkg (lit tagUsesPermission) (lit attrName) completePermissions),
         (findTags root (lit tagUsesPermission)).map fun e => (valueFromTag e (lit attrName), permissionMaxSdk e)⟩) := by
  have h : (!((rootEl m).ns.isEmpty && (rootEl m).tag == lit tagManifest)) = false := by
    simp [rootEl, mkEl, lit_tagManifest]
  simp only [analyse, Option.bind, elOf_toXml, h, Bool.false_eq_true, if_false]
  rfl

/-- the first value of an attribute of the root element -/
theorem first_root (m : AppManifest) (name : Str) (o : Option Str) (h : attrOr (rootEl m) name = o) :
    firstAttrValue (some (rootEl m)) (lit tagManifest) name = optFirst o := by
  simp only [firstAttrValue, allAttrValues, lit_tagManifest, findTags_manifest, List.filterMap_cons, List.filterMap_nil, h]
  cases o <;> simp [optFirst]

end AgVerif.Proof.Manifest
