import AgVerif.Model.Translate
namespace AgVerif.Translate
open AgVerif.JavaSem
open AgVerif.DalvikSem (Form BinF UnF Conv Cmp binOp binInt binLong step lift32 lift64 Outcome)

theorem wrap_add {w} (x y : BitVec w) : wrap w (x.toInt + y.toInt) = x + y := by
  simp [wrap, BitVec.ofInt_add]
theorem wrap_sub {w} (x y : BitVec w) : wrap w (x.toInt - y.toInt) = x - y := by
  simp [wrap, Int.sub_eq_add_neg, BitVec.ofInt_add, BitVec.ofInt_neg, BitVec.sub_eq_add_neg]
theorem wrap_mul {w} (x y : BitVec w) : wrap w (x.toInt * y.toInt) = x * y := by
  simp [wrap, BitVec.ofInt_mul]
theorem wrap_neg {w} (x : BitVec w) : wrap w (-x.toInt) = -x := by
  simp [wrap, BitVec.ofInt_neg]
theorem wrap_div {w} (x y : BitVec w) : wrap w (Int.tdiv x.toInt y.toInt) = x.sdiv y := by
  apply BitVec.eq_of_toInt_eq
  simp [wrap, BitVec.toInt_ofInt, BitVec.toInt_sdiv]
theorem wrap_rem {w} (x y : BitVec w) : wrap w (Int.tmod x.toInt y.toInt) = x.srem y := by
  unfold wrap; rw [← BitVec.toInt_srem, BitVec.ofInt_toInt]
theorem wrap_shr {w} (x : BitVec w) (s : Nat) : wrap w (x.toInt / (2 : Int) ^ s) = x.sshiftRight s := by
  have : x.toInt / (2 : Int) ^ s = (x.sshiftRight s).toInt := by
    rw [BitVec.toInt_sshiftRight, Int.shiftRight_eq_div_pow]; simp
  unfold wrap; rw [this, BitVec.ofInt_toInt]
theorem wrap_compl {w} (x : BitVec w) : wrap w (-x.toInt - 1) = ~~~x := by
  have h : -x = ~~~x + 1#w := BitVec.neg_eq_not_add x
  have one : BitVec.ofInt w 1 = 1#w := by
    apply BitVec.eq_of_toNat_eq; simp
  simp only [wrap, Int.sub_eq_add_neg, BitVec.ofInt_add, BitVec.ofInt_neg, BitVec.ofInt_toInt, one]
  rw [h, BitVec.add_assoc, ← BitVec.sub_eq_add_neg, BitVec.sub_self, BitVec.add_zero]
theorem ofInt_two_pow {w} (s : Nat) : BitVec.ofInt w ((2 : Int) ^ s) = BitVec.twoPow w s := by
  apply BitVec.eq_of_toNat_eq
  rw [BitVec.toNat_twoPow, BitVec.toNat_ofInt]
  have : ((2:Int)^s) % ((2^w : Nat) : Int) = (((2^s % 2^w : Nat)) : Int) := by
    push_cast; rfl
  rw [this]; exact Int.toNat_natCast _
theorem wrap_shl {w} (x : BitVec w) (s : Nat) : wrap w (x.toInt * (2 : Int) ^ s) = x <<< s := by
  rw [BitVec.shiftLeft_eq_mul_twoPow]
  simp only [wrap, BitVec.ofInt_mul, BitVec.ofInt_toInt, ofInt_two_pow]

theorem toInt_eq_zero {w} (y : BitVec w) : y.toInt = 0 ↔ y = 0 := by
  constructor
  · intro h; apply BitVec.eq_of_toInt_eq; simpa using h
  · intro h; simp [h]

/-- Dalvik's exception seen as Java's -/
def toJ {α} : Except DalvikSem.Exn α → Except Err α
  | .ok v => .ok v
  | .error _ => .error .arith

/-- operator agreement at any width: the JLS definition and the Dalvik definition coincide -/
theorem bin_agree {w} (f : BinF) (x y : BitVec w) (d : Nat) :
    (if JavaSem.isShift (jop f) then shift (jop f) x d else arith (jop f) x y) = toJ (binOp f x y d) := by
  cases f <;> simp [jop, JavaSem.isShift, shift, arith, binOp, toJ, wrap_add, wrap_sub, wrap_mul, wrap_div, wrap_rem,
    wrap_shl, wrap_shr, toInt_eq_zero] <;> split <;> simp

theorem rel_agree {w} (c : Cmp) (x y : BitVec w) :
    relInt (jrel c) x.toInt y.toInt =
      (match c with
       | .eq => x == y | .ne => x != y | .lt => x.slt y | .ge => !(x.slt y) | .gt => y.slt x | .le => !(y.slt x)) := by
  have heq : (x.toInt == y.toInt) = (x == y) := by
    by_cases h : x = y
    · subst h; simp
    · have : x.toInt ≠ y.toInt := fun e => h (BitVec.eq_of_toInt_eq e)
      have h1 : (x == y) = false := by simpa using h
      have h2 : (x.toInt == y.toInt) = false := by simpa using this
      rw [h1, h2]
  cases c <;> simp [jrel, relInt, BitVec.slt, bne, heq]
  · by_cases h : x.toInt < y.toInt <;> simp [h] <;> omega
  · by_cases h : y.toInt < x.toInt <;> simp [h] <;> omega

/-! ## evaluation of the operand shapes -/

@[simp] theorem eval_var_int (ρ : JavaSem.Env) (n : Nat) : eval ρ (.var .int n) = .ok (.int (ρ.i n)) := rfl
@[simp] theorem eval_var_long (ρ : JavaSem.Env) (n : Nat) : eval ρ (.var .long n) = .ok (.long (ρ.l n)) := rfl

theorem evalBin_int (o : BinOp) (x y : BitVec 32) :
    evalBin o (.int x) (.int y) =
      (if JavaSem.isShift o then shift o x (y.toNat % 32) else arith o x y).map Val.int := by
  cases o <;> simp [evalBin, promote, JavaSem.isShift, distance, bind, Except.bind, pure, Except.pure, Except.map, shift, arith] <;>
    (try split) <;> rfl

theorem evalBin_long (o : BinOp) (x y : BitVec 64) (h : JavaSem.isShift o = false) :
    evalBin o (.long x) (.long y) = (arith o x y).map Val.long := by
  cases o <;> simp_all [evalBin, promote, JavaSem.isShift, bind, Except.bind, pure, Except.pure, Except.map, arith] <;>
    (try split) <;> rfl

theorem evalBin_long_shift (o : BinOp) (x : BitVec 64) (s : BitVec 32) (h : JavaSem.isShift o = true) :
    evalBin o (.long x) (.int s) = (shift o x (s.toNat % 64)).map Val.long := by
  cases o <;> simp_all [evalBin, promote, JavaSem.isShift, distance, bind, Except.bind, pure, Except.pure, Except.map, shift]

/-- the last stage of `javaOutcome` -/
def finish (c : Core) (e : Except Err Val) : Option Outcome :=
  match e with
  | .error .compile => none
  | .error .arith => (match c with
      | .cond .. | .condz .. => none
      | _ => some (.value (.error .arith)))
  | .ok v => (match c with
      | .cond .. | .condz .. => (match v with | .bool b => some (.branch b) | _ => none)
      | _ => (regVal v).map fun x => .value (.ok x))

theorem javaOutcome_eq (fm : Form) (c : Core) (ρ : DalvikSem.Env) (lit : Int) :
    javaOutcome fm c ρ lit = finish c (eval (jenv ρ) (exprOf fm lit c)) := rfl

theorem eval_bin (ρ : JavaSem.Env) (o : BinOp) (a b : Expr) :
    eval ρ (.bin o a b) = (eval ρ a).bind fun x => (eval ρ b).bind fun y => evalBin o x y := rfl
theorem eval_un (ρ : JavaSem.Env) (o : UnOp) (a : Expr) :
    eval ρ (.un o a) = (eval ρ a).bind fun x => evalUn o x := rfl
theorem eval_cast (ρ : JavaSem.Env) (t : Ty) (a : Expr) :
    eval ρ (.cast t a) = (eval ρ a).bind fun x => castTo t x := rfl
theorem eval_rel (ρ : JavaSem.Env) (o : RelOp) (a b : Expr) :
    eval ρ (.rel o a b) = (eval ρ a).bind fun x => (eval ρ b).bind fun y => evalRel o x y := rfl
theorem eval_lcmp (ρ : JavaSem.Env) (a b : Expr) :
    eval ρ (.longCompare a b) = (eval ρ a).bind fun x => (eval ρ b).bind fun y => evalLongCompare x y := rfl

theorem finish_int (c : Core) (hc : ∀ o a b, c ≠ .cond o a b) (hz : ∀ o a, c ≠ .condz o a)
    (r : Except DalvikSem.Exn (BitVec 32)) : finish c ((toJ r).map Val.int) = some (lift32 r) := by
  cases r <;> cases c <;> simp_all [finish, toJ, Except.map, lift32, regVal]

theorem finish_long (c : Core) (hc : ∀ o a b, c ≠ .cond o a b) (hz : ∀ o a, c ≠ .condz o a)
    (r : Except DalvikSem.Exn (BitVec 64)) : finish c ((toJ r).map Val.long) = some (lift64 r) := by
  cases r <;> cases c <;> simp_all [finish, toJ, Except.map, lift64, regVal]

theorem fin_bin_int (f : BinF) (ea eb : Expr) (ρj : JavaSem.Env) (x y : BitVec 32)
    (ha : eval ρj ea = .ok (.int x)) (hb : eval ρj eb = .ok (.int y)) (c : Core)
    (hc : ∀ o a b, c ≠ .cond o a b) (hz : ∀ o a, c ≠ .condz o a) :
    finish c (eval ρj (.bin (jop f) ea eb)) = some (lift32 (binInt f x y)) := by
  simp only [eval_bin, ha, hb, Except.bind, evalBin_int, bin_agree, binInt]
  exact finish_int c hc hz _

theorem binOp_noshift {w} (f : BinF) (h : DalvikSem.isShift f = false) (x y : BitVec w) (d d' : Nat) :
    binOp f x y d = binOp f x y d' := by
  cases f <;> simp_all [binOp, DalvikSem.isShift]

theorem jop_shift (f : BinF) : JavaSem.isShift (jop f) = DalvikSem.isShift f := by
  cases f <;> rfl

theorem fin_bin_long (f : BinF) (hf : DalvikSem.isShift f = false) (ea eb : Expr) (ρj : JavaSem.Env) (x y : BitVec 64)
    (s : BitVec 32) (ha : eval ρj ea = .ok (.long x)) (hb : eval ρj eb = .ok (.long y)) (c : Core)
    (hc : ∀ o a b, c ≠ .cond o a b) (hz : ∀ o a, c ≠ .condz o a) :
    finish c (eval ρj (.bin (jop f) ea eb)) = some (lift64 (binLong f x y s)) := by
  have hj : JavaSem.isShift (jop f) = false := by rw [jop_shift, hf]
  have := bin_agree f x y (s.toNat % 64)
  rw [hj] at this
  simp only [eval_bin, ha, hb, Except.bind, evalBin_long _ _ _ hj, binLong]
  simp only [Bool.false_eq_true, if_false] at this
  rw [this]
  exact finish_long c hc hz _

theorem fin_bin_long_shift (f : BinF) (hf : DalvikSem.isShift f = true) (ea eb : Expr) (ρj : JavaSem.Env) (x y : BitVec 64)
    (s : BitVec 32) (ha : eval ρj ea = .ok (.long x)) (hb : eval ρj eb = .ok (.int s)) (c : Core)
    (hc : ∀ o a b, c ≠ .cond o a b) (hz : ∀ o a, c ≠ .condz o a) :
    finish c (eval ρj (.bin (jop f) ea eb)) = some (lift64 (binLong f x y s)) := by
  have hj : JavaSem.isShift (jop f) = true := by rw [jop_shift, hf]
  have := bin_agree f x y (s.toNat % 64)
  rw [hj] at this
  simp only [if_true] at this
  simp only [eval_bin, ha, hb, Except.bind, evalBin_long_shift _ _ _ hj, binLong]
  rw [this]
  exact finish_long c hc hz _

theorem eval_lit_int (ρj : JavaSem.Env) (v : Int) (h1 : -(2 : Int) ^ 31 ≤ v) (h2 : v < (2 : Int) ^ 31) :
    eval ρj (.lit v false) = .ok (.int (BitVec.ofInt 32 v)) := by
  have : -(2 : Int) ^ 31 ≤ v ∧ v < (2 : Int) ^ 31 := ⟨h1, h2⟩
  simp only [eval, evalLit, wrap, this]; simp

theorem eval_lit_long (ρj : JavaSem.Env) (v : Int) (h1 : -(2 : Int) ^ 63 ≤ v) (h2 : v < (2 : Int) ^ 63) :
    eval ρj (.lit v true) = .ok (.long (BitVec.ofInt 64 v)) := by
  have : -(2 : Int) ^ 63 ≤ v ∧ v < (2 : Int) ^ 63 := ⟨h1, h2⟩
  simp only [eval, evalLit, wrap, this]; simp

theorem nc_bin (o : BinOp) (a b : Opd) : (∀ o' a' b', Core.bin o a b ≠ .cond o' a' b') ∧ (∀ o' a', Core.bin o a b ≠ .condz o' a') :=
  ⟨by intros; simp, by intros; simp⟩

/-- the literal of a lit8 / lit16 form fits an `int` literal, and so does its negation -/
theorem lit_small (bits : Nat) (hb : bits = 8 ∨ bits = 16) (lit : Int)
    (h : -(2 : Int) ^ (bits - 1) ≤ lit ∧ lit < (2 : Int) ^ (bits - 1)) :
    (-(2 : Int) ^ 31 ≤ lit ∧ lit < (2 : Int) ^ 31) ∧ (-(2 : Int) ^ 31 ≤ -lit ∧ -lit < (2 : Int) ^ 31) := by
  rcases hb with rfl | rfl <;> simp at h <;> omega

theorem sound_binop (l : Bool) (f : BinF) (ρ : DalvikSem.Env) (lit : Int) :
    javaOutcome (.binop l f) (.bin (jop f) (.r 2) (.r 3)) ρ lit = some (step (.binop l f) ρ lit) := by
  rw [javaOutcome_eq]
  cases l
  · exact fin_bin_int f _ _ _ _ _ rfl rfl _ (nc_bin _ _ _).1 (nc_bin _ _ _).2
  · cases hf : DalvikSem.isShift f
    · have h3 : regTy (.binop true f) 3 = .long := by simp [regTy, hf]
      have h2 : regTy (.binop true f) 2 = .long := by simp [regTy]
      simp only [exprOf, opdExpr, h3, h2, step]
      exact fin_bin_long f hf _ _ _ _ _ _ rfl rfl _ (nc_bin _ _ _).1 (nc_bin _ _ _).2
    · have h3 : regTy (.binop true f) 3 = .int := by simp [regTy, hf]
      have h2 : regTy (.binop true f) 2 = .long := by simp [regTy]
      simp only [exprOf, opdExpr, h3, h2, step]
      exact fin_bin_long_shift f hf _ _ _ _ _ _ rfl rfl _ (nc_bin _ _ _).1 (nc_bin _ _ _).2

theorem sound_binop2addr (l : Bool) (f : BinF) (ρ : DalvikSem.Env) (lit : Int) :
    javaOutcome (.binop2addr l f) (.bin (jop f) (.r 1) (.r 2)) ρ lit = some (step (.binop2addr l f) ρ lit) := by
  rw [javaOutcome_eq]
  cases l
  · exact fin_bin_int f _ _ _ _ _ rfl rfl _ (nc_bin _ _ _).1 (nc_bin _ _ _).2
  · cases hf : DalvikSem.isShift f
    · have h3 : regTy (.binop2addr true f) 2 = .long := by simp [regTy, hf]
      have h2 : regTy (.binop2addr true f) 1 = .long := by simp [regTy]
      simp only [exprOf, opdExpr, h3, h2, step]
      exact fin_bin_long f hf _ _ _ _ _ _ rfl rfl _ (nc_bin _ _ _).1 (nc_bin _ _ _).2
    · have h3 : regTy (.binop2addr true f) 2 = .int := by simp [regTy, hf]
      have h2 : regTy (.binop2addr true f) 1 = .long := by simp [regTy]
      simp only [exprOf, opdExpr, h3, h2, step]
      exact fin_bin_long_shift f hf _ _ _ _ _ _ rfl rfl _ (nc_bin _ _ _).1 (nc_bin _ _ _).2

theorem sound_lit (f : BinF) (bits : Nat) (hb : bits = 8 ∨ bits = 16) (ρ : DalvikSem.Env) (lit : Int)
    (hl : DalvikSem.litOk (.binopLit f false bits) lit) :
    javaOutcome (.binopLit f false bits) (.bin (jop f) (.r 2) (.lit false false)) ρ lit
      = some (step (.binopLit f false bits) ρ lit) := by
  rw [javaOutcome_eq]
  have hr := (lit_small bits hb lit hl).1
  exact fin_bin_int f _ _ _ _ _ rfl (eval_lit_int _ _ hr.1 hr.2) _ (nc_bin _ _ _).1 (nc_bin _ _ _).2

theorem sound_rsub (bits : Nat) (hb : bits = 8 ∨ bits = 16) (ρ : DalvikSem.Env) (lit : Int)
    (hl : DalvikSem.litOk (.binopLit .sub true bits) lit) :
    javaOutcome (.binopLit .sub true bits) (.bin .sub (.lit false false) (.r 2)) ρ lit
      = some (step (.binopLit .sub true bits) ρ lit) := by
  rw [javaOutcome_eq]
  have hr := (lit_small bits hb lit hl).1
  exact fin_bin_int .sub _ _ _ _ _ (eval_lit_int _ _ hr.1 hr.2) rfl _ (nc_bin _ _ _).1 (nc_bin _ _ _).2

/-- `add-int/lit8 vA, vB, #-k` shown as `vB - k` -/
theorem sound_addlit8_neg (ρ : DalvikSem.Env) (lit : Int) (hl : DalvikSem.litOk (.binopLit .add false 8) lit) :
    javaOutcome (.binopLit .add false 8) (.bin .sub (.r 2) (.lit true false)) ρ lit
      = some (step (.binopLit .add false 8) ρ lit) := by
  rw [javaOutcome_eq]
  have hr := (lit_small 8 (Or.inl rfl) lit hl).2
  have := fin_bin_int .sub (.var .int 2) (.lit (-lit) false) (jenv ρ) (ρ.i 2) (BitVec.ofInt 32 (-lit)) rfl
    (eval_lit_int _ _ hr.1 hr.2) (.bin .sub (.r 2) (.lit true false)) (nc_bin _ _ _).1 (nc_bin _ _ _).2
  simp only [exprOf, opdExpr, regTy, if_true, jop] at this ⊢
  rw [this]
  simp [step, binInt, binOp, BitVec.ofInt_neg, BitVec.sub_eq_add_neg]

theorem sound_unop (l : Bool) (u : UnF) (ρ : DalvikSem.Env) (lit : Int) :
    javaOutcome (.unop l u) (.un (match u with | .neg => .neg | .not => .compl) (.r 2)) ρ lit
      = some (step (.unop l u) ρ lit) := by
  rw [javaOutcome_eq]
  cases l <;> cases u <;>
    simp [exprOf, opdExpr, regTy, eval_un, jenv, Except.bind, evalUn, promote, bind, pure, Except.pure, finish, regVal,
      step, lift32, lift64, Except.map, wrap_neg, wrap_compl]

theorem trunc_sext (k : Nat) (hk : k ≤ 32) (x : BitVec 32) :
    BitVec.setWidth k (BitVec.signExtend 64 x) = BitVec.setWidth k x := by
  ext i hi
  have h1 : i < 64 := by omega
  have h2 : i < 32 := by omega
  simp [BitVec.getElem_setWidth, h1, h2]
  rw [BitVec.getElem_signExtend]
  simp [h2]

theorem sound_conv (c : Conv) (ρ : DalvikSem.Env) (lit : Int) :
    javaOutcome (.conv c) (.cast (match c with | .i2l => .long | .l2i => .int | .i2b => .byte | .i2c => .char | .i2s => .short) (.r 2)) ρ lit
      = some (step (.conv c) ρ lit) := by
  rw [javaOutcome_eq]
  cases c <;>
    simp [exprOf, opdExpr, regTy, eval_cast, jenv, Except.bind, castTo, bind, pure, Except.pure, finish, regVal,
      step, lift32, lift64, Except.map, trunc_sext]

theorem sound_cmplong (ρ : DalvikSem.Env) (lit : Int) :
    javaOutcome .cmpLong (.lcmp (.r 2) (.r 3)) ρ lit = some (step .cmpLong ρ lit) := by
  rw [javaOutcome_eq]
  simp only [exprOf, opdExpr, regTy, eval_lcmp, jenv, eval_var_long, Except.bind, evalLongCompare, bind, pure,
    Except.pure, finish, regVal, step, lift32, Except.map, Option.map, DalvikSem.cmpLong]
  by_cases h : ρ.l 2 = ρ.l 3
  · simp [h]
  · have hne : (ρ.l 2).toInt ≠ (ρ.l 3).toInt := fun e => h (BitVec.eq_of_toInt_eq e)
    by_cases hlt : (ρ.l 2).toInt < (ρ.l 3).toInt
    · have : ¬ (ρ.l 3).slt (ρ.l 2) = true := by rw [BitVec.slt_iff_toInt_lt]; omega
      simp [h, hlt, this]
    · have : (ρ.l 3).slt (ρ.l 2) = true := by rw [BitVec.slt_iff_toInt_lt]; omega
      simp [h, hlt, hne, this]

theorem sound_const (l : Bool) (bits shift : Nat) (ρ : DalvikSem.Env) (lit : Int)
    (hr : if l then -(2 : Int) ^ 63 ≤ lit ∧ lit < (2 : Int) ^ 63 else -(2 : Int) ^ 31 ≤ lit ∧ lit < (2 : Int) ^ 31) :
    javaOutcome (.const l bits shift) (.const (.lit false l)) ρ lit = some (step (.const l bits shift) ρ lit) := by
  rw [javaOutcome_eq]
  cases l
  · simp only [Bool.false_eq_true, if_false] at hr
    simp only [exprOf, opdExpr, Bool.false_eq_true, if_false, eval_lit_int _ _ hr.1 hr.2]
    simp [finish, regVal, step, lift32, Except.map]
  · simp only [if_true] at hr
    simp only [exprOf, opdExpr, Bool.false_eq_true, if_false, eval_lit_long _ _ hr.1 hr.2]
    simp [finish, regVal, step, lift64, Except.map]

theorem sound_iftest (c : Cmp) (ρ : DalvikSem.Env) (lit : Int) :
    javaOutcome (.ifTest c) (.cond (jrel c) (.r 1) (.r 2)) ρ lit = some (step (.ifTest c) ρ lit) := by
  rw [javaOutcome_eq]
  simp only [exprOf, opdExpr, regTy, eval_rel, jenv, eval_var_int, Except.bind, evalRel, promote, bind, pure,
    Except.pure, finish, step, rel_agree, DalvikSem.cmp]
  cases c <;> rfl

theorem sound_iftestz (c : Cmp) (ρ : DalvikSem.Env) (lit : Int) :
    javaOutcome (.ifTestZ c) (.condz (jrel c) (.r 1)) ρ lit = some (step (.ifTestZ c) ρ lit) := by
  rw [javaOutcome_eq]
  have h0 : eval (jenv ρ) (.lit 0 false) = .ok (.int 0) := by
    rw [eval_lit_int _ 0 (by decide) (by decide)]; rfl
  simp only [exprOf, opdExpr, regTy, eval_rel, jenv, eval_var_int, Except.bind, evalRel, promote, bind, pure,
    Except.pure, finish, step, DalvikSem.cmp] at h0 ⊢
  rw [h0]
  simp only [rel_agree]
  cases c <;> rfl

/-- the parameters the opcode table actually uses -/
def wfForm : Form → Bool
  | .binopLit _ _ bits => bits == 8 || bits == 16
  | .const l bits shift =>
      (l, bits, shift) ∈ [(false, 4, 0), (false, 16, 0), (false, 32, 0), (false, 16, 16),
                          (true, 16, 0), (true, 32, 0), (true, 64, 0), (true, 16, 48)]
  | _ => true

theorem form_wf : ∀ op : Fin 256, ∀ fm, DalvikSem.form op.val = some fm → wfForm fm = true := by
  decide +kernel

theorem const_range (l : Bool) (bits shift : Nat) (hw : wfForm (.const l bits shift) = true) (lit : Int)
    (hl : DalvikSem.litOk (.const l bits shift) lit) :
    if l then -(2 : Int) ^ 63 ≤ lit ∧ lit < (2 : Int) ^ 63 else -(2 : Int) ^ 31 ≤ lit ∧ lit < (2 : Int) ^ 31 := by
  simp only [wfForm, List.mem_cons, Prod.mk.injEq, List.mem_nil_iff, or_false, decide_eq_true_eq] at hw
  obtain ⟨q, rfl, h1, h2⟩ := hl
  rcases hw with ⟨rfl, rfl, rfl⟩ | ⟨rfl, rfl, rfl⟩ | ⟨rfl, rfl, rfl⟩ | ⟨rfl, rfl, rfl⟩ | ⟨rfl, rfl, rfl⟩ |
    ⟨rfl, rfl, rfl⟩ | ⟨rfl, rfl, rfl⟩ | ⟨rfl, rfl, rfl⟩ <;> simp at h1 h2 ⊢ <;> omega

/-- the expected rendering of every instruction form computes what the instruction computes -/
theorem expected_sound (fm : Form) (d : Dom) (c : Core) (hw : wfForm fm = true) (h : expected fm d = some c)
    (ρ : DalvikSem.Env) (lit : Int) (hl : DalvikSem.litOk fm lit) (hd : d.ok lit) :
    javaOutcome fm c ρ lit = some (step fm ρ lit) := by
  cases fm with
  | binop l f => cases d <;> simp [expected] at h; subst h; exact sound_binop l f ρ lit
  | binop2addr l f => cases d <;> simp [expected] at h; subst h; exact sound_binop2addr l f ρ lit
  | binopLit f rsub bits =>
    have hb : bits = 8 ∨ bits = 16 := by simpa [wfForm] using hw
    cases rsub
    · rcases hb with rfl | rfl
      · cases f <;> cases d <;> simp [expected] at h <;> subst h
        all_goals first
          | exact sound_lit _ 8 (Or.inl rfl) ρ lit hl
          | exact sound_addlit8_neg ρ lit hl
      · cases f <;> cases d <;> simp [expected] at h <;> subst h <;> exact sound_lit _ 16 (Or.inr rfl) ρ lit hl
    · cases f <;> cases d <;> simp [expected] at h
      subst h; exact sound_rsub bits hb ρ lit hl
  | unop l u => cases u <;> cases d <;> simp [expected] at h <;> subst h <;> exact sound_unop l _ ρ lit
  | conv cv => cases cv <;> cases d <;> simp [expected] at h <;> subst h <;> exact sound_conv _ ρ lit
  | cmpLong => cases d <;> simp [expected] at h; subst h; exact sound_cmplong ρ lit
  | const l bits shift =>
    cases d <;> simp [expected] at h; subst h
    exact sound_const l bits shift ρ lit (const_range l bits shift hw lit hl)
  | ifTest cc => cases d <;> simp [expected] at h; subst h; exact sound_iftest cc ρ lit
  | ifTestZ cc => cases d <;> simp [expected] at h; subst h; exact sound_iftestz cc ρ lit


/-! ## in-place assignment forms -/

theorem evalBin_int_or_long (op : BinOp) (a b v : Val) (h : evalBin op a b = .ok v) :
    (∃ x, v = .int x) ∨ (∃ x, v = .long x) := by
  unfold evalBin at h
  cases hpa : promote a with
  | error e => simp [hpa, bind, Except.bind] at h
  | ok x =>
    cases hpb : promote b with
    | error e => simp [hpa, hpb, bind, Except.bind] at h
    | ok y =>
      simp only [hpa, hpb, bind, Except.bind, pure, Except.pure] at h
      split at h
      · cases x <;> simp only at h <;> split at h
        all_goals first | cases h | skip
        all_goals first | exact Or.inl ⟨_, rfl⟩ | exact Or.inr ⟨_, rfl⟩
      · cases x <;> cases y <;> simp only at h <;> split at h
        all_goals first | cases h | skip
        all_goals first | exact Or.inl ⟨_, rfl⟩ | exact Or.inr ⟨_, rfl⟩

/-- assignment conversion of an int/long value to an int/long variable is the cast to that type -/
theorem assign_is_cast (l : Bool) (v u : Val) (hv : (∃ x, v = .int x) ∨ (∃ x, v = .long x))
    (h : assignTo l v = .ok u) : castTo (if l then .long else .int) v = .ok u := by
  rcases hv with ⟨x, rfl⟩ | ⟨x, rfl⟩ <;> cases l <;> simp [assignTo] at h <;> subst h <;>
    simp [castTo, bind, Except.bind, pure, Except.pure]
theorem exec_compound_eq (ρ : JavaSem.Env) (t : Ty) (ht : t = .int ∨ t = .long) (x : Nat) (op : BinOp) (b : Expr) :
    exec ρ (.assign t x (.bin op (.var t x) b)) = .error .compile ∨
    exec ρ (.compound t x op b) = exec ρ (.assign t x (.bin op (.var t x) b)) := by
  cases he : eval ρ (.bin op (.var t x) b) with
  | error e =>
    right
    simp [exec, he, bind, Except.bind]
  | ok v =>
    have hv : (∃ x, v = .int x) ∨ (∃ x, v = .long x) := by
      rw [eval_bin] at he
      cases h1 : eval ρ (.var t x) with
      | error e => simp [h1, Except.bind] at he
      | ok a =>
        cases h2 : eval ρ b with
        | error e => simp [h1, h2, Except.bind] at he
        | ok bb =>
          simp only [h1, h2, Except.bind] at he
          exact evalBin_int_or_long op a bb v he
    rcases ht with rfl | rfl
    · cases ha : assignTo false v with
      | error e =>
        left
        rcases hv with ⟨y, rfl⟩ | ⟨y, rfl⟩ <;> simp_all [exec, assignTo, bind, Except.bind]
      | ok u =>
        right
        have := assign_is_cast false v u hv ha
        simp_all [exec, bind, Except.bind]
    · cases ha : assignTo true v with
      | error e =>
        left
        rcases hv with ⟨y, rfl⟩ | ⟨y, rfl⟩ <;> simp_all [exec, assignTo, bind, Except.bind]
      | ok u =>
        right
        have := assign_is_cast true v u hv ha
        simp_all [exec, bind, Except.bind]

end AgVerif.Translate
