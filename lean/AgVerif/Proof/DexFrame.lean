/-
C07, concrete loader: frame lemmas for `AgVerif.DexFile.step`.

`reads T` is the set of ClassManager tables the item parser of map type `T` looks at (in the
model of androguard/core/dex/__init__.py: the eager resolutions of TypeIdItem.__init__,
ProtoIdItem.__init__, FieldIdItem.reload, MethodIdItem.reload, ClassDefItem.reload).
`step_frame_reads`: `step file cm e` depends on `cm` only through the tables in `reads e.type`,
writes only the table of `e.type`, and leaves every other table as it was.
Tables are named by the map type code that fills them.
-/
import AgVerif.Model.DexFile
namespace AgVerif.DexFrame
open AgVerif.DexFile AgVerif.LoadOrder

/-- the map types with an item parser in Model/DexFile.lean, i.e. the ones that own a CM table -/
def modelled : List Nat := [0x2002, 0x0001, 0x0002, 0x1001, 0x0003, 0x0004, 0x0005, 0x2000, 0x2001, 0x0006]

/-- `a` and `b` hold the same table for map type `t` (no condition for a type without a table) -/
def sameTable (t : Nat) (a b : CM) : Prop :=
  (t = 0x2002 → a.strData = b.strData) ∧ (t = 0x0001 → a.stringIds = b.stringIds) ∧
  (t = 0x0002 → a.typeIds = b.typeIds) ∧ (t = 0x1001 → a.typeLists = b.typeLists) ∧
  (t = 0x0003 → a.protoIds = b.protoIds) ∧ (t = 0x0004 → a.fieldIds = b.fieldIds) ∧
  (t = 0x0005 → a.methodIds = b.methodIds) ∧ (t = 0x2000 → a.classData = b.classData) ∧
  (t = 0x2001 → a.codes = b.codes) ∧ (t = 0x0006 → a.classDefs = b.classDefs)

set_option synthInstance.maxSize 2048 in
instance (t : Nat) (a b : CM) : Decidable (sameTable t a b) := by unfold sameTable; infer_instance

/-- `a` and `b` agree on the tables of all types in `D` -/
def agreeOn (D : List Nat) (a b : CM) : Prop := ∀ t ∈ D, sameTable t a b

instance (D : List Nat) (a b : CM) : Decidable (agreeOn D a b) := by unfold agreeOn; infer_instance

theorem sameTable_refl (t : Nat) (a : CM) : sameTable t a a := by simp [sameTable]

theorem agreeOn_mono {D D' : List Nat} {a b : CM} (hs : ∀ t ∈ D, t ∈ D') (h : agreeOn D' a b) :
    agreeOn D a b := fun t ht => h t (hs t ht)

/-- two states that agree on every modelled table are equal -/
theorem eq_of_agreeOn_modelled {a b : CM} (h : agreeOn modelled a b) : a = b := by
  have h1 := (h 0x2002 (by decide)).1 rfl
  have h2 := (h 0x0001 (by decide)).2.1 rfl
  have h3 := (h 0x0002 (by decide)).2.2.1 rfl
  have h4 := (h 0x1001 (by decide)).2.2.2.1 rfl
  have h5 := (h 0x0003 (by decide)).2.2.2.2.1 rfl
  have h6 := (h 0x0004 (by decide)).2.2.2.2.2.1 rfl
  have h7 := (h 0x0005 (by decide)).2.2.2.2.2.2.1 rfl
  have h8 := (h 0x2000 (by decide)).2.2.2.2.2.2.2.1 rfl
  have h9 := (h 0x2001 (by decide)).2.2.2.2.2.2.2.2.1 rfl
  have h10 := (h 0x0006 (by decide)).2.2.2.2.2.2.2.2.2 rfl
  cases a; cases b; simp_all

/-- what the item parser of map type `t` reads from the ClassManager (model) -/
def reads (t : Nat) : List Nat :=
  if t = 0x0002 then [0x0001]        -- get_string: only whether it raises (the model keeps the index; see DexDeps.deps_adequate)
  else if t = 0x0003 then [0x0001, 0x2002, 0x0002]                 -- get_string, get_type
  else if t = 0x0004 then [0x0001, 0x2002, 0x0002]                 -- get_type ×2, get_string
  else if t = 0x0005 then [0x0001, 0x2002, 0x0002, 0x0003, 0x1001] -- get_type, get_proto, get_type_list, get_string
  else if t = 0x0006 then [0x0001, 0x2002, 0x0002, 0x1001, 0x2000] -- get_type ×2, get_type_list, get_class_data_item
  else []

/-! ### the lookups depend only on their tables -/

theorem getString_congr {a b : CM} (h1 : a.stringIds = b.stringIds) (h2 : a.strData = b.strData) :
    getString a = getString b := by
  funext i; simp only [getString, h1, h2]

theorem getType_congr {a b : CM} (h1 : a.stringIds = b.stringIds) (h2 : a.strData = b.strData)
    (h3 : a.typeIds = b.typeIds) : getType a = getType b := by
  funext i; simp only [getType, h3, getString_congr h1 h2]

theorem getTypeList_congr {a b : CM} (h1 : a.stringIds = b.stringIds) (h2 : a.strData = b.strData)
    (h3 : a.typeIds = b.typeIds) (h4 : a.typeLists = b.typeLists) : getTypeList a = getTypeList b := by
  funext i; simp only [getTypeList, h4, getType_congr h1 h2 h3]

theorem resolveProto_congr {a b : CM} (h1 : a.stringIds = b.stringIds) (h2 : a.strData = b.strData)
    (h3 : a.typeIds = b.typeIds) : resolveProto a = resolveProto b := by
  funext p; simp only [resolveProto, getType_congr h1 h2 h3, getString_congr h1 h2]

theorem resolveField_congr {a b : CM} (h1 : a.stringIds = b.stringIds) (h2 : a.strData = b.strData)
    (h3 : a.typeIds = b.typeIds) : resolveField a = resolveField b := by
  funext p; simp only [resolveField, getType_congr h1 h2 h3, getString_congr h1 h2]

theorem resolveMethod_congr {a b : CM} (h1 : a.stringIds = b.stringIds) (h2 : a.strData = b.strData)
    (h3 : a.typeIds = b.typeIds) (h4 : a.typeLists = b.typeLists) (h5 : a.protoIds = b.protoIds) :
    resolveMethod a = resolveMethod b := by
  funext p
  simp only [resolveMethod, paramsString, h5, getType_congr h1 h2 h3, getString_congr h1 h2,
    getTypeList_congr h1 h2 h3 h4]

theorem resolveClass_congr {a b : CM} (h1 : a.stringIds = b.stringIds) (h2 : a.strData = b.strData)
    (h3 : a.typeIds = b.typeIds) (h4 : a.typeLists = b.typeLists) (h5 : a.classData = b.classData) :
    resolveClass a = resolveClass b := by
  funext p
  simp only [resolveClass, h5, getType_congr h1 h2 h3, getTypeList_congr h1 h2 h3 h4]

/-! ### the frame property -/

/-- both fail with the same exception, or both succeed with results related by `P` -/
def Rel2 (P : CM → CM → Prop) : Except String CM → Except String CM → Prop
  | .ok a, .ok b => P a b
  | .error x, .error y => x = y
  | _, _ => False

/-- the two runs of the item parser of `e` from `cm₁` and `cm₂` fail alike, or both succeed, write
    the same table for `e.type`, and leave every other table as it was -/
def FrameOK (file : Bytes) (e : MapEntry) (cm₁ cm₂ : CM) : Prop :=
  Rel2 (fun a b => sameTable e.type a b ∧ ∀ t, t ≠ e.type → sameTable t a cm₁ ∧ sameTable t b cm₂)
    (step file cm₁ e) (step file cm₂ e)

theorem rel2_bind {α β} (P : CM → CM → Prop) (raw : Except String α) (res : α → Except String β)
    (w₁ w₂ : α → β → CM) (hP : ∀ l r, P (w₁ l r) (w₂ l r)) :
    Rel2 P (raw.bind fun l => (res l).bind fun rs => .ok (w₁ l rs))
           (raw.bind fun l => (res l).bind fun rs => .ok (w₂ l rs)) := by
  cases raw with
  | error x => simp [Except.bind, Rel2]
  | ok l =>
    simp only [Except.bind]
    cases res l with
    | error x => simp [Rel2]
    | ok rs => simpa [Rel2] using hP l rs

theorem rel2_bind1 {α} (P : CM → CM → Prop) (raw : Except String α)
    (w₁ w₂ : α → CM) (hP : ∀ l, P (w₁ l) (w₂ l)) :
    Rel2 P (raw.bind fun l => .ok (w₁ l)) (raw.bind fun l => .ok (w₂ l)) := by
  cases raw with
  | error x => simp [Except.bind, Rel2]
  | ok l => simpa [Except.bind, Rel2] using hP l

/-! unfolding `step` for each modelled type -/

theorem step_2002 (file : Bytes) (cm : CM) (e : MapEntry) (ht : e.type = 0x2002) :
    step file cm e = (structErr (decSeq decStringData file e.size e.offset)).bind fun l =>
      .ok { cm with strData := some l } := by
  simp only [step, ht, ↓reduceIte]
  rfl

theorem step_1 (file : Bytes) (cm : CM) (e : MapEntry) (ht : e.type = 0x0001) :
    step file cm e = (structErr (decSeq decStringId file e.size e.offset)).bind fun l =>
      .ok { cm with stringIds := some (l.map (·.2)) } := by
  simp only [step, ht, Nat.reduceEqDiff, ↓reduceIte]
  rfl

theorem step_2 (file : Bytes) (cm : CM) (e : MapEntry) (ht : e.type = 0x0002) :
    step file cm e = (structErr (decSeq decTypeId file e.size (seek4 e.offset))).bind fun l =>
      (mapE (fun p => getString cm p.2) l).bind fun _ => .ok { cm with typeIds := some (l.map (·.2)) } := by
  simp only [step, ht, Nat.reduceEqDiff, ↓reduceIte]
  rfl

theorem step_1001 (file : Bytes) (cm : CM) (e : MapEntry) (ht : e.type = 0x1001) :
    step file cm e = (structErr (decSeq decTypeList file e.size (seek4 e.offset))).bind fun l =>
      .ok { cm with typeLists := some l } := by
  simp only [step, ht, Nat.reduceEqDiff, ↓reduceIte]
  rfl

theorem step_3 (file : Bytes) (cm : CM) (e : MapEntry) (ht : e.type = 0x0003) :
    step file cm e = (structErr (decSeq decProtoId file e.size (seek4 e.offset))).bind fun l =>
      (mapE (fun p => resolveProto cm p.2) l).bind fun rs => .ok { cm with protoIds := some rs } := by
  simp only [step, ht, Nat.reduceEqDiff, ↓reduceIte]
  rfl

theorem step_4 (file : Bytes) (cm : CM) (e : MapEntry) (ht : e.type = 0x0004) :
    step file cm e = (structErr (decSeq decFieldId file e.size (seek4 e.offset))).bind fun l =>
      (mapE (fun p => resolveField cm p.2) l).bind fun rs => .ok { cm with fieldIds := some rs } := by
  simp only [step, ht, Nat.reduceEqDiff, ↓reduceIte]
  rfl

theorem step_5 (file : Bytes) (cm : CM) (e : MapEntry) (ht : e.type = 0x0005) :
    step file cm e = (structErr (decSeq decMethodId file e.size (seek4 e.offset))).bind fun l =>
      (mapE (fun p => resolveMethod cm p.2) l).bind fun rs => .ok { cm with methodIds := some rs } := by
  simp only [step, ht, Nat.reduceEqDiff, ↓reduceIte]
  rfl

theorem step_2000 (file : Bytes) (cm : CM) (e : MapEntry) (ht : e.type = 0x2000) :
    step file cm e = (structErr (decSeq decClassData file e.size e.offset)).bind fun l =>
      .ok { cm with classData := some l } := by
  simp only [step, ht, Nat.reduceEqDiff, ↓reduceIte]
  rfl

theorem step_2001 (file : Bytes) (cm : CM) (e : MapEntry) (ht : e.type = 0x2001) :
    step file cm e = (structErr (decCodes file e.size (seek4 e.offset))).bind fun l =>
      .ok { cm with codes := some l } := by
  simp only [step, ht, Nat.reduceEqDiff, ↓reduceIte]
  rfl

theorem step_6 (file : Bytes) (cm : CM) (e : MapEntry) (ht : e.type = 0x0006) :
    step file cm e = (structErr (decSeq decClassDef file e.size (seek4 e.offset))).bind fun l =>
      (mapE (fun p => resolveClass cm p.2) l).bind fun rs => .ok { cm with classDefs := some rs } := by
  simp only [step, ht, Nat.reduceEqDiff, ↓reduceIte]
  rfl

/-- a map type without an item parser in the model leaves the state as it is -/
theorem step_other (file : Bytes) (cm : CM) (e : MapEntry) (ht : e.type ∉ modelled) :
    step file cm e = .ok cm := by
  simp only [modelled, List.mem_cons, List.not_mem_nil, or_false, not_or] at ht
  obtain ⟨h1, h2, h3, h4, h5, h6, h7, h8, h9, h10⟩ := ht
  simp only [step, h1, h2, h3, h4, h5, h6, h7, h8, h9, h10, ↓reduceIte]

/-! ### the frame property, type by type -/

theorem frame_2002 (file : Bytes) (e : MapEntry) (cm₁ cm₂ : CM) (ht : e.type = 0x2002) :
    FrameOK file e cm₁ cm₂ := by
  unfold FrameOK
  rw [step_2002 _ _ _ ht, step_2002 _ _ _ ht]
  apply rel2_bind1
  intro l
  simp +contextual [sameTable, ht]

theorem frame_1 (file : Bytes) (e : MapEntry) (cm₁ cm₂ : CM) (ht : e.type = 0x0001) :
    FrameOK file e cm₁ cm₂ := by
  unfold FrameOK
  rw [step_1 _ _ _ ht, step_1 _ _ _ ht]
  apply rel2_bind1
  intro l
  simp +contextual [sameTable, ht]

theorem frame_1001 (file : Bytes) (e : MapEntry) (cm₁ cm₂ : CM) (ht : e.type = 0x1001) :
    FrameOK file e cm₁ cm₂ := by
  unfold FrameOK
  rw [step_1001 _ _ _ ht, step_1001 _ _ _ ht]
  apply rel2_bind1
  intro l
  simp +contextual [sameTable, ht]

theorem frame_2000 (file : Bytes) (e : MapEntry) (cm₁ cm₂ : CM) (ht : e.type = 0x2000) :
    FrameOK file e cm₁ cm₂ := by
  unfold FrameOK
  rw [step_2000 _ _ _ ht, step_2000 _ _ _ ht]
  apply rel2_bind1
  intro l
  simp +contextual [sameTable, ht]

theorem frame_2001 (file : Bytes) (e : MapEntry) (cm₁ cm₂ : CM) (ht : e.type = 0x2001) :
    FrameOK file e cm₁ cm₂ := by
  unfold FrameOK
  rw [step_2001 _ _ _ ht, step_2001 _ _ _ ht]
  apply rel2_bind1
  intro l
  simp +contextual [sameTable, ht]

theorem getString_unit {a b : CM} (h1 : a.stringIds = b.stringIds) (i : Nat) :
    (getString a i).map (fun _ => ()) = (getString b i).map (fun _ => ()) := by
  simp only [getString, h1]
  cases b.stringIds with
  | none => rfl
  | some ids =>
    simp only
    cases ids[i]? with
    | none => rfl
    | some off =>
      simp only
      cases lookupOff off (a.strData.getD []) <;> cases lookupOff off (b.strData.getD []) <;> rfl

theorem mapE_unit {α β} (f g : α → Except String β)
    (h : ∀ x, (f x).map (fun _ => ()) = (g x).map (fun _ => ())) :
    ∀ l : List α, (mapE f l).map (fun _ => ()) = (mapE g l).map (fun _ => ())
  | [] => rfl
  | x :: xs => by
    have hx := h x
    have ih := mapE_unit f g h xs
    simp only [mapE]
    cases hf : f x <;> cases hg : g x <;> simp only [hf, hg, Except.map] at hx ⊢
    · exact hx
    · cases hx
    · cases hx
    · cases hf' : mapE f xs <;> cases hg' : mapE g xs <;> simp only [hf', hg', Except.map] at ih ⊢
      · exact ih
      · cases ih
      · cases ih

theorem frame_2 (file : Bytes) (e : MapEntry) (cm₁ cm₂ : CM) (ht : e.type = 0x0002)
    (h : agreeOn (reads 0x0002) cm₁ cm₂) : FrameOK file e cm₁ cm₂ := by
  have h1 := (h 0x0001 (by decide)).2.1 rfl
  unfold FrameOK
  rw [step_2 _ _ _ ht, step_2 _ _ _ ht]
  cases structErr (decSeq decTypeId file e.size (seek4 e.offset)) with
  | error x => simp [Except.bind, Rel2]
  | ok l =>
    have hu := mapE_unit _ _ (fun p : Nat × Nat => getString_unit h1 p.2) l
    simp only [Except.bind]
    cases h₁ : mapE (fun p : Nat × Nat => getString cm₁ p.2) l <;>
      cases h₂ : mapE (fun p : Nat × Nat => getString cm₂ p.2) l <;>
      simp only [h₁, h₂, Except.map] at hu ⊢
    · simpa [Rel2] using hu
    · cases hu
    · cases hu
    · simp +contextual [Rel2, sameTable, ht]

theorem frame_3 (file : Bytes) (e : MapEntry) (cm₁ cm₂ : CM) (ht : e.type = 0x0003)
    (h : agreeOn (reads 0x0003) cm₁ cm₂) : FrameOK file e cm₁ cm₂ := by
  have h1 := (h 0x0001 (by decide)).2.1 rfl
  have h2 := (h 0x2002 (by decide)).1 rfl
  have h3 := (h 0x0002 (by decide)).2.2.1 rfl
  unfold FrameOK
  rw [step_3 _ _ _ ht, step_3 _ _ _ ht, resolveProto_congr h1 h2 h3]
  apply rel2_bind
  intro l r
  simp +contextual [sameTable, ht]

theorem frame_4 (file : Bytes) (e : MapEntry) (cm₁ cm₂ : CM) (ht : e.type = 0x0004)
    (h : agreeOn (reads 0x0004) cm₁ cm₂) : FrameOK file e cm₁ cm₂ := by
  have h1 := (h 0x0001 (by decide)).2.1 rfl
  have h2 := (h 0x2002 (by decide)).1 rfl
  have h3 := (h 0x0002 (by decide)).2.2.1 rfl
  unfold FrameOK
  rw [step_4 _ _ _ ht, step_4 _ _ _ ht, resolveField_congr h1 h2 h3]
  apply rel2_bind
  intro l r
  simp +contextual [sameTable, ht]

theorem frame_5 (file : Bytes) (e : MapEntry) (cm₁ cm₂ : CM) (ht : e.type = 0x0005)
    (h : agreeOn (reads 0x0005) cm₁ cm₂) : FrameOK file e cm₁ cm₂ := by
  have h1 := (h 0x0001 (by decide)).2.1 rfl
  have h2 := (h 0x2002 (by decide)).1 rfl
  have h3 := (h 0x0002 (by decide)).2.2.1 rfl
  have h4 := (h 0x0003 (by decide)).2.2.2.2.1 rfl
  have h5 := (h 0x1001 (by decide)).2.2.2.1 rfl
  unfold FrameOK
  rw [step_5 _ _ _ ht, step_5 _ _ _ ht, resolveMethod_congr h1 h2 h3 h5 h4]
  apply rel2_bind
  intro l r
  simp +contextual [sameTable, ht]

theorem frame_6 (file : Bytes) (e : MapEntry) (cm₁ cm₂ : CM) (ht : e.type = 0x0006)
    (h : agreeOn (reads 0x0006) cm₁ cm₂) : FrameOK file e cm₁ cm₂ := by
  have h1 := (h 0x0001 (by decide)).2.1 rfl
  have h2 := (h 0x2002 (by decide)).1 rfl
  have h3 := (h 0x0002 (by decide)).2.2.1 rfl
  have h4 := (h 0x1001 (by decide)).2.2.2.1 rfl
  have h5 := (h 0x2000 (by decide)).2.2.2.2.2.2.2.1 rfl
  unfold FrameOK
  rw [step_6 _ _ _ ht, step_6 _ _ _ ht, resolveClass_congr h1 h2 h3 h4 h5]
  apply rel2_bind
  intro l r
  simp +contextual [sameTable, ht]

theorem frame_other (file : Bytes) (e : MapEntry) (cm₁ cm₂ : CM) (ht : e.type ∉ modelled) :
    FrameOK file e cm₁ cm₂ := by
  unfold FrameOK
  rw [step_other _ _ _ ht, step_other _ _ _ ht]
  simp only [modelled, List.mem_cons, List.not_mem_nil, or_false, not_or] at ht
  simp [Rel2, sameTable, ht]

/-- (1) frame: the item parser of `e` depends on the ClassManager only through the tables in
    `reads e.type`; it writes the table of `e.type` and nothing else. -/
theorem step_frame_reads (file : Bytes) (e : MapEntry) (cm₁ cm₂ : CM)
    (h : agreeOn (reads e.type) cm₁ cm₂) : FrameOK file e cm₁ cm₂ := by
  by_cases hm : e.type ∈ modelled
  · simp only [modelled, List.mem_cons, List.not_mem_nil, or_false] at hm
    rcases hm with ht | ht | ht | ht | ht | ht | ht | ht | ht | ht
    · exact frame_2002 file e cm₁ cm₂ ht
    · exact frame_1 file e cm₁ cm₂ ht
    · exact frame_2 file e cm₁ cm₂ ht (ht ▸ h)
    · exact frame_1001 file e cm₁ cm₂ ht
    · exact frame_3 file e cm₁ cm₂ ht (ht ▸ h)
    · exact frame_4 file e cm₁ cm₂ ht (ht ▸ h)
    · exact frame_5 file e cm₁ cm₂ ht (ht ▸ h)
    · exact frame_2000 file e cm₁ cm₂ ht
    · exact frame_2001 file e cm₁ cm₂ ht
    · exact frame_6 file e cm₁ cm₂ ht (ht ▸ h)
  · exact frame_other file e cm₁ cm₂ hm

end AgVerif.DexFrame
