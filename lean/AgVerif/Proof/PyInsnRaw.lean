/-
`Instruction<fmt>.get_raw` as translated from the Python source by gen/py2lean.py (AgVerif.Gen.PyInsnRaw,
attribute-reading mode: the struct pack is not interpreted, `get_raw_<fmt>` returns the argument tuple)
agrees with the hand-written model `AgVerif.Insn.packArgs` on every object the constructor builds
(`post f vs` for values `vs` in the range of `struct.unpack`), and packs with the struct string that
gen/opcodes.py reads for the model (`Opcodes.packFmt`).
-/
import AgVerif.Gen.PyInsnRaw
import AgVerif.Proof.PyInsn
set_option linter.unusedSimpArgs false
namespace AgVerif.PyInsn
open AgVerif.Insn AgVerif.Py AgVerif.Gen AgVerif.Gen.PyInsnRaw

theorem and_low_ones (p lo k : Nat) (hp : p % 2 ^ k = 2 ^ k - 1) (hlo : lo < 2 ^ k) : p &&& lo = lo := by
  have h1 : lo &&& (2 ^ k - 1) = lo := by
    rw [Nat.and_two_pow_sub_one_eq_mod]; exact Nat.mod_eq_of_lt hlo
  calc p &&& lo = p &&& (lo &&& (2 ^ k - 1)) := by rw [h1]
    _ = (p &&& (2 ^ k - 1)) &&& lo := by rw [Nat.and_comm lo, ← Nat.and_assoc]
    _ = (2 ^ k - 1) &&& lo := by rw [Nat.and_two_pow_sub_one_eq_mod, hp]
    _ = lo := by rw [Nat.and_comm]; exact h1

/-- `x | lo = x + lo` when the low `k` bits of `x` are 0 and `0 ≤ lo < 2^k` (any sign of `x`) -/
theorem bor_add (x lo : Int) (k : Nat) (hx : x % 2 ^ k = 0) (h1 : 0 ≤ lo) (h2 : lo < 2 ^ k) :
    bor x lo = x + lo := by
  obtain ⟨l, rfl⟩ := Int.eq_ofNat_of_zero_le h1
  have hl : l < 2 ^ k := by exact_mod_cast h2
  have hP : 0 < 2 ^ k := Nat.two_pow_pos k
  cases x with
  | ofNat a =>
    have ha : a % 2 ^ k = 0 := by
      have : ((a % 2 ^ k : Nat) : Int) = 0 := by simpa using hx
      exact_mod_cast this
    show ((a ||| l : Nat) : Int) = (a : Int) + (l : Int)
    have e : a = 2 ^ k * (a / 2 ^ k) := by
      have := Nat.div_add_mod a (2 ^ k); omega
    rw [e, ← Nat.two_pow_add_eq_or_of_lt hl]
    simp
  | negSucc m =>
    have hm : m % 2 ^ k = 2 ^ k - 1 := by
      rw [Int.negSucc_emod _ (by exact_mod_cast hP)] at hx
      have h4 : ((2 ^ k : Nat) : Int) = (2 : Int) ^ k := by simp
      rw [← h4] at hx
      have : m % 2 ^ k < 2 ^ k := Nat.mod_lt _ hP
      omega
    have hle : l ≤ m := by
      have : m % 2 ^ k ≤ m := Nat.mod_le _ _
      omega
    show Int.negSucc (natAndNot m l) = Int.negSucc m + (l : Int)
    unfold natAndNot
    rw [and_low_ones m l k hm hl]
    simp only [Int.negSucc_eq]
    omega

theorem bor_add_16 (x lo : Int) (hx : x % 16 = 0) (h1 : 0 ≤ lo) (h2 : lo < 16) : bor x lo = x + lo :=
  bor_add x lo 4 hx h1 h2
theorem bor_add_256 (x lo : Int) (hx : x % 256 = 0) (h1 : 0 ≤ lo) (h2 : lo < 256) : bor x lo = x + lo :=
  bor_add x lo 8 hx h1 h2
theorem bor_add_4096 (x lo : Int) (hx : x % 4096 = 0) (h1 : 0 ≤ lo) (h2 : lo < 4096) : bor x lo = x + lo :=
  bor_add x lo 12 hx h1 h2

/-- on every object the model's constructor builds, the translated `get_raw` passes the model's tuple -/
def RawAgrees (m : Except Err Insn) (g : Insn → Option (List Int)) : Prop :=
  match m with
  | .ok x => g x = packArgs x
  | .error _ => True

macro "raw_close " d:ident : tactic => `(tactic|
  (simp only [RawAgrees, post, m0, m1, m2, m3, m4, m5, m7, m8]
   simp (disch := omega) [packArgs, $d:ident, m0, m1, m2, m3, m4, m5, m7, m8, shl_eq,
     bor_add_16, bor_add_256, bor_add_4096, band_FF, band_0F, shr_eq]
   try omega))

/-- `Instruction35c.get_raw` as translated from the source passes to `pack` the tuple the model's `packArgs` gives,
    on every object the constructor builds. -/
theorem raw_35c_eq (vs : List Int) (hr : InRange .f35c vs) :
    RawAgrees (post .f35c vs) (fun x => match x.v with | [w0, w1, w2, w3, w4, w5, w6] => get_raw_35c w0 w1 w2 w3 w4 w5 w6 (x.op : Int) | _ => none) := by
  simp only [InRange, Opcodes.unpackFmt] at hr
  match vs, hr with
  | [v0, v1, v2], hr =>
    simp only [InRangeL, SC.inRange, Bool.and_eq_true, decide_eq_true_eq] at hr
    raw_close get_raw_35c

/-- `Instruction10x.get_raw` as translated from the source passes to `pack` the tuple the model's `packArgs` gives,
    on every object the constructor builds. -/
theorem raw_10x_eq (vs : List Int) (hr : InRange .f10x vs) :
    RawAgrees (post .f10x vs) (fun x => match x.v with | [] => get_raw_10x (x.op : Int) | _ => none) := by
  simp only [InRange, Opcodes.unpackFmt] at hr
  match vs, hr with
  | [v0, v1], hr =>
    simp only [InRangeL, SC.inRange, Bool.and_eq_true, decide_eq_true_eq] at hr
    by_cases hp : v1 = 0 <;>
      simp (disch := omega) [RawAgrees, post, m0, m1, m2, m3, m4, m5, m7, m8, hp, packArgs, get_raw_10x, shl_eq,
        bor_add_16, bor_add_256, bor_add_4096] <;> try omega

/-- `Instruction21h.get_raw` as translated from the source passes to `pack` the tuple the model's `packArgs` gives,
    on every object the constructor builds. -/
theorem raw_21h_eq (vs : List Int) (hr : InRange .f21h vs) :
    RawAgrees (post .f21h vs) (fun x => match x.v with | [w0, w1, w2] => get_raw_21h w0 (x.op : Int) w1 | _ => none) := by
  simp only [InRange, Opcodes.unpackFmt] at hr
  match vs, hr with
  | [v0, v1, v2], hr =>
    simp only [InRangeL, SC.inRange, Bool.and_eq_true, decide_eq_true_eq] at hr
    raw_close get_raw_21h

/-- `Instruction11n.get_raw` as translated from the source passes to `pack` the tuple the model's `packArgs` gives,
    on every object the constructor builds. -/
theorem raw_11n_eq (vs : List Int) (hr : InRange .f11n vs) :
    RawAgrees (post .f11n vs) (fun x => match x.v with | [w0, w1] => get_raw_11n w0 w1 (x.op : Int) | _ => none) := by
  simp only [InRange, Opcodes.unpackFmt] at hr
  match vs, hr with
  | [v0, v1], hr =>
    simp only [InRangeL, SC.inRange, Bool.and_eq_true, decide_eq_true_eq] at hr
    raw_close get_raw_11n

/-- `Instruction21c.get_raw` as translated from the source passes to `pack` the tuple the model's `packArgs` gives,
    on every object the constructor builds. -/
theorem raw_21c_eq (vs : List Int) (hr : InRange .f21c vs) :
    RawAgrees (post .f21c vs) (fun x => match x.v with | [w0, w1] => get_raw_21c w0 w1 (x.op : Int) | _ => none) := by
  simp only [InRange, Opcodes.unpackFmt] at hr
  match vs, hr with
  | [v0, v1, v2], hr =>
    simp only [InRangeL, SC.inRange, Bool.and_eq_true, decide_eq_true_eq] at hr
    raw_close get_raw_21c

/-- `Instruction21s.get_raw` as translated from the source passes to `pack` the tuple the model's `packArgs` gives,
    on every object the constructor builds. -/
theorem raw_21s_eq (vs : List Int) (hr : InRange .f21s vs) :
    RawAgrees (post .f21s vs) (fun x => match x.v with | [w0, w1] => get_raw_21s w0 w1 (x.op : Int) | _ => none) := by
  simp only [InRange, Opcodes.unpackFmt] at hr
  match vs, hr with
  | [v0, v1, v2], hr =>
    simp only [InRangeL, SC.inRange, Bool.and_eq_true, decide_eq_true_eq] at hr
    raw_close get_raw_21s

/-- `Instruction22c.get_raw` as translated from the source passes to `pack` the tuple the model's `packArgs` gives,
    on every object the constructor builds. -/
theorem raw_22c_eq (vs : List Int) (hr : InRange .f22c vs) :
    RawAgrees (post .f22c vs) (fun x => match x.v with | [w0, w1, w2] => get_raw_22c w0 w1 w2 (x.op : Int) | _ => none) := by
  simp only [InRange, Opcodes.unpackFmt] at hr
  match vs, hr with
  | [v0, v1], hr =>
    simp only [InRangeL, SC.inRange, Bool.and_eq_true, decide_eq_true_eq] at hr
    raw_close get_raw_22c

/-- `Instruction22cs.get_raw` as translated from the source passes to `pack` the tuple the model's `packArgs` gives,
    on every object the constructor builds. -/
theorem raw_22cs_eq (vs : List Int) (hr : InRange .f22cs vs) :
    RawAgrees (post .f22cs vs) (fun x => match x.v with | [w0, w1, w2] => get_raw_22cs w0 w1 w2 (x.op : Int) | _ => none) := by
  simp only [InRange, Opcodes.unpackFmt] at hr
  match vs, hr with
  | [v0, v1], hr =>
    simp only [InRangeL, SC.inRange, Bool.and_eq_true, decide_eq_true_eq] at hr
    raw_close get_raw_22cs

/-- `Instruction31t.get_raw` as translated from the source passes to `pack` the tuple the model's `packArgs` gives,
    on every object the constructor builds. -/
theorem raw_31t_eq (vs : List Int) (hr : InRange .f31t vs) :
    RawAgrees (post .f31t vs) (fun x => match x.v with | [w0, w1] => get_raw_31t w0 w1 (x.op : Int) | _ => none) := by
  simp only [InRange, Opcodes.unpackFmt] at hr
  match vs, hr with
  | [v0, v1, v2], hr =>
    simp only [InRangeL, SC.inRange, Bool.and_eq_true, decide_eq_true_eq] at hr
    raw_close get_raw_31t

/-- `Instruction31c.get_raw` as translated from the source passes to `pack` the tuple the model's `packArgs` gives,
    on every object the constructor builds. -/
theorem raw_31c_eq (vs : List Int) (hr : InRange .f31c vs) :
    RawAgrees (post .f31c vs) (fun x => match x.v with | [w0, w1] => get_raw_31c w0 w1 (x.op : Int) | _ => none) := by
  simp only [InRange, Opcodes.unpackFmt] at hr
  match vs, hr with
  | [v0, v1, v2], hr =>
    simp only [InRangeL, SC.inRange, Bool.and_eq_true, decide_eq_true_eq] at hr
    raw_close get_raw_31c

/-- `Instruction12x.get_raw` as translated from the source passes to `pack` the tuple the model's `packArgs` gives,
    on every object the constructor builds. -/
theorem raw_12x_eq (vs : List Int) (hr : InRange .f12x vs) :
    RawAgrees (post .f12x vs) (fun x => match x.v with | [w0, w1] => get_raw_12x w0 w1 (x.op : Int) | _ => none) := by
  simp only [InRange, Opcodes.unpackFmt] at hr
  match vs, hr with
  | [v0], hr =>
    simp only [InRangeL, SC.inRange, Bool.and_eq_true, decide_eq_true_eq] at hr
    raw_close get_raw_12x

/-- `Instruction11x.get_raw` as translated from the source passes to `pack` the tuple the model's `packArgs` gives,
    on every object the constructor builds. -/
theorem raw_11x_eq (vs : List Int) (hr : InRange .f11x vs) :
    RawAgrees (post .f11x vs) (fun x => match x.v with | [w0] => get_raw_11x w0 (x.op : Int) | _ => none) := by
  simp only [InRange, Opcodes.unpackFmt] at hr
  match vs, hr with
  | [v0, v1], hr =>
    simp only [InRangeL, SC.inRange, Bool.and_eq_true, decide_eq_true_eq] at hr
    raw_close get_raw_11x

/-- `Instruction51l.get_raw` as translated from the source passes to `pack` the tuple the model's `packArgs` gives,
    on every object the constructor builds. -/
theorem raw_51l_eq (vs : List Int) (hr : InRange .f51l vs) :
    RawAgrees (post .f51l vs) (fun x => match x.v with | [w0, w1] => get_raw_51l w0 w1 (x.op : Int) | _ => none) := by
  simp only [InRange, Opcodes.unpackFmt] at hr
  match vs, hr with
  | [v0, v1, v2], hr =>
    simp only [InRangeL, SC.inRange, Bool.and_eq_true, decide_eq_true_eq] at hr
    raw_close get_raw_51l

/-- `Instruction31i.get_raw` as translated from the source passes to `pack` the tuple the model's `packArgs` gives,
    on every object the constructor builds. -/
theorem raw_31i_eq (vs : List Int) (hr : InRange .f31i vs) :
    RawAgrees (post .f31i vs) (fun x => match x.v with | [w0, w1] => get_raw_31i w0 w1 (x.op : Int) | _ => none) := by
  simp only [InRange, Opcodes.unpackFmt] at hr
  match vs, hr with
  | [v0, v1, v2], hr =>
    simp only [InRangeL, SC.inRange, Bool.and_eq_true, decide_eq_true_eq] at hr
    raw_close get_raw_31i

/-- `Instruction22x.get_raw` as translated from the source passes to `pack` the tuple the model's `packArgs` gives,
    on every object the constructor builds. -/
theorem raw_22x_eq (vs : List Int) (hr : InRange .f22x vs) :
    RawAgrees (post .f22x vs) (fun x => match x.v with | [w0, w1] => get_raw_22x w0 w1 (x.op : Int) | _ => none) := by
  simp only [InRange, Opcodes.unpackFmt] at hr
  match vs, hr with
  | [v0, v1, v2], hr =>
    simp only [InRangeL, SC.inRange, Bool.and_eq_true, decide_eq_true_eq] at hr
    raw_close get_raw_22x

/-- `Instruction23x.get_raw` as translated from the source passes to `pack` the tuple the model's `packArgs` gives,
    on every object the constructor builds. -/
theorem raw_23x_eq (vs : List Int) (hr : InRange .f23x vs) :
    RawAgrees (post .f23x vs) (fun x => match x.v with | [w0, w1, w2] => get_raw_23x w0 w1 w2 (x.op : Int) | _ => none) := by
  simp only [InRange, Opcodes.unpackFmt] at hr
  match vs, hr with
  | [v0, v1, v2, v3], hr =>
    simp only [InRangeL, SC.inRange, Bool.and_eq_true, decide_eq_true_eq] at hr
    raw_close get_raw_23x

/-- `Instruction20t.get_raw` as translated from the source passes to `pack` the tuple the model's `packArgs` gives,
    on every object the constructor builds. -/
theorem raw_20t_eq (vs : List Int) (hr : InRange .f20t vs) :
    RawAgrees (post .f20t vs) (fun x => match x.v with | [w0] => get_raw_20t w0 (x.op : Int) | _ => none) := by
  simp only [InRange, Opcodes.unpackFmt] at hr
  match vs, hr with
  | [v0, v1, v2], hr =>
    simp only [InRangeL, SC.inRange, Bool.and_eq_true, decide_eq_true_eq] at hr
    by_cases hp : v1 = 0 <;>
      simp (disch := omega) [RawAgrees, post, m0, m1, m2, m3, m4, m5, m7, m8, hp, packArgs, get_raw_20t, shl_eq,
        bor_add_16, bor_add_256, bor_add_4096] <;> try omega

/-- `Instruction21t.get_raw` as translated from the source passes to `pack` the tuple the model's `packArgs` gives,
    on every object the constructor builds. -/
theorem raw_21t_eq (vs : List Int) (hr : InRange .f21t vs) :
    RawAgrees (post .f21t vs) (fun x => match x.v with | [w0, w1] => get_raw_21t w0 w1 (x.op : Int) | _ => none) := by
  simp only [InRange, Opcodes.unpackFmt] at hr
  match vs, hr with
  | [v0, v1, v2], hr =>
    simp only [InRangeL, SC.inRange, Bool.and_eq_true, decide_eq_true_eq] at hr
    raw_close get_raw_21t

/-- `Instruction10t.get_raw` as translated from the source passes to `pack` the tuple the model's `packArgs` gives,
    on every object the constructor builds. -/
theorem raw_10t_eq (vs : List Int) (hr : InRange .f10t vs) :
    RawAgrees (post .f10t vs) (fun x => match x.v with | [w0] => get_raw_10t w0 (x.op : Int) | _ => none) := by
  simp only [InRange, Opcodes.unpackFmt] at hr
  match vs, hr with
  | [v0, v1], hr =>
    simp only [InRangeL, SC.inRange, Bool.and_eq_true, decide_eq_true_eq] at hr
    raw_close get_raw_10t

/-- `Instruction22t.get_raw` as translated from the source passes to `pack` the tuple the model's `packArgs` gives,
    on every object the constructor builds. -/
theorem raw_22t_eq (vs : List Int) (hr : InRange .f22t vs) :
    RawAgrees (post .f22t vs) (fun x => match x.v with | [w0, w1, w2] => get_raw_22t w0 w1 w2 (x.op : Int) | _ => none) := by
  simp only [InRange, Opcodes.unpackFmt] at hr
  match vs, hr with
  | [v0, v1], hr =>
    simp only [InRangeL, SC.inRange, Bool.and_eq_true, decide_eq_true_eq] at hr
    raw_close get_raw_22t

/-- `Instruction22s.get_raw` as translated from the source passes to `pack` the tuple the model's `packArgs` gives,
    on every object the constructor builds. -/
theorem raw_22s_eq (vs : List Int) (hr : InRange .f22s vs) :
    RawAgrees (post .f22s vs) (fun x => match x.v with | [w0, w1, w2] => get_raw_22s w0 w1 w2 (x.op : Int) | _ => none) := by
  simp only [InRange, Opcodes.unpackFmt] at hr
  match vs, hr with
  | [v0, v1], hr =>
    simp only [InRangeL, SC.inRange, Bool.and_eq_true, decide_eq_true_eq] at hr
    raw_close get_raw_22s

/-- `Instruction22b.get_raw` as translated from the source passes to `pack` the tuple the model's `packArgs` gives,
    on every object the constructor builds. -/
theorem raw_22b_eq (vs : List Int) (hr : InRange .f22b vs) :
    RawAgrees (post .f22b vs) (fun x => match x.v with | [w0, w1, w2] => get_raw_22b w0 w1 w2 (x.op : Int) | _ => none) := by
  simp only [InRange, Opcodes.unpackFmt] at hr
  match vs, hr with
  | [v0, v1, v2, v3], hr =>
    simp only [InRangeL, SC.inRange, Bool.and_eq_true, decide_eq_true_eq] at hr
    raw_close get_raw_22b

/-- `Instruction30t.get_raw` as translated from the source passes to `pack` the tuple the model's `packArgs` gives,
    on every object the constructor builds. -/
theorem raw_30t_eq (vs : List Int) (hr : InRange .f30t vs) :
    RawAgrees (post .f30t vs) (fun x => match x.v with | [w0] => get_raw_30t w0 (x.op : Int) | _ => none) := by
  simp only [InRange, Opcodes.unpackFmt] at hr
  match vs, hr with
  | [v0, v1, v2], hr =>
    simp only [InRangeL, SC.inRange, Bool.and_eq_true, decide_eq_true_eq] at hr
    by_cases hp : v1 = 0 <;>
      simp (disch := omega) [RawAgrees, post, m0, m1, m2, m3, m4, m5, m7, m8, hp, packArgs, get_raw_30t, shl_eq,
        bor_add_16, bor_add_256, bor_add_4096] <;> try omega

/-- `Instruction3rc.get_raw` as translated from the source passes to `pack` the tuple the model's `packArgs` gives,
    on every object the constructor builds. -/
theorem raw_3rc_eq (vs : List Int) (hr : InRange .f3rc vs) :
    RawAgrees (post .f3rc vs) (fun x => match x.v with | [w0, w1, w2] => get_raw_3rc w0 w1 w2 (x.op : Int) | _ => none) := by
  simp only [InRange, Opcodes.unpackFmt] at hr
  match vs, hr with
  | [v0, v1, v2, v3], hr =>
    simp only [InRangeL, SC.inRange, Bool.and_eq_true, decide_eq_true_eq] at hr
    raw_close get_raw_3rc

/-- `Instruction32x.get_raw` as translated from the source passes to `pack` the tuple the model's `packArgs` gives,
    on every object the constructor builds. -/
theorem raw_32x_eq (vs : List Int) (hr : InRange .f32x vs) :
    RawAgrees (post .f32x vs) (fun x => match x.v with | [w0, w1] => get_raw_32x w0 w1 (x.op : Int) | _ => none) := by
  simp only [InRange, Opcodes.unpackFmt] at hr
  match vs, hr with
  | [v0, v1, v2, v3], hr =>
    simp only [InRangeL, SC.inRange, Bool.and_eq_true, decide_eq_true_eq] at hr
    by_cases hp : v1 = 0 <;>
      simp (disch := omega) [RawAgrees, post, m0, m1, m2, m3, m4, m5, m7, m8, hp, packArgs, get_raw_32x, shl_eq,
        bor_add_16, bor_add_256, bor_add_4096] <;> try omega

/-- `Instruction20bc.get_raw` as translated from the source passes to `pack` the tuple the model's `packArgs` gives,
    on every object the constructor builds. -/
theorem raw_20bc_eq (vs : List Int) (hr : InRange .f20bc vs) :
    RawAgrees (post .f20bc vs) (fun x => match x.v with | [w0, w1] => get_raw_20bc w0 w1 (x.op : Int) | _ => none) := by
  simp only [InRange, Opcodes.unpackFmt] at hr
  match vs, hr with
  | [v0, v1, v2], hr =>
    simp only [InRangeL, SC.inRange, Bool.and_eq_true, decide_eq_true_eq] at hr
    raw_close get_raw_20bc

/-- `Instruction35mi.get_raw` as translated from the source passes to `pack` the tuple the model's `packArgs` gives,
    on every object the constructor builds. -/
theorem raw_35mi_eq (vs : List Int) (hr : InRange .f35mi vs) :
    RawAgrees (post .f35mi vs) (fun x => match x.v with | [w0, w1, w2, w3, w4, w5, w6] => get_raw_35mi w0 w1 w2 w3 w4 w5 w6 (x.op : Int) | _ => none) := by
  simp only [InRange, Opcodes.unpackFmt] at hr
  match vs, hr with
  | [v0, v1, v2], hr =>
    simp only [InRangeL, SC.inRange, Bool.and_eq_true, decide_eq_true_eq] at hr
    raw_close get_raw_35mi

/-- `Instruction35ms.get_raw` as translated from the source passes to `pack` the tuple the model's `packArgs` gives,
    on every object the constructor builds. -/
theorem raw_35ms_eq (vs : List Int) (hr : InRange .f35ms vs) :
    RawAgrees (post .f35ms vs) (fun x => match x.v with | [w0, w1, w2, w3, w4, w5, w6] => get_raw_35ms w0 w1 w2 w3 w4 w5 w6 (x.op : Int) | _ => none) := by
  simp only [InRange, Opcodes.unpackFmt] at hr
  match vs, hr with
  | [v0, v1, v2], hr =>
    simp only [InRangeL, SC.inRange, Bool.and_eq_true, decide_eq_true_eq] at hr
    raw_close get_raw_35ms

/-- `Instruction3rmi.get_raw` as translated from the source passes to `pack` the tuple the model's `packArgs` gives,
    on every object the constructor builds. -/
theorem raw_3rmi_eq (vs : List Int) (hr : InRange .f3rmi vs) :
    RawAgrees (post .f3rmi vs) (fun x => match x.v with | [w0, w1, w2] => get_raw_3rmi w0 w1 w2 (x.op : Int) | _ => none) := by
  simp only [InRange, Opcodes.unpackFmt] at hr
  match vs, hr with
  | [v0, v1, v2, v3], hr =>
    simp only [InRangeL, SC.inRange, Bool.and_eq_true, decide_eq_true_eq] at hr
    raw_close get_raw_3rmi

/-- `Instruction3rms.get_raw` as translated from the source passes to `pack` the tuple the model's `packArgs` gives,
    on every object the constructor builds. -/
theorem raw_3rms_eq (vs : List Int) (hr : InRange .f3rms vs) :
    RawAgrees (post .f3rms vs) (fun x => match x.v with | [w0, w1, w2] => get_raw_3rms w0 w1 w2 (x.op : Int) | _ => none) := by
  simp only [InRange, Opcodes.unpackFmt] at hr
  match vs, hr with
  | [v0, v1, v2, v3], hr =>
    simp only [InRangeL, SC.inRange, Bool.and_eq_true, decide_eq_true_eq] at hr
    raw_close get_raw_3rms

/-- `Instruction41c.get_raw` as translated from the source passes to `pack` the tuple the model's `packArgs` gives,
    on every object the constructor builds. -/
theorem raw_41c_eq (vs : List Int) (hr : InRange .f41c vs) :
    RawAgrees (post .f41c vs) (fun x => match x.v with | [w0, w1] => get_raw_41c w1 w0 (x.op : Int) | _ => none) := by
  simp only [InRange, Opcodes.unpackFmt] at hr
  match vs, hr with
  | [v0, v1, v2], hr =>
    simp only [InRangeL, SC.inRange, Bool.and_eq_true, decide_eq_true_eq] at hr
    raw_close get_raw_41c

/-- `Instruction40sc.get_raw` as translated from the source passes to `pack` the tuple the model's `packArgs` gives,
    on every object the constructor builds. -/
theorem raw_40sc_eq (vs : List Int) (hr : InRange .f40sc vs) :
    RawAgrees (post .f40sc vs) (fun x => match x.v with | [w0, w1] => get_raw_40sc w1 w0 (x.op : Int) | _ => none) := by
  simp only [InRange, Opcodes.unpackFmt] at hr
  match vs, hr with
  | [v0, v1, v2], hr =>
    simp only [InRangeL, SC.inRange, Bool.and_eq_true, decide_eq_true_eq] at hr
    raw_close get_raw_40sc

/-- `Instruction52c.get_raw` as translated from the source passes to `pack` the tuple the model's `packArgs` gives,
    on every object the constructor builds. -/
theorem raw_52c_eq (vs : List Int) (hr : InRange .f52c vs) :
    RawAgrees (post .f52c vs) (fun x => match x.v with | [w0, w1, w2] => get_raw_52c w1 w2 w0 (x.op : Int) | _ => none) := by
  simp only [InRange, Opcodes.unpackFmt] at hr
  match vs, hr with
  | [v0, v1, v2, v3], hr =>
    simp only [InRangeL, SC.inRange, Bool.and_eq_true, decide_eq_true_eq] at hr
    raw_close get_raw_52c

/-- `Instruction5rc.get_raw` as translated from the source passes to `pack` the tuple the model's `packArgs` gives,
    on every object the constructor builds. -/
theorem raw_5rc_eq (vs : List Int) (hr : InRange .f5rc vs) :
    RawAgrees (post .f5rc vs) (fun x => match x.v with | [w0, w1, w2] => get_raw_5rc w1 w0 w2 (x.op : Int) | _ => none) := by
  simp only [InRange, Opcodes.unpackFmt] at hr
  match vs, hr with
  | [v0, v1, v2, v3], hr =>
    simp only [InRangeL, SC.inRange, Bool.and_eq_true, decide_eq_true_eq] at hr
    raw_close get_raw_5rc

/-- `Instruction45cc.get_raw` as translated from the source passes to `pack` the tuple the model's `packArgs` gives,
    on every object the constructor builds. -/
theorem raw_45cc_eq (vs : List Int) (hr : InRange .f45cc vs) :
    RawAgrees (post .f45cc vs) (fun x => match x.v with | [w0, w1, w2, w3, w4, w5, w6, w7] => get_raw_45cc w0 w1 w2 w3 w4 w5 w6 w7 (x.op : Int) | _ => none) := by
  simp only [InRange, Opcodes.unpackFmt] at hr
  match vs, hr with
  | [v0, v1, v2, v3, v4], hr =>
    simp only [InRangeL, SC.inRange, Bool.and_eq_true, decide_eq_true_eq] at hr
    by_cases hp : 5 < v1 / 16 % 16 <;>
      simp (disch := omega) [RawAgrees, post, m0, m1, m2, m3, m4, m5, m7, m8, hp, packArgs, get_raw_45cc, shl_eq,
        bor_add_16, bor_add_256, bor_add_4096] <;> try omega

/-- `Instruction4rcc.get_raw` as translated from the source passes to `pack` the tuple the model's `packArgs` gives,
    on every object the constructor builds. -/
theorem raw_4rcc_eq (vs : List Int) (hr : InRange .f4rcc vs) :
    RawAgrees (post .f4rcc vs) (fun x => match x.v with | [w0, w1, w2, w3] => get_raw_4rcc w0 w1 w2 w3 (x.op : Int) | _ => none) := by
  simp only [InRange, Opcodes.unpackFmt] at hr
  match vs, hr with
  | [v0, v1, v2, v3, v4], hr =>
    simp only [InRangeL, SC.inRange, Bool.and_eq_true, decide_eq_true_eq] at hr
    raw_close get_raw_4rcc

/-! ### the struct string of every translated `get_raw` is the generated one -/

def packTable : List (Fmt × String) :=
  [(.f35c, get_raw_35c_pack),
   (.f10x, get_raw_10x_pack),
   (.f21h, get_raw_21h_pack),
   (.f11n, get_raw_11n_pack),
   (.f21c, get_raw_21c_pack),
   (.f21s, get_raw_21s_pack),
   (.f22c, get_raw_22c_pack),
   (.f22cs, get_raw_22cs_pack),
   (.f31t, get_raw_31t_pack),
   (.f31c, get_raw_31c_pack),
   (.f12x, get_raw_12x_pack),
   (.f11x, get_raw_11x_pack),
   (.f51l, get_raw_51l_pack),
   (.f31i, get_raw_31i_pack),
   (.f22x, get_raw_22x_pack),
   (.f23x, get_raw_23x_pack),
   (.f20t, get_raw_20t_pack),
   (.f21t, get_raw_21t_pack),
   (.f10t, get_raw_10t_pack),
   (.f22t, get_raw_22t_pack),
   (.f22s, get_raw_22s_pack),
   (.f22b, get_raw_22b_pack),
   (.f30t, get_raw_30t_pack),
   (.f3rc, get_raw_3rc_pack),
   (.f32x, get_raw_32x_pack),
   (.f20bc, get_raw_20bc_pack),
   (.f35mi, get_raw_35mi_pack),
   (.f35ms, get_raw_35ms_pack),
   (.f3rmi, get_raw_3rmi_pack),
   (.f3rms, get_raw_3rms_pack),
   (.f41c, get_raw_41c_pack),
   (.f40sc, get_raw_40sc_pack),
   (.f52c, get_raw_52c_pack),
   (.f5rc, get_raw_5rc_pack),
   (.f45cc, get_raw_45cc_pack),
   (.f4rcc, get_raw_4rcc_pack)]

theorem pack_formats_agree :
    packTable.all (fun (f, u) => parseFmt u.toList none == some (Opcodes.packFmt f)) = true := by
  decide +kernel

example : packTable.length = 36 := by decide

/-- All 36 `get_raw` methods at once (for Props/C02.lean). -/
theorem source_get_raw_agree :
    (∀ vs, InRange .f35c vs → RawAgrees (post .f35c vs) (fun x => match x.v with | [w0, w1, w2, w3, w4, w5, w6] => get_raw_35c w0 w1 w2 w3 w4 w5 w6 (x.op : Int) | _ => none)) ∧
    (∀ vs, InRange .f10x vs → RawAgrees (post .f10x vs) (fun x => match x.v with | [] => get_raw_10x (x.op : Int) | _ => none)) ∧
    (∀ vs, InRange .f21h vs → RawAgrees (post .f21h vs) (fun x => match x.v with | [w0, w1, w2] => get_raw_21h w0 (x.op : Int) w1 | _ => none)) ∧
    (∀ vs, InRange .f11n vs → RawAgrees (post .f11n vs) (fun x => match x.v with | [w0, w1] => get_raw_11n w0 w1 (x.op : Int) | _ => none)) ∧
    (∀ vs, InRange .f21c vs → RawAgrees (post .f21c vs) (fun x => match x.v with | [w0, w1] => get_raw_21c w0 w1 (x.op : Int) | _ => none)) ∧
    (∀ vs, InRange .f21s vs → RawAgrees (post .f21s vs) (fun x => match x.v with | [w0, w1] => get_raw_21s w0 w1 (x.op : Int) | _ => none)) ∧
    (∀ vs, InRange .f22c vs → RawAgrees (post .f22c vs) (fun x => match x.v with | [w0, w1, w2] => get_raw_22c w0 w1 w2 (x.op : Int) | _ => none)) ∧
    (∀ vs, InRange .f22cs vs → RawAgrees (post .f22cs vs) (fun x => match x.v with | [w0, w1, w2] => get_raw_22cs w0 w1 w2 (x.op : Int) | _ => none)) ∧
    (∀ vs, InRange .f31t vs → RawAgrees (post .f31t vs) (fun x => match x.v with | [w0, w1] => get_raw_31t w0 w1 (x.op : Int) | _ => none)) ∧
    (∀ vs, InRange .f31c vs → RawAgrees (post .f31c vs) (fun x => match x.v with | [w0, w1] => get_raw_31c w0 w1 (x.op : Int) | _ => none)) ∧
    (∀ vs, InRange .f12x vs → RawAgrees (post .f12x vs) (fun x => match x.v with | [w0, w1] => get_raw_12x w0 w1 (x.op : Int) | _ => none)) ∧
    (∀ vs, InRange .f11x vs → RawAgrees (post .f11x vs) (fun x => match x.v with | [w0] => get_raw_11x w0 (x.op : Int) | _ => none)) ∧
    (∀ vs, InRange .f51l vs → RawAgrees (post .f51l vs) (fun x => match x.v with | [w0, w1] => get_raw_51l w0 w1 (x.op : Int) | _ => none)) ∧
    (∀ vs, InRange .f31i vs → RawAgrees (post .f31i vs) (fun x => match x.v with | [w0, w1] => get_raw_31i w0 w1 (x.op : Int) | _ => none)) ∧
    (∀ vs, InRange .f22x vs → RawAgrees (post .f22x vs) (fun x => match x.v with | [w0, w1] => get_raw_22x w0 w1 (x.op : Int) | _ => none)) ∧
    (∀ vs, InRange .f23x vs → RawAgrees (post .f23x vs) (fun x => match x.v with | [w0, w1, w2] => get_raw_23x w0 w1 w2 (x.op : Int) | _ => none)) ∧
    (∀ vs, InRange .f20t vs → RawAgrees (post .f20t vs) (fun x => match x.v with | [w0] => get_raw_20t w0 (x.op : Int) | _ => none)) ∧
    (∀ vs, InRange .f21t vs → RawAgrees (post .f21t vs) (fun x => match x.v with | [w0, w1] => get_raw_21t w0 w1 (x.op : Int) | _ => none)) ∧
    (∀ vs, InRange .f10t vs → RawAgrees (post .f10t vs) (fun x => match x.v with | [w0] => get_raw_10t w0 (x.op : Int) | _ => none)) ∧
    (∀ vs, InRange .f22t vs → RawAgrees (post .f22t vs) (fun x => match x.v with | [w0, w1, w2] => get_raw_22t w0 w1 w2 (x.op : Int) | _ => none)) ∧
    (∀ vs, InRange .f22s vs → RawAgrees (post .f22s vs) (fun x => match x.v with | [w0, w1, w2] => get_raw_22s w0 w1 w2 (x.op : Int) | _ => none)) ∧
    (∀ vs, InRange .f22b vs → RawAgrees (post .f22b vs) (fun x => match x.v with | [w0, w1, w2] => get_raw_22b w0 w1 w2 (x.op : Int) | _ => none)) ∧
    (∀ vs, InRange .f30t vs → RawAgrees (post .f30t vs) (fun x => match x.v with | [w0] => get_raw_30t w0 (x.op : Int) | _ => none)) ∧
    (∀ vs, InRange .f3rc vs → RawAgrees (post .f3rc vs) (fun x => match x.v with | [w0, w1, w2] => get_raw_3rc w0 w1 w2 (x.op : Int) | _ => none)) ∧
    (∀ vs, InRange .f32x vs → RawAgrees (post .f32x vs) (fun x => match x.v with | [w0, w1] => get_raw_32x w0 w1 (x.op : Int) | _ => none)) ∧
    (∀ vs, InRange .f20bc vs → RawAgrees (post .f20bc vs) (fun x => match x.v with | [w0, w1] => get_raw_20bc w0 w1 (x.op : Int) | _ => none)) ∧
    (∀ vs, InRange .f35mi vs → RawAgrees (post .f35mi vs) (fun x => match x.v with | [w0, w1, w2, w3, w4, w5, w6] => get_raw_35mi w0 w1 w2 w3 w4 w5 w6 (x.op : Int) | _ => none)) ∧
    (∀ vs, InRange .f35ms vs → RawAgrees (post .f35ms vs) (fun x => match x.v with | [w0, w1, w2, w3, w4, w5, w6] => get_raw_35ms w0 w1 w2 w3 w4 w5 w6 (x.op : Int) | _ => none)) ∧
    (∀ vs, InRange .f3rmi vs → RawAgrees (post .f3rmi vs) (fun x => match x.v with | [w0, w1, w2] => get_raw_3rmi w0 w1 w2 (x.op : Int) | _ => none)) ∧
    (∀ vs, InRange .f3rms vs → RawAgrees (post .f3rms vs) (fun x => match x.v with | [w0, w1, w2] => get_raw_3rms w0 w1 w2 (x.op : Int) | _ => none)) ∧
    (∀ vs, InRange .f41c vs → RawAgrees (post .f41c vs) (fun x => match x.v with | [w0, w1] => get_raw_41c w1 w0 (x.op : Int) | _ => none)) ∧
    (∀ vs, InRange .f40sc vs → RawAgrees (post .f40sc vs) (fun x => match x.v with | [w0, w1] => get_raw_40sc w1 w0 (x.op : Int) | _ => none)) ∧
    (∀ vs, InRange .f52c vs → RawAgrees (post .f52c vs) (fun x => match x.v with | [w0, w1, w2] => get_raw_52c w1 w2 w0 (x.op : Int) | _ => none)) ∧
    (∀ vs, InRange .f5rc vs → RawAgrees (post .f5rc vs) (fun x => match x.v with | [w0, w1, w2] => get_raw_5rc w1 w0 w2 (x.op : Int) | _ => none)) ∧
    (∀ vs, InRange .f45cc vs → RawAgrees (post .f45cc vs) (fun x => match x.v with | [w0, w1, w2, w3, w4, w5, w6, w7] => get_raw_45cc w0 w1 w2 w3 w4 w5 w6 w7 (x.op : Int) | _ => none)) ∧
    (∀ vs, InRange .f4rcc vs → RawAgrees (post .f4rcc vs) (fun x => match x.v with | [w0, w1, w2, w3] => get_raw_4rcc w0 w1 w2 w3 (x.op : Int) | _ => none)) :=
  ⟨raw_35c_eq, raw_10x_eq, raw_21h_eq, raw_11n_eq, raw_21c_eq, raw_21s_eq, raw_22c_eq, raw_22cs_eq, raw_31t_eq, raw_31c_eq, raw_12x_eq, raw_11x_eq, raw_51l_eq, raw_31i_eq, raw_22x_eq, raw_23x_eq, raw_20t_eq, raw_21t_eq, raw_10t_eq, raw_22t_eq, raw_22s_eq, raw_22b_eq, raw_30t_eq, raw_3rc_eq, raw_32x_eq, raw_20bc_eq, raw_35mi_eq, raw_35ms_eq, raw_3rmi_eq, raw_3rms_eq, raw_41c_eq, raw_40sc_eq, raw_52c_eq, raw_5rc_eq, raw_45cc_eq, raw_4rcc_eq⟩

example : get_raw_22c 1 2 7 0x52 = some [0x2152, 7] := by decide
example : get_raw_11n 3 (-1) 0x12 = some [-3310] := by decide

end AgVerif.PyInsn
