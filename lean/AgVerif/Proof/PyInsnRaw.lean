/-
`Instruction<fmt>.get_raw` as translated from the Python source by gen/py2lean.py (AgVerif.Gen.PyInsnRaw,
attribute-reading mode: attributes are looked up by name in the list the translated constructor returns,
the struct pack is not interpreted, `get_raw_<fmt>` returns the argument tuple) agrees with the
hand-written model `AgVerif.Insn.packArgs` on every object the constructor builds (`post f vs` for
values `vs` in the range of `struct.unpack`), and packs with the struct string that gen/opcodes.py reads
for the model (`Opcodes.packFmt`).  Constructor and `get_raw` are composed as generated: no attribute
name or position is supplied by hand.
-/
import AgVerif.Gen.PyInsnRaw
import AgVerif.Proof.PyInsn
set_option linter.unusedSimpArgs false
namespace AgVerif.PyInsn
open AgVerif.Insn AgVerif.Py AgVerif.Gen AgVerif.Gen.PyInsn AgVerif.Gen.PyInsnRaw

theorem and_low_ones (p lo k : Nat) (hp : p % 2 ^ k = 2 ^ k - 1) (hlo : lo < 2 ^ k) : p &&& lo = lo := by
  have h1 : lo &&& (2 ^ k - 1) = lo := by
    rw [Nat.and_two_pow_sub_one_eq_mod]; exact Nat.mod_eq_of_lt hlo
  calc p &&& lo = p &&& (lo &&& (2 ^ k - 1)) := by rw [h1]
    _ = (p &&& (2 ^ k - 1)) &&& lo := by rw [Nat.and_comm lo, ← Nat.and_assoc]
    _ = (2 ^ k - 1) &&& lo := by rw [Nat.and_two_pow_sub_one_eq_mod, hp]
    _ = lo := by rw [Nat.and_comm]; exact h1

/-- `x | lo = x + lo` when the low `k` bits of `x` are 0 and `0 ≤ lo < 2^k` (any sign of `x`) -/
theorem bor_add (x lo : Int) (k : Nat) (hx : x % 2 ^ k = 0) (h1 : 0 ≤ lo) (h2 : lo < 2 ^ k) :
    bor x lo = x + lo := by
  obtain ⟨l, rfl⟩ := Int.eq_ofNat_of_zero_le h1
  have hl : l < 2 ^ k := by exact_mod_cast h2
  have hP : 0 < 2 ^ k := Nat.two_pow_pos k
  cases x with
  | ofNat a =>
    have ha : a % 2 ^ k = 0 := by
      have : ((a % 2 ^ k : Nat) : Int) = 0 := by simpa using hx
      exact_mod_cast this
    show ((a ||| l : Nat) : Int) = (a : Int) + (l : Int)
    have e : a = 2 ^ k * (a / 2 ^ k) := by
      have := Nat.div_add_mod a (2 ^ k); omega
    rw [e, ← Nat.two_pow_add_eq_or_of_lt hl]
    simp
  | negSucc m =>
    have hm : m % 2 ^ k = 2 ^ k - 1 := by
      rw [Int.negSucc_emod _ (by exact_mod_cast hP)] at hx
      have h4 : ((2 ^ k : Nat) : Int) = (2 : Int) ^ k := by simp
      rw [← h4] at hx
      have : m % 2 ^ k < 2 ^ k := Nat.mod_lt _ hP
      omega
    have hle : l ≤ m := by
      have : m % 2 ^ k ≤ m := Nat.mod_le _ _
      omega
    show Int.negSucc (natAndNot m l) = Int.negSucc m + (l : Int)
    unfold natAndNot
    rw [and_low_ones m l k hm hl]
    simp only [Int.negSucc_eq]
    omega

theorem bor_add_16 (x lo : Int) (hx : x % 16 = 0) (h1 : 0 ≤ lo) (h2 : lo < 16) : bor x lo = x + lo :=
  bor_add x lo 4 hx h1 h2
theorem bor_add_256 (x lo : Int) (hx : x % 256 = 0) (h1 : 0 ≤ lo) (h2 : lo < 256) : bor x lo = x + lo :=
  bor_add x lo 8 hx h1 h2
theorem bor_add_4096 (x lo : Int) (hx : x % 4096 = 0) (h1 : 0 ≤ lo) (h2 : lo < 4096) : bor x lo = x + lo :=
  bor_add x lo 12 hx h1 h2

/-- whenever the model's constructor builds an object `x`, the translated constructor returns an attribute
    list `fl`, and the translated method `g` applied to `fl` returns what the model's observer `o` returns on `x` -/
def Agrees2 {α : Type} (m : Except Err Insn) (flo : Option (List (String × Int)))
    (g : List (String × Int) → Option α) (o : Insn → Option α) : Prop :=
  match m with
  | .ok x => ∃ fl, flo = some fl ∧ g fl = o x
  | .error _ => True

/-- `Instruction35c.get_raw` as translated from the source, applied to the attributes the translated constructor
    sets, passes to `pack` the tuple the model's `packArgs` gives, on every object the constructor builds. -/
theorem raw_35c_eq (vs : List Int) (hr : InRange .f35c vs) :
    Agrees2 (post .f35c vs) (init_35c vs) get_raw_35c (fun x => packArgs x) := by
  simp only [InRange, Opcodes.unpackFmt] at hr
  match vs, hr with
  | [v0, v1, v2], hr =>
    simp only [InRangeL, SC.inRange, Bool.and_eq_true, decide_eq_true_eq] at hr
    simp (disch := omega) [Agrees2, post, init_35c, get_raw_35c, packArgs, refOff, refKind, literals, m0, m1, m2, m3, m4, m5, m7, m8, List.lookup, band_FF, band_0F, shl_eq, shr_eq, bor_add_16, bor_add_256, bor_add_4096]
    try omega

/-- `Instruction10x.get_raw` as translated from the source, applied to the attributes the translated constructor
    sets, passes to `pack` the tuple the model's `packArgs` gives, on every object the constructor builds. -/
theorem raw_10x_eq (vs : List Int) (hr : InRange .f10x vs) :
    Agrees2 (post .f10x vs) (init_10x vs) get_raw_10x (fun x => packArgs x) := by
  simp only [InRange, Opcodes.unpackFmt] at hr
  match vs, hr with
  | [v0, v1], hr =>
    simp only [InRangeL, SC.inRange, Bool.and_eq_true, decide_eq_true_eq] at hr
    by_cases hp : v1 = 0 <;>
      simp (disch := omega) [Agrees2, post, init_10x, get_raw_10x, hp, packArgs, refOff, refKind, literals, m0, m1, m2, m3, m4, m5, m7, m8, List.lookup, band_FF, band_0F, shl_eq, shr_eq, bor_add_16, bor_add_256, bor_add_4096] <;> try omega

/-- `Instruction21h.get_raw` as translated from the source, applied to the attributes the translated constructor
    sets, passes to `pack` the tuple the model's `packArgs` gives, on every object the constructor builds. -/
theorem raw_21h_eq (vs : List Int) (hr : InRange .f21h vs) :
    Agrees2 (post .f21h vs) (init_21h vs) get_raw_21h (fun x => packArgs x) := by
  simp only [InRange, Opcodes.unpackFmt] at hr
  match vs, hr with
  | [v0, v1, v2], hr =>
    simp only [InRangeL, SC.inRange, Bool.and_eq_true, decide_eq_true_eq] at hr
    by_cases h21 : v0 = 21 <;> by_cases h25 : v0 = 25 <;>
      simp (disch := omega) [Agrees2, post, init_21h, get_raw_21h, h21, h25, packArgs, refOff, refKind, literals, m0, m1, m2, m3, m4, m5, m7, m8, List.lookup, band_FF, band_0F, shl_eq, shr_eq, bor_add_16, bor_add_256, bor_add_4096] <;> try omega

/-- `Instruction11n.get_raw` as translated from the source, applied to the attributes the translated constructor
    sets, passes to `pack` the tuple the model's `packArgs` gives, on every object the constructor builds. -/
theorem raw_11n_eq (vs : List Int) (hr : InRange .f11n vs) :
    Agrees2 (post .f11n vs) (init_11n vs) get_raw_11n (fun x => packArgs x) := by
  simp only [InRange, Opcodes.unpackFmt] at hr
  match vs, hr with
  | [v0, v1], hr =>
    simp only [InRangeL, SC.inRange, Bool.and_eq_true, decide_eq_true_eq] at hr
    simp (disch := omega) [Agrees2, post, init_11n, get_raw_11n, packArgs, refOff, refKind, literals, m0, m1, m2, m3, m4, m5, m7, m8, List.lookup, band_FF, band_0F, shl_eq, shr_eq, bor_add_16, bor_add_256, bor_add_4096]
    try omega

/-- `Instruction21c.get_raw` as translated from the source, applied to the attributes the translated constructor
    sets, passes to `pack` the tuple the model's `packArgs` gives, on every object the constructor builds. -/
theorem raw_21c_eq (vs : List Int) (hr : InRange .f21c vs) :
    Agrees2 (post .f21c vs) (init_21c vs) get_raw_21c (fun x => packArgs x) := by
  simp only [InRange, Opcodes.unpackFmt] at hr
  match vs, hr with
  | [v0, v1, v2], hr =>
    simp only [InRangeL, SC.inRange, Bool.and_eq_true, decide_eq_true_eq] at hr
    simp (disch := omega) [Agrees2, post, init_21c, get_raw_21c, packArgs, refOff, refKind, literals, m0, m1, m2, m3, m4, m5, m7, m8, List.lookup, band_FF, band_0F, shl_eq, shr_eq, bor_add_16, bor_add_256, bor_add_4096]
    try omega

/-- `Instruction21s.get_raw` as translated from the source, applied to the attributes the translated constructor
    sets, passes to `pack` the tuple the model's `packArgs` gives, on every object the constructor builds. -/
theorem raw_21s_eq (vs : List Int) (hr : InRange .f21s vs) :
    Agrees2 (post .f21s vs) (init_21s vs) get_raw_21s (fun x => packArgs x) := by
  simp only [InRange, Opcodes.unpackFmt] at hr
  match vs, hr with
  | [v0, v1, v2], hr =>
    simp only [InRangeL, SC.inRange, Bool.and_eq_true, decide_eq_true_eq] at hr
    simp (disch := omega) [Agrees2, post, init_21s, get_raw_21s, packArgs, refOff, refKind, literals, m0, m1, m2, m3, m4, m5, m7, m8, List.lookup, band_FF, band_0F, shl_eq, shr_eq, bor_add_16, bor_add_256, bor_add_4096]
    try omega

/-- `Instruction22c.get_raw` as translated from the source, applied to the attributes the translated constructor
    sets, passes to `pack` the tuple the model's `packArgs` gives, on every object the constructor builds. -/
theorem raw_22c_eq (vs : List Int) (hr : InRange .f22c vs) :
    Agrees2 (post .f22c vs) (init_22c vs) get_raw_22c (fun x => packArgs x) := by
  simp only [InRange, Opcodes.unpackFmt] at hr
  match vs, hr with
  | [v0, v1], hr =>
    simp only [InRangeL, SC.inRange, Bool.and_eq_true, decide_eq_true_eq] at hr
    simp (disch := omega) [Agrees2, post, init_22c, get_raw_22c, packArgs, refOff, refKind, literals, m0, m1, m2, m3, m4, m5, m7, m8, List.lookup, band_FF, band_0F, shl_eq, shr_eq, bor_add_16, bor_add_256, bor_add_4096]
    try omega

/-- `Instruction22cs.get_raw` as translated from the source, applied to the attributes the translated constructor
    sets, passes to `pack` the tuple the model's `packArgs` gives, on every object the constructor builds. -/
theorem raw_22cs_eq (vs : List Int) (hr : InRange .f22cs vs) :
    Agrees2 (post .f22cs vs) (init_22cs vs) get_raw_22cs (fun x => packArgs x) := by
  simp only [InRange, Opcodes.unpackFmt] at hr
  match vs, hr with
  | [v0, v1], hr =>
    simp only [InRangeL, SC.inRange, Bool.and_eq_true, decide_eq_true_eq] at hr
    simp (disch := omega) [Agrees2, post, init_22cs, get_raw_22cs, packArgs, refOff, refKind, literals, m0, m1, m2, m3, m4, m5, m7, m8, List.lookup, band_FF, band_0F, shl_eq, shr_eq, bor_add_16, bor_add_256, bor_add_4096]
    try omega

/-- `Instruction31t.get_raw` as translated from the source, applied to the attributes the translated constructor
    sets, passes to `pack` the tuple the model's `packArgs` gives, on every object the constructor builds. -/
theorem raw_31t_eq (vs : List Int) (hr : InRange .f31t vs) :
    Agrees2 (post .f31t vs) (init_31t vs) get_raw_31t (fun x => packArgs x) := by
  simp only [InRange, Opcodes.unpackFmt] at hr
  match vs, hr with
  | [v0, v1, v2], hr =>
    simp only [InRangeL, SC.inRange, Bool.and_eq_true, decide_eq_true_eq] at hr
    simp (disch := omega) [Agrees2, post, init_31t, get_raw_31t, packArgs, refOff, refKind, literals, m0, m1, m2, m3, m4, m5, m7, m8, List.lookup, band_FF, band_0F, shl_eq, shr_eq, bor_add_16, bor_add_256, bor_add_4096]
    try omega

/-- `Instruction31c.get_raw` as translated from the source, applied to the attributes the translated constructor
    sets, passes to `pack` the tuple the model's `packArgs` gives, on every object the constructor builds. -/
theorem raw_31c_eq (vs : List Int) (hr : InRange .f31c vs) :
    Agrees2 (post .f31c vs) (init_31c vs) get_raw_31c (fun x => packArgs x) := by
  simp only [InRange, Opcodes.unpackFmt] at hr
  match vs, hr with
  | [v0, v1, v2], hr =>
    simp only [InRangeL, SC.inRange, Bool.and_eq_true, decide_eq_true_eq] at hr
    simp (disch := omega) [Agrees2, post, init_31c, get_raw_31c, packArgs, refOff, refKind, literals, m0, m1, m2, m3, m4, m5, m7, m8, List.lookup, band_FF, band_0F, shl_eq, shr_eq, bor_add_16, bor_add_256, bor_add_4096]
    try omega

/-- `Instruction12x.get_raw` as translated from the source, applied to the attributes the translated constructor
    sets, passes to `pack` the tuple the model's `packArgs` gives, on every object the constructor builds. -/
theorem raw_12x_eq (vs : List Int) (hr : InRange .f12x vs) :
    Agrees2 (post .f12x vs) (init_12x vs) get_raw_12x (fun x => packArgs x) := by
  simp only [InRange, Opcodes.unpackFmt] at hr
  match vs, hr with
  | [v0], hr =>
    simp only [InRangeL, SC.inRange, Bool.and_eq_true, decide_eq_true_eq] at hr
    simp (disch := omega) [Agrees2, post, init_12x, get_raw_12x, packArgs, refOff, refKind, literals, m0, m1, m2, m3, m4, m5, m7, m8, List.lookup, band_FF, band_0F, shl_eq, shr_eq, bor_add_16, bor_add_256, bor_add_4096]
    try omega

/-- `Instruction11x.get_raw` as translated from the source, applied to the attributes the translated constructor
    sets, passes to `pack` the tuple the model's `packArgs` gives, on every object the constructor builds. -/
theorem raw_11x_eq (vs : List Int) (hr : InRange .f11x vs) :
    Agrees2 (post .f11x vs) (init_11x vs) get_raw_11x (fun x => packArgs x) := by
  simp only [InRange, Opcodes.unpackFmt] at hr
  match vs, hr with
  | [v0, v1], hr =>
    simp only [InRangeL, SC.inRange, Bool.and_eq_true, decide_eq_true_eq] at hr
    simp (disch := omega) [Agrees2, post, init_11x, get_raw_11x, packArgs, refOff, refKind, literals, m0, m1, m2, m3, m4, m5, m7, m8, List.lookup, band_FF, band_0F, shl_eq, shr_eq, bor_add_16, bor_add_256, bor_add_4096]
    try omega

/-- `Instruction51l.get_raw` as translated from the source, applied to the attributes the translated constructor
    sets, passes to `pack` the tuple the model's `packArgs` gives, on every object the constructor builds. -/
theorem raw_51l_eq (vs : List Int) (hr : InRange .f51l vs) :
    Agrees2 (post .f51l vs) (init_51l vs) get_raw_51l (fun x => packArgs x) := by
  simp only [InRange, Opcodes.unpackFmt] at hr
  match vs, hr with
  | [v0, v1, v2], hr =>
    simp only [InRangeL, SC.inRange, Bool.and_eq_true, decide_eq_true_eq] at hr
    simp (disch := omega) [Agrees2, post, init_51l, get_raw_51l, packArgs, refOff, refKind, literals, m0, m1, m2, m3, m4, m5, m7, m8, List.lookup, band_FF, band_0F, shl_eq, shr_eq, bor_add_16, bor_add_256, bor_add_4096]
    try omega

/-- `Instruction31i.get_raw` as translated from the source, applied to the attributes the translated constructor
    sets, passes to `pack` the tuple the model's `packArgs` gives, on every object the constructor builds. -/
theorem raw_31i_eq (vs : List Int) (hr : InRange .f31i vs) :
    Agrees2 (post .f31i vs) (init_31i vs) get_raw_31i (fun x => packArgs x) := by
  simp only [InRange, Opcodes.unpackFmt] at hr
  match vs, hr with
  | [v0, v1, v2], hr =>
    simp only [InRangeL, SC.inRange, Bool.and_eq_true, decide_eq_true_eq] at hr
    simp (disch := omega) [Agrees2, post, init_31i, get_raw_31i, packArgs, refOff, refKind, literals, m0, m1, m2, m3, m4, m5, m7, m8, List.lookup, band_FF, band_0F, shl_eq, shr_eq, bor_add_16, bor_add_256, bor_add_4096]
    try omega

/-- `Instruction22x.get_raw` as translated from the source, applied to the attributes the translated constructor
    sets, passes to `pack` the tuple the model's `packArgs` gives, on every object the constructor builds. -/
theorem raw_22x_eq (vs : List Int) (hr : InRange .f22x vs) :
    Agrees2 (post .f22x vs) (init_22x vs) get_raw_22x (fun x => packArgs x) := by
  simp only [InRange, Opcodes.unpackFmt] at hr
  match vs, hr with
  | [v0, v1, v2], hr =>
    simp only [InRangeL, SC.inRange, Bool.and_eq_true, decide_eq_true_eq] at hr
    simp (disch := omega) [Agrees2, post, init_22x, get_raw_22x, packArgs, refOff, refKind, literals, m0, m1, m2, m3, m4, m5, m7, m8, List.lookup, band_FF, band_0F, shl_eq, shr_eq, bor_add_16, bor_add_256, bor_add_4096]
    try omega

/-- `Instruction23x.get_raw` as translated from the source, applied to the attributes the translated constructor
    sets, passes to `pack` the tuple the model's `packArgs` gives, on every object the constructor builds. -/
theorem raw_23x_eq (vs : List Int) (hr : InRange .f23x vs) :
    Agrees2 (post .f23x vs) (init_23x vs) get_raw_23x (fun x => packArgs x) := by
  simp only [InRange, Opcodes.unpackFmt] at hr
  match vs, hr with
  | [v0, v1, v2, v3], hr =>
    simp only [InRangeL, SC.inRange, Bool.and_eq_true, decide_eq_true_eq] at hr
    simp (disch := omega) [Agrees2, post, init_23x, get_raw_23x, packArgs, refOff, refKind, literals, m0, m1, m2, m3, m4, m5, m7, m8, List.lookup, band_FF, band_0F, shl_eq, shr_eq, bor_add_16, bor_add_256, bor_add_4096]
    try omega

/-- `Instruction20t.get_raw` as translated from the source, applied to the attributes the translated constructor
    sets, passes to `pack` the tuple the model's `packArgs` gives, on every object the constructor builds. -/
theorem raw_20t_eq (vs : List Int) (hr : InRange .f20t vs) :
    Agrees2 (post .f20t vs) (init_20t vs) get_raw_20t (fun x => packArgs x) := by
  simp only [InRange, Opcodes.unpackFmt] at hr
  match vs, hr with
  | [v0, v1, v2], hr =>
    simp only [InRangeL, SC.inRange, Bool.and_eq_true, decide_eq_true_eq] at hr
    by_cases hp : v1 = 0 <;>
      simp (disch := omega) [Agrees2, post, init_20t, get_raw_20t, hp, packArgs, refOff, refKind, literals, m0, m1, m2, m3, m4, m5, m7, m8, List.lookup, band_FF, band_0F, shl_eq, shr_eq, bor_add_16, bor_add_256, bor_add_4096] <;> try omega

/-- `Instruction21t.get_raw` as translated from the source, applied to the attributes the translated constructor
    sets, passes to `pack` the tuple the model's `packArgs` gives, on every object the constructor builds. -/
theorem raw_21t_eq (vs : List Int) (hr : InRange .f21t vs) :
    Agrees2 (post .f21t vs) (init_21t vs) get_raw_21t (fun x => packArgs x) := by
  simp only [InRange, Opcodes.unpackFmt] at hr
  match vs, hr with
  | [v0, v1, v2], hr =>
    simp only [InRangeL, SC.inRange, Bool.and_eq_true, decide_eq_true_eq] at hr
    simp (disch := omega) [Agrees2, post, init_21t, get_raw_21t, packArgs, refOff, refKind, literals, m0, m1, m2, m3, m4, m5, m7, m8, List.lookup, band_FF, band_0F, shl_eq, shr_eq, bor_add_16, bor_add_256, bor_add_4096]
    try omega

/-- `Instruction10t.get_raw` as translated from the source, applied to the attributes the translated constructor
    sets, passes to `pack` the tuple the model's `packArgs` gives, on every object the constructor builds. -/
theorem raw_10t_eq (vs : List Int) (hr : InRange .f10t vs) :
    Agrees2 (post .f10t vs) (init_10t vs) get_raw_10t (fun x => packArgs x) := by
  simp only [InRange, Opcodes.unpackFmt] at hr
  match vs, hr with
  | [v0, v1], hr =>
    simp only [InRangeL, SC.inRange, Bool.and_eq_true, decide_eq_true_eq] at hr
    simp (disch := omega) [Agrees2, post, init_10t, get_raw_10t, packArgs, refOff, refKind, literals, m0, m1, m2, m3, m4, m5, m7, m8, List.lookup, band_FF, band_0F, shl_eq, shr_eq, bor_add_16, bor_add_256, bor_add_4096]
    try omega

/-- `Instruction22t.get_raw` as translated from the source, applied to the attributes the translated constructor
    sets, passes to `pack` the tuple the model's `packArgs` gives, on every object the constructor builds. -/
theorem raw_22t_eq (vs : List Int) (hr : InRange .f22t vs) :
    Agrees2 (post .f22t vs) (init_22t vs) get_raw_22t (fun x => packArgs x) := by
  simp only [InRange, Opcodes.unpackFmt] at hr
  match vs, hr with
  | [v0, v1], hr =>
    simp only [InRangeL, SC.inRange, Bool.and_eq_true, decide_eq_true_eq] at hr
    simp (disch := omega) [Agrees2, post, init_22t, get_raw_22t, packArgs, refOff, refKind, literals, m0, m1, m2, m3, m4, m5, m7, m8, List.lookup, band_FF, band_0F, shl_eq, shr_eq, bor_add_16, bor_add_256, bor_add_4096]
    try omega

/-- `Instruction22s.get_raw` as translated from the source, applied to the attributes the translated constructor
    sets, passes to `pack` the tuple the model's `packArgs` gives, on every object the constructor builds. -/
theorem raw_22s_eq (vs : List Int) (hr : InRange .f22s vs) :
    Agrees2 (post .f22s vs) (init_22s vs) get_raw_22s (fun x => packArgs x) := by
  simp only [InRange, Opcodes.unpackFmt] at hr
  match vs, hr with
  | [v0, v1], hr =>
    simp only [InRangeL, SC.inRange, Bool.and_eq_true, decide_eq_true_eq] at hr
    simp (disch := omega) [Agrees2, post, init_22s, get_raw_22s, packArgs, refOff, refKind, literals, m0, m1, m2, m3, m4, m5, m7, m8, List.lookup, band_FF, band_0F, shl_eq, shr_eq, bor_add_16, bor_add_256, bor_add_4096]
    try omega

/-- `Instruction22b.get_raw` as translated from the source, applied to the attributes the translated constructor
    sets, passes to `pack` the tuple the model's `packArgs` gives, on every object the constructor builds. -/
theorem raw_22b_eq (vs : List Int) (hr : InRange .f22b vs) :
    Agrees2 (post .f22b vs) (init_22b vs) get_raw_22b (fun x => packArgs x) := by
  simp only [InRange, Opcodes.unpackFmt] at hr
  match vs, hr with
  | [v0, v1, v2, v3], hr =>
    simp only [InRangeL, SC.inRange, Bool.and_eq_true, decide_eq_true_eq] at hr
    simp (disch := omega) [Agrees2, post, init_22b, get_raw_22b, packArgs, refOff, refKind, literals, m0, m1, m2, m3, m4, m5, m7, m8, List.lookup, band_FF, band_0F, shl_eq, shr_eq, bor_add_16, bor_add_256, bor_add_4096]
    try omega

/-- `Instruction30t.get_raw` as translated from the source, applied to the attributes the translated constructor
    sets, passes to `pack` the tuple the model's `packArgs` gives, on every object the constructor builds. -/
theorem raw_30t_eq (vs : List Int) (hr : InRange .f30t vs) :
    Agrees2 (post .f30t vs) (init_30t vs) get_raw_30t (fun x => packArgs x) := by
  simp only [InRange, Opcodes.unpackFmt] at hr
  match vs, hr with
  | [v0, v1, v2], hr =>
    simp only [InRangeL, SC.inRange, Bool.and_eq_true, decide_eq_true_eq] at hr
    by_cases hp : v1 = 0 <;>
      simp (disch := omega) [Agrees2, post, init_30t, get_raw_30t, hp, packArgs, refOff, refKind, literals, m0, m1, m2, m3, m4, m5, m7, m8, List.lookup, band_FF, band_0F, shl_eq, shr_eq, bor_add_16, bor_add_256, bor_add_4096] <;> try omega

/-- `Instruction3rc.get_raw` as translated from the source, applied to the attributes the translated constructor
    sets, passes to `pack` the tuple the model's `packArgs` gives, on every object the constructor builds. -/
theorem raw_3rc_eq (vs : List Int) (hr : InRange .f3rc vs) :
    Agrees2 (post .f3rc vs) (init_3rc vs) get_raw_3rc (fun x => packArgs x) := by
  simp only [InRange, Opcodes.unpackFmt] at hr
  match vs, hr with
  | [v0, v1, v2, v3], hr =>
    simp only [InRangeL, SC.inRange, Bool.and_eq_true, decide_eq_true_eq] at hr
    simp (disch := omega) [Agrees2, post, init_3rc, get_raw_3rc, packArgs, refOff, refKind, literals, m0, m1, m2, m3, m4, m5, m7, m8, List.lookup, band_FF, band_0F, shl_eq, shr_eq, bor_add_16, bor_add_256, bor_add_4096]
    try omega

/-- `Instruction32x.get_raw` as translated from the source, applied to the attributes the translated constructor
    sets, passes to `pack` the tuple the model's `packArgs` gives, on every object the constructor builds. -/
theorem raw_32x_eq (vs : List Int) (hr : InRange .f32x vs) :
    Agrees2 (post .f32x vs) (init_32x vs) get_raw_32x (fun x => packArgs x) := by
  simp only [InRange, Opcodes.unpackFmt] at hr
  match vs, hr with
  | [v0, v1, v2, v3], hr =>
    simp only [InRangeL, SC.inRange, Bool.and_eq_true, decide_eq_true_eq] at hr
    by_cases hp : v1 = 0 <;>
      simp (disch := omega) [Agrees2, post, init_32x, get_raw_32x, hp, packArgs, refOff, refKind, literals, m0, m1, m2, m3, m4, m5, m7, m8, List.lookup, band_FF, band_0F, shl_eq, shr_eq, bor_add_16, bor_add_256, bor_add_4096] <;> try omega

/-- `Instruction20bc.get_raw` as translated from the source, applied to the attributes the translated constructor
    sets, passes to `pack` the tuple the model's `packArgs` gives, on every object the constructor builds. -/
theorem raw_20bc_eq (vs : List Int) (hr : InRange .f20bc vs) :
    Agrees2 (post .f20bc vs) (init_20bc vs) get_raw_20bc (fun x => packArgs x) := by
  simp only [InRange, Opcodes.unpackFmt] at hr
  match vs, hr with
  | [v0, v1, v2], hr =>
    simp only [InRangeL, SC.inRange, Bool.and_eq_true, decide_eq_true_eq] at hr
    simp (disch := omega) [Agrees2, post, init_20bc, get_raw_20bc, packArgs, refOff, refKind, literals, m0, m1, m2, m3, m4, m5, m7, m8, List.lookup, band_FF, band_0F, shl_eq, shr_eq, bor_add_16, bor_add_256, bor_add_4096]
    try omega

/-- `Instruction35mi.get_raw` as translated from the source, applied to the attributes the translated constructor
    sets, passes to `pack` the tuple the model's `packArgs` gives, on every object the constructor builds. -/
theorem raw_35mi_eq (vs : List Int) (hr : InRange .f35mi vs) :
    Agrees2 (post .f35mi vs) (init_35mi vs) get_raw_35mi (fun x => packArgs x) := by
  simp only [InRange, Opcodes.unpackFmt] at hr
  match vs, hr with
  | [v0, v1, v2], hr =>
    simp only [InRangeL, SC.inRange, Bool.and_eq_true, decide_eq_true_eq] at hr
    simp (disch := omega) [Agrees2, post, init_35mi, get_raw_35mi, packArgs, refOff, refKind, literals, m0, m1, m2, m3, m4, m5, m7, m8, List.lookup, band_FF, band_0F, shl_eq, shr_eq, bor_add_16, bor_add_256, bor_add_4096]
    try omega

/-- `Instruction35ms.get_raw` as translated from the source, applied to the attributes the translated constructor
    sets, passes to `pack` the tuple the model's `packArgs` gives, on every object the constructor builds. -/
theorem raw_35ms_eq (vs : List Int) (hr : InRange .f35ms vs) :
    Agrees2 (post .f35ms vs) (init_35ms vs) get_raw_35ms (fun x => packArgs x) := by
  simp only [InRange, Opcodes.unpackFmt] at hr
  match vs, hr with
  | [v0, v1, v2], hr =>
    simp only [InRangeL, SC.inRange, Bool.and_eq_true, decide_eq_true_eq] at hr
    simp (disch := omega) [Agrees2, post, init_35ms, get_raw_35ms, packArgs, refOff, refKind, literals, m0, m1, m2, m3, m4, m5, m7, m8, List.lookup, band_FF, band_0F, shl_eq, shr_eq, bor_add_16, bor_add_256, bor_add_4096]
    try omega

/-- `Instruction3rmi.get_raw` as translated from the source, applied to the attributes the translated constructor
    sets, passes to `pack` the tuple the model's `packArgs` gives, on every object the constructor builds. -/
theorem raw_3rmi_eq (vs : List Int) (hr : InRange .f3rmi vs) :
    Agrees2 (post .f3rmi vs) (init_3rmi vs) get_raw_3rmi (fun x => packArgs x) := by
  simp only [InRange, Opcodes.unpackFmt] at hr
  match vs, hr with
  | [v0, v1, v2, v3], hr =>
    simp only [InRangeL, SC.inRange, Bool.and_eq_true, decide_eq_true_eq] at hr
    simp (disch := omega) [Agrees2, post, init_3rmi, get_raw_3rmi, packArgs, refOff, refKind, literals, m0, m1, m2, m3, m4, m5, m7, m8, List.lookup, band_FF, band_0F, shl_eq, shr_eq, bor_add_16, bor_add_256, bor_add_4096]
    try omega

/-- `Instruction3rms.get_raw` as translated from the source, applied to the attributes the translated constructor
    sets, passes to `pack` the tuple the model's `packArgs` gives, on every object the constructor builds. -/
theorem raw_3rms_eq (vs : List Int) (hr : InRange .f3rms vs) :
    Agrees2 (post .f3rms vs) (init_3rms vs) get_raw_3rms (fun x => packArgs x) := by
  simp only [InRange, Opcodes.unpackFmt] at hr
  match vs, hr with
  | [v0, v1, v2, v3], hr =>
    simp only [InRangeL, SC.inRange, Bool.and_eq_true, decide_eq_true_eq] at hr
    simp (disch := omega) [Agrees2, post, init_3rms, get_raw_3rms, packArgs, refOff, refKind, literals, m0, m1, m2, m3, m4, m5, m7, m8, List.lookup, band_FF, band_0F, shl_eq, shr_eq, bor_add_16, bor_add_256, bor_add_4096]
    try omega

/-- `Instruction41c.get_raw` as translated from the source, applied to the attributes the translated constructor
    sets, passes to `pack` the tuple the model's `packArgs` gives, on every object the constructor builds. -/
theorem raw_41c_eq (vs : List Int) (hr : InRange .f41c vs) :
    Agrees2 (post .f41c vs) (init_41c vs) get_raw_41c (fun x => packArgs x) := by
  simp only [InRange, Opcodes.unpackFmt] at hr
  match vs, hr with
  | [v0, v1, v2], hr =>
    simp only [InRangeL, SC.inRange, Bool.and_eq_true, decide_eq_true_eq] at hr
    simp (disch := omega) [Agrees2, post, init_41c, get_raw_41c, packArgs, refOff, refKind, literals, m0, m1, m2, m3, m4, m5, m7, m8, List.lookup, band_FF, band_0F, shl_eq, shr_eq, bor_add_16, bor_add_256, bor_add_4096]
    try omega

/-- `Instruction40sc.get_raw` as translated from the source, applied to the attributes the translated constructor
    sets, passes to `pack` the tuple the model's `packArgs` gives, on every object the constructor builds. -/
theorem raw_40sc_eq (vs : List Int) (hr : InRange .f40sc vs) :
    Agrees2 (post .f40sc vs) (init_40sc vs) get_raw_40sc (fun x => packArgs x) := by
  simp only [InRange, Opcodes.unpackFmt] at hr
  match vs, hr with
  | [v0, v1, v2], hr =>
    simp only [InRangeL, SC.inRange, Bool.and_eq_true, decide_eq_true_eq] at hr
    simp (disch := omega) [Agrees2, post, init_40sc, get_raw_40sc, packArgs, refOff, refKind, literals, m0, m1, m2, m3, m4, m5, m7, m8, List.lookup, band_FF, band_0F, shl_eq, shr_eq, bor_add_16, bor_add_256, bor_add_4096]
    try omega

/-- `Instruction52c.get_raw` as translated from the source, applied to the attributes the translated constructor
    sets, passes to `pack` the tuple the model's `packArgs` gives, on every object the constructor builds. -/
theorem raw_52c_eq (vs : List Int) (hr : InRange .f52c vs) :
    Agrees2 (post .f52c vs) (init_52c vs) get_raw_52c (fun x => packArgs x) := by
  simp only [InRange, Opcodes.unpackFmt] at hr
  match vs, hr with
  | [v0, v1, v2, v3], hr =>
    simp only [InRangeL, SC.inRange, Bool.and_eq_true, decide_eq_true_eq] at hr
    simp (disch := omega) [Agrees2, post, init_52c, get_raw_52c, packArgs, refOff, refKind, literals, m0, m1, m2, m3, m4, m5, m7, m8, List.lookup, band_FF, band_0F, shl_eq, shr_eq, bor_add_16, bor_add_256, bor_add_4096]
    try omega

/-- `Instruction5rc.get_raw` as translated from the source, applied to the attributes the translated constructor
    sets, passes to `pack` the tuple the model's `packArgs` gives, on every object the constructor builds. -/
theorem raw_5rc_eq (vs : List Int) (hr : InRange .f5rc vs) :
    Agrees2 (post .f5rc vs) (init_5rc vs) get_raw_5rc (fun x => packArgs x) := by
  simp only [InRange, Opcodes.unpackFmt] at hr
  match vs, hr with
  | [v0, v1, v2, v3], hr =>
    simp only [InRangeL, SC.inRange, Bool.and_eq_true, decide_eq_true_eq] at hr
    simp (disch := omega) [Agrees2, post, init_5rc, get_raw_5rc, packArgs, refOff, refKind, literals, m0, m1, m2, m3, m4, m5, m7, m8, List.lookup, band_FF, band_0F, shl_eq, shr_eq, bor_add_16, bor_add_256, bor_add_4096]
    try omega

/-- `Instruction45cc.get_raw` as translated from the source, applied to the attributes the translated constructor
    sets, passes to `pack` the tuple the model's `packArgs` gives, on every object the constructor builds. -/
theorem raw_45cc_eq (vs : List Int) (hr : InRange .f45cc vs) :
    Agrees2 (post .f45cc vs) (init_45cc vs) get_raw_45cc (fun x => packArgs x) := by
  simp only [InRange, Opcodes.unpackFmt] at hr
  match vs, hr with
  | [v0, v1, v2, v3, v4], hr =>
    simp only [InRangeL, SC.inRange, Bool.and_eq_true, decide_eq_true_eq] at hr
    have e1 : band v1 240 / 16 = v1 / 16 % 16 := by simpa [shr_eq] using band_F0_shr v1 hr.2.1.1
    have e2 : band v3 240 / 16 = v3 / 16 % 16 := by simpa [shr_eq] using band_F0_shr v3 hr.2.2.2.1.1
    have e3 : band v3 3840 / 256 = v3 / 256 % 16 := by simpa [shr_eq] using band_F00_shr v3 hr.2.2.2.1.1
    have e4 : band v3 61440 / 4096 = v3 / 4096 % 16 := by simpa [shr_eq] using band_F000_shr v3 hr.2.2.2.1.1
    by_cases hp : 5 < v1 / 16 % 16 <;>
      simp (disch := omega) [Agrees2, post, init_45cc, get_raw_45cc, hp, packArgs, refOff, refKind, literals, m0, m1, m2, m3, m4, m5, m7, m8, List.lookup, band_FF, band_0F, shl_eq, shr_eq, bor_add_16, bor_add_256, bor_add_4096, e1, e2, e3, e4] <;> try omega

/-- `Instruction4rcc.get_raw` as translated from the source, applied to the attributes the translated constructor
    sets, passes to `pack` the tuple the model's `packArgs` gives, on every object the constructor builds. -/
theorem raw_4rcc_eq (vs : List Int) (hr : InRange .f4rcc vs) :
    Agrees2 (post .f4rcc vs) (init_4rcc vs) get_raw_4rcc (fun x => packArgs x) := by
  simp only [InRange, Opcodes.unpackFmt] at hr
  match vs, hr with
  | [v0, v1, v2, v3, v4], hr =>
    simp only [InRangeL, SC.inRange, Bool.and_eq_true, decide_eq_true_eq] at hr
    simp (disch := omega) [Agrees2, post, init_4rcc, get_raw_4rcc, packArgs, refOff, refKind, literals, m0, m1, m2, m3, m4, m5, m7, m8, List.lookup, band_FF, band_0F, shl_eq, shr_eq, bor_add_16, bor_add_256, bor_add_4096]
    try omega

/-! ### the struct string of every translated `get_raw` is the generated one -/

def packTable : List (Fmt × String) :=
  [(.f35c, get_raw_35c_pack),
   (.f10x, get_raw_10x_pack),
   (.f21h, get_raw_21h_pack),
   (.f11n, get_raw_11n_pack),
   (.f21c, get_raw_21c_pack),
   (.f21s, get_raw_21s_pack),
   (.f22c, get_raw_22c_pack),
   (.f22cs, get_raw_22cs_pack),
   (.f31t, get_raw_31t_pack),
   (.f31c, get_raw_31c_pack),
   (.f12x, get_raw_12x_pack),
   (.f11x, get_raw_11x_pack),
   (.f51l, get_raw_51l_pack),
   (.f31i, get_raw_31i_pack),
   (.f22x, get_raw_22x_pack),
   (.f23x, get_raw_23x_pack),
   (.f20t, get_raw_20t_pack),
   (.f21t, get_raw_21t_pack),
   (.f10t, get_raw_10t_pack),
   (.f22t, get_raw_22t_pack),
   (.f22s, get_raw_22s_pack),
   (.f22b, get_raw_22b_pack),
   (.f30t, get_raw_30t_pack),
   (.f3rc, get_raw_3rc_pack),
   (.f32x, get_raw_32x_pack),
   (.f20bc, get_raw_20bc_pack),
   (.f35mi, get_raw_35mi_pack),
   (.f35ms, get_raw_35ms_pack),
   (.f3rmi, get_raw_3rmi_pack),
   (.f3rms, get_raw_3rms_pack),
   (.f41c, get_raw_41c_pack),
   (.f40sc, get_raw_40sc_pack),
   (.f52c, get_raw_52c_pack),
   (.f5rc, get_raw_5rc_pack),
   (.f45cc, get_raw_45cc_pack),
   (.f4rcc, get_raw_4rcc_pack)]

theorem pack_formats_agree :
    packTable.all (fun (f, u) => parseFmt u.toList none == some (Opcodes.packFmt f)) = true := by
  decide +kernel

example : packTable.length = 36 := by decide

/-- All 36 `get_raw` methods at once. -/
theorem source_get_raw_agree :
    (∀ vs, InRange .f35c vs → Agrees2 (post .f35c vs) (init_35c vs) get_raw_35c (fun x => packArgs x)) ∧
    (∀ vs, InRange .f10x vs → Agrees2 (post .f10x vs) (init_10x vs) get_raw_10x (fun x => packArgs x)) ∧
    (∀ vs, InRange .f21h vs → Agrees2 (post .f21h vs) (init_21h vs) get_raw_21h (fun x => packArgs x)) ∧
    (∀ vs, InRange .f11n vs → Agrees2 (post .f11n vs) (init_11n vs) get_raw_11n (fun x => packArgs x)) ∧
    (∀ vs, InRange .f21c vs → Agrees2 (post .f21c vs) (init_21c vs) get_raw_21c (fun x => packArgs x)) ∧
    (∀ vs, InRange .f21s vs → Agrees2 (post .f21s vs) (init_21s vs) get_raw_21s (fun x => packArgs x)) ∧
    (∀ vs, InRange .f22c vs → Agrees2 (post .f22c vs) (init_22c vs) get_raw_22c (fun x => packArgs x)) ∧
    (∀ vs, InRange .f22cs vs → Agrees2 (post .f22cs vs) (init_22cs vs) get_raw_22cs (fun x => packArgs x)) ∧
    (∀ vs, InRange .f31t vs → Agrees2 (post .f31t vs) (init_31t vs) get_raw_31t (fun x => packArgs x)) ∧
    (∀ vs, InRange .f31c vs → Agrees2 (post .f31c vs) (init_31c vs) get_raw_31c (fun x => packArgs x)) ∧
    (∀ vs, InRange .f12x vs → Agrees2 (post .f12x vs) (init_12x vs) get_raw_12x (fun x => packArgs x)) ∧
    (∀ vs, InRange .f11x vs → Agrees2 (post .f11x vs) (init_11x vs) get_raw_11x (fun x => packArgs x)) ∧
    (∀ vs, InRange .f51l vs → Agrees2 (post .f51l vs) (init_51l vs) get_raw_51l (fun x => packArgs x)) ∧
    (∀ vs, InRange .f31i vs → Agrees2 (post .f31i vs) (init_31i vs) get_raw_31i (fun x => packArgs x)) ∧
    (∀ vs, InRange .f22x vs → Agrees2 (post .f22x vs) (init_22x vs) get_raw_22x (fun x => packArgs x)) ∧
    (∀ vs, InRange .f23x vs → Agrees2 (post .f23x vs) (init_23x vs) get_raw_23x (fun x => packArgs x)) ∧
    (∀ vs, InRange .f20t vs → Agrees2 (post .f20t vs) (init_20t vs) get_raw_20t (fun x => packArgs x)) ∧
    (∀ vs, InRange .f21t vs → Agrees2 (post .f21t vs) (init_21t vs) get_raw_21t (fun x => packArgs x)) ∧
    (∀ vs, InRange .f10t vs → Agrees2 (post .f10t vs) (init_10t vs) get_raw_10t (fun x => packArgs x)) ∧
    (∀ vs, InRange .f22t vs → Agrees2 (post .f22t vs) (init_22t vs) get_raw_22t (fun x => packArgs x)) ∧
    (∀ vs, InRange .f22s vs → Agrees2 (post .f22s vs) (init_22s vs) get_raw_22s (fun x => packArgs x)) ∧
    (∀ vs, InRange .f22b vs → Agrees2 (post .f22b vs) (init_22b vs) get_raw_22b (fun x => packArgs x)) ∧
    (∀ vs, InRange .f30t vs → Agrees2 (post .f30t vs) (init_30t vs) get_raw_30t (fun x => packArgs x)) ∧
    (∀ vs, InRange .f3rc vs → Agrees2 (post .f3rc vs) (init_3rc vs) get_raw_3rc (fun x => packArgs x)) ∧
    (∀ vs, InRange .f32x vs → Agrees2 (post .f32x vs) (init_32x vs) get_raw_32x (fun x => packArgs x)) ∧
    (∀ vs, InRange .f20bc vs → Agrees2 (post .f20bc vs) (init_20bc vs) get_raw_20bc (fun x => packArgs x)) ∧
    (∀ vs, InRange .f35mi vs → Agrees2 (post .f35mi vs) (init_35mi vs) get_raw_35mi (fun x => packArgs x)) ∧
    (∀ vs, InRange .f35ms vs → Agrees2 (post .f35ms vs) (init_35ms vs) get_raw_35ms (fun x => packArgs x)) ∧
    (∀ vs, InRange .f3rmi vs → Agrees2 (post .f3rmi vs) (init_3rmi vs) get_raw_3rmi (fun x => packArgs x)) ∧
    (∀ vs, InRange .f3rms vs → Agrees2 (post .f3rms vs) (init_3rms vs) get_raw_3rms (fun x => packArgs x)) ∧
    (∀ vs, InRange .f41c vs → Agrees2 (post .f41c vs) (init_41c vs) get_raw_41c (fun x => packArgs x)) ∧
    (∀ vs, InRange .f40sc vs → Agrees2 (post .f40sc vs) (init_40sc vs) get_raw_40sc (fun x => packArgs x)) ∧
    (∀ vs, InRange .f52c vs → Agrees2 (post .f52c vs) (init_52c vs) get_raw_52c (fun x => packArgs x)) ∧
    (∀ vs, InRange .f5rc vs → Agrees2 (post .f5rc vs) (init_5rc vs) get_raw_5rc (fun x => packArgs x)) ∧
    (∀ vs, InRange .f45cc vs → Agrees2 (post .f45cc vs) (init_45cc vs) get_raw_45cc (fun x => packArgs x)) ∧
    (∀ vs, InRange .f4rcc vs → Agrees2 (post .f4rcc vs) (init_4rcc vs) get_raw_4rcc (fun x => packArgs x)) :=
  ⟨raw_35c_eq, raw_10x_eq, raw_21h_eq, raw_11n_eq, raw_21c_eq, raw_21s_eq, raw_22c_eq, raw_22cs_eq, raw_31t_eq, raw_31c_eq, raw_12x_eq, raw_11x_eq, raw_51l_eq, raw_31i_eq, raw_22x_eq, raw_23x_eq, raw_20t_eq, raw_21t_eq, raw_10t_eq, raw_22t_eq, raw_22s_eq, raw_22b_eq, raw_30t_eq, raw_3rc_eq, raw_32x_eq, raw_20bc_eq, raw_35mi_eq, raw_35ms_eq, raw_3rmi_eq, raw_3rms_eq, raw_41c_eq, raw_40sc_eq, raw_52c_eq, raw_5rc_eq, raw_45cc_eq, raw_4rcc_eq⟩

example : get_raw_22c [("CCCC", 7), ("OP", 0x52), ("A", 1), ("B", 2)] = some [0x2152, 7] := by decide
example : get_raw_11n [("OP", 0x12), ("A", 3), ("B", -1)] = some [-3310] := by decide
example : get_raw_11n [("OP", 0x12), ("A", 3)] = none := by decide

end AgVerif.PyInsn
