/-
C05, file level, extension by static values: tables → extended view, and the file-level theorem
`parseDexX file = ok (declaredX TX L)`.
-/
import AgVerif.Proof.DexXLoad
namespace AgVerif.C05
open AgVerif.DexFile AgVerif.LoadOrder AgVerif.DexX
open AgVerif.EncodedValue (Value embed toCM)

variable {file : Bytes} {L : Layout} {TX : TablesX}

theorem zip_map_same {α β γ} (f : α → β) (g : α → γ) : ∀ l : List α,
    (l.map f).zip (l.map g) = l.map fun x => (f x, g x)
  | [] => rfl
  | x :: xs => by simp only [List.map_cons, List.zip_cons_cons, zip_map_same f g xs]

theorem viewClassX_tables (hwf : WFX TX L) (e : MapEntry) (he : L.sec 0x0006 = some e) (c : ClassDef)
    (hc : c ∈ TX.base.classDefs) :
    viewClassX (tablesCMX TX L) (classR TX.base L c, classXOf TX L c) = .ok (classVX TX L c) := by
  have hv := viewClass_tables hwf.base c hc
  have hb : (tablesCMX TX L).base = tablesCM TX.base L := rfl
  have hi : (tablesCMX TX L).inits = TX.base.classDefs.filterMap (initOf TX L) := by
    simp [tablesCMX, he]
  have hd : (classR TX.base L c).data = classDataAt TX.base L c.dataOff := rfl
  have hraw : (classR TX.base L c).raw = c := rfl
  simp only [viewClassX, hb, hv, classAnnotations, classXOf, hi, hd, hraw, classVX]
  cases classDataAt TX.base L c.dataOff <;> rfl

theorem viewOfX_tables (henc : EncodesX file L TX) (hwf : WFX TX L) :
    viewOfX (tablesCMX TX L) = .ok (declaredX TX L) := by
  have hb : (tablesCMX TX L).base = tablesCM TX.base L := rfl
  have hv := viewOf_tables henc.base hwf.base
  unfold viewOfX
  rw [hb, hv]
  simp only
  cases hq : L.sec 0x0006 with
  | none =>
    have := List.eq_nil_of_length_eq_zero (henc.base.classDefs.none_nil hq)
    simp [tablesCM, tablesCMX, hq, this, mapE, declaredX]
  | some e =>
    have hz : ((tablesCM TX.base L).classDefs.getD []).zip (tablesCMX TX L).classX =
        TX.base.classDefs.map fun c => (classR TX.base L c, classXOf TX L c) := by
      simp only [tablesCM, tablesCMX, hq, Option.map_some, Option.getD_some, Option.elim_some]
      exact zip_map_same _ _ _
    rw [hz]
    have := mapE_ok (viewClassX (tablesCMX TX L)) (fun p => classVX TX L p.1.raw)
      (TX.base.classDefs.map fun c => (classR TX.base L c, classXOf TX L c))
      (fun x hx => by
        obtain ⟨c, hc, rfl⟩ := List.mem_map.mp hx
        exact viewClassX_tables hwf e hq c hc)
    simp only [List.map_map, Function.comp_def, classR] at this
    simp only [classR, this, declaredX]

theorem parseDexX_tables (henc : EncodesX file L TX) (hwf : WFX TX L) :
    parseDexX file = viewOfX (tablesCMX TX L) := by
  obtain ⟨r, hr⟩ := header_enc henc.base
  simp only [parseDexX, hr, henc.base.mapOff_ne, ↓reduceIte, readMap_enc henc.base, loadEntriesX_tables henc hwf]

/-- the file-level theorem of the extension: the extended loader reports exactly what the file declares -/
theorem parseDexX_declared (henc : EncodesX file L TX) (hwf : WFX TX L) :
    parseDexX file = .ok (declaredX TX L) := by
  rw [parseDexX_tables henc hwf, viewOfX_tables henc hwf]

end AgVerif.C05
