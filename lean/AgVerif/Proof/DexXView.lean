/-
C05, file level, extension by static values: tables → extended view, and the file-level theorem
`parseDexX file = ok (declaredX TX L)`.
-/
import AgVerif.Proof.DexXLoad
namespace AgVerif.C05
open AgVerif.DexFile AgVerif.LoadOrder AgVerif.DexX
open AgVerif.EncodedValue (Value embed toCM)

variable {file : Bytes} {L : Layout} {TX : TablesX}

theorem zip_map_same {α β γ} (f : α → β) (g : α → γ) : ∀ l : List α,
    (l.map f).zip (l.map g) = l.map fun x => (f x, g x)
  | [] => rfl
  | x :: xs => by simp only [List.map_cons, List.zip_cons_cons, zip_map_same f g xs]

/-- the annotation item lookup of get_annotations() -/
def annTypeIdx (cx : CMx) (off : Nat) : Except String Nat :=
  match cx.annItems with
  | none => .error "KeyError"
  | some items =>
    match lookupOff off items with
    | none => .error "AttributeError"
    | some it => .ok it.typeIdx

theorem classAnnotations_eq (cx : CMx) (x : ClassX) :
    classAnnotations cx x =
      match x.annDir with
      | none => .ok []
      | some d =>
        match cx.annSets with
        | none => .error "KeyError"
        | some sets =>
          match lookupOff d.classOff sets with
          | none => .ok []
          | some offs =>
            match mapE (annTypeIdx cx) offs with
            | .error e => .error e
            | .ok ts => mapE (getType cx.base) ts := rfl

theorem classAnnotations_tables (hwf : WFX TX L) (c : ClassDef) (hc : c ∈ TX.base.classDefs) :
    classAnnotations (tablesCMX TX L) (classXOf TX L c) = .ok (annotationsAt TX L c) := by
  have hne := List.ne_nil_of_mem hc
  have hB : Base (tablesCM TX.base L) TX.base L :=
    base_tables (hwf.base.classSecs hne).1 (hwf.base.classSecs hne).2
  rw [classAnnotations_eq]
  simp only [classXOf, annotationsAt]
  cases hd : annDirAt TX L c.annOff with
  | none => simp [classAnnOffs, hd]
  | some d =>
    have hsec := hwf.classSets c hc (by simp [hd])
    have hsets : (tablesCMX TX L).annSets = some (setTab TX L) := by
      cases hq : L.sec 0x1003 with
      | none => simp [hq] at hsec
      | some e => simp [tablesCMX, hq]
    simp only [hsets]
    cases hl : lookupOff d.classOff (setTab TX L) with
    | none => simp [classAnnOffs, hd, hl]
    | some offs =>
      have hoffs : classAnnOffs TX L c = offs := by simp [classAnnOffs, hd, hl]
      have hitems := hwf.classItems c hc
      rw [hoffs] at hitems ⊢
      have h1 := mapE_ok (annTypeIdx (tablesCMX TX L))
        (fun off => ((lookupOff off (aiTab TX L)).map (·.typeIdx)).getD 0) offs
        (fun off ho => by
          obtain ⟨hs, hi⟩ := hitems off ho
          have hai : (tablesCMX TX L).annItems = some (aiTab TX L) := by
            cases hq : L.sec 0x2004 with
            | none => simp [hq] at hs
            | some e => simp [tablesCMX, hq]
          cases hq : lookupOff off (aiTab TX L) with
          | none => simp [hq] at hi
          | some it => simp [annTypeIdx, hai, hq])
      simp only [h1]
      have hb : (tablesCMX TX L).base = tablesCM TX.base L := rfl
      rw [hb, mapE_ok (getType (tablesCM TX.base L)) (typeAt TX.base L) _ (fun x _ => getType_tab hB x)]
      simp only [List.map_map, Except.ok.injEq]
      apply List.map_congr_left
      intro off ho
      obtain ⟨_, hi⟩ := hitems off ho
      cases hq : lookupOff off (aiTab TX L) with
      | none => simp [hq] at hi
      | some it => simp [hq]

theorem viewClassX_tables (hwf : WFX TX L) (e : MapEntry) (he : L.sec 0x0006 = some e) (c : ClassDef)
    (hc : c ∈ TX.base.classDefs) :
    viewClassX (tablesCMX TX L) (classR TX.base L c, classXOf TX L c) = .ok (classVX TX L c) := by
  have hv := viewClass_tables hwf.base c hc
  have hb : (tablesCMX TX L).base = tablesCM TX.base L := rfl
  have hi : (tablesCMX TX L).inits = TX.base.classDefs.filterMap (initOf TX L) := by
    simp [tablesCMX, he]
  have hd : (classR TX.base L c).data = classDataAt TX.base L c.dataOff := rfl
  have hraw : (classR TX.base L c).raw = c := rfl
  simp only [viewClassX, hb, hv, classAnnotations_tables hwf c hc, hi, hd, hraw, classVX]
  cases classDataAt TX.base L c.dataOff <;> rfl

theorem viewOfX_tables (henc : EncodesX file L TX) (hwf : WFX TX L) :
    viewOfX (tablesCMX TX L) = .ok (declaredX TX L) := by
  have hb : (tablesCMX TX L).base = tablesCM TX.base L := rfl
  have hv := viewOf_tables henc.base hwf.base
  unfold viewOfX
  rw [hb, hv]
  simp only
  cases hq : L.sec 0x0006 with
  | none =>
    have := List.eq_nil_of_length_eq_zero (henc.base.classDefs.none_nil hq)
    simp [tablesCM, tablesCMX, hq, this, mapE, declaredX]
  | some e =>
    have hz : ((tablesCM TX.base L).classDefs.getD []).zip (tablesCMX TX L).classX =
        TX.base.classDefs.map fun c => (classR TX.base L c, classXOf TX L c) := by
      simp only [tablesCM, tablesCMX, hq, Option.map_some, Option.getD_some, Option.elim_some]
      exact zip_map_same _ _ _
    rw [hz]
    have := mapE_ok (viewClassX (tablesCMX TX L)) (fun p => classVX TX L p.1.raw)
      (TX.base.classDefs.map fun c => (classR TX.base L c, classXOf TX L c))
      (fun x hx => by
        obtain ⟨c, hc, rfl⟩ := List.mem_map.mp hx
        exact viewClassX_tables hwf e hq c hc)
    simp only [List.map_map, Function.comp_def, classR] at this
    simp only [classR, this, declaredX]

theorem parseDexX_tables (henc : EncodesX file L TX) (hwf : WFX TX L) :
    parseDexX file = viewOfX (tablesCMX TX L) := by
  obtain ⟨r, hr⟩ := header_enc henc.base
  simp only [parseDexX, hr, henc.base.mapOff_ne, ↓reduceIte, readMap_enc henc.base, loadEntriesX_tables henc hwf]

/-- the file-level theorem of the extension: the extended loader reports exactly what the file declares -/
theorem parseDexX_declared (henc : EncodesX file L TX) (hwf : WFX TX L) :
    parseDexX file = .ok (declaredX TX L) := by
  rw [parseDexX_tables henc hwf, viewOfX_tables henc hwf]

end AgVerif.C05
