/-
C25 — the visit discipline prints each conditional node's condition at most once (loop-free fragment).
-/
import AgVerif.Model.WriterVisit

namespace AgVerif.WriterVisit

/-- printed nodes are pairwise distinct, every printed node is in `visited_nodes`, and is not a return node -/
def Inv (_g : WGraph) (st : WState) : Prop :=
  (st.out.map (·.1)).Nodup ∧ ∀ x ∈ st.out.map (·.1), x ∈ st.visited

theorem inv_push {g : WGraph} {st : WState} {n : Nat} {b : Bool} (h : Inv g st) (hn : n ∉ st.visited) :
    Inv g { visited := n :: st.visited, out := st.out ++ [(n, b)] } := by
  obtain ⟨h1, h2⟩ := h
  constructor
  · simp only [List.map_append, List.map_cons, List.map_nil]
    rw [List.nodup_append]
    refine ⟨h1, by simp, ?_⟩
    intro a ha b' hb
    simp only [List.mem_singleton] at hb
    subst hb
    intro heq; subst heq
    exact hn (h2 _ ha)
  · intro x hx
    simp only [List.map_append, List.map_cons, List.map_nil, List.mem_append, List.mem_singleton] at hx
    rcases hx with hx | hx
    · exact List.mem_cons_of_mem _ (h2 x hx)
    · subst hx; exact List.mem_cons_self

theorem inv_visit {g : WGraph} {st : WState} {n : Nat} (h : Inv g st) :
    Inv g { st with visited := n :: st.visited } :=
  ⟨h.1, fun x hx => List.mem_cons_of_mem _ (h.2 x hx)⟩

theorem visitNode_inv (g : WGraph) : ∀ (fuel : Nat) (ifs : List (Option Nat)) (n : Nat) (st : WState),
    Inv g st → Inv g (visitNode g fuel ifs n st) := by
  intro fuel
  induction fuel with
  | zero => intro ifs n st h; simpa [visitNode] using h
  | succ k ih =>
    intro ifs n st h
    unfold visitNode
    by_cases h1 : (top ifs == some n) = true
    · simpa [h1] using h
    · by_cases h2 : (g.kind n != some .ret && st.visited.contains n) = true
      · simp only [h1, h2, if_true, if_false, Bool.false_eq_true]; exact h
      · simp only [h1, h2, if_false, Bool.false_eq_true]
        cases hk : g.kind n with
        | none => exact inv_visit h
        | some kd =>
          cases kd with
          | ret => exact inv_visit h
          | stmt s =>
            cases s with
            | none => exact inv_visit h
            | some s => exact ih _ _ _ (inv_visit h)
          | cond t f follow =>
            have hnv : n ∉ st.visited := by
              intro hmem
              apply h2
              simp [hk, hmem]
            simp only
            split
            · exact ih _ _ _ (inv_push h hnv)
            · cases follow with
              | some fo =>
                simp only
                apply ih
                split <;> split <;>
                  first
                  | exact ih _ _ _ (ih _ _ _ (inv_push h hnv))
                  | exact ih _ _ _ (inv_push h hnv)
              | none =>
                simp only
                exact ih _ _ _ (ih _ _ _ (inv_push h hnv))

end AgVerif.WriterVisit
