/-
C25 — the visit discipline: every visited node triggers at most one print of a condition (loop nodes included), and
which condition object an event prints is a function of the node that triggers it.
-/
import AgVerif.Model.WriterVisit

namespace AgVerif.WriterVisit

def trig (st : WState) : List Nat := st.out.map (·.trigger)

/-- the condition object a node's visit writes: a conditional node its own, a pre-tested loop the node it wraps,
    a post-tested loop its latch's (through LoopBlock.visit_cond when the latch is a loop node) -/
def printedObj (g : WGraph) (n : Nat) : Nat :=
  match g.kind n with
  | some (.loop .pretest c _ _ _ _) => c
  | some (.loop .posttest _ latch _ _ _) => objOf g latch
  | _ => n

/-- triggers are pairwise distinct, every trigger is in `visited_nodes`, every event prints `printedObj` of its trigger -/
def Inv (g : WGraph) (st : WState) : Prop :=
  (trig st).Nodup ∧ (∀ x ∈ trig st, x ∈ st.visited) ∧ ∀ ev ∈ st.out, ev.obj = printedObj g ev.trigger

/-- `visited_nodes` only grows; a new trigger was not visited before -/
def Ext (st st' : WState) : Prop :=
  (∀ x ∈ st.visited, x ∈ st'.visited) ∧ ∀ x ∈ trig st', x ∈ trig st ∨ x ∉ st.visited

theorem ext_refl (st : WState) : Ext st st := ⟨fun _ h => h, fun _ h => Or.inl h⟩

theorem ext_trans {a b c : WState} (h1 : Ext a b) (h2 : Ext b c) : Ext a c := by
  refine ⟨fun x hx => h2.1 x (h1.1 x hx), fun x hx => ?_⟩
  rcases h2.2 x hx with h | h
  · exact h1.2 x h
  · exact Or.inr fun hx' => h (h1.1 x hx')

theorem inv_mark {g : WGraph} {st : WState} (n : Nat) (h : Inv g st) :
    Inv g { st with visited := n :: st.visited } ∧ Ext st { st with visited := n :: st.visited } :=
  ⟨⟨h.1, fun x hx => List.mem_cons_of_mem _ (h.2.1 x hx), h.2.2⟩,
   ⟨fun _ hx => List.mem_cons_of_mem _ hx, fun _ hx => Or.inl hx⟩⟩

theorem trig_emit (n obj : Nat) (sw : Bool) (st : WState) : trig (emit n obj sw st) = trig st ++ [n] := by
  simp [trig, emit]

theorem inv_emit {g : WGraph} {st : WState} {n obj : Nat} (sw : Bool) (h : Inv g st) (hv : n ∈ st.visited)
    (hn : n ∉ trig st) (ho : obj = printedObj g n) : Inv g (emit n obj sw st) := by
  refine ⟨?_, ?_, ?_⟩
  · rw [trig_emit, List.nodup_append]
    refine ⟨h.1, by simp, ?_⟩
    intro a ha b hb
    simp only [List.mem_singleton] at hb
    subst hb
    intro heq; subst heq; exact hn ha
  · intro x hx
    rw [trig_emit, List.mem_append, List.mem_singleton] at hx
    rcases hx with hx | hx
    · exact h.2.1 x hx
    · subst hx; exact hv
  · intro ev hev
    simp only [emit, List.mem_append, List.mem_singleton] at hev
    rcases hev with hev | hev
    · exact h.2.2 ev hev
    · subst hev; exact ho

theorem ext_emit {s0 st : WState} {n obj : Nat} (sw : Bool) (h : Ext s0 st) (hn : n ∉ s0.visited) :
    Ext s0 (emit n obj sw st) := by
  refine ⟨h.1, fun x hx => ?_⟩
  rw [trig_emit, List.mem_append, List.mem_singleton] at hx
  rcases hx with hx | hx
  · exact h.2 x hx
  · subst hx; exact Or.inr hn

/-- result of a call: invariant kept, and it extends the state it started from -/
def R (g : WGraph) (st st' : WState) : Prop := Inv g st' ∧ Ext st st'

theorem R.step {g : WGraph} {st a b : WState} (h1 : R g st a) (h2 : Inv g a → R g a b) : R g st b :=
  ⟨(h2 h1.1).1, ext_trans h1.2 (h2 h1.1).2⟩

theorem visitNode_R (g : WGraph) : ∀ (fuel : Nat) (sk : Stacks) (n : Nat) (st : WState),
    Inv g st → R g st (visitNode g fuel sk n st) := by
  intro fuel
  induction fuel with
  | zero => intro sk n st h; exact ⟨by simpa [visitNode] using h, by simpa [visitNode] using ext_refl st⟩
  | succ k ih =>
    intro sk n st h
    have refl : R g st st := ⟨h, ext_refl st⟩
    unfold visitNode
    by_cases h1 : (top sk.ifs == some n || top sk.loops == some n || top sk.latches == some n) = true
    · simp only [h1, if_true]; exact refl
    · by_cases h2 : (g.kind n != some .ret && st.visited.contains n) = true
      · simp only [h1, h2, if_true, if_false, Bool.false_eq_true]; exact refl
      · simp only [h1, h2, if_false, Bool.false_eq_true]
        have hm := inv_mark (g := g) n h
        have m : R g st { st with visited := n :: st.visited } := hm
        cases hk : g.kind n with
        | none => exact m
        | some kd =>
          cases kd with
          | ret => exact m
          | stmt s =>
            cases s with
            | none => exact m
            | some s =>
              simp only
              split
              · exact m
              · exact m.step (ih _ _ _)
          | cond t f follow =>
            have hnv : n ∉ st.visited := by
              intro hmem; apply h2; simp [hk, hmem]
            have hnt : n ∉ trig st := fun hx => hnv (h.2.1 n hx)
            have hobj : n = printedObj g n := by simp [printedObj, hk]
            -- emitting right after the mark
            have e : ∀ sw, R g st (emit n n sw { st with visited := n :: st.visited }) := fun sw =>
              ⟨inv_emit sw m.1 List.mem_cons_self hnt hobj, ext_emit sw m.2 hnv⟩
            simp only
            split
            · exact (e _).step (ih _ _ _)
            · split <;> split <;>
                first
                | exact (e _).step (ih _ _ _)
                | (cases follow with
                   | none => exact ((e _).step (ih _ _ _)).step (ih _ _ _)
                   | some fo =>
                     simp only
                     split <;> split <;>
                       first
                       | exact (((e _).step (ih _ _ _)).step (ih _ _ _)).step (ih _ _ _)
                       | exact ((e _).step (ih _ _ _)).step (ih _ _ _))
          | loop lt c latch t f follow =>
            have hnv : n ∉ st.visited := by
              intro hmem; apply h2; simp [hk, hmem]
            have hnt : n ∉ trig st := fun hx => hnv (h.2.1 n hx)
            cases lt with
            | pretest =>
              have hobj : c = printedObj g n := by simp [printedObj, hk]
              have e : ∀ sw, R g st (emit n c sw { st with visited := n :: st.visited }) := fun sw =>
                ⟨inv_emit sw m.1 List.mem_cons_self hnt hobj, ext_emit sw m.2 hnv⟩
              simp only
              split <;>
                first
                | exact ((e _).step (ih _ _ _)).step (ih _ _ _)
                | exact (e _).step (ih _ _ _)
            | posttest =>
              have hobj : objOf g latch = printedObj g n := by simp [printedObj, hk]
              simp only
              -- body first, then the latch condition
              have body := ih { sk with loops := follow :: sk.loops, latches := some latch :: sk.latches } c _ m.1
              have hin : n ∈ (visitNode g k { sk with loops := follow :: sk.loops, latches := some latch :: sk.latches } c
                  { st with visited := n :: st.visited }).visited := body.2.1 n List.mem_cons_self
              have hnot : n ∉ trig (visitNode g k { sk with loops := follow :: sk.loops, latches := some latch :: sk.latches } c
                  { st with visited := n :: st.visited }) := by
                intro hx
                rcases body.2.2 n hx with h' | h'
                · exact hnt h'
                · exact h' List.mem_cons_self
              have e : R g st (emit n (objOf g latch) false
                  (visitNode g k { sk with loops := follow :: sk.loops, latches := some latch :: sk.latches } c
                    { st with visited := n :: st.visited })) :=
                ⟨inv_emit false body.1 hin hnot hobj, ext_emit false (ext_trans m.2 body.2) hnv⟩
              cases follow with
              | none => exact e
              | some fo => exact e.step (ih _ _ _)
            | endless =>
              simp only
              cases follow with
              | none => exact (m.step (ih _ _ _)).step (ih _ _ _)
              | some fo => exact ((m.step (ih _ _ _)).step (ih _ _ _)).step (ih _ _ _)

theorem visitNode_inv (g : WGraph) (fuel : Nat) (sk : Stacks) (n : Nat) (st : WState) (h : Inv g st) :
    Inv g (visitNode g fuel sk n st) := (visitNode_R g fuel sk n st h).1

theorem inv_init (g : WGraph) : Inv g ⟨[], []⟩ := ⟨List.nodup_nil, by simp [trig], by simp⟩

theorem nodup_map_of_inj_on {l : List Nat} (f : Nat → Nat) (h : l.Nodup)
    (inj : ∀ a ∈ l, ∀ b ∈ l, f a = f b → a = b) : (l.map f).Nodup := by
  induction l with
  | nil => simp
  | cons a l ih =>
    rw [List.nodup_cons] at h
    rw [List.map_cons, List.nodup_cons]
    refine ⟨?_, ih h.2 (fun x hx y hy => inj x (List.mem_cons_of_mem _ hx) y (List.mem_cons_of_mem _ hy))⟩
    intro hm
    obtain ⟨b, hb, hfb⟩ := List.mem_map.mp hm
    have := inj b (List.mem_cons_of_mem _ hb) a List.mem_cons_self hfb
    subst this
    exact h.1 hb

/-- when no two emitting nodes write the same object, no condition object is printed twice -/
theorem objs_nodup {g : WGraph} {st : WState} (h : Inv g st)
    (inj : ∀ a ∈ trig st, ∀ b ∈ trig st, printedObj g a = printedObj g b → a = b) :
    (st.out.map (·.obj)).Nodup := by
  have hmap : st.out.map (·.obj) = (trig st).map (printedObj g) := by
    simp only [trig, List.map_map]
    apply List.map_congr_left
    intro ev hev
    exact h.2.2 ev hev
  rw [hmap]
  exact nodup_map_of_inj_on _ h.1 inj

end AgVerif.WriterVisit
