/-
C18, Lengauer–Tarjan correctness, layer 2b: the path argument of Theorems 2 and 3 of the paper, then
Theorems 2, 3 and 4 themselves (any graph with a DFS tree `DTree`).
-/
import AgVerif.Proof.DomLT_Semi
namespace AgVerif.DomLT
open AgVerif.Spec

variable {E : Nat → Nat → Prop} {r : Nat} {num : Nat → Nat} {par : Nat → Option Nat}

/-- The path argument: a walk from the root to `w` that avoids a proper tree ancestor `d` of `w` must
    jump over `d`: it contains a semipath from some `x` numbered below `d` to a vertex `y` of the tree
    segment `(d, w]`. -/
theorem DTree.avoid_semipath (T : DTree E r num par) {d w : Nat} (hw : num w ≠ 0) (hdw : Anc par d w)
    (hne : d ≠ w) (hra : ReachAvoiding E (fun x => x = d) r w) :
    ∃ y x, Anc par d y ∧ y ≠ d ∧ Anc par y w ∧ num x < num d ∧ SemiPath E num x y := by
  have hd0 : num d ≠ 0 := T.anc_num hdw hw
  have hdlt : num d < num w := by
    rcases T.anc_lt hdw with h | h
    · exact absurd h hne
    · exact h.2
  -- invariant along the walk
  have key : ∀ z, ReachAvoiding E (fun x => x = d) r z → num z ≠ 0 ∧
      ((∃ y x, Anc par d y ∧ y ≠ d ∧ Anc par y w ∧ num x < num d ∧ SemiPath E num x y) ∨
       (∃ x, num x ≠ 0 ∧ num x < num d ∧ (x = z ∨ ∃ x', E x x' ∧
          ReachAvoiding E (fun v => num v < num d ∨ (Anc par d v ∧ Anc par v w)) x' z))) := by
    intro z hz
    induction hz with
    | refl hr =>
      have h1 : num r = 1 := T.root_num
      refine ⟨by omega, Or.inr ⟨r, by omega, ?_, Or.inl rfl⟩⟩
      have : num d ≠ 1 := fun e => hr (T.inj r d (by omega) (by omega))
      omega
    | @tail z c hz e hc ih =>
      obtain ⟨hz0, ih⟩ := ih
      have hc0 : num c ≠ 0 := (T.reach c).mpr (Reach.tail ((T.reach z).mp hz0) e)
      refine ⟨hc0, ?_⟩
      rcases ih with ih | ⟨x, hx0, hxd, hx⟩
      · exact Or.inl ih
      · by_cases hlow : num c < num d
        · exact Or.inr ⟨c, hc0, hlow, Or.inl rfl⟩
        · by_cases hseg : Anc par d c ∧ Anc par c w
          · left
            refine ⟨c, x, hseg.1, hc, hseg.2, hxd, ?_⟩
            rcases hx with hx | ⟨x', ex, hwalk⟩
            · subst hx; exact semipath_edge e hx0
            · have hx'0 : num x' ≠ 0 := (T.reach x').mpr (Reach.tail ((T.reach x).mp hx0) ex)
              obtain ⟨m, hm, hm0, hanc, _, hw2, _⟩ := T.walk_min hwalk hx'0
              by_cases hcm : num c < num m
              · refine ⟨hx0, z, e, Or.inr ⟨x', ex, hw2.mono ?_⟩⟩
                intro v hv
                exact Or.inr (by omega)
              · exfalso
                have hmc := T.anc_edge hanc e hz0 hc0 (by omega)
                have hmw := hmc.trans hseg.2
                apply hm
                by_cases hmd : num m < num d
                · exact Or.inl hmd
                · right
                  refine ⟨?_, hmw⟩
                  rcases hdw.chain hmw with h | h
                  · exact h
                  · have := T.anc_le h
                    have := T.inj m d hm0 (by omega)
                    subst this; exact Anc.refl _
          · right
            refine ⟨x, hx0, hxd, Or.inr ?_⟩
            have hcS : ¬ (num c < num d ∨ (Anc par d c ∧ Anc par c w)) := fun h => h.elim hlow hseg
            rcases hx with hx | ⟨x', ex, hwalk⟩
            · subst hx; exact ⟨c, e, ReachAvoiding.refl hcS⟩
            · exact ⟨x', ex, ReachAvoiding.tail hwalk e hcS⟩
  rcases (key w hra).2 with h | ⟨x, _, hxd, hx⟩
  · exact h
  · exfalso
    rcases hx with hx | ⟨x', _, hwalk⟩
    · subst hx; omega
    · exact hwalk.not_mem_right (Or.inr ⟨hdw, Anc.refl _⟩)

/-- Theorem 2: if no vertex of the tree segment `(sdom w, w]` has a semipath from below `sdom w`,
    then `sdom w` is the immediate dominator of `w`. -/
theorem DTree.semi_is_idom (T : DTree E r num par) {s w : Nat} (hw : num w ≠ 0) (hr : w ≠ r)
    (hs : IsSemi E num s w)
    (hmin : ∀ u, Anc par s u → u ≠ s → Anc par u w → ∀ x, SemiPath E num x u → num s ≤ num x) :
    IDom E r s w := by
  have hlt := T.semi_lt hw hr hs
  have hanc := T.semi_anc hs.1 hlt
  have hne : s ≠ w := fun e => by subst e; omega
  have hdom : Dominates E r s w := by
    rw [dominates_iff]
    intro hra
    obtain ⟨y, x, h1, h2, h3, h4, h5⟩ := T.avoid_semipath hw hanc hne hra
    have := hmin y h1 h2 h3 x h5
    omega
  obtain ⟨d, hd⟩ := idom_exists ((T.reach w).mp hw) hr
  have h1 := T.idom_anc_semi hw hd hs.1 hlt
  have h2 := T.dom_anc (T.anc_num (T.dom_anc hw hd.1.1) hw) (hd.2 s ⟨hdom, hne⟩)
  have := T.anc_antisymm h1 h2
  subst this; exact hd

/-- Theorem 3: if `u` has the least semidominator `su` on the tree segment `(sdom w, w]`, then `u` and
    `w` have the same immediate dominator. -/
theorem DTree.rel_idom (T : DTree E r num par) {s w u su d : Nat} (hw : num w ≠ 0) (hr : w ≠ r)
    (hs : IsSemi E num s w) (hsu : Anc par s u) (hus : u ≠ s) (huw : Anc par u w)
    (hsemi : IsSemi E num su u)
    (hmin : ∀ u', Anc par s u' → u' ≠ s → Anc par u' w → ∀ x, SemiPath E num x u' → num su ≤ num x)
    (hd : IDom E r d u) : IDom E r d w := by
  have hu0 : num u ≠ 0 := T.anc_num huw hw
  have hslt := T.semi_lt hw hr hs
  have hsu_lt : num s < num u := by
    rcases T.anc_lt hsu with h | h
    · exact absurd h.symm hus
    · exact h.2
  have hs0 : num s ≠ 0 := hs.1.1
  have hur : u ≠ r := fun e => by
    have h1 := T.root_num; rw [← e] at h1; omega
  have hsult := T.semi_lt hu0 hur hsemi
  obtain ⟨dw, hdw⟩ := idom_exists ((T.reach w).mp hw) hr
  have h1 : Anc par dw s := T.idom_anc_semi hw hdw hs.1 hslt
  have h1le := T.anc_le h1
  have h2 : Anc par dw d := by
    rcases T.idom_rel hw huw hd hdw with h | h
    · have := T.anc_le h; omega
    · exact h
  have hdu : Anc par d u := T.dom_anc hu0 hd.1.1
  have hdult : num d < num u := by
    rcases T.anc_lt hdu with h | h
    · exact absurd h hd.1.2
    · exact h.2
  have hule := T.anc_le huw
  have hd_su : Anc par d su := T.idom_anc_semi hu0 hd hsemi.1 hsult
  have hd_su_le := T.anc_le hd_su
  have hdne : d ≠ w := fun e => by subst e; omega
  have hdom : Dominates E r d w := by
    rw [dominates_iff]
    intro hra
    obtain ⟨y, x, hy1, hy2, hy3, hx1, hx2⟩ := T.avoid_semipath hw (hdu.trans huw) hdne hra
    have hdy : num d < num y := by
      rcases T.anc_lt hy1 with h | h
      · exact absurd h.symm hy2
      · exact h.2
    rcases hy3.chain huw with h | h
    · -- y is an ancestor of u: a walk to u avoiding d
      have p1 : ReachAvoiding E (fun v => v = d) r x :=
        T.anc_reach (T.anc_root _ x (Nat.le_refl _) hx2.1) (fun v _ hv e => by
          have := T.anc_le hv; subst e; omega)
      have p2 := hx2.walk (fun v => v = d) (fun e => by subst e; omega) (fun e => by subst e; omega)
        (fun v hv e => by subst e; omega)
      have p3 : ReachAvoiding E (fun v => v = d) y u :=
        T.anc_reach h (fun v hv _ e => by have := T.anc_le hv; subst e; omega)
      exact (dominates_iff.mp hd.1.1) ((p1.trans p2).trans p3)
    · -- y is below u, hence on the segment (s, w]
      have hyle := T.anc_le h
      have := hmin y (hsu.trans h) (fun e => by subst e; omega) hy3 x hx2
      omega
  have h3 := T.dom_anc (T.anc_num (T.dom_anc hw hdw.1.1) hw) (hdw.2 d ⟨hdom, hdne⟩)
  have := T.anc_antisymm h2 h3
  subst this; exact hdw

/-- Theorem 4 (≤): a semipath to a tree ancestor `u` (numbered above `w`) of a predecessor `v` of `w`
    extends to a semipath to `w` -/
theorem DTree.semipath_via_pred (T : DTree E r num par) {x u v w : Nat} (e : E v w)
    (huv : Anc par u v) (hlt : num w < num u) (h : SemiPath E num x u) : SemiPath E num x w := by
  obtain ⟨hx0, y, ey, hy⟩ := h
  have ptree : ReachAvoiding E (fun z => num z ≤ num w) u v :=
    T.anc_reach huv (fun z hz _ hle => by have := T.anc_le hz; omega)
  refine ⟨hx0, v, e, Or.inr ?_⟩
  rcases hy with hy | ⟨x', ex, hwalk⟩
  · subst hy; exact ⟨u, ey, ptree⟩
  · refine ⟨x', ex, (ReachAvoiding.tail (hwalk.mono ?_) ey (by omega)).trans ptree⟩
    intro z hz
    show num z ≤ num u
    omega

/-- Theorem 4 (≥): every semipath to `w` ends with an edge `v → w` and either starts at `v` or passes
    through a tree ancestor `u` of `v` numbered above `w` that it reaches by a semipath -/
theorem DTree.semipath_lower (T : DTree E r num par) {x w : Nat} (h : SemiPath E num x w) :
    ∃ v, E v w ∧ num v ≠ 0 ∧
      (v = x ∨ ∃ u, Anc par u v ∧ num w < num u ∧ SemiPath E num x u) := by
  obtain ⟨hx0, y, ey, hy⟩ := h
  rcases hy with hy | ⟨x', ex, hwalk⟩
  · subst hy; exact ⟨y, ey, hx0, Or.inl rfl⟩
  · have hx'0 : num x' ≠ 0 := (T.reach x').mpr (Reach.tail ((T.reach x).mp hx0) ex)
    obtain ⟨m, hm, hm0, hanc, _, _, hfirst⟩ := T.walk_min hwalk hx'0
    refine ⟨y, ey, T.num_of_walk hwalk hx'0, Or.inr ⟨m, hanc, by omega, ?_⟩⟩
    rcases hfirst with hf | ⟨z, hz, ez⟩
    · subst hf; exact semipath_edge ex hx0
    · refine ⟨hx0, z, ez, Or.inr ⟨x', ex, hz.mono ?_⟩⟩
      intro v hv
      exact Or.inr hv

end AgVerif.DomLT
