/-
C01: the semantic view compared by `fields_spec` and the tactic that proves it per class.
-/
import AgVerif.Proof.InsnRoundtrip
import AgVerif.Spec.DalvikFormats
set_option linter.unusedSimpArgs false
set_option linter.unusedVariables false
namespace AgVerif.Insn
open AgVerif.Gen AgVerif.Spec

/-- what the instruction object exposes / what the specification says it denotes, in one shape -/
structure View where
  regs : List Int
  lit : Option Int
  off : Option Int
  idx : Option Int
  idx2 : Option Int
  deriving DecidableEq, Repr

/-- registers from `get_operands()` (attributes for 45cc/4rcc), `get_literals()`, `get_ref_off()`,
    `get_ref_kind()` -/
def View.ofInsn (x : Insn) : View :=
  ⟨AgVerif.Insn.regs x, AgVerif.Insn.lit x, AgVerif.Insn.off x, AgVerif.Insn.idx x, AgVerif.Insn.idx2 x⟩

def View.ofMeaning (m : Dalvik.Meaning) : View :=
  ⟨m.regs.map Int.ofNat, m.lit, m.off, m.idx.map Int.ofNat, m.idx2.map Int.ofNat⟩

/-- classes whose `get_operands()` looks the Kind up in the opcode table -/
def needsKind : Fmt → Bool
  | .f21c | .f22c | .f31c | .f35c | .f3rc => true
  | _ => false

set_option hygiene false in
/-- after `dec_simp at h`: substitute the decoded object and compare both views arithmetically -/
macro "fs_core" : tactic => `(tactic| (
  subst h
  simp only [needsKind, forall_const, Bool.false_eq_true, false_imp_iff, imp_false] at hk
  first
    | (obtain ⟨k, hk⟩ := hk
       simp [View.ofInsn, View.ofMeaning, Dalvik.meaning, regs, regsOfOperands, operands, lit, literals, off, refOff,
         idx, refKind, idx2, m0, m1, m2, m3, m4, m5, m7, m8, Opcodes.length, leNat, Dalvik.bits, Dalvik.sbits, hk,
         bind, Except.bind] at hk ⊢)
    | (simp [View.ofInsn, View.ofMeaning, Dalvik.meaning, regs, regsOfOperands, operands, lit, literals, off, refOff,
         idx, refKind, idx2, m0, m1, m2, m3, m4, m5, m7, m8, Opcodes.length, leNat, Dalvik.bits, Dalvik.sbits])
  repeat' split
  all_goals omega))

set_option hygiene false in
macro "fs_finish" : tactic => `(tactic| first
  | fs_core
  | (split at h <;> first
      | (simp only [Except.ok.injEq] at h; fs_core)
      | (cases h)))

end AgVerif.Insn
