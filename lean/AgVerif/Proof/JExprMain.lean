/-
C21 `print_parse`, second part: method invocation, `new`, and the induction over the IR expression.
-/
import AgVerif.Proof.JExprParse
namespace AgVerif.JExpr

theorem parseNew_prim (f t r) : parseNew (f+1) (.prim t :: .lb :: r) =
    match parseExpr f 0 r with
    | some (n, .rb :: r') => if headIsLb r' then none else some (.newArr (.prim t) n, r')
    | _ => none := by rw [parseNew]; rfl

theorem parseNew_id (f s r) : parseNew (f+1) (.id s :: r) =
    match scanQTail r with
    | (l, .lp :: r2) =>
      (match parseArgs f r2 with
       | some (as, r3) => suffixes f (.newObj (s :: l) as) r3
       | none => none)
    | (l, .lb :: r2) =>
      (match parseExpr f 0 r2 with
       | some (n, .rb :: r') => if headIsLb r' then none else some (.newArr (.ref (s :: l)) n, r')
       | _ => none)
    | _ => none := by rw [parseNew]; rfl

theorem scanQTail_lp : ∀ (t : List String) (X : List Tok),
    scanQTail (t.flatMap (fun s => [Tok.dot, .id s]) ++ .lp :: X) = (t, .lp :: X)
  | [], X => by simp [scanQTail]
  | s :: t, X => by simp [List.flatMap_cons, scanQTail, scanQTail_lp t X]

theorem scanQTail_lb : ∀ (t : List String) (X : List Tok),
    scanQTail (t.flatMap (fun s => [Tok.dot, .id s]) ++ .lb :: X) = (t, .lb :: X)
  | [], X => by simp [scanQTail]
  | s :: t, X => by simp [List.flatMap_cons, scanQTail, scanQTail_lb t X]

theorem good_invoke {b : DExpr} {s : String} {as : List DExpr} (gb : Good b) (hl : 15 ≤ level b)
    (hg : ∀ a ∈ as, Good a) : Good (.invoke b s as) := by
  refine .of_pp (fun rest n R hs f hf => ?_)
  have e1 : print (.invoke b s as) ++ rest = print b ++ (.dot :: .id s :: .lp :: (printArgs as ++ .rp :: rest)) := by
    simp [print]
  have e2 : L (.invoke b s as) = L b + (printArgs as).length + 4 := by simp [L, print]; omega
  have e3 : toJava (.invoke b s as) = .call (.select (toJava b) s) (toJavaList as) := by simp [toJava]
  rw [e1]; rw [e3] at hs; rw [e2] at hf
  refine gb.pp hl _ (n + 8 * (printArgs as).length + 7) R (fun f' hf' => ?_) f (by omega)
  obtain ⟨g, rfl⟩ : ∃ g, f' = g + 2 := ⟨f' - 2, by omega⟩
  rw [suffixes_dot, suffixes_lp_select, args_ok as hg rest g (by omega)]
  exact hs g (by omega)

theorem good_cmp {a b : DExpr} (ga : Good a) (gb : Good b) : Good (.cmp true a b) := by
  have h := good_invoke (b := .baseClass "Long" []) (s := "compare") (as := [a, b]) (good_baseClass _ _)
    (by simp [level]) (by intro x hx; simp at hx; rcases hx with rfl | rfl <;> assumption)
  have e1 : print (.cmp true a b) = print (.invoke (.baseClass "Long" []) "compare" [a, b]) := by
    simp [print, printArgs, printTail, qnToks]
  have e3 : toJava (.cmp true a b) = toJava (.invoke (.baseClass "Long" []) "compare" [a, b]) := by
    simp [toJava, toJavaList, qnExpr]
  refine .of_pp (fun rest n R hs f hf => ?_)
  rw [e1]; rw [e3] at hs; simp only [L, e1] at hf
  exact h.pp (by simp [level]) rest n R hs f hf

theorem good_newObj {h : String} {t : List String} {as : List DExpr} (hg : ∀ a ∈ as, Good a) :
    Good (.newObj h t as) := by
  refine .of_pp (fun rest n R hs f hf => ?_)
  have e1 : print (.newObj h t as) ++ rest =
      .kwNew :: .id h :: (t.flatMap (fun s => [Tok.dot, .id s]) ++ .lp :: (printArgs as ++ .rp :: rest)) := by
    simp [print, qnToks]
  have e2 : L (.newObj h t as) = (qnToks h t).length + (printArgs as).length + 3 := by simp [L, print]; omega
  have e3 : toJava (.newObj h t as) = .newObj (h :: t) (toJavaList as) := by simp [toJava]
  rw [e1]; rw [e3] at hs; rw [e2] at hf
  obtain ⟨g, rfl⟩ : ∃ g, f = g + 2 := ⟨f - 2, by omega⟩
  rw [parseUnary_new, parseNew_id, scanQTail_lp]
  simp only []
  rw [args_ok as hg rest g (by omega)]
  exact hs g (by omega)

theorem headIsLb_of_ok {r} (h : okAfter 15 r) : headIsLb r = false := by
  cases r with
  | nil => rfl
  | cons t r => cases t <;> simp_all [headIsLb, okAfter]

theorem good_newArray {t : JType} {n : DExpr} (gn : Good n) (ht : t ≠ .ref []) : Good (.newArray t n) := by
  refine .of_uu (by simp [level]) (fun rest hok f hf => ?_)
  have e3 : toJava (.newArray t n) = .newArr t (toJava n) := by simp [toJava]
  have hn := fun g hg => gn.ee 0 (.rb :: rest) (Nat.zero_le _) trivial (fun _ _ h => by cases h) g hg
  rw [e3]
  match t, ht with
  | .prim p, _ =>
    have e1 : print (.newArray (.prim p) n) ++ rest = .kwNew :: .prim p :: .lb :: (print n ++ .rb :: rest) := by
      simp [print, typeToks]
    have e2 : L (.newArray (.prim p) n) = L n + 4 := by simp [L, print, typeToks] <;> omega
    rw [e1]; rw [e2] at hf
    obtain ⟨g, rfl⟩ : ∃ g, f = g + 2 := ⟨f - 2, by omega⟩
    rw [parseUnary_new, parseNew_prim, hn g (by omega)]
    simp [headIsLb_of_ok hok]
  | .ref (h :: tl), _ =>
    have e1 : print (.newArray (.ref (h :: tl)) n) ++ rest =
        .kwNew :: .id h :: (tl.flatMap (fun s => [Tok.dot, .id s]) ++ .lb :: (print n ++ .rb :: rest)) := by
      simp [print, typeToks, qnToks]
    have e2 : L (.newArray (.ref (h :: tl)) n) = L n + (qnToks h tl).length + 3 := by
      simp [L, print, typeToks] <;> omega
    rw [e1]; rw [e2] at hf
    obtain ⟨g, rfl⟩ : ∃ g, f = g + 2 := ⟨f - 2, by omega⟩
    rw [parseUnary_new, parseNew_id, scanQTail_lb]
    simp only []
    rw [hn g (by omega)]
    simp [headIsLb_of_ok hok]
  | .ref [], h => exact absurd rfl h

/-! ## compound conditions `(a) && (b)` -/

/-- `( a )` where nothing that could be a cast operand follows: a parenthesised expression, whatever `a` is -/
theorem uu_group {a : DExpr} (ga : Good a) : ∀ rest, okAfter 15 rest → ∀ f, 8 * (L a + 2) + 1 ≤ f →
    parseUnary f (.lp :: print a ++ .rp :: rest) = some (.paren (toJava a), rest) := by
  intro rest hok f hf
  obtain ⟨g, rfl⟩ : ∃ g, f = g + 3 := ⟨f - 3, by omega⟩
  rw [List.cons_append, parseUnary_lp, primCast_print,
    ga.ee 0 (.rp :: rest) (Nat.zero_le _) trivial (fun _ _ h => by cases h) (g + 2) (by omega)]
  show afterParen (g + 2) (toJava a) rest = _
  rw [afterParen_succ, starts_of_ok hok]
  cases asQName (toJava a) <;> simp [suffixes_stop _ _ _ hok]

theorem good_scc {i : Bool} {a b : DExpr} (ga : Good a) (gb : Good b) : Good (.scc i a b) := by
  have hlev : level (.scc i a b) = (if i then BinOp.land else BinOp.lor).prec := by cases i <;> rfl
  refine .of_cc (by rw [hlev]; have := prec_le (if i then BinOp.land else BinOp.lor); omega)
    (fun p rest n R hp hok hc f hf => ?_)
  rw [hlev] at hp hok
  have e1 : print (.scc i a b) ++ rest = .lp :: print a ++ .rp ::
      (.bin (if i then .land else .lor) :: (.lp :: print b ++ .rp :: rest)) := by simp [print]
  have e2 : L (.scc i a b) = L a + L b + 5 := by simp [L, print]; omega
  have e3 : toJava (.scc i a b) = .bin (if i then .land else .lor) (.paren (toJava a)) (.paren (toJava b)) := by
    simp [toJava]
  rw [e1]; rw [e3] at hc; rw [e2] at hf
  have h15 : okAfter 15 rest := okAfter_mono (by have := prec_le (if i then BinOp.land else BinOp.lor); omega) hok
  obtain ⟨g, rfl⟩ : ∃ g, f = g + 3 := ⟨f - 3, by omega⟩
  have hop : okAfter 15 (.bin (if i then BinOp.land else BinOp.lor) :: (.lp :: print b ++ .rp :: rest)) := by
    show (if i then BinOp.land else BinOp.lor).prec ≤ 15
    have := prec_le (if i then BinOp.land else BinOp.lor); omega
  rw [parseExpr_succ, uu_group ga _ hop (g + 2) (by omega)]
  show climb (g + 2) p _ _ = some R
  rw [climb_bin, if_pos hp, parseExpr_succ, uu_group gb rest h15 g (by omega)]
  show (match climb g _ _ rest with | some (rhs, r') => climb (g + 1) p _ r' | none => none) = some R
  obtain ⟨g', rfl⟩ : ∃ g', g = g' + 1 := ⟨g - 1, by omega⟩
  rw [climb_stop g' _ _ rest h15 (fun o r' hr => by subst hr; have := okAfter_bin hok; omega)]
  exact hc (g' + 1 + 1) (by omega)

/-! ## induction over the IR expression -/

mutual
theorem good : ∀ (e : DExpr), wf e = true → Good e
  | .const v l, _ => good_const v l
  | .var n, _ => good_var n
  | .param n, _ => good_param n
  | .this, _ => good_this
  | .baseClass h t, _ => good_baseClass h t
  | .getStatic h t s, _ => good_getStatic h t s
  | .bin o a b, hw => by
    simp [wf] at hw
    obtain ⟨⟨⟨h1, h2⟩, h3⟩, h4⟩ := hw
    exact good_bin (good a h1) (good b h2) h3 h4
  | .cond o a b, hw => by
    simp [wf] at hw
    obtain ⟨⟨⟨h1, h2⟩, h3⟩, h4⟩ := hw
    exact good_cond (good a h1) (good b h2) h3 h4
  | .condzCmp o a b, hw => by
    simp [wf] at hw
    obtain ⟨⟨⟨h1, h2⟩, h3⟩, h4⟩ := hw
    exact good_condzCmp (good a h1) (good b h2) h3 h4
  | .un o a, hw => by
    simp [wf] at hw
    exact good_un (good a hw.1) hw.2
  | .cast t a, hw => by
    simp [wf] at hw
    exact good_cast (good a hw.1) hw.2
  | .checkCast h t a, hw => by
    simp [wf] at hw
    exact good_checkCast (good a hw.1) hw.1 hw.2
  | .cmp true a b, hw => by
    simp [wf] at hw
    exact good_cmp (good a hw.1) (good b hw.2)
  | .cmp false a b, hw => by simp [wf] at hw
  | .scc i a b, hw => by
    simp [wf] at hw
    exact good_scc (good a hw.1) (good b hw.2)
  | .condzBool o a, hw => by
    simp only [wf, Bool.and_eq_true, decide_eq_true_eq] at hw
    exact good_condzBool (good a hw.1) hw.2
  | .condzNum o a, hw => by
    simp [wf] at hw
    exact good_condzNum (good a hw.1) hw.2
  | .condzRef o a, hw => by
    simp [wf] at hw
    exact good_condzRef (good a hw.1) hw.2
  | .getField a s, hw => by
    simp [wf] at hw
    exact good_getField (good a hw.1) hw.2
  | .alength a, hw => by
    simp [wf] at hw
    exact good_alength (good a hw.1) hw.2
  | .aload a i, hw => by
    simp [wf] at hw
    obtain ⟨⟨h1, h2⟩, h3⟩ := hw
    exact good_aload (good a h1) (good i h2) h3
  | .newArray t n, hw => by
    simp [wf] at hw
    exact good_newArray (good n hw.1) hw.2
  | .invoke b s as, hw => by
    simp [wf] at hw
    obtain ⟨⟨h1, h2⟩, h3⟩ := hw
    exact good_invoke (good b h1) h2 (goodList as h3)
  | .newObj h t as, hw => by
    simp [wf] at hw
    exact good_newObj (goodList as hw)

theorem goodList : ∀ (as : List DExpr), wfList as = true → ∀ a ∈ as, Good a
  | [], _ => by simp
  | a :: as, hw => by
    simp [wfList] at hw
    intro x hx
    simp at hx
    rcases hx with rfl | hx
    · exact good _ hw.1
    · exact goodList as hw.2 x hx
end

/-- the parser, run on the lexemes the Writer prints for a well-formed IR expression, consumes them all
    and returns the Java tree of that expression -/
theorem print_parse_wf (e : DExpr) (h : WF e) : parse (print e) = some (toJava e) := by
  have := (good e h).ee 0 [] (Nat.zero_le _) trivial (fun _ _ h => by cases h)
    (8 * (print e).length + 16) (by simp only [L]; omega)
  simp only [List.append_nil] at this
  simp [parse, this]

/-- the tokens determine the Java tree: two well-formed IR expressions that print alike stand for the
    same Java expression -/
theorem print_determines_tree (e₁ e₂ : DExpr) (h₁ : WF e₁) (h₂ : WF e₂) (h : print e₁ = print e₂) :
    toJava e₁ = toJava e₂ := by
  have a := print_parse_wf e₁ h₁
  rw [h, print_parse_wf e₂ h₂] at a
  exact (Option.some.inj a).symm

/-! ## the parser is not vacuous: without the parentheses of an operand the text means another tree -/

/-- `( x )` for a well-formed `x` whose tree is not a name -/
theorem parse_paren (x : DExpr) (h : WF x) (hq : asQName (toJava x) = none) :
    parse (.lp :: print x ++ [.rp]) = some (.paren (toJava x)) := by
  have hp := paren_form (inner := print x) (j := toJava x) (Li := L x) (fun r => primCast_print x r) hq
    (fun rest f hf => (good x h).ee 0 (.rp :: rest) (Nat.zero_le _) trivial (fun _ _ h => by cases h) f (by omega))
    [] 1 (.paren (toJava x), []) (fun f hf => by
      obtain ⟨g, rfl⟩ : ∃ g, f = g + 1 := ⟨f - 1, by omega⟩
      exact suffixes_stop g _ _ trivial)
  have hl : (Tok.lp :: print x ++ [Tok.rp]).length = L x + 2 := by simp [L]
  have e : parseExpr (8 * (L x + 2) + 16) 0 (.lp :: print x ++ [.rp]) = some (.paren (toJava x), []) := by
    obtain ⟨g, hg⟩ : ∃ g, 8 * (L x + 2) + 16 = g + 2 := ⟨8 * (L x + 2) + 14, by omega⟩
    rw [hg, parseExpr_succ, hp (g + 1) (by omega)]
    exact climb_stop g 0 _ [] trivial (fun _ _ h => by cases h)
  simp only [parse, hl, e]

/-- printing `a op (b op c)` without the inner parentheses gives the lexemes of `(a op b) op c`:
    for every operator and all primaries `a`, `b`, `c` the parser re-associates to the left -/
theorem noParen_right_reassociates (o : BinOp) (a b c : DExpr) (ha : WF a) (hb : WF b) (hc : WF c)
    (la : 15 ≤ level a) (lb : 15 ≤ level b) (lc : 15 ≤ level c) :
    parse (printDropRight (.bin o a (.bin o b c))) =
      some (.paren (.bin o (.bin o (toJava a) (toJava b)) (toJava c))) := by
  have hw : WF (.cond o (.cond o a b) c) := by
    have := prec_le o
    simp only [WF] at ha hb hc
    have hl : level (.cond o a b) = o.prec := rfl
    simp [WF, wf, ha, hb, hc, hl]; omega
  have := parse_paren (.cond o (.cond o a b) c) hw (by simp [toJava, asQName])
  simpa [printDropRight, printBare, print, toJava] using this

/-- printing `(a + b) * c` without the inner parentheses gives the lexemes of `a + (b * c)` -/
theorem noParen_left_regroups (a b c : DExpr) (ha : WF a) (hb : WF b) (hc : WF c)
    (la : 15 ≤ level a) (lb : 15 ≤ level b) (lc : 15 ≤ level c) :
    parse (printDropLeft (.bin .mul (.bin .add a b) c)) =
      some (.paren (.bin .add (toJava a) (.bin .mul (toJava b) (toJava c)))) := by
  have hw : WF (.cond .add a (.cond .mul b c)) := by
    simp only [WF] at ha hb hc
    have hl : level (.cond .mul b c) = 12 := rfl
    simp [WF, wf, ha, hb, hc, hl, BinOp.prec]
    refine ⟨⟨decide_eq_true ?_, decide_eq_true ?_⟩, decide_eq_true ?_⟩ <;> omega
  have := parse_paren (.cond .add a (.cond .mul b c)) hw (by simp [toJava, asQName])
  simpa [printDropLeft, printBare, print, toJava] using this

/-! ## what a printed constant denotes -/

/-- the integer a literal, or a unary minus applied to a literal (JLS 3.10.1: the only way to write a negative
    number, and the only place where 2147483648 / 9223372036854775808L may occur), denotes; with its `L` flag -/
def litValue : JExpr → Option (Int × Bool)
  | .intLit n => some (n, false)
  | .longLit n => some (n, true)
  | .unary .neg (.intLit n) => some (-(n : Int), false)
  | .unary .neg (.longLit n) => some (-(n : Int), true)
  | _ => none

/-- EVERY constant (not a sample): the lexemes the Writer prints for it re-parse to a literal or a negated literal
    that denotes exactly the constant, `L`-suffixed iff the constant is a long -/
theorem const_denotes (v : Int) (long : Bool) :
    parse (print (.const v long)) = some (toJava (.const v long)) ∧
    litValue (toJava (.const v long)) = some (v, long) := by
  refine ⟨print_parse_wf _ rfl, ?_⟩
  by_cases hv : v < 0 <;> cases long <;> simp [toJava, constJava, hv, litValue] <;> omega

end AgVerif.JExpr
