/- C01: field meaning of the variable-register formats 3rc 35c 45cc 4rcc -/
import AgVerif.Proof.InsnView
set_option linter.unusedSimpArgs false
set_option linter.unusedVariables false
namespace AgVerif.Insn
open AgVerif.Gen AgVerif.Spec

/-- the registers of an operand list `regs ++ [kind]` -/
theorem filterMap_reg_kind (l : List Int) (k : Nat) (b : Int) :
    (l.map Operand.reg ++ [Operand.kind k b]).filterMap
      (fun o => match o with | .reg n => some n | _ => none) = l := by
  induction l with
  | nil => rfl
  | cons a l ih => simpa using ih

/-- `range(c, c + n)` on naturals -/
theorem pyRange_nat (c n : Nat) :
    pyRange (c : Int) ((c : Int) + (n : Int) - 1 + 1) = ((List.range n).map (fun i => c + i)).map Int.ofNat := by
  unfold pyRange
  have : ((c : Int) + (n : Int) - 1 + 1 - (c : Int)).toNat = n := by omega
  rw [this, List.map_map]
  apply List.map_congr_left
  intro i _
  simp

/-- bit fields of a 6-byte little-endian number -/
theorem bits_le6 (b0 b1 b2 b3 b4 b5 : Nat) (h0 : b0 < 256) (h1 : b1 < 256) (h2 : b2 < 256) (h3 : b3 < 256)
    (h4 : b4 < 256) (h5 : b5 < 256) :
    let N := b0 + 256 * (b1 + 256 * (b2 + 256 * (b3 + 256 * (b4 + 256 * b5))))
    Dalvik.bits N 0 8 = b0 ∧ Dalvik.bits N 8 8 = b1 ∧ Dalvik.bits N 12 4 = b1 / 16 ∧ Dalvik.bits N 8 4 = b1 % 16 ∧
    Dalvik.bits N 16 16 = b2 + 256 * b3 ∧ Dalvik.bits N 32 16 = b4 + 256 * b5 ∧
    Dalvik.bits N 32 4 = b4 % 16 ∧ Dalvik.bits N 36 4 = b4 / 16 ∧ Dalvik.bits N 40 4 = b5 % 16 ∧
    Dalvik.bits N 44 4 = b5 / 16 := by
  intro N
  simp only [Dalvik.bits, Nat.reducePow]
  refine ⟨?_, ?_, ?_, ?_, ?_, ?_, ?_, ?_, ?_, ?_⟩ <;> omega

/-- bit fields of an 8-byte little-endian number -/
theorem bits_le8 (b0 b1 b2 b3 b4 b5 b6 b7 : Nat) (h0 : b0 < 256) (h1 : b1 < 256) (h2 : b2 < 256) (h3 : b3 < 256)
    (h4 : b4 < 256) (h5 : b5 < 256) (h6 : b6 < 256) (h7 : b7 < 256) :
    let N := b0 + 256 * (b1 + 256 * (b2 + 256 * (b3 + 256 * (b4 + 256 * (b5 + 256 * (b6 + 256 * b7))))))
    Dalvik.bits N 0 8 = b0 ∧ Dalvik.bits N 8 8 = b1 ∧ Dalvik.bits N 12 4 = b1 / 16 ∧ Dalvik.bits N 8 4 = b1 % 16 ∧
    Dalvik.bits N 16 16 = b2 + 256 * b3 ∧ Dalvik.bits N 32 16 = b4 + 256 * b5 ∧
    Dalvik.bits N 32 4 = b4 % 16 ∧ Dalvik.bits N 36 4 = b4 / 16 ∧ Dalvik.bits N 40 4 = b5 % 16 ∧
    Dalvik.bits N 44 4 = b5 / 16 ∧ Dalvik.bits N 48 16 = b6 + 256 * b7 := by
  intro N
  simp only [Dalvik.bits, Nat.reducePow]
  refine ⟨?_, ?_, ?_, ?_, ?_, ?_, ?_, ?_, ?_, ?_, ?_⟩ <;> omega

/-- nibbles of a 16-bit little-endian unit, as Python computes them on ints -/
theorem nibbles16 (lo hi : Nat) (hlo : lo < 256) (hhi : hi < 256) :
    ((lo : Int) + 256 * (hi : Int)) % 16 = ((lo % 16 : Nat) : Int) ∧
    ((lo : Int) + 256 * (hi : Int)) / 16 % 16 = ((lo / 16 : Nat) : Int) ∧
    ((lo : Int) + 256 * (hi : Int)) / 256 % 16 = ((hi % 16 : Nat) : Int) ∧
    ((lo : Int) + 256 * (hi : Int)) / 4096 % 16 = ((hi / 16 : Nat) : Int) ∧
    ((lo : Int) + 256 * (hi : Int)) = ((lo + 256 * hi : Nat) : Int) ∧
    ((lo : Int) + 256 * (hi : Int)) % 256 = (lo : Int) := by
  refine ⟨?_, ?_, ?_, ?_, ?_, ?_⟩ <;> omega

theorem regs_3rc (op : Nat) (aa b c : Int) (k : Nat) (hk : kindOf op = some k) :
    regs ⟨.f3rc, op, [aa, b, c]⟩ = pyRange c (c + aa - 1 + 1) := by
  simp only [regs, regsOfOperands, operands, hk, m3, bind, Except.bind]
  exact filterMap_reg_kind _ _ _

theorem fs_3rc (bs : List Nat) (hb : AllBytes bs) (x : Insn) (h : decode .f3rc bs = .ok x)
    (hk : needsKind .f3rc = true → ∃ k, kindOf x.op = some k) :
    View.ofInsn x = View.ofMeaning (Dalvik.meaning .f3rc x.op (leNat (bs.take (Opcodes.length .f3rc)))) ∧
      x.op = Dalvik.bits (leNat (bs.take (Opcodes.length .f3rc))) 0 8 := by
  have hl := decode_ok_length h
  obtain ⟨b0, b1, b2, b3, b4, b5, r, rfl⟩ := ex6 _ (by simpa [Opcodes.length] using hl)
  simp only [allBytes_cons] at hb
  obtain ⟨h0, h1, h2, h3, h4, h5, _⟩ := hb
  dec_simp at h
  subst h
  obtain ⟨k, hk⟩ := hk rfl
  simp only at hk
  have hN : leNat (List.take (Opcodes.length Fmt.f3rc) (b0 :: b1 :: b2 :: b3 :: b4 :: b5 :: r))
      = b0 + 256 * (b1 + 256 * (b2 + 256 * (b3 + 256 * (b4 + 256 * b5)))) := by
    simp [Opcodes.length, leNat]
  rw [hN]
  obtain ⟨e0, e1, -, -, e2, e3, -⟩ := bits_le6 b0 b1 b2 b3 b4 b5 h0 h1 h2 h3 h4 h5
  refine ⟨?_, e0.symm⟩
  have hc : ((b4 : Int) + 256 * (b5 : Int)) = ((b4 + 256 * b5 : Nat) : Int) := by simp
  simp only [View.ofInsn, View.ofMeaning, Dalvik.meaning, Dalvik.regRange, regs_3rc _ _ _ _ k hk,
    e1, e2, e3, hc, pyRange_nat]
  simp [lit, literals, off, refOff, idx, refKind, idx2, m3]

theorem regs_35c (op : Nat) (a b c d e f g : Int) (k : Nat) (hk : kindOf op = some k) (ha : 0 ≤ a ∧ a ≤ 5) :
    regs ⟨.f35c, op, [a, b, c, d, e, f, g]⟩ = [c, d, e, f, g].take a.toNat := by
  simp only [regs, regsOfOperands, operands, hk, m7, bind, Except.bind, ha, and_self, if_true]
  exact filterMap_reg_kind _ _ _

/-- 35c: for A ≤ 5 the registers are the first A of C, D, E, F, G (nibble order of the format document) -/
theorem fs_35c (bs : List Nat) (hb : AllBytes bs) (x : Insn) (h : decode .f35c bs = .ok x)
    (hk : needsKind .f35c = true → ∃ k, kindOf x.op = some k)
    (hA : Dalvik.countA (leNat (bs.take (Opcodes.length .f35c))) ≤ 5) :
    View.ofInsn x = View.ofMeaning (Dalvik.meaning .f35c x.op (leNat (bs.take (Opcodes.length .f35c)))) ∧
      x.op = Dalvik.bits (leNat (bs.take (Opcodes.length .f35c))) 0 8 := by
  have hl := decode_ok_length h
  obtain ⟨b0, b1, b2, b3, b4, b5, r, rfl⟩ := ex6 _ (by simpa [Opcodes.length] using hl)
  simp only [allBytes_cons] at hb
  obtain ⟨h0, h1, h2, h3, h4, h5, _⟩ := hb
  dec_simp at h
  subst h
  obtain ⟨k, hk⟩ := hk rfl
  simp only at hk
  have hN : leNat (List.take (Opcodes.length Fmt.f35c) (b0 :: b1 :: b2 :: b3 :: b4 :: b5 :: r))
      = b0 + 256 * (b1 + 256 * (b2 + 256 * (b3 + 256 * (b4 + 256 * b5)))) := by
    simp [Opcodes.length, leNat]
  rw [hN] at hA ⊢
  clear hN hl
  obtain ⟨e0, -, eA, eG, eB, -, eC, eD, eE, eF⟩ := bits_le6 b0 b1 b2 b3 b4 b5 h0 h1 h2 h3 h4 h5
  simp only [Dalvik.countA, eA] at hA
  obtain ⟨-, -, iG, iA, -, iop⟩ := nibbles16 b0 b1 h0 h1
  obtain ⟨-, -, -, -, iB, -⟩ := nibbles16 b2 b3 h2 h3
  obtain ⟨iC, iD, iE, iF, -, -⟩ := nibbles16 b4 b5 h4 h5
  have iop' : ((b0 : Int) % 256).toNat = b0 := by omega
  rw [iop'] at hk ⊢
  rw [iA, iG, iB, iC, iD, iE, iF]
  refine ⟨?_, e0.symm⟩
  simp only [View.ofInsn, View.ofMeaning, Dalvik.meaning, Dalvik.regList5, eA, eG, eB, eC, eD, eE, eF,
    regs_35c _ _ _ _ _ _ _ _ k hk (by omega : (0:Int) ≤ ((b1 / 16 : Nat) : Int) ∧ ((b1 / 16 : Nat) : Int) ≤ 5)]
  simp [lit, literals, off, refOff, idx, refKind, idx2, m7, List.map_take]
  omega

/-- 45cc: the constructor rejects A > 5; otherwise registers as for 35c plus the proto index HHHH -/
theorem fs_45cc (bs : List Nat) (hb : AllBytes bs) (x : Insn) (h : decode .f45cc bs = .ok x) :
    View.ofInsn x = View.ofMeaning (Dalvik.meaning .f45cc x.op (leNat (bs.take (Opcodes.length .f45cc)))) ∧
      x.op = Dalvik.bits (leNat (bs.take (Opcodes.length .f45cc))) 0 8 ∧
      Dalvik.countA (leNat (bs.take (Opcodes.length .f45cc))) ≤ 5 := by
  have hl := decode_ok_length h
  obtain ⟨b0, b1, b2, b3, b4, b5, b6, b7, r, rfl⟩ := ex8 _ (by simpa [Opcodes.length] using hl)
  simp only [allBytes_cons] at hb
  obtain ⟨h0, h1, h2, h3, h4, h5, h6, h7, _⟩ := hb
  dec_simp at h
  split at h
  · cases h
  rename_i hcnt
  simp only [Except.ok.injEq] at h
  subst h
  have hN : leNat (List.take (Opcodes.length Fmt.f45cc) (b0 :: b1 :: b2 :: b3 :: b4 :: b5 :: b6 :: b7 :: r))
      = b0 + 256 * (b1 + 256 * (b2 + 256 * (b3 + 256 * (b4 + 256 * (b5 + 256 * (b6 + 256 * b7)))))) := by
    simp [Opcodes.length, leNat]
  rw [hN]
  clear hN hl
  obtain ⟨e0, -, eA, eG, eB, -, eC, eD, eE, eF, eH⟩ := bits_le8 b0 b1 b2 b3 b4 b5 b6 b7 h0 h1 h2 h3 h4 h5 h6 h7
  have hA : b1 / 16 ≤ 5 := by omega
  have iA : (b1 : Int) / 16 % 16 = ((b1 / 16 : Nat) : Int) := by omega
  have iG : (b1 : Int) % 16 = ((b1 % 16 : Nat) : Int) := by omega
  obtain ⟨-, -, -, -, iB, -⟩ := nibbles16 b2 b3 h2 h3
  obtain ⟨iC, iD, iE, iF, -, -⟩ := nibbles16 b4 b5 h4 h5
  obtain ⟨-, -, -, -, iH, -⟩ := nibbles16 b6 b7 h6 h7
  rw [iA, iG, iB, iC, iD, iE, iF, iH]
  refine ⟨?_, e0.symm, ?_⟩
  · simp only [View.ofInsn, View.ofMeaning, Dalvik.meaning, Dalvik.regList5, eA, eG, eB, eC, eD, eE, eF, eH]
    simp [regs, lit, literals, off, refOff, idx, refKind, idx2, m8, List.map_take]
    omega
  · rw [Dalvik.countA, eA]; exact hA

/-- 4rcc: registers CCCC … CCCC+AA-1 plus the proto index HHHH -/
theorem fs_4rcc (bs : List Nat) (hb : AllBytes bs) (x : Insn) (h : decode .f4rcc bs = .ok x) :
    View.ofInsn x = View.ofMeaning (Dalvik.meaning .f4rcc x.op (leNat (bs.take (Opcodes.length .f4rcc)))) ∧
      x.op = Dalvik.bits (leNat (bs.take (Opcodes.length .f4rcc))) 0 8 := by
  have hl := decode_ok_length h
  obtain ⟨b0, b1, b2, b3, b4, b5, b6, b7, r, rfl⟩ := ex8 _ (by simpa [Opcodes.length] using hl)
  simp only [allBytes_cons] at hb
  obtain ⟨h0, h1, h2, h3, h4, h5, h6, h7, _⟩ := hb
  dec_simp at h
  subst h
  have hN : leNat (List.take (Opcodes.length Fmt.f4rcc) (b0 :: b1 :: b2 :: b3 :: b4 :: b5 :: b6 :: b7 :: r))
      = b0 + 256 * (b1 + 256 * (b2 + 256 * (b3 + 256 * (b4 + 256 * (b5 + 256 * (b6 + 256 * b7)))))) := by
    simp [Opcodes.length, leNat]
  rw [hN]
  clear hN hl
  obtain ⟨e0, e1, -, -, eB, eC, -, -, -, -, eH⟩ := bits_le8 b0 b1 b2 b3 b4 b5 b6 b7 h0 h1 h2 h3 h4 h5 h6 h7
  obtain ⟨-, -, -, -, iB, -⟩ := nibbles16 b2 b3 h2 h3
  obtain ⟨-, -, -, -, iC, -⟩ := nibbles16 b4 b5 h4 h5
  obtain ⟨-, -, -, -, iH, -⟩ := nibbles16 b6 b7 h6 h7
  rw [iB, iC, iH]
  refine ⟨?_, e0.symm⟩
  simp only [View.ofInsn, View.ofMeaning, Dalvik.meaning, Dalvik.regRange, regs, m4, e1, eB, eC, eH, pyRange_nat]
  simp [lit, literals, off, refOff, idx, refKind, idx2, m4]

end AgVerif.Insn
