/-
C02: byte round trip of the three payload items, from what their constructors read.
-/
import AgVerif.Proof.SweepPayload
set_option linter.unusedSimpArgs false
set_option linter.unusedVariables false
namespace AgVerif.Sweep
open AgVerif.Insn AgVerif.Gen

theorem cat2_some (a b : List Nat) : cat2 (some a) (some b) = some (a ++ b) := rfl

theorem raw_packed (size : Nat) (fk : Int) (ts : List Int) :
    (Item.packed size fk ts).raw = cat2 (pack [.H, .H, .i] [0x0100, (size : Int), fk]) (packInts ts) := rfl

theorem raw_sparse (size : Nat) (ks ts : List Int) :
    (Item.sparse size ks ts).raw =
      cat2 (cat2 (pack [.H, .H] [0x0200, (size : Int)]) (packInts ks)) (packInts ts) := rfl

theorem raw_fill (w size : Nat) (data : List Nat) :
    (Item.fill w size data).raw = cat2 (pack [.H, .H, .I] [0x0300, (w : Int), (size : Int)]) (some data) := rfl

theorem pack_HHi {a b c : Int} (ha : 0 ≤ a ∧ a < 65536) (hb : 0 ≤ b ∧ b < 65536)
    (hc : -2147483648 ≤ c ∧ c < 2147483648) :
    pack [.H, .H, .i] [a, b, c] = some (leBytes 2 a ++ (leBytes 2 b ++ (leBytes 4 c ++ []))) := by
  rw [pack_cons_some (inRange_H ha), pack_cons_some (inRange_H hb), pack_cons_some (inRange_i hc), pack_nil]; rfl

theorem pack_HH {a b : Int} (ha : 0 ≤ a ∧ a < 65536) (hb : 0 ≤ b ∧ b < 65536) :
    pack [.H, .H] [a, b] = some (leBytes 2 a ++ (leBytes 2 b ++ [])) := by
  rw [pack_cons_some (inRange_H ha), pack_cons_some (inRange_H hb), pack_nil]; rfl

theorem pack_HHI {a b c : Int} (ha : 0 ≤ a ∧ a < 65536) (hb : 0 ≤ b ∧ b < 65536)
    (hc : 0 ≤ c ∧ c < 4294967296) :
    pack [.H, .H, .I] [a, b, c] = some (leBytes 2 a ++ (leBytes 2 b ++ (leBytes 4 c ++ []))) := by
  rw [pack_cons_some (inRange_H ha), pack_cons_some (inRange_H hb), pack_cons_some (inRange_I hc), pack_nil]; rfl

theorem parsePacked_raw {buff : List Nat} {size : Nat} {fk : Int} {ts : List Int} (hb : AllBytes buff)
    (h : parsePacked buff = some (size, fk, ts)) (hid : buff.take 2 = [0x00, 0x01])
    (hlen : 8 + size * 4 ≤ buff.length) :
    (Item.packed size fk ts).raw = some (buff.take (8 + size * 4)) ∧ ts.length = size := by
  unfold parsePacked at h
  split at h
  · rename_i x size' fk' hu
    have h8 : 8 ≤ buff.length := by omega
    obtain ⟨b0, b1, b2, b3, b4, b5, b6, b7, r, rfl⟩ := ex8 buff h8
    simp only [allBytes_cons] at hb
    obtain ⟨h0, h1, h2, h3, h4, h5, h6, h7, hr⟩ := hb
    simp [unpack, calcsize, SC.size, unpackGo, leNat, SC.value] at hu
    obtain ⟨hx, hs, hf⟩ := hu
    simp only [List.take_succ_cons, List.take_zero, List.cons.injEq, and_true] at hid
    obtain ⟨hid0, hid1⟩ := hid
    subst hid0 hid1
    subst hs hf
    simp only [List.drop_succ_cons, List.drop_zero, List.length_cons] at h hlen
    split at h
    · rename_i ts' hrd
      simp only [Option.some.injEq, Prod.mk.injEq] at h
      obtain ⟨hsz, hfk, hts⟩ := h
      subst hts
      have hsz' : ((b2 : Int) + 256 * (b3 : Int)).toNat = b2 + 256 * b3 := by omega
      rw [hsz'] at hsz
      subst hsz
      rw [if_neg (by omega), hsz'] at hrd
      obtain ⟨hp, hle, hl⟩ := readInts_packInts _ _ _ hr hrd
      refine ⟨?_, hl⟩
      rw [← hfk]
      rw [raw_packed, hp, pack_HHi (by omega) (by omega) (by omega), cat2_some]
      simp only [leBytes4_sext]
      simp only [leBytes, leBytesFrom, Int.reduceMul, Int.ediv_one, List.cons_append, List.nil_append]
      have e : 8 + (b2 + 256 * b3) * 4 = 4 * (b2 + 256 * b3) + 8 := by omega
      simp only [e, List.take_succ_cons, Option.some.injEq, List.cons.injEq, and_true]
      omega
    · simp at h
  · simp at h

theorem parseSparse_raw {buff : List Nat} {size : Nat} {ks ts : List Int} (hb : AllBytes buff)
    (h : parseSparse buff = some (size, ks, ts)) (hid : buff.take 2 = [0x00, 0x02]) :
    (Item.sparse size ks ts).raw = some (buff.take (4 + size * 4 * 2)) ∧ ks.length = size ∧ ts.length = size ∧
      4 + size * 4 * 2 ≤ buff.length := by
  unfold parseSparse at h
  split at h
  · rename_i x size' hu
    have h4 : 4 ≤ buff.length := by
      simp only [unpack, calcsize, SC.size, List.map_cons, List.map_nil, List.sum_cons, List.sum_nil,
        List.length_take] at hu
      split at hu
      · omega
      · simp at hu
    obtain ⟨b0, b1, b2, b3, r, rfl⟩ := ex4 buff h4
    simp only [allBytes_cons] at hb
    obtain ⟨h0, h1, h2, h3, hr⟩ := hb
    simp [unpack, calcsize, SC.size, unpackGo, leNat, SC.value] at hu
    obtain ⟨hx, hs⟩ := hu
    simp only [List.take_succ_cons, List.take_zero, List.cons.injEq, and_true] at hid
    obtain ⟨hid0, hid1⟩ := hid
    subst hid0 hid1
    subst hs
    have hsz' : ((b2 : Int) + 256 * (b3 : Int)).toNat = b2 + 256 * b3 := by omega
    rw [hsz'] at h
    split at h
    · rename_i ks' hrk
      split at h
      · rename_i ts' hrt
        simp only [Option.some.injEq, Prod.mk.injEq] at h
        obtain ⟨hsz, hks, hts⟩ := h
        subst hsz hks hts
        have e4 : ∀ n, List.drop (4 + n) (0 :: 2 :: b2 :: b3 :: r) = List.drop n r := by
          intro n
          rw [show 4 + n = n + 1 + 1 + 1 + 1 by omega]
          simp only [List.drop_succ_cons]
        simp only [List.drop_succ_cons, List.drop_zero] at hrk
        rw [e4] at hrt
        obtain ⟨hp1, hle1, hl1⟩ := readInts_packInts _ _ _ hr hrk
        obtain ⟨hp2, hle2, hl2⟩ := readInts_packInts _ _ _ (allBytes_drop hr _) hrt
        simp only [List.length_drop] at hle2
        refine ⟨?_, hl1, hl2, by simp only [List.length_cons]; omega⟩
        rw [raw_sparse, hp1, hp2, pack_HH (by omega) (by omega), cat2_some, cat2_some]
        simp only [leBytes, leBytesFrom, Int.reduceMul, Int.ediv_one, List.cons_append, List.nil_append]
        have e : 4 + (b2 + 256 * b3) * 4 * 2 = (4 * (b2 + 256 * b3) + 4 * (b2 + 256 * b3)) + 4 := by omega
        simp only [e, List.take_succ_cons, Option.some.injEq, List.cons.injEq]
        refine ⟨by omega, by omega, by omega, by omega, ?_⟩
        rw [List.take_add]
      · simp at h
    · simp at h
  · simp at h

theorem parseFill_raw {buff : List Nat} {w size : Nat} {data : List Nat} (hb : AllBytes buff)
    (h : parseFill buff = some (w, size, data)) (hid : buff.take 2 = [0x00, 0x03]) :
    (Item.fill w size data).raw = some (buff.take (Item.fill w size data).length) := by
  unfold parseFill at h
  split at h
  · rename_i x w' size' hu
    have h8 : 8 ≤ buff.length := by
      simp only [unpack, calcsize, SC.size, List.map_cons, List.map_nil, List.sum_cons, List.sum_nil,
        List.length_take] at hu
      split at hu
      · omega
      · simp at hu
    obtain ⟨b0, b1, b2, b3, b4, b5, b6, b7, r, rfl⟩ := ex8 buff h8
    simp only [allBytes_cons] at hb
    obtain ⟨h0, h1, h2, h3, h4, h5, h6, h7, hr⟩ := hb
    simp [unpack, calcsize, SC.size, unpackGo, leNat, SC.value] at hu
    obtain ⟨hx, hw, hs⟩ := hu
    simp only [List.take_succ_cons, List.take_zero, List.cons.injEq, and_true] at hid
    obtain ⟨hid0, hid1⟩ := hid
    subst hid0 hid1
    subst hw hs
    simp only [Option.some.injEq, Prod.mk.injEq, List.drop_succ_cons, List.drop_zero] at h
    obtain ⟨hw, hs, hd⟩ := h
    have hw' : ((b2 : Int) + 256 * (b3 : Int)).toNat = b2 + 256 * b3 := by omega
    have hs' : ((b4 : Int) + 256 * ((b5 : Int) + 256 * ((b6 : Int) + 256 * (b7 : Int)))).toNat
        = b4 + 256 * (b5 + 256 * (b6 + 256 * b7)) := by omega
    rw [hw'] at hw
    rw [hs'] at hs
    subst hw hs
    rw [raw_fill, pack_HHI (by omega) (by omega) (by omega), cat2_some]
    simp only [leBytes, leBytesFrom, Int.reduceMul, Int.ediv_one, List.cons_append, List.nil_append]
    generalize hW : b2 + 256 * b3 = W at *
    generalize hS : b4 + 256 * (b5 + 256 * (b6 + 256 * b7)) = S at *
    have hprod : ((b4 : Int) + 256 * ((b5 : Int) + 256 * ((b6 : Int) + 256 * (b7 : Int)))) * ((b2 : Int) + 256 * (b3 : Int))
        = ((S * W : Nat) : Int) := by
      rw [← hW, ← hS]; simp
    rw [hprod] at hd
    have hlen : (if ((S * W : Nat) : Int) % 2 = 1 then ((S * W : Nat) : Int) + 1 else ((S * W : Nat) : Int)).toNat
        = (S * W + 1) / 2 * 2 := by
      split <;> omega
    rw [hlen] at hd
    have e : ((S * W + 1) / 2 + 4) * 2 = (S * W + 1) / 2 * 2 + 8 := by omega
    simp only [Item.length, e, List.take_succ_cons, Option.some.injEq, List.cons.injEq]
    refine ⟨by omega, by omega, by omega, by omega, by omega, by omega, by omega, by omega, hd.symm⟩
  · simp at h

end AgVerif.Sweep
