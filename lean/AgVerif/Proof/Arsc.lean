/-
Lemmas for C28.  Core Lean only.
-/
import AgVerif.Model.Arsc
import AgVerif.Spec.Arsc
import AgVerif.Proof.Bits
namespace AgVerif.Arsc
open AgVerif.Gen.ArscConsts AgVerif.Spec.Arsc

theorem le16_enc (n : Nat) (r : List Nat) (h : n < 65536) : le16 (enc16 n ++ r) = some (n, r) := by
  simp only [enc16, le16, List.cons_append, List.nil_append]
  congr 2; omega

theorem le32_enc (n : Nat) (r : List Nat) (h : n < 4294967296) : le32 (enc32 n ++ r) = some (n, r) := by
  simp only [enc32, le32, List.cons_append, List.nil_append]
  congr 2; omega

theorem plain_roundtrip (slots : List (Option Nat)) (i : Nat) (rest : List Nat)
    (h : ∀ off, some off ∈ slots → off < 0xFFFFFFFF) :
    entriesPlain slots.length i (encPlain slots ++ rest) = some (present slots i, rest) := by
  induction slots generalizing i with
  | nil => simp [entriesPlain, encPlain, present]
  | cons s r ih =>
    have ih' := ih (i + 1) (fun off ho => h off (by simp [ho]))
    cases s with
    | none =>
      simp only [encPlain, List.length_cons, entriesPlain, List.append_assoc]
      rw [le32_enc _ _ (by decide)]
      simp only [ih', present, plainSkip, noEntry32]
      simp
    | some off =>
      have ho := h off (by simp)
      simp only [encPlain, List.length_cons, entriesPlain, List.append_assoc]
      rw [le32_enc _ _ (by omega)]
      simp only [ih', present, plainSkip, noEntry32]
      have : off ≠ 4294967295 := by omega
      simp [this]

theorem offset16_roundtrip (slots : List (Option Nat)) (i : Nat) (rest : List Nat)
    (h : ∀ off, some off ∈ slots → off % 4 = 0 ∧ off / 4 < 0xFFFF) :
    entriesOffset16 slots.length i (encOffset16 slots ++ rest) = some (present slots i, rest) := by
  induction slots generalizing i with
  | nil => simp [entriesOffset16, encOffset16, present]
  | cons s r ih =>
    have ih' := ih (i + 1) (fun off ho => h off (by simp [ho]))
    cases s with
    | none =>
      simp only [encOffset16, List.length_cons, entriesOffset16, List.append_assoc]
      rw [le16_enc _ _ (by decide)]
      simp only [ih', present, dense16Skip, dense16Offset, offsetFrom16, noEntry16]
      simp
    | some off =>
      have ho := h off (by simp)
      simp only [encOffset16, List.length_cons, entriesOffset16, List.append_assoc]
      rw [le16_enc _ _ (by omega)]
      simp only [ih', present, dense16Skip, dense16Offset, offsetFrom16, noEntry16]
      have h1 : off / 4 ≠ 65535 := by omega
      have h2 : off / 4 * 4 = off := by omega
      have h3 : off ≠ 65535 := by omega
      simp [h1, h2, h3]

theorem sparse_roundtrip (pairs : List (Nat × Nat)) (rest : List Nat)
    (h : ∀ p ∈ pairs, p.1 < 65536 ∧ p.2 % 4 = 0 ∧ p.2 / 4 < 65536) :
    entriesSparse pairs.length (encSparse pairs ++ rest) = some (pairs.map fun p => (p.2, p.1), rest) := by
  induction pairs with
  | nil => simp [entriesSparse, encSparse]
  | cons p r ih =>
    obtain ⟨idx, off⟩ := p
    have hp := h (idx, off) (by simp)
    simp only at hp
    have ih' := ih (fun q hq => h q (by simp [hq]))
    simp only [encSparse, List.length_cons, entriesSparse, List.append_assoc]
    rw [le16_enc _ _ hp.1]
    simp only []
    rw [le16_enc _ _ hp.2.2]
    simp only [ih', List.map_cons, sparseOffset]
    have : off / 4 * 4 = off := by omega
    simp [this]

theorem resValueL_enc (t d : Nat) (r : List Nat) (_ht : t < 256) (hd : d < 4294967296) :
    resValueL (encValue t d ++ r) = some ((t, d), r) := by
  simp only [encValue, enc16, List.cons_append, List.nil_append, resValueL]
  rw [le32_enc _ _ hd]

theorem mapItemsL_enc (items : List (Nat × (Nat × Nat))) (r : List Nat)
    (h : ∀ it ∈ items, it.1 < 4294967296 ∧ it.2.1 < 256 ∧ it.2.2 < 4294967296) :
    mapItemsL items.length (encMap items ++ r) = some (items, r) := by
  induction items with
  | nil => simp [mapItemsL, encMap]
  | cons it rest ih =>
    obtain ⟨name, t, d⟩ := it
    have hi := h (name, t, d) (by simp)
    simp only at hi
    simp only [encMap, List.length_cons, mapItemsL, List.append_assoc]
    rw [le32_enc _ _ hi.1]
    simp only []
    rw [resValueL_enc _ _ _ hi.2.1 hi.2.2]
    simp only []
    rw [ih (fun q hq => h q (by simp [hq]))]

theorem and_FFFF0000 (x : Nat) (h : x < 2 ^ 32) : x &&& 0xFFFF0000 = x / 65536 * 65536 := by
  have hlow : (x &&& 0xFFFF0000) % 65536 = 0 := by
    have := Nat.and_two_pow_sub_one_eq_mod (x &&& 0xFFFF0000) 16
    simp only [Nat.reducePow, Nat.reduceSub] at this
    rw [← this, Nat.and_assoc]
    simp
  have hhigh : (x &&& 0xFFFF0000) / 65536 = x / 65536 := by
    have h1 : (x &&& 0xFFFF0000) >>> 16 = x >>> 16 &&& 0xFFFF0000 >>> 16 := Nat.shiftRight_and_distrib
    simp only [Nat.shiftRight_eq_div_pow, Nat.reducePow, Nat.reduceDiv] at h1
    rw [h1]
    have := Nat.and_two_pow_sub_one_eq_mod (x / 65536) 16
    simp only [Nat.reducePow, Nat.reduceSub] at this
    rw [this]
    omega
  omega

theorem and_FF000000 (x : Nat) (h : x < 2 ^ 32) : 0xFF000000 &&& x = x / 16777216 * 16777216 := by
  rw [Nat.and_comm]
  have hlow : (x &&& 0xFF000000) % 16777216 = 0 := by
    have := Nat.and_two_pow_sub_one_eq_mod (x &&& 0xFF000000) 24
    simp only [Nat.reducePow, Nat.reduceSub] at this
    rw [← this, Nat.and_assoc]
    simp
  have hhigh : (x &&& 0xFF000000) / 16777216 = x / 16777216 := by
    have h1 : (x &&& 0xFF000000) >>> 24 = x >>> 24 &&& 0xFF000000 >>> 24 := Nat.shiftRight_and_distrib
    simp only [Nat.shiftRight_eq_div_pow, Nat.reducePow, Nat.reduceDiv] at h1
    rw [h1]
    have := Nat.and_two_pow_sub_one_eq_mod (x / 16777216) 8
    simp only [Nat.reducePow, Nat.reduceSub] at this
    rw [this]
    omega
  omega

theorem mul_or (a b k : Nat) (h : b < 2 ^ k) : a * 2 ^ k ||| b = a * 2 ^ k + b := by
  rw [← Nat.shiftLeft_eq, Nat.or_comm, Bits.or_shl b a k h, Nat.shiftLeft_eq]
  omega

theorem pkgResId_eq (p : Nat) : pkgResId p = p * 2 ^ 24 := by
  unfold pkgResId; rw [Nat.shiftLeft_eq]

theorem typeResId_eq (cur ty : Nat) (hc : cur < 2 ^ 32) (hty : ty < 256) :
    typeResId cur ty = cur / 2 ^ 24 * 2 ^ 24 + ty * 2 ^ 16 := by
  unfold typeResId
  rw [and_FF000000 cur hc, Nat.shiftLeft_eq]
  have := mul_or (cur / 2 ^ 24) (ty * 2 ^ 16) 24 (by omega)
  simpa using this

theorem entryResId_eq (cur i : Nat) (hc : cur < 2 ^ 32) (hi : i < 65536) :
    entryResId cur i = cur / 2 ^ 16 * 2 ^ 16 + i := by
  unfold entryResId
  rw [and_FFFF0000 cur hc]
  have := mul_or (cur / 2 ^ 16) i 16 (by omega)
  simpa using this

theorem id_assembly_aux (pkgId typeId idx prevType prevIdx : Nat) (hp : pkgId < 256)
    (ht : typeId < 256) (hi : idx < 65536) (hpt : prevType < 256) (hpi : prevIdx < 65536) :
    entryResId (typeResId (entryResId (typeResId (pkgResId pkgId) prevType) prevIdx) typeId) idx
      = resId pkgId typeId idx := by
  rw [pkgResId_eq, typeResId_eq _ prevType (by omega) hpt]
  rw [entryResId_eq _ prevIdx (by omega) hpi]
  rw [typeResId_eq _ typeId (by omega) ht]
  rw [entryResId_eq _ idx (by omega) hi]
  unfold resId
  omega

theorem dictGet_dictSet {α β : Type} [BEq α] [LawfulBEq α] (d : List (α × β)) (k : α) (v : β) :
    dictGet (dictSet d k v) k = some v := by
  unfold dictSet
  split
  · rename_i hany
    induction d with
    | nil => simp at hany
    | cons p r ih =>
      simp only [List.map_cons, dictGet, List.find?_cons]
      by_cases hp : p.1 == k
      · simp [hp]
      · simp only [hp, Bool.false_eq_true, if_false]
        simp only [List.any_cons, hp, Bool.false_or] at hany
        have := ih hany
        simp only [dictGet] at this
        exact this
  · rename_i hany
    simp only [dictGet, List.find?_append]
    have : d.find? (fun p => p.1 == k) = none := by
      rw [List.find?_eq_none]
      intro p hp hk
      exact hany (List.any_eq_true.mpr ⟨p, hp, hk⟩)
    simp [this]

theorem dictSet_keys {α β : Type} [BEq α] [LawfulBEq α] (d : List (α × β)) (k : α) (v : β) :
    (dictSet d k v).map (·.1) = if d.any (·.1 == k) then d.map (·.1) else d.map (·.1) ++ [k] := by
  unfold dictSet
  split
  · rw [List.map_map]
    apply List.map_congr_left
    intro p _
    simp only [Function.comp]
    split
    · rename_i h; simp only [beq_iff_eq] at h; exact h.symm
    · rfl
  · simp

end AgVerif.Arsc
