/- C01: byte round trip of the classes 41c 40sc 45cc 4rcc (generated layout; tactic `rt8` of Proof/InsnRoundtrip.lean) -/
import AgVerif.Proof.InsnRoundtrip
set_option linter.unusedSimpArgs false
set_option linter.unusedVariables false
namespace AgVerif.Insn
open AgVerif.Gen

theorem rt_41c (bs : List Nat) (hb : AllBytes bs) (x : Insn) (h : decode .f41c bs = .ok x) :
    encode x = some (bs.take (Opcodes.length .f41c)) := by
  have hl := decode_ok_length h
  rt8

theorem rt_40sc (bs : List Nat) (hb : AllBytes bs) (x : Insn) (h : decode .f40sc bs = .ok x) :
    encode x = some (bs.take (Opcodes.length .f40sc)) := by
  have hl := decode_ok_length h
  rt8

theorem rt_45cc (bs : List Nat) (hb : AllBytes bs) (x : Insn) (h : decode .f45cc bs = .ok x) :
    encode x = some (bs.take (Opcodes.length .f45cc)) := by
  have hl := decode_ok_length h
  rt8

theorem rt_4rcc (bs : List Nat) (hb : AllBytes bs) (x : Insn) (h : decode .f4rcc bs = .ok x) :
    encode x = some (bs.take (Opcodes.length .f4rcc)) := by
  have hl := decode_ok_length h
  rt8

end AgVerif.Insn
