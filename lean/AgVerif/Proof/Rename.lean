/-
C17 — helper lemmas: the invariant tying the caches of the model to the dictionary of the
specification, and its preservation by every operation, for the configuration `fixedCfg`
(per-item hooks; what gen/renamecfg.py extracts from the repaired code).
-/
import AgVerif.Model.RenameView
namespace AgVerif.Rename
open AgVerif.Spec.Rename (Item Ev World Names)

/-- the configuration the theorems are proved for (compared with the generated one in Props) -/
def fixedCfg : Cfg :=
  { clsProg := [.hookItem, .reloadClassDef, .reloadAllMethodIds, .reloadOwnMethods, .reloadOwnFields],
    methProg := [.hookItem, .touchEnc, .reloadId, .reloadEnc],
    fldProg := [.hookItem, .touchEnc, .reloadId, .reloadEnc],
    typeUsesHook := true, methUsesHook := true, fldUsesHook := true,
    constUsesStringHook := true }

/-- the code before the repair: hooks keyed by string index (defect D8) -/
def perStringCfg : Cfg :=
  { clsProg := [.hookString, .reloadClassDef, .reloadAllMethodIds, .reloadOwnMethods, .reloadOwnFields],
    methProg := [.hookString, .touchEnc, .reloadId, .reloadEnc],
    fldProg := [.hookString, .touchEnc, .reloadId, .reloadEnc],
    typeUsesHook := false, methUsesHook := false, fldUsesHook := false,
    constUsesStringHook := true }

/-! ### lists without duplicates -/

theorem nodupB_inj : ∀ (l : List Nat), nodupB l = true →
    ∀ (i j x : Nat), l[i]? = some x → l[j]? = some x → i = j
  | [], _, i, _, _, hi, _ => by simp at hi
  | a :: l, h, i, j, x, hi, hj => by
    simp only [nodupB, Bool.and_eq_true, Bool.not_eq_true', List.contains_eq_mem,
      decide_eq_false_iff_not] at h
    cases i with
    | zero =>
      cases j with
      | zero => rfl
      | succ j =>
        simp only [List.getElem?_cons_zero, Option.some.injEq, List.getElem?_cons_succ] at hi hj
        exact absurd (hi ▸ List.mem_of_getElem? hj) h.1
    | succ i =>
      cases j with
      | zero =>
        simp only [List.getElem?_cons_zero, Option.some.injEq, List.getElem?_cons_succ] at hi hj
        exact absurd (hj ▸ List.mem_of_getElem? hi) h.1
      | succ j =>
        simp only [List.getElem?_cons_succ] at hi hj
        rw [nodupB_inj l h.2 i j x hi hj]

/-! ### consequences of `Dex.wf` -/

structure WF (d : Dex) : Prop where
  clsLt : ∀ (c : Nat) (cd : ClassDef), d.classes[c]? = some cd → cd.cls < d.types.length
  clsInj : ∀ (c c' : Nat) (cd cd' : ClassDef), d.classes[c]? = some cd → d.classes[c']? = some cd' → cd.cls = cd'.cls → c = c'
  emLt : ∀ (e m o : Nat), d.encMethods[e]? = some (m, o) → m < d.methods.length
  emInj : ∀ (e e' m o o' : Nat), d.encMethods[e]? = some (m, o) → d.encMethods[e']? = some (m, o') → e = e'
  efLt : ∀ (e f o : Nat), d.encFields[e]? = some (f, o) → f < d.fields.length
  efInj : ∀ (e e' f o o' : Nat), d.encFields[e]? = some (f, o) → d.encFields[e']? = some (f, o') → e = e'

theorem wf_of_wfB (d : Dex) (h : d.wf = true) : WF d := by
  simp only [Dex.wf, Bool.and_eq_true, List.all_eq_true, decide_eq_true_eq] at h
  obtain ⟨⟨⟨⟨⟨h1, h2⟩, h3⟩, h4⟩, h5⟩, h6⟩ := h
  refine ⟨?_, ?_, ?_, ?_, ?_, ?_⟩
  · intro c cd hc; exact h1 cd (List.mem_of_getElem? hc)
  · intro c c' cd cd' hc hc' he
    apply nodupB_inj _ h2 c c' cd.cls
    · simp [List.getElem?_map, hc]
    · simp [List.getElem?_map, hc', he]
  · intro e m o he; exact h3 (m, o) (List.mem_of_getElem? he)
  · intro e e' m o o' he he'
    apply nodupB_inj _ h4 e e' m
    · simp [List.getElem?_map, he]
    · simp [List.getElem?_map, he']
  · intro e f o he; exact h5 (f, o) (List.mem_of_getElem? he)
  · intro e e' f o o' he he'
    apply nodupB_inj _ h6 e e' f
    · simp [List.getElem?_map, he]
    · simp [List.getElem?_map, he']

/-! ### the invariant -/

structure Inv (d : Dex) (s : State) (cur : Names) : Prop where
  noStr : ∀ i, s.strHooks i = none
  typ : ∀ t, getType fixedCfg d s t = cur (.cls t)
  meth : ∀ (m : Nat) (mid : MethodId), d.methods[m]? = some mid → methName fixedCfg d s m mid = cur (.meth m)
  fld : ∀ (f : Nat) (fid : FieldId), d.fields[f]? = some fid → fldName fixedCfg d s f fid = cur (.fld f)
  cc : ∀ (c : Nat) (cd : ClassDef), d.classes[c]? = some cd → (s.cc c).name = cur (.cls cd.cls)
  mc : ∀ (m : Nat) (mid : MethodId), d.methods[m]? = some mid → (s.mc m).name = cur (.meth m)
  fc : ∀ (f : Nat) (fid : FieldId), d.fields[f]? = some fid → (s.fc f).name = cur (.fld f)
  em : ∀ (e m o : Nat), d.encMethods[e]? = some (m, o) → (s.em e).loaded = true →
        (s.em e).name = some (cur (.meth m))
  ef : ∀ (e f o : Nat), d.encFields[e]? = some (f, o) → (s.ef e).loaded = true →
        (s.ef e).name = some (cur (.fld f))

theorem upd_same {α} (f : Nat → α) (i : Nat) (v : α) : upd f i v i = v := by simp [upd]
theorem upd_other {α} (f : Nat → α) (i j : Nat) (v : α) (h : j ≠ i) : upd f i v j = f j := by
  simp [upd, h]

theorem exists_get {α} (l : List α) (i : Nat) (h : i < l.length) : ∃ x, l[i]? = some x :=
  ⟨l[i], by simp [h]⟩

theorem getString_raw (d : Dex) (s : State) (h : ∀ i, s.strHooks i = none) (i : Nat) :
    getString d s i = rawString d i := by simp [getString, h]

theorem inv_init (d : Dex) : Inv d (init d) (world d).orig := by
  refine ⟨fun _ => rfl, ?_, ?_, ?_, ?_, ?_, ?_, ?_, ?_⟩
  · intro t; simp only [getType, fixedCfg, init, world, rawType, getString]; split <;> rfl
  · intro m mid h; simp [methName, fixedCfg, init, world, getString, h]
  · intro f fid h; simp [fldName, fixedCfg, init, world, getString, h]
  · intro c cd h; simp [init, world, h]
  · intro m mid h; simp [init, world, h]
  · intro f fid h; simp [init, world, h]
  · intro e m o _ h; simp [init] at h
  · intro e f o _ h; simp [init] at h

/-! ### operations that rename nothing preserve the invariant -/

theorem inv_reloadM {d s cur} (h : Inv d s cur) (m : Nat) : Inv d (reloadM fixedCfg d s m) cur := by
  unfold reloadM
  split
  · exact h
  · rename_i mid hm
    refine ⟨h.noStr, h.typ, h.meth, h.fld, h.cc, ?_, h.fc, h.em, h.ef⟩
    intro m' mid' hm'
    by_cases e : m' = m
    · subst e
      rw [hm] at hm'; cases hm'
      simp only [upd_same, freshM]; exact h.meth _ _ hm
    · simp only [upd_other _ _ _ _ e]; exact h.mc _ _ hm'

theorem inv_reloadF {d s cur} (h : Inv d s cur) (f : Nat) : Inv d (reloadF fixedCfg d s f) cur := by
  unfold reloadF
  split
  · exact h
  · rename_i fid hf
    refine ⟨h.noStr, h.typ, h.meth, h.fld, h.cc, h.mc, ?_, h.em, h.ef⟩
    intro f' fid' hf'
    by_cases e : f' = f
    · subst e
      rw [hf] at hf'; cases hf'
      simp only [upd_same, freshF]; exact h.fld _ _ hf
    · simp only [upd_other _ _ _ _ e]; exact h.fc _ _ hf'

theorem inv_reloadAllM {d s cur} (h : Inv d s cur) : Inv d (reloadAllM fixedCfg d s) cur := by
  refine ⟨h.noStr, h.typ, h.meth, h.fld, h.cc, ?_, h.fc, h.em, h.ef⟩
  intro m mid hm
  simp only [reloadAllM, hm, freshM]; exact h.meth _ _ hm

theorem inv_reloadC {d s cur} (h : Inv d s cur) (c : Nat) : Inv d (reloadC fixedCfg d s c) cur := by
  unfold reloadC
  split
  · exact h
  · rename_i cd hc
    refine ⟨h.noStr, h.typ, h.meth, h.fld, ?_, h.mc, h.fc, h.em, h.ef⟩
    intro c' cd' hc'
    by_cases e : c' = c
    · subst e
      rw [hc] at hc'; cases hc'
      simp only [upd_same]; exact h.typ _
    · simp only [upd_other _ _ _ _ e]; exact h.cc _ _ hc'

theorem inv_reloadEM {d s cur} (wf : WF d) (h : Inv d s cur) (e : Nat) :
    Inv d (reloadEM d s e) cur := by
  unfold reloadEM
  split
  · exact h
  · rename_i m o he
    refine ⟨h.noStr, h.typ, h.meth, h.fld, h.cc, h.mc, h.fc, ?_, h.ef⟩
    intro e' m' o' he' hl
    by_cases x : e' = e
    · subst x
      rw [he] at he'; cases he'
      have hlt := wf.emLt _ _ _ he
      obtain ⟨mid, hmid⟩ := exists_get _ _ hlt
      simp only [upd_same, freshEM]; rw [h.mc _ _ hmid]
    · simp only [upd_other _ _ _ _ x] at hl ⊢; exact h.em _ _ _ he' hl

theorem inv_reloadEF {d s cur} (wf : WF d) (h : Inv d s cur) (e : Nat) :
    Inv d (reloadEF d s e) cur := by
  unfold reloadEF
  split
  · exact h
  · rename_i f o he
    refine ⟨h.noStr, h.typ, h.meth, h.fld, h.cc, h.mc, h.fc, h.em, ?_⟩
    intro e' f' o' he' hl
    by_cases x : e' = e
    · subst x
      rw [he] at he'; cases he'
      have hlt := wf.efLt _ _ _ he
      obtain ⟨fid, hfid⟩ := exists_get _ _ hlt
      simp only [upd_same, freshEF]; rw [h.fc _ _ hfid]
    · simp only [upd_other _ _ _ _ x] at hl ⊢; exact h.ef _ _ _ he' hl

/-- after `reloadEM`, the cache of `e` holds the current name whether or not it is marked loaded -/
theorem reloadEM_name {d s cur} (wf : WF d) (h : Inv d s cur) {e m o}
    (he : d.encMethods[e]? = some (m, o)) :
    ((reloadEM d s e).em e).name = some (cur (.meth m)) := by
  have hlt := wf.emLt _ _ _ he
  obtain ⟨mid, hmid⟩ := exists_get _ _ hlt
  simp only [reloadEM, he, upd_same, freshEM]; rw [h.mc _ _ hmid]

theorem reloadEF_name {d s cur} (wf : WF d) (h : Inv d s cur) {e f o}
    (he : d.encFields[e]? = some (f, o)) :
    ((reloadEF d s e).ef e).name = some (cur (.fld f)) := by
  have hlt := wf.efLt _ _ _ he
  obtain ⟨fid, hfid⟩ := exists_get _ _ hlt
  simp only [reloadEF, he, upd_same, freshEF]; rw [h.fc _ _ hfid]

theorem inv_loadEM {d s cur} (wf : WF d) (h : Inv d s cur) (e : Nat) :
    Inv d (loadEM d s e) cur := by
  unfold loadEM
  split
  · exact h
  · have h1 := inv_reloadEM wf h e
    refine ⟨h1.noStr, h1.typ, h1.meth, h1.fld, h1.cc, h1.mc, h1.fc, ?_, h1.ef⟩
    intro e' m' o' he' hl
    by_cases x : e' = e
    · subst x
      simp only [upd_same]; exact reloadEM_name wf h he'
    · simp only [upd_other _ _ _ _ x] at hl ⊢; exact h1.em _ _ _ he' hl

theorem inv_loadEF {d s cur} (wf : WF d) (h : Inv d s cur) (e : Nat) :
    Inv d (loadEF d s e) cur := by
  unfold loadEF
  split
  · exact h
  · have h1 := inv_reloadEF wf h e
    refine ⟨h1.noStr, h1.typ, h1.meth, h1.fld, h1.cc, h1.mc, h1.fc, h1.em, ?_⟩
    intro e' f' o' he' hl
    by_cases x : e' = e
    · subst x
      simp only [upd_same]; exact reloadEF_name wf h he'
    · simp only [upd_other _ _ _ _ x] at hl ⊢; exact h1.ef _ _ _ he' hl

/-- EncodedMethod.get_name answers the current name -/
theorem loadEM_name {d s cur} (wf : WF d) (h : Inv d s cur) {e m o}
    (he : d.encMethods[e]? = some (m, o)) :
    ((loadEM d s e).em e).name = some (cur (.meth m)) := by
  unfold loadEM
  split
  · rename_i hl; exact h.em _ _ _ he hl
  · simp only [upd_same]; exact reloadEM_name wf h he

theorem loadEF_name {d s cur} (wf : WF d) (h : Inv d s cur) {e f o}
    (he : d.encFields[e]? = some (f, o)) :
    ((loadEF d s e).ef e).name = some (cur (.fld f)) := by
  unfold loadEF
  split
  · rename_i hl; exact h.ef _ _ _ he hl
  · simp only [upd_same]; exact reloadEF_name wf h he

theorem inv_reloadOwnEM {d s cur} (wf : WF d) (h : Inv d s cur) (c : Nat) :
    Inv d (reloadOwnEM d s c) cur := by
  refine ⟨h.noStr, h.typ, h.meth, h.fld, h.cc, h.mc, h.fc, ?_, h.ef⟩
  intro e m o he hl
  simp only [reloadOwnEM, he] at hl ⊢
  split
  · obtain ⟨mid, hmid⟩ := exists_get _ _ (wf.emLt _ _ _ he)
    simp only [freshEM]; rw [h.mc _ _ hmid]
  · rename_i hne; simp only [hne, if_false] at hl; exact h.em _ _ _ he hl

theorem inv_reloadOwnEF {d s cur} (wf : WF d) (h : Inv d s cur) (c : Nat) :
    Inv d (reloadOwnEF d s c) cur := by
  refine ⟨h.noStr, h.typ, h.meth, h.fld, h.cc, h.mc, h.fc, h.em, ?_⟩
  intro e f o he hl
  simp only [reloadOwnEF, he] at hl ⊢
  split
  · obtain ⟨fid, hfid⟩ := exists_get _ _ (wf.efLt _ _ _ he)
    simp only [freshEF]; rw [h.fc _ _ hfid]
  · rename_i hne; simp only [hne, if_false] at hl; exact h.ef _ _ _ he hl

/-! ### renames -/

open AgVerif.Spec.Rename (rename)

theorem rename_meth_cls (cur : Names) (t m : Nat) (v : String) :
    rename cur (.cls t) v (.meth m) = cur (.meth m) := by simp [rename]
theorem rename_fld_cls (cur : Names) (t f : Nat) (v : String) :
    rename cur (.cls t) v (.fld f) = cur (.fld f) := by simp [rename]
theorem rename_cls_meth (cur : Names) (t m : Nat) (v : String) :
    rename cur (.meth m) v (.cls t) = cur (.cls t) := by simp [rename]
theorem rename_fld_meth (cur : Names) (f m : Nat) (v : String) :
    rename cur (.meth m) v (.fld f) = cur (.fld f) := by simp [rename]
theorem rename_cls_fld (cur : Names) (t f : Nat) (v : String) :
    rename cur (.fld f) v (.cls t) = cur (.cls t) := by simp [rename]
theorem rename_meth_fld (cur : Names) (f m : Nat) (v : String) :
    rename cur (.fld f) v (.meth m) = cur (.meth m) := by simp [rename]

/-- set_hook_class_name up to `class_def.reload()` -/
theorem inv_hookT_reloadC {d s cur} (wf : WF d) (h : Inv d s cur) {c : Nat} {cd : ClassDef}
    (hc : d.classes[c]? = some cd) (v : String) :
    Inv d (reloadC fixedCfg d { s with typeHooks := upd s.typeHooks cd.cls (some v) } c)
      (rename cur (.cls cd.cls) v) := by
  obtain ⟨si, hsi⟩ := exists_get _ _ (wf.clsLt _ _ hc)
  have htyp : ∀ t, getType fixedCfg d { s with typeHooks := upd s.typeHooks cd.cls (some v) } t
      = rename cur (.cls cd.cls) v (.cls t) := by
    intro t
    by_cases e : t = cd.cls
    · subst e; simp [getType, fixedCfg, hsi, upd_same, rename]
    · have := h.typ t
      simp only [getType, fixedCfg, if_true, getString] at this ⊢
      simp only [upd_other _ _ _ _ e]
      rw [this]; simp [rename, e]
  simp only [reloadC, hc]
  refine ⟨h.noStr, htyp, ?_, ?_, ?_, ?_, ?_, ?_, ?_⟩
  · intro m mid hm; rw [rename_meth_cls]; exact h.meth _ _ hm
  · intro f fid hf; rw [rename_fld_cls]; exact h.fld _ _ hf
  · intro c' cd' hc'
    by_cases e : c' = c
    · subst e; rw [hc] at hc'; cases hc'
      simp only [upd_same]; exact htyp _
    · simp only [upd_other _ _ _ _ e]
      have hne : cd'.cls ≠ cd.cls := fun x => e (wf.clsInj _ _ _ _ hc' hc x)
      rw [h.cc _ _ hc']; simp [rename, hne]
  · intro m mid hm; rw [rename_meth_cls]; exact h.mc _ _ hm
  · intro f fid hf; rw [rename_fld_cls]; exact h.fc _ _ hf
  · intro e m o he hl; rw [rename_meth_cls]; exact h.em _ _ _ he hl
  · intro e f o he hl; rw [rename_fld_cls]; exact h.ef _ _ _ he hl

theorem inv_renameClass {d s cur} (wf : WF d) (h : Inv d s cur) {c : Nat} {cd : ClassDef}
    (hc : d.classes[c]? = some cd) (v : String) :
    Inv d (fixedCfg.clsProg.foldl (actClass fixedCfg d c cd v) s) (rename cur (.cls cd.cls) v) := by
  simp only [fixedCfg, List.foldl, actClass]
  exact inv_reloadOwnEF wf (inv_reloadOwnEM wf (inv_reloadAllM (inv_hookT_reloadC wf h hc v)) c) c

/-- `encoded_x.get_name()` in the python-export block: touches nothing but the cache of `e` -/
theorem touchM_frame (d : Dex) (s : State) (e : Nat) (b : Bool) :
    let s2 := if b then loadEM d s e else s
    s2.strHooks = s.strHooks ∧ s2.typeHooks = s.typeHooks ∧ s2.methHooks = s.methHooks ∧
    s2.fldHooks = s.fldHooks ∧ s2.mc = s.mc ∧ s2.fc = s.fc ∧ s2.ef = s.ef ∧ s2.cc = s.cc ∧
    ∀ e', e' ≠ e → s2.em e' = s.em e' := by
  cases b
  · simp
  · simp only [if_true, loadEM, reloadEM]
    split
    · simp
    · split <;> simp (config := { contextual := true }) [upd_other]

theorem touchF_frame (d : Dex) (s : State) (e : Nat) (b : Bool) :
    let s2 := if b then loadEF d s e else s
    s2.strHooks = s.strHooks ∧ s2.typeHooks = s.typeHooks ∧ s2.methHooks = s.methHooks ∧
    s2.fldHooks = s.fldHooks ∧ s2.mc = s.mc ∧ s2.fc = s.fc ∧ s2.em = s.em ∧ s2.cc = s.cc ∧
    ∀ e', e' ≠ e → s2.ef e' = s.ef e' := by
  cases b
  · simp
  · simp only [if_true, loadEF, reloadEF]
    split
    · simp
    · split <;> simp (config := { contextual := true }) [upd_other]

theorem inv_renameMethod {d s cur} (wf : WF d) (h : Inv d s cur) {e m o : Nat} {mid : MethodId}
    (he : d.encMethods[e]? = some (m, o)) (hm : d.methods[m]? = some mid) (v : String) :
    Inv d (fixedCfg.methProg.foldl (actMeth fixedCfg d e m mid v) s) (rename cur (.meth m) v) := by
  simp only [fixedCfg, List.foldl, actMeth]
  generalize hs1 : ({ s with methHooks := upd s.methHooks m (some v) } : State) = s1
  have f := touchM_frame d s1 e (hasClassDef d mid.cls)
  generalize (if hasClassDef d mid.cls = true then loadEM d s1 e else s1) = s2 at f ⊢
  obtain ⟨f1, f2, f3, f4, f5, f6, f7, f8, f9⟩ := f
  subst hs1
  simp only at f1 f2 f3 f4 f5 f6 f7 f8 f9
  have hname : ∀ m' mid', d.methods[m']? = some mid' →
      methName fixedCfg d s2 m' mid' = rename cur (.meth m) v (.meth m') := by
    intro m' mid' hm'
    simp only [methName, fixedCfg, if_true, getString, f3, f1]
    by_cases x : m' = m
    · subst x; simp [upd_same, rename]
    · have := h.meth _ _ hm'
      simp only [methName, fixedCfg, if_true, getString] at this
      simp only [upd_other _ _ _ _ x]; rw [this]; simp [rename, x]
  simp only [reloadM, hm, reloadEM, he]
  refine ⟨?_, ?_, ?_, ?_, ?_, ?_, ?_, ?_, ?_⟩
  · intro i; simp only [f1]; exact h.noStr i
  · intro t; rw [rename_cls_meth, ← h.typ t]; simp only [getType, getString, f1, f2]
  · intro m' mid' hm'
    rw [← hname _ _ hm']; simp only [methName, getString]
  · intro f fid hf
    rw [rename_fld_meth, ← h.fld _ _ hf]; simp only [fldName, getString, f1, f4]
  · intro c cd hc; rw [rename_cls_meth]; simp only [f8]; exact h.cc _ _ hc
  · intro m' mid' hm'
    by_cases x : m' = m
    · subst x; rw [hm] at hm'; cases hm'
      simp only [upd_same, freshM]; exact hname _ _ hm
    · simp only [upd_other _ _ _ _ x, f5]; rw [h.mc _ _ hm']; simp [rename, x]
  · intro f fid hf; rw [rename_fld_meth]; simp only [f6]; exact h.fc _ _ hf
  · intro e' m' o' he' hl
    by_cases x : e' = e
    · subst x; rw [he] at he'; cases he'
      simp only [upd_same, freshEM]; exact congrArg some (hname _ _ hm)
    · have hne : m' ≠ m := fun y => x (wf.emInj _ _ _ _ _ he' (y ▸ he))
      simp only [upd_other _ _ _ _ x, f9 _ x] at hl ⊢
      rw [h.em _ _ _ he' hl]; simp [rename, hne]
  · intro e' f o' he' hl
    rw [rename_fld_meth]; simp only [f7] at hl ⊢; exact h.ef _ _ _ he' hl

theorem inv_renameField {d s cur} (wf : WF d) (h : Inv d s cur) {e f o : Nat} {fid : FieldId}
    (he : d.encFields[e]? = some (f, o)) (hf : d.fields[f]? = some fid) (v : String) :
    Inv d (fixedCfg.fldProg.foldl (actFld fixedCfg d e f fid v) s) (rename cur (.fld f) v) := by
  simp only [fixedCfg, List.foldl, actFld]
  generalize hs1 : ({ s with fldHooks := upd s.fldHooks f (some v) } : State) = s1
  have fr := touchF_frame d s1 e (hasClassDef d fid.cls)
  generalize (if hasClassDef d fid.cls = true then loadEF d s1 e else s1) = s2 at fr ⊢
  obtain ⟨f1, f2, f3, f4, f5, f6, f7, f8, f9⟩ := fr
  subst hs1
  simp only at f1 f2 f3 f4 f5 f6 f7 f8 f9
  have hname : ∀ f' fid', d.fields[f']? = some fid' →
      fldName fixedCfg d s2 f' fid' = rename cur (.fld f) v (.fld f') := by
    intro f' fid' hf'
    simp only [fldName, fixedCfg, if_true, getString, f4, f1]
    by_cases x : f' = f
    · subst x; simp [upd_same, rename]
    · have := h.fld _ _ hf'
      simp only [fldName, fixedCfg, if_true, getString] at this
      simp only [upd_other _ _ _ _ x]; rw [this]; simp [rename, x]
  simp only [reloadF, hf, reloadEF, he]
  refine ⟨?_, ?_, ?_, ?_, ?_, ?_, ?_, ?_, ?_⟩
  · intro i; simp only [f1]; exact h.noStr i
  · intro t; rw [rename_cls_fld, ← h.typ t]; simp only [getType, getString, f1, f2]
  · intro m mid hm
    rw [rename_meth_fld, ← h.meth _ _ hm]; simp only [methName, getString, f1, f3]
  · intro f' fid' hf'
    rw [← hname _ _ hf']; simp only [fldName, getString]
  · intro c cd hc; rw [rename_cls_fld]; simp only [f8]; exact h.cc _ _ hc
  · intro m mid hm; rw [rename_meth_fld]; simp only [f5]; exact h.mc _ _ hm
  · intro f' fid' hf'
    by_cases x : f' = f
    · subst x; rw [hf] at hf'; cases hf'
      simp only [upd_same, freshF]; exact hname _ _ hf
    · simp only [upd_other _ _ _ _ x, f6]; rw [h.fc _ _ hf']; simp [rename, x]
  · intro e' m o' he' hl
    rw [rename_meth_fld]; simp only [f7] at hl ⊢; exact h.em _ _ _ he' hl
  · intro e' f' o' he' hl
    by_cases x : e' = e
    · subst x; rw [he] at he'; cases he'
      simp only [upd_same, freshEF]; exact congrArg some (hname _ _ hf)
    · have hne : f' ≠ f := fun y => x (wf.efInj _ _ _ _ _ he' (y ▸ he))
      simp only [upd_other _ _ _ _ x, f9 _ x] at hl ⊢
      rw [h.ef _ _ _ he' hl]; simp [rename, hne]

end AgVerif.Rename
