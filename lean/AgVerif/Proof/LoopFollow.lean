/-
C22 (A2) — the positive half for `loop_follow` on a loop that is neither pre- nor post-tested:
when every conditional node of the loop has at most one exit (its `true` and `false` successors are
not two different nodes outside the loop) and the exits carry pairwise different numbers, the
`if … elif …` running minimum is a plain arg-min over the exits and does not depend on the order in
which `nodes_in_loop` is enumerated.  (`loop_follow_order_matters` shows that the first condition
cannot be dropped.)
-/
import AgVerif.Model.Order
set_option linter.unusedSimpArgs false
namespace AgVerif.Order
open List

/-- `n < num_next` with `none` = `float('inf')` -/
def ltInf (n : Nat) : Option Nat → Bool
  | none => true
  | some m => decide (n < m)

/-- offer one exit candidate to the running minimum -/
def offer (num : Nat → Nat) (st : Option Nat × Option Nat) (e : Nat) : Option Nat × Option Nat :=
  if ltInf (num e) st.2 then (some e, some (num e)) else st

/-- the single exit of a node (first of `true`, `false` that is outside the loop) -/
def cand (info : Nat → LNode) (inLoop : List Nat) (n : Nat) : Option Nat :=
  if (info n).isCond then
    if !inLoop.contains (info n).tru then some (info n).tru
    else if !inLoop.contains (info n).fls then some (info n).fls else none
  else none

def offerO (num : Nat → Nat) (st : Option Nat × Option Nat) : Option Nat → Option Nat × Option Nat
  | none => st
  | some e => offer num st e

/-- with at most one exit, a step of the loop offers that exit to a strict running minimum -/
theorem followStep_eq_offer (info : Nat → LNode) (num : Nat → Nat) (inLoop : List Nat)
    (st : Option Nat × Option Nat) (n : Nat)
    (h1 : (info n).isCond = true →
      (info n).tru ∈ inLoop ∨ (info n).fls ∈ inLoop ∨ (info n).tru = (info n).fls) :
    followStep info num inLoop st n = offerO num st (cand info inLoop n) := by
  obtain ⟨f, m⟩ := st
  by_cases hc : (info n).isCond = true
  · by_cases ht : (info n).tru ∈ inLoop
    · by_cases hf : (info n).fls ∈ inLoop
      · cases m <;> simp [followStep, cand, offerO, offer, ltInf, hc, ht, hf]
      · cases m <;> simp [followStep, cand, offerO, offer, ltInf, hc, ht, hf]
    · by_cases hf : (info n).fls ∈ inLoop
      · cases m <;> simp [followStep, cand, offerO, offer, ltInf, hc, ht, hf]
      · have he : (info n).fls = (info n).tru := by
          rcases h1 hc with h | h | h
          · exact absurd h ht
          · exact absurd h hf
          · exact h.symm
        cases m <;> simp [followStep, cand, offerO, offer, ltInf, hc, ht, he] <;> (intros; omega)
  · have hc' : (info n).isCond = false := by simpa using hc
    simp [followStep, cand, offerO, hc']

/-- two offers commute when equal numbers mean equal nodes -/
theorem offer_comm (num : Nat → Nat) (st : Option Nat × Option Nat) (a b : Nat)
    (hab : num a = num b → a = b) :
    offer num (offer num st a) b = offer num (offer num st b) a := by
  obtain ⟨f, m⟩ := st
  cases m with
  | none =>
    simp only [offer, ltInf, if_true, decide_eq_true_eq]
    by_cases h1 : num b < num a
    · have h2 : ¬ num a < num b := by omega
      simp [h1, h2]
    · by_cases h2 : num a < num b
      · simp [h1, h2]
      · have := hab (by omega); subst this; simp
  | some m =>
    simp only [offer, ltInf, decide_eq_true_eq]
    by_cases ha : num a < m <;> by_cases hb : num b < m
    · simp only [ha, hb, if_true, ltInf, decide_eq_true_eq]
      by_cases h1 : num b < num a
      · have h2 : ¬ num a < num b := by omega
        simp [h1, h2]
      · by_cases h2 : num a < num b
        · simp [h1, h2]
        · have := hab (by omega); subst this; simp
    · have : ¬ num b < num a := by omega
      simp [ha, hb, ltInf, this]
    · have : ¬ num a < num b := by omega
      simp [ha, hb, ltInf, this]
    · simp [ha, hb, ltInf]

theorem offerO_comm (num : Nat → Nat) (st : Option Nat × Option Nat) (a b : Option Nat)
    (hab : ∀ x ∈ a, ∀ y ∈ b, num x = num y → x = y) :
    offerO num (offerO num st a) b = offerO num (offerO num st b) a := by
  cases a with
  | none => cases b <;> rfl
  | some x =>
    cases b with
    | none => rfl
    | some y => exact offer_comm num st x y (hab x rfl y rfl)

theorem cand_mem_exitsOf (info : Nat → LNode) (inLoop : List Nat) (n e : Nat)
    (h : e ∈ cand info inLoop n) : e ∈ exitsOf info inLoop n := by
  unfold cand at h
  unfold exitsOf
  by_cases hc : (info n).isCond = true
  · simp only [hc, if_true] at h ⊢
    by_cases ht : (info n).tru ∈ inLoop
    · by_cases hf : (info n).fls ∈ inLoop
      · simp [ht, hf] at h
      · simp [ht, hf] at h; subst h; simp [filter_cons, ht, hf]
    · simp [ht] at h; subst h; simp [filter_cons, ht]
  · simp [hc] at h

theorem followStep_congr (info : Nat → LNode) (num : Nat → Nat) {σ₁ σ₂ : List Nat} (h : σ₁ ~ σ₂) :
    followStep info num σ₁ = followStep info num σ₂ := by
  have hc : ∀ x, σ₁.contains x = σ₂.contains x := by
    intro x; rw [Bool.eq_iff_iff]; simp only [contains_iff_mem]; exact h.mem_iff
  funext st n
  simp only [followStep, hc]

/-- `loop_follow` (endless-loop branch) does not depend on the enumeration of `nodes_in_loop` when
    every conditional node has at most one exit and different exits have different numbers -/
theorem loopFollowEndless_perm (info : Nat → LNode) (num : Nat → Nat) {σ₁ σ₂ : List Nat} (h : σ₁ ~ σ₂)
    (h1 : ∀ n ∈ σ₁, (info n).isCond = true →
      (info n).tru ∈ σ₁ ∨ (info n).fls ∈ σ₁ ∨ (info n).tru = (info n).fls)
    (hinj : ∀ a ∈ σ₁, ∀ b ∈ σ₁, ∀ x ∈ exitsOf info σ₁ a, ∀ y ∈ exitsOf info σ₁ b, num x = num y → x = y) :
    loopFollowEndless info num σ₁ = loopFollowEndless info num σ₂ := by
  unfold loopFollowEndless
  rw [← followStep_congr info num h]
  congr 1
  refine h.foldl_eq' (fun x hx y hy z => ?_) _
  rw [followStep_eq_offer info num σ₁ z x (h1 x hx), followStep_eq_offer info num σ₁ _ y (h1 y hy),
    followStep_eq_offer info num σ₁ z y (h1 y hy), followStep_eq_offer info num σ₁ _ x (h1 x hx)]
  exact offerO_comm num z _ _ (fun a ha b hb =>
    hinj x hx y hy a (cand_mem_exitsOf info σ₁ x a ha) b (cand_mem_exitsOf info σ₁ y b hb))

end AgVerif.Order
