/-
C28 deepening, step 5d: the content of a parse (`viewParsed`: every pool string through
`getString`, package names, chunks, resource ids, entries) and of an abstract table (`viewTable`);
the parse of an encoded table says exactly what the table says.  Core Lean only.
-/
import AgVerif.Proof.ArscTable
namespace AgVerif.Arsc
open AgVerif.Gen.ArscConsts AgVerif.Spec.Arsc


/-! ### what a parse says, and what a table says -/

structure ChunkView where
  typeId : Nat
  config : List Nat
  entries : List (Nat × RawEntry)          -- (resource id, entry)
deriving DecidableEq

structure PackageView where
  name : List Nat                          -- UTF-8
  typeNames : List (List Nat)
  keyNames : List (List Nat)
  chunks : List ChunkView
deriving DecidableEq

structure TableView where
  strings : List (List Nat)
  packages : List PackageView
deriving DecidableEq

def allSome {α : Type} : List (Option α) → Option (List α)
  | [] => some []
  | none :: _ => none
  | some x :: r => (allSome r).map (x :: ·)

/-- every string of a pool, through `getString` -/
def poolStrings (pl : Pool) : Option (List (List Nat)) :=
  allSome ((List.range pl.count.toNat).map pl.getString)

def viewChunk (c : TypeChunk) : ChunkView := ⟨c.typeId, c.config, c.ates.map fun a => (a.resId, a.e)⟩

def viewPackage (pk : Package) : Option PackageView := do
  let tn ← poolStrings pk.typePool
  let kn ← poolStrings pk.keyPool
  pure ⟨pk.name, tn, kn, pk.chunks.map viewChunk⟩

/-- the content of a parse: all strings (via `getString`), names, chunks, ids, entries -/
def viewParsed (ps : Parsed) : Option TableView := do
  let m ← ps.main
  let strs ← poolStrings m
  let pkgs ← allSome (ps.packages.map viewPackage)
  pure ⟨strs, pkgs⟩

def entriesOf (pkgId typeId : Nat) : Nat → List (Option Entry) → List (Nat × RawEntry)
  | _, [] => []
  | i, none :: r => entriesOf pkgId typeId (i + 1) r
  | i, some e :: r => (resId pkgId typeId i, rawOf e) :: entriesOf pkgId typeId (i + 1) r

/-- the content of an abstract table: texts in UTF-8, ids `package << 24 | type << 16 | index` -/
def viewTable (t : Table) : TableView :=
  ⟨t.strings.map utf8s, t.packages.map fun p =>
    ⟨utf8s p.name, p.typeNames.map utf8s, p.keyNames.map utf8s, p.chunks.map fun c =>
      ⟨c.typeId, c.config.words, entriesOf p.id c.typeId 0 c.slots⟩⟩⟩

theorem allSome_map_some {α : Type} (l : List α) : allSome (l.map some) = some l := by
  induction l with
  | nil => rfl
  | cons x r ih => simp [allSome, ih]

theorem poolStrings_poolOf (u8 : Bool) (strs : List (List Nat)) (hwf : strs.all wfStr = true) :
    poolStrings (poolOf u8 strs) = some (strs.map utf8s) := by
  unfold poolStrings
  have : (List.range (poolOf u8 strs).count.toNat).map (poolOf u8 strs).getString = (strs.map utf8s).map some := by
    apply List.ext_getElem
    · simp [poolOf]
    · intro i h1 h2
      simp only [List.getElem_map, List.getElem_range]
      have hi : i < strs.length := by simpa [poolOf] using h1
      exact pool_getString u8 strs hwf i hi
  rw [this, allSome_map_some]

theorem atesOf_view (pkgId typeId : Nat) (slots : List (Option Entry)) (i : Nat) :
    (atesOf pkgId typeId i slots).map (fun a => (a.resId, a.e)) = entriesOf pkgId typeId i slots := by
  induction slots generalizing i with
  | nil => rfl
  | cons s r ih => cases s <;> simp [atesOf, entriesOf, ih]

theorem viewPackage_packageOf (l : PkgLayout) (pk : Spec.Arsc.Package) (hwf : wfPackage l pk = true) :
    viewPackage (packageOf l pk) = some ⟨utf8s pk.name, pk.typeNames.map utf8s, pk.keyNames.map utf8s,
      pk.chunks.map fun c => ⟨c.typeId, c.config.words, entriesOf pk.id c.typeId 0 c.slots⟩⟩ := by
  obtain ⟨_, _, htn, hkn, _⟩ := (wfPackage_iff l pk).mp hwf
  simp only [viewPackage, packageOf, poolStrings_poolOf _ _ htn, poolStrings_poolOf _ _ hkn,
    Option.bind_eq_bind, Option.bind_some, Option.pure_def, List.map_map]
  congr 3
  funext c
  simp [viewChunk, chunkOf, atesOf_view]

theorem viewPackages (pl : Nat → PkgLayout) (pkgs : List Spec.Arsc.Package) (i : Nat)
    (hwf : wfPackages pl i pkgs = true) :
    allSome ((packagesOf pl i pkgs).map viewPackage) = some ((viewTable ⟨[], pkgs⟩).packages) := by
  induction pkgs generalizing i with
  | nil => rfl
  | cons pk r ih =>
    obtain ⟨hw1, hw2⟩ := (wfPackages_cons pl i pk r).mp hwf
    simp only [packagesOf, List.map_cons, allSome, viewPackage_packageOf _ _ hw1, ih (i + 1) hw2]
    rfl

theorem viewParsed_parsedOf (l : Layout) (t : Table) (hwf : wfTable l t = true) :
    viewParsed (parsedOf l t) = some (viewTable t) := by
  simp only [wfTable, Bool.and_eq_true, decide_eq_true_eq] at hwf
  obtain ⟨⟨_, hstr⟩, hpk⟩ := hwf
  simp only [viewParsed, parsedOf, poolStrings_poolOf _ _ hstr, viewPackages _ _ _ hpk,
    Option.bind_eq_bind, Option.bind_some, Option.pure_def]
  rfl

/-- (5) the parse of an encoded table says exactly what the table says -/
theorem viewParsed_enc (l : Layout) (t : Table) (hwf : wfTable l t = true) :
    (parseTable (encTable l t).toArray).bind viewParsed = some (viewTable t) := by
  rw [parseTable_enc l t hwf, Option.bind_some, viewParsed_parsedOf l t hwf]

/-- the same with trailing bytes after the table chunk -/
theorem viewParsed_enc_trailing (l : Layout) (t : Table) (tr : List Nat) (hwf : wfTable l t = true)
    (htr : (encTable l t).length + tr.length < 4294967296) :
    (parseTable (encTable l t ++ tr).toArray).bind viewParsed = some (viewTable t) := by
  rw [parseTable_enc_trailing l t tr hwf htr, Option.bind_some, viewParsed_parsedOf l t hwf]

/-- `get_packages_names()` on the parse of an encoded table -/
theorem packagesNames_enc (l : Layout) (t : Table) :
    packagesNames (parsedOf l t) = (t.packages.map fun p => utf8s p.name).eraseDups := by
  have : ∀ (pl : Nat → PkgLayout) (pkgs : List Spec.Arsc.Package) (i : Nat),
      (packagesOf pl i pkgs).map (·.name) = pkgs.map fun p => utf8s p.name := by
    intro pl pkgs
    induction pkgs with
    | nil => intro i; rfl
    | cons p r ih => intro i; simp [packagesOf, packageOf, ih]
  simp only [packagesNames, parsedOf, this]

end AgVerif.Arsc
