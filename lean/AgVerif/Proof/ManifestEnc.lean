/- C31, file level: when is the manifest's document well formed (`wfDoc` of C26) under an encoding choice. -/
import AgVerif.Proof.ManifestFile
set_option linter.unusedSimpArgs false
namespace AgVerif.Proof.Manifest
open AgVerif.Manifest AgVerif.Spec.Manifest AgVerif.Gen.AxmlConsts AgVerif.Spec.Axml
open AgVerif.Axml (Str Bytes Node Attr lit safeUri safePrefix xmlCompatible)

/-! ### `wfNode` = pool-independent shape + every string in the pool (any document) -/

/-- `wfAttr` without the membership tests -/
def attrShape (opq : Nat → Nat → Str) (E : Enc) (a : SAttr) : Bool :=
  a.ns.all safeUri && decide (LegalName a.name) && resNameOk E a && decide (a.ty < 256) && decide (a.raw < 2 ^ 32)
    && decide (a.data < 2 ^ 32) && valueOk opq a

mutual
/-- `wfNode` without the membership tests -/
def shapeOk (opq : Nat → Nat → Str) (E : Enc) : SNode → Bool
  | .elem line tag ns decls attrs kids =>
    decide (line < 2 ^ 32) && decide (LegalName tag) && ns.all safeUri && decls.all (fun d => safePrefix d.1 && safeUri d.2)
      && decide (attrs.length < 2 ^ 16) && attrs.all (attrShape opq E) && shapeOkL opq E kids
  | .text line s => decide (line < 2 ^ 32) && xmlCompatible s
def shapeOkL (opq : Nat → Nat → Str) (E : Enc) : List SNode → Bool
  | [] => true
  | n :: r => shapeOk opq E n && shapeOkL opq E r
end

theorem wfNs_of (E : Enc) (ns : Option Str) (h1 : ns.all safeUri = true) (h2 : ∀ s ∈ ns.toList, s ∈ E.strings) : wfNs E ns = true := by
  cases ns with
  | none => rfl
  | some u => simp only [wfNs, Bool.and_eq_true, decide_eq_true_eq]; exact ⟨h2 u (by simp), by simpa using h1⟩

theorem wfAttr_of (opq : Nat → Nat → Str) (E : Enc) (a : SAttr) (h : attrShape opq E a = true)
    (hs : ∀ s ∈ a.ns.toList ++ (a.name :: (if a.ty = 3 then [a.str] else [])), s ∈ E.strings) : wfAttr opq E a = true := by
  simp only [attrShape, Bool.and_eq_true, decide_eq_true_eq] at h
  obtain ⟨⟨⟨⟨⟨⟨h1, h2⟩, h3⟩, h4⟩, h5⟩, h6⟩, h7⟩ := h
  simp only [wfAttr, Bool.and_eq_true, decide_eq_true_eq, Bool.or_eq_true]
  refine ⟨⟨⟨⟨⟨⟨⟨⟨wfNs_of E a.ns h1 (fun s hs' => hs s (by simp [hs'])), hs a.name (by simp)⟩, h2⟩, h3⟩, h4⟩, h5⟩, h6⟩, ?_⟩, h7⟩
  by_cases ht : a.ty = 3
  · right; exact hs a.str (by simp [ht])
  · left; exact ht

mutual
theorem wfNode_of_shape (opq : Nat → Nat → Str) (E : Enc) :
    (d : SNode) → shapeOk opq E d = true → (∀ s ∈ stringsOf d, s ∈ E.strings) → wfNode opq E d = true
  | .elem line tag ns decls attrs kids => by
    intro h hs
    simp only [shapeOk, Bool.and_eq_true, decide_eq_true_eq, List.all_eq_true] at h
    obtain ⟨⟨⟨⟨⟨⟨h1, h2⟩, h3⟩, h4⟩, h5⟩, h6⟩, h7⟩ := h
    simp only [stringsOf, List.mem_cons, List.mem_append, List.mem_flatMap] at hs
    simp only [wfNode, Bool.and_eq_true, decide_eq_true_eq, List.all_eq_true]
    refine ⟨⟨⟨⟨⟨⟨⟨h1, hs tag (Or.inl rfl)⟩, h2⟩, wfNs_of E ns h3 (fun s hs' => hs s (Or.inr (Or.inl hs')))⟩, ?_⟩, h5⟩, ?_⟩, ?_⟩
    · intro d hd
      have := h4 d hd
      simp only [wfDecl, Bool.and_eq_true, decide_eq_true_eq]
      exact ⟨⟨⟨hs d.1 (Or.inr (Or.inr (Or.inl ⟨d, hd, by simp⟩))), hs d.2 (Or.inr (Or.inr (Or.inl ⟨d, hd, by simp⟩)))⟩, this.1⟩, this.2⟩
    · intro a ha
      exact wfAttr_of opq E a (h6 a ha) (fun s hs' => hs s (Or.inr (Or.inr (Or.inr (Or.inl ⟨a, ha, by simpa using hs'⟩)))))
    · exact wfNodes_of_shape opq E kids h7 (fun s hs' => hs s (Or.inr (Or.inr (Or.inr (Or.inr hs')))))
  | .text line s => by
    intro h hs
    simp only [shapeOk, Bool.and_eq_true, decide_eq_true_eq] at h
    simp only [wfNode, Bool.and_eq_true, decide_eq_true_eq]
    exact ⟨⟨h.1, hs s (by simp [stringsOf])⟩, h.2⟩
theorem wfNodes_of_shape (opq : Nat → Nat → Str) (E : Enc) :
    (l : List SNode) → shapeOkL opq E l = true → (∀ s ∈ stringsOfL l, s ∈ E.strings) → wfNodes opq E l = true
  | [] => by intro _ _; rfl
  | n :: r => by
    intro h hs
    simp only [shapeOkL, Bool.and_eq_true] at h
    simp only [stringsOfL, List.mem_append] at hs
    simp only [wfNodes, Bool.and_eq_true]
    exact ⟨wfNode_of_shape opq E n h.1 (fun s hs' => hs s (Or.inl hs')), wfNodes_of_shape opq E r h.2 (fun s hs' => hs s (Or.inr hs'))⟩
end

/-! ### the shape of the manifest's document -/

theorem shapeOkL_append (opq : Nat → Nat → Str) (E : Enc) (a b : List SNode) :
    shapeOkL opq E (a ++ b) = (shapeOkL opq E a && shapeOkL opq E b) := by
  induction a with
  | nil => simp [shapeOkL]
  | cons x r ih => simp [shapeOkL, ih, Bool.and_assoc]

theorem shapeOkL_map {α : Type} (opq : Nat → Nat → Str) (E : Enc) (f : α → SNode) (l : List α)
    (h : ∀ x ∈ l, shapeOk opq E (f x) = true) : shapeOkL opq E (l.map f) = true := by
  induction l with
  | nil => rfl
  | cons x r ih => simp [shapeOkL, h x (by simp), ih (fun y hy => h y (by simp [hy]))]

theorem Tag.legal (t : Tag) : LegalName t.str := by cases t <;> decide
theorem AName.legal (n : AName) : LegalName n.str := by cases n <;> decide

/-- the resource map does not rename the android attribute `n` (`resNameOk` of C26 for that attribute) -/
def resOk (E : Enc) (n : AName) : Bool := resNameOk E ((Val.bool false).sattr n)
/-- … nor the bare attribute `package` -/
def resOkPackage (E : Enc) : Bool := resNameOk E ⟨none, lit attrPackage, 0xFFFFFFFF, 3, 0, []⟩

theorem resNameOk_sattr (E : Enc) (n : AName) (v : Val) : resNameOk E (v.sattr n) = resOk E n := by cases v <;> rfl

theorem shape_sEl (opq : Nat → Nat → Str) (E : Enc) (ln : Nat) (t : Tag) (attrs : List SAttr) (kids : List SNode)
    (h1 : ln < 2 ^ 32) (h2 : attrs.length < 2 ^ 16) (h3 : attrs.all (attrShape opq E) = true) (h4 : shapeOkL opq E kids = true) :
    shapeOk opq E (sEl ln t attrs kids) = true := by
  simp [sEl, shapeOk, h1, h2, h4, Tag.legal t]
  simpa using h3

theorem attrShape_sattr (opq : Nat → Nat → Str) (E : Enc) (n : AName) (v : Val) (hr : resOk E n = true)
    (hf : v.fits = true) (hl : v.legal = true) : attrShape opq E (v.sattr n) = true := by
  have h0 : safeUri nsAndroid = true := by decide
  have hres := resNameOk_sattr E n v
  have hn := AName.legal n
  cases v with
  | str s =>
    have hl' : LegalValue s := by simpa [Val.legal, legalStr] using hl
    simp only [Val.sattr] at hres
    simp [attrShape, Val.sattr, valueOk, h0, hn, hres, hr, hl']
  | int d =>
    have hd : d < 4294967296 := by simpa [Val.fits] using hf
    simp only [Val.sattr] at hres
    simp [attrShape, Val.sattr, valueOk, h0, hn, hres, hr, hd]
  | bool b =>
    simp only [Val.sattr] at hres
    cases b <;> simp [attrShape, Val.sattr, valueOk, h0, hn, hres, hr] at hres ⊢ <;> simp [hres, hr]
  | ref id =>
    have hd : id < 4294967296 := by simpa [Val.fits] using hf
    simp only [Val.sattr] at hres
    simp [attrShape, Val.sattr, valueOk, h0, hn, hres, hr, hd]

theorem all_optSAttr (opq : Nat → Nat → Str) (E : Enc) (n : AName) (o : Option Val) (hr : resOk E n = true)
    (h : ∀ v ∈ o.toList, v.fits = true ∧ v.legal = true) : (optSAttr n o).all (attrShape opq E) = true := by
  cases o with
  | none => rfl
  | some v => simp [optSAttr, attrShape_sattr opq E n v hr (h v (by simp)).1 (h v (by simp)).2]

theorem length_optSAttr (n : AName) (o : Option Val) : (optSAttr n o).length ≤ 1 := by cases o <;> simp [optSAttr]

theorem shape_named (opq : Nat → Nat → Str) (E : Enc) (ln : Nat) (t : Tag) (x : Str) (h1 : ln < 2 ^ 32) (hr : resOk E .name = true)
    (hx : legalStr x = true) : shapeOk opq E (namedDoc ln t x) = true :=
  shape_sEl opq E ln t _ _ h1 (by simp) (by simp [attrShape_sattr opq E .name (.str x) hr rfl hx]) rfl

theorem shape_filter (opq : Nat → Nat → Str) (E : Enc) (ln : Nat) (f : Filter) (h1 : ln < 2 ^ 32) (hr : resOk E .name = true)
    (ha : f.actions.all legalStr = true) (hc : f.categories.all legalStr = true) : shapeOk opq E (f.doc ln) = true := by
  rw [List.all_eq_true] at ha hc
  refine shape_sEl opq E ln _ _ _ h1 (by simp) rfl ?_
  rw [shapeOkL_append, shapeOkL_map opq E _ _ (fun x hx => shape_named opq E ln _ x h1 hr (ha x hx)),
    shapeOkL_map opq E _ _ (fun x hx => shape_named opq E ln _ x h1 hr (hc x hx))]
  rfl

theorem shape_activity (opq : Nat → Nat → Str) (E : Enc) (ln : Nat) (a : Activity) (h1 : ln < 2 ^ 32) (hr : ∀ n, resOk E n = true)
    (hn : legalStr a.name = true) (he : ∀ v ∈ a.enabled.toList, v.fits = true ∧ v.legal = true) (ht : a.target.all legalStr = true)
    (hf : ∀ f ∈ a.filters, f.actions.all legalStr = true ∧ f.categories.all legalStr = true) :
    shapeOk opq E (a.doc ln) = true := by
  refine shape_sEl opq E ln _ _ _ h1 ?_ ?_ ?_
  · have := length_optSAttr .enabled a.enabled
    have := length_optSAttr .targetActivity (a.target.map .str)
    simp only [List.length_cons, List.length_append]; omega
  · simp only [List.all_cons, List.all_append, attrShape_sattr opq E .name (.str a.name) (hr _) rfl hn,
      all_optSAttr opq E _ _ (hr _) he, Bool.true_and]
    apply all_optSAttr opq E _ _ (hr _)
    intro v hv
    cases hta : a.target with
    | none => simp [hta] at hv
    | some s => simp [hta] at hv; subst hv; exact ⟨rfl, by simpa [hta, Val.legal] using ht⟩
  · exact shapeOkL_map opq E _ _ (fun f hf' => shape_filter opq E ln f h1 (hr _) (hf f hf').1 (hf f hf').2)

theorem shape_permission (opq : Nat → Nat → Str) (E : Enc) (ln : Nat) (p : UsesPermission) (h1 : ln < 2 ^ 32) (hr : ∀ n, resOk E n = true)
    (hn : legalStr p.name = true) (hm : ∀ v ∈ p.maxSdk.toList, v.fits = true ∧ v.legal = true) :
    shapeOk opq E (p.doc ln) = true := by
  refine shape_sEl opq E ln _ _ _ h1 ?_ ?_ rfl
  · have := length_optSAttr .maxSdk p.maxSdk
    simp only [List.length_cons]; omega
  · simp only [List.all_cons, attrShape_sattr opq E .name (.str p.name) (hr _) rfl hn, all_optSAttr opq E _ _ (hr _) hm, Bool.true_and]

theorem shape_usesSdk (opq : Nat → Nat → Str) (E : Enc) (ln : Nat) (s : UsesSdk) (h1 : ln < 2 ^ 32) (hr : ∀ n, resOk E n = true)
    (hv : ∀ v ∈ s.vals, v.fits = true ∧ v.legal = true) : shapeOk opq E (s.doc ln) = true := by
  refine shape_sEl opq E ln _ _ _ h1 ?_ ?_ rfl
  · have := length_optSAttr .minSdk s.min
    have := length_optSAttr .targetSdk s.target
    have := length_optSAttr .maxSdk s.max
    simp only [List.length_append]; omega
  · simp only [List.all_append, Bool.and_eq_true]
    exact ⟨all_optSAttr opq E _ _ (hr _) (fun v h => hv v (by simp [UsesSdk.vals, h])),
      all_optSAttr opq E _ _ (hr _) (fun v h => hv v (by simp [UsesSdk.vals, h])),
      all_optSAttr opq E _ _ (hr _) (fun v h => hv v (by simp [UsesSdk.vals, h]))⟩

theorem opt_all {α : Type} (o : Option α) (p : α → Bool) (h : o.all p = true) : ∀ v ∈ o.toList, p v = true := by
  cases o with
  | none => simp
  | some x => simpa using h

/-- the document of a manifest has the shape `wfDoc` asks for: line number and data are uint32, string values are XML
    strings, and the resource map renames none of the attributes -/
theorem shape_docOf (opq : Nat → Nat → Str) (E : Enc) (ln : Nat) (m : AppManifest) (h1 : ln < 2 ^ 32) (hr : ∀ n, resOk E n = true)
    (hp : resOkPackage E = true) (hf : m.fits = true) (hl : m.legal = true) : shapeOk opq E (docOf ln m) = true := by
  simp only [AppManifest.fits, AppManifest.vals, List.all_eq_true, List.mem_append, List.mem_flatMap] at hf
  simp only [AppManifest.legal, Bool.and_eq_true, List.all_eq_true] at hl
  obtain ⟨⟨⟨⟨⟨⟨⟨⟨⟨⟨l1, l2⟩, l3⟩, l4⟩, l5⟩, l6⟩, l7⟩, l8⟩, l9⟩, l10⟩, l11⟩ := hl
  have hpk : attrShape opq E ⟨none, lit attrPackage, 0xFFFFFFFF, 3, 0, m.package⟩ = true := by
    have e : resNameOk E ⟨none, lit attrPackage, 0xFFFFFFFF, 3, 0, m.package⟩ = resOkPackage E := rfl
    have hn : LegalName (lit attrPackage) := by decide
    have hv : LegalValue m.package := by simpa [legalStr] using l1
    simp [attrShape, e, hp, hn, valueOk, hv]
  have hvc : (optSAttr .versionCode m.versionCode).all (attrShape opq E) = true :=
    all_optSAttr opq E _ _ (hr _) (fun v hv => ⟨hf v (Or.inl hv), opt_all _ _ l2 v hv⟩)
  have hvn : (optSAttr .versionName (m.versionName.map .str)).all (attrShape opq E) = true := by
    apply all_optSAttr opq E _ _ (hr _)
    intro v hv
    cases hvn : m.versionName with
    | none => simp [hvn] at hv
    | some s => simp [hvn] at hv; subst hv; exact ⟨rfl, by simpa [hvn, Val.legal] using l3⟩
  have k1 : shapeOkL opq E (m.usesSdk.toList.map (UsesSdk.doc ln)) = true :=
    shapeOkL_map opq E _ _ (fun s hs => shape_usesSdk opq E ln s h1 hr (fun v hv =>
      ⟨hf v (Or.inr (Or.inl ⟨s, hs, hv⟩)), by
        have := opt_all _ _ l4 s hs
        simp only [List.all_eq_true] at this
        exact this v hv⟩))
  have k2 : shapeOkL opq E (m.permissions.map (UsesPermission.doc ln)) = true :=
    shapeOkL_map opq E _ _ (fun p hpm => by
      have := l5 p hpm
      exact shape_permission opq E ln p h1 hr this.1 (fun v hv =>
        ⟨hf v (Or.inr (Or.inr (Or.inl ⟨p, hpm, hv⟩))), opt_all _ _ this.2 v hv⟩))
  have k3 : ∀ (t : Tag) (l : List Str), (∀ x ∈ l, legalStr x = true) → shapeOkL opq E (l.map (namedDoc ln t)) = true :=
    fun t l hx => shapeOkL_map opq E _ _ (fun x hxl => shape_named opq E ln t x h1 (hr _) (hx x hxl))
  have k4 : shapeOkL opq E (m.activities.map (Activity.doc ln)) = true :=
    shapeOkL_map opq E _ _ (fun a ha => by
      obtain ⟨⟨⟨a1, a2⟩, a3⟩, a4⟩ := l7 a ha
      exact shape_activity opq E ln a h1 hr a1 (fun v hv => ⟨hf v (Or.inr (Or.inr (Or.inr ⟨a, ha, hv⟩))), opt_all _ _ a2 v hv⟩) a3
        (fun f hff => ⟨List.all_eq_true.2 (a4 f hff).1, List.all_eq_true.2 (a4 f hff).2⟩))
  have happ : shapeOk opq E (sEl ln .application []
      (m.activities.map (Activity.doc ln) ++ (m.services.map (namedDoc ln .service) ++ (m.receivers.map (namedDoc ln .receiver) ++
        (m.providers.map (namedDoc ln .provider) ++ m.libraries.map (namedDoc ln .usesLibrary)))))) = true := by
    refine shape_sEl opq E ln _ _ _ h1 (by simp) rfl ?_
    simp only [shapeOkL_append, k4, k3 _ _ l8, k3 _ _ l9, k3 _ _ l10, k3 _ _ l11, Bool.and_self]
  have hlen : (⟨none, lit attrPackage, 0xFFFFFFFF, 3, 0, m.package⟩ ::
      (optSAttr .versionCode m.versionCode ++ optSAttr .versionName (m.versionName.map .str))).length < 2 ^ 16 := by
    have := length_optSAttr .versionCode m.versionCode
    have := length_optSAttr .versionName (m.versionName.map .str)
    simp only [List.length_cons, List.length_append]; omega
  have hd : (safePrefix (lit "android") && safeUri nsAndroid) = true := by decide
  simp only [docOf, shapeOk, h1, Tag.legal, hlen, List.all_cons, List.all_append, List.all_nil, hpk, hvc, hvn, hd, decide_true,
    Option.all_none, Bool.and_self, Bool.true_and, shapeOkL_append, k1, k2, k3 _ _ l6, shapeOkL, happ]

/-! ### namespace declarations: only `android` on the root -/

theorem allDeclsL_append (a b : List SNode) : allDeclsL (a ++ b) = allDeclsL a ++ allDeclsL b := by
  induction a with
  | nil => simp [allDeclsL]
  | cons x r ih => simp [allDeclsL, ih]

theorem allDeclsL_map {α : Type} (f : α → SNode) (l : List α) (h : ∀ x, allDecls (f x) = []) : allDeclsL (l.map f) = [] := by
  induction l with
  | nil => rfl
  | cons x r ih => simp [allDeclsL, h, ih]

theorem allDecls_sEl (ln : Nat) (t : Tag) (attrs : List SAttr) (kids : List SNode) : allDecls (sEl ln t attrs kids) = allDeclsL kids := by
  simp [sEl, allDecls]

theorem allDecls_named (ln : Nat) (t : Tag) (x : Str) : allDecls (namedDoc ln t x) = [] := by
  simp [namedDoc, allDecls_sEl, allDeclsL]

theorem allDecls_filter (ln : Nat) (f : Filter) : allDecls (f.doc ln) = [] := by
  simp [Filter.doc, allDecls_sEl, allDeclsL_append, allDeclsL_map _ _ (allDecls_named ln _)]

theorem allDecls_docOf (ln : Nat) (m : AppManifest) : allDecls (docOf ln m) = [(lit "android", nsAndroid)] := by
  have ha : ∀ a : Activity, allDecls (a.doc ln) = [] := fun a => by
    simp [Activity.doc, allDecls_sEl, allDeclsL_map _ _ (allDecls_filter ln)]
  have hp : ∀ p : UsesPermission, allDecls (p.doc ln) = [] := fun p => by simp [UsesPermission.doc, allDecls_sEl, allDeclsL]
  have hs : ∀ s : UsesSdk, allDecls (s.doc ln) = [] := fun s => by simp [UsesSdk.doc, allDecls_sEl, allDeclsL]
  simp [docOf, allDecls, allDeclsL_append, allDeclsL_map _ _ ha, allDeclsL_map _ _ hp, allDeclsL_map _ _ hs,
    allDeclsL_map _ _ (allDecls_named ln _), allDeclsL, allDecls_sEl]

/-- The manifest's document is a well-formed document of C26 under the encoding choice `E` as soon as: the line number and
    the integer / reference data are uint32, the string values are XML strings, every string of the document is in the pool,
    the pool's strings fit its flavour, the resource map renames none of the attributes, the file is shorter than 2^32 bytes. -/
theorem wfDoc_docOf (opq : Nat → Nat → Str) (E : Enc) (ln : Nat) (m : AppManifest) (h1 : ln < 2 ^ 32) (hf : m.fits = true)
    (hl : m.legal = true) (hr : ∀ n, resOk E n = true) (hp : resOkPackage E = true)
    (hs : ∀ s ∈ stringsOf (docOf ln m), s ∈ E.strings) (hpool : ∀ s ∈ E.strings, StrOk E.utf8 s)
    (hids : ∀ i ∈ E.resIds.getD [], i < 2 ^ 32) (hsz : (encodeAxml E (docOf ln m)).length < 2 ^ 32) :
    wfDoc opq E (docOf ln m) = true := by
  have hnode := wfNode_of_shape opq E (docOf ln m) (shape_docOf opq E ln m h1 hr hp hf hl) hs
  simp only [wfDoc, hnode, allDecls_docOf, Bool.and_eq_true, decide_eq_true_eq, List.all_eq_true]
  refine ⟨⟨⟨⟨⟨rfl, trivial⟩, ?_⟩, hpool⟩, hids⟩, hsz⟩
  intro a ha b hb _
  simp only [List.mem_singleton] at ha hb
  rw [ha, hb]

/-! ### the canonical encoding choice always works -/

theorem sidx_canon (utf8 wide : Bool) (d : SNode) (n : AName) : sidx (canonEnc utf8 wide d) n.str = allANames.idxOf n := by
  have hm : n.str ∈ allANames.map AName.str := List.mem_map_of_mem (by cases n <;> decide)
  simp only [sidx, canonEnc]
  rw [List.idxOf_append, if_pos hm]
  cases n <;> decide

theorem resOk_canon (utf8 wide : Bool) (d : SNode) (n : AName) : resOk (canonEnc utf8 wide d) n = true := by
  have h := sidx_canon utf8 wide d n
  have hn : ((Val.bool false).sattr n).name = n.str := rfl
  simp only [resOk, resNameOk, hn, h]
  simp only [canonEnc, Option.getD_some]
  cases n <;> decide +kernel

theorem resOkPackage_canon (utf8 wide : Bool) (d : SNode) : resOkPackage (canonEnc utf8 wide d) = true := by
  have hm : lit attrPackage ∉ allANames.map AName.str := by decide
  have h8 : (allANames.map attrResId).length ≤ sidx (canonEnc utf8 wide d) (lit attrPackage) := by
    simp only [sidx, canonEnc]
    rw [List.idxOf_append, if_neg hm]
    simp [allANames]
  simp only [resOkPackage, resNameOk]
  rw [show ((canonEnc utf8 wide d).resIds.getD []) = allANames.map attrResId from rfl, List.getElem?_eq_none h8]

theorem names_strOk (utf8 : Bool) : ∀ s ∈ allANames.map AName.str, StrOk utf8 s := by cases utf8 <;> decide

/-- for every manifest whose document's strings fit the pool flavour there is an encoding choice under which the document is
    well formed: the canonical one -/
theorem wfDoc_canon (opq : Nat → Nat → Str) (utf8 wide : Bool) (ln : Nat) (m : AppManifest) (h1 : ln < 2 ^ 32) (hf : m.fits = true)
    (hl : m.legal = true) (hstr : ∀ s ∈ stringsOf (docOf ln m), StrOk utf8 s)
    (hsz : (encodeAxml (canonEnc utf8 wide (docOf ln m)) (docOf ln m)).length < 2 ^ 32) :
    wfDoc opq (canonEnc utf8 wide (docOf ln m)) (docOf ln m) = true := by
  refine wfDoc_docOf opq _ ln m h1 hf hl (resOk_canon utf8 wide _) (resOkPackage_canon utf8 wide _) ?_ ?_ ?_ hsz
  · intro s hs; simp only [canonEnc, List.mem_append]; exact Or.inr hs
  · intro s hs
    simp only [canonEnc, List.mem_append] at hs
    rcases hs with hs | hs
    · exact names_strOk utf8 s hs
    · exact hstr s hs
  · show ∀ i ∈ allANames.map attrResId, i < 2 ^ 32
    decide

end AgVerif.Proof.Manifest
