import AgVerif.Model.Paths
import AgVerif.Proof.PathsNorm
/-!
`Below out p`: the normalised components of `p` are those of `out` FOLLOWED BY real path components
(`SafeComp`: non-empty, no '/', not "." and not ".."), and the root kind is the same.  Unlike the
prefix test `Inside`, this says something for output directories that normalise to no component
(".", "", "a/.."): nothing of the form `../x` is `Below "."`.
-/
namespace AgVerif.Paths

def Below (out p : Path) : Prop :=
  ∃ cs : List Path, (∀ c ∈ cs, SafeComp c) ∧ normComps p = normComps out ++ cs ∧
    initialSlashes p = initialSlashes out

def StrictlyBelow (out p : Path) : Prop :=
  ∃ cs : List Path, cs ≠ [] ∧ (∀ c ∈ cs, SafeComp c) ∧ normComps p = normComps out ++ cs ∧
    initialSlashes p = initialSlashes out

theorem StrictlyBelow.below {out p : Path} (h : StrictlyBelow out p) : Below out p := by
  obtain ⟨cs, _, a, b, c⟩ := h; exact ⟨cs, a, b, c⟩

theorem Below.inside {out p : Path} (h : Below out p) : Inside out p := by
  obtain ⟨cs, _, b, c⟩ := h; exact inside_of_comps out p cs b c

theorem StrictlyBelow.strictlyInside {out p : Path} (h : StrictlyBelow out p) : StrictlyInside out p := by
  obtain ⟨cs, hne, _, b, c⟩ := h; exact strictlyInside_of_comps out p cs hne b c

/-- everything after the output directory's own components is a real component: no `..`, no `.` -/
theorem Below.tail_safe {out p : Path} (h : Below out p) :
    ∀ c ∈ (normComps p).drop (normComps out).length, SafeComp c := by
  obtain ⟨cs, hs, b, _⟩ := h
  rw [b, List.drop_left]; exact hs

/-- for an output directory without components (".", "", "a/..") NO component of the target is ".." -/
theorem Below.no_dotdot_of_empty {out p : Path} (h : Below out p) (he : normComps out = []) :
    ∀ c ∈ normComps p, c ≠ dotdot ∧ c ≠ dot ∧ c ≠ [] ∧ sep ∉ c := by
  obtain ⟨cs, hs, b, _⟩ := h
  rw [b, he, List.nil_append]
  intro c hc
  have := hs c hc
  exact ⟨this.2.2.2, this.2.2.1, this.1, this.2.1⟩

theorem class_dir_below (out cls d : List Char) (h : classDir out cls = some d) : Below out d := by
  unfold classDir at h
  cases hv : validClassName cls with
  | none => simp [hv] at h
  | some v =>
    simp [hv] at h
    obtain ⟨cs, hcs, rfl⟩ := validClassName_safe cls v hv
    subst h
    exact ⟨cs, hcs, normComps_join2_join out cs hcs, initialSlashes_join2_join out cs hcs⟩

theorem java_file_below (out cls j : List Char) (h : javaFile out cls = some j) :
    StrictlyBelow out j := by
  unfold javaFile at h
  cases hv : validClassName cls with
  | none => simp [hv] at h
  | some v =>
    simp [hv] at h
    obtain ⟨cs, hcs, rfl⟩ := validClassName_safe cls v hv
    subst h
    obtain ⟨cs', hcs', hne, heq⟩ := join_nil_append_suffix cs hcs Gen.Paths.javaSuffix
      (by decide) ⟨'j', by decide, by decide⟩
    rw [heq]
    exact ⟨cs', hne, hcs', normComps_join2_join out cs' hcs', initialSlashes_join2_join out cs' hcs'⟩

theorem method_target_below (out v short' f ext : List Char) (cs : List Path)
    (hcs : ∀ c ∈ cs, SafeComp c) (hv : v = join [] cs) (hs : sep ∉ short') (hf : sep ∉ f)
    (hext : ext ≠ [] ∧ sep ∉ ext ∧ '.' ∉ ext) :
    StrictlyBelow out (join2 (split (join2 (join2 out v) short')).1 f ++ '.' :: ext) := by
  subst hv
  obtain ⟨hne, hes, hed⟩ := hext
  obtain ⟨e, et, rfl⟩ := List.exists_cons_of_ne_nil hne
  have hg : SafeComp (f ++ '.' :: e :: et) := by
    apply safe_append f _ hf
    · simp [sep] at hes ⊢; exact hes
    · refine ⟨e, by simp, ?_⟩
      rintro rfl; simp at hed
  obtain ⟨h1, h2⟩ := split_join2_sameNorm (join2 out (join [] cs)) short' hs
  rw [join2_append _ f _ (noLeadSlash_of_noSep f hf) (safe_noLeadSlash _ hg)]
  obtain ⟨h3, h4⟩ := join2_safe (split (join2 (join2 out (join [] cs)) short')).1 _ hg
  refine ⟨cs ++ [f ++ '.' :: e :: et], by simp, ?_, ?_, ?_⟩
  · intro c hc
    rcases List.mem_append.mp hc with h | h
    · exact hcs c h
    · simp at h; rw [h]; exact hg
  · rw [h3, h1, normComps_join2_join out cs hcs, List.append_assoc]
  · rw [h4, h2, initialSlashes_join2_join out cs hcs]

theorem method_target_below_classDir (out cls d short f ext : List Char)
    (h : classDir out cls = some d) (hf : sep ∉ f) (hext : ext ≠ [] ∧ sep ∉ ext ∧ '.' ∉ ext) :
    StrictlyBelow out (join2 (split (join2 d (sanitizeShort short))).1 f ++ '.' :: ext) := by
  unfold classDir at h
  cases hv : validClassName cls with
  | none => simp [hv] at h
  | some v =>
    simp [hv] at h
    obtain ⟨cs, hcs, hvj⟩ := validClassName_safe cls v hv
    subst h
    exact method_target_below out v _ f ext cs hcs hvj (sanitizeShort_no_sep short) hf hext

end AgVerif.Paths
