/-
Lemmas for C13..C16, part 6: the order-forgetting `view` of an analysis and its invariance under
every rearrangement of the same classes (and pool strings) into DEX files.
-/
import AgVerif.Proof.XrefProg

namespace AgVerif.Xref

/-- everything observable, with the association-list order (and multiplicity) forgotten -/
structure View where
  classes : String → Option Bool
  methods : MKey → Option Bool
  fields : String × FKey → Prop
  strings : String → Prop
  callTo : MKey × MKey × Nat → Prop
  callFrom : MKey × MKey × Nat → Prop
  clsTo : ClsRef → Prop
  clsFrom : ClsRef → Prop
  newInstM : MKey × String × Nat → Prop
  newInstC : String × MKey × Nat → Prop
  constClsM : MKey × String × Nat → Prop
  constClsC : String × MKey × Nat → Prop
  strFrom : String × MKey × Nat → Prop
  fRead : (String × FKey) × MKey × Nat → Prop
  fWrite : (String × FKey) × MKey × Nat → Prop
  mRead : MKey × FKey × Nat → Prop
  mWrite : MKey × FKey × Nat → Prop
  callGraph : MKey × MKey → Prop

def view (db : DB) : View :=
  { classes := dget db.classes, methods := dget db.methods,
    fields := (· ∈ db.fields), strings := (· ∈ db.strings),
    callTo := (· ∈ db.callTo), callFrom := (· ∈ db.callFrom),
    clsTo := (· ∈ db.clsTo), clsFrom := (· ∈ db.clsFrom),
    newInstM := (· ∈ db.newInstM), newInstC := (· ∈ db.newInstC),
    constClsM := (· ∈ db.constClsM), constClsC := (· ∈ db.constClsC),
    strFrom := (· ∈ db.strFrom), fRead := (· ∈ db.fRead), fWrite := (· ∈ db.fWrite),
    mRead := (· ∈ db.mRead), mWrite := (· ∈ db.mWrite), callGraph := (· ∈ callGraph db) }

/-- two programs hold the same classes and the same pool strings -/
def SameContent (p q : List Dex) : Prop :=
  (∀ c, c ∈ Spec.allClasses p ↔ c ∈ Spec.allClasses q) ∧ (∀ s, Spec.InPool p s ↔ Spec.InPool q s)

theorem sites_congr {p q : List Dex} (h : SameContent p q) (s : Spec.Site) :
    s ∈ Spec.sites p ↔ s ∈ Spec.sites q := by
  simp only [Spec.sites, List.mem_flatMap]
  constructor
  · rintro ⟨c, hc, r⟩; exact ⟨c, (h.1 c).1 hc, r⟩
  · rintro ⟨c, hc, r⟩; exact ⟨c, (h.1 c).2 hc, r⟩

theorem exists_sites_congr {p q : List Dex} (h : SameContent p q) (P : Spec.Site → Prop) :
    (∃ s ∈ Spec.sites p, P s) ↔ (∃ s ∈ Spec.sites q, P s) := by
  constructor
  · rintro ⟨s, hs, r⟩; exact ⟨s, (sites_congr h s).1 hs, r⟩
  · rintro ⟨s, hs, r⟩; exact ⟨s, (sites_congr h s).2 hs, r⟩

theorem exists_classes_congr {p q : List Dex} (h : SameContent p q) (P : Class → Prop) :
    (∃ c ∈ Spec.allClasses p, P c) ↔ (∃ c ∈ Spec.allClasses q, P c) := by
  constructor
  · rintro ⟨c, hc, r⟩; exact ⟨c, (h.1 c).1 hc, r⟩
  · rintro ⟨c, hc, r⟩; exact ⟨c, (h.1 c).2 hc, r⟩

section congr
variable {p q : List Dex} (h : SameContent p q)
include h

theorem calls_congr : Spec.Calls p = Spec.Calls q := by
  funext a b off; exact propext (exists_sites_congr h _)
theorem callsWith_congr : Spec.CallsWith p = Spec.CallsWith q := by
  funext op a b off; exact propext (exists_sites_congr h _)
theorem uses_congr : Spec.Uses p = Spec.Uses q := by
  funext op m c off; exact propext (exists_sites_congr h _)
theorem loads_congr : Spec.LoadsString p = Spec.LoadsString q := by
  funext s m off; exact propext (exists_sites_congr h _)
theorem reads_congr : Spec.Reads p = Spec.Reads q := by
  funext f m off; exact propext (exists_sites_congr h _)
theorem writes_congr : Spec.Writes p = Spec.Writes q := by
  funext f m off; exact propext (exists_sites_congr h _)
theorem definedM_congr : Spec.DefinedM p = Spec.DefinedM q := by
  funext k; exact propext (exists_classes_congr h _)
theorem definedF_congr : Spec.DefinedF p = Spec.DefinedF q := by
  funext k; exact propext (exists_classes_congr h _)
theorem definedC_congr : Spec.DefinedC p = Spec.DefinedC q := by
  funext k; exact propext (exists_classes_congr h _)
theorem inPool_congr : Spec.InPool p = Spec.InPool q := by
  funext s; exact propext (h.2 s)
theorem called_congr : Spec.Called p = Spec.Called q := by
  funext k; unfold Spec.Called; rw [calls_congr h]
theorem referenced_congr : Spec.Referenced p = Spec.Referenced q := by
  funext c; unfold Spec.Referenced; rw [called_congr h, uses_congr h]
theorem accessedFrom_congr : Spec.AccessedFrom p = Spec.AccessedFrom q := by
  funext f c; unfold Spec.AccessedFrom; rw [reads_congr h, writes_congr h]

/-- the view depends only on which classes and pool strings the program holds -/
theorem view_congr : view (analyse p) = view (analyse q) := by
  unfold view
  congr 1
  · funext c; rw [dget_classes, dget_classes, definedC_congr h, referenced_congr h]
  · funext k; rw [dget_methods, dget_methods, definedM_congr h, called_congr h]
  · funext ⟨c, f⟩; apply propext; rw [fields_iff, fields_iff, definedF_congr h, accessedFrom_congr h]
  · funext s; apply propext; rw [strings_iff, strings_iff, inPool_congr h, loads_congr h]
  · funext ⟨a, b, off⟩; apply propext; rw [callTo_iff, callTo_iff, calls_congr h]
  · funext ⟨a, b, off⟩; apply propext; rw [callFrom_iff, callFrom_iff, calls_congr h]
  · funext r; apply propext; rw [clsTo_iff, clsTo_iff, callsWith_congr h, uses_congr h]
  · funext r; apply propext; rw [clsFrom_iff, clsFrom_iff, callsWith_congr h, uses_congr h]
  · funext ⟨a, b, off⟩; apply propext; rw [newInstM_iff, newInstM_iff, uses_congr h]
  · funext ⟨a, b, off⟩; apply propext; rw [newInstC_iff, newInstC_iff, uses_congr h]
  · funext ⟨a, b, off⟩; apply propext; rw [constClsM_iff, constClsM_iff, uses_congr h]
  · funext ⟨a, b, off⟩; apply propext; rw [constClsC_iff, constClsC_iff, uses_congr h]
  · funext ⟨a, b, off⟩; apply propext; rw [strFrom_iff, strFrom_iff, loads_congr h]
  · funext ⟨⟨c, f⟩, m, off⟩; apply propext; rw [fRead_iff, fRead_iff, definedF_congr h, reads_congr h]
  · funext ⟨⟨c, f⟩, m, off⟩; apply propext; rw [fWrite_iff, fWrite_iff, definedF_congr h, writes_congr h]
  · funext ⟨m, f, off⟩; apply propext; rw [mRead_iff, mRead_iff, definedF_congr h, reads_congr h]
  · funext ⟨m, f, off⟩; apply propext; rw [mWrite_iff, mWrite_iff, definedF_congr h, writes_congr h]
  · funext ⟨a, b⟩; apply propext
    rw [callGraph_iff, callGraph_iff]
    simp only [callTo_iff, calls_congr h]

end congr

theorem eq_singleton_of_nodup {α : Type} (l : List α) (a : α) (hn : l.Nodup) (hall : ∀ x ∈ l, x = a)
    (hmem : a ∈ l) : l = [a] := by
  cases l with
  | nil => cases hmem
  | cons x r =>
    have hx : x = a := hall x (List.mem_cons_self)
    subst hx
    cases r with
    | nil => rfl
    | cons y r' =>
      have hy : y = x := hall y (by simp)
      subst hy
      simp at hn

end AgVerif.Xref
