/-
Lemmas for C04 `print_denotes`: Python's `str(int)` / `hex(int)` as modelled (`digitsBE`, `natStr`,
`pyDec`, `pyHex`) read back by the Java literal reader of the specification.
-/
import AgVerif.Model.EncodedValue
import AgVerif.Spec.EncodedValue
namespace AgVerif.EncodedValue
open AgVerif.Spec.EncodedValue

/-! ### digit characters (finite facts, checked over all 16 digits) -/

theorem digitVal_digitChar : ∀ d : Fin 16, digitVal (digitChar d.val) = some d.val := by decide
theorem digitChar_not_special : ∀ d : Fin 16,
    digitChar d.val ≠ 'L' ∧ digitChar d.val ≠ 'l' ∧ digitChar d.val ≠ 'x' ∧ digitChar d.val ≠ 'X'
    ∧ digitChar d.val ≠ '-' := by decide
theorem digitChar_dec : ∀ d : Fin 10,
    (digitChar d.val).isDigit = true ∧ (digitChar d.val = '0' ↔ d.val = 0) := by decide

def f (b : Nat) (a d : Nat) : Nat := a * b + d

theorem numeralGo_digits (b : Nat) (hb : b ≤ 16) (ds : List Nat) (h : ∀ d ∈ ds, d < b) (acc : Nat) :
    numeralGo b (ds.map digitChar) acc = some (ds.foldl (f b) acc) := by
  induction ds generalizing acc with
  | nil => rfl
  | cons d ds ih =>
    have hd : d < b := h d (by simp)
    have := digitVal_digitChar ⟨d, by omega⟩
    simp only [List.map_cons, numeralGo, this, hd, if_true, List.foldl_cons, f] at *
    exact ih (fun x hx => h x (by simp [hx])) _

/-! ### digitsBE -/

theorem digitsBE_lt (b : Nat) (hb : 2 ≤ b) (fuel n : Nat) (acc : List Nat) (ha : ∀ d ∈ acc, d < b) :
    ∀ d ∈ digitsBE b fuel n acc, d < b := by
  induction fuel generalizing n acc with
  | zero =>
    intro d hd
    simp only [digitsBE, List.mem_cons] at hd
    rcases hd with rfl | hd
    · exact Nat.mod_lt _ (by omega)
    · exact ha d hd
  | succ fuel ih =>
    intro d hd
    simp only [digitsBE] at hd
    split at hd
    · simp only [List.mem_cons] at hd
      rcases hd with rfl | hd
      · assumption
      · exact ha d hd
    · refine ih (n / b) ((n % b) :: acc) ?_ d hd
      intro x hx
      simp only [List.mem_cons] at hx
      rcases hx with rfl | hx
      · exact Nat.mod_lt _ (by omega)
      · exact ha x hx

theorem digitsBE_value (b : Nat) (hb : 2 ≤ b) (fuel n : Nat) (acc : List Nat) (hn : n ≤ fuel) :
    (digitsBE b fuel n acc).foldl (f b) 0 = acc.foldl (f b) n := by
  induction fuel generalizing n acc with
  | zero =>
    have : n = 0 := by omega
    subst this
    simp [digitsBE, f]
  | succ fuel ih =>
    simp only [digitsBE]
    split
    · simp [f]
    · rename_i hlt
      have hdiv : n / b ≤ fuel := by
        have : n / b < n := Nat.div_lt_self (by omega) (by omega)
        omega
      rw [ih (n / b) _ hdiv]
      simp only [List.foldl_cons, f]
      rw [Nat.div_add_mod' n b]

/-- shape of the digit list: non-empty; a single `0` for zero; no leading zero otherwise -/
theorem digitsBE_head (b : Nat) (hb : 2 ≤ b) (fuel n : Nat) (acc : List Nat) (hn : n ≤ fuel) :
    ∃ d ds, digitsBE b fuel n acc = d :: ds ∧ (n = 0 → d = 0 ∧ ds = acc) ∧ (n ≠ 0 → d ≠ 0) := by
  induction fuel generalizing n acc with
  | zero =>
    have : n = 0 := by omega
    subst this
    exact ⟨0, acc, by simp [digitsBE], fun _ => ⟨rfl, rfl⟩, fun h => absurd rfl h⟩
  | succ fuel ih =>
    simp only [digitsBE]
    split
    · exact ⟨n, acc, rfl, fun h => ⟨h, rfl⟩, fun h => h⟩
    · rename_i hlt
      have hdiv : n / b ≤ fuel := by
        have : n / b < n := Nat.div_lt_self (by omega) (by omega)
        omega
      have hne : n / b ≠ 0 := by
        intro h0
        have := (Nat.div_eq_zero_iff_lt (by omega : 0 < b)).mp h0
        omega
      obtain ⟨d, ds, e, _, h2⟩ := ih (n / b) ((n % b) :: acc) hdiv
      exact ⟨d, ds, e, fun h => by omega, fun _ => h2 hne⟩

/-! ### natStr read back -/

theorem natStr_eq (b n : Nat) : natStr b n = (digitsBE b n n []).map digitChar := rfl

theorem numeral_natStr (b : Nat) (hb : 2 ≤ b) (hb' : b ≤ 16) (n : Nat) :
    numeral b (natStr b n) = some n := by
  obtain ⟨d, ds, e, _, _⟩ := digitsBE_head b hb n n [] (Nat.le_refl _)
  have hl := digitsBE_lt b hb n n [] (by simp)
  have hv := digitsBE_value b hb n n [] (Nat.le_refl _)
  rw [natStr_eq, e] at *
  simp only [List.map_cons, numeral]
  have := numeralGo_digits b hb' (d :: ds) hl 0
  simp only [List.map_cons] at this
  rw [this, hv]; rfl

theorem decimalNumeral_natStr (n : Nat) : decimalNumeral (natStr 10 n) = some n := by
  obtain ⟨d, ds, e, h0, h1⟩ := digitsBE_head 10 (by omega) n n [] (Nat.le_refl _)
  have hl := digitsBE_lt 10 (by omega) n n [] (by simp)
  have hnum := numeral_natStr 10 (by omega) (by omega) n
  rw [natStr_eq, e] at *
  cases ds with
  | nil => simpa [decimalNumeral] using hnum
  | cons d2 ds' =>
    have hne : n ≠ 0 := by
      intro hz
      have := (h0 hz).2
      simp at this
    have hd : d < 10 := hl d (by simp)
    have hd0 : digitChar d ≠ '0' := by
      intro hc
      exact h1 hne ((digitChar_dec ⟨d, hd⟩).2.mp hc)
    simp only [List.map_cons, decimalNumeral, hd0, if_false] at *
    exact hnum

/-- all characters of a printed number are digit characters -/
theorem natStr_chars (b : Nat) (hb : 2 ≤ b) (hb' : b ≤ 16) (n : Nat) :
    ∀ c ∈ natStr b n, c ≠ 'L' ∧ c ≠ 'l' ∧ c ≠ 'x' ∧ c ≠ 'X' ∧ c ≠ '-' := by
  intro c hc
  rw [natStr_eq, List.mem_map] at hc
  obtain ⟨d, hd, rfl⟩ := hc
  have := digitsBE_lt b hb n n [] (by simp) d hd
  exact digitChar_not_special ⟨d, by omega⟩

theorem natStr_head (n : Nat) : ∃ c cs, natStr 10 n = c :: cs ∧ c.isDigit = true ∧ c ≠ '-' := by
  obtain ⟨d, ds, e, _, _⟩ := digitsBE_head 10 (by omega) n n [] (Nat.le_refl _)
  have hl := digitsBE_lt 10 (by omega) n n [] (by simp)
  rw [e] at hl
  have hd : d < 10 := hl d (by simp)
  refine ⟨digitChar d, ds.map digitChar, by rw [natStr_eq, e]; rfl, (digitChar_dec ⟨d, hd⟩).1, ?_⟩
  exact (digitChar_not_special ⟨d, by omega⟩).2.2.2.2

/-! ### suffix -/

theorem splitSuffix_plain (cs : List Char) (h : ∀ c ∈ cs, c ≠ 'L' ∧ c ≠ 'l') :
    splitSuffix cs = (cs, false) := by
  induction cs with
  | nil => rfl
  | cons c cs ih =>
    cases cs with
    | nil =>
      have := h c (by simp)
      simp [splitSuffix, this.1, this.2]
    | cons c2 cs' =>
      have := ih (fun x hx => h x (by simp [hx]))
      simp only [splitSuffix] at this ⊢
      rw [this]

theorem splitSuffix_L (cs : List Char) (h : ∀ c ∈ cs, c ≠ 'L' ∧ c ≠ 'l') :
    splitSuffix (cs ++ ['L']) = (cs, true) := by
  induction cs with
  | nil => simp [splitSuffix]
  | cons c cs ih =>
    have := ih (fun x hx => h x (by simp [hx]))
    cases cs with
    | nil => simp [splitSuffix]
    | cons c2 cs' =>
      simp only [List.cons_append, splitSuffix] at this ⊢
      rw [this]

/-! ### whole literals -/

theorem unsignedLit_dec (n : Nat) : unsignedLit (natStr 10 n) = some (false, n) := by
  have hd := decimalNumeral_natStr n
  have hc := natStr_chars 10 (by omega) (by omega) n
  obtain ⟨c, cs, e, _, _⟩ := natStr_head n
  rw [e] at hd hc ⊢
  cases cs with
  | nil => simp [unsignedLit, hd]
  | cons c1 ds =>
    have h1 := hc c1 (by simp)
    simp [unsignedLit, hd, h1.2.2.1, h1.2.2.2.1]

theorem unsignedLit_hex (n : Nat) : unsignedLit ('0' :: 'x' :: natStr 16 n) = some (true, n) := by
  simp [unsignedLit, numeral_natStr 16 (by omega) (by omega) n]

theorem numericLit_dec (neg : Bool) (n : Nat) :
    numericLit neg (natStr 10 n) = (intLitValue 32 neg false n).map .int := by
  have hs := splitSuffix_plain (natStr 10 n)
    (fun c hc => let h := natStr_chars 10 (by omega) (by omega) n c hc; ⟨h.1, h.2.1⟩)
  simp [numericLit, hs, unsignedLit_dec]

theorem numericLit_decL (neg : Bool) (n : Nat) :
    numericLit neg (natStr 10 n ++ ['L']) = (intLitValue 64 neg false n).map .long := by
  have hs := splitSuffix_L (natStr 10 n)
    (fun c hc => let h := natStr_chars 10 (by omega) (by omega) n c hc; ⟨h.1, h.2.1⟩)
  simp [numericLit, hs, unsignedLit_dec]

theorem numericLit_hex (neg : Bool) (n : Nat) :
    numericLit neg ('0' :: 'x' :: natStr 16 n) = (intLitValue 32 neg true n).map .int := by
  have hs := splitSuffix_plain ('0' :: 'x' :: natStr 16 n) (by
    intro c hc
    simp only [List.mem_cons] at hc
    rcases hc with rfl | rfl | hc
    · decide
    · decide
    · exact let h := natStr_chars 16 (by omega) (by omega) n c hc; ⟨h.1, h.2.1⟩)
  simp [numericLit, hs, unsignedLit_hex]

theorem java_pyDec (v : Int) :
    javaLiteralValue (pyDec v) = (intLitValue 32 (decide (v < 0)) false v.natAbs).map .int := by
  by_cases hv : v < 0
  · simp [pyDec, hv, javaLiteralValue, numericLit_dec]
  · obtain ⟨c, cs, e, hdig, hm⟩ := natStr_head v.natAbs
    have := numericLit_dec false v.natAbs
    rw [e] at this
    simp [pyDec, hv, javaLiteralValue, e, hdig, hm, this]

theorem java_pyDecL (v : Int) :
    javaLiteralValue (pyDec v ++ ['L']) = (intLitValue 64 (decide (v < 0)) false v.natAbs).map .long := by
  by_cases hv : v < 0
  · simp [pyDec, hv, javaLiteralValue, numericLit_decL]
  · obtain ⟨c, cs, e, hdig, hm⟩ := natStr_head v.natAbs
    have := numericLit_decL false v.natAbs
    rw [e] at this
    simp only [List.cons_append] at this
    simp [pyDec, hv, javaLiteralValue, e, hdig, hm, this]

theorem java_pyHex (v : Int) :
    javaLiteralValue (pyHex v) = (intLitValue 32 (decide (v < 0)) true v.natAbs).map .int := by
  by_cases hv : v < 0
  · simp [pyHex, hv, javaLiteralValue, numericLit_hex]
  · have h0 : ('0' : Char).isDigit = true := by decide
    have := numericLit_hex false v.natAbs
    simp [pyHex, hv, javaLiteralValue, h0, this]

/-- decimal `int` text: every value of the 32-bit range reads back as itself -/
theorem dec32_denotes (v : Int) (hlo : -2 ^ 31 ≤ v) (hhi : v < 2 ^ 31) :
    javaLiteralValue (pyDec v) = some (.int v) := by
  rw [java_pyDec]
  by_cases hv : v < 0
  · have : v.natAbs ≤ 2 ^ (32 - 1) := by omega
    simp only [intLitValue, hv, decide_true, this, if_true, Bool.false_eq_true, if_false, Option.map_some]
    congr 2; omega
  · have : v.natAbs < 2 ^ (32 - 1) := by omega
    simp only [intLitValue, hv, decide_false, this, if_true, Bool.false_eq_true, if_false, Option.map_some]
    congr 2; omega

/-- decimal `long` text with the `L` suffix: every value of the 64-bit range reads back as itself -/
theorem dec64_denotes (v : Int) (hlo : -2 ^ 63 ≤ v) (hhi : v < 2 ^ 63) :
    javaLiteralValue (pyDec v ++ ['L']) = some (.long v) := by
  rw [java_pyDecL]
  by_cases hv : v < 0
  · have : v.natAbs ≤ 2 ^ (64 - 1) := by omega
    simp only [intLitValue, hv, decide_true, this, if_true, Bool.false_eq_true, if_false, Option.map_some]
    congr 2; omega
  · have : v.natAbs < 2 ^ (64 - 1) := by omega
    simp only [intLitValue, hv, decide_false, this, if_true, Bool.false_eq_true, if_false, Option.map_some]
    congr 2; omega

/-- hexadecimal text with a sign (`hex(v)`): every value with |v| < 2^31 reads back as itself -/
theorem hex32_denotes (v : Int) (hlo : -2 ^ 31 < v) (hhi : v < 2 ^ 31) :
    javaLiteralValue (pyHex v) = some (.int v) := by
  rw [java_pyHex]
  have h1 : v.natAbs < 2 ^ 32 := by omega
  have h2 : v.natAbs < 2 ^ (32 - 1) := by omega
  have hs : sext 32 v.natAbs = (v.natAbs : Int) := by simp only [sext, h2, if_true]
  by_cases hv : v < 0
  · have hne : ¬ ((v.natAbs : Int) = -((2 ^ (32 - 1) : Nat) : Int)) := by omega
    simp only [intLitValue, hv, decide_true, if_true, h1, hs, hne, if_false, Option.map_some]
    congr 2; omega
  · simp only [intLitValue, hv, decide_false, if_true, h1, hs, Bool.false_eq_true, if_false, Option.map_some]
    congr 2; omega

end AgVerif.EncodedValue
