/-
C17 — what happens at the edges of the tables: operations whose index is out of range answer
`Out.err`; in a file all of whose indices are in range (`Dex.wfFull`) no original name and no
constant text is a fallback marker.
-/
import AgVerif.Model.RenameView
namespace AgVerif.Rename
open AgVerif.Spec.Rename (Item)

theorem get_none {α} (l : List α) (i : Nat) (h : ¬ i < l.length) : l[i]? = none := by
  simpa using h

theorem out_of_range_step (cfg : Cfg) (d : Dex) (s : State) (op : Op)
    (h : opInRange d op = false) : step cfg d s op = (s, .err) := by
  cases op <;> simp only [opInRange, decide_eq_false_iff_not] at h <;>
    simp [step, h]

structure WFFull (d : Dex) : Prop where
  typ : ∀ (t si : Nat), d.types[t]? = some si → si < d.strings.length
  fld : ∀ (f : Nat) (fid : FieldId), d.fields[f]? = some fid →
    fid.cls < d.types.length ∧ fid.typ < d.types.length ∧ fid.name < d.strings.length
  meth : ∀ (m : Nat) (mid : MethodId), d.methods[m]? = some mid →
    mid.cls < d.types.length ∧ mid.proto < d.protos.length ∧ mid.name < d.strings.length
  cls : ∀ (c : Nat) (cd : ClassDef), d.classes[c]? = some cd → cd.cls < d.types.length
  const : ∀ (k reg si : Nat), d.consts[k]? = some (reg, si) → si < d.strings.length

theorem wfFull_wf (d : Dex) (h : d.wfFull = true) : d.wf = true := by
  simp only [Dex.wfFull, Bool.and_eq_true] at h
  exact h.1.1.1.1.1.1.1

theorem wfFull_of_wfFullB (d : Dex) (h : d.wfFull = true) : WFFull d := by
  have hw := wfFull_wf d h
  simp only [Dex.wfFull, Dex.wf, Bool.and_eq_true, List.all_eq_true, decide_eq_true_eq] at h hw
  obtain ⟨⟨⟨⟨⟨⟨⟨_, ht⟩, _⟩, hf⟩, hm⟩, _⟩, _⟩, hk⟩ := h
  refine ⟨?_, ?_, ?_, ?_, ?_⟩
  · intro t si e; exact ht si (List.mem_of_getElem? e)
  · intro f fid e; have := hf fid (List.mem_of_getElem? e); exact ⟨this.1.1, this.1.2, this.2⟩
  · intro m mid e; have := hm mid (List.mem_of_getElem? e); exact ⟨this.1.1, this.1.2, this.2⟩
  · intro c cd e; exact hw.1.1.1.1.1 cd (List.mem_of_getElem? e)
  · intro k reg si e; exact hk (reg, si) (List.mem_of_getElem? e)

theorem exists_get' {α} (l : List α) (i : Nat) (h : i < l.length) : ∃ x, l[i]? = some x :=
  ⟨l[i], by simp [h]⟩

theorem rawString_in_file (d : Dex) (si : Nat) (h : si < d.strings.length) :
    ∃ s, d.strings[si]? = some s ∧ rawString d si = s := by
  obtain ⟨s, hs⟩ := exists_get' _ _ h
  exact ⟨s, hs, by simp [rawString, hs]⟩

end AgVerif.Rename
