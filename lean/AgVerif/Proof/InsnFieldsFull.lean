/- C01: field meaning assembled over ALL 26 specification formats (fixed layouts: Proof/InsnFields.lean;
   variable register lists 3rc 35c 45cc 4rcc: Proof/InsnFsE.lean). -/
import AgVerif.Proof.InsnFields
import AgVerif.Proof.InsnFsE
set_option linter.unusedSimpArgs false
set_option linter.unusedVariables false
namespace AgVerif.Insn
open AgVerif.Gen AgVerif.Spec

theorem fields_spec_every (f : Fmt) (sf : Dalvik.Format) (hsf : toSpec f = some sf)
    (bs : List Nat) (hb : AllBytes bs) (x : Insn) (h : decode f bs = .ok x)
    (hk : needsKind f = true → ∃ k, kindOf x.op = some k)
    (h21 : f = .f21h → x.op = 0x15 ∨ x.op = 0x19)
    (hA : f = .f35c → Dalvik.countA (leNat (bs.take (Opcodes.length f))) ≤ 5) :
    View.ofInsn x = View.ofMeaning (Dalvik.meaning sf x.op (leNat (bs.take (Opcodes.length f)))) ∧
      x.op = Dalvik.bits (leNat (bs.take (Opcodes.length f))) 0 8 := by
  by_cases hv : varRegs f = false
  · exact fields_spec_all f sf hsf hv bs hb x h hk h21
  · cases f
    case f35c => simp [toSpec] at hsf; subst hsf; exact fs_35c bs hb x h hk (hA rfl)
    case f3rc => simp [toSpec] at hsf; subst hsf; exact fs_3rc bs hb x h hk
    case f45cc => simp [toSpec] at hsf; subst hsf; exact ⟨(fs_45cc bs hb x h).1, (fs_45cc bs hb x h).2.1⟩
    case f4rcc => simp [toSpec] at hsf; subst hsf; exact fs_4rcc bs hb x h
    all_goals first | (simp [toSpec] at hsf; done) | (simp [varRegs] at hv; done)

end AgVerif.Insn
