/-
C25 — lemmas about conditions: CONDS negates, neg, print (once / twice), negate-and-swap.
-/
import AgVerif.Model.ShortCircuit

namespace AgVerif.ShortCircuit
open AgVerif.Gen.Conds

/-! ### the CONDS table (decided over the whole generated table) -/

theorem negOp?_table : ∀ o : Op, negOp? o = some (negOp o) := by
  intro o; cases o <;> decide

theorem negOp_cases :
    negOp .eq = .ne ∧ negOp .ne = .eq ∧ negOp .lt = .ge ∧ negOp .le = .gt ∧ negOp .ge = .lt ∧ negOp .gt = .le := by
  decide

theorem decide_eq_not_decide (p q : Prop) [Decidable p] [Decidable q] (h : p ↔ ¬q) :
    decide p = !decide q := by
  by_cases hq : q <;> simp_all

theorem negOp_sem (o : Op) (a b : Int) : (negOp o).sem a b = !(o.sem a b) := by
  obtain ⟨h1, h2, h3, h4, h5, h6⟩ := negOp_cases
  cases o <;> simp only [h1, h2, h3, h4, h5, h6, Op.sem] <;>
    exact decide_eq_not_decide _ _ (by omega)

/-! ### neg -/

theorem leafSem_neg (k : Kind) (o : Op) (v : Int × Int) : leafSem k (negOp o) v = !(leafSem k o v) := by
  cases k <;> simp [leafSem, negOp_sem]

theorem eval_neg (env : Env) (c : Cond) : c.neg.eval env = !(c.eval env) := by
  induction c with
  | leaf i k o => simp [Cond.neg, Cond.eval, leafSem_neg]
  | sc n a c1 c2 ih1 ih2 =>
    simp only [Cond.neg, Cond.eval, ih1, ih2]
    cases n <;> cases a <;> cases c1.eval env <;> cases c2.eval env <;> rfl

/-! ### well-formed leaves: a boolean (`Z`) operand is only ever tested with `==`/`!=` (if-eqz / if-nez) -/

def Cond.WF : Cond → Prop
  | .leaf _ k o => k = .zbool → (o = .eq ∨ o = .ne)
  | .sc _ _ c1 c2 => c1.WF ∧ c2.WF

instance : (c : Cond) → Decidable c.WF
  | .leaf _ k o => by unfold Cond.WF; exact inferInstance
  | .sc _ _ c1 c2 => by
    unfold Cond.WF
    exact @instDecidableAnd _ _ (instDecidableWF c1) (instDecidableWF c2)
where instDecidableWF : (c : Cond) → Decidable c.WF
  | .leaf _ k o => by unfold Cond.WF; exact inferInstance
  | .sc _ _ c1 c2 => by
    unfold Cond.WF
    exact @instDecidableAnd _ _ (instDecidableWF c1) (instDecidableWF c2)

theorem WF_neg (c : Cond) (h : c.WF) : c.neg.WF := by
  induction c with
  | leaf i k o =>
    obtain ⟨h1, h2, -⟩ := negOp_cases
    intro hk
    rcases h hk with rfl | rfl
    · right; exact h1
    · left; exact h2
  | sc n a c1 c2 ih1 ih2 => exact ⟨ih1 h.1, ih2 h.2⟩

/-! ### print -/

theorem print_leaf (i : Nat) (k : Kind) (o : Op) : print (.leaf i k o) = (.leaf i k o, .atom i k o) := by
  rw [print]

theorem print_sc (n a : Bool) (c1 c2 : Cond) :
    print (.sc n a c1 c2) =
      (.sc n a (print (if n then c1.neg else c1)).1 (print c2).1,
       if a then .and (print (if n then c1.neg else c1)).2 (print c2).2
       else .or (print (if n then c1.neg else c1)).2 (print c2).2) := by
  rw [print]

theorem atom_eval (env : Env) (i : Nat) (k : Kind) (o : Op) (h : (Cond.leaf i k o).WF) :
    (BExpr.atom i k o).eval env = leafSem k o (env i) := by
  cases k with
  | bin => simp [BExpr.eval, leafSem]
  | zint => simp [BExpr.eval, leafSem]
  | zbool =>
    rcases h rfl with rfl | rfl <;> simp [BExpr.eval, leafSem, Op.sem]

/-- the text printed for a condition means what the condition means (printing it ONCE) -/
theorem print_eval (env : Env) : ∀ (k : Nat) (c : Cond), c.size ≤ k → c.WF → (print c).2.eval env = c.eval env := by
  intro k
  induction k with
  | zero => intro c h; cases c <;> simp [Cond.size] at h <;> omega
  | succ k ih =>
    intro c hs hw
    cases c with
    | leaf i kd o => rw [print_leaf]; simpa [Cond.eval] using atom_eval env i kd o hw
    | sc n a c1 c2 =>
      rw [print_sc]
      simp only [Cond.size] at hs
      have h2 := ih c2 (by omega) hw.2
      cases n with
      | false =>
        have h1 := ih c1 (by omega) hw.1
        cases a <;> simp [BExpr.eval, Cond.eval, h1, h2]
      | true =>
        have h1 := ih c1.neg (by rw [Cond.size_neg]; omega) (WF_neg _ hw.1)
        cases a <;> simp [BExpr.eval, Cond.eval, h1, h2, eval_neg]

/-! ### negate and swap -/

theorem swap_route (env : Env) (x : CNode) :
    (if x.swap.c.eval env then x.swap.t else x.swap.f) = (if x.c.eval env then x.t else x.f) := by
  simp only [CNode.swap, eval_neg]
  cases x.c.eval env <;> simp

theorem swaps_route (env : Env) (k : Nat) (x : CNode) :
    (if (CNode.swaps k x).c.eval env then (CNode.swaps k x).t else (CNode.swaps k x).f)
      = (if x.c.eval env then x.t else x.f) := by
  induction k generalizing x with
  | zero => rfl
  | succ k ih => rw [CNode.swaps, ih, swap_route]

theorem swaps_WF (k : Nat) (x : CNode) (h : x.c.WF) : (CNode.swaps k x).c.WF := by
  induction k generalizing x with
  | zero => exact h
  | succ k ih => exact ih _ (WF_neg _ h)

end AgVerif.ShortCircuit
