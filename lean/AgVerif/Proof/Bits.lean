/-
Bridge lemmas: Python/Lean bit operations on naturals brought to arithmetic
normal form (`%`, `/`, `*`, `+`), after which `omega` closes field goals.
Core Lean only.
-/
namespace AgVerif.Bits

theorem and_mask (x k : Nat) : x &&& (2 ^ k - 1) = x % 2 ^ k :=
  Nat.and_two_pow_sub_one_eq_mod x k

theorem and_7F (x : Nat) : x &&& 0x7F = x % 128 := by
  simpa using and_mask x 7
theorem and_FF (x : Nat) : x &&& 0xFF = x % 256 := by
  simpa using and_mask x 8
theorem and_0F (x : Nat) : x &&& 0x0F = x % 16 := by
  simpa using and_mask x 4
theorem and_FFFF (x : Nat) : x &&& 0xFFFF = x % 65536 := by
  simpa using and_mask x 16

/-- `a | (b << k)` is addition when `a` fits below bit `k`. -/
theorem or_shl (a b k : Nat) (h : a < 2 ^ k) : a ||| (b <<< k) = a + b * 2 ^ k := by
  rw [Nat.shiftLeft_eq, Nat.or_comm, Nat.mul_comm, ← Nat.two_pow_add_eq_or_of_lt h]
  omega

theorem shr (a k : Nat) : a >>> k = a / 2 ^ k := Nat.shiftRight_eq_div_pow a k
theorem shl (a k : Nat) : a <<< k = a * 2 ^ k := Nat.shiftLeft_eq a k

/-- test of bit 7 (`x & 0x80`) on a byte -/
theorem and_80_eq_zero (x : Nat) (h : x < 256) : (x &&& 0x80 = 0) ↔ x < 128 := by
  have key : ∀ y : Fin 256, (y.val &&& 0x80 = 0) ↔ y.val < 128 := by decide +kernel
  exact key ⟨x, h⟩

end AgVerif.Bits
