/-
C18, Lengauer–Tarjan correctness, layer 1: DFS-tree facts, independent of the algorithm's state.

`DTree E r num par` axiomatises what Step 1 of `dom_lt` leaves (proved of the model in
Proof/DomLT_Dfs2.lean): `num` numbers exactly the reachable vertices injectively, `par` is a
spanning tree of edges with increasing numbers, and the two classical DFS facts
  fwd   an edge to a larger number goes to a tree descendant
  intv  the vertices numbered between a parent and its child are descendants of the parent.
From these: ancestors of a vertex form a chain, descendants form an interval (`Anc.intv`),
tree paths (`anc_reach`) and Lemma 1 of the paper in the form `walk_min` (the minimum-numbered
vertex of a walk is an ancestor of the walk's end).
-/
import AgVerif.Spec.Dominance
namespace AgVerif.DomLT
open AgVerif.Spec

/-- `Anc par u v`: u is an ancestor of v (or v itself) in the tree given by the parent map -/
inductive Anc (par : Nat → Option Nat) : Nat → Nat → Prop
  | refl (u : Nat) : Anc par u u
  | step {u p v : Nat} : par v = some p → Anc par u p → Anc par u v

structure DTree (E : Nat → Nat → Prop) (r : Nat) (num : Nat → Nat) (par : Nat → Option Nat) : Prop where
  root_num : num r = 1
  par_root : par r = none
  inj : ∀ u v, num u ≠ 0 → num u = num v → u = v
  reach : ∀ v, num v ≠ 0 ↔ Reach E r v
  par_edge : ∀ w p, par w = some p → E p w ∧ num p ≠ 0 ∧ num p < num w
  par_ex : ∀ w, num w ≠ 0 → w ≠ r → ∃ p, par w = some p
  fwd : ∀ v w, E v w → num v ≠ 0 → num v < num w → Anc par v w
  intv : ∀ w p y, par w = some p → num y ≠ 0 → num p < num y → num y < num w → Anc par p y

variable {E : Nat → Nat → Prop} {r : Nat} {num : Nat → Nat} {par : Nat → Option Nat}

theorem Anc.trans {a b c : Nat} (h1 : Anc par a b) (h2 : Anc par b c) : Anc par a c := by
  induction h2 with
  | refl => exact h1
  | step hp _ ih => exact Anc.step hp ih

theorem Anc.parent {p v : Nat} (h : par v = some p) : Anc par p v := Anc.step h (Anc.refl p)

/-- an ancestor is the vertex itself or has a strictly smaller (non-zero) number -/
theorem DTree.anc_lt (T : DTree E r num par) {u v : Nat} (h : Anc par u v) :
    u = v ∨ (num u ≠ 0 ∧ num u < num v) := by
  induction h with
  | refl => exact Or.inl rfl
  | @step p v hp _ ih =>
    obtain ⟨_, h1, h2⟩ := T.par_edge v p hp
    rcases ih with ih | ih
    · subst ih; exact Or.inr ⟨h1, h2⟩
    · exact Or.inr ⟨ih.1, by omega⟩

theorem DTree.anc_le (T : DTree E r num par) {u v : Nat} (h : Anc par u v) : num u ≤ num v := by
  rcases T.anc_lt h with h | h
  · subst h; exact Nat.le_refl _
  · omega

theorem DTree.anc_num (T : DTree E r num par) {u v : Nat} (h : Anc par u v) (hv : num v ≠ 0) :
    num u ≠ 0 := by
  rcases T.anc_lt h with h | h
  · subst h; exact hv
  · exact h.1

theorem DTree.anc_antisymm (T : DTree E r num par) {u v : Nat} (h1 : Anc par u v) (h2 : Anc par v u) :
    u = v := by
  rcases T.anc_lt h1 with h | h
  · exact h
  · rcases T.anc_lt h2 with h' | h'
    · exact h'.symm
    · omega

/-- every numbered vertex is a descendant of the root -/
theorem DTree.anc_root (T : DTree E r num par) : ∀ (k v : Nat), num v ≤ k → num v ≠ 0 → Anc par r v
  | 0, v, h, h0 => by omega
  | k + 1, v, h, h0 => by
    by_cases hv : v = r
    · subst hv; exact Anc.refl _
    · obtain ⟨p, hp⟩ := T.par_ex v h0 hv
      obtain ⟨_, h1, h2⟩ := T.par_edge v p hp
      exact Anc.step hp (T.anc_root k p (by omega) h1)

/-- the ancestors of a vertex form a chain -/
theorem Anc.chain {a b w : Nat} (h1 : Anc par a w) (h2 : Anc par b w) : Anc par a b ∨ Anc par b a := by
  induction h1 with
  | refl => exact Or.inr h2
  | @step p v hp ha ih =>
    cases h2 with
    | refl => exact Or.inl (Anc.step hp ha)
    | @step p' _ hp' hb =>
      rw [hp] at hp'
      cases hp'
      exact ih hb

/-- descendants form an interval of numbers -/
theorem DTree.anc_intv (T : DTree E r num par) {a x y : Nat} (h : Anc par a x) (hy : num y ≠ 0)
    (h1 : num a ≤ num y) (h2 : num y ≤ num x) : Anc par a y := by
  induction h with
  | refl =>
    have : num a = num y := by omega
    have := T.inj y a hy this.symm
    subst this; exact Anc.refl _
  | @step p v hp ha ih =>
    obtain ⟨_, hp0, hlt⟩ := T.par_edge v p hp
    by_cases hc : num y ≤ num p
    · exact ih hc
    · by_cases hv : num y = num v
      · have := T.inj y v hy hv
        subst this; exact Anc.step hp ha
      · exact ha.trans (T.intv v p y hp hy (by omega) (by omega))

/-- a proper ancestor has a child on the tree path -/
theorem Anc.child {a v : Nat} (h : Anc par a v) (hne : a ≠ v) : ∃ c, par c = some a ∧ Anc par c v := by
  induction h with
  | refl => exact absurd rfl hne
  | @step p v hp ha ih =>
    by_cases hap : a = p
    · subst hap; exact ⟨v, hp, Anc.refl _⟩
    · obtain ⟨c, hc, hcp⟩ := ih hap
      exact ⟨c, hc, Anc.step hp hcp⟩

/-- the tree path from an ancestor: it only visits vertices between the two ends -/
theorem DTree.anc_reach (T : DTree E r num par) {S : Nat → Prop} {u v : Nat} (h : Anc par u v)
    (hS : ∀ x, Anc par u x → Anc par x v → ¬ S x) : ReachAvoiding E S u v := by
  induction h with
  | refl => exact ReachAvoiding.refl (hS u (Anc.refl _) (Anc.refl _))
  | @step p v hp ha ih =>
    have e := (T.par_edge v p hp).1
    refine ReachAvoiding.tail (ih ?_) e (hS v (Anc.step hp ha) (Anc.refl _))
    intro x h1 h2
    exact hS x h1 (Anc.step hp h2)

/-- a vertex reachable from a numbered vertex is numbered -/
theorem DTree.num_of_walk (T : DTree E r num par) {S : Nat → Prop} {a b : Nat}
    (h : ReachAvoiding E S a b) (ha : num a ≠ 0) : num b ≠ 0 :=
  (T.reach b).mpr (((T.reach a).mp ha).trans h.reach)

/-- Lemma 1 of the paper, in walk form: a walk from a numbered vertex `a` to `b` avoiding `S` has a
    minimum-numbered vertex `m`; `m` is an ancestor of `b`, and the walk reaches `m` for the first
    time through vertices numbered above `m`. -/
theorem DTree.walk_min (T : DTree E r num par) {S : Nat → Prop} {a b : Nat}
    (h : ReachAvoiding E S a b) (ha : num a ≠ 0) :
    ∃ m, ¬ S m ∧ num m ≠ 0 ∧ Anc par m b ∧ num m ≤ num a ∧
      ReachAvoiding E (fun v => S v ∨ num v < num m) a b ∧
      (m = a ∨ ∃ z, ReachAvoiding E (fun v => S v ∨ num v ≤ num m) a z ∧ E z m) := by
  induction h with
  | refl hs =>
    exact ⟨a, hs, ha, Anc.refl _, Nat.le_refl _,
      ReachAvoiding.refl (fun h => h.elim hs (Nat.lt_irrefl _)), Or.inl rfl⟩
  | @tail b c hab e hc ih =>
    obtain ⟨m, hm, hm0, hanc, hle, hw, hfirst⟩ := ih
    have hb0 : num b ≠ 0 := T.num_of_walk hab ha
    have hc0 : num c ≠ 0 := (T.reach c).mpr (Reach.tail ((T.reach b).mp hb0) e)
    by_cases hlt : num c < num m
    · refine ⟨c, hc, hc0, Anc.refl _, by omega, ?_, Or.inr ⟨b, ?_, e⟩⟩
      · refine ReachAvoiding.tail (hw.mono ?_) e (fun h => h.elim hc (Nat.lt_irrefl _))
        intro x hx
        rcases hx with hx | hx
        · exact Or.inl hx
        · exact Or.inr (by omega)
      · refine hw.mono ?_
        intro x hx
        rcases hx with hx | hx
        · exact Or.inl hx
        · exact Or.inr (by omega)
    · have hmc : Anc par m c := by
        by_cases hbc : num b < num c
        · exact hanc.trans (T.fwd b c e hb0 hbc)
        · exact T.anc_intv hanc hc0 (by omega) (by omega)
      exact ⟨m, hm, hm0, hmc, hle,
        ReachAvoiding.tail hw e (fun h => h.elim hc (fun h => hlt h)), hfirst⟩

end AgVerif.DomLT
