/-
C02: the payload constructors rebuild a well-formed payload item from its `get_raw()` bytes.
-/
import AgVerif.Proof.SweepAsmInsn
set_option linter.unusedSimpArgs false
set_option linter.unusedVariables false
namespace AgVerif.Sweep
open AgVerif.Insn AgVerif.Gen

/-- 32-bit two's complement range -/
def s32 (v : Int) : Bool := decide (-2147483648 ≤ v ∧ v < 2147483648)

theorem pack_l {v : Int} (hv : -2147483648 ≤ v ∧ v < 2147483648) : pack [.l] [v] = some (leBytes 4 v) := by
  rw [pack_cons_some (inRange_l hv), pack_nil]
  simp [SC.size]

theorem leBytes4_length (v : Int) : (leBytes 4 v).length = 4 := by
  simp [leBytes, leBytesFrom]

theorem leBytes4_bytes (v : Int) : AllBytes (leBytes 4 v) := by
  simp only [leBytes, leBytesFrom, allBytes_cons, allBytes_nil, and_true]
  refine ⟨?_, ?_, ?_, ?_⟩ <;> omega

theorem unpack_l_leBytes {v : Int} (hv : -2147483648 ≤ v ∧ v < 2147483648) (rest : List Nat) :
    unpack [.l] ((leBytes 4 v ++ rest).take 4) = some [v] := by
  simp only [leBytes, leBytesFrom, Int.reduceMul, Int.ediv_one, List.cons_append, List.nil_append,
    List.take_succ_cons, List.take_zero]
  simp [unpack, calcsize, SC.size, unpackGo, leNat, SC.value]
  omega

theorem packInts_valid : ∀ (ts : List Int), (∀ t ∈ ts, -2147483648 ≤ t ∧ t < 2147483648) →
    ∃ bytes, packInts ts = some bytes ∧ bytes.length = 4 * ts.length ∧ AllBytes bytes ∧
      ∀ rest, readInts ts.length (bytes ++ rest) = some ts := by
  intro ts
  induction ts with
  | nil =>
    intro _
    exact ⟨[], packInts_nil, rfl, allBytes_nil, fun rest => readInts_zero _⟩
  | cons t ts ih =>
    intro h
    have ht := h t (List.mem_cons_self)
    obtain ⟨b, hp, hl, hb, hr⟩ := ih (fun t' ht' => h t' (List.mem_cons_of_mem _ ht'))
    refine ⟨leBytes 4 t ++ b, ?_, ?_, ?_, ?_⟩
    · rw [packInts_cons, pack_l ht, hp]
    · simp only [List.length_append, leBytes4_length, hl, List.length_cons]; omega
    · exact allBytes_append.mpr ⟨leBytes4_bytes t, hb⟩
    · intro rest
      simp only [List.length_cons]
      rw [readInts_succ, List.append_assoc, unpack_l_leBytes ht]
      have : List.drop 4 (leBytes 4 t ++ (b ++ rest)) = b ++ rest := by
        rw [List.drop_left' (leBytes4_length t)]
      simp only [this, hr rest]

/-- well-formed payload items: sizes fit their fields, the element lists have the declared length, values are in
    range; `fill` data holds `size * width` bytes rounded up to an even number (the padding byte included) -/
def ValidPayload : Item → Bool
  | .insn _ _ => false
  | .packed size fk ts => decide (size < 65536) && (s32 fk && (decide (ts.length = size) && ts.all s32))
  | .sparse size ks ts =>
    decide (size < 65536) && (decide (ks.length = size) && (decide (ts.length = size) && (ks.all s32 && ts.all s32)))
  | .fill w size data =>
    decide (w < 65536) && (decide (size < 4294967296) &&
      (decide (data.length = (size * w + 1) / 2 * 2) && data.all (fun b => decide (b < 256))))

theorem all_s32 {ts : List Int} (h : ts.all s32 = true) : ∀ t ∈ ts, -2147483648 ≤ t ∧ t < 2147483648 := by
  intro t ht
  have := List.all_eq_true.mp h t ht
  simpa [s32] using this

theorem build_packed_raw (size : Nat) (fk : Int) (ts : List Int) (hv : ValidPayload (.packed size fk ts) = true) :
    ∃ bytes, (Item.packed size fk ts).raw = some bytes ∧ bytes.length = (Item.packed size fk ts).length ∧
      AllBytes bytes ∧ 2 ≤ bytes.length ∧ ∀ rest, build false (bytes ++ rest) = some (.packed size fk ts) := by
  simp only [ValidPayload, Bool.and_eq_true, decide_eq_true_eq, s32] at hv
  obtain ⟨hsz, hfk, hlen, hts⟩ := hv
  obtain ⟨tb, hp, hl, hb, hr⟩ := packInts_valid ts (all_s32 hts)
  refine ⟨_, by rw [raw_packed, hp, pack_HHi (by omega) (by omega) hfk, cat2_some], ?_, ?_, ?_, ?_⟩
  · simp [leBytes, leBytesFrom, hl, hlen, Item.length]; omega
  · simp only [leBytes, leBytesFrom, Int.reduceMul, Int.ediv_one, List.cons_append, List.nil_append, allBytes_cons]
    refine ⟨by omega, by omega, by omega, by omega, by omega, by omega, by omega, by omega, hb⟩
  · simp [leBytes, leBytesFrom]
  · intro rest
    simp only [leBytes, leBytesFrom, Int.reduceMul, Int.ediv_one, List.cons_append, List.nil_append]
    have e0 : ((256 : Int) % 256).toNat = 0 := by decide
    have e1 : ((256 : Int) / 256 % 256).toNat = 1 := by decide
    rw [e0, e1]
    have hparse : parsePacked (0 :: 1 :: (↑size % 256 : Int).toNat :: (↑size / 256 % 256 : Int).toNat ::
        (fk % 256).toNat :: (fk / 256 % 256).toNat :: (fk / 65536 % 256).toNat :: (fk / 16777216 % 256).toNat ::
        (tb ++ rest)) = some (size, fk, ts) := by
      unfold parsePacked
      simp [unpack, calcsize, SC.size, unpackGo, leNat, SC.value]
      have es : max ((size : Int) % 256) 0 + 256 * max ((size : Int) / 256 % 256) 0 = (size : Int) := by omega
      have ef : (max (fk % 256) 0 + 256 * (max (fk / 256 % 256) 0 + 256 * (max (fk / 65536 % 256) 0 +
          256 * max (fk / 16777216 % 256) 0)) + 2147483648) % 4294967296 - 2147483648 = fk := by omega
      rw [es, ef, if_neg (by omega)]
      simp only [Int.toNat_natCast]
      rw [← hlen, hr rest]
    unfold build
    simp only []
    rw [if_pos (by decide), if_pos (by decide), hparse]
    rfl

theorem build_sparse_raw (size : Nat) (ks ts : List Int) (hv : ValidPayload (.sparse size ks ts) = true) :
    ∃ bytes, (Item.sparse size ks ts).raw = some bytes ∧ bytes.length = (Item.sparse size ks ts).length ∧
      AllBytes bytes ∧ 2 ≤ bytes.length ∧ ∀ rest, build false (bytes ++ rest) = some (.sparse size ks ts) := by
  simp only [ValidPayload, Bool.and_eq_true, decide_eq_true_eq] at hv
  obtain ⟨hsz, hlk, hlt, hks, hts⟩ := hv
  obtain ⟨kb, hpk, hlkb, hbk, hrk⟩ := packInts_valid ks (all_s32 hks)
  obtain ⟨tb, hpt, hltb, hbt, hrt⟩ := packInts_valid ts (all_s32 hts)
  refine ⟨_, by rw [raw_sparse, hpk, hpt, pack_HH (by omega) (by omega), cat2_some, cat2_some], ?_, ?_, ?_, ?_⟩
  · simp [leBytes, leBytesFrom, hlkb, hltb, hlk, hlt, Item.length]; omega
  · simp only [leBytes, leBytesFrom, Int.reduceMul, Int.ediv_one, List.cons_append, List.nil_append, allBytes_cons]
    refine ⟨by omega, by omega, by omega, by omega, allBytes_append.mpr ⟨hbk, hbt⟩⟩
  · simp [leBytes, leBytesFrom]
  · intro rest
    simp only [leBytes, leBytesFrom, Int.reduceMul, Int.ediv_one, List.cons_append, List.nil_append]
    have e0 : ((512 : Int) % 256).toNat = 0 := by decide
    have e1 : ((512 : Int) / 256 % 256).toNat = 2 := by decide
    rw [e0, e1]
    have hparse : parseSparse (0 :: 2 :: (↑size % 256 : Int).toNat :: (↑size / 256 % 256 : Int).toNat ::
        (kb ++ tb ++ rest)) = some (size, ks, ts) := by
      unfold parseSparse
      simp [unpack, calcsize, SC.size, unpackGo, leNat, SC.value]
      have es : max ((size : Int) % 256) 0 + 256 * max ((size : Int) / 256 % 256) 0 = (size : Int) := by omega
      rw [es]
      simp only [Int.toNat_natCast]
      have hk := hrk (tb ++ rest)
      rw [hlk] at hk
      rw [hk]
      have e4 : List.drop (4 + 4 * size) (0 :: 2 :: (↑size % 256 : Int).toNat :: (↑size / 256 % 256 : Int).toNat ::
          (kb ++ (tb ++ rest))) = tb ++ rest := by
        rw [show 4 + 4 * size = 4 * size + 1 + 1 + 1 + 1 by omega]
        simp only [List.drop_succ_cons]
        exact List.drop_left' (by omega)
      have ht := hrt rest
      rw [hlt] at ht
      simp only [e4, ht]
    unfold build
    simp only []
    rw [if_pos (by decide), if_neg (by decide), if_pos (by decide), List.append_assoc] at *
    rw [hparse]
    rfl

theorem build_fill_raw (w size : Nat) (data : List Nat) (hv : ValidPayload (.fill w size data) = true) :
    ∃ bytes, (Item.fill w size data).raw = some bytes ∧ bytes.length = (Item.fill w size data).length ∧
      AllBytes bytes ∧ 2 ≤ bytes.length ∧ ∀ rest, build false (bytes ++ rest) = some (.fill w size data) := by
  simp only [ValidPayload, Bool.and_eq_true, decide_eq_true_eq] at hv
  obtain ⟨hw, hsz, hlen, hdata⟩ := hv
  have hbd : AllBytes data := by
    intro b hb
    simpa using List.all_eq_true.mp hdata b hb
  refine ⟨_, by rw [raw_fill, pack_HHI (by omega) (by omega) (by omega), cat2_some], ?_, ?_, ?_, ?_⟩
  · simp [leBytes, leBytesFrom, hlen, Item.length]; omega
  · simp only [leBytes, leBytesFrom, Int.reduceMul, Int.ediv_one, List.cons_append, List.nil_append, allBytes_cons]
    refine ⟨by omega, by omega, by omega, by omega, by omega, by omega, by omega, by omega, hbd⟩
  · simp [leBytes, leBytesFrom]
  · intro rest
    simp only [leBytes, leBytesFrom, Int.reduceMul, Int.ediv_one, List.cons_append, List.nil_append]
    have e0 : ((768 : Int) % 256).toNat = 0 := by decide
    have e1 : ((768 : Int) / 256 % 256).toNat = 3 := by decide
    rw [e0, e1]
    have hparse : parseFill (0 :: 3 :: (↑w % 256 : Int).toNat :: (↑w / 256 % 256 : Int).toNat ::
        (↑size % 256 : Int).toNat :: (↑size / 256 % 256 : Int).toNat :: (↑size / 65536 % 256 : Int).toNat ::
        (↑size / 16777216 % 256 : Int).toNat :: (data ++ rest)) = some (w, size, data) := by
      unfold parseFill
      simp [unpack, calcsize, SC.size, unpackGo, leNat, SC.value]
      have ew : max ((w : Int) % 256) 0 + 256 * max ((w : Int) / 256 % 256) 0 = (w : Int) := by omega
      have es : max ((size : Int) % 256) 0 + 256 * (max ((size : Int) / 256 % 256) 0 +
          256 * (max ((size : Int) / 65536 % 256) 0 + 256 * max ((size : Int) / 16777216 % 256) 0)) = (size : Int) := by
        omega
      rw [ew, es]
      have hprod : (size : Int) * (w : Int) = ((size * w : Nat) : Int) := by simp
      rw [hprod]
      have hl : (if ((size * w : Nat) : Int) % 2 = 1 then ((size * w : Nat) : Int) + 1
          else ((size * w : Nat) : Int)).toNat = data.length := by
        rw [hlen]; split <;> omega
      rw [hl]
      refine ⟨by omega, by omega, ?_⟩
      simp
    unfold build
    simp only []
    rw [if_pos (by decide), if_neg (by decide), if_neg (by decide), if_pos (by decide), hparse]
    rfl

end AgVerif.Sweep
