/-
C18, Lengauer–Tarjan correctness, layer 4: the link–eval forest of the model (`_compress`, `_eval`).

`FInv num par i s`: the vertices numbered above `i` are linked.  A linked vertex `v` has
`ancestor[v] = a`, a proper tree ancestor of `v` such that the whole tree segment `(a, v]` is linked,
and `label[v]` is a vertex of `(a, v]` with minimum `semi`.  Unlinked numbered vertices have
`ancestor = 0`; unnumbered vertices have no key.

`compress_spec` / `eval_spec`: no `KeyError`, fuel `> num v` suffices, the invariant is kept, nothing
but `ancestor`/`label` changes, and `_eval(v)` returns `v` for an unlinked `v` and otherwise a vertex
of minimum `semi` among the linked tree ancestors of `v`.
-/
import AgVerif.Proof.DomLT_Thm
import AgVerif.Proof.DomLT
namespace AgVerif.DomLT
open AgVerif AgVerif.Spec

/-- `u` lies on the tree segment `(a, v]` -/
def Seg (par : Nat → Option Nat) (a v u : Nat) : Prop := Anc par a u ∧ u ≠ a ∧ Anc par u v

structure FInv (num : Nat → Nat) (par : Nat → Option Nat) (i : Nat) (s : St) : Prop where
  anc_none : ∀ v, num v = 0 → s.ancestor v = none
  anc_root : ∀ v, num v ≠ 0 → num v ≤ i → s.ancestor v = some none
  label_root : ∀ v, num v ≠ 0 → num v ≤ i → s.label v = some v
  anc_link : ∀ v, i < num v → ∃ a l, s.ancestor v = some (some a) ∧ s.label v = some l ∧
    Anc par a v ∧ a ≠ v ∧ (∀ u, Seg par a v u → i < num u) ∧
    Seg par a v l ∧ ∀ u, Seg par a v u → s.semi l ≤ s.semi u

/-- `_compress` / `_eval` change nothing but `ancestor` and `label` -/
structure Same (s s' : St) : Prop where
  semi : s'.semi = s.semi
  vertex : s'.vertex = s.vertex
  parent : s'.parent = s.parent
  pred : s'.pred = s.pred
  bucket : s'.bucket = s.bucket
  dom : s'.dom = s.dom

theorem Same.refl (s : St) : Same s s := ⟨rfl, rfl, rfl, rfl, rfl, rfl⟩

theorem Same.trans {a b c : St} (h1 : Same a b) (h2 : Same b c) : Same a c :=
  ⟨h2.semi.trans h1.semi, h2.vertex.trans h1.vertex, h2.parent.trans h1.parent,
   h2.pred.trans h1.pred, h2.bucket.trans h1.bucket, h2.dom.trans h1.dom⟩

variable {E : Nat → Nat → Prop} {r : Nat} {num : Nat → Nat} {par : Nat → Option Nat}

/-- the segment `(ρ, v]` splits at an intermediate ancestor `u` of `v` -/
theorem seg_split {ρ u v z : Nat} (huv : Anc par u v) (h : Seg par ρ v z) :
    Seg par ρ u z ∨ Seg par u v z := by
  rcases h.2.2.chain huv with h1 | h1
  · exact Or.inl ⟨h.1, h.2.1, h1⟩
  · by_cases hzu : z = u
    · subst hzu; exact Or.inl ⟨h.1, h.2.1, Anc.refl _⟩
    · exact Or.inr ⟨h1, hzu, h.2.2⟩

/-- the path-compression step: `ancestor[v] = ancestor[u]`, `label[v]` = the better of the two labels -/
theorem FInv.relink (T : DTree E r num par) {i : Nat} {s1 s3 : St} {v u ρ lu lv l' : Nat}
    (h : FInv num par i s1) (hv : i < num v) (hu : i < num u)
    (hav : s1.ancestor v = some (some u)) (hlv : s1.label v = some lv)
    (hau : s1.ancestor u = some (some ρ)) (hlu : s1.label u = some lu)
    (hsemi : s3.semi = s1.semi) (hanc : s3.ancestor = upd s1.ancestor v (some (some ρ)))
    (hlab : ∀ x, x ≠ v → s3.label x = s1.label x) (hl' : s3.label v = some l')
    (hmin : (l' = lu ∨ l' = lv) ∧ s1.semi l' ≤ s1.semi lu ∧ s1.semi l' ≤ s1.semi lv) :
    FInv num par i s3 := by
  constructor
  · intro x hx
    have hxv : x ≠ v := fun e => by subst e; omega
    rw [hanc]; simp only [upd, if_neg hxv]; exact h.anc_none x hx
  · intro x hx hle
    have hxv : x ≠ v := fun e => by subst e; omega
    rw [hanc]; simp only [upd, if_neg hxv]; exact h.anc_root x hx hle
  · intro x hx hle
    have hxv : x ≠ v := fun e => by subst e; omega
    rw [hlab x hxv]; exact h.label_root x hx hle
  · intro x hx
    by_cases hxv : x = v
    · subst hxv
      obtain ⟨a, l, h1, h2, h3, h4, h5, h6, h7⟩ := h.anc_link x hx
      rw [hav] at h1; rw [hlv] at h2
      have ha : u = a := by simpa using h1
      have hl : lv = l := by simpa using h2
      subst ha; subst hl
      obtain ⟨a', l2, g1, g2, g3, g4, g5, g6, g7⟩ := h.anc_link u hu
      rw [hau] at g1; rw [hlu] at g2
      have ha' : ρ = a' := by simpa using g1
      have hl2 : lu = l2 := by simpa using g2
      subst ha'; subst hl2
      have hρx : ρ ≠ x := fun e => by
        have := T.anc_le g3; have := T.anc_le h3
        rcases T.anc_lt g3 with h | h
        · exact g4 h
        · subst e; omega
      refine ⟨ρ, l', by rw [hanc]; simp [upd], hl', g3.trans h3, hρx, ?_, ?_, ?_⟩
      · intro z hz
        rcases seg_split h3 hz with hz | hz
        · exact g5 z hz
        · exact h5 z hz
      · rcases hmin.1 with e | e
        · rw [e]; exact ⟨g6.1, g6.2.1, g6.2.2.trans h3⟩
        · rw [e]; exact ⟨g3.trans h6.1, fun e' => by
            have h8 := T.anc_le h6.1
            rcases T.anc_lt g3 with h | h
            · exact g4 h
            · rw [e'] at h8; omega, h6.2.2⟩
      · intro z hz
        rw [hsemi]
        rcases seg_split h3 hz with hz | hz
        · exact Nat.le_trans hmin.2.1 (g7 z hz)
        · exact Nat.le_trans hmin.2.2 (h7 z hz)
    · obtain ⟨a, l, h1, h2, h3⟩ := h.anc_link x hx
      refine ⟨a, l, by rw [hanc]; simp only [upd, if_neg hxv]; exact h1, by rw [hlab x hxv]; exact h2, ?_⟩
      rw [hsemi]; exact h3

/-- a vertex holding an `ancestor` pointer is linked -/
theorem FInv.linked_of_anc {i : Nat} {s : St} {v a : Nat} (h : FInv num par i s)
    (ha : s.ancestor v = some (some a)) : i < num v := by
  apply Classical.byContradiction
  intro hn
  by_cases h0 : num v = 0
  · rw [h.anc_none v h0] at ha; simp at ha
  · rw [h.anc_root v h0 (by omega)] at ha; simp at ha

/-- `_compress(v)` on a linked vertex -/
theorem compress_spec (T : DTree E r num par) (i : Nat) : ∀ (f : Nat) (s : St) (v u : Nat),
    FInv num par i s → num v < f → s.ancestor v = some (some u) →
    ∃ s' ρ, compress f s v = some s' ∧ FInv num par i s' ∧ Same s s' ∧
      s'.ancestor v = some (some ρ) ∧ num ρ ≤ i ∧
      (∀ x, num v < num x → s'.ancestor x = s.ancestor x ∧ s'.label x = s.label x)
  | 0, _, _, _, _, h, _ => by omega
  | f + 1, s, v, u, hF, hf, hav => by
    have hv := hF.linked_of_anc hav
    obtain ⟨a, lv, h1, hlv, h3, h4, h5, h6, h7⟩ := hF.anc_link v hv
    have ha : u = a := by rw [hav] at h1; simpa using h1
    subst ha
    have huv : num u < num v := by
      rcases T.anc_lt h3 with h | h
      · exact absurd h h4
      · exact h.2
    have hu0 : num u ≠ 0 := by
      rcases T.anc_lt h3 with h | h
      · exact absurd h h4
      · exact h.1
    simp only [compress, hav]
    cases hau : s.ancestor u with
    | none =>
      exfalso
      by_cases hui : num u ≤ i
      · rw [hF.anc_root u hu0 hui] at hau; simp at hau
      · obtain ⟨a, _, h, _⟩ := hF.anc_link u (by omega)
        rw [h] at hau; simp at hau
    | some o =>
      cases o with
      | none =>
        refine ⟨s, u, rfl, hF, Same.refl s, hav, ?_, fun _ _ => ⟨rfl, rfl⟩⟩
        apply Classical.byContradiction
        intro hn
        obtain ⟨a, _, h, _⟩ := hF.anc_link u (by omega)
        rw [h] at hau; simp at hau
      | some a' =>
        have hu := hF.linked_of_anc hau
        obtain ⟨s1, ρ, hc, hF1, hS1, hρ, hρi, hfr⟩ := compress_spec T i f s u a' hF (by omega) hau
        simp only [hc]
        have hav1 : s1.ancestor v = some (some u) := by rw [(hfr v huv).1]; exact hav
        have hlv1 : s1.label v = some lv := by rw [(hfr v huv).2]; exact hlv
        obtain ⟨a2, lu, g1, hlu, _⟩ := hF1.anc_link u hu
        simp only [hlu, hlv1, hρ]
        by_cases hc2 : s1.semi lu < s1.semi lv
        · simp only [hc2, if_true]
          refine ⟨_, ρ, rfl, ?_, ⟨hS1.semi, hS1.vertex, hS1.parent, hS1.pred, hS1.bucket, hS1.dom⟩,
            by simp [upd], hρi, ?_⟩
          · exact hF1.relink T (l' := lu) hv hu hav1 hlv1 hρ hlu rfl rfl
              (fun x hx => by simp [upd, hx]) (by simp [upd]) ⟨Or.inl rfl, Nat.le_refl _, by omega⟩
          · intro x hx
            have hxv : x ≠ v := fun e => by subst e; omega
            have := hfr x (by omega)
            simp only [upd, if_neg hxv]
            exact this
        · simp only [hc2, if_false]
          refine ⟨_, ρ, rfl, ?_, ⟨hS1.semi, hS1.vertex, hS1.parent, hS1.pred, hS1.bucket, hS1.dom⟩,
            by simp [upd], hρi, ?_⟩
          · exact hF1.relink T (l' := lv) hv hu hav1 hlv1 hρ hlu rfl rfl
              (fun x _ => rfl) hlv1 ⟨Or.inr rfl, by omega, Nat.le_refl _⟩
          · intro x hx
            have hxv : x ≠ v := fun e => by subst e; omega
            have := hfr x (by omega)
            simp only [upd, if_neg hxv]
            exact this

/-- `_eval(v)`: `v` itself when `v` is unlinked, otherwise a linked tree ancestor of `v` (or `v`) of
    minimum `semi` among all linked tree ancestors of `v` -/
theorem eval_spec (T : DTree E r num par) (i f : Nat) (s : St) (v : Nat) (hF : FInv num par i s)
    (hv : num v ≠ 0) (hf : num v < f) :
    ∃ s' u, eval f s v = some (s', u) ∧ FInv num par i s' ∧ Same s s' ∧
      ((num v ≤ i ∧ u = v) ∨
       (i < num v ∧ i < num u ∧ Anc par u v ∧ ∀ z, Anc par z v → i < num z → s.semi u ≤ s.semi z)) := by
  simp only [eval]
  by_cases hvi : num v ≤ i
  · rw [hF.anc_root v hv hvi]
    exact ⟨s, v, rfl, hF, Same.refl s, Or.inl ⟨hvi, rfl⟩⟩
  · obtain ⟨a, _, hav, _⟩ := hF.anc_link v (by omega)
    obtain ⟨s1, ρ, hc, hF1, hS1, hρ, hρi, _⟩ := compress_spec T i f s v a hF hf hav
    simp only [hav, hc]
    obtain ⟨a2, l, g1, hl, g3, g4, g5, g6, g7⟩ := hF1.anc_link v (by omega)
    have : ρ = a2 := by rw [hρ] at g1; simpa using g1
    subst this
    simp only [hl]
    refine ⟨s1, l, rfl, hF1, hS1, Or.inr ⟨by omega, g5 l g6, g6.2.2, ?_⟩⟩
    intro z hz hzi
    rw [← hS1.semi]
    apply g7 z
    rcases g3.chain hz with h | h
    · exact ⟨h, fun e => by subst e; omega, hz⟩
    · have := T.anc_le h; omega

end AgVerif.DomLT
