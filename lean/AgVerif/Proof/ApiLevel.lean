/-
Lemmas for C39 (model AgVerif.ApiLevel, specification AgVerif.Spec.ApiLevel).
-/
import AgVerif.Model.ApiLevel
import AgVerif.Spec.ApiLevel
import Std.Data.String.ToInt
namespace AgVerif.ApiLevel
open AgVerif.Spec.ApiLevel

theorem maxL_mem : ∀ (l : List Nat), l ≠ [] → maxL l ∈ l
  | [], h => absurd rfl h
  | [x], _ => by simp [maxL]
  | x :: y :: ys, _ => by
    have ih := maxL_mem (y :: ys) (by simp)
    simp only [maxL, List.isEmpty_cons, Bool.false_eq_true, if_false] at ih ⊢
    by_cases h : x ≤ (if ys.isEmpty then y else max y (maxL ys))
    · rw [Nat.max_def, if_pos h]; exact List.mem_cons_of_mem _ ih
    · rw [Nat.max_def, if_neg h]; exact List.mem_cons_self

theorem le_maxL : ∀ (l : List Nat) (k : Nat), k ∈ l → k ≤ maxL l
  | [], k, h => by simp at h
  | [x], k, h => by simp at h; simp [maxL, h]
  | x :: y :: ys, k, h => by
    have ih := le_maxL (y :: ys) k
    simp only [maxL, List.isEmpty_cons, Bool.false_eq_true, if_false] at ih ⊢
    rcases List.mem_cons.mp h with rfl | h'
    · exact Nat.le_max_left _ _
    · exact Nat.le_trans (ih h') (Nat.le_max_right _ _)

theorem minL_mem : ∀ (l : List Nat), l ≠ [] → minL l ∈ l
  | [], h => absurd rfl h
  | [x], _ => by simp [minL]
  | x :: y :: ys, _ => by
    have ih := minL_mem (y :: ys) (by simp)
    simp only [minL, List.isEmpty_cons, Bool.false_eq_true, if_false] at ih ⊢
    by_cases h : x ≤ (if ys.isEmpty then y else min y (minL ys))
    · rw [Nat.min_def, if_pos h]; exact List.mem_cons_self
    · rw [Nat.min_def, if_neg h]; exact List.mem_cons_of_mem _ ih

theorem minL_le : ∀ (l : List Nat) (k : Nat), k ∈ l → minL l ≤ k
  | [], k, h => by simp at h
  | [x], k, h => by simp at h; simp [minL, h]
  | x :: y :: ys, k, h => by
    have ih := minL_le (y :: ys) k
    simp only [minL, List.isEmpty_cons, Bool.false_eq_true, if_false] at ih ⊢
    rcases List.mem_cons.mp h with rfl | h'
    · exact Nat.min_le_left _ _
    · exact Nat.le_trans (Nat.min_le_right _ _) (ih h')

theorem isFile_iff (files : List Nat) (n : Int) :
    isFile files n = true ↔ 0 ≤ n ∧ n.toNat ∈ files := by
  simp [isFile]

theorem isFile_nat (files : List Nat) (k : Nat) : isFile files (k : Int) = true ↔ k ∈ files := by
  simp [isFile]

/-- every level is a file that exists under the name the code opens -/
def LevelsAreFiles (files levels : List Nat) : Prop := ∀ k, k ∈ levels → k ∈ files
/-- the directory listing is canonical: levels and files coincide -/
def Canonical (files levels : List Nat) : Prop :=
  (∀ k, k ∈ levels → k ∈ files) ∧ (∀ k, k ∈ files → k ∈ levels)

instance (files levels : List Nat) : Decidable (LevelsAreFiles files levels) :=
  inferInstanceAs (Decidable (∀ k, k ∈ levels → k ∈ files))
instance (files levels : List Nat) : Decidable (Canonical files levels) :=
  inferInstanceAs (Decidable ((∀ k, k ∈ levels → k ∈ files) ∧ (∀ k, k ∈ files → k ∈ levels)))

/-- one more frame on an existing file returns it -/
theorem chooseFuel_file (fuel : Nat) (files levels : List Nat) (k : Nat)
    (hne : levels ≠ []) (hk : k ∈ files) :
    chooseFuel (fuel + 1) files levels (k : Int) = .level k := by
  have h1 : levels.isEmpty = false := by cases levels <;> simp_all
  have h2 : isFile files (k : Int) = true := (isFile_nat files k).2 hk
  simp [chooseFuel, h1, h2]

theorem not_avail_of_not_file (files levels : List Nat) (n : Int)
    (hc : Canonical files levels) (h : isFile files n = false) : ¬ Avail levels n := by
  rintro ⟨k, hk, rfl⟩
  have := (isFile_nat files k).2 (hc.1 k hk)
  simp [this] at h

/-- The whole case analysis of load_permissions, for every integer and every canonical directory. -/
theorem chooseFuel_cases (fuel : Nat) (files levels : List Nat) (n : Int)
    (hne : levels ≠ []) (hc : Canonical files levels) :
    ∃ l, chooseFuel (fuel + 2) files levels n = .level l ∧ l ∈ levels ∧
      ((isFile files n = true ∧ (l : Int) = n) ∨
       (isFile files n = false ∧ n > (maxL levels : Int) ∧ l = maxL levels) ∨
       (isFile files n = false ∧ n < (minL levels : Int) ∧ l = minL levels) ∨
       (isFile files n = false ∧ ¬ n > (maxL levels : Int) ∧ ¬ n < (minL levels : Int) ∧
          (l : Int) < n ∧ ∀ k, k ∈ levels → (k : Int) < n → k ≤ l)) := by
  have h1 : levels.isEmpty = false := by cases levels <;> simp_all
  have hmax := maxL_mem levels hne
  have hmin := minL_mem levels hne
  by_cases hf : isFile files n = true
  · have := (isFile_iff files n).1 hf
    refine ⟨n.toNat, ?_, hc.2 _ this.2, Or.inl ⟨hf, ?_⟩⟩
    · simp [chooseFuel, h1, hf]
    · omega
  · have hf' : isFile files n = false := by simpa using hf
    by_cases hgt : n > (maxL levels : Int)
    · refine ⟨maxL levels, ?_, hmax, Or.inr (Or.inl ⟨hf', hgt, rfl⟩)⟩
      rw [chooseFuel]; simp only [h1, hf', hgt]
      simpa using chooseFuel_file fuel files levels (maxL levels) hne (hc.1 _ hmax)
    · by_cases hlt : n < (minL levels : Int)
      · refine ⟨minL levels, ?_, hmin, Or.inr (Or.inr (Or.inl ⟨hf', hlt, rfl⟩))⟩
        rw [chooseFuel]; simp only [h1, hf', hgt, hlt]
        simpa using chooseFuel_file fuel files levels (minL levels) hne (hc.1 _ hmin)
      · -- between: the minimum is strictly below n because n itself is not available
        have hna := not_avail_of_not_file files levels n hc hf'
        have hminlt : (minL levels : Int) < n := by
          have : (minL levels : Int) ≠ n := fun e => hna ⟨_, hmin, e⟩
          omega
        let lower := levels.filter (fun (x : Nat) => decide ((x : Int) < n))
        have hminmem : minL levels ∈ lower := by
          simp only [lower, List.mem_filter, decide_eq_true_eq]; exact ⟨hmin, hminlt⟩
        have hlne : lower ≠ [] := List.ne_nil_of_mem hminmem
        have hle : lower.isEmpty = false := by
          cases h : lower with
          | nil => exact absurd h hlne
          | cons _ _ => rfl
        have hlm := maxL_mem lower hlne
        have hlm' : maxL lower ∈ levels ∧ ((maxL lower : Nat) : Int) < n := by
          have := List.mem_filter.1 hlm
          exact ⟨this.1, by simpa using this.2⟩
        refine ⟨maxL lower, ?_, hlm'.1, Or.inr (Or.inr (Or.inr ⟨hf', hgt, hlt, hlm'.2, ?_⟩))⟩
        · rw [chooseFuel]; simp only [h1, hf', hgt, hlt]
          show (if lower.isEmpty = true then Pick.valueError
                else chooseFuel (fuel + 1) files levels ↑(maxL lower)) = _
          rw [hle]
          simpa using chooseFuel_file fuel files levels (maxL lower) hne (hc.1 _ hlm'.1)
        · intro k hk hkn
          exact le_maxL lower k (List.mem_filter.2 ⟨hk, by simpa using hkn⟩)

/-- `int(str(n)) = n` for the model's parser -/
theorem toInt_toString (n : Int) : (Api.str (toString n)).toInt? = some n := by
  show (toString n).toInt? = some n
  exact Int.toInt?_repr n

/-- `str(n)` is never the empty string -/
theorem toString_int_ne_empty (n : Int) : (toString n == "") = false := by
  have : toString n ≠ "" := by cases n <;> simp [toString, Int.repr]
  simpa using this

end AgVerif.ApiLevel
