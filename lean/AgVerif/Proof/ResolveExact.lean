/-
C29/C28: resolutions whose selected entries hold no reference — the exact list the resolver
returns (order, multiplicity and brackets), not only its set of values.  Core Lean only.
-/
import AgVerif.Proof.Resolve
namespace AgVerif.Resolve

def refFreeItem : Item → Bool
  | .ref _ => false
  | .lit _ => true

def refFree : Entry → Bool
  | .simple v => refFreeItem v
  | .complex items => items.all refFreeItem

def tokItem (c : Config) (cplx : Bool) : Item → List Tok
  | .ref _ => []
  | .lit s => [if cplx then .bare s else .pair c s]

/-- what `put_ate_value` appends for an entry without references: `(config, text)` for a simple
    entry, `(config, [texts…])` for a complex one -/
def tokE (c : Config) : Entry → List Tok
  | .simple v => tokItem c false v
  | .complex items => .opn c :: items.flatMap (tokItem c true) ++ [.cls]

theorem seqAll_map_some {α : Type} (l : List α) (g : α → List Tok) :
    seqAll (l.map fun x => some (g x)) = some (l.flatMap g) := by
  induction l with
  | nil => rfl
  | cons x r ih => simp only [List.map_cons, seqAll, ih, List.flatMap_cons]

theorem putItem_refFree (rec : ResId → Option (List Tok)) (c : Config)
    (p : ResId) (cplx : Bool) (it : Item) (h : refFreeItem it = true) :
    putItem rec c p cplx it = some (tokItem c cplx it) := by
  cases it with
  | ref r => simp [refFreeItem] at h
  | lit s => rfl

theorem putAte_refFree (rec : ResId → Option (List Tok)) (c : Config)
    (p : ResId) (e : Entry) (h : refFree e = true) :
    putAte rec c p e = some (tokE c e) := by
  cases e with
  | simple v => exact putItem_refFree rec c p false v h
  | complex items =>
    have hm : items.map (putItem rec c p true) = items.map fun it => some (tokItem c true it) := by
      apply List.map_congr_left
      intro it hit
      exact putItem_refFree rec c p true it ((List.all_eq_true.mp h) it hit)
    simp only [putAte, hm, seqAll_map_some, tokE]

/-- `get_resolved_res_configs(rid, config)` when none of the selected entries holds a reference:
    exactly the stored values of the selected configurations, in order, one element per entry -/
theorem resolveV_refFree (t : Table) (w : Option Config) (rid : ResId)
    (hr : rid ≠ 0) (h : ∀ p ∈ getResConfigs t rid w, refFree p.2 = true) :
    resolveV t w rid
      = .ok ((getResConfigs t rid w).flatMap fun p => tokE p.1 p.2) := by
  unfold resolveV
  rw [if_neg hr]
  have hb : t.bound = t.ids.length + 1 := rfl
  rw [hb]
  simp only [resolveVF, List.not_mem_nil, if_false]
  have hm : (getResConfigs t rid w).map (fun p =>
        putAte (resolveVF t w t.ids.length [rid]) p.1 rid p.2)
      = (getResConfigs t rid w).map fun p => some (tokE p.1 p.2) := by
    apply List.map_congr_left
    intro p hp
    exact putAte_refFree _ p.1 rid p.2 (h p hp)
  rw [hm, seqAll_map_some]


end AgVerif.Resolve
