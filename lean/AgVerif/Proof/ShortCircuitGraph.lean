/-
C25 — a merge of short_circuit_struct preserves where control goes, for every graph, every operand values.
-/
import AgVerif.Proof.ShortCircuit

namespace AgVerif.ShortCircuit

/-- where a conditional node sends control -/
def CNode.route (env : Env) (x : CNode) : Nat := if x.c.eval env then x.t else x.f

theorem next_of_look {G : CGraph} {env : Env} {n : Nat} {x : CNode} (h : G.look n = some x) :
    G.next env n = some (x.route env) := by
  simp [CGraph.next, h, CNode.route]

theorem look_mem {G : CGraph} {n : Nat} {x : CNode} (h : G.look n = some x) : x ∈ G.nodes ∧ x.id = n := by
  unfold CGraph.look at h
  have h1 := List.mem_of_find?_eq_some h
  have h2 := List.find?_some h
  exact ⟨h1, by simpa using h2⟩

/-- what the four rules have in common: `n2` is a conditional successor of the conditional node `n1`,
    distinct from it, and `len(graph.preds(n2)) == 1` -/
structure MergePre (G : CGraph) (n1 n2 : Nat) (nd tn : CNode) : Prop where
  h1 : G.look n1 = some nd
  h2 : G.look n2 = some tn
  ne : n1 ≠ n2
  single : (G.preds n2).length = 1
  succ : nd.t = n2 ∨ nd.f = n2

theorem length_one_eq {α} {l : List α} (h : l.length = 1) {a b : α} (ha : a ∈ l) (hb : b ∈ l) : a = b := by
  match l, h with
  | [y], _ => simp at ha hb; rw [ha, hb]

/-- the only node that points at `n2` is `n1`'s node; no statement node does -/
theorem only_pred {G : CGraph} {n1 n2 : Nat} {nd tn : CNode} (P : MergePre G n1 n2 nd tn) :
    (∀ x ∈ G.nodes, (x.t = n2 ∨ x.f = n2) → x = nd) ∧ (∀ s ∈ G.stmts, s.2 ≠ n2) := by
  have hnd := (look_mem P.h1).1
  have hin : nd ∈ G.nodes.filter (fun x => x.t == n2 || x.f == n2) := by
    rw [List.mem_filter]; refine ⟨hnd, ?_⟩
    rcases P.succ with h | h <;> simp [h]
  have hlen := P.single
  unfold CGraph.preds at hlen
  rw [List.length_append, List.length_map, List.length_map] at hlen
  have hpos : 0 < (G.nodes.filter (fun x => x.t == n2 || x.f == n2)).length := List.length_pos_of_mem hin
  have hA : (G.nodes.filter (fun x => x.t == n2 || x.f == n2)).length = 1 := by omega
  have hB : (G.stmts.filter (fun s => s.2 == n2)).length = 0 := by omega
  constructor
  · intro x hx hs
    have : x ∈ G.nodes.filter (fun x => x.t == n2 || x.f == n2) := by
      rw [List.mem_filter]; refine ⟨hx, ?_⟩
      rcases hs with h | h <;> simp [h]
    exact length_one_eq hA this hin
  · intro s hs heq
    have : s ∈ G.stmts.filter (fun s => s.2 == n2) := by
      rw [List.mem_filter]; exact ⟨hs, by simp [heq]⟩
    have := List.length_pos_of_mem this
    omega

/-- `n2` does not branch to itself (it would be its own second predecessor) -/
theorem no_self {G : CGraph} {n1 n2 : Nat} {nd tn : CNode} (P : MergePre G n1 n2 nd tn) :
    tn.t ≠ n2 ∧ tn.f ≠ n2 := by
  have htn := look_mem P.h2
  have hnd := look_mem P.h1
  have key : ∀ (h : tn.t = n2 ∨ tn.f = n2), False := by
    intro h
    have := (only_pred P).1 tn htn.1 h
    have : n2 = n1 := by rw [← htn.2, this, hnd.2]
    exact P.ne this.symm
  exact ⟨fun h => key (Or.inl h), fun h => key (Or.inr h)⟩

/-- the merged node decides like the two nodes one after the other -/
def MergeOK (G : CGraph) (n1 n2 : Nat) (m : CNode) : Prop :=
  ∃ nd tn, MergePre G n1 n2 nd tn ∧ m.id = n1 ∧
    (∀ env, m.route env = (if nd.route env = n2 then tn.route env else nd.route env)) ∧
    (nd.c.WF → tn.c.WF → m.c.WF)

/-! ### the four shapes -/

theorem shape_and {G n1 n2 nd tn} (P : MergePre G n1 n2 nd tn) (ht : nd.t = n2) (hf : tn.f = nd.f) :
    MergeOK G n1 n2 ⟨n1, .sc false true nd.c tn.c, tn.t, nd.f⟩ := by
  refine ⟨nd, tn, P, rfl, fun env => ?_, fun h1 h2 => ⟨h1, h2⟩⟩
  have hns := no_self P
  have : nd.f ≠ n2 := hf ▸ hns.2
  simp only [CNode.route, Cond.eval]
  by_cases h1 : Cond.eval env nd.c = true <;> by_cases h2 : Cond.eval env tn.c = true <;>
    simp [h1, h2, ht, hf, this]

theorem shape_ornot {G n1 n2 nd tn} (P : MergePre G n1 n2 nd tn) (ht : nd.t = n2) (hf : tn.t = nd.f) :
    MergeOK G n1 n2 ⟨n1, .sc true false nd.c tn.c, nd.f, tn.f⟩ := by
  refine ⟨nd, tn, P, rfl, fun env => ?_, fun h1 h2 => ⟨h1, h2⟩⟩
  have hns := no_self P
  have : nd.f ≠ n2 := hf ▸ hns.1
  simp only [CNode.route, Cond.eval]
  by_cases h1 : Cond.eval env nd.c = true <;> by_cases h2 : Cond.eval env tn.c = true <;>
    simp [h1, h2, ht, hf, this]

theorem shape_andnot {G n1 n2 nd tn} (P : MergePre G n1 n2 nd tn) (he : nd.f = n2) (hf : tn.f = nd.t) :
    MergeOK G n1 n2 ⟨n1, .sc true true nd.c tn.c, tn.t, nd.t⟩ := by
  refine ⟨nd, tn, P, rfl, fun env => ?_, fun h1 h2 => ⟨h1, h2⟩⟩
  have hns := no_self P
  have : nd.t ≠ n2 := hf ▸ hns.2
  simp only [CNode.route, Cond.eval]
  by_cases h1 : Cond.eval env nd.c = true <;> by_cases h2 : Cond.eval env tn.c = true <;>
    simp [h1, h2, he, hf, this]

theorem shape_or {G n1 n2 nd tn} (P : MergePre G n1 n2 nd tn) (he : nd.f = n2) (hf : tn.t = nd.t) :
    MergeOK G n1 n2 ⟨n1, .sc false false nd.c tn.c, nd.t, tn.f⟩ := by
  refine ⟨nd, tn, P, rfl, fun env => ?_, fun h1 h2 => ⟨h1, h2⟩⟩
  have hns := no_self P
  have : nd.t ≠ n2 := hf ▸ hns.1
  simp only [CNode.route, Cond.eval]
  by_cases h1 : Cond.eval env nd.c = true <;> by_cases h2 : Cond.eval env tn.c = true <;>
    simp [h1, h2, he, hf, this]

/-! ### lookups in the merged graph -/

theorem lookup_mem {l : List (Nat × Nat)} {k j : Nat} (h : l.lookup k = some j) : (k, j) ∈ l := by
  induction l with
  | nil => simp at h
  | cons a l ih =>
    obtain ⟨a1, a2⟩ := a
    rw [List.lookup_cons] at h
    by_cases hk : k = a1
    · subst hk; simp at h; simp [h]
    · have : (k == a1) = false := by simp [hk]
      rw [this] at h
      exact List.mem_cons_of_mem _ (ih h)


theorem find_filter_ne (l : List CNode) (n2 k : Nat) :
    (l.filter (fun x => x.id != n2)).find? (fun x => x.id == k)
      = if k = n2 then none else l.find? (fun x => x.id == k) := by
  induction l with
  | nil => simp
  | cons a l ih =>
    by_cases ha2 : a.id = n2
    · have h : (a.id != n2) = false := by simp [ha2]
      rw [List.filter_cons, h]
      simp only [Bool.false_eq_true, if_false, ih]
      by_cases hk2 : k = n2
      · simp [hk2]
      · have : (a.id == k) = false := by
          simp only [beq_eq_false_iff_ne, ne_eq, ha2]; exact fun h => hk2 h.symm
        simp [hk2, List.find?_cons, this]
    · have h : (a.id != n2) = true := by simp [ha2]
      rw [List.filter_cons, h]
      simp only [if_true, List.find?_cons, ih]
      by_cases hak : a.id = k
      · have : (a.id == k) = true := by simp [hak]
        have hk2 : ¬ k = n2 := fun h => ha2 (hak.trans h)
        simp [this, hk2]
      · have : (a.id == k) = false := by simp [hak]
        simp [this]

theorem find_map_id (l : List CNode) (f : CNode → CNode) (hf : ∀ x, (f x).id = x.id) (k : Nat) :
    (l.map f).find? (fun x => x.id == k) = (l.find? (fun x => x.id == k)).map f := by
  induction l with
  | nil => simp
  | cons a l ih =>
    simp only [List.map_cons, List.find?_cons, hf]
    cases h : a.id == k <;> simp [ih]

theorem find_merged (l : List CNode) (n1 n2 k : Nat) (m : CNode) (hm : m.id = n1) (hne : n1 ≠ n2) :
    ((l.filter (fun x => x.id != n2)).map (fun x => if x.id == n1 then m else x)).find? (fun x => x.id == k)
      = if k = n2 then none else if k = n1 then (l.find? (fun x => x.id == n1)).map (fun _ => m)
        else l.find? (fun x => x.id == k) := by
  rw [find_map_id _ _ (by intro x; by_cases h : x.id = n1 <;> simp [h, hm]), find_filter_ne]
  by_cases hk2 : k = n2
  · simp [hk2]
  · simp only [hk2, if_false]
    cases hfind : l.find? (fun x => x.id == k) with
    | none =>
      by_cases hk1 : k = n1
      · subst hk1; simp [hfind]
      · simp [hk1]
    | some x =>
      have hx : x.id = k := by simpa using List.find?_some hfind
      by_cases hk1 : k = n1
      · subst hk1; simp [hfind, hx]
      · have : ¬ x.id = n1 := by rw [hx]; exact hk1
        simp [hk1, this]

theorem look_merged {G : CGraph} {n1 n2 : Nat} {m : CNode} (hm : m.id = n1) (hne : n1 ≠ n2) (k : Nat) :
    (G.merged n1 n2 m).look k =
      if k = n2 then none else if k = n1 then (G.look n1).map (fun _ => m) else G.look k := by
  unfold CGraph.look CGraph.merged
  exact find_merged G.nodes n1 n2 k m hm hne

/-! ### one merge preserves routing from every node other than the absorbed one -/

section step
variable {G : CGraph} {n1 n2 : Nat} {m : CNode}

theorem next_other (ok : MergeOK G n1 n2 m) (env : Env) {k : Nat} (h1 : k ≠ n1) (h2 : k ≠ n2) :
    (G.merged n1 n2 m).next env k = G.next env k := by
  obtain ⟨nd, tn, P, hm, _⟩ := ok
  unfold CGraph.next
  rw [look_merged hm P.ne]
  simp [h1, h2, CGraph.merged]

theorem next_first (ok : MergeOK G n1 n2 m) (env : Env) :
    (G.merged n1 n2 m).next env n1 = some (m.route env) := by
  obtain ⟨nd, tn, P, hm, _⟩ := ok
  apply next_of_look
  rw [look_merged hm P.ne]
  simp [P.ne, P.h1]

/-- a step of `G` from a node other than `n1` never lands on `n2` -/
theorem next_ne_second (ok : MergeOK G n1 n2 m) (env : Env) {k j : Nat} (hk : k ≠ n1)
    (h : G.next env k = some j) : j ≠ n2 := by
  obtain ⟨nd, tn, P, hm, _⟩ := ok
  have op := only_pred P
  unfold CGraph.next at h
  cases hl : G.look k with
  | some x =>
    rw [hl] at h
    have hx := look_mem hl
    intro hj
    have : x = nd := by
      apply op.1 x hx.1
      simp only [Option.some.injEq] at h
      by_cases he : x.c.eval env <;> simp [he] at h
      · left; rw [h, hj]
      · right; rw [h, hj]
    have : k = n1 := by rw [← hx.2, this, (look_mem P.h1).2]
    exact hk this
  | none =>
    rw [hl] at h
    simp only at h
    intro hj
    have hmem : (k, j) ∈ G.stmts := lookup_mem h
    exact op.2 (k, j) hmem hj

theorem forward (ok : MergeOK G n1 n2 m) (env : Env) {s e : Nat} (h : Reach G env s e) :
    (s ≠ n2 → Reach (G.merged n1 n2 m) env s e) ∧
    (s = n2 → ∀ j, G.next env n2 = some j → Reach (G.merged n1 n2 m) env j e) := by
  have ok' := ok
  obtain ⟨nd, tn, P, hm, hroute, -⟩ := ok
  have hn1 : G.next env n1 = some (nd.route env) := next_of_look P.h1
  have hn2 : G.next env n2 = some (tn.route env) := next_of_look P.h2
  have hns := no_self P
  have htn2 : tn.route env ≠ n2 := by
    unfold CNode.route; split
    · exact hns.1
    · exact hns.2
  induction h with
  | @stop n hstop =>
    have h1 : n ≠ n1 := by intro h; rw [h, hn1] at hstop; cases hstop
    have h2 : n ≠ n2 := by intro h; rw [h, hn2] at hstop; cases hstop
    refine ⟨fun _ => Reach.stop ?_, fun h => absurd h h2⟩
    rw [next_other ok' env h1 h2]; exact hstop
  | @step n j e hstep hrest ih =>
    constructor
    · intro hne2
      by_cases h1 : n = n1
      · subst h1
        rw [hn1] at hstep
        have hj : j = nd.route env := (Option.some.inj hstep).symm
        refine Reach.step (next_first ok' env) ?_
        rw [hroute env]
        by_cases hjn : nd.route env = n2
        · simp only [hjn, if_true]
          exact ih.2 (hj.trans hjn) _ hn2
        · simp only [hjn, if_false]
          rw [← hj]
          exact ih.1 (by rw [hj]; exact hjn)
      · refine Reach.step (by rw [next_other ok' env h1 hne2]; exact hstep) ?_
        exact ih.1 (next_ne_second ok' env h1 hstep)
    · intro heq j' hj'
      subst heq
      rw [hj'] at hstep
      have : j' = j := Option.some.inj hstep
      subst this
      rw [hn2] at hj'
      have : j' = tn.route env := (Option.some.inj hj').symm
      exact ih.1 (by rw [this]; exact htn2)

theorem backward (ok : MergeOK G n1 n2 m) (env : Env) {s e : Nat} (h : Reach (G.merged n1 n2 m) env s e) :
    s ≠ n2 → Reach G env s e := by
  have ok' := ok
  obtain ⟨nd, tn, P, hm, hroute, -⟩ := ok
  have hn1 : G.next env n1 = some (nd.route env) := next_of_look P.h1
  have hn2 : G.next env n2 = some (tn.route env) := next_of_look P.h2
  have hns := no_self P
  have htn2 : tn.route env ≠ n2 := by
    unfold CNode.route; split
    · exact hns.1
    · exact hns.2
  induction h with
  | @stop n hstop =>
    intro hne2
    have h1 : n ≠ n1 := by intro h; rw [h, next_first ok' env] at hstop; cases hstop
    exact Reach.stop (by rw [← next_other ok' env h1 hne2]; exact hstop)
  | @step n j e hstep hrest ih =>
    intro hne2
    by_cases h1 : n = n1
    · subst h1
      rw [next_first ok' env, hroute env] at hstep
      by_cases hjn : nd.route env = n2
      · simp only [hjn, if_true] at hstep
        have hj : j = tn.route env := (Option.some.inj hstep).symm
        have r2 : Reach G env (tn.route env) e := hj ▸ ih (by rw [hj]; exact htn2)
        have r1 : Reach G env n2 e := Reach.step hn2 r2
        exact Reach.step hn1 (hjn ▸ r1)
      · simp only [hjn, if_false] at hstep
        have hj : j = nd.route env := (Option.some.inj hstep).symm
        exact Reach.step hn1 (hj ▸ ih (by rw [hj]; exact hjn))
    · rw [next_other ok' env h1 hne2] at hstep
      exact Reach.step hstep (ih (next_ne_second ok' env h1 hstep))

theorem merge_reach (ok : MergeOK G n1 n2 m) (env : Env) {s e : Nat} (hs : s ≠ n2) :
    Reach G env s e ↔ Reach (G.merged n1 n2 m) env s e :=
  ⟨fun h => (forward ok env h).1 hs, fun h => backward ok env h hs⟩

end step

end AgVerif.ShortCircuit

namespace AgVerif.ShortCircuit

/-! ### the code's decision procedure only ever performs sound merges -/

theorem mergeEls_sound {g : Guard} {G : CGraph} {n1 n2 : Nat} {nd : CNode} {G' : CGraph}
    (hl : G.look n1 = some nd) (hne : ¬ (n1 = nd.t ∨ n1 = nd.f))
    (h : mergeElsG g G n1 nd = some (n2, G')) :
    ∃ m, MergeOK G n1 n2 m ∧ G' = G.merged n1 n2 m ∧ (∃ x, G.look n2 = some x ∧ g G n2 x = true) := by
  unfold mergeElsG at h
  simp only at h
  cases hle : G.look nd.f with
  | none => rw [hle] at h; cases h
  | some en =>
    rw [hle] at h
    simp only at h
    split at h
    · rename_i hc
      simp only [Bool.and_eq_true, beq_iff_eq, Bool.or_eq_true, Bool.not_eq_true', bne_iff_ne, ne_eq] at hc
      have P : MergePre G n1 nd.f nd en :=
        ⟨hl, hle, fun h => hne (Or.inr h), hc.1, Or.inr rfl⟩
      have hent : ∃ x, G.look nd.f = some x ∧ g G nd.f x = true := ⟨en, hle, hc.2⟩
      split at h
      · cases h
      · split at h
        · rename_i hs
          simp only [beq_iff_eq] at hs
          simp only [Option.some.injEq, Prod.mk.injEq] at h
          obtain ⟨rfl, rfl⟩ := h
          exact ⟨_, shape_andnot P rfl hs, rfl, hent⟩
        · split at h
          · rename_i hs
            simp only [beq_iff_eq] at hs
            simp only [Option.some.injEq, Prod.mk.injEq] at h
            obtain ⟨rfl, rfl⟩ := h
            exact ⟨_, shape_or P rfl hs, rfl, hent⟩
          · cases h
    · cases h

theorem mergeAtG_sound {g : Guard} {G : CGraph} {n1 n2 : Nat} {G' : CGraph}
    (h : mergeAtG g G n1 = some (n2, G')) :
    ∃ m, MergeOK G n1 n2 m ∧ G' = G.merged n1 n2 m ∧ (∃ x, G.look n2 = some x ∧ g G n2 x = true) := by
  unfold mergeAtG at h
  cases hl : G.look n1 with
  | none => rw [hl] at h; cases h
  | some nd =>
    rw [hl] at h
    simp only at h
    split at h
    · cases h
    · rename_i hne
      simp only [Bool.or_eq_true, beq_iff_eq] at hne
      cases hlt : G.look nd.t with
      | none => rw [hlt] at h; exact mergeEls_sound hl hne h
      | some tn =>
        rw [hlt] at h
        simp only at h
        split at h
        · rename_i hc
          simp only [Bool.and_eq_true, beq_iff_eq, Bool.or_eq_true, Bool.not_eq_true', bne_iff_ne, ne_eq] at hc
          have P : MergePre G n1 nd.t nd tn :=
            ⟨hl, hlt, fun h => hne (Or.inl h), hc.1, Or.inl rfl⟩
          have hent : ∃ x, G.look nd.t = some x ∧ g G nd.t x = true := ⟨tn, hlt, hc.2⟩
          split at h
          · cases h
          · split at h
            · rename_i hs
              simp only [beq_iff_eq] at hs
              simp only [Option.some.injEq, Prod.mk.injEq] at h
              obtain ⟨rfl, rfl⟩ := h
              exact ⟨_, shape_and P rfl hs, rfl, hent⟩
            · split at h
              · rename_i hs
                simp only [beq_iff_eq] at hs
                simp only [Option.some.injEq, Prod.mk.injEq] at h
                obtain ⟨rfl, rfl⟩ := h
                exact ⟨_, shape_ornot P rfl hs, rfl, hent⟩
              · cases h
        · exact mergeEls_sound hl hne h

theorem mergeAt_sound {g : Bool} {G : CGraph} {n1 n2 : Nat} {G' : CGraph}
    (h : mergeAt g G n1 = some (n2, G')) :
    ∃ m, MergeOK G n1 n2 m ∧ G' = G.merged n1 n2 m ∧ (g = true → n2 ≠ G.entry) := by
  obtain ⟨m, ok, hG, x, _, hx⟩ := mergeAtG_sound h
  refine ⟨m, ok, hG, fun hg => ?_⟩
  subst hg
  simpa [guardCurrent] using hx

/-- any replayed sequence of merges (any length, any nesting) keeps the entry and the routing from it -/
theorem replay_reach {G G' : CGraph} (tr : List (Nat × Nat)) (h : replayG guardCurrent G tr = some G') :
    G'.entry = G.entry ∧ ∀ env e, Reach G env G.entry e ↔ Reach G' env G'.entry e := by
  induction tr generalizing G with
  | nil => simp only [replayG, Option.some.injEq] at h; subst h; exact ⟨rfl, fun _ _ => Iff.rfl⟩
  | cons p tr ih =>
    obtain ⟨n1, n2⟩ := p
    simp only [replayG] at h
    cases hm : mergeAtG guardCurrent G n1 with
    | none => rw [hm] at h; cases h
    | some r =>
      obtain ⟨m2, G1⟩ := r
      rw [hm] at h
      simp only at h
      split at h
      · obtain ⟨m, ok, hG1, hent⟩ := mergeAt_sound (g := true) hm
        have hent := hent rfl
        have hentry : G1.entry = G.entry := by
          rw [hG1]; simp only [CGraph.merged]
          have : (G.entry == m2) = false := by simp; exact fun h => hent h.symm
          simp [this]
        obtain ⟨e1, r1⟩ := ih h
        refine ⟨e1.trans hentry, fun env e => ?_⟩
        rw [← r1 env e, hentry, hG1]
        exact merge_reach ok env (fun h => hent h.symm)
      · cases h

end AgVerif.ShortCircuit

namespace AgVerif.ShortCircuit

theorem run_sound {G : CGraph} {env : Env} : ∀ (fuel n : Nat) {e : Nat}, G.run env fuel n = some e → Reach G env n e := by
  intro fuel
  induction fuel with
  | zero => intro n e h; simp [CGraph.run] at h
  | succ k ih =>
    intro n e h
    unfold CGraph.run at h
    cases hn : G.next env n with
    | none => rw [hn] at h; simp only [Option.some.injEq] at h; subst h; exact Reach.stop hn
    | some m => rw [hn] at h; exact Reach.step hn (ih m h)

theorem reach_det {G : CGraph} {env : Env} {n e e' : Nat} (h : Reach G env n e) (h' : Reach G env n e') : e = e' := by
  induction h with
  | stop hs =>
    cases h' with
    | stop _ => rfl
    | step hn _ => rw [hs] at hn; cases hn
  | step hn _ ih =>
    cases h' with
    | stop hs => rw [hs] at hn; cases hn
    | step hn' hr' =>
      rw [hn] at hn'
      cases hn'
      exact ih hr'

end AgVerif.ShortCircuit

namespace AgVerif.ShortCircuit

/-! ### well-formedness of every condition of the graph is kept by merging -/

/-- every conditional node's condition is well formed (boolean operands only tested with ==/!=) -/
def CGraph.WF (G : CGraph) : Prop := ∀ x ∈ G.nodes, x.c.WF

theorem merged_WF {G : CGraph} {n1 n2 : Nat} {m : CNode} (ok : MergeOK G n1 n2 m) (h : G.WF) :
    (G.merged n1 n2 m).WF := by
  obtain ⟨nd, tn, P, _, _, hwf⟩ := ok
  have hm : m.c.WF := hwf (h _ (look_mem P.h1).1) (h _ (look_mem P.h2).1)
  intro x hx
  simp only [CGraph.merged, List.mem_map, List.mem_filter] at hx
  obtain ⟨y, ⟨hy, _⟩, rfl⟩ := hx
  split
  · exact hm
  · exact h y hy

theorem replay_WF {G G' : CGraph} (tr : List (Nat × Nat)) (h : replayG guardCurrent G tr = some G') (hw : G.WF) :
    G'.WF := by
  induction tr generalizing G with
  | nil => simp only [replayG, Option.some.injEq] at h; subst h; exact hw
  | cons p tr ih =>
    obtain ⟨n1, n2⟩ := p
    simp only [replayG] at h
    cases hm : mergeAtG guardCurrent G n1 with
    | none => rw [hm] at h; cases h
    | some r =>
      obtain ⟨m2, G1⟩ := r
      rw [hm] at h
      simp only at h
      split at h
      · obtain ⟨m, ok, hG1, _⟩ := mergeAtG_sound hm
        exact ih h (hG1 ▸ merged_WF ok hw)
      · cases h

theorem look_WF {G : CGraph} (h : G.WF) {n : Nat} {x : CNode} (hl : G.look n = some x) : x.c.WF :=
  h x (look_mem hl).1

/-! ### routing when every node branches as its PRINTED text says -/

/-- one step of control where a conditional node goes to the `true` successor it has after `k n` negate-and-swap
    steps exactly when the text the writer prints for it (once) is true -/
def CGraph.nextPrinted (G : CGraph) (k : Nat → Nat) (env : Env) (n : Nat) : Option Nat :=
  match G.look n with
  | some x =>
    let r := writerPrint (k n) x
    some (if r.2.eval env then r.1.t else r.1.f)
  | none => G.stmts.lookup n

/-- control started at `n` leaves the graph at `e` when it follows the printed conditions -/
inductive ReachPrinted (G : CGraph) (k : Nat → Nat) (env : Env) : Nat → Nat → Prop
  | stop {n} : G.nextPrinted k env n = none → ReachPrinted G k env n n
  | step {n m e} : G.nextPrinted k env n = some m → ReachPrinted G k env m e → ReachPrinted G k env n e

theorem nextPrinted_eq {G : CGraph} (h : G.WF) (k : Nat → Nat) (env : Env) (n : Nat) :
    G.nextPrinted k env n = G.next env n := by
  unfold CGraph.nextPrinted CGraph.next
  cases hl : G.look n with
  | none => rfl
  | some x =>
    simp only [writerPrint, print_eval env _ _ (Nat.le_refl _) (swaps_WF (k n) x (look_WF h hl))]
    rw [swaps_route env (k n) x]

theorem reachPrinted_iff {G : CGraph} (h : G.WF) (k : Nat → Nat) (env : Env) (n e : Nat) :
    ReachPrinted G k env n e ↔ Reach G env n e := by
  constructor
  · intro r
    induction r with
    | stop hs => exact Reach.stop (by rw [← nextPrinted_eq h k env]; exact hs)
    | step hn _ ih => exact Reach.step (by rw [← nextPrinted_eq h k env]; exact hn) ih
  · intro r
    induction r with
    | stop hs => exact ReachPrinted.stop (by rw [nextPrinted_eq h k env]; exact hs)
    | step hn _ ih => exact ReachPrinted.step (by rw [nextPrinted_eq h k env]; exact hn) ih

end AgVerif.ShortCircuit
