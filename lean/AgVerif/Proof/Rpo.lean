/-
Lemmas for C19: the white/grey/black invariant of the recursive DFS `Rpo.loop`.

  white = not in `visited`,  grey = in `visited` but not yet in `out`,  black = in `out`.

`Core` is the part of the invariant that does not mention the node whose successor loop is running;
`Grey s cur` says that the grey nodes are exactly `cur` and its ancestors in the DFS tree.
-/
import AgVerif.Model.Rpo
import AgVerif.Spec.Digraph
namespace AgVerif.Rpo
open AgVerif AgVerif.Spec

/-- the executable well-formedness test implies `WF` -/
theorem wf_of_wfb {g : Digraph} (h : g.wfb = true) : g.WF := by
  simp only [Digraph.wfb, Bool.and_eq_true, decide_eq_true_eq, List.all_eq_true] at h
  obtain ⟨⟨h1, h2⟩, h3⟩ := h
  refine ⟨h1, ?_⟩
  intro u v hv
  simp only [Digraph.allSucs, List.mem_append] at hv
  rcases hv with hv | hv
  · cases he : g.edges[u]? with
    | none => rw [he] at hv; simp at hv
    | some l =>
      rw [he] at hv
      exact h2 l (List.mem_of_getElem? he) v hv
  · cases he : g.catchEdges[u]? with
    | none => rw [he] at hv; simp at hv
    | some l =>
      rw [he] at hv
      exact h3 l (List.mem_of_getElem? he) v hv

/-! ### post-order numbers as a function of the yield list -/

/-- the `po` attribute determined by the list of yielded nodes (most recent first) -/
def poFrom : List Nat → Nat → Option Nat
  | [], _ => none
  | v :: rest, x => if x = v then some (rest.length + 1) else poFrom rest x

theorem poFrom_some {l : List Nat} {x p : Nat} (h : poFrom l x = some p) :
    x ∈ l ∧ 1 ≤ p ∧ p ≤ l.length := by
  induction l with
  | nil => simp [poFrom] at h
  | cons v rest ih =>
    simp only [poFrom] at h
    split at h
    · next hx => simp at h; subst hx; simp; omega
    · obtain ⟨h1, h2, h3⟩ := ih h
      simp [h1]; omega

theorem poFrom_mem {l : List Nat} {x : Nat} (h : x ∈ l) : ∃ p, poFrom l x = some p := by
  induction l with
  | nil => simp at h
  | cons v rest ih =>
    simp only [poFrom]
    split
    · exact ⟨_, rfl⟩
    · next hx =>
      rcases List.mem_cons.mp h with h | h
      · exact absurd h hx
      · exact ih h

theorem poFrom_none {l : List Nat} {x : Nat} (h : x ∉ l) : poFrom l x = none := by
  cases hp : poFrom l x with
  | none => rfl
  | some p => exact absurd (poFrom_some hp).1 h

theorem poFrom_inj {l : List Nat} {x y p : Nat} (hx : poFrom l x = some p) (hy : poFrom l y = some p) :
    x = y := by
  induction l with
  | nil => simp [poFrom] at hx
  | cons v rest ih =>
    simp only [poFrom] at hx hy
    split at hx <;> split at hy
    · next h1 h2 => rw [h1, h2]
    · simp at hx; have := (poFrom_some hy).2.2; omega
    · simp at hy; have := (poFrom_some hx).2.2; omega
    · exact ih hx hy

/-- the numbers `N + 1 - po` along the yield list are consecutive -/
theorem map_num_poFrom (N : Nat) : ∀ (l : List Nat), l.Nodup → l.length ≤ N →
    l.map (fun x => match poFrom l x with | some p => N + 1 - p | none => 0)
      = List.range' (N + 1 - l.length) l.length
  | [], _, _ => by simp
  | v :: rest, hnd, hlen => by
    have hnd' := List.nodup_cons.mp hnd
    have ih := map_num_poFrom N rest hnd'.2 (by simp at hlen; omega)
    simp only [List.map_cons, List.length_cons, List.range'_succ]
    congr 1
    · simp [poFrom]
    · have : N + 1 - (rest.length + 1) + 1 = N + 1 - rest.length := by simp at hlen; omega
      rw [this, ← ih]
      apply List.map_congr_left
      intro x hx
      have : x ≠ v := fun h => hnd'.1 (h ▸ hx)
      simp [poFrom, this]

/-! ### ancestors -/

theorem Anc.mono {par par' : Nat → Option Nat}
    (h : ∀ y p, par y = some p → par' y = some p) {v u : Nat} (a : Anc par v u) : Anc par' v u := by
  induction a with
  | refl => exact Anc.refl _
  | step hp _ ih => exact Anc.step (h _ _ hp) ih

theorem anc_agree {par par' : Nat → Option Nat} {V : List Nat}
    (hag : ∀ y ∈ V, par' y = par y) (hcl : ∀ y p, par y = some p → y ∈ V → p ∈ V)
    {x u : Nat} (hu : u ∈ V) : Anc par' x u ↔ Anc par x u := by
  constructor
  · intro a
    induction a with
    | refl => exact Anc.refl _
    | step hp _ ih =>
      rw [hag _ hu] at hp
      exact Anc.step hp (ih (hcl _ _ hp hu))
  · intro a
    induction a with
    | refl => exact Anc.refl _
    | step hp _ ih =>
      exact Anc.step (by rw [hag _ hu]; exact hp) (ih (hcl _ _ hp hu))

theorem Anc.reach {g : Digraph} {par : Nat → Option Nat}
    (hpe : ∀ x p, par x = some p → x ∈ g.allSucs p) {v u : Nat} (a : Anc par v u) :
    Reach g.Edge v u := by
  induction a with
  | refl => exact Reach.refl _
  | step hp _ ih => exact Reach.tail ih (hpe _ _ hp)

/-! ### the invariant -/

structure Core (g : Digraph) (r : Nat) (s : St) : Prop where
  root_vis : r ∈ s.visited
  out_sub : ∀ x ∈ s.out, x ∈ s.visited
  out_nodup : s.out.Nodup
  po_eq : ∀ x, s.po x = poFrom s.out x
  cnt_eq : s.cnt = s.out.length + 1
  par_dom : ∀ x p, s.par x = some p → x ∈ s.visited ∧ p ∈ s.visited
  par_edge : ∀ x p, s.par x = some p → x ∈ g.allSucs p
  par_root : s.par r = none
  root : ∀ x ∈ s.visited, Anc s.par r x
  closed : ∀ u ∈ s.out, ∀ v ∈ g.allSucs u, v ∈ s.visited
  edge_ok : ∀ u ∈ s.out, ∀ v ∈ g.allSucs u,
    (∃ pu pv, s.po u = some pu ∧ s.po v = some pv ∧ pv < pu) ∨ Anc s.par v u

/-- the grey nodes are exactly `cur` and its DFS-tree ancestors -/
def Grey (s : St) (cur : Nat) : Prop := ∀ x, (x ∈ s.visited ∧ x ∉ s.out) ↔ Anc s.par x cur

structure Ext (s s' : St) : Prop where
  vis : ∀ x ∈ s.visited, x ∈ s'.visited
  par : ∀ x ∈ s.visited, s'.par x = s.par x

theorem Ext.rfl' (s : St) : Ext s s := ⟨fun _ h => h, fun _ _ => rfl⟩

theorem Ext.trans {a b c : St} (h1 : Ext a b) (h2 : Ext b c) : Ext a c :=
  ⟨fun x hx => h2.vis x (h1.vis x hx), fun x hx => by rw [h2.par x (h1.vis x hx), h1.par x hx]⟩

theorem Grey.cur_vis {s : St} {cur : Nat} (h : Grey s cur) : cur ∈ s.visited ∧ cur ∉ s.out :=
  (h cur).mpr (Anc.refl cur)

theorem par_mono_discover {g : Digraph} {r : Nat} {s : St} (hc : Core g r s) {cur w : Nat}
    (hw : w ∉ s.visited) : ∀ y p, s.par y = some p → (s.discover cur w).par y = some p := by
  intro y p hp
  have : y ≠ w := fun h => hw (h ▸ (hc.par_dom y p hp).1)
  simp [St.discover, this, hp]

theorem core_discover {g : Digraph} {r : Nat} {s : St} {cur w : Nat}
    (hc : Core g r s) (hg : Grey s cur) (hw : w ∉ s.visited) (he : w ∈ g.allSucs cur) :
    Core g r (s.discover cur w) := by
  have hmono := par_mono_discover hc (cur := cur) hw
  have hcur := hg.cur_vis.1
  refine ⟨?_, ?_, hc.out_nodup, hc.po_eq, hc.cnt_eq, ?_, ?_, ?_, ?_, ?_, ?_⟩
  · exact List.mem_cons_of_mem _ hc.root_vis
  · intro x hx; exact List.mem_cons_of_mem _ (hc.out_sub x hx)
  · intro x p hp
    simp only [St.discover] at hp ⊢
    split at hp
    · next hx => simp at hp; subst hp; subst hx; simp [hcur]
    · have := hc.par_dom x p hp; simp [this.1, this.2]
  · intro x p hp
    simp only [St.discover] at hp
    split at hp
    · next hx => simp at hp; subst hp; subst hx; exact he
    · exact hc.par_edge x p hp
  · have : r ≠ w := fun h => hw (h ▸ hc.root_vis)
    simp [St.discover, this, hc.par_root]
  · intro x hx
    simp only [St.discover, List.mem_cons] at hx
    rcases hx with hx | hx
    · subst hx
      exact Anc.step (p := cur) (by simp [St.discover]) ((hc.root cur hcur).mono hmono)
    · exact (hc.root x hx).mono hmono
  · intro u hu v hv
    exact List.mem_cons_of_mem _ (hc.closed u hu v hv)
  · intro u hu v hv
    rcases hc.edge_ok u hu v hv with h | h
    · exact Or.inl h
    · exact Or.inr (h.mono hmono)

theorem grey_discover {g : Digraph} {r : Nat} {s : St} {cur w : Nat}
    (hc : Core g r s) (hg : Grey s cur) (hw : w ∉ s.visited) : Grey (s.discover cur w) w := by
  have hmono := par_mono_discover hc (cur := cur) hw
  have hcur := hg.cur_vis.1
  have hwout : w ∉ s.out := fun h => hw (hc.out_sub w h)
  have hagree : ∀ y ∈ s.visited, (s.discover cur w).par y = s.par y := by
    intro y hy
    have : y ≠ w := fun h => hw (h ▸ hy)
    simp [St.discover, this]
  have hcl : ∀ y p, s.par y = some p → y ∈ s.visited → p ∈ s.visited :=
    fun y p hp _ => (hc.par_dom y p hp).2
  intro x
  constructor
  · rintro ⟨hx, hxo⟩
    simp only [St.discover, List.mem_cons] at hx hxo
    rcases hx with hx | hx
    · subst hx; exact Anc.refl _
    · have : Anc s.par x cur := (hg x).mp ⟨hx, hxo⟩
      exact Anc.step (p := cur) (by simp [St.discover]) (this.mono hmono)
  · intro a
    cases a with
    | refl => simp [St.discover, hwout]
    | step hp a' =>
      simp [St.discover] at hp
      subst hp
      have a'' : Anc s.par x cur := (anc_agree hagree hcl hcur).mp a'
      have := (hg x).mpr a''
      simp [St.discover, this.1, this.2]

theorem core_finish {g : Digraph} {r : Nat} {s : St} {w : Nat}
    (hc : Core g r s) (hg : Grey s w) (hs : ∀ v ∈ g.allSucs w, v ∈ s.visited) :
    Core g r (s.finish w) := by
  obtain ⟨hwv, hwo⟩ := hg.cur_vis
  have hpo : ∀ x, (s.finish w).po x = poFrom (w :: s.out) x := by
    intro x
    simp only [St.finish, poFrom]
    split
    · rw [hc.cnt_eq]
    · exact hc.po_eq x
  have hpo_old : ∀ x ∈ s.out, (s.finish w).po x = s.po x := by
    intro x hx
    have : x ≠ w := fun h => hwo (h ▸ hx)
    simp [St.finish, this]
  have hpo_w : (s.finish w).po w = some (s.out.length + 1) := by
    simp [St.finish, hc.cnt_eq]
  refine ⟨hc.root_vis, ?_, ?_, hpo, ?_, hc.par_dom, hc.par_edge, hc.par_root, hc.root, ?_, ?_⟩
  · intro x hx
    simp only [St.finish, List.mem_cons] at hx
    rcases hx with hx | hx
    · subst hx; exact hwv
    · exact hc.out_sub x hx
  · simp only [St.finish]; exact List.nodup_cons.mpr ⟨hwo, hc.out_nodup⟩
  · simp [St.finish, hc.cnt_eq]
  · intro u hu v hv
    simp only [St.finish, List.mem_cons] at hu
    rcases hu with hu | hu
    · subst hu; exact hs v hv
    · exact hc.closed u hu v hv
  · intro u hu v hv
    simp only [St.finish, List.mem_cons] at hu
    rcases hu with hu | hu
    · subst hu
      by_cases hvo : v ∈ s.out
      · left
        obtain ⟨pv, hpv⟩ := poFrom_mem hvo
        refine ⟨s.out.length + 1, pv, hpo_w, ?_, ?_⟩
        · rw [hpo_old v hvo, hc.po_eq v, hpv]
        · have := (poFrom_some hpv).2.2; omega
      · right
        exact (hg v).mp ⟨hs v hv, hvo⟩
    · rcases hc.edge_ok u hu v hv with ⟨pu, pv, h1, h2, h3⟩ | h
      · left
        have hvo : v ∈ s.out := by
          rw [hc.po_eq v] at h2; exact (poFrom_some h2).1
        exact ⟨pu, pv, by rw [hpo_old u hu, h1], by rw [hpo_old v hvo, h2], h3⟩
      · exact Or.inr h

theorem grey_finish {g : Digraph} {r : Nat} {s s2 : St} {cur w : Nat}
    (hc : Core g r s) (hg : Grey s cur) (hw : w ∉ s.visited)
    (hext : Ext (s.discover cur w) s2) (hg2 : Grey s2 w) : Grey (s2.finish w) cur := by
  have hcur := hg.cur_vis.1
  have hparw : s2.par w = some cur := by
    rw [hext.par w (by simp [St.discover])]; simp [St.discover]
  have hagree : ∀ y ∈ s.visited, s2.par y = s.par y := by
    intro y hy
    have : y ≠ w := fun h => hw (h ▸ hy)
    rw [hext.par y (by simp [St.discover, hy])]; simp [St.discover, this]
  have hcl : ∀ y p, s.par y = some p → y ∈ s.visited → p ∈ s.visited :=
    fun y p hp _ => (hc.par_dom y p hp).2
  intro x
  simp only [St.finish, List.mem_cons, not_or]
  constructor
  · rintro ⟨hx, hxw, hxo⟩
    have a : Anc s2.par x w := (hg2 x).mp ⟨hx, hxo⟩
    cases a with
    | refl => exact absurd rfl hxw
    | step hp a' =>
      rw [hparw] at hp; simp at hp; subst hp; exact a'
  · intro a
    have a' : Anc s.par x cur := (anc_agree hagree hcl hcur).mp a
    have hxs := (hg x).mpr a'
    have hxw : x ≠ w := fun h => hw (h ▸ hxs.1)
    have := (hg2 x).mpr (Anc.step hparw a)
    exact ⟨this.1, hxw, this.2⟩

/-- the invariant is preserved by the successor loop -/
theorem loop_inv (g : Digraph) (r : Nat) : ∀ (f cur : Nat) (ws : List Nat) (s s' : St),
    loop g f cur ws s = some s' → Core g r s → Grey s cur → (∀ w ∈ ws, w ∈ g.allSucs cur) →
    Core g r s' ∧ Grey s' cur ∧ Ext s s' ∧ (∀ w ∈ ws, w ∈ s'.visited)
  | 0, _, _, _, _, h, _, _, _ => by simp [loop] at h
  | f + 1, cur, [], s, s', h, hc, hg, _ => by
    simp [loop] at h; subst h
    exact ⟨hc, hg, Ext.rfl' s, by simp⟩
  | f + 1, cur, w :: ws, s, s', h, hc, hg, hws => by
    simp only [loop] at h
    have hws' : ∀ x ∈ ws, x ∈ g.allSucs cur := fun x hx => hws x (List.mem_cons_of_mem _ hx)
    split at h
    · next hwv =>
      obtain ⟨c', g', e', v'⟩ := loop_inv g r f cur ws s s' h hc hg hws'
      refine ⟨c', g', e', ?_⟩
      intro x hx
      rcases List.mem_cons.mp hx with hx | hx
      · subst hx; exact e'.vis _ hwv
      · exact v' x hx
    · next hwv =>
      split at h
      · simp at h
      · next s2 h1 =>
        have he : w ∈ g.allSucs cur := hws w (List.mem_cons_self ..)
        have hc1 := core_discover hc hg hwv he
        have hg1 := grey_discover hc hg hwv
        obtain ⟨hc2, hg2, hext2, hv2⟩ :=
          loop_inv g r f w (g.allSucs w) (s.discover cur w) s2 h1 hc1 hg1 (fun _ h => h)
        have hc3 := core_finish hc2 hg2 hv2
        have hg3 := grey_finish hc hg hwv hext2 hg2
        have hext3 : Ext s (s2.finish w) := by
          constructor
          · intro x hx; exact hext2.vis x (by simp [St.discover, hx])
          · intro x hx
            have : x ≠ w := fun h => hwv (h ▸ hx)
            show s2.par x = s.par x
            rw [hext2.par x (by simp [St.discover, hx])]; simp [St.discover, this]
        obtain ⟨c', g', e', v'⟩ := loop_inv g r f cur ws (s2.finish w) s' h hc3 hg3 hws'
        refine ⟨c', g', hext3.trans e', ?_⟩
        intro x hx
        rcases List.mem_cons.mp hx with hx | hx
        · subst hx
          exact e'.vis _ (hext2.vis _ (by simp [St.discover]))
        · exact v' x hx

/-! ### fuel -/

/-- potential: one unit per unvisited node among the first `k`, plus its out-degree -/
def W (g : Digraph) (V : List Nat) : Nat → Nat
  | 0 => 0
  | k + 1 => W g V k + (if k ∈ V then 0 else 1 + (g.allSucs k).length)

theorem W_mono {g : Digraph} {V V' : List Nat} (h : ∀ x ∈ V, x ∈ V') : ∀ k, W g V' k ≤ W g V k
  | 0 => by simp [W]
  | k + 1 => by
    have ih := W_mono (g := g) h k
    simp only [W]
    by_cases hk : k ∈ V
    · simp [hk, h k hk]; exact ih
    · by_cases hk' : k ∈ V' <;> simp [hk, hk'] <;> omega

theorem W_drop {g : Digraph} {V V' : List Nat} {w : Nat} (hw : w ∉ V) (h : ∀ x ∈ w :: V, x ∈ V') :
    ∀ k, w < k → W g V' k + 1 + (g.allSucs w).length ≤ W g V k
  | 0, hk => by omega
  | k + 1, hk => by
    have hV : ∀ x ∈ V, x ∈ V' := fun x hx => h x (List.mem_cons_of_mem _ hx)
    simp only [W]
    by_cases hwk : w = k
    · subst hwk
      have h1 := W_mono (g := g) hV w
      have : w ∈ V' := h w (List.mem_cons_self ..)
      simp [hw, this]; omega
    · have ih := W_drop (g := g) hw h k (by omega)
      by_cases hk1 : k ∈ V
      · simp [hk1, hV k hk1]; omega
      · by_cases hk' : k ∈ V' <;> simp [hk1, hk'] <;> omega

theorem W_nil (g : Digraph) : ∀ k, W g [] k = k + g.degSum k
  | 0 => by simp [W, Digraph.degSum]
  | k + 1 => by simp [W, Digraph.degSum, W_nil g k]; omega

theorem loop_vis_mono (g : Digraph) : ∀ (f cur : Nat) (ws : List Nat) (s s' : St),
    loop g f cur ws s = some s' → ∀ x ∈ s.visited, x ∈ s'.visited
  | 0, _, _, _, _, h => by simp [loop] at h
  | f + 1, cur, [], s, s', h => by simp [loop] at h; subst h; exact fun _ h => h
  | f + 1, cur, w :: ws, s, s', h => by
    simp only [loop] at h
    split at h
    · exact loop_vis_mono g f cur ws s s' h
    · split at h
      · simp at h
      · next s2 h1 =>
        intro x hx
        have h2 := loop_vis_mono g f w (g.allSucs w) _ s2 h1 x (by simp [St.discover, hx])
        exact loop_vis_mono g f cur ws _ s' h x (by simpa [St.finish] using h2)

theorem loop_some (g : Digraph) (hwf : ∀ u, ∀ v ∈ g.allSucs u, v < g.n) :
    ∀ (f cur : Nat) (ws : List Nat) (s : St), (∀ w ∈ ws, w < g.n) →
      W g s.visited g.n + ws.length < f → ∃ s', loop g f cur ws s = some s'
  | 0, _, _, _, _, h => by omega
  | f + 1, cur, [], s, _, _ => ⟨s, by simp [loop]⟩
  | f + 1, cur, w :: ws, s, hws, hf => by
    have hws' : ∀ x ∈ ws, x < g.n := fun x hx => hws x (List.mem_cons_of_mem _ hx)
    simp only [List.length_cons] at hf
    simp only [loop]
    split
    · exact loop_some g hwf f cur ws s hws' (by omega)
    · next hwv =>
      have hwn : w < g.n := hws w (List.mem_cons_self ..)
      have hd1 := W_drop (g := g) (V' := w :: s.visited) hwv (fun _ h => h) g.n hwn
      obtain ⟨s2, h2⟩ := loop_some g hwf f w (g.allSucs w) (s.discover cur w) (hwf w)
        (by simp only [St.discover]; omega)
      rw [h2]
      have hmono := loop_vis_mono g f w (g.allSucs w) _ s2 h2
      have hd2 := W_drop (g := g) (V' := (s2.finish w).visited) hwv
        (fun x hx => by simpa [St.finish] using hmono x (by simpa [St.discover] using hx)) g.n hwn
      exact loop_some g hwf f cur ws (s2.finish w) hws' (by omega)

theorem postOrder_some (g : Digraph) (hwf : g.WF) : ∃ s, postOrder g (fuel g) = some s := by
  have hd := W_drop (g := g) (V := []) (V' := [g.entry]) (w := g.entry) (by simp) (fun _ h => h)
    g.n hwf.1
  rw [W_nil] at hd
  obtain ⟨s, hs⟩ := loop_some g hwf.2 (fuel g) g.entry (g.allSucs g.entry) (init g.entry)
    (hwf.2 g.entry) (by simp only [init, fuel]; omega)
  exact ⟨s.finish g.entry, by simp [postOrder, hs]⟩

/-! ### the final state -/

theorem core_init (g : Digraph) (r : Nat) : Core g r (init r) ∧ Grey (init r) r := by
  refine ⟨⟨by simp [init], by simp [init], by simp [init], by simp [init, poFrom], by simp [init],
    by simp [init], by simp [init], by simp [init], ?_, by simp [init], by simp [init]⟩, ?_⟩
  · intro x hx; simp [init] at hx; subst hx; exact Anc.refl _
  · intro x
    constructor
    · rintro ⟨hx, _⟩; simp [init] at hx; subst hx; exact Anc.refl _
    · intro a
      cases a with
      | refl => simp [init]
      | step hp _ => simp [init] at hp

structure Final (g : Digraph) (s : St) : Prop where
  core : Core g g.entry s
  vis_out : ∀ x, x ∈ s.visited → x ∈ s.out
  entry_last : ∃ rest, s.out = g.entry :: rest

theorem postOrder_final (g : Digraph) (f : Nat) (s : St) (h : postOrder g f = some s) :
    Final g s := by
  simp only [postOrder] at h
  split at h
  · simp at h
  · next s1 h1 =>
    simp at h; subst h
    obtain ⟨hc0, hg0⟩ := core_init g g.entry
    obtain ⟨hc1, hg1, _, hv1⟩ :=
      loop_inv g g.entry f g.entry (g.allSucs g.entry) (init g.entry) s1 h1 hc0 hg0 (fun _ h => h)
    refine ⟨core_finish hc1 hg1 hv1, ?_, ⟨s1.out, by simp [St.finish]⟩⟩
    intro x hx
    simp only [St.finish] at hx ⊢
    by_cases hxo : x ∈ s1.out
    · exact List.mem_cons_of_mem _ hxo
    · have a := (hg1 x).mp ⟨hx, hxo⟩
      cases a with
      | refl => exact List.mem_cons_self ..
      | step hp _ => rw [hc1.par_root] at hp; simp at hp

theorem Final.out_iff_reach {g : Digraph} {s : St} (h : Final g s) (x : Nat) :
    x ∈ s.out ↔ Reach g.Edge g.entry x := by
  constructor
  · intro hx
    exact (h.core.root x (h.core.out_sub x hx)).reach h.core.par_edge
  · intro hr
    induction hr with
    | refl => obtain ⟨rest, hr⟩ := h.entry_last; rw [hr]; exact List.mem_cons_self ..
    | tail _ e ih => exact h.vis_out _ (h.core.closed _ ih _ e)

theorem reach_lt {g : Digraph} (hwf : g.WF) {x : Nat} (hr : Reach g.Edge g.entry x) : x < g.n := by
  cases hr with
  | refl => exact hwf.1
  | tail _ e => exact hwf.2 _ _ e

/-- on a rooted graph the yield list is a permutation of the nodes -/
theorem Final.out_perm {g : Digraph} {s : St} (h : Final g s) (hwf : g.WF) (hr : g.Rooted) :
    s.out.Perm (List.range g.n) := by
  rw [List.perm_ext_iff_of_nodup h.core.out_nodup List.nodup_range]
  intro x
  rw [h.out_iff_reach, List.mem_range]
  exact ⟨reach_lt hwf, hr x⟩

theorem Final.out_length_le {g : Digraph} {s : St} (h : Final g s) (hwf : g.WF) :
    s.out.length ≤ g.n := by
  have := List.Nodup.length_le_of_subset h.core.out_nodup (l₂ := List.range g.n)
    (fun x hx => List.mem_range.mpr (reach_lt hwf ((h.out_iff_reach x).mp hx)))
  simpa using this

/-- an executable criterion for `Rooted`: the yield order of the model's own run lists every node
    (the yield list is exactly the reachable set, `Final.out_iff_reach`) -/
theorem rooted_of_order {g : Digraph} {l : List Nat}
    (h : (computeRpo g).map (·.order) = some l) (hall : ∀ v, v < g.n → v ∈ l) : g.Rooted := by
  simp only [computeRpo] at h
  split at h
  · simp at h
  · next s hs =>
    simp at h; subst h
    intro v hv
    have hf := postOrder_final g _ s hs
    exact (hf.out_iff_reach v).mp (by simpa using hall v hv)

end AgVerif.Rpo
