/- C26, file level: the printer on a whole encoded document. -/
import AgVerif.Proof.AxmlChunks
namespace AgVerif.Proof.Axml
open AgVerif.Axml AgVerif.Spec.Axml AgVerif.Gen.AxmlConsts

/-! ### a document as a flat list of chunks -/

inductive Chunk where
  | startNs (line : Nat) (d : Str × Str)
  | endNs (line : Nat) (d : Str × Str)
  | start (line : Nat) (tag : Str) (ns : Option Str) (attrs : List SAttr)
  | end_ (line : Nat) (tag : Str) (ns : Option Str)
  | text (line : Nat) (s : Str)

def encChunk (E : Enc) : Chunk → Bytes
  | .startNs line d => encStartNs E line d
  | .endNs line d => encEndNs E line d
  | .start line tag ns attrs => encStart E line tag ns attrs
  | .end_ line tag ns => encEnd E line tag ns
  | .text line s => encText E line s

def encChunks (E : Enc) : List Chunk → Bytes
  | [] => []
  | c :: r => encChunk E c ++ encChunks E r

theorem encChunks_append (E : Enc) (a b : List Chunk) : encChunks E (a ++ b) = encChunks E a ++ encChunks E b := by
  induction a with
  | nil => rfl
  | cons c r ih => simp [encChunks, ih]

theorem encChunks_startNs (E : Enc) (line : Nat) (decls : List (Str × Str)) :
    encChunks E (decls.map (.startNs line)) = decls.flatMap (encStartNs E line) := by
  induction decls with
  | nil => rfl
  | cons c r ih => simp [encChunks, encChunk, ih]

theorem encChunks_endNs (E : Enc) (line : Nat) (decls : List (Str × Str)) :
    encChunks E (decls.map (.endNs line)) = decls.flatMap (encEndNs E line) := by
  induction decls with
  | nil => rfl
  | cons c r ih => simp [encChunks, encChunk, ih]

mutual
def chunksOf : SNode → List Chunk
  | .elem line tag ns decls attrs kids =>
    decls.map (.startNs line) ++ (.start line tag ns attrs :: (chunksOfL kids
      ++ (.end_ line tag ns :: decls.reverse.map (.endNs line))))
  | .text line s => [.text line s]
def chunksOfL : List SNode → List Chunk
  | [] => []
  | n :: r => chunksOf n ++ chunksOfL r
end

mutual
theorem encNode_chunks (E : Enc) : (d : SNode) → encNode E d = encChunks E (chunksOf d)
  | .elem line tag ns decls attrs kids => by
    simp only [encNode, chunksOf, encChunks_append, encChunks, encChunk, encChunks_startNs, encChunks_endNs,
      encNodes_chunks E kids]
  | .text line s => by simp [encNode, chunksOf, encChunks, encChunk]
theorem encNodes_chunks (E : Enc) : (l : List SNode) → encNodes E l = encChunks E (chunksOfL l)
  | [] => rfl
  | n :: r => by simp only [encNodes, chunksOfL, encChunks_append, encNode_chunks E n, encNodes_chunks E r]
end

/-- the events a chunk list stands for -/
def evOf (opq : Nat → Nat → Str) : Chunk → List REvent
  | .start _ tag ns attrs => [.start false true (.ok (tag, ns.getD [], attrsOf opq attrs))]
  | .end_ _ _ _ => [.end_ false (.ok ())]
  | .text _ s => [.text (.ok s)]
  | _ => []

def evsOf (opq : Nat → Nat → Str) : List Chunk → List REvent
  | [] => []
  | c :: r => evOf opq c ++ evsOf opq r

theorem evsOf_append (opq : Nat → Nat → Str) (a b : List Chunk) : evsOf opq (a ++ b) = evsOf opq a ++ evsOf opq b := by
  induction a with
  | nil => rfl
  | cons c r ih => simp [evsOf, ih]

theorem evsOf_startNs (opq : Nat → Nat → Str) (line : Nat) (decls : List (Str × Str)) :
    evsOf opq (decls.map (.startNs line)) = [] := by
  induction decls with
  | nil => rfl
  | cons c r ih => simp [evsOf, evOf, ih]

theorem evsOf_endNs (opq : Nat → Nat → Str) (line : Nat) (decls : List (Str × Str)) :
    evsOf opq (decls.map (.endNs line)) = [] := by
  induction decls with
  | nil => rfl
  | cons c r ih => simp [evsOf, evOf, ih]

mutual
theorem evs_chunks (opq : Nat → Nat → Str) : (d : SNode) → evsOf opq (chunksOf d) = events (treeOf opq d)
  | .elem line tag ns decls attrs kids => by
    simp only [chunksOf, evsOf_append, evsOf, evOf, evsOf_startNs, evsOf_endNs, evs_chunksL opq kids, treeOf, events,
      List.nil_append, List.append_nil, List.cons_append]
  | .text line s => by simp [chunksOf, evsOf, evOf, treeOf, events]
theorem evs_chunksL (opq : Nat → Nat → Str) : (l : List SNode) → evsOf opq (chunksOfL l) = eventsL (treeOfL opq l)
  | [] => rfl
  | n :: r => by simp only [chunksOfL, evsOf_append, evs_chunks opq n, evs_chunksL opq r, treeOfL, eventsL]
end

/-! ### well-formed chunks -/

def wfChunk (opq : Nat → Nat → Str) (E : Enc) (D : List (Str × Str)) : Chunk → Prop
  | .startNs line d => line < 2 ^ 32 ∧ d ∈ D
  | .endNs line d => line < 2 ^ 32 ∧ d ∈ D
  | .start line tag ns attrs => line < 2 ^ 32 ∧ tag ∈ E.strings ∧ LegalName tag ∧ wfNs E ns = true ∧
      attrs.length < 2 ^ 16 ∧ ∀ a ∈ attrs, wfAttr opq E a = true
  | .end_ line tag ns => line < 2 ^ 32 ∧ tag ∈ E.strings ∧ LegalName tag ∧ wfNs E ns = true
  | .text line s => line < 2 ^ 32 ∧ s ∈ E.strings

mutual
theorem wf_chunks (opq : Nat → Nat → Str) (E : Enc) (D : List (Str × Str)) :
    (d : SNode) → wfNode opq E d = true → (∀ x ∈ allDecls d, x ∈ D) → ∀ c ∈ chunksOf d, wfChunk opq E D c
  | .elem line tag ns decls attrs kids => by
    intro h hD c hc
    simp only [wfNode, Bool.and_eq_true, decide_eq_true_eq, List.all_eq_true] at h
    obtain ⟨⟨⟨⟨⟨⟨⟨hl, ht⟩, hlg⟩, hns⟩, _⟩, hn⟩, ha⟩, hk⟩ := h
    simp only [allDecls, List.mem_append] at hD
    simp only [chunksOf, List.mem_append, List.mem_cons, List.mem_map, List.mem_reverse] at hc
    rcases hc with ⟨x, hx, rfl⟩ | rfl | hc | rfl | ⟨x, hx, rfl⟩
    · exact ⟨hl, hD x (Or.inl hx)⟩
    · exact ⟨hl, ht, hlg, hns, hn, ha⟩
    · exact wf_chunksL opq E D kids hk (fun x hx => hD x (Or.inr hx)) c hc
    · exact ⟨hl, ht, hlg, hns⟩
    · exact ⟨hl, hD x (Or.inl hx)⟩
  | .text line s => by
    intro h _ c hc
    simp only [wfNode, Bool.and_eq_true, decide_eq_true_eq] at h
    simp only [chunksOf, List.mem_singleton] at hc
    subst hc
    exact ⟨h.1.1, h.1.2⟩
theorem wf_chunksL (opq : Nat → Nat → Str) (E : Enc) (D : List (Str × Str)) :
    (l : List SNode) → wfNodes opq E l = true → (∀ x ∈ allDeclsL l, x ∈ D) → ∀ c ∈ chunksOfL l, wfChunk opq E D c
  | [] => by intro _ _ c hc; simp [chunksOfL] at hc
  | n :: r => by
    intro h hD c hc
    simp only [wfNodes, Bool.and_eq_true] at h
    simp only [allDeclsL, List.mem_append] at hD
    simp only [chunksOfL, List.mem_append] at hc
    rcases hc with hc | hc
    · exact wf_chunks opq E D n h.1 (fun x hx => hD x (Or.inl hx)) c hc
    · exact wf_chunksL opq E D r h.2 (fun x hx => hD x (Or.inr hx)) c hc
end

mutual
theorem texts_ok (opq : Nat → Nat → Str) (E : Enc) : (d : SNode) → wfNode opq E d = true → TextsOk (treeOf opq d)
  | .elem line tag ns decls attrs kids => by
    intro h
    simp only [wfNode, Bool.and_eq_true] at h
    simp only [treeOf, TextsOk]
    exact texts_okL opq E kids h.2
  | .text line s => by
    intro h
    simp only [wfNode, Bool.and_eq_true] at h
    simp only [treeOf, TextsOk]
    exact h.2
theorem texts_okL (opq : Nat → Nat → Str) (E : Enc) : (l : List SNode) → wfNodes opq E l = true → TextsOkL (treeOfL opq l)
  | [] => by intro _; simp [treeOfL, TextsOkL]
  | n :: r => by
    intro h
    simp only [wfNodes, Bool.and_eq_true] at h
    simp only [treeOfL, TextsOkL]
    exact ⟨texts_ok opq E n h.1, texts_okL opq E r h.2⟩
end

theorem encChunk_length (E : Enc) (c : Chunk) : 1 ≤ (encChunk E c).length := by
  cases c <;> simp [encChunk, encStartNs, encEndNs, encStart, encEnd, encText, node] <;> omega

theorem encChunks_length (E : Enc) (cs : List Chunk) : cs.length ≤ (encChunks E cs).length := by
  induction cs with
  | nil => simp
  | cons c r ih => have := encChunk_length E c; simp only [encChunks, List.length_append, List.length_cons]; omega

theorem evsOf_length (opq : Nat → Nat → Str) (cs : List Chunk) : (evsOf opq cs).length ≤ cs.length := by
  induction cs with
  | nil => simp [evsOf]
  | cons c r ih =>
    have : (evOf opq c).length ≤ 1 := by cases c <;> simp [evOf]
    simp only [evsOf, List.length_append, List.length_cons]; omega

/-! ### the printer loop along the chunks -/

/-- what the proofs know about the parser between two chunks: it sits at offset `p` of the file `B`, `rest` is what follows -/
structure Inv (E : Enc) (D : List (Str × Str)) (B : Bytes) (s : PState) (p : Nat) (rest : Bytes) : Prop where
  cur : s.cur = ⟨B, rest, p⟩
  drop : B.drop p = rest
  le : p ≤ B.length
  fs : s.filesize = B.length
  pool : PoolOk E s
  ns : NsOk E D s
  valid : s.valid = true

/-- the rest of one iteration of the printer's loop once `next(self.axml)` has returned -/
def afterNext (opq : Nat → Nat → Str) (fuel : Nat) (r : Except String PState) (pr : Printer) :
    Except String (PState × Printer) :=
  match r with
  | .error e => .error e
  | .ok s' =>
    match step opq s' pr with
    | .error e => .error e
    | .ok p' => if p'.stop then .ok (s', p') else printLoop opq fuel s' p'

theorem printLoop_succ (opq : Nat → Nat → Str) (fuel : Nat) (s : PState) (pr : Printer) (hv : s.valid = true) :
    printLoop opq (fuel + 1) s pr = afterNext opq fuel (nextEvent s) pr := by
  rw [printLoop]; simp only [hv, Bool.not_true, Bool.false_eq_true, if_false, afterNext]
  cases nextEvent s <;> rfl

theorem le_of_drop_eq {l x y : Bytes} {p : Nat} (h : l.drop p = x ++ y) (hp : p ≤ l.length) : p + x.length ≤ l.length := by
  have := congrArg List.length h
  simp at this; omega

theorem mem_removeFirst (a : Nat × Nat) (l : List (Nat × Nat)) : ∀ x ∈ removeFirst a l, x ∈ l := by
  induction l with
  | nil => simp [removeFirst]
  | cons y r ih =>
    intro x hx
    simp only [removeFirst] at hx
    split at hx
    · exact List.mem_cons_of_mem _ hx
    · simp only [List.mem_cons] at hx ⊢
      rcases hx with h | h
      · exact Or.inl h
      · exact Or.inr (ih x h)

theorem encStartNs_length (E : Enc) (line : Nat) (d : Str × Str) : (encStartNs E line d).length = 24 := by
  simp [encStartNs, node]
theorem encEndNs_length (E : Enc) (line : Nat) (d : Str × Str) : (encEndNs E line d).length = 24 := by
  simp [encEndNs, node]
theorem encEnd_length (E : Enc) (line : Nat) (tag : Str) (ns : Option Str) : (encEnd E line tag ns).length = 24 := by
  simp [encEnd, node]
theorem encText_length (E : Enc) (line : Nat) (t : Str) : (encText E line t).length = 28 := by
  simp [encText, node]
theorem encStart_length (E : Enc) (line : Nat) (tag : Str) (ns : Option Str) (attrs : List SAttr) :
    (encStart E line tag ns attrs).length = 36 + 20 * attrs.length := by
  simp only [encStart, node, List.length_append, w16_length, w32_length, flatMap_encAttr_length]; omega

/-- the state after a chunk: only the cursor, the comment, the event fields (and possibly the namespaces) moved -/
theorem Inv.next {E : Enc} {D : List (Str × Str)} {B : Bytes} {s : PState} {p : Nat} {ch tail : Bytes}
    (hI : Inv E D B s p (ch ++ tail)) (s1 : PState) (k : Nat) (hk : ch.length = k)
    (hcur : s1.cur = ⟨B, tail, p + k⟩) (hfs : s1.filesize = s.filesize) (hpool : s1.pool = s.pool)
    (hres : s1.resIds = s.resIds) (hns : NsOk E D s1) (hv : s1.valid = s.valid) : Inv E D B s1 (p + k) tail :=
  ⟨hcur, by rw [← hk]; exact drop_add_of_drop_eq hI.drop, by rw [← hk]; exact le_of_drop_eq hI.drop hI.le,
   by rw [hfs]; exact hI.fs, ⟨by rw [hpool]; exact hI.pool.get, by rw [hres]; exact hI.pool.res, hI.pool.small⟩, hns,
   by rw [hv]; exact hI.valid⟩

/-- the state `_do_next` starts from: event fields reset -/
def resetEv (s : PState) : PState := { s with event := .none, name := noEntry, nsUri := noEntry, attrs := [] }

theorem Inv.reset {E : Enc} {D : List (Str × Str)} {B : Bytes} {s : PState} {p : Nat} {rest : Bytes}
    (hI : Inv E D B s p rest) : Inv E D B (resetEv s) p rest :=
  ⟨hI.cur, hI.drop, hI.le, hI.fs, ⟨hI.pool.get, hI.pool.res, hI.pool.small⟩, hI.ns, hI.valid⟩

theorem nextEvent_eq (s : PState) (h : s.event ≠ .endDoc) : nextEvent s = nextLoop (s.cur.rest.length + 1) (resetEv s) := by
  simp [nextEvent, h, resetEv]

theorem sim_event_step (opq : Nat → Nat → Str) (s1 : PState) (ev : REvent) (evs : List REvent) (fuel : Nat)
    (pr pr' : Printer) (hres : resolve opq s1 = .ok ev) (hv : s1.valid = true) (hfuel : evs.length + 1 ≤ fuel)
    (hrun : runEvents (ev :: (evs ++ [.endDoc])) pr = .ok pr')
    (hcont : ∀ g pr1, evs.length ≤ g → runEvents (evs ++ [.endDoc]) pr1 = .ok pr' →
        ∃ s', afterNext opq g (nextEvent s1) pr1 = .ok (s', pr') ∧ s'.valid = true) :
    ∃ s', afterNext opq fuel (.ok s1) pr = .ok (s', pr') ∧ s'.valid = true := by
  simp only [afterNext, step, hres]
  simp only [runEvents] at hrun
  cases ha : applyEv ev pr with
  | error e => rw [ha] at hrun; cases hrun
  | ok p1 =>
    rw [ha] at hrun
    simp only at hrun ⊢
    by_cases hst : p1.stop = true
    · simp only [hst, if_true] at hrun ⊢
      cases hrun
      exact ⟨s1, rfl, hv⟩
    · simp only [hst] at hrun ⊢
      obtain ⟨g, rfl⟩ : ∃ g, fuel = g + 1 := ⟨fuel - 1, by omega⟩
      rw [printLoop_succ opq g s1 p1 hv]
      exact hcont g p1 (by omega) hrun

theorem sim (opq : Nat → Nat → Str) (E : Enc) (D : List (Str × Str)) (B : Bytes) (hD : DeclsOk E D) (pr' : Printer) :
    ∀ (cs : List Chunk) (s : PState) (p nf fuel : Nat) (pr : Printer),
      Inv E D B s p (encChunks E cs) → (∀ c ∈ cs, wfChunk opq E D c) → cs.length < nf → (evsOf opq cs).length ≤ fuel →
      runEvents (evsOf opq cs ++ [.endDoc]) pr = .ok pr' →
      ∃ s', afterNext opq fuel (nextLoop nf s) pr = .ok (s', pr') ∧ s'.valid = true := by
  intro cs
  induction cs with
  | nil =>
    intro s p nf fuel pr hI _ hnf _ hrun
    obtain ⟨n, rfl⟩ : ∃ n, nf = n + 1 := ⟨nf - 1, by omega⟩
    have hpos : s.cur.pos = s.filesize := by
      have h1 := hI.drop
      simp only [encChunks, List.drop_eq_nil_iff] at h1
      have h2 := hI.le
      rw [hI.cur, hI.fs]; simp only; omega
    rw [nextLoop_endDoc n s hpos]
    simp only [evsOf, List.nil_append, runEvents, applyEv] at hrun
    cases hrun
    exact ⟨{ s with event := .endDoc }, by simp [afterNext, step, resolve, applyEv], hI.valid⟩
  | cons c cs ih =>
    intro s p nf fuel pr hI hwf hnf hfuel hrun
    obtain ⟨n, rfl⟩ : ∃ n, nf = n + 1 := ⟨nf - 1, by omega⟩
    have hwf' : ∀ c ∈ cs, wfChunk opq E D c := fun x hx => hwf x (List.mem_cons_of_mem _ hx)
    have hw := hwf c (by simp)
    have hnf' : cs.length < n := by simp only [List.length_cons] at hnf; omega
    have hgen : ∀ (s1 : PState) (p1 : Nat), Inv E D B s1 p1 (encChunks E cs) → s1.event ≠ .endDoc →
        ∀ g pr1, (evsOf opq cs).length ≤ g → runEvents (evsOf opq cs ++ [.endDoc]) pr1 = .ok pr' →
        ∃ s', afterNext opq g (nextEvent s1) pr1 = .ok (s', pr') ∧ s'.valid = true := by
      intro s1 p1 hI1 hev g pr1 hg hr
      rw [nextEvent_eq s1 hev]
      refine ih (resetEv s1) p1 _ g pr1 hI1.reset hwf' ?_ hg hr
      have := encChunks_length E cs
      rw [hI1.cur]; simp only; omega
    cases c with
    | startNs line d =>
      obtain ⟨hline, hd⟩ := hw
      have hdw := hD.1 d hd
      simp only [wfDecl, Bool.and_eq_true, decide_eq_true_eq] at hdw
      have hI0 : Inv E D B s p (encStartNs E line d ++ encChunks E cs) := hI
      rw [nextLoop_startNs n s B p _ E line d hI0.cur hI0.drop hI0.fs hI0.pool hdw.1.1.1 hdw.1.1.2 hline]
      refine ih _ (p + 24) n fuel pr (hI0.next _ 24 (encStartNs_length E line d) rfl rfl rfl rfl ?_ rfl) hwf' hnf' hfuel hrun
      intro kv hkv
      simp only [List.mem_append, List.mem_singleton] at hkv
      rcases hkv with h | h
      · exact hI.ns kv h
      · exact ⟨d, hd, h⟩
    | endNs line d =>
      obtain ⟨hline, hd⟩ := hw
      have hdw := hD.1 d hd
      simp only [wfDecl, Bool.and_eq_true, decide_eq_true_eq] at hdw
      have hI0 : Inv E D B s p (encEndNs E line d ++ encChunks E cs) := hI
      rw [nextLoop_endNs n s B p _ E line d hI0.cur hI0.drop hI0.fs hI0.pool hdw.1.1.1 hdw.1.1.2 hline]
      refine ih _ (p + 24) n fuel pr (hI0.next _ 24 (encEndNs_length E line d) rfl rfl rfl rfl ?_ rfl) hwf' hnf' hfuel hrun
      intro kv hkv
      exact hI.ns kv (mem_removeFirst _ _ kv hkv)
    | start line tag ns attrs =>
      obtain ⟨hline, htag, hlegal, hns, hn, hwa⟩ := hw
      have hI0 : Inv E D B s p (encStart E line tag ns attrs ++ encChunks E cs) := hI
      rw [nextLoop_start opq n s B p _ E line tag ns attrs hI0.cur hI0.drop hI0.fs hI0.pool htag hns hline hn hwa]
      simp only [evsOf, evOf, List.cons_append, List.nil_append, List.length_cons] at hrun hfuel
      refine sim_event_step opq _ _ (evsOf opq cs) fuel pr pr' ?_ hI.valid (by omega) hrun ?_
      · exact resolve_start opq E D _ tag ns attrs ⟨hI.pool.get, hI.pool.res, hI.pool.small⟩ hD hI.ns rfl rfl rfl rfl rfl
          htag hlegal hns hwa
      · exact hgen _ _ (hI0.next _ _ (encStart_length E line tag ns attrs) rfl rfl rfl rfl hI.ns rfl) (by simp)
    | end_ line tag ns =>
      obtain ⟨hline, htag, hlegal, hns⟩ := hw
      have hI0 : Inv E D B s p (encEnd E line tag ns ++ encChunks E cs) := hI
      rw [nextLoop_end n s B p _ E line tag ns hI0.cur hI0.drop hI0.fs hI0.pool htag hns hline]
      simp only [evsOf, evOf, List.cons_append, List.nil_append, List.length_cons] at hrun hfuel
      refine sim_event_step opq _ _ (evsOf opq cs) fuel pr pr' ?_ hI.valid (by omega) hrun ?_
      · exact resolve_end opq E _ tag ns ⟨hI.pool.get, hI.pool.res, hI.pool.small⟩ rfl rfl rfl htag hlegal hns
      · exact hgen _ _ (hI0.next _ _ (encEnd_length E line tag ns) rfl rfl rfl rfl hI.ns rfl) (by simp)
    | text line t =>
      obtain ⟨hline, ht⟩ := hw
      have hI0 : Inv E D B s p (encText E line t ++ encChunks E cs) := hI
      rw [nextLoop_text n s B p _ E line t hI0.cur hI0.drop hI0.fs hI0.pool ht hline]
      simp only [evsOf, evOf, List.cons_append, List.nil_append, List.length_cons] at hrun hfuel
      refine sim_event_step opq _ _ (evsOf opq cs) fuel pr pr' ?_ hI.valid (by omega) hrun ?_
      · exact resolve_text opq E _ t ⟨hI.pool.get, hI.pool.res, hI.pool.small⟩ rfl rfl ht
      · exact hgen _ _ (hI0.next _ _ (encText_length E line t) rfl rfl rfl rfl hI.ns rfl) (by simp)

/-! ### the whole file -/

theorem run_tree (tag ns : Str) (attrs : List Attr) (kids : List Node) (h : TextsOkL kids) :
    runEvents (events (.elem tag ns attrs kids) ++ [.endDoc]) Printer.init
      = .ok ⟨some (norm (.elem tag ns attrs kids)), true, [], true⟩ := by
  simp only [events, List.cons_append, List.append_assoc]
  rw [runEvents_cons _ _ Printer.init (inside none ⟨tag, ns, attrs, []⟩ [])]
  · rw [run_list kids _ none ⟨tag, ns, attrs, []⟩ [] h]
    simp [runEvents, applyEv, inside, norm, Open.close]
  · simp [applyEv, Printer.init, inside]
  · rfl

theorem idxOf_get (l : List Str) (x : Str) (h : x ∈ l) : l[l.idxOf x]? = some x := by
  have hlt := List.idxOf_lt_length_of_mem h
  rw [List.getElem?_eq_getElem hlt, List.getElem_idxOf hlt]

mutual
theorem decls_wf (opq : Nat → Nat → Str) (E : Enc) :
    (d : SNode) → wfNode opq E d = true → ∀ x ∈ allDecls d, wfDecl E x = true
  | .elem line tag ns decls attrs kids => by
    intro h x hx
    simp only [wfNode, Bool.and_eq_true, List.all_eq_true] at h
    simp only [allDecls, List.mem_append] at hx
    rcases hx with hx | hx
    · exact h.1.1.1.2 x hx
    · exact decls_wfL opq E kids h.2 x hx
  | .text line s => by intro _ x hx; simp [allDecls] at hx
theorem decls_wfL (opq : Nat → Nat → Str) (E : Enc) :
    (l : List SNode) → wfNodes opq E l = true → ∀ x ∈ allDeclsL l, wfDecl E x = true
  | [] => by intro _ x hx; simp [allDeclsL] at hx
  | n :: r => by
    intro h x hx
    simp only [wfNodes, Bool.and_eq_true] at h
    simp only [allDeclsL, List.mem_append] at hx
    rcases hx with hx | hx
    · exact decls_wf opq E n h.1 x hx
    · exact decls_wfL opq E r h.2 x hx
end

theorem encodeAxml_length (E : Enc) (d : SNode) : (encodeAxml E d).length = 8 + (encodeBody E d).length := by
  simp only [encodeAxml, List.length_append, w16_length, w32_length]; omega

theorem encodeAxml_drop (E : Enc) (d : SNode) :
    (encodeAxml E d).drop (8 + (encodePool E.utf8 E.wide E.strings).length) = encResMapOpt E.resIds ++ encNode E d := by
  have h : encodeAxml E d = (w16 0x0003 ++ (w16 8 ++ w32 (8 + (encodeBody E d).length)))
      ++ (encodePool E.utf8 E.wide E.strings ++ (encResMapOpt E.resIds ++ encNode E d)) := by
    simp [encodeAxml, encodeBody]
  have h8 : (w16 0x0003 ++ (w16 8 ++ w32 (8 + (encodeBody E d).length))).length = 8 := by simp
  have e1 : ∀ X : Bytes, List.drop 8 ((w16 0x0003 ++ (w16 8 ++ w32 (8 + (encodeBody E d).length))) ++ X) = X := by
    intro X
    have := List.drop_left (l₁ := w16 0x0003 ++ (w16 8 ++ w32 (8 + (encodeBody E d).length))) (l₂ := X)
    rwa [h8] at this
  rw [h, ← List.drop_drop, e1, List.drop_left]

/-- the parser after `AXMLParser.__init__` on an encoded document: behind the string pool -/
def initState (E : Enc) (d : SNode) : PState :=
  ⟨⟨encodeAxml E d, encResMapOpt E.resIds ++ encNode E d, 8 + (encodePool E.utf8 E.wide E.strings).length⟩, true,
    (encodeAxml E d).length, poolOf E.utf8 E.wide E.strings, [], [], .none, noEntry, noEntry, noEntry, []⟩

theorem parserInit_enc (E : Enc) (d : SNode) (hlen : (encodeAxml E d).length < 2 ^ 32) :
    parserInit (encodeAxml E d) = .ok (initState E d) := by
  have hL := encodeAxml_length E d
  have hPL := encodePool_length E.utf8 E.wide E.strings
  have hbody : (encodeBody E d).length
      = (encodePool E.utf8 E.wide E.strings).length + (encResMapOpt E.resIds ++ encNode E d).length := by
    simp only [encodeBody, List.length_append]
  have h1 : readHdr (Cur.ofBytes (encodeAxml E d)) none
      = .ok (⟨0, 3, 8, 8 + (encodeBody E d).length⟩, ⟨encodeAxml E d, encodeBody E d, 0 + 8⟩) :=
    readHdr_mk (encodeAxml E d) 0 3 8 _ (encodeBody E d) none (by omega) (by omega) (by omega) (by omega) (by omega)
      (by omega) (by simp)
  obtain ⟨h, c0, h2, h3, h4, h5⟩ := parse_pool (encodeAxml E d) (0 + 8) E.utf8 E.wide E.strings
    (encResMapOpt E.resIds ++ encNode E d) (by omega) (by omega)
  have h2' : readHdr ⟨encodeAxml E d, encodeBody E d, 0 + 8⟩ (some RES_STRING_POOL_TYPE) = .ok (h, c0) := h2
  have hlt : ¬ (encodeAxml E d).length < 8 := by omega
  have hgt : ¬ 8 + (encodeBody E d).length > (encodeAxml E d).length := by omega
  unfold parserInit
  simp only [hlt, if_false, h1, AXML_HEADER_SIZE, ne_eq, not_true_eq_false, hgt, h2', h3, h5, Cur.seek, h4,
    encodeAxml_drop, initState]
  rw [← hL]

theorem printAxml_of (opq : Nat → Nat → Str) (b : Bytes) (s0 : PState) (pfin : Printer) (hs0 : parserInit b = .ok s0)
    (hv : s0.valid = true) (hev : s0.event ≠ .endDoc)
    (h : ∃ s', afterNext opq (b.length + 1) (nextLoop (s0.cur.rest.length + 1) (resetEv s0)) Printer.init = .ok (s', pfin)
      ∧ s'.valid = true) :
    printAxml opq b = .ok (true, pfin.result) := by
  obtain ⟨s', h1, h2⟩ := h
  unfold printAxml
  rw [hs0]; simp only
  rw [printLoop_succ _ _ _ _ hv, nextEvent_eq _ hev, h1]
  simp [h2]

theorem print_encoded (opq : Nat → Nat → Str) (E : Enc) (d : SNode) (hwf : wfDoc opq E d = true) :
    printAxml opq (encodeAxml E d) = .ok (true, some (norm (treeOf opq d))) := by
  simp only [wfDoc, Bool.and_eq_true, decide_eq_true_eq, List.all_eq_true] at hwf
  obtain ⟨⟨⟨⟨⟨hel, hnode⟩, hfun⟩, hstr⟩, hids⟩, hlen⟩ := hwf
  have hD : DeclsOk E (allDecls d) := ⟨decls_wf opq E d hnode, fun a ha b hb => hfun a ha b hb⟩
  have hL := encodeAxml_length E d
  have hPL := encodePool_length E.utf8 E.wide E.strings
  have hbody : (encodeBody E d).length
      = (encodePool E.utf8 E.wide E.strings).length + (encResMapOpt E.resIds ++ encNode E d).length := by
    simp only [encodeBody, List.length_append]
  have hsmall : E.strings.length < 0xFFFFFFFF := by omega
  have hget : ∀ x ∈ E.strings, (poolOf E.utf8 E.wide E.strings).get (sidx E x) = .ok x := fun x hx =>
    poolOf_get E.utf8 E.wide E.strings hstr _ x (idxOf_get _ x hx)
  have hwc := wf_chunks opq E (allDecls d) d hnode (fun x hx => hx)
  have hcl := encChunks_length E (chunksOf d)
  have hel' := evsOf_length opq (chunksOf d)
  have hdrop := encodeAxml_drop E d
  have hnc := encNode_chunks E d
  -- the events of the tree, run by the printer
  obtain ⟨line, tag, ns, decls, attrs, kids, rfl⟩ : ∃ line tag ns decls attrs kids, d = .elem line tag ns decls attrs kids := by
    cases d with
    | elem line tag ns decls attrs kids => exact ⟨line, tag, ns, decls, attrs, kids, rfl⟩
    | text => simp [isElem] at hel
  have htx : TextsOkL (treeOfL opq kids) := by
    have := texts_ok opq E _ hnode
    simpa only [treeOf, TextsOk] using this
  have hrun := run_tree tag (ns.getD []) (attrsOf opq attrs) (treeOfL opq kids) htx
  have hev := evs_chunks opq (.elem line tag ns decls attrs kids)
  simp only [treeOf] at hev
  rw [← hev] at hrun
  -- the parser
  have key : ∃ s', afterNext opq ((encodeAxml E (.elem line tag ns decls attrs kids)).length + 1)
      (nextLoop ((encResMapOpt E.resIds ++ encNode E (.elem line tag ns decls attrs kids)).length + 1)
        (resetEv (initState E (.elem line tag ns decls attrs kids)))) Printer.init
      = .ok (s', ⟨some (norm (Node.elem tag (ns.getD []) (attrsOf opq attrs) (treeOfL opq kids))), true, [], true⟩)
      ∧ s'.valid = true := by
    cases hr : E.resIds with
    | none =>
      rw [hr] at hdrop hbody
      simp only [encResMapOpt, List.nil_append] at hdrop hbody ⊢
      rw [hnc] at hdrop hbody ⊢
      exact sim opq E _ _ hD _ _ _ _ _ _ Printer.init
        ⟨by simp [resetEv, initState, hr, encResMapOpt, hnc], hdrop, by omega, rfl,
          ⟨hget, by rw [hr]; rfl, hsmall⟩, (by intro kv hkv; cases hkv), rfl⟩ hwc
        (Nat.lt_succ_of_le hcl) (by omega) hrun
    | some ids =>
      rw [hr] at hdrop hbody hids
      simp only [encResMapOpt, Option.getD_some] at hdrop hbody hids ⊢
      rw [hnc] at hdrop hbody ⊢
      have hrl : (encResMap ids).length = 8 + 4 * ids.length := by
        simp only [encResMap, List.length_append, w16_length, w32_length, flatMap_w32_length]; omega
      rw [List.length_append, hrl] at hbody ⊢
      rw [nextLoop_resMap _ (resetEv _) _ _ _ ids (by simp [resetEv, initState, hr, encResMapOpt, hnc]) hdrop rfl hids hlen]
      have hdrop2 := drop_add_of_drop_eq hdrop
      rw [hrl] at hdrop2
      exact sim opq E _ _ hD _ _ _ _ _ _ Printer.init
        ⟨rfl, hdrop2, by omega, rfl, ⟨hget, by rw [hr]; rfl, hsmall⟩, (by intro kv hkv; cases hkv), rfl⟩ hwc
        (by omega) (by omega) hrun
  rw [printAxml_of opq _ (initState E _) _ (parserInit_enc E _ hlen) rfl (by simp [initState]) key]
  simp [Printer.result, treeOf]

/-! ### the parser's event stream (without the printer) -/

/-- iterate `_do_next` until END_DOCUMENT and collect what the printer reads out of each event (`resolve`) -/
def parserEvents (opq : Nat → Nat → Str) : Nat → PState → Except String (List REvent)
  | 0, _ => .error "fuel"
  | fuel + 1, s =>
    match nextEvent s with
    | .error e => .error e
    | .ok s' =>
      match resolve opq s' with
      | .error e => .error e
      | .ok ev => if s'.event = .endDoc then .ok [] else (parserEvents opq fuel s').map (ev :: ·)

def afterNext2 (opq : Nat → Nat → Str) (fuel : Nat) (r : Except String PState) : Except String (List REvent) :=
  match r with
  | .error e => .error e
  | .ok s' =>
    match resolve opq s' with
    | .error e => .error e
    | .ok ev => if s'.event = .endDoc then .ok [] else (parserEvents opq fuel s').map (ev :: ·)

theorem parserEvents_succ (opq : Nat → Nat → Str) (fuel : Nat) (s : PState) :
    parserEvents opq (fuel + 1) s = afterNext2 opq fuel (nextEvent s) := by
  rw [parserEvents]; simp only [afterNext2]

theorem sim2_event_step (opq : Nat → Nat → Str) (s1 : PState) (ev : REvent) (evs : List REvent) (fuel : Nat)
    (hres : resolve opq s1 = .ok ev) (hev : s1.event ≠ .endDoc) (hfuel : evs.length + 1 ≤ fuel)
    (hcont : ∀ g, evs.length ≤ g → afterNext2 opq g (nextEvent s1) = .ok evs) :
    afterNext2 opq fuel (.ok s1) = .ok (ev :: evs) := by
  obtain ⟨g, rfl⟩ : ∃ g, fuel = g + 1 := ⟨fuel - 1, by omega⟩
  simp only [afterNext2, hres, hev, if_false]
  rw [parserEvents_succ, hcont g (by omega)]
  rfl

theorem sim2 (opq : Nat → Nat → Str) (E : Enc) (D : List (Str × Str)) (B : Bytes) (hD : DeclsOk E D) :
    ∀ (cs : List Chunk) (s : PState) (p nf fuel : Nat),
      Inv E D B s p (encChunks E cs) → (∀ c ∈ cs, wfChunk opq E D c) → cs.length < nf → (evsOf opq cs).length ≤ fuel →
      afterNext2 opq fuel (nextLoop nf s) = .ok (evsOf opq cs) := by
  intro cs
  induction cs with
  | nil =>
    intro s p nf fuel hI _ hnf _
    obtain ⟨n, rfl⟩ : ∃ n, nf = n + 1 := ⟨nf - 1, by omega⟩
    have hpos : s.cur.pos = s.filesize := by
      have h1 := hI.drop
      simp only [encChunks, List.drop_eq_nil_iff] at h1
      have h2 := hI.le
      rw [hI.cur, hI.fs]; simp only; omega
    rw [nextLoop_endDoc n s hpos]
    simp [afterNext2, resolve, evsOf]
  | cons c cs ih =>
    intro s p nf fuel hI hwf hnf hfuel
    obtain ⟨n, rfl⟩ : ∃ n, nf = n + 1 := ⟨nf - 1, by omega⟩
    have hwf' : ∀ c ∈ cs, wfChunk opq E D c := fun x hx => hwf x (List.mem_cons_of_mem _ hx)
    have hw := hwf c (by simp)
    have hnf' : cs.length < n := by simp only [List.length_cons] at hnf; omega
    have hgen : ∀ (s1 : PState) (p1 : Nat), Inv E D B s1 p1 (encChunks E cs) → s1.event ≠ .endDoc →
        ∀ g, (evsOf opq cs).length ≤ g → afterNext2 opq g (nextEvent s1) = .ok (evsOf opq cs) := by
      intro s1 p1 hI1 hev g hg
      rw [nextEvent_eq s1 hev]
      refine ih (resetEv s1) p1 _ g hI1.reset hwf' ?_ hg
      have := encChunks_length E cs
      rw [hI1.cur]; simp only; omega
    cases c with
    | startNs line d =>
      obtain ⟨hline, hd⟩ := hw
      have hdw := hD.1 d hd
      simp only [wfDecl, Bool.and_eq_true, decide_eq_true_eq] at hdw
      have hI0 : Inv E D B s p (encStartNs E line d ++ encChunks E cs) := hI
      rw [nextLoop_startNs n s B p _ E line d hI0.cur hI0.drop hI0.fs hI0.pool hdw.1.1.1 hdw.1.1.2 hline]
      refine ih _ (p + 24) n fuel (hI0.next _ 24 (encStartNs_length E line d) rfl rfl rfl rfl ?_ rfl) hwf' hnf' hfuel
      intro kv hkv
      simp only [List.mem_append, List.mem_singleton] at hkv
      rcases hkv with h | h
      · exact hI.ns kv h
      · exact ⟨d, hd, h⟩
    | endNs line d =>
      obtain ⟨hline, hd⟩ := hw
      have hdw := hD.1 d hd
      simp only [wfDecl, Bool.and_eq_true, decide_eq_true_eq] at hdw
      have hI0 : Inv E D B s p (encEndNs E line d ++ encChunks E cs) := hI
      rw [nextLoop_endNs n s B p _ E line d hI0.cur hI0.drop hI0.fs hI0.pool hdw.1.1.1 hdw.1.1.2 hline]
      refine ih _ (p + 24) n fuel (hI0.next _ 24 (encEndNs_length E line d) rfl rfl rfl rfl ?_ rfl) hwf' hnf' hfuel
      intro kv hkv
      exact hI.ns kv (mem_removeFirst _ _ kv hkv)
    | start line tag ns attrs =>
      obtain ⟨hline, htag, hlegal, hns, hn, hwa⟩ := hw
      have hI0 : Inv E D B s p (encStart E line tag ns attrs ++ encChunks E cs) := hI
      rw [nextLoop_start opq n s B p _ E line tag ns attrs hI0.cur hI0.drop hI0.fs hI0.pool htag hns hline hn hwa]
      simp only [evsOf, evOf, List.cons_append, List.nil_append, List.length_cons] at hfuel ⊢
      refine sim2_event_step opq _ _ (evsOf opq cs) fuel ?_ (by simp) (by omega) ?_
      · exact resolve_start opq E D _ tag ns attrs ⟨hI.pool.get, hI.pool.res, hI.pool.small⟩ hD hI.ns rfl rfl rfl rfl rfl
          htag hlegal hns hwa
      · exact hgen _ _ (hI0.next _ _ (encStart_length E line tag ns attrs) rfl rfl rfl rfl hI.ns rfl) (by simp)
    | end_ line tag ns =>
      obtain ⟨hline, htag, hlegal, hns⟩ := hw
      have hI0 : Inv E D B s p (encEnd E line tag ns ++ encChunks E cs) := hI
      rw [nextLoop_end n s B p _ E line tag ns hI0.cur hI0.drop hI0.fs hI0.pool htag hns hline]
      simp only [evsOf, evOf, List.cons_append, List.nil_append, List.length_cons] at hfuel ⊢
      refine sim2_event_step opq _ _ (evsOf opq cs) fuel ?_ (by simp) (by omega) ?_
      · exact resolve_end opq E _ tag ns ⟨hI.pool.get, hI.pool.res, hI.pool.small⟩ rfl rfl rfl htag hlegal hns
      · exact hgen _ _ (hI0.next _ _ (encEnd_length E line tag ns) rfl rfl rfl rfl hI.ns rfl) (by simp)
    | text line t =>
      obtain ⟨hline, ht⟩ := hw
      have hI0 : Inv E D B s p (encText E line t ++ encChunks E cs) := hI
      rw [nextLoop_text n s B p _ E line t hI0.cur hI0.drop hI0.fs hI0.pool ht hline]
      simp only [evsOf, evOf, List.cons_append, List.nil_append, List.length_cons] at hfuel ⊢
      refine sim2_event_step opq _ _ (evsOf opq cs) fuel ?_ (by simp) (by omega) ?_
      · exact resolve_text opq E _ t ⟨hI.pool.get, hI.pool.res, hI.pool.small⟩ rfl rfl ht
      · exact hgen _ _ (hI0.next _ _ (encText_length E line t) rfl rfl rfl rfl hI.ns rfl) (by simp)

/-- `AXMLParser(encoded document)` then `next()` until END_DOCUMENT: the events of the tree, in order, with names, namespaces and
    typed attribute values resolved; the fuel `file length + 1` suffices -/
theorem events_encoded (opq : Nat → Nat → Str) (E : Enc) (d : SNode) (hwf : wfDoc opq E d = true) :
    ∃ s0, parserInit (encodeAxml E d) = .ok s0 ∧ s0.valid = true ∧
      parserEvents opq ((encodeAxml E d).length + 1) s0 = .ok (events (treeOf opq d)) := by
  simp only [wfDoc, Bool.and_eq_true, decide_eq_true_eq, List.all_eq_true] at hwf
  obtain ⟨⟨⟨⟨⟨_, hnode⟩, hfun⟩, hstr⟩, hids⟩, hlen⟩ := hwf
  have hD : DeclsOk E (allDecls d) := ⟨decls_wf opq E d hnode, fun a ha b hb => hfun a ha b hb⟩
  have hL := encodeAxml_length E d
  have hPL := encodePool_length E.utf8 E.wide E.strings
  have hbody : (encodeBody E d).length
      = (encodePool E.utf8 E.wide E.strings).length + (encResMapOpt E.resIds ++ encNode E d).length := by
    simp only [encodeBody, List.length_append]
  have hsmall : E.strings.length < 0xFFFFFFFF := by omega
  have hget : ∀ x ∈ E.strings, (poolOf E.utf8 E.wide E.strings).get (sidx E x) = .ok x := fun x hx =>
    poolOf_get E.utf8 E.wide E.strings hstr _ x (idxOf_get _ x hx)
  have hwc := wf_chunks opq E (allDecls d) d hnode (fun x hx => hx)
  have hcl := encChunks_length E (chunksOf d)
  have hel' := evsOf_length opq (chunksOf d)
  have hdrop := encodeAxml_drop E d
  have hnc := encNode_chunks E d
  refine ⟨initState E d, parserInit_enc E d hlen, rfl, ?_⟩
  rw [parserEvents_succ, nextEvent_eq _ (by simp [initState]), ← evs_chunks opq d]
  show afterNext2 opq _ (nextLoop ((encResMapOpt E.resIds ++ encNode E d).length + 1) (resetEv (initState E d))) = _
  cases hr : E.resIds with
  | none =>
    rw [hr] at hdrop hbody
    simp only [encResMapOpt, List.nil_append] at hdrop hbody ⊢
    rw [hnc] at hdrop hbody ⊢
    exact sim2 opq E _ _ hD _ _ _ _ _
      ⟨by simp [resetEv, initState, hr, encResMapOpt, hnc], hdrop, by omega, rfl,
        ⟨hget, by rw [hr]; rfl, hsmall⟩, (by intro kv hkv; cases hkv), rfl⟩ hwc
      (Nat.lt_succ_of_le hcl) (by omega)
  | some ids =>
    rw [hr] at hdrop hbody hids
    simp only [encResMapOpt, Option.getD_some] at hdrop hbody hids ⊢
    rw [hnc] at hdrop hbody ⊢
    have hrl : (encResMap ids).length = 8 + 4 * ids.length := by
      simp only [encResMap, List.length_append, w16_length, w32_length, flatMap_w32_length]; omega
    rw [List.length_append, hrl] at hbody ⊢
    rw [nextLoop_resMap _ (resetEv _) _ _ _ ids (by simp [resetEv, initState, hr, encResMapOpt, hnc]) hdrop rfl hids hlen]
    have hdrop2 := drop_add_of_drop_eq hdrop
    rw [hrl] at hdrop2
    exact sim2 opq E _ _ hD _ _ _ _ _
      ⟨rfl, hdrop2, by omega, rfl, ⟨hget, by rw [hr]; rfl, hsmall⟩, (by intro kv hkv; cases hkv), rfl⟩ hwc
      (by omega) (by omega)

end AgVerif.Proof.Axml
