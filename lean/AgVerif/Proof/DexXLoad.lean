/-
C05, file level, extension by static values: `loadEntriesX file L.map = ok (tablesCMX TX L)` and
`parseDexX file = ok (declaredX TX L)` for every file that `EncodesX` well-formed extended tables.
The base components come from the base theorems through the simulation `stepX_base`.
-/
import AgVerif.Proof.DexXTables
import AgVerif.Proof.DexXSim
import AgVerif.Proof.DexLoadFold
import AgVerif.Proof.DexLoadView
namespace AgVerif.C05
open AgVerif.DexFile AgVerif.LoadOrder AgVerif.DexX
open AgVerif.EncodedValue (Value embed toCM)
open AgVerif.Spec.EncodedValue (SValue Pools)

/-! ### a section of back-to-back items, decoders that count bytes -/

theorem decSeqX_placed {α} (d : DecX α) (file : Bytes) :
    ∀ (xs : List (α × Bytes)) (off : Nat),
      (∀ p ∈ xs, ∀ rest, d (p.2 ++ rest) = .ok (p.1, p.2.length)) →
      At file off (bytesOf xs) →
      decSeqX d file xs.length off = .ok (placed off xs)
  | [], off, _, _ => rfl
  | (x, b) :: xs, off, hd, hat => by
    have hat' : At file off (b ++ bytesOf xs) := by simpa [bytesOf] using hat
    obtain ⟨post, hp⟩ := hat'.drop
    have h1 := hd (x, b) List.mem_cons_self (bytesOf xs ++ post)
    have ih := decSeqX_placed d file xs (off + b.length)
      (fun p hp => hd p (List.mem_cons_of_mem _ hp)) hat'.tail
    simp only [List.length_cons, decSeqX, hp, List.append_assoc] at h1 ⊢
    simp only [h1, ih, placed]

/-! ### the offset records -/

open AgVerif.Spec.DexFile (uint) in
theorem decOffList_enc (l : List Nat) (rest : Bytes) (h : OffListOk l) :
    decOffList (encOffList l ++ rest) = some (l, rest) := by
  have hn := decN_flat u32 uint (fun x => x) l rest (fun x hx r => u32_enc x r (h.2 x hx))
  simp only [List.map_id'] at hn
  simp only [decOffList, encOffList, List.append_assoc, u32_enc _ _ h.1, bind, Option.bind, hn]

open AgVerif.Spec.DexFile (uint) in
theorem decPairs_enc (l : List (Nat × Nat)) (rest : Bytes) (h : PairsOk l) :
    decN decPair l.length (encPairs l ++ rest) = some (l, rest) := by
  have hn := decN_flat decPair (fun p : Nat × Nat => uint p.1 ++ uint p.2) (fun x => x) l rest
    (fun x hx r => by
      obtain ⟨h1, h2⟩ := h.2 x hx
      simp only [decPair, List.append_assoc, u32_enc _ _ h1, u32_enc _ _ h2, bind, Option.bind, pure])
  simp only [List.map_id'] at hn
  exact hn

theorem decAnnDir_enc (d : AnnDir) (rest : Bytes) (h : AnnDirOk d) :
    decAnnDir (encAnnDir d ++ rest) = some (d, rest) := by
  obtain ⟨h0, hf, hm, hp⟩ := h
  simp only [decAnnDir, encAnnDir, List.append_assoc, u32_enc _ _ h0, u32_enc _ _ hf.1, u32_enc _ _ hm.1,
    u32_enc _ _ hp.1, bind, Option.bind, decPairs_enc _ _ hf, decPairs_enc _ _ hm, decPairs_enc _ _ hp, pure]

/-! ### the lookups of EncodedValue on the loaded id sections -/

variable {file : Bytes} {L : Layout} {TX : TablesX} {pre rest : List MapEntry} {e : MapEntry}

theorem rank_4 : (rank Gen.MapDeps.loadOrder 0x0004).getD 0 = 5 := by decide
theorem rank_5 : (rank Gen.MapDeps.loadOrder 0x0005).getD 0 = 8 := by decide
theorem rank_2005 : (rank Gen.MapDeps.loadOrder 0x2005).getD 0 = 17 := by decide

theorem lookOf_cmP {T : Tables} (hs : Sorted L pre e rest) (h1 : (L.sec 0x0001).isSome) (h2 : (L.sec 0x0002).isSome)
    (h4 : (L.sec 0x0004).isSome) (h5 : (L.sec 0x0005).isSome) (hk : 8 < key e) :
    lookOf (cmP T L pre) = okLook (toCM (poolsOf T L)) := by
  have hb : Base (cmP T L pre) T L := base_cmP hs h1 h2 (by omega)
  have hf : (cmP T L pre).fieldIds = some (T.fieldIds.map (fieldR T L)) :=
    cmP_some hs 0x0004 _ h4 (by rw [rank_4]; omega)
  have hm : (cmP T L pre).methodIds = some (T.methodIds.map (methodR T L)) :=
    cmP_some hs 0x0005 _ h5 (by rw [rank_5]; omega)
  simp only [lookOf, okLook, toCM, poolsOf, Look.mk.injEq]
  refine ⟨?_, ?_, ?_, ?_⟩
  · funext i; rw [getString_tab hb i]; rfl
  · funext i; rw [getType_tab hb i]; rfl
  · funext i
    simp only [getFieldList, hf]
    cases (T.fieldIds.map (fieldR T L))[i]? <;> rfl
  · funext i
    simp only [getMethodList, hm]
    cases (T.methodIds.map (methodR T L))[i]? <;> rfl

/-! ### the state after the entries `pre` -/

def cmPX (TX : TablesX) (L : Layout) (pre : List MapEntry) : CMx :=
  { base := cmP TX.base L pre
    encArrays := if has pre 0x2005 then (tablesCMX TX L).encArrays else none
    annItems := if has pre 0x2004 then (tablesCMX TX L).annItems else none
    annSets := if has pre 0x1003 then (tablesCMX TX L).annSets else none
    annRefs := if has pre 0x1002 then (tablesCMX TX L).annRefs else none
    annDirs := if has pre 0x2006 then (tablesCMX TX L).annDirs else none
    classX := if has pre 0x0006 then (tablesCMX TX L).classX else []
    inits := if has pre 0x0006 then (tablesCMX TX L).inits else [] }

theorem CMx.ext' {a b : CMx} (h1 : a.base = b.base) (h2 : a.encArrays = b.encArrays)
    (h3 : a.annItems = b.annItems) (h4 : a.annSets = b.annSets) (h5 : a.annRefs = b.annRefs)
    (h6 : a.annDirs = b.annDirs) (h7 : a.classX = b.classX) (h8 : a.inits = b.inits) : a = b := by
  cases a; cases b; simp_all

/-- a map entry whose type is not one of the six the extension handles: `stepX` is `step` -/
theorem stepX_cmPX_base (henc : EncodesX file L TX) (hwf : WFX TX L) (hs : Sorted L pre e rest)
    (h1 : e.type ≠ 0x2005) (h2 : e.type ≠ 0x2004) (h3 : e.type ≠ 0x1003) (h4 : e.type ≠ 0x1002)
    (h5 : e.type ≠ 0x2006) (h6 : e.type ≠ 0x0006) :
    stepX file (cmPX TX L pre) e = .ok (cmPX TX L (pre ++ [e])) := by
  have hb := step_cmP henc.base hwf.base hs
  simp only [stepX, h1, h2, h3, h4, h5, h6, ↓reduceIte]
  have : (cmPX TX L pre).base = cmP TX.base L pre := rfl
  rw [this, hb]
  simp only [Except.ok.injEq]
  apply CMx.ext' <;> simp [cmPX, has_append, h1, h2, h3, h4, h5, h6]

/-- ENCODED_ARRAY_ITEM -/
theorem stepX_cmPX_2005 (henc : EncodesX file L TX) (hwf : WFX TX L) (hs : Sorted L pre e rest)
    (ht : e.type = 0x2005) : stepX file (cmPX TX L pre) e = .ok (cmPX TX L (pre ++ [e])) := by
  have he := sec_of_sorted henc.base hs ht
  have hk : key e = 17 := by rw [key, ht]; decide
  obtain ⟨hn, _, hat⟩ := henc.encArrays.get he
  have hitems : bytesOf (TX.eaItems L) = bytesOf TX.encArrays := by
    simp [bytesOf, TablesX.eaItems, List.flatMap_map]
  have hd : decSeqX (decArrayX (lookOf (cmP TX.base L pre))) file (TX.eaItems L).length e.offset
      = .ok (placed e.offset (TX.eaItems L)) := by
    apply decSeqX_placed
    · intro p hp r
      obtain ⟨q, hq, rfl⟩ := List.mem_map.mp hp
      obtain ⟨s1, s2, s4, s5⟩ := hwf.arraySecs (List.ne_nil_of_mem hq)
      rw [lookOf_cmP hs s1 s2 s4 s5 (by omega)]
      exact decArrayX_enc _ q.2 q.1 r (henc.arrays q hq)
    · rw [hitems]; exact hat
  have hlen : (TX.eaItems L).length = e.size := by simp [TablesX.eaItems, hn]
  rw [hlen] at hd
  have hb : (cmPX TX L pre).base = cmP TX.base L pre := rfl
  simp only [stepX, ht, ↓reduceIte, hb, hd, Except.ok.injEq]
  have hbase := step_cmP henc.base hwf.base hs
  have hstep : step file (cmP TX.base L pre) e = .ok (cmP TX.base L pre) :=
    DexFrame.step_other _ _ _ (by rw [ht]; decide)
  rw [hstep] at hbase
  simp only [Except.ok.injEq] at hbase
  apply CMx.ext' <;> simp [cmPX, has_append, ht, tablesCMX, he, eaTab, tab, ← hbase]

/-- ANNOTATION_ITEM -/
theorem stepX_cmPX_2004 (henc : EncodesX file L TX) (hwf : WFX TX L) (hs : Sorted L pre e rest)
    (ht : e.type = 0x2004) : stepX file (cmPX TX L pre) e = .ok (cmPX TX L (pre ++ [e])) := by
  have he := sec_of_sorted henc.base hs ht
  have hk : key e = 14 := by rw [key, ht]; decide
  obtain ⟨hn, _, hat⟩ := henc.annItems.get he
  have hitems : bytesOf (TX.aiItems L) = bytesOf TX.annItems := by
    simp [bytesOf, TablesX.aiItems, List.flatMap_map]
  have hd : decSeqX (decAnnItemX (lookOf (cmP TX.base L pre))) file (TX.aiItems L).length e.offset
      = .ok (placed e.offset (TX.aiItems L)) := by
    apply decSeqX_placed
    · intro p hp r
      obtain ⟨q, hq, rfl⟩ := List.mem_map.mp hp
      obtain ⟨s1, s2, s4, s5⟩ := hwf.itemSecs (List.ne_nil_of_mem hq)
      rw [lookOf_cmP hs s1 s2 s4 s5 (by omega)]
      exact decAnnItemX_enc _ q.2 _ _ _ r (henc.items q hq)
    · rw [hitems]; exact hat
  have hlen : (TX.aiItems L).length = e.size := by simp [TablesX.aiItems, hn]
  rw [hlen] at hd
  have hb : (cmPX TX L pre).base = cmP TX.base L pre := rfl
  simp only [stepX, ht, Nat.reduceEqDiff, ↓reduceIte, hb, hd, Except.ok.injEq]
  have hbase := step_cmP henc.base hwf.base hs
  have hstep : step file (cmP TX.base L pre) e = .ok (cmP TX.base L pre) :=
    DexFrame.step_other _ _ _ (by rw [ht]; decide)
  rw [hstep] at hbase
  simp only [Except.ok.injEq] at hbase
  apply CMx.ext' <;> simp [cmPX, has_append, ht, tablesCMX, he, aiTab, tab, ← hbase]

/-- ANNOTATION_SET_ITEM -/
theorem stepX_cmPX_1003 (henc : EncodesX file L TX) (hwf : WFX TX L) (hs : Sorted L pre e rest)
    (ht : e.type = 0x1003) : stepX file (cmPX TX L pre) e = .ok (cmPX TX L (pre ++ [e])) := by
  have he := sec_of_sorted henc.base hs ht
  obtain ⟨hn, hal, hat⟩ := henc.annSets.get he
  have hd := decSeq_placed decOffList file TX.setItems e.offset (by
      intro p hp r
      obtain ⟨l, hl, rfl⟩ := List.mem_map.mp hp
      exact decOffList_enc l r (hwf.setsOk l hl)) hat
  have hlen : TX.setItems.length = e.size := by simp [TablesX.setItems, hn]
  rw [hlen] at hd
  simp only [stepX, ht, Nat.reduceEqDiff, ↓reduceIte, seek4_aligned _ (hal rfl), hd, structErr, Except.ok.injEq]
  have hbase := step_cmP henc.base hwf.base hs
  have hstep : step file (cmP TX.base L pre) e = .ok (cmP TX.base L pre) :=
    DexFrame.step_other _ _ _ (by rw [ht]; decide)
  rw [hstep] at hbase
  simp only [Except.ok.injEq] at hbase
  apply CMx.ext' <;> simp [cmPX, has_append, ht, tablesCMX, he, setTab, tab, ← hbase]

/-- ANNOTATION_SET_REF_LIST -/
theorem stepX_cmPX_1002 (henc : EncodesX file L TX) (hwf : WFX TX L) (hs : Sorted L pre e rest)
    (ht : e.type = 0x1002) : stepX file (cmPX TX L pre) e = .ok (cmPX TX L (pre ++ [e])) := by
  have he := sec_of_sorted henc.base hs ht
  obtain ⟨hn, hal, hat⟩ := henc.annRefs.get he
  have hd := decSeq_placed decOffList file TX.refItems e.offset (by
      intro p hp r
      obtain ⟨l, hl, rfl⟩ := List.mem_map.mp hp
      exact decOffList_enc l r (hwf.refsOk l hl)) hat
  have hlen : TX.refItems.length = e.size := by simp [TablesX.refItems, hn]
  rw [hlen] at hd
  simp only [stepX, ht, Nat.reduceEqDiff, ↓reduceIte, seek4_aligned _ (hal rfl), hd, structErr, Except.ok.injEq]
  have hbase := step_cmP henc.base hwf.base hs
  have hstep : step file (cmP TX.base L pre) e = .ok (cmP TX.base L pre) :=
    DexFrame.step_other _ _ _ (by rw [ht]; decide)
  rw [hstep] at hbase
  simp only [Except.ok.injEq] at hbase
  apply CMx.ext' <;> simp [cmPX, has_append, ht, tablesCMX, he, refTab, tab, ← hbase]

/-- ANNOTATIONS_DIRECTORY_ITEM -/
theorem stepX_cmPX_2006 (henc : EncodesX file L TX) (hwf : WFX TX L) (hs : Sorted L pre e rest)
    (ht : e.type = 0x2006) : stepX file (cmPX TX L pre) e = .ok (cmPX TX L (pre ++ [e])) := by
  have he := sec_of_sorted henc.base hs ht
  obtain ⟨hn, hal, hat⟩ := henc.annDirs.get he
  have hd := decSeq_placed decAnnDir file TX.dirItems e.offset (by
      intro p hp r
      obtain ⟨d, hdm, rfl⟩ := List.mem_map.mp hp
      exact decAnnDir_enc d r (hwf.dirsOk d hdm)) hat
  have hlen : TX.dirItems.length = e.size := by simp [TablesX.dirItems, hn]
  rw [hlen] at hd
  simp only [stepX, ht, Nat.reduceEqDiff, ↓reduceIte, seek4_aligned _ (hal rfl), hd, structErr, Except.ok.injEq]
  have hbase := step_cmP henc.base hwf.base hs
  have hstep : step file (cmP TX.base L pre) e = .ok (cmP TX.base L pre) :=
    DexFrame.step_other _ _ _ (by rw [ht]; decide)
  rw [hstep] at hbase
  simp only [Except.ok.injEq] at hbase
  apply CMx.ext' <;> simp [cmPX, has_append, ht, tablesCMX, he, dirTab, tab, ← hbase]

theorem rank_2006 : (rank Gen.MapDeps.loadOrder 0x2006).getD 0 = 18 := by decide

theorem resolveStatics_tab (cx : CMx) (c : ClassDef) (a : Option AnnDir)
    (hea : c.staticOff ≠ 0 → cx.encArrays = some (eaTab TX L))
    (hst : c.staticOff ≠ 0 → (classDataAt TX.base L c.dataOff).isSome → (staticsAt TX L c.staticOff).isSome) :
    (if c.staticOff = 0 then (Except.ok (⟨a, none⟩, none) : Except String (ClassX × Option (Nat × List Value))) else
      match cx.encArrays with
      | none => .error "KeyError"
      | some l =>
        match classDataAt TX.base L c.dataOff, lookupOff c.staticOff l with
        | some _, none => .error "AttributeError"
        | some _, some vs => .ok (⟨a, some vs⟩, some (c.dataOff, vs))
        | none, sv => .ok (⟨a, sv⟩, none)) = .ok (⟨a, staticsAt TX L c.staticOff⟩, initOf TX L c) := by
  by_cases h0 : c.staticOff = 0
  · simp [h0, initOf, staticsAt]
  · simp only [h0, ↓reduceIte, hea h0]
    have hs' := hst h0
    simp only [staticsAt, h0, ↓reduceIte] at hs'
    cases hd : classDataAt TX.base L c.dataOff with
    | none => simp [initOf, staticsAt, h0, hd]
    | some d =>
      rw [hd] at hs'
      cases hl : lookupOff c.staticOff (eaTab TX L) with
      | none => simp [hl] at hs'
      | some vs => simp [initOf, staticsAt, h0, hd, hl]

/-- the second half of ClassDefItem.reload against the loaded directory and array sections -/
theorem resolveClassX_tab (cx : CMx) (c : ClassDef)
    (hdir : c.annOff ≠ 0 → cx.annDirs = some (dirTab TX L))
    (hea : c.staticOff ≠ 0 → cx.encArrays = some (eaTab TX L))
    (hst : c.staticOff ≠ 0 → (classDataAt TX.base L c.dataOff).isSome → (staticsAt TX L c.staticOff).isSome) :
    resolveClassX cx c (classDataAt TX.base L c.dataOff) = .ok (classXOf TX L c, initOf TX L c) := by
  unfold resolveClassX classXOf
  by_cases ha : c.annOff = 0
  · simp only [ha, ↓reduceIte, annDirAt]
    exact resolveStatics_tab cx c none hea hst
  · simp only [ha, ↓reduceIte, annDirAt, hdir ha]
    exact resolveStatics_tab cx c _ hea hst

/-- CLASS_DEF_ITEM -/
theorem stepX_cmPX_6 (henc : EncodesX file L TX) (hwf : WFX TX L) (hs : Sorted L pre e rest)
    (ht : e.type = 0x0006) : stepX file (cmPX TX L pre) e = .ok (cmPX TX L (pre ++ [e])) := by
  have he := sec_of_sorted henc.base hs ht
  have hk : key e = 19 := by rw [key, ht]; decide
  obtain ⟨hn, hal, hat⟩ := henc.base.classDefs.get he
  obtain ⟨l, hl, hm⟩ := decSeq_rows decClassDef
    (fun c => Spec.DexFile.classDef c.cls c.access c.super c.ifacesOff c.srcIdx c.annOff c.dataOff c.staticOff)
    file TX.base.classDefs e.offset
    (fun x hx r => by
      obtain ⟨h1, h2, h3, h4, h5, h6, h7, h8⟩ := hwf.base.classDefs x hx
      exact decClassDef_enc _ _ _ _ _ _ _ _ r h1 h2 h3 h4 h5 h6 h7 h8) hat
  rw [← hn] at hl
  have hbase := step_cmP henc.base hwf.base hs
  have hr := mapE_ok (fun p : Nat × ClassDef => resolveClassFull (cmPX TX L pre) p.2)
    (fun p => (classR TX.base L p.2, classXOf TX L p.2, initOf TX L p.2)) l
    (fun x hx => by
      have hxm : x.2 ∈ TX.base.classDefs := by rw [← hm]; exact List.mem_map_of_mem hx
      have hne : TX.base.classDefs ≠ [] := List.ne_nil_of_mem hxm
      have hB : Base (cmP TX.base L pre) TX.base L :=
        base_cmP hs (hwf.base.classSecs hne).1 (hwf.base.classSecs hne).2 (by omega)
      have hrc := resolveClass_tab hB (cmP_getD hs 0x1001 _ (by rw [rank_1001]; omega))
        (cmP_getD hs 0x2000 _ (by rw [rank_2000]; omega)) x.2 (hwf.base.classIfaces x.2 hxm)
      have hb : (cmPX TX L pre).base = cmP TX.base L pre := rfl
      unfold resolveClassFull
      rw [hb, hrc]
      have hd : (classR TX.base L x.2).data = classDataAt TX.base L x.2.dataOff := rfl
      simp only [hd]
      rw [resolveClassX_tab (TX := TX) (L := L) (cmPX TX L pre) x.2
        (fun h0 => by
          have hsec := hwf.dirs x.2 hxm h0
          show (if has pre 0x2006 then (L.sec 0x2006).map (fun _ => dirTab TX L) else none) = some (dirTab TX L)
          exact cmP_some hs 0x2006 _ hsec (by rw [rank_2006]; omega))
        (fun h0 => by
          have hsec := (hwf.statics x.2 hxm h0).1
          show (if has pre 0x2005 then (L.sec 0x2005).map (fun _ => eaTab TX L) else none) = some (eaTab TX L)
          exact cmP_some hs 0x2005 _ hsec (by rw [rank_2005]; omega))
        (fun h0 => (hwf.statics x.2 hxm h0).2)])
  have hb : (cmPX TX L pre).base = cmP TX.base L pre := rfl
  simp only [stepX, ht, Nat.reduceEqDiff, ↓reduceIte, seek4_aligned _ (hal rfl), hl, structErr, hr]
  -- the base component through the base theorem
  have hstep := DexFrame.step_6 file (cmP TX.base L pre) e ht
  rw [hbase, seek4_aligned _ (hal rfl), hl] at hstep
  have hrb := mapE_ok (fun p : Nat × ClassDef => resolveClass (cmP TX.base L pre) p.2)
    (fun p => classR TX.base L p.2) l
    (fun x hx => by
      have hxm : x.2 ∈ TX.base.classDefs := by rw [← hm]; exact List.mem_map_of_mem hx
      have hne : TX.base.classDefs ≠ [] := List.ne_nil_of_mem hxm
      have hB : Base (cmP TX.base L pre) TX.base L :=
        base_cmP hs (hwf.base.classSecs hne).1 (hwf.base.classSecs hne).2 (by omega)
      exact resolveClass_tab hB (cmP_getD hs 0x1001 _ (by rw [rank_1001]; omega))
        (cmP_getD hs 0x2000 _ (by rw [rank_2000]; omega)) x.2 (hwf.base.classIfaces x.2 hxm))
  simp only [structErr, Except.bind, hrb, Except.ok.injEq] at hstep
  simp only [Except.ok.injEq]
  have hmap : ∀ {β : Type} (g : ClassDef → β), l.map (fun p => g p.2) = TX.base.classDefs.map g := by
    intro β g; rw [← hm, List.map_map]; rfl
  apply CMx.ext'
  · simp only [List.map_map, Function.comp_def, hb]
    exact hstep.symm
  · simp [cmPX, has_append, ht]
  · simp [cmPX, has_append, ht]
  · simp [cmPX, has_append, ht]
  · simp [cmPX, has_append, ht]
  · simp [cmPX, has_append, ht]
  · simp only [cmPX, has_append, ht, tablesCMX, he, List.map_map, Function.comp_def]
    simp only [Bool.or_true, ↓reduceIte, BEq.rfl, Option.elim_some]
    exact hmap (classXOf TX L)
  · simp only [cmPX, has_append, ht, tablesCMX, he, List.filterMap_map, Function.comp_def]
    simp [← hm, List.filterMap_map, Function.comp_def]

theorem stepX_cmPX (henc : EncodesX file L TX) (hwf : WFX TX L) (hs : Sorted L pre e rest) :
    stepX file (cmPX TX L pre) e = .ok (cmPX TX L (pre ++ [e])) := by
  by_cases h1 : e.type = 0x2005; · exact stepX_cmPX_2005 henc hwf hs h1
  by_cases h2 : e.type = 0x2004; · exact stepX_cmPX_2004 henc hwf hs h2
  by_cases h3 : e.type = 0x1003; · exact stepX_cmPX_1003 henc hwf hs h3
  by_cases h4 : e.type = 0x1002; · exact stepX_cmPX_1002 henc hwf hs h4
  by_cases h5 : e.type = 0x2006; · exact stepX_cmPX_2006 henc hwf hs h5
  by_cases h6 : e.type = 0x0006; · exact stepX_cmPX_6 henc hwf hs h6
  exact stepX_cmPX_base henc hwf hs h1 h2 h3 h4 h5 h6

theorem foldX_cmPX (henc : EncodesX file L TX) (hwf : WFX TX L) :
    ∀ (suf pre : List MapEntry), (∀ x ∈ pre ++ suf, x ∈ L.map) → (∀ x ∈ L.map, x ∈ pre ++ suf) →
      suf.Pairwise (fun a b => key a ≤ key b) →
      foldSteps (stepX file) (cmPX TX L pre) suf = .ok (cmPX TX L (pre ++ suf))
  | [], pre, _, _, _ => by simp [foldSteps]
  | e :: rest, pre, hm, ha, hp => by
    have hs : Sorted L pre e rest := ⟨hm, ha, fun x hx => List.rel_of_pairwise_cons hp hx⟩
    have e1 : pre ++ e :: rest = (pre ++ [e]) ++ rest := by simp
    simp only [foldSteps, stepX_cmPX henc hwf hs]
    rw [e1] at hm ha ⊢
    exact foldX_cmPX henc hwf rest (pre ++ [e]) hm ha hp.tail

theorem cmPX_all (henc : EncodesX file L TX) (l : List MapEntry) (ha : ∀ x ∈ L.map, x ∈ l) :
    cmPX TX L l = tablesCMX TX L := by
  have hh : ∀ d, (L.sec d).isSome → has l d = true := by
    intro d hd
    cases hq : L.sec d with
    | none => simp [hq] at hd
    | some e2 =>
      obtain ⟨ht, hm⟩ := sec_some hq
      have := has_mem (ha e2 hm)
      rwa [ht] at this
  have hopt : ∀ {α : Type} (d : Nat) (x : α),
      (if has l d then (L.sec d).map (fun _ => x) else none) = (L.sec d).map (fun _ => x) := by
    intro α d x
    cases hq : L.sec d with
    | none => simp
    | some e2 => simp [hh d (by simp [hq])]
  apply CMx.ext'
  · exact cmP_all henc.base l ha
  · exact hopt 0x2005 _
  · exact hopt 0x2004 _
  · exact hopt 0x1003 _
  · exact hopt 0x1002 _
  · exact hopt 0x2006 _
  · show (if has l 0x0006 then (tablesCMX TX L).classX else []) = _
    cases hq : L.sec 0x0006 with
    | none => simp [tablesCMX, hq]
    | some e2 => simp [hh 0x0006 (by simp [hq])]
  · show (if has l 0x0006 then (tablesCMX TX L).inits else []) = _
    cases hq : L.sec 0x0006 with
    | none => simp [tablesCMX, hq]
    | some e2 => simp [hh 0x0006 (by simp [hq])]

/-- sections → extended tables -/
theorem loadEntriesX_tables (henc : EncodesX file L TX) (hwf : WFX TX L) :
    loadEntriesX file L.map = .ok (tablesCMX TX L) := by
  unfold loadEntriesX loadWith orderEntries
  have hall : (L.map.all fun e => (rank Gen.MapDeps.loadOrder e.type).isSome) = true := by
    rw [List.all_eq_true]
    exact fun e he => rank_members e.type (henc.base.members e he)
  rw [if_pos hall]
  have hperm := sortByKey_perm key L.map
  have h0 : ({} : CMx) = cmPX TX L [] := rfl
  show foldSteps (stepX file) {} (sortByKey key L.map) = _
  rw [h0, foldX_cmPX henc hwf (sortByKey key L.map) [] (fun x hx => hperm.subset (by simpa using hx))
    (fun x hx => by simpa using hperm.symm.subset hx) (sortByKey_sorted key L.map)]
  rw [List.nil_append, cmPX_all henc _ (fun x hx => hperm.symm.subset hx)]

end AgVerif.C05
