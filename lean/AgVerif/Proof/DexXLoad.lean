/-
C05, file level, extension by static values: `loadEntriesX file L.map = ok (tablesCMX TX L)` and
`parseDexX file = ok (declaredX TX L)` for every file that `EncodesX` well-formed extended tables.
The base components come from the base theorems through the simulation `stepX_base`.
-/
import AgVerif.Proof.DexXTables
import AgVerif.Proof.DexXSim
import AgVerif.Proof.DexLoadFold
import AgVerif.Proof.DexLoadView
namespace AgVerif.C05
open AgVerif.DexFile AgVerif.LoadOrder AgVerif.DexX
open AgVerif.EncodedValue (Value embed toCM)
open AgVerif.Spec.EncodedValue (SValue Pools)

/-! ### a section of back-to-back items, decoders that count bytes -/

theorem decSeqX_placed {α} (d : DecX α) (file : Bytes) :
    ∀ (xs : List (α × Bytes)) (off : Nat),
      (∀ p ∈ xs, ∀ rest, d (p.2 ++ rest) = .ok (p.1, p.2.length)) →
      At file off (bytesOf xs) →
      decSeqX d file xs.length off = .ok (placed off xs)
  | [], off, _, _ => rfl
  | (x, b) :: xs, off, hd, hat => by
    have hat' : At file off (b ++ bytesOf xs) := by simpa [bytesOf] using hat
    obtain ⟨post, hp⟩ := hat'.drop
    have h1 := hd (x, b) List.mem_cons_self (bytesOf xs ++ post)
    have ih := decSeqX_placed d file xs (off + b.length)
      (fun p hp => hd p (List.mem_cons_of_mem _ hp)) hat'.tail
    simp only [List.length_cons, decSeqX, hp, List.append_assoc] at h1 ⊢
    simp only [h1, ih, placed]

/-! ### the lookups of EncodedValue on the loaded id sections -/

variable {file : Bytes} {L : Layout} {TX : TablesX} {pre rest : List MapEntry} {e : MapEntry}

theorem rank_4 : (rank Gen.MapDeps.loadOrder 0x0004).getD 0 = 5 := by decide
theorem rank_5 : (rank Gen.MapDeps.loadOrder 0x0005).getD 0 = 8 := by decide
theorem rank_2005 : (rank Gen.MapDeps.loadOrder 0x2005).getD 0 = 17 := by decide

theorem lookOf_cmP {T : Tables} (hs : Sorted L pre e rest) (h1 : (L.sec 0x0001).isSome) (h2 : (L.sec 0x0002).isSome)
    (h4 : (L.sec 0x0004).isSome) (h5 : (L.sec 0x0005).isSome) (hk : 8 < key e) :
    lookOf (cmP T L pre) = okLook (toCM (poolsOf T L)) := by
  have hb : Base (cmP T L pre) T L := base_cmP hs h1 h2 (by omega)
  have hf : (cmP T L pre).fieldIds = some (T.fieldIds.map (fieldR T L)) :=
    cmP_some hs 0x0004 _ h4 (by rw [rank_4]; omega)
  have hm : (cmP T L pre).methodIds = some (T.methodIds.map (methodR T L)) :=
    cmP_some hs 0x0005 _ h5 (by rw [rank_5]; omega)
  simp only [lookOf, okLook, toCM, poolsOf, Look.mk.injEq]
  refine ⟨?_, ?_, ?_, ?_⟩
  · funext i; rw [getString_tab hb i]; rfl
  · funext i; rw [getType_tab hb i]; rfl
  · funext i
    simp only [getFieldList, hf]
    cases (T.fieldIds.map (fieldR T L))[i]? <;> rfl
  · funext i
    simp only [getMethodList, hm]
    cases (T.methodIds.map (methodR T L))[i]? <;> rfl

/-! ### the state after the entries `pre` -/

def cmPX (TX : TablesX) (L : Layout) (pre : List MapEntry) : CMx :=
  { base := cmP TX.base L pre
    encArrays := if has pre 0x2005 then (tablesCMX TX L).encArrays else none
    classX := if has pre 0x0006 then (tablesCMX TX L).classX else []
    inits := if has pre 0x0006 then (tablesCMX TX L).inits else [] }

theorem CMx.ext' {a b : CMx} (h1 : a.base = b.base) (h2 : a.encArrays = b.encArrays)
    (h3 : a.annItems = b.annItems) (h4 : a.annSets = b.annSets) (h5 : a.annRefs = b.annRefs)
    (h6 : a.annDirs = b.annDirs) (h7 : a.classX = b.classX) (h8 : a.inits = b.inits) : a = b := by
  cases a; cases b; simp_all

/-- a map entry whose type is not one of the six the extension handles: `stepX` is `step` -/
theorem stepX_cmPX_base (henc : EncodesX file L TX) (hwf : WFX TX L) (hs : Sorted L pre e rest)
    (h1 : e.type ≠ 0x2005) (h2 : e.type ≠ 0x2004) (h3 : e.type ≠ 0x1003) (h4 : e.type ≠ 0x1002)
    (h5 : e.type ≠ 0x2006) (h6 : e.type ≠ 0x0006) :
    stepX file (cmPX TX L pre) e = .ok (cmPX TX L (pre ++ [e])) := by
  have hb := step_cmP henc.base hwf.base hs
  simp only [stepX, h1, h2, h3, h4, h5, h6, ↓reduceIte]
  have : (cmPX TX L pre).base = cmP TX.base L pre := rfl
  rw [this, hb]
  simp only [Except.ok.injEq]
  apply CMx.ext' <;> simp [cmPX, has_append, h1, h6]

theorem noAnn_absurd (henc : EncodesX file L TX) (hs : Sorted L pre e rest)
    (h : e.type = 0x2004 ∨ e.type = 0x1003 ∨ e.type = 0x1002 ∨ e.type = 0x2006) : False := by
  have hm := sec_of_mem henc.base.nodup (hs.mem e (by simp))
  obtain ⟨n1, n2, n3, n4⟩ := henc.noAnn
  rcases h with h | h | h | h <;> rw [h] at hm
  · rw [n1] at hm; cases hm
  · rw [n2] at hm; cases hm
  · rw [n3] at hm; cases hm
  · rw [n4] at hm; cases hm

/-- ENCODED_ARRAY_ITEM -/
theorem stepX_cmPX_2005 (henc : EncodesX file L TX) (hwf : WFX TX L) (hs : Sorted L pre e rest)
    (ht : e.type = 0x2005) : stepX file (cmPX TX L pre) e = .ok (cmPX TX L (pre ++ [e])) := by
  have he := sec_of_sorted henc.base hs ht
  have hk : key e = 17 := by rw [key, ht]; decide
  obtain ⟨hn, _, hat⟩ := henc.encArrays.get he
  have hitems : bytesOf (TX.eaItems L) = bytesOf TX.encArrays := by
    simp [bytesOf, TablesX.eaItems, List.flatMap_map]
  have hd : decSeqX (decArrayX (lookOf (cmP TX.base L pre))) file (TX.eaItems L).length e.offset
      = .ok (placed e.offset (TX.eaItems L)) := by
    apply decSeqX_placed
    · intro p hp r
      obtain ⟨q, hq, rfl⟩ := List.mem_map.mp hp
      obtain ⟨s1, s2, s4, s5⟩ := hwf.arraySecs (List.ne_nil_of_mem hq)
      rw [lookOf_cmP hs s1 s2 s4 s5 (by omega)]
      exact decArrayX_enc _ q.2 q.1 r (henc.arrays q hq)
    · rw [hitems]; exact hat
  have hlen : (TX.eaItems L).length = e.size := by simp [TablesX.eaItems, hn]
  rw [hlen] at hd
  have hb : (cmPX TX L pre).base = cmP TX.base L pre := rfl
  simp only [stepX, ht, ↓reduceIte, hb, hd, Except.ok.injEq]
  have hbase := step_cmP henc.base hwf.base hs
  have hstep : step file (cmP TX.base L pre) e = .ok (cmP TX.base L pre) :=
    DexFrame.step_other _ _ _ (by rw [ht]; decide)
  rw [hstep] at hbase
  simp only [Except.ok.injEq] at hbase
  apply CMx.ext' <;> simp [cmPX, has_append, ht, tablesCMX, he, eaTab, tab, ← hbase]

theorem rank_2005_lt_6 : (rank Gen.MapDeps.loadOrder 0x2005).getD 0 < 19 := by decide

/-- the second half of ClassDefItem.reload against the loaded array section -/
theorem resolveClassX_tab (cx : CMx) (c : ClassDef) (hann : c.annOff = 0)
    (hea : c.staticOff ≠ 0 → cx.encArrays = some (eaTab TX L))
    (hst : c.staticOff ≠ 0 → (classDataAt TX.base L c.dataOff).isSome → (staticsAt TX L c.staticOff).isSome) :
    resolveClassX cx c (classDataAt TX.base L c.dataOff) = .ok (classXOf TX L c, initOf TX L c) := by
  unfold resolveClassX
  simp only [hann, ↓reduceIte]
  by_cases h0 : c.staticOff = 0
  · simp [h0, classXOf, initOf, staticsAt]
  · simp only [h0, ↓reduceIte, hea h0]
    have hs' := hst h0
    simp only [staticsAt, h0, ↓reduceIte] at hs'
    cases hd : classDataAt TX.base L c.dataOff with
    | none => simp [classXOf, initOf, staticsAt, h0, hd]
    | some d =>
      rw [hd] at hs'
      cases hl : lookupOff c.staticOff (eaTab TX L) with
      | none => simp [hl] at hs'
      | some vs => simp [classXOf, initOf, staticsAt, h0, hd, hl]

/-- CLASS_DEF_ITEM -/
theorem stepX_cmPX_6 (henc : EncodesX file L TX) (hwf : WFX TX L) (hs : Sorted L pre e rest)
    (ht : e.type = 0x0006) : stepX file (cmPX TX L pre) e = .ok (cmPX TX L (pre ++ [e])) := by
  have he := sec_of_sorted henc.base hs ht
  have hk : key e = 19 := by rw [key, ht]; decide
  obtain ⟨hn, hal, hat⟩ := henc.base.classDefs.get he
  obtain ⟨l, hl, hm⟩ := decSeq_rows decClassDef
    (fun c => Spec.DexFile.classDef c.cls c.access c.super c.ifacesOff c.srcIdx c.annOff c.dataOff c.staticOff)
    file TX.base.classDefs e.offset
    (fun x hx r => by
      obtain ⟨h1, h2, h3, h4, h5, h6, h7, h8⟩ := hwf.base.classDefs x hx
      exact decClassDef_enc _ _ _ _ _ _ _ _ r h1 h2 h3 h4 h5 h6 h7 h8) hat
  rw [← hn] at hl
  have hbase := step_cmP henc.base hwf.base hs
  have hr := mapE_ok (fun p : Nat × ClassDef => resolveClassFull (cmPX TX L pre) p.2)
    (fun p => (classR TX.base L p.2, classXOf TX L p.2, initOf TX L p.2)) l
    (fun x hx => by
      have hxm : x.2 ∈ TX.base.classDefs := by rw [← hm]; exact List.mem_map_of_mem hx
      have hne : TX.base.classDefs ≠ [] := List.ne_nil_of_mem hxm
      have hB : Base (cmP TX.base L pre) TX.base L :=
        base_cmP hs (hwf.base.classSecs hne).1 (hwf.base.classSecs hne).2 (by omega)
      have hrc := resolveClass_tab hB (cmP_getD hs 0x1001 _ (by rw [rank_1001]; omega))
        (cmP_getD hs 0x2000 _ (by rw [rank_2000]; omega)) x.2 (hwf.base.classIfaces x.2 hxm)
      have hb : (cmPX TX L pre).base = cmP TX.base L pre := rfl
      unfold resolveClassFull
      rw [hb, hrc]
      have hd : (classR TX.base L x.2).data = classDataAt TX.base L x.2.dataOff := rfl
      simp only [hd]
      rw [resolveClassX_tab (TX := TX) (L := L) (cmPX TX L pre) x.2 (hwf.noDirs x.2 hxm)
        (fun h0 => by
          have hsec := (hwf.statics x.2 hxm h0).1
          show (if has pre 0x2005 then (L.sec 0x2005).map (fun _ => eaTab TX L) else none) = some (eaTab TX L)
          exact cmP_some hs 0x2005 _ hsec (by rw [rank_2005]; omega))
        (fun h0 => (hwf.statics x.2 hxm h0).2)])
  have hb : (cmPX TX L pre).base = cmP TX.base L pre := rfl
  simp only [stepX, ht, Nat.reduceEqDiff, ↓reduceIte, seek4_aligned _ (hal rfl), hl, structErr, hr]
  -- the base component through the base theorem
  have hstep := DexFrame.step_6 file (cmP TX.base L pre) e ht
  rw [hbase, seek4_aligned _ (hal rfl), hl] at hstep
  have hrb := mapE_ok (fun p : Nat × ClassDef => resolveClass (cmP TX.base L pre) p.2)
    (fun p => classR TX.base L p.2) l
    (fun x hx => by
      have hxm : x.2 ∈ TX.base.classDefs := by rw [← hm]; exact List.mem_map_of_mem hx
      have hne : TX.base.classDefs ≠ [] := List.ne_nil_of_mem hxm
      have hB : Base (cmP TX.base L pre) TX.base L :=
        base_cmP hs (hwf.base.classSecs hne).1 (hwf.base.classSecs hne).2 (by omega)
      exact resolveClass_tab hB (cmP_getD hs 0x1001 _ (by rw [rank_1001]; omega))
        (cmP_getD hs 0x2000 _ (by rw [rank_2000]; omega)) x.2 (hwf.base.classIfaces x.2 hxm))
  simp only [structErr, Except.bind, hrb, Except.ok.injEq] at hstep
  simp only [Except.ok.injEq]
  have hmap : ∀ {β : Type} (g : ClassDef → β), l.map (fun p => g p.2) = TX.base.classDefs.map g := by
    intro β g; rw [← hm, List.map_map]; rfl
  apply CMx.ext'
  · simp only [List.map_map, Function.comp_def, hb]
    exact hstep.symm
  · simp [cmPX, has_append, ht]
  · rfl
  · rfl
  · rfl
  · rfl
  · simp only [cmPX, has_append, ht, tablesCMX, he, List.map_map, Function.comp_def]
    simp only [Bool.or_true, ↓reduceIte, BEq.rfl, Option.elim_some]
    exact hmap (classXOf TX L)
  · simp only [cmPX, has_append, ht, tablesCMX, he, List.filterMap_map, Function.comp_def]
    simp [← hm, List.filterMap_map, Function.comp_def]

theorem stepX_cmPX (henc : EncodesX file L TX) (hwf : WFX TX L) (hs : Sorted L pre e rest) :
    stepX file (cmPX TX L pre) e = .ok (cmPX TX L (pre ++ [e])) := by
  by_cases h1 : e.type = 0x2005; · exact stepX_cmPX_2005 henc hwf hs h1
  by_cases h2 : e.type = 0x2004; · exact (noAnn_absurd henc hs (.inl h2)).elim
  by_cases h3 : e.type = 0x1003; · exact (noAnn_absurd henc hs (.inr (.inl h3))).elim
  by_cases h4 : e.type = 0x1002; · exact (noAnn_absurd henc hs (.inr (.inr (.inl h4)))).elim
  by_cases h5 : e.type = 0x2006; · exact (noAnn_absurd henc hs (.inr (.inr (.inr h5)))).elim
  by_cases h6 : e.type = 0x0006; · exact stepX_cmPX_6 henc hwf hs h6
  exact stepX_cmPX_base henc hwf hs h1 h2 h3 h4 h5 h6

theorem foldX_cmPX (henc : EncodesX file L TX) (hwf : WFX TX L) :
    ∀ (suf pre : List MapEntry), (∀ x ∈ pre ++ suf, x ∈ L.map) → (∀ x ∈ L.map, x ∈ pre ++ suf) →
      suf.Pairwise (fun a b => key a ≤ key b) →
      foldSteps (stepX file) (cmPX TX L pre) suf = .ok (cmPX TX L (pre ++ suf))
  | [], pre, _, _, _ => by simp [foldSteps]
  | e :: rest, pre, hm, ha, hp => by
    have hs : Sorted L pre e rest := ⟨hm, ha, fun x hx => List.rel_of_pairwise_cons hp hx⟩
    have e1 : pre ++ e :: rest = (pre ++ [e]) ++ rest := by simp
    simp only [foldSteps, stepX_cmPX henc hwf hs]
    rw [e1] at hm ha ⊢
    exact foldX_cmPX henc hwf rest (pre ++ [e]) hm ha hp.tail

theorem cmPX_all (henc : EncodesX file L TX) (l : List MapEntry) (ha : ∀ x ∈ L.map, x ∈ l) :
    cmPX TX L l = tablesCMX TX L := by
  have hh : ∀ d, (L.sec d).isSome → has l d = true := by
    intro d hd
    cases hq : L.sec d with
    | none => simp [hq] at hd
    | some e2 =>
      obtain ⟨ht, hm⟩ := sec_some hq
      have := has_mem (ha e2 hm)
      rwa [ht] at this
  apply CMx.ext'
  · exact cmP_all henc.base l ha
  · show (if has l 0x2005 then (tablesCMX TX L).encArrays else none) = _
    cases hq : L.sec 0x2005 with
    | none => simp [tablesCMX, hq]
    | some e2 => simp [hh 0x2005 (by simp [hq])]
  · rfl
  · rfl
  · rfl
  · rfl
  · show (if has l 0x0006 then (tablesCMX TX L).classX else []) = _
    cases hq : L.sec 0x0006 with
    | none => simp [tablesCMX, hq]
    | some e2 => simp [hh 0x0006 (by simp [hq])]
  · show (if has l 0x0006 then (tablesCMX TX L).inits else []) = _
    cases hq : L.sec 0x0006 with
    | none => simp [tablesCMX, hq]
    | some e2 => simp [hh 0x0006 (by simp [hq])]

/-- sections → extended tables -/
theorem loadEntriesX_tables (henc : EncodesX file L TX) (hwf : WFX TX L) :
    loadEntriesX file L.map = .ok (tablesCMX TX L) := by
  unfold loadEntriesX loadWith orderEntries
  have hall : (L.map.all fun e => (rank Gen.MapDeps.loadOrder e.type).isSome) = true := by
    rw [List.all_eq_true]
    exact fun e he => rank_members e.type (henc.base.members e he)
  rw [if_pos hall]
  have hperm := sortByKey_perm key L.map
  have h0 : ({} : CMx) = cmPX TX L [] := rfl
  show foldSteps (stepX file) {} (sortByKey key L.map) = _
  rw [h0, foldX_cmPX henc hwf (sortByKey key L.map) [] (fun x hx => hperm.subset (by simpa using hx))
    (fun x hx => by simpa using hperm.symm.subset hx) (sortByKey_sorted key L.map)]
  rw [List.nil_append, cmPX_all henc _ (fun x hx => hperm.symm.subset hx)]

end AgVerif.C05
