/-
Lemmas for C04: value ranges that follow from the encoding, the static-values array
(`EncodedArray` + `set_static_fields`), the printed initialiser of a bound field, truncated input.
-/
import AgVerif.Proof.EncodedValue
import AgVerif.Proof.EncodedValuePrint
namespace AgVerif.EncodedValue
open AgVerif.Bits AgVerif.Leb AgVerif.Gen.ValueTypes
open AgVerif.Spec.EncodedValue

/-! ### ranges -/

theorem sext_range (w p : Nat) (hw : 0 < w) (hp : p < 2 ^ w) :
    -((2 ^ (w - 1) : Nat) : Int) ≤ sext w p ∧ sext w p < ((2 ^ (w - 1) : Nat) : Int) := by
  have e : 2 ^ w = 2 * 2 ^ (w - 1) := by
    obtain ⟨k, rfl⟩ : ∃ k, w = k + 1 := ⟨w - 1, by omega⟩
    simp [Nat.pow_succ, Nat.mul_comm]
  unfold sext
  split <;> omega

/-- a payload of at most `k` bytes, sign-extended from its own width, lies in the `8k`-bit signed range -/
theorem sext_le_range (p : List Nat) (hp : ∀ b ∈ p, b < 256) (k : Nat) (hk : p.length ≤ k)
    (hpos : 0 < p.length) :
    -((2 ^ (8 * k - 1) : Nat) : Int) ≤ sext (8 * p.length) (le p) ∧
    sext (8 * p.length) (le p) < ((2 ^ (8 * k - 1) : Nat) : Int) := by
  have h := sext_range (8 * p.length) (le p) (by omega) (le_lt p hp)
  have hm : 2 ^ (8 * p.length - 1) ≤ 2 ^ (8 * k - 1) := Nat.pow_le_pow_right (by omega) (by omega)
  omega

theorem le_le_range (p : List Nat) (hp : ∀ b ∈ p, b < 256) (k : Nat) (hk : p.length ≤ k) :
    le p < 2 ^ (8 * k) := by
  have h := le_lt p hp
  have hm : 2 ^ (8 * p.length) ≤ 2 ^ (8 * k) := Nat.pow_le_pow_right (by omega) (by omega)
  omega

/-- the range of the Java type the value kind belongs to -/
def InRange : SValue → Prop
  | .byte v => -128 ≤ v ∧ v < 128
  | .short v => -32768 ≤ v ∧ v < 32768
  | .char v => v < 65536
  | .int v => -2 ^ 31 ≤ v ∧ v < 2 ^ 31
  | .long v => -2 ^ 63 ≤ v ∧ v < 2 ^ 63
  | _ => True

/-- every scalar row yields a value inside its type's range: the width limit of the format (value_arg)
    is what guarantees it -/
theorem scalar_inRange (t a : Nat) (p : List Nat) (v : SValue) (hp : ∀ b ∈ p, b < 256)
    (hs : scalar t a p = some v) : InRange v := by
  have hcases : t = 0x00 ∨ t = 0x02 ∨ t = 0x03 ∨ t = 0x04 ∨ t = 0x06
      ∨ (t ≠ 0x00 ∧ t ≠ 0x02 ∧ t ≠ 0x03 ∧ t ≠ 0x04 ∧ t ≠ 0x06) := by omega
  rcases hcases with rfl | rfl | rfl | rfl | rfl | hno
  · simp [scalar] at hs
    obtain ⟨⟨_, hl⟩, rfl⟩ := hs
    have := sext_le_range p hp 1 (by omega) (by omega)
    rw [hl] at this
    simpa [InRange] using this
  · simp [scalar] at hs
    obtain ⟨⟨ha, hl⟩, rfl⟩ := hs
    have := sext_le_range p hp 2 (by omega) (by omega)
    rw [hl] at this
    simpa [InRange] using this
  · simp [scalar] at hs
    obtain ⟨⟨ha, hl⟩, rfl⟩ := hs
    have := le_le_range p hp 2 (by omega)
    simpa [InRange] using this
  · simp [scalar] at hs
    obtain ⟨⟨ha, hl⟩, rfl⟩ := hs
    have := sext_le_range p hp 4 (by omega) (by omega)
    rw [hl] at this
    simpa [InRange] using this
  · simp [scalar] at hs
    obtain ⟨⟨ha, hl⟩, rfl⟩ := hs
    have := sext_le_range p hp 8 (by omega) (by omega)
    rw [hl] at this
    simpa [InRange] using this
  · obtain ⟨h0, h2, h3, h4, h6⟩ := hno
    unfold scalar at hs
    simp only [h0, h2, h3, h4, h6, if_false] at hs
    repeat' (split at hs; (first | (split at hs <;> simp at hs <;> (subst hs; trivial)) | skip))
    simp at hs

theorem encodes_inRange (bs : List Nat) (v : SValue) (h : Encodes bs v) : InRange v := by
  cases h with
  | scalar t a p v _ _ hp hs => exact scalar_inRange t a p v hp hs
  | array => trivial
  | annotation => trivial

/-! ### the static values array -/

/-- `EncodedArray(buff, cm)` on the bytes of an encoded_array whose elements are encoded_values -/
theorem decodeArray_encodes (P : Pools) (item : List Nat) (parts : List (List Nat × SValue))
    (rest : List Nat) (hi : AgVerif.Spec.Leb.IsItem item) (hl : item.length ≤ 5)
    (hv : AgVerif.Spec.Leb.unsignedValue item = some parts.length)
    (hparts : ∀ p ∈ parts, Encodes p.1 p.2) :
    decodeArray (toCM P) (item ++ ((parts.map (·.1)).flatten ++ rest))
      = .ok (parts.map (fun p => embed P p.2), item.length + ((parts.map (·.1)).flatten).length) := by
  have hp : ∀ p ∈ parts, ∀ r, decodeValue (toCM P)
      ((item ++ ((parts.map (·.1)).flatten ++ rest)).length + 1) (p.1 ++ r)
        = .ok (embed P p.2, p.1.length) := by
    intro p hp r
    have := length_le_flatten parts (·.1) p hp
    exact decodeValue_encodes P p.1 p.2 (hparts p hp) r _ (by simp only [List.length_append]; omega)
  have hm := decodeMany_parts _ parts (·.1) (fun p => embed P p.2) hp rest
  simp only [decodeArray, readUleb_item item _ _ hi hl hv, List.drop_left, hm]

/-! ### the printed initialiser of a declared value -/

theorem pyIsNaN32_eq (b : Nat) : pyIsNaN32 b = isNaN32 b := by
  have e1 : (0xff : Nat) = 2 ^ 8 - 1 := rfl
  have e2 : (0x7fffff : Nat) = 2 ^ 23 - 1 := rfl
  simp only [pyIsNaN32, isNaN32, shr]
  rw [e1, e2, and_mask, and_mask]

theorem pyIsNaN64_eq (b : Nat) : pyIsNaN64 b = isNaN64 b := by
  have e1 : (0x7ff : Nat) = 2 ^ 11 - 1 := rfl
  have e2 : (0xfffffffffffff : Nat) = 2 ^ 52 - 1 := rfl
  simp only [pyIsNaN64, isNaN64, shr]
  rw [e1, e2, and_mask, and_mask]

/-- the kinds whose printed text is modelled and proved: everything `declared` covers except FINITE
    float / double values (Python `repr`) -/
def PrintProved : SValue → Prop
  | .float b => isNaN32 b = true ∨ b = 0x7f800000 ∨ b = 0xff800000
  | .double b => isNaN64 b = true ∨ b = 0x7ff0000000000000 ∨ b = 0xfff0000000000000
  | _ => True

theorem jl_fnan : javaLiteralValue ['F', 'l', 'o', 'a', 't', '.', 'N', 'a', 'N'] = some .floatNaN := by decide
theorem jl_fpos : javaLiteralValue ['F', 'l', 'o', 'a', 't', '.', 'P', 'O', 'S', 'I', 'T', 'I', 'V', 'E', '_', 'I', 'N', 'F', 'I', 'N', 'I', 'T', 'Y'] = some (.float 0x7f800000) := by decide
theorem jl_fneg : javaLiteralValue ['F', 'l', 'o', 'a', 't', '.', 'N', 'E', 'G', 'A', 'T', 'I', 'V', 'E', '_', 'I', 'N', 'F', 'I', 'N', 'I', 'T', 'Y'] = some (.float 0xff800000) := by decide
theorem jl_dnan : javaLiteralValue ['D', 'o', 'u', 'b', 'l', 'e', '.', 'N', 'a', 'N'] = some .doubleNaN := by decide
theorem jl_dpos : javaLiteralValue ['D', 'o', 'u', 'b', 'l', 'e', '.', 'P', 'O', 'S', 'I', 'T', 'I', 'V', 'E', '_', 'I', 'N', 'F', 'I', 'N', 'I', 'T', 'Y'] = some (.double 0x7ff0000000000000) := by decide
theorem jl_dneg : javaLiteralValue ['D', 'o', 'u', 'b', 'l', 'e', '.', 'N', 'E', 'G', 'A', 'T', 'I', 'V', 'E', '_', 'I', 'N', 'F', 'I', 'N', 'I', 'T', 'Y'] = some (.double 0xfff0000000000000) := by decide

/-- a value of a kind `declared` covers, inside its range, printed for a field of its declared type,
    reads back as the same Java value -/
theorem print_declared (P : Pools) (v : SValue) (proto : String) (den : JDen)
    (hd : declared v = some (proto, den)) (hr : InRange v) (hm : PrintProved v) :
    (printInit proto (embed P v)).bind (readBack proto) = some den := by
  cases v with
  | byte x =>
    simp only [declared, Option.some.injEq, Prod.mk.injEq] at hd
    obtain ⟨rfl, rfl⟩ := hd
    obtain ⟨h1, h2⟩ := hr
    have h := hex32_denotes x (by omega) (by omega)
    simp [printInit, embed, readBack, h, assignable, h1, h2]
  | short x =>
    simp only [declared, Option.some.injEq, Prod.mk.injEq] at hd
    obtain ⟨rfl, rfl⟩ := hd
    obtain ⟨h1, h2⟩ := hr
    have h := dec32_denotes x (by omega) (by omega)
    simp [printInit, embed, readBack, h, assignable, h1, h2]
  | char x =>
    simp only [declared, Option.some.injEq, Prod.mk.injEq] at hd
    obtain ⟨rfl, rfl⟩ := hd
    have h2 : x < 65536 := hr
    have h := dec32_denotes (x : Int) (by omega) (by omega)
    have h3 : (x : Int) < 65536 := by omega
    simp [printInit, embed, readBack, h, assignable, h3]
  | int x =>
    simp only [declared, Option.some.injEq, Prod.mk.injEq] at hd
    obtain ⟨rfl, rfl⟩ := hd
    obtain ⟨h1, h2⟩ := hr
    have h := dec32_denotes x h1 h2
    simp [printInit, embed, readBack, h, assignable]
  | long x =>
    simp only [declared, Option.some.injEq, Prod.mk.injEq] at hd
    obtain ⟨rfl, rfl⟩ := hd
    obtain ⟨h1, h2⟩ := hr
    have h := dec64_denotes x h1 h2
    simp [printInit, embed, readBack, h, assignable]
  | boolean b =>
    simp only [declared, Option.some.injEq, Prod.mk.injEq] at hd
    obtain ⟨rfl, rfl⟩ := hd
    cases b <;> rfl
  | null =>
    simp only [declared, Option.some.injEq, Prod.mk.injEq] at hd
    obtain ⟨rfl, rfl⟩ := hd
    rfl
  | float b =>
    simp only [declared, Option.some.injEq, Prod.mk.injEq] at hd
    obtain ⟨rfl, rfl⟩ := hd
    rcases hm with h | rfl | rfl
    · simp [printInit, embed, floatSpecial, pyIsNaN32_eq, h, readBack, jl_fnan]
    · have : isNaN32 0x7f800000 = false := by decide
      simp [printInit, embed, floatSpecial, pyIsNaN32_eq, this, readBack, jl_fpos]
    · have : isNaN32 0xff800000 = false := by decide
      simp [printInit, embed, floatSpecial, pyIsNaN32_eq, this, readBack, jl_fneg]
  | double b =>
    simp only [declared, Option.some.injEq, Prod.mk.injEq] at hd
    obtain ⟨rfl, rfl⟩ := hd
    rcases hm with h | rfl | rfl
    · simp [printInit, embed, floatSpecial, pyIsNaN64_eq, h, readBack, jl_dnan]
    · have : isNaN64 0x7ff0000000000000 = false := by decide
      simp [printInit, embed, floatSpecial, pyIsNaN64_eq, this, readBack, jl_dpos]
    · have : isNaN64 0xfff0000000000000 = false := by decide
      simp [printInit, embed, floatSpecial, pyIsNaN64_eq, this, readBack, jl_dneg]
  | string _ => simp [declared] at hd
  | type _ => simp [declared] at hd
  | field _ => simp [declared] at hd
  | method _ => simp [declared] at hd
  | enum _ => simp [declared] at hd
  | array _ => simp [declared] at hd
  | annotation _ _ => simp [declared] at hd

/-! ### decode → bind → print -/

theorem static_init_print_aux (P : Pools) (item : List Nat) (parts : List (List Nat × SValue))
    (rest : List Nat) (n i : Nat) (hi : AgVerif.Spec.Leb.IsItem item) (hl : item.length ≤ 5)
    (hv : AgVerif.Spec.Leb.unsignedValue item = some parts.length)
    (hparts : ∀ p ∈ parts, Encodes p.1 p.2) (hn : parts.length ≤ n)
    (p : List Nat × SValue) (hp : parts[i]? = some p) (proto : String) (den : JDen)
    (hd : declared p.2 = some (proto, den)) (hm : PrintProved p.2) :
    ∃ vals k, decodeArray (toCM P) (item ++ ((parts.map (·.1)).flatten ++ rest)) = .ok (vals, k) ∧
      (bindStatics (some vals) (List.replicate n none))[i]? = some (some (embed P p.2)) ∧
      (printInit proto (embed P p.2)).bind (readBack proto) = some den := by
  refine ⟨_, _, decodeArray_encodes P item parts rest hi hl hv hparts, ?_, ?_⟩
  · have hlen : (parts.map (fun p => embed P p.2)).length ≤ n := by simpa using hn
    have hi' : i < parts.length := (List.getElem?_eq_some_iff.mp hp).1
    rw [(bindStatics_spec _ n hlen i).1]
    have : i < n := by omega
    simp [staticInit, this, List.getElem?_map, hp]
  · have hmem : p ∈ parts := List.mem_of_getElem? hp
    exact print_declared P p.2 proto den hd (encodes_inRange p.1 p.2 (hparts p hmem)) hm

/-! ### truncated input -/

theorem decodeMany_succ {α : Type} (dec : List Nat → Except Err (α × Nat)) (n : Nat) (bs : List Nat) :
    decodeMany dec (n + 1) bs =
      match dec bs with
      | .error e => .error e
      | .ok (v, k) =>
        match decodeMany dec n (bs.drop k) with
        | .error e => .error e
        | .ok (vs, k') => .ok (v :: vs, k + k') := rfl

theorem decodeMany_short {α β : Type} (dec : List Nat → Except Err (α × Nat)) (parts : List β)
    (bytes : β → List Nat) (val : β → α) (k : Nat)
    (h : ∀ p ∈ parts, ∀ rest, dec (bytes p ++ rest) = .ok (val p, (bytes p).length))
    (hend : dec [] = .error .struct) :
    decodeMany dec (parts.length + k + 1) ((parts.map bytes).flatten) = .error .struct := by
  induction parts with
  | nil => rw [decodeMany_succ]; simp [hend]
  | cons p ps ih =>
    have h1 := h p (by simp) ((ps.map bytes).flatten)
    have h2 := ih (fun q hq => h q (by simp [hq]))
    have e : (p :: ps).length + k + 1 = (ps.length + k + 1) + 1 := by simp; omega
    rw [e, decodeMany_succ]
    simp only [List.map_cons, List.flatten_cons, h1, List.drop_left, h2]

/-- an encoded_array that announces more elements than the buffer holds is an error, whatever the
    (well-formed) elements that are present -/
theorem truncated_array_aux (P : Pools) (item : List Nat) (parts : List (List Nat × SValue)) (k : Nat)
    (hi : AgVerif.Spec.Leb.IsItem item) (hl : item.length ≤ 5)
    (hv : AgVerif.Spec.Leb.unsignedValue item = some (parts.length + k + 1))
    (hparts : ∀ p ∈ parts, Encodes p.1 p.2) :
    decode (toCM P) (0x1c :: (item ++ (parts.map (·.1)).flatten)) = .error .struct := by
  unfold decode
  simp only [List.length_cons]
  show decodeStep (toCM P) (decodeValue (toCM P) _) 0x1c (item ++ (parts.map (·.1)).flatten) = _
  have hp : ∀ p ∈ parts, ∀ r, decodeValue (toCM P) ((item ++ (parts.map (·.1)).flatten).length + 1) (p.1 ++ r)
      = .ok (embed P p.2, p.1.length) := by
    intro p hp r
    have := length_le_flatten parts (·.1) p hp
    exact decodeValue_encodes P p.1 p.2 (hparts p hp) r _ (by simp only [List.length_append]; omega)
  have hm := decodeMany_short _ parts (·.1) (fun p => embed P p.2) k hp rfl
  have hr := readUleb_item item ((parts.map (·.1)).flatten) _ hi hl hv
  simp only [decodeStep, hdr1c_type, kind_array, hr, List.drop_left, hm]

/-- what the code does with a truncated payload of an integer type: `buff.read` returns what is left,
    the value is made from those bytes and NO error is raised -/
theorem read_short_intS (cm : CM) (t a : Nat) (p : List Nat) (ht : t < 32) (hk : kindOf t = .intS)
    (hl : p.length ≤ a + 1) (hp : ∀ b ∈ p, b < 256) (hne : p ≠ []) :
    decode cm ((a * 32 + t) :: p) = .ok (.int t (sext (8 * p.length) (le p)), 1 + p.length) := by
  show decodeStep cm _ (a * 32 + t) p = _
  simp only [decodeStep, hdr_arg t a ht, hdr_type t a ht, hk, List.take_of_length_le hl,
    getIntValue_signed p hp hne]

theorem read_short_intU (cm : CM) (t a : Nat) (p : List Nat) (ht : t < 32) (hk : kindOf t = .intU)
    (hl : p.length ≤ a + 1) (hp : ∀ b ∈ p, b < 256) :
    decode cm ((a * 32 + t) :: p) = .ok (.int t (le p : Int), 1 + p.length) := by
  show decodeStep cm _ (a * 32 + t) p = _
  simp only [decodeStep, hdr_arg t a ht, hdr_type t a ht, hk, List.take_of_length_le hl,
    getIntValue_unsigned p hp]

/-- VALUE_BYTE (any value_arg) with nothing behind the header: struct.error -/
theorem truncated_byte_aux (cm : CM) (a : Nat) : decode cm [a * 32 + 0x00] = .error .struct := by
  show decodeStep cm (decodeValue cm 1) (a * 32 + 0x00) [] = _
  simp only [decodeStep, hdr_type 0 a (by omega), kind_byte]

end AgVerif.EncodedValue
