/- Helper lemmas for C31. -/
import AgVerif.Spec.Manifest
namespace AgVerif.Proof.Manifest
open AgVerif.Axml AgVerif.Manifest AgVerif.Spec.Manifest AgVerif.Gen.AxmlConsts

theorem mem_dedup (y : Str) (l : List Str) : y ∈ dedup l ↔ y ∈ l := by
  induction l with
  | nil => simp [dedup]
  | cons x r ih =>
    simp only [dedup]
    split
    · rename_i hc
      rw [ih]; simp only [List.mem_cons]
      constructor
      · exact Or.inr
      · rintro (rfl | h)
        · simpa using hc
        · exact h
    · simp [ih]

theorem dedup_nodup (l : List Str) : (dedup l).Nodup := by
  induction l with
  | nil => simp [dedup]
  | cons x r ih =>
    simp only [dedup]
    split
    · exact ih
    · rename_i hc
      rw [List.nodup_cons]
      refine ⟨?_, ih⟩
      rw [mem_dedup]; simpa using hc

theorem minStr_mem (l : List Str) (m : Str) (h : minStr l = some m) : m ∈ l := by
  induction l generalizing m with
  | nil => simp [minStr] at h
  | cons x r ih =>
    simp only [minStr] at h
    split at h
    · simp at h; simp [h]
    · rename_i m' hm
      split at h
      · simp at h; subst h; simp [ih m' hm]
      · simp at h; simp [h]

theorem minStr_ne_nil (l : List Str) (h : l ≠ []) : ∃ m, minStr l = some m := by
  cases l with
  | nil => exact absurd rfl h
  | cons x r =>
    simp only [minStr]
    split
    · exact ⟨x, rfl⟩
    · split <;> exact ⟨_, rfl⟩

/-- `str.find(".")` finds a dot exactly when there is one -/
theorem findDot_none (v : Str) : findDot v = none ↔ 0x2E ∉ v := by
  induction v with
  | nil => simp [findDot]
  | cons c r ih =>
    simp only [findDot]
    split
    · rename_i hc; simp [hc]
    · rename_i hc
      simp only [Option.map_eq_none_iff, ih, List.mem_cons, not_or]
      constructor
      · intro h; exact ⟨fun e => hc e.symm, h⟩
      · intro h; exact h.2

theorem findDot_zero (v : Str) : findDot v = some 0 ↔ v.head? = some 0x2E := by
  cases v with
  | nil => simp [findDot]
  | cons c r =>
    simp only [findDot, List.head?_cons, Option.some.injEq]
    split
    · rename_i hc; simp [hc]
    · rename_i hc
      constructor
      · intro h
        cases hf : findDot r with
        | none => simp [hf] at h
        | some k => simp [hf] at h
      · intro h; exact absurd h hc

/-! descendants of lists of leaves -/

theorem descList_leaves (tag : String) (l : List Str) :
    descList (l.map (leaf tag)) = l.map fun n => (⟨lit tag, [], [⟨nsAndroid, lit attrName, n⟩], []⟩ : El) := by
  induction l with
  | nil => simp [descList]
  | cons x r ih => simp [descList, descNode, leaf, ih]

theorem descList_append (a b : List Node) : descList (a ++ b) = descList a ++ descList b := by
  induction a with
  | nil => simp [descList]
  | cons x r ih => simp [descList, ih, List.append_assoc]

/-! the elements of `toXml` -/

def leafEl (tag : String) (n : Str) : El := ⟨lit tag, [], [⟨nsAndroid, lit attrName, n⟩], []⟩

theorem descList_leaves' (tag : String) (l : List Str) : descList (l.map (leaf tag)) = l.map (leafEl tag) :=
  descList_leaves tag l

theorem filter_leafEls_same (tag : String) (l : List Str) :
    (l.map (leafEl tag)).filter (fun d => d.ns.isEmpty && d.tag == lit tag) = l.map (leafEl tag) := by
  induction l with
  | nil => rfl
  | cons x r ih => simp [leafEl] at ih ⊢; try exact ih

theorem filter_leafEls_diff (tag tag' : String) (h : (lit tag == lit tag') = false) (l : List Str) :
    (l.map (leafEl tag)).filter (fun d => d.ns.isEmpty && d.tag == lit tag') = [] := by
  induction l with
  | nil => rfl
  | cons x r ih => simp [leafEl, h] at ih ⊢; try exact ih

theorem filterNs_leafEls (tag : String) (name : Str) (l : List Str) :
    (l.map (leafEl tag)).filter (fun d => d.ns == nsAndroid && d.tag == name) = [] := by
  have : (([] : Str) == nsAndroid) = false := by decide
  induction l with
  | nil => rfl
  | cons x r ih => simp [leafEl, this] at ih ⊢; try exact ih

/-- the `android:name` values of a list of leaves, with or without completion -/
theorem values_leafEls (pkg : Option Str) (complete : Bool) (tag : String) (l : List Str) (h : ∀ n ∈ l, n ≠ []) :
    (l.map (leafEl tag)).filterMap (fun e => (attrOr e (lit attrName)).map fun v => if complete then formatValue pkg v else v)
      = l.map fun v => if complete then formatValue pkg v else v := by
  induction l with
  | nil => rfl
  | cons x r ih =>
    have hx : x ≠ [] := h x (by simp)
    have hx' : x.isEmpty = false := by simpa using hx
    simp only [List.map_cons, List.filterMap_cons]
    rw [ih (fun n hn => h n (by simp [hn]))]
    simp [leafEl, attrOr, getAttr, hx']

end AgVerif.Proof.Manifest
