/-
C28 deepening, step 6a: `_analyse` on a parse: when the per-entry steps that can raise do not
(`ChunkOk`), it succeeds and `resource_values` is the fold of `resource_values[id][config] = entry`
over all entries in file order; what that fold holds for an id (`dictGet_rvFold`).  Core Lean only.
-/
import AgVerif.Proof.ArscView
namespace AgVerif.Arsc
open AgVerif.Gen.ArscConsts AgVerif.Spec.Arsc

/-! ### dictionaries -/

theorem dictGet_nil {α β : Type} [BEq α] (k : α) : dictGet ([] : List (α × β)) k = none := rfl

theorem dictGet_eq_none_iff {α β : Type} [BEq α] (d : List (α × β)) (k : α) :
    dictGet d k = none ↔ d.any (·.1 == k) = false := by
  unfold dictGet
  cases h : d.find? (·.1 == k) with
  | none =>
    simp only [true_iff]
    rw [List.find?_eq_none] at h
    rw [Bool.eq_false_iff]; intro hc
    obtain ⟨p, hp, hk⟩ := List.any_eq_true.mp hc
    exact h p hp hk
  | some p =>
    simp only [reduceCtorEq, false_iff]
    have := List.find?_some h
    have hm := List.mem_of_find?_eq_some h
    intro hc
    rw [Bool.eq_false_iff] at hc
    exact hc (List.any_eq_true.mpr ⟨p, hm, this⟩)

theorem dictGet_append_single {α β : Type} [BEq α] [LawfulBEq α] (d : List (α × β)) (k k' : α) (v : β) :
    dictGet (d ++ [(k, v)]) k' = match dictGet d k' with
      | some x => some x
      | none => if k == k' then some v else none := by
  unfold dictGet
  rw [List.find?_append]
  cases h : d.find? (·.1 == k') with
  | some p => simp
  | none =>
    simp only [Option.none_or, List.find?_cons, List.find?_nil]
    by_cases hk : k == k' <;> simp [hk]

theorem find_map_set_ne {α β : Type} [BEq α] [LawfulBEq α] (d : List (α × β)) (k k' : α) (v : β)
    (hne : (k == k') = false) :
    (d.map fun p => if p.1 == k then (k, v) else p).find? (·.1 == k') = d.find? (·.1 == k') := by
  induction d with
  | nil => rfl
  | cons p r ih =>
    simp only [List.map_cons, List.find?_cons]
    by_cases hp : p.1 == k
    · have hpk : p.1 = k := by simpa using hp
      have : (p.1 == k') = false := by rw [hpk]; exact hne
      simp only [hp, if_true, hne, this]
      exact ih
    · simp only [hp, Bool.false_eq_true, if_false]
      by_cases hp' : p.1 == k'
      · simp [hp']
      · simp only [hp']
        exact ih

theorem dictGet_dictSet_ne {α β : Type} [BEq α] [LawfulBEq α] (d : List (α × β)) (k k' : α) (v : β)
    (hne : (k == k') = false) : dictGet (dictSet d k v) k' = dictGet d k' := by
  unfold dictSet
  split
  · unfold dictGet
    rw [find_map_set_ne d k k' v hne]
  · rw [dictGet_append_single]
    cases dictGet d k' <;> simp [hne]


/-! ### `resource_values[id][config] = entry`, folded over the entries of a table -/

abbrev RV := List (Nat × List (ConfigWords × Ate))

/-- one `self.resource_values[ate.mResId][config] = ate` -/
def rvStep (rv : RV) (rid : Nat) (cfg : ConfigWords) (a : Ate) : RV :=
  match dictGet rv rid with
  | some opts => dictSet rv rid (dictSet opts cfg a)
  | none => rv ++ [(rid, [(cfg, a)])]

def rvFold (rv : RV) (ts : List (Nat × ConfigWords × Ate)) : RV :=
  ts.foldl (fun rv x => rvStep rv x.1 x.2.1 x.2.2) rv

/-- storing (config, entry) pairs in order into an insertion-ordered dict -/
def cfgFold (o : List (ConfigWords × Ate)) (ps : List (ConfigWords × Ate)) : List (ConfigWords × Ate) :=
  ps.foldl (fun o p => dictSet o p.1 p.2) o

def merged (d : Option (List (ConfigWords × Ate))) (ps : List (ConfigWords × Ate)) :
    Option (List (ConfigWords × Ate)) :=
  match d, ps with
  | none, [] => none
  | d, ps => some (cfgFold (d.getD []) ps)

theorem merged_some (o ps) : merged (some o) ps = some (cfgFold o ps) := by
  cases ps <;> rfl

theorem merged_cons (d : Option (List (ConfigWords × Ate))) (p : ConfigWords × Ate) (ps : List (ConfigWords × Ate)) :
    merged d (p :: ps) = merged (some (dictSet (d.getD []) p.1 p.2)) ps := by
  rw [merged_some]
  cases d <;> rfl

theorem dictGet_rvStep (rv : RV) (rid : Nat) (cfg : ConfigWords) (a : Ate) (rid' : Nat) :
    dictGet (rvStep rv rid cfg a) rid' =
      if rid = rid' then some (dictSet ((dictGet rv rid).getD []) cfg a) else dictGet rv rid' := by
  unfold rvStep
  by_cases h : rid = rid'
  · subst h
    rw [if_pos rfl]
    cases hd : dictGet rv rid with
    | some opts => simp only [dictGet_dictSet, Option.getD_some]
    | none =>
      simp only [dictGet_append_single, hd, BEq.rfl, if_true, Option.getD_none]
      rfl
  · rw [if_neg h]
    have hne : (rid == rid') = false := by simpa using h
    cases hd : dictGet rv rid with
    | some opts => simp only [dictGet_dictSet_ne _ _ _ _ hne]
    | none =>
      simp only [dictGet_append_single, hne]
      cases dictGet rv rid' <;> rfl

/-- what `resource_values[rid]` holds after storing the triples `ts` in order: the configurations
    of `rid` in order of first appearance, each with the entry stored last -/
theorem dictGet_rvFold (ts : List (Nat × ConfigWords × Ate)) (rv : RV) (rid : Nat) :
    dictGet (rvFold rv ts) rid = merged (dictGet rv rid) ((ts.filter (·.1 == rid)).map (·.2)) := by
  induction ts generalizing rv with
  | nil => simp only [rvFold, List.foldl_nil, List.filter_nil, List.map_nil]; cases dictGet rv rid <;> rfl
  | cons x r ih =>
    have : rvFold rv (x :: r) = rvFold (rvStep rv x.1 x.2.1 x.2.2) r := rfl
    rw [this, ih, dictGet_rvStep]
    by_cases h : x.1 = rid
    · have hb : (x.1 == rid) = true := by simpa using h
      rw [List.filter_cons, if_pos hb, List.map_cons, merged_cons, if_pos h, h]
    · have hb : ¬ (x.1 == rid) = true := by simpa using h
      rw [List.filter_cons, if_neg hb, if_neg h]

theorem dictSet_fresh {α β : Type} [BEq α] (d : List (α × β)) (k : α) (v : β) (h : d.any (·.1 == k) = false) :
    dictSet d k v = d ++ [(k, v)] := by
  simp [dictSet, h]

/-- when the configurations are pairwise distinct nothing is overwritten -/
theorem cfgFold_nodup (o ps : List (ConfigWords × Ate)) (h : ((o ++ ps).map (·.1)).Nodup) :
    cfgFold o ps = o ++ ps := by
  induction ps generalizing o with
  | nil => simp [cfgFold]
  | cons p r ih =>
    have hfresh : o.any (·.1 == p.1) = false := by
      rw [Bool.eq_false_iff]; intro hc
      obtain ⟨q, hq, hk⟩ := List.any_eq_true.mp hc
      have hk' : q.1 = p.1 := by simpa using hk
      simp only [List.map_append, List.map_cons] at h
      have := (List.nodup_append.mp h).2.2 q.1 (List.mem_map.mpr ⟨q, hq, rfl⟩) p.1 (by simp)
      exact this hk'
    have : cfgFold o (p :: r) = cfgFold (dictSet o p.1 p.2) r := rfl
    rw [this, dictSet_fresh _ _ _ hfresh, ih]
    · simp
    · simpa using h


/-! ### `_analyse` does not fail and stores every entry -/

/-- the per-entry steps of `_analyse` that can raise, do not -/
def AteOk (ps : Parsed) (pk : Package) (tn : List Nat) (a : Ate) : Prop :=
  (keyName pk a).isSome ∧
  (if tn == strBytes "string" then (keyData ps a).isSome = true else analyseRaises tn a = false)

theorem analyseAte_rv {ps : Parsed} {pk : Package} {tn locale : List Nat} {cfg : ConfigWords} {st : Analysed}
    {a : Ate} (h : AteOk ps pk tn a) :
    ∃ st', analyseAte ps pk tn locale cfg st a = some st' ∧
      st'.resourceValues = rvStep st.resourceValues a.resId cfg a := by
  obtain ⟨h1, h2⟩ := h
  obtain ⟨kn, hkn⟩ := Option.isSome_iff_exists.mp h1
  unfold analyseAte
  simp only [hkn, Option.bind_eq_bind, Option.bind_some, Option.pure_def]
  by_cases hs : tn == strBytes "string"
  · rw [if_pos hs] at h2
    obtain ⟨kd, hkd⟩ := Option.isSome_iff_exists.mp h2
    simp only [hs, if_true, hkd, Option.bind_some]
    exact ⟨_, rfl, rfl⟩
  · rw [if_neg hs] at h2
    have h2' : analyseRaises tn a = false := h2
    simp only [hs, Bool.false_eq_true, if_false, h2']
    exact ⟨_, rfl, rfl⟩

theorem analyseAtes_rv {ps : Parsed} {pk : Package} {tn locale : List Nat} {cfg : ConfigWords}
    (ates : List Ate) (st : Analysed) (h : ∀ a ∈ ates, AteOk ps pk tn a) :
    ∃ st', analyseAtes ps pk tn locale cfg st ates = some st' ∧
      st'.resourceValues = rvFold st.resourceValues (ates.map fun a => (a.resId, cfg, a)) := by
  induction ates generalizing st with
  | nil => exact ⟨st, rfl, rfl⟩
  | cons a r ih =>
    obtain ⟨st1, h1, h2⟩ := analyseAte_rv (locale := locale) (cfg := cfg) (st := st) (h a (by simp))
    obtain ⟨st2, h3, h4⟩ := ih st1 (fun x hx => h x (by simp [hx]))
    refine ⟨st2, ?_, ?_⟩
    · simp only [analyseAtes, h1, h3]
    · rw [h4, h2]; rfl

def ChunkOk (ps : Parsed) (pk : Package) (tc : TypeChunk) : Prop :=
  tc.ates = [] ∨ ∃ tn, typeName pk tc.typeId = some tn ∧ ∀ a ∈ tc.ates, AteOk ps pk tn a

def chunkTriples (tc : TypeChunk) : List (Nat × ConfigWords × Ate) := tc.ates.map fun a => (a.resId, tc.config, a)

theorem analyseChunk_rv {ps : Parsed} {pk : Package} {tc : TypeChunk} (st : Analysed) (h : ChunkOk ps pk tc) :
    ∃ st', analyseChunk ps pk st tc = some st' ∧
      st'.resourceValues = rvFold st.resourceValues (chunkTriples tc) := by
  unfold analyseChunk
  rcases h with h | ⟨tn, htn, hall⟩
  · simp only [h, List.isEmpty_nil, if_true, Option.pure_def, Option.bind_eq_bind, chunkTriples, List.map_nil]
    exact ⟨_, rfl, rfl⟩
  · by_cases he : tc.ates.isEmpty
    · simp only [he, if_true, Option.pure_def, Option.bind_eq_bind]
      have : tc.ates = [] := List.isEmpty_iff.mp he
      simp only [chunkTriples, this, List.map_nil]
      exact ⟨_, rfl, rfl⟩
    · simp only [he, Bool.false_eq_true, if_false, htn, Option.bind_eq_bind, Option.bind_some]
      exact analyseAtes_rv tc.ates _ hall

theorem analyseChunks_rv {ps : Parsed} {pk : Package} (chunks : List TypeChunk) (st : Analysed)
    (h : ∀ tc ∈ chunks, ChunkOk ps pk tc) :
    ∃ st', analyseChunks ps pk st chunks = some st' ∧
      st'.resourceValues = rvFold st.resourceValues (chunks.flatMap chunkTriples) := by
  induction chunks generalizing st with
  | nil => exact ⟨st, rfl, rfl⟩
  | cons tc r ih =>
    obtain ⟨st1, h1, h2⟩ := analyseChunk_rv st (h tc (by simp))
    obtain ⟨st2, h3, h4⟩ := ih st1 (fun x hx => h x (by simp [hx]))
    refine ⟨st2, ?_, ?_⟩
    · simp only [analyseChunks, h1, h3]
    · rw [h4, h2]; simp only [rvFold, List.flatMap_cons, List.foldl_append]

def pkgTriples (pk : Package) : List (Nat × ConfigWords × Ate) := pk.chunks.flatMap chunkTriples

theorem analysePackages_rv {ps : Parsed} (pkgs : List Package) (st : Analysed)
    (h : ∀ pk ∈ pkgs, ∀ tc ∈ pk.chunks, ChunkOk ps pk tc) :
    ∃ st', analysePackages ps st pkgs = some st' ∧
      st'.resourceValues = rvFold st.resourceValues (pkgs.flatMap pkgTriples) := by
  induction pkgs generalizing st with
  | nil => exact ⟨st, rfl, rfl⟩
  | cons pk r ih =>
    obtain ⟨st1, h1, h2⟩ := analyseChunks_rv (ps := ps) (pk := pk) pk.chunks
      (if (dictGet st.values pk.name).isSome then st else { st with values := st.values ++ [(pk.name, [])] })
      (h pk (by simp))
    obtain ⟨st2, h3, h4⟩ := ih st1 (fun x hx => h x (by simp [hx]))
    refine ⟨st2, ?_, ?_⟩
    · simp only [analysePackages, h1, h3]
    · rw [h4, h2]
      have : (if (dictGet st.values pk.name).isSome then st else { st with values := st.values ++ [(pk.name, [])] }).resourceValues
          = st.resourceValues := by split <;> rfl
      rw [this]
      simp only [rvFold, List.flatMap_cons, List.foldl_append, pkgTriples]


/-! ### the order in which `_analyse` visits the packages -/

theorem eraseDups_of_nodup {α : Type} [BEq α] [LawfulBEq α] (l : List α) (h : l.Nodup) : l.eraseDups = l := by
  induction l with
  | nil => rfl
  | cons a r ih =>
    rw [List.eraseDups_cons]
    have hn := List.nodup_cons.mp h
    have : r.filter (fun b => !b == a) = r := by
      rw [List.filter_eq_self]
      intro x hx
      have : x ≠ a := fun e => hn.1 (e ▸ hx)
      simpa using this
    rw [this, ih hn.2]

theorem ordered_eq (l : List Package) (h : (l.map (·.name)).Nodup) :
    ((l.map (·.name)).eraseDups.flatMap fun n => l.filter (·.name == n)) = l := by
  rw [eraseDups_of_nodup _ h]
  induction l with
  | nil => rfl
  | cons p r ih =>
    simp only [List.map_cons] at h
    have hn := List.nodup_cons.mp h
    have h1 : (p :: r).filter (·.name == p.name) = [p] := by
      simp only [List.filter_cons, BEq.rfl, if_true, List.cons.injEq, true_and]
      rw [List.filter_eq_nil_iff]
      intro x hx hc
      have : x.name = p.name := by simpa using hc
      exact hn.1 (this ▸ List.mem_map.mpr ⟨x, hx, rfl⟩)
    have h2 : ∀ ns : List (List Nat), (∀ n ∈ ns, n ≠ p.name) →
        (ns.flatMap fun n => (p :: r).filter (·.name == n)) = ns.flatMap fun n => r.filter (·.name == n) := by
      intro ns
      induction ns with
      | nil => intro _; rfl
      | cons n t iht =>
        intro hall
        have hne : (p.name == n) = false := by
          have := hall n (by simp)
          simpa using fun e => this e.symm
        have hhead : (p :: r).filter (·.name == n) = r.filter (·.name == n) := by
          rw [List.filter_cons, if_neg (by simp [hne])]
        rw [List.flatMap_cons, List.flatMap_cons, iht (fun x hx => hall x (by simp [hx])), hhead]
    simp only [List.map_cons, List.flatMap_cons, h1]
    rw [h2 _ (fun n hn' e => hn.1 (e ▸ hn')), ih hn.2]
    rfl

theorem analyse_rv (ps : Parsed) (hn : (ps.packages.map (·.name)).Nodup)
    (h : ∀ pk ∈ ps.packages, ∀ tc ∈ pk.chunks, ChunkOk ps pk tc) :
    ∃ an, analyse ps = some an ∧ an.resourceValues = rvFold [] (ps.packages.flatMap pkgTriples) := by
  unfold analyse
  simp only [ordered_eq ps.packages hn]
  exact analysePackages_rv ps.packages ⟨[], [], []⟩ h

end AgVerif.Arsc
