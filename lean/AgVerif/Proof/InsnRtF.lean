/- C01: byte round trip of the classes 3rc 3rms 3rmi (generated layout; tactic `rt6` of Proof/InsnRoundtrip.lean) -/
import AgVerif.Proof.InsnRoundtrip
set_option linter.unusedSimpArgs false
set_option linter.unusedVariables false
namespace AgVerif.Insn
open AgVerif.Gen

theorem rt_3rc (bs : List Nat) (hb : AllBytes bs) (x : Insn) (h : decode .f3rc bs = .ok x) :
    encode x = some (bs.take (Opcodes.length .f3rc)) := by
  have hl := decode_ok_length h
  rt6

theorem rt_3rms (bs : List Nat) (hb : AllBytes bs) (x : Insn) (h : decode .f3rms bs = .ok x) :
    encode x = some (bs.take (Opcodes.length .f3rms)) := by
  have hl := decode_ok_length h
  rt6

theorem rt_3rmi (bs : List Nat) (hb : AllBytes bs) (x : Insn) (h : decode .f3rmi bs = .ok x) :
    encode x = some (bs.take (Opcodes.length .f3rmi)) := by
  have hl := decode_ok_length h
  rt6

end AgVerif.Insn
