/-
Helper lemmas for C34 (model: AgVerif.ApkFiles).
-/
import AgVerif.Model.ApkFiles
import AgVerif.Spec.ApkFiles
namespace AgVerif.ApkFiles

theorem isDig_eq_isDigit (c : Char) : isDig c = c.isDigit := by
  simp only [isDig, Char.isDigit, Char.le_def, ge_iff_le]

theorem litClasses_eq : litClasses = "classes".toList := by decide
theorem litDotDex_eq : litDotDex = ".dex".toList := by decide

/-- matching a literal prefix: exactly the subjects `p ++ r` -/
theorem stripPrefix_eq_some (p s r : List Char) : stripPrefix p s = some r ↔ s = p ++ r := by
  induction p generalizing s with
  | nil => simp [stripPrefix, eq_comm]
  | cons a p ih =>
    cases s with
    | nil => simp [stripPrefix]
    | cons c cs =>
      by_cases h : a = c
      · subst h; simp [stripPrefix, ih]
      · simp [stripPrefix, h]; intro h'; exact absurd h'.symm h

theorem stripPrefix_eq_none (p s : List Char) : stripPrefix p s = none ↔ ∀ r, s ≠ p ++ r := by
  constructor
  · intro h r hr
    have := (stripPrefix_eq_some p s r).2 hr
    rw [h] at this; cases this
  · intro h
    cases hs : stripPrefix p s with
    | none => rfl
    | some r => exact absurd ((stripPrefix_eq_some p s r).1 hs) (h r)

/-- the longest run of digits at the start -/
def takeDigits : List Char → List Char
  | [] => []
  | c :: cs => if isDig c then c :: takeDigits cs else []

theorem take_append_drop (r : List Char) : r = takeDigits r ++ dropDigits r := by
  induction r with
  | nil => rfl
  | cons c cs ih =>
    by_cases h : isDig c = true
    · simp only [takeDigits, dropDigits, h, if_true, List.cons_append]; rw [← ih]
    · simp [takeDigits, dropDigits, h]

theorem takeDigits_all (r : List Char) : ∀ c ∈ takeDigits r, isDig c = true := by
  induction r with
  | nil => intro c hc; cases hc
  | cons a as ih =>
    by_cases h : isDig a = true
    · simp only [takeDigits, h, if_true]
      intro c hc
      cases hc with
      | head => exact h
      | tail _ hc => exact ih c hc
    · simp [takeDigits, h]

/-- greedy star is exact when what follows starts with a non-digit -/
theorem dropDigits_append (ds : List Char) (t : Char) (ts : List Char)
    (hds : ∀ c ∈ ds, isDig c = true) (ht : isDig t = false) :
    dropDigits (ds ++ t :: ts) = t :: ts := by
  induction ds with
  | nil => simp [dropDigits, ht]
  | cons d ds ih =>
    have hd : isDig d = true := hds d (List.mem_cons_self ..)
    simp only [List.cons_append, dropDigits, hd, if_true]
    exact ih (fun c hc => hds c (List.mem_cons_of_mem _ hc))

theorem dropDigits_eq_iff (r : List Char) (t : Char) (ts : List Char) (ht : isDig t = false) :
    dropDigits r = t :: ts ↔ ∃ ds, (∀ c ∈ ds, isDig c = true) ∧ r = ds ++ t :: ts := by
  constructor
  · intro h
    refine ⟨takeDigits r, takeDigits_all r, ?_⟩
    have := take_append_drop r
    rw [h] at this; exact this
  · rintro ⟨ds, hds, rfl⟩
    exact dropDigits_append ds t ts hds ht

theorem dropDigits_dotdex (r : List Char) :
    (dropDigits r == litDotDex) = true ↔ ∃ ds, (∀ c ∈ ds, isDig c = true) ∧ r = ds ++ litDotDex := by
  rw [beq_iff_eq]
  exact dropDigits_eq_iff r '.' ['d', 'e', 'x'] (by decide)

/-- the two hand-compiled patterns accept the same strings -/
theorem multidexMatch_eq_dexMatch (n : Name) : multidexMatch n = dexMatch n := by
  unfold multidexMatch dexMatch
  cases stripPrefix litClasses n with
  | none => rfl
  | some r =>
    cases r with
    | nil => simp [dropDigits]
    | cons c cs =>
      by_cases h : isDig c = true
      · have hne : ((c :: cs) == litDotDex) = false := by
          apply Bool.eq_false_iff.2
          intro heq
          rw [beq_iff_eq] at heq
          have : c = '.' := by
            simp only [litDotDex] at heq
            exact (List.cons.inj heq).1
          subst this
          revert h; decide
        simp only [dropDigits, h, if_true, Bool.true_and, hne, Bool.or_false]
      · have h' : isDig c = false := by simpa using h
        simp [dropDigits, h']

theorem dexMatch_iff (n : Name) : dexMatch n = true ↔ IsDexName n := by
  unfold dexMatch IsDexName
  rw [← litClasses_eq, ← litDotDex_eq]
  constructor
  · intro h
    cases hs : stripPrefix litClasses n with
    | none => rw [hs] at h; cases h
    | some r =>
      rw [hs] at h
      obtain ⟨ds, hds, hr⟩ := (dropDigits_dotdex r).1 h
      refine ⟨ds, fun c hc => by rw [← isDig_eq_isDigit]; exact hds c hc, ?_⟩
      rw [(stripPrefix_eq_some _ _ _).1 hs, hr, List.append_assoc]
  · rintro ⟨ds, hds, rfl⟩
    have : stripPrefix litClasses (litClasses ++ ds ++ litDotDex) = some (ds ++ litDotDex) :=
      (stripPrefix_eq_some _ _ _).2 (List.append_assoc ..)
    rw [this]
    exact (dropDigits_dotdex _).2 ⟨ds, fun c hc => by rw [isDig_eq_isDigit]; exact hds c hc, rfl⟩

/-- every character of a DEX name is an ASCII digit or one of the letters of `classes.dex` -/
theorem IsDexName.chars {n : Name} (h : IsDexName n) :
    ∀ c ∈ n, c.isDigit = true ∨ c ∈ "clase.dx".toList := by
  obtain ⟨ds, hds, rfl⟩ := h
  intro c hc
  simp only [List.mem_append] at hc
  rcases hc with (hc | hc) | hc
  · right; revert c; decide
  · left; exact hds c hc
  · right; revert c; decide

theorem IsDexName.length {n : Name} (h : IsDexName n) : 11 ≤ n.length := by
  obtain ⟨ds, _, rfl⟩ := h
  simp only [List.length_append]
  have h1 : "classes".toList.length = 7 := by decide
  have h2 : ".dex".toList.length = 4 := by decide
  omega

/-! ### get_file -/

theorem getFile_of_not_mem (entries : List (Name × Bytes)) (n : Name)
    (h : n ∉ getFiles entries) : getFile entries n = .error .fileNotPresent := by
  induction entries with
  | nil => rfl
  | cons e rest ih =>
    obtain ⟨m, b⟩ := e
    simp only [getFiles, List.map_cons, List.mem_cons, not_or] at h
    have hm : ¬ m = n := fun q => h.1 q.symm
    simp only [getFile, hm, if_false]
    exact ih h.2

theorem getFile_of_mem (entries : List (Name × Bytes)) (n : Name) (b : Bytes)
    (hmem : (n, b) ∈ entries) (hnd : (getFiles entries).Nodup) : getFile entries n = .ok b := by
  induction entries with
  | nil => cases hmem
  | cons e rest ih =>
    obtain ⟨m, b'⟩ := e
    simp only [getFiles, List.map_cons, List.nodup_cons] at hnd
    by_cases hm : m = n
    · subst hm
      simp only [getFile, if_true]
      cases hmem with
      | head => rfl
      | tail _ hin =>
        exact absurd (List.mem_map.2 ⟨(m, b), hin, rfl⟩) hnd.1
    · simp only [getFile, hm, if_false]
      cases hmem with
      | head => exact absurd rfl hm
      | tail _ hin => exact ih hin hnd.2

theorem getFile_ok_mem (entries : List (Name × Bytes)) (n : Name) (b : Bytes)
    (h : getFile entries n = .ok b) : (n, b) ∈ entries := by
  induction entries with
  | nil => cases h
  | cons e rest ih =>
    obtain ⟨m, b'⟩ := e
    by_cases hm : m = n
    · subst hm
      simp only [getFile, if_true] at h
      cases h
      exact List.mem_cons_self ..
    · simp only [getFile, hm, if_false] at h
      exact List.mem_cons_of_mem _ (ih h)

/-- under distinct names, mapping `get_file` over a sub-selection of the entries' names gives
    the selected entries' contents -/
theorem map_getFile_filter (p : Name → Bool) (all entries : List (Name × Bytes))
    (hsub : ∀ e ∈ entries, e ∈ all) (hnd : (getFiles all).Nodup) :
    ((getFiles entries).filter p).map (getFile all)
      = (entries.filter (fun e => p e.1)).map (fun e => .ok e.2) := by
  induction entries with
  | nil => rfl
  | cons e rest ih =>
    have ih' := ih (fun x hx => hsub x (List.mem_cons_of_mem _ hx))
    obtain ⟨m, b⟩ := e
    have hin : (m, b) ∈ all := hsub _ (List.mem_cons_self ..)
    simp only [getFiles, List.map_cons] at ih' ⊢
    by_cases hp : p m = true
    · simp only [List.filter_cons, hp, if_true, List.map_cons]
      rw [getFile_of_mem all m b hin hnd, ih']
    · simp only [List.filter_cons, hp]
      simpa using ih'

/-! ### a concrete archive for the non-vacuity examples of Props/C34 -/

/-- a concrete archive: nested name, look-alike, non-ASCII name, DEX names out of numeric order -/
def sample : List (Name × Bytes) :=
  [("classes10.dex".toList, [1, 2]), ("res/classes.dex".toList, [3]), ("classesXdex".toList, []),
   ("classes.dex".toList, [100, 101, 120]), ("ü/ß.txt".toList, [255]), ("classes2.dex".toList, [])]

/-! ### the dict built from a central directory whose names may repeat, against Spec/ApkFiles -/
open AgVerif.Spec.ApkFiles (listed contentOf)

theorem keys_dictSet (d : List (Name × Bytes)) (k : Name) (v : Bytes) :
    (dictSet d k v).map Prod.fst = if k ∈ d.map Prod.fst then d.map Prod.fst else d.map Prod.fst ++ [k] := by
  induction d with
  | nil => simp [dictSet]
  | cons e d ih =>
    obtain ⟨m, b⟩ := e
    by_cases h : m = k
    · subst h; simp [dictSet]
    · have h' : ¬ k = m := fun e => h e.symm
      simp only [dictSet, h, ↓reduceIte, List.map_cons, ih, List.mem_cons, h', false_or]
      split <;> simp

theorem getFile_dictSet (d : List (Name × Bytes)) (k : Name) (v : Bytes) (n : Name) :
    getFile (dictSet d k v) n = if k = n then .ok v else getFile d n := by
  induction d with
  | nil => simp [dictSet, getFile]
  | cons e d ih =>
    obtain ⟨m, b⟩ := e
    by_cases h : m = k
    · subst h
      by_cases hn : m = n <;> simp [dictSet, getFile, hn]
    · simp only [dictSet, h, ↓reduceIte, getFile, ih]
      by_cases hn : m = n
      · have : ¬ k = n := fun e => h (hn.trans e.symm)
        simp [hn, this]
      · simp [hn]

theorem keys_fold (cd d : List (Name × Bytes)) :
    (cd.foldl (fun d e => dictSet d e.1 e.2) d).map Prod.fst =
      d.map Prod.fst ++ (listed (cd.map Prod.fst)).filter (fun n => decide (n ∉ d.map Prod.fst)) := by
  induction cd generalizing d with
  | nil => simp [listed]
  | cons e cd ih =>
    simp only [List.foldl_cons, ih, keys_dictSet, List.map_cons, listed]
    by_cases h : e.1 ∈ d.map Prod.fst
    · simp only [h, ↓reduceIte, List.filter_cons, not_true_eq_false, decide_false, Bool.false_eq_true,
        List.filter_filter]
      congr 1
      apply List.filter_congr
      intro x _
      by_cases hx : x ∈ d.map Prod.fst
      · simp [hx]
      · have : x ≠ e.1 := fun e' => hx (e' ▸ h)
        simp [hx, this]
    · simp only [h, ↓reduceIte, List.filter_cons, not_false_eq_true, decide_true, List.filter_filter,
        List.append_assoc, List.singleton_append]
      congr 2
      apply List.filter_congr
      intro x _
      simp only [List.mem_append, List.mem_singleton, not_or, Bool.decide_and]

theorem dictOf_keys (cd : List (Name × Bytes)) :
    getFiles (dictOf cd) = listed (cd.map Prod.fst) := by
  simp [getFiles, dictOf, keys_fold]

theorem getFile_fold (cd d : List (Name × Bytes)) (n : Name) :
    getFile (cd.foldl (fun d e => dictSet d e.1 e.2) d) n =
      match contentOf cd n with
      | some b => .ok b
      | none => getFile d n := by
  induction cd generalizing d with
  | nil => simp [contentOf]
  | cons e cd ih =>
    obtain ⟨m, b⟩ := e
    simp only [List.foldl_cons, ih, contentOf]
    cases contentOf cd n with
    | some b' => rfl
    | none =>
      simp only [getFile_dictSet]
      by_cases h : m = n <;> simp [h]

theorem dictOf_getFile (cd : List (Name × Bytes)) (n : Name) :
    getFile (dictOf cd) n =
      match contentOf cd n with
      | some b => .ok b
      | none => .error .fileNotPresent := by
  rw [dictOf, getFile_fold]; rfl

/-! facts about the specification's own definitions (so that `listed` / `contentOf` mean what they say) -/
theorem mem_listed (ns : List Name) (n : Name) : n ∈ listed ns ↔ n ∈ ns := by
  induction ns with
  | nil => simp [listed]
  | cons m ns ih =>
    simp only [listed, List.mem_cons, List.mem_filter, ih, decide_eq_true_eq]
    by_cases h : n = m <;> simp [h]

theorem listed_nodup (ns : List Name) : (listed ns).Nodup := by
  induction ns with
  | nil => simp [listed]
  | cons m ns ih =>
    simp only [listed, List.nodup_cons, List.mem_filter, decide_eq_true_eq, ne_eq, not_true_eq_false,
      and_false, not_false_eq_true, true_and]
    exact ih.sublist List.filter_sublist

theorem listed_sublist (ns : List Name) : (listed ns).Sublist ns := by
  induction ns with
  | nil => simp [listed]
  | cons m ns ih =>
    simp only [listed]
    exact (List.filter_sublist.trans ih).cons_cons m

theorem listed_of_nodup (ns : List Name) (h : ns.Nodup) : listed ns = ns := by
  induction ns with
  | nil => rfl
  | cons m ns ih =>
    rw [List.nodup_cons] at h
    simp only [listed, ih h.2]
    congr 1
    apply List.filter_eq_self.2
    intro x hx
    simp only [decide_eq_true_eq]
    exact fun e => h.1 (e ▸ hx)

theorem contentOf_eq_none (cd : List (Name × Bytes)) (n : Name) :
    contentOf cd n = none ↔ n ∉ cd.map Prod.fst := by
  induction cd with
  | nil => simp [contentOf]
  | cons e cd ih =>
    obtain ⟨m, b⟩ := e
    simp only [contentOf, List.map_cons, List.mem_cons, not_or]
    cases h : contentOf cd n with
    | some b' =>
      have : n ∈ cd.map Prod.fst := by
        apply Classical.byContradiction
        intro hc; rw [ih.2 hc] at h; cases h
      simp [this]
    | none =>
      have := ih.1 h
      by_cases hm : m = n
      · simp [hm]
      · have hm' : ¬ n = m := fun e => hm e.symm
        simp [hm, hm', this]

/-- the LAST header of a name decides its content -/
theorem contentOf_last (pre post : List (Name × Bytes)) (n : Name) (b : Bytes)
    (h : n ∉ post.map Prod.fst) : contentOf (pre ++ (n, b) :: post) n = some b := by
  induction pre with
  | nil => simp [contentOf, (contentOf_eq_none post n).2 h]
  | cons e pre ih =>
    obtain ⟨m, b'⟩ := e
    simp [contentOf, ih]

theorem getAllDex_dictOf (cd : List (Name × Bytes)) :
    getAllDex (dictOf cd) = (dexNames (listed (cd.map Prod.fst))).map (fun n =>
      match contentOf cd n with
      | some b => .ok b
      | none => .error .fileNotPresent) := by
  simp only [getAllDex, dictOf_keys]
  apply List.map_congr_left
  intro n _
  exact dictOf_getFile cd n

end AgVerif.ApkFiles
