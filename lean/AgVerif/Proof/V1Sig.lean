/-
Lemmas about the v1 signature model (AgVerif.V1Sig): the signed-attributes dictionary, soundness of
verify_signer_info_against_sig_file, and the shape of the loop over the SignerInfos.
-/
import AgVerif.Model.V1Sig
namespace AgVerif.V1Sig
open AgVerif.Gen

/-! ### specification vocabulary -/

/-- What it means for certificate `c` to verify SignerInfo `si` against the .SF bytes `inp.sf`
    (the statement of the v1 scheme, in terms of the cryptographic parameters). -/
def Verifies (cr : Crypto) (inp : Input) (si : SignerInfo) (c : Cert) : Prop :=
  ∃ fn cls, hashLookup si.digestAlg = some (fn, cls) ∧
    ((attrsOf si = [] ∧ cr.verify c.key si.sig inp.sf cls = .ok) ∨
     (attrsOf si ≠ [] ∧ ((attrsOf si).map (·.oid)).Nodup ∧
       (contentTypeChecked inp.maxSdk = true →
          ∃ a ∈ attrsOf si, a.oid = V1SigTables.contentTypeOid ∧ a.values.head? = some inp.encap) ∧
       (∃ a ∈ attrsOf si, a.oid = V1SigTables.messageDigestOid ∧
          a.values.head? = some (.oct (cr.digest fn inp.sf))) ∧
       cr.verify c.key si.sig (retag si.attrsDump) cls = .ok))

/-- no SignerInfo of the list makes verify_signer_info_against_sig_file raise -/
def NoRaise (cr : Crypto) (inp : Input) (l : List SignerInfo) : Prop :=
  ∀ s ∈ l, ∀ e, verifySI cr inp s ≠ .raised e

/-! ### the signed-attributes dictionary -/

theorem attrsDict_spec : ∀ (l : List Attr) (acc d : List (String × List AVal)),
    attrsDict l acc = some d →
      d = acc ++ l.map (fun a => (a.oid, a.values)) ∧ (l.map (·.oid)).Nodup ∧
      ∀ a ∈ l, a.oid ∉ acc.map (·.1)
  | [], acc, d, h => by
    simp [attrsDict] at h; subst h; simp
  | a :: rest, acc, d, h => by
    unfold attrsDict at h
    split at h
    · simp at h
    · rename_i hany
      have ih := attrsDict_spec rest (acc ++ [(a.oid, a.values)]) d h
      obtain ⟨hd, hnd, hnot⟩ := ih
      have ha : a.oid ∉ acc.map (·.1) := by
        intro hm
        apply hany
        simp only [List.any_eq_true, beq_iff_eq]
        obtain ⟨p, hp, hpe⟩ := List.mem_map.mp hm
        exact ⟨p, hp, hpe⟩
      refine ⟨?_, ?_, ?_⟩
      · simp [hd]
      · simp only [List.map_cons, List.nodup_cons]
        refine ⟨?_, hnd⟩
        intro hm
        obtain ⟨b, hb, hbe⟩ := List.mem_map.mp hm
        have := hnot b hb
        apply this
        simp [hbe]
      · intro b hb
        cases hb with
        | head => exact ha
        | tail _ hb' =>
          have := hnot b hb'
          intro hm
          apply this
          simp only [List.map_append, List.mem_append]
          exact Or.inl hm

theorem attrsDict_nil_spec (l : List Attr) (d : List (String × List AVal))
    (h : attrsDict l [] = some d) :
    d = l.map (fun a => (a.oid, a.values)) ∧ (l.map (·.oid)).Nodup := by
  have := attrsDict_spec l [] d h
  simpa using ⟨this.1, this.2.1⟩

theorem dictGet_map (l : List Attr) (oid : String) (vs : List AVal)
    (h : dictGet (l.map (fun a => (a.oid, a.values))) oid = some vs) :
    ∃ a ∈ l, a.oid = oid ∧ a.values = vs := by
  unfold dictGet at h
  split at h
  · rename_i p hp
    simp only [Option.some.injEq] at h
    have hmem := List.mem_of_find?_eq_some hp
    have hpred := List.find?_some hp
    obtain ⟨a, ha, hae⟩ := List.mem_map.mp hmem
    refine ⟨a, ha, ?_, ?_⟩
    · have : p.1 = oid := by simpa using hpred
      rw [← this, ← hae]
    · rw [← h, ← hae]
  · simp at h

/-- with distinct OIDs the dictionary lookup finds exactly the attribute -/
theorem dictGet_of_mem : ∀ (l : List Attr) (a : Attr), a ∈ l → (l.map (·.oid)).Nodup →
    dictGet (l.map (fun a => (a.oid, a.values))) a.oid = some a.values
  | [], _, h, _ => by simp at h
  | b :: rest, a, h, hnd => by
    simp only [List.map_cons, List.nodup_cons] at hnd
    by_cases hba : b.oid = a.oid
    · have : b = a := by
        cases h with
        | head => rfl
        | tail _ h' =>
          exfalso; apply hnd.1
          exact List.mem_map.mpr ⟨a, h', hba.symm⟩
      subst this
      simp [dictGet]
    · have h' : a ∈ rest := by
        cases h with
        | head => exact absurd rfl hba
        | tail _ h' => exact h'
      have ih := dictGet_of_mem rest a h' hnd.2
      unfold dictGet at ih ⊢
      simp only [List.map_cons, List.find?]
      have : ((b.oid, b.values).1 == a.oid) = false := by simpa using hba
      rw [this]
      exact ih

/-! ### verify_signature / verify_signer_info_against_sig_file -/

theorem verifyWith_verified {cr : Crypto} {c c' : Cert} {si : SignerInfo} {msg : Bytes} {cls : String}
    (h : verifyWith cr c si msg cls = .verified c') : c' = c ∧ cr.verify c.key si.sig msg cls = .ok := by
  unfold verifyWith at h
  split at h
  · rename_i hv; simp at h; exact ⟨h.symm, hv⟩
  · split at h <;> simp at h

theorem verifyWith_ok {cr : Crypto} {c : Cert} {si : SignerInfo} {msg : Bytes} {cls : String}
    (h : cr.verify c.key si.sig msg cls = .ok) : verifyWith cr c si msg cls = .verified c := by
  unfold verifyWith; rw [h]

theorem verifyWith_not_ok {cr : Crypto} {c : Cert} {si : SignerInfo} {msg : Bytes} {cls : String}
    (h : cr.verify c.key si.sig msg cls ≠ .ok) (c' : Cert) : verifyWith cr c si msg cls ≠ .verified c' := by
  intro hv; exact h (verifyWith_verified hv).2

/-- soundness of the signed-attributes branch -/
theorem verifyAttrs_verified {cr : Crypto} {inp : Input} {c c' : Cert} {si : SignerInfo} {fn cls : String}
    {l : List Attr} (h : verifyAttrs cr inp c si fn cls (l.map (fun a => (a.oid, a.values))) = .verified c') :
    c' = c ∧
    (contentTypeChecked inp.maxSdk = true →
        ∃ a ∈ l, a.oid = V1SigTables.contentTypeOid ∧ a.values.head? = some inp.encap) ∧
    (∃ a ∈ l, a.oid = V1SigTables.messageDigestOid ∧ a.values.head? = some (.oct (cr.digest fn inp.sf))) ∧
    cr.verify c.key si.sig (retag si.attrsDump) cls = .ok := by
  unfold verifyAttrs at h
  simp only at h
  -- content type part
  have hct : (contentTypeChecked inp.maxSdk = true →
        ∃ a ∈ l, a.oid = V1SigTables.contentTypeOid ∧ a.values.head? = some inp.encap) ∧
      (match dictGet (l.map (fun a => (a.oid, a.values))) V1SigTables.messageDigestOid with
        | none => SIRes.raised valueError
        | some [] => SIRes.raised indexError
        | some (v :: _) =>
          if AVal.oct (cr.digest fn inp.sf) = v then verifyWith cr c si (retag si.attrsDump) cls
          else SIRes.notVerified) = .verified c' := by
    cases hc : contentTypeChecked inp.maxSdk with
    | false => simp [hc] at h; exact ⟨by simp, h⟩
    | true =>
      simp only [hc, if_true] at h
      cases hg : dictGet (l.map (fun a => (a.oid, a.values))) V1SigTables.contentTypeOid with
      | none => simp [hg] at h
      | some vs =>
        cases vs with
        | nil => simp [hg] at h
        | cons v vs' =>
          simp only [hg] at h
          by_cases hve : v = inp.encap
          · simp [hve] at h
            obtain ⟨a, ha, hao, hav⟩ := dictGet_map l _ _ hg
            exact ⟨fun _ => ⟨a, ha, hao, by simp [hav, hve]⟩, h⟩
          · simp [hve] at h
  obtain ⟨hct1, h2⟩ := hct
  cases hg : dictGet (l.map (fun a => (a.oid, a.values))) V1SigTables.messageDigestOid with
  | none => simp [hg] at h2
  | some vs =>
    cases vs with
    | nil => simp [hg] at h2
    | cons v vs' =>
      simp only [hg] at h2
      by_cases hd : AVal.oct (cr.digest fn inp.sf) = v
      · simp [hd] at h2
        obtain ⟨a, ha, hao, hav⟩ := dictGet_map l _ _ hg
        have := verifyWith_verified h2
        exact ⟨this.1, hct1, ⟨a, ha, hao, by simp [hav, hd]⟩, this.2⟩
      · simp [hd] at h2

/-- soundness: a SignerInfo is reported as verified only with the certificate its sid selects, and only
    if that certificate's key verifies the right bytes -/
theorem verifySI_verified {cr : Crypto} {inp : Input} {si : SignerInfo} {c : Cert}
    (h : verifySI cr inp si = .verified c) : findCert inp.certs si = some c ∧ Verifies cr inp si c := by
  unfold verifySI at h
  cases hh : hashLookup si.digestAlg with
  | none => simp [hh] at h
  | some p =>
    obtain ⟨fn, cls⟩ := p
    simp only [hh] at h
    cases hf : findCert inp.certs si with
    | none => simp [hf] at h
    | some c0 =>
      simp only [hf] at h
      cases ha : attrsOf si with
      | nil =>
        simp only [ha] at h
        have := verifyWith_verified h
        refine ⟨by rw [this.1], fn, cls, hh, Or.inl ⟨ha, ?_⟩⟩
        rw [this.1]; exact this.2
      | cons a as =>
        simp only [ha] at h
        cases hd : attrsDict (a :: as) [] with
        | none => simp [hd] at h
        | some d =>
          simp only [hd] at h
          obtain ⟨hde, hnd⟩ := attrsDict_nil_spec _ _ hd
          rw [hde] at h
          obtain ⟨hc, h1, h2, h3⟩ := verifyAttrs_verified h
          subst hc
          refine ⟨rfl, fn, cls, hh, Or.inr ⟨by simp [ha], ?_, ?_, ?_, h3⟩⟩
          · rw [ha]; exact hnd
          · rw [ha]; exact h1
          · rw [ha]; exact h2

/-- completeness: when the sid selects `c` and `c` verifies, the SignerInfo is reported as verified with `c` -/
theorem verifySI_of_verifies {cr : Crypto} {inp : Input} {si : SignerInfo} {c : Cert}
    (hf : findCert inp.certs si = some c) (hv : Verifies cr inp si c) : verifySI cr inp si = .verified c := by
  obtain ⟨fn, cls, hh, hcase⟩ := hv
  unfold verifySI
  simp only [hh, hf]
  rcases hcase with ⟨ha, hok⟩ | ⟨hne, hnd, h1, h2, hok⟩
  · simp only [ha]; exact verifyWith_ok hok
  · cases ha : attrsOf si with
    | nil => exact absurd ha hne
    | cons a as =>
      simp only []
      rw [ha] at hnd h1 h2
      have hdict : attrsDict (a :: as) [] = some ((a :: as).map (fun a => (a.oid, a.values))) := by
        cases hd : attrsDict (a :: as) [] with
        | some d => rw [(attrsDict_nil_spec _ _ hd).1]
        | none =>
          exfalso
          -- attrsDict fails only on a duplicate
          have key : ∀ (l : List Attr) (acc : List (String × List AVal)),
              (l.map (·.oid)).Nodup → (∀ x ∈ l, x.oid ∉ acc.map (·.1)) → attrsDict l acc ≠ none := by
            intro l
            induction l with
            | nil => intro acc _ _; simp [attrsDict]
            | cons b rest ih =>
              intro acc hnd hdis
              unfold attrsDict
              have hb : (acc.any fun p => p.1 == b.oid) = false := by
                cases hx : acc.any fun p => p.1 == b.oid with
                | false => rfl
                | true =>
                  exfalso
                  simp only [List.any_eq_true, beq_iff_eq] at hx
                  obtain ⟨p, hp, hpe⟩ := hx
                  exact hdis b (List.mem_cons_self) (List.mem_map.mpr ⟨p, hp, hpe⟩)
              simp only [hb]
              simp only [List.map_cons, List.nodup_cons] at hnd
              apply ih _ hnd.2
              intro x hx hm
              simp only [List.map_append, List.mem_append, List.map_cons, List.map_nil,
                List.mem_singleton] at hm
              rcases hm with hm | hm
              · exact hdis x (List.mem_cons_of_mem _ hx) hm
              · exact hnd.1 (List.mem_map.mpr ⟨x, hx, hm⟩)
          exact key (a :: as) [] hnd (by simp) hd
      simp only [hdict]
      obtain ⟨a2, ha2, ho2, hv2⟩ := h2
      have g2 := dictGet_of_mem _ a2 ha2 hnd
      rw [ho2] at g2
      cases hvals2 : a2.values with
      | nil => simp [hvals2] at hv2
      | cons v2 r2 =>
        simp only [hvals2, List.head?_cons, Option.some.injEq] at hv2
        rw [hvals2] at g2
        cases hct : contentTypeChecked inp.maxSdk with
        | false =>
          unfold verifyAttrs
          simp only [hct, g2, hv2]
          simp
          exact verifyWith_ok hok
        | true =>
          obtain ⟨a1, ha1, ho1, hv1⟩ := h1 hct
          have g1 := dictGet_of_mem _ a1 ha1 hnd
          rw [ho1] at g1
          cases hvals1 : a1.values with
          | nil => simp [hvals1] at hv1
          | cons v1 r1 =>
            simp only [hvals1, List.head?_cons, Option.some.injEq] at hv1
            rw [hvals1] at g1
            unfold verifyAttrs
            simp only [hct, if_true, g1, g2, hv1, hv2]
            exact verifyWith_ok hok

/-! ### the loop over the SignerInfos -/

theorem loop_acc_cons {cr : Crypto} {inp : Input} : ∀ (l : List SignerInfo) (a : Cert) (as : List Cert),
    NoRaise cr inp l → loop cr inp l (a :: as) = .cert a
  | [], a, as, _ => by simp [loop]
  | s :: rest, a, as, h => by
    have hs := h s (List.mem_cons_self)
    have hr : NoRaise cr inp rest := fun x hx => h x (List.mem_cons_of_mem _ hx)
    unfold loop
    cases hv : verifySI cr inp s with
    | raised e => exact absurd hv (hs e)
    | verified c => simp only [List.cons_append]; exact loop_acc_cons rest a _ hr
    | notVerified => exact loop_acc_cons rest a as hr

theorem loop_acc_cons_cert {cr : Crypto} {inp : Input} : ∀ (l : List SignerInfo) (a : Cert) (as : List Cert) (c : Cert),
    loop cr inp l (a :: as) = .cert c → c = a ∧ NoRaise cr inp l
  | [], a, as, c, h => by
    simp [loop] at h; exact ⟨h.symm, fun _ hx => by simp at hx⟩
  | s :: rest, a, as, c, h => by
    unfold loop at h
    cases hv : verifySI cr inp s with
    | raised e => simp only [hv] at h; split at h <;> simp at h
    | verified c' =>
      simp only [hv, List.cons_append] at h
      obtain ⟨h1, h2⟩ := loop_acc_cons_cert rest a _ c h
      refine ⟨h1, ?_⟩
      intro x hx e
      cases hx with
      | head => rw [hv]; simp
      | tail _ hx' => exact h2 x hx' e
    | notVerified =>
      simp only [hv] at h
      obtain ⟨h1, h2⟩ := loop_acc_cons_cert rest a as c h
      refine ⟨h1, ?_⟩
      intro x hx e
      cases hx with
      | head => rw [hv]; simp
      | tail _ hx' => exact h2 x hx' e

/-- the loop reports `c` exactly when the first SignerInfo that verifies does so with `c`, all earlier ones
    fail quietly, and none of the tried ones raises -/
theorem loop_nil_cert_iff {cr : Crypto} {inp : Input} : ∀ (l : List SignerInfo) (c : Cert),
    loop cr inp l [] = .cert c ↔
      ∃ pre si post, l = pre ++ si :: post ∧ (∀ s ∈ pre, verifySI cr inp s = .notVerified) ∧
        verifySI cr inp si = .verified c ∧ NoRaise cr inp post
  | [], c => by
    simp [loop]
  | s :: rest, c => by
    constructor
    · intro h
      unfold loop at h
      cases hv : verifySI cr inp s with
      | raised e => simp only [hv] at h; split at h <;> simp at h
      | verified c' =>
        simp only [hv, List.nil_append] at h
        obtain ⟨h1, h2⟩ := loop_acc_cons_cert rest c' [] c h
        subst h1
        exact ⟨[], s, rest, rfl, by simp, hv, h2⟩
      | notVerified =>
        simp only [hv] at h
        obtain ⟨pre, si, post, hl, hp, hs, hn⟩ := (loop_nil_cert_iff rest c).mp h
        refine ⟨s :: pre, si, post, by simp [hl], ?_, hs, hn⟩
        intro x hx
        cases hx with
        | head => exact hv
        | tail _ hx' => exact hp x hx'
    · rintro ⟨pre, si, post, hl, hp, hs, hn⟩
      cases pre with
      | nil =>
        simp only [List.nil_append, List.cons.injEq] at hl
        obtain ⟨h1, h2⟩ := hl
        subst h1; subst h2
        unfold loop
        simp only [hs, List.nil_append]
        exact loop_acc_cons _ c [] hn
      | cons p pre' =>
        simp only [List.cons_append, List.cons.injEq] at hl
        obtain ⟨h1, h2⟩ := hl
        subst h1
        unfold loop
        have := hp s (List.mem_cons_self)
        simp only [this]
        exact (loop_nil_cert_iff rest c).mpr
          ⟨pre', si, post, h2, fun x hx => hp x (List.mem_cons_of_mem _ hx), hs, hn⟩

/-- an exception of a listed class raised for one SignerInfo makes the whole call return None, whatever
    was verified before it and whatever comes after it -/
theorem loop_caught {cr : Crypto} {inp : Input} : ∀ (pre : List SignerInfo) (si : SignerInfo) (post : List SignerInfo)
    (acc : List Cert) (e : Exc), NoRaise cr inp pre → verifySI cr inp si = .raised e →
    loop cr inp (pre ++ si :: post) acc =
      if catches V1SigTables.outerCaught e then .none else .raised e
  | [], si, post, acc, e, _, hs => by
    simp only [List.nil_append]; unfold loop; simp only [hs]
  | p :: pre, si, post, acc, e, hn, hs => by
    have hp := hn p (List.mem_cons_self)
    have hr : NoRaise cr inp pre := fun x hx => hn x (List.mem_cons_of_mem _ hx)
    simp only [List.cons_append]
    unfold loop
    cases hv : verifySI cr inp p with
    | raised e' => exact absurd hv (hp e')
    | verified c => exact loop_caught pre si post _ e hr hs
    | notVerified => exact loop_caught pre si post _ e hr hs

/-- a list splits at its first raising element, or nothing raises -/
theorem split_first_raise (cr : Crypto) (inp : Input) : ∀ (l : List SignerInfo),
    NoRaise cr inp l ∨ ∃ pre si post e, l = pre ++ si :: post ∧ NoRaise cr inp pre ∧ verifySI cr inp si = .raised e
  | [] => Or.inl (fun _ hx => by simp at hx)
  | s :: rest => by
    cases hv : verifySI cr inp s with
    | raised e => exact Or.inr ⟨[], s, rest, e, rfl, fun _ hx => by simp at hx, hv⟩
    | verified c =>
      rcases split_first_raise cr inp rest with h | ⟨pre, si, post, e, hl, hn, hs⟩
      · left; intro x hx e
        cases hx with
        | head => rw [hv]; simp
        | tail _ hx' => exact h x hx' e
      · right
        refine ⟨s :: pre, si, post, e, by simp [hl], ?_, hs⟩
        intro x hx e'
        cases hx with
        | head => rw [hv]; simp
        | tail _ hx' => exact hn x hx' e'
    | notVerified =>
      rcases split_first_raise cr inp rest with h | ⟨pre, si, post, e, hl, hn, hs⟩
      · left; intro x hx e
        cases hx with
        | head => rw [hv]; simp
        | tail _ hx' => exact h x hx' e
      · right
        refine ⟨s :: pre, si, post, e, by simp [hl], ?_, hs⟩
        intro x hx e'
        cases hx with
        | head => rw [hv]; simp
        | tail _ hx' => exact hn x hx' e'

/-- without a verified SignerInfo and without exceptions the result is None -/
theorem loop_none_of_all_notVerified {cr : Crypto} {inp : Input} : ∀ (l : List SignerInfo),
    (∀ s ∈ l, verifySI cr inp s = .notVerified) → loop cr inp l [] = .none
  | [], _ => by simp [loop]
  | s :: rest, h => by
    unfold loop
    simp only [h s (List.mem_cons_self)]
    exact loop_none_of_all_notVerified rest (fun x hx => h x (List.mem_cons_of_mem _ hx))

end AgVerif.V1Sig
