/-
Lemmas for C06 (MUTF-8 decoding, read_null_terminated_string).  Core Lean only.
-/
import AgVerif.Model.Mutf8
import AgVerif.Spec.Mutf8
import AgVerif.Proof.Bits
namespace AgVerif.Mutf8
open AgVerif.Spec.Mutf8 AgVerif.Bits

/-! ### bit operations on bytes, arithmetic normal form -/

theorem and_E0_eq_C0 (x : Nat) (h : x < 256) : (x &&& 0xE0 = 0xC0) ↔ (192 ≤ x ∧ x < 224) := by
  have key : ∀ y : Fin 256, (y.val &&& 0xE0 = 0xC0) ↔ (192 ≤ y.val ∧ y.val < 224) := by decide +kernel
  exact key ⟨x, h⟩

theorem and_F0_eq_E0 (x : Nat) (h : x < 256) : (x &&& 0xF0 = 0xE0) ↔ (224 ≤ x ∧ x < 240) := by
  have key : ∀ y : Fin 256, (y.val &&& 0xF0 = 0xE0) ↔ (224 ≤ y.val ∧ y.val < 240) := by decide +kernel
  exact key ⟨x, h⟩

theorem and_F0_eq_A0 (x : Nat) (h : x < 256) : (x &&& 0xF0 = 0xA0) ↔ (160 ≤ x ∧ x < 176) := by
  have key : ∀ y : Fin 256, (y.val &&& 0xF0 = 0xA0) ↔ (160 ≤ y.val ∧ y.val < 176) := by decide +kernel
  exact key ⟨x, h⟩

theorem and_F0_eq_B0 (x : Nat) (h : x < 256) : (x &&& 0xF0 = 0xB0) ↔ (176 ≤ x ∧ x < 192) := by
  have key : ∀ y : Fin 256, (y.val &&& 0xF0 = 0xB0) ↔ (176 ≤ y.val ∧ y.val < 192) := by decide +kernel
  exact key ⟨x, h⟩

theorem and_1F (x : Nat) : x &&& 0x1F = x % 32 := by simpa using and_mask x 5
theorem and_3F (x : Nat) : x &&& 0x3F = x % 64 := by simpa using and_mask x 6

/-- `x | y` is addition when `x` is a multiple of `2^k` and `y` fits below bit `k` -/
theorem or_add (x y k : Nat) (hx : x % 2 ^ k = 0) (hy : y < 2 ^ k) : x ||| y = x + y := by
  have hd : 2 ^ k * (x / 2 ^ k) = x := Nat.mul_div_cancel' (Nat.dvd_of_mod_eq_zero hx)
  rw [← hd, ← Nat.two_pow_add_eq_or_of_lt hy]

theorem val2 (x b : Nat) : ((x &&& 0x1F) <<< 6) ||| (b &&& 0x3F) = x % 32 * 64 + b % 64 := by
  rw [and_1F, and_3F, Nat.shiftLeft_eq]
  exact or_add _ _ 6 (by omega) (by omega)

theorem val3 (x b2 b3 : Nat) :
    ((x &&& 0x0F) <<< 12) ||| ((b2 &&& 0x3F) <<< 6) ||| (b3 &&& 0x3F)
      = x % 16 * 4096 + b2 % 64 * 64 + b3 % 64 := by
  rw [and_0F, and_3F, and_3F, Nat.shiftLeft_eq, Nat.shiftLeft_eq]
  have h1 : x % 16 * 2 ^ 12 ||| b2 % 64 * 2 ^ 6 = x % 16 * 2 ^ 12 + b2 % 64 * 2 ^ 6 :=
    or_add _ _ 12 (by omega) (by omega)
  rw [h1, or_add _ _ 6 (by omega) (by omega)]

theorem val6 (b2 b3 b5 b6 : Nat) :
    ((b2 &&& 0x0F) <<< 16) ||| ((b3 &&& 0x3F) <<< 10) ||| ((b5 &&& 0x0F) <<< 6) ||| (b6 &&& 0x3F)
      = b2 % 16 * 65536 + b3 % 64 * 1024 + b5 % 16 * 64 + b6 % 64 := by
  rw [and_0F, and_3F, and_0F, and_3F, Nat.shiftLeft_eq, Nat.shiftLeft_eq, Nat.shiftLeft_eq]
  have h1 : b2 % 16 * 2 ^ 16 ||| b3 % 64 * 2 ^ 10 = b2 % 16 * 2 ^ 16 + b3 % 64 * 2 ^ 10 :=
    or_add _ _ 16 (by omega) (by omega)
  have h2 : b2 % 16 * 2 ^ 16 + b3 % 64 * 2 ^ 10 ||| b5 % 16 * 2 ^ 6
      = b2 % 16 * 2 ^ 16 + b3 % 64 * 2 ^ 10 + b5 % 16 * 2 ^ 6 :=
    or_add _ _ 10 (by omega) (by omega)
  rw [h1, h2, or_add _ _ 6 (by omega) (by omega)]

/-! ### one iteration of the slow loop, by byte class -/

theorem step_ascii (x : Nat) (rest : List Nat) (h0 : 0 < x) (h : x < 128) :
    step x rest = .ok (x, 0) := by
  unfold step
  rw [if_neg (by omega), if_pos (by omega), and_7F, Nat.mod_eq_of_lt (by omega)]

theorem step_two (x b : Nat) (r : List Nat) (h1 : 192 ≤ x) (h2 : x < 224) :
    step x (b :: r) = .ok (x % 32 * 64 + b % 64, 1) := by
  unfold step
  rw [if_neg (by omega), if_neg (by omega), if_pos ((and_E0_eq_C0 x (by omega)).2 ⟨h1, h2⟩)]
  simp only [val2]

theorem step_two_short (x : Nat) (h1 : 192 ≤ x) (h2 : x < 224) : step x [] = .error .short2 := by
  unfold step
  rw [if_neg (by omega), if_neg (by omega), if_pos ((and_E0_eq_C0 x (by omega)).2 ⟨h1, h2⟩)]

/-- the condition under which the C code takes the six-byte branch -/
def SixCond (x b2 : Nat) (r : List Nat) : Prop :=
  x = 0xED ∧ (160 ≤ b2 ∧ b2 < 176) ∧ ∃ b5 b6 t, r = 0xED :: b5 :: b6 :: t ∧ 176 ≤ b5 ∧ b5 < 192

theorem step_three (x b2 b3 : Nat) (r : List Nat) (h1 : 224 ≤ x) (h2 : x < 240)
    (hb2 : b2 < 256) (hr : ∀ b ∈ r, b < 256) (hn : ¬ SixCond x b2 r) :
    step x (b2 :: b3 :: r) = .ok (x % 16 * 4096 + b2 % 64 * 64 + b3 % 64, 2) := by
  unfold step
  rw [if_neg (by omega), if_neg (by omega),
    if_neg (fun h => by have := (and_E0_eq_C0 x (by omega)).1 h; omega),
    if_pos ((and_F0_eq_E0 x (by omega)).2 ⟨h1, h2⟩)]
  rcases r with _ | ⟨b4, _ | ⟨b5, _ | ⟨b6, t⟩⟩⟩
  · simp only [val3]
  · simp only [val3]
  · simp only [val3]
  · have hb5 : b5 < 256 := hr b5 (by simp)
    simp only []
    rw [if_neg, val3]
    rintro ⟨hx, hA, h4, hB⟩
    exact hn ⟨hx, (and_F0_eq_A0 b2 hb2).1 hA, b5, b6, t, by rw [h4], (and_F0_eq_B0 b5 hb5).1 hB⟩

theorem step_three_short (x : Nat) (rest : List Nat) (h1 : 224 ≤ x) (h2 : x < 240)
    (hl : rest.length < 2) : step x rest = .error .short3 := by
  unfold step
  rw [if_neg (by omega), if_neg (by omega),
    if_neg (fun h => by have := (and_E0_eq_C0 x (by omega)).1 h; omega),
    if_pos ((and_F0_eq_E0 x (by omega)).2 ⟨h1, h2⟩)]
  rcases rest with _ | ⟨a, _ | ⟨b, t⟩⟩
  · rfl
  · rfl
  · simp at hl; omega

theorem step_six (b2 b3 b5 b6 : Nat) (t : List Nat) (hb2 : b2 < 256) (hb5 : b5 < 256)
    (hA : 160 ≤ b2 ∧ b2 < 176) (hB : 176 ≤ b5 ∧ b5 < 192) :
    step 0xED (b2 :: b3 :: 0xED :: b5 :: b6 :: t)
      = .ok (0x10000 + (b2 % 16 * 65536 + b3 % 64 * 1024 + b5 % 16 * 64 + b6 % 64), 5) := by
  unfold step
  rw [if_neg (by omega), if_neg (by omega), if_neg (by decide), if_pos (by decide)]
  simp only []
  rw [if_pos ⟨trivial, (and_F0_eq_A0 b2 hb2).2 hA, trivial, (and_F0_eq_B0 b5 hb5).2 hB⟩, val6]

/-- any other byte (80..BF, F0..FF) is emitted as its own value -/
theorem step_other (x : Nat) (rest : List Nat) (hx : x < 256)
    (h : (128 ≤ x ∧ x < 192) ∨ 240 ≤ x) : step x rest = .ok (x, 0) := by
  unfold step
  rw [if_neg (by omega), if_neg (by omega),
    if_neg (fun h' => by have := (and_E0_eq_C0 x hx).1 h'; omega),
    if_neg (fun h' => by have := (and_F0_eq_E0 x hx).1 h'; omega)]

theorem slow_nil : slow [] = .ok [] := by rw [slow]

theorem slow_cons_ok {x : Nat} {rest : List Nat} {cp k : Nat} {cps : List Nat}
    (h1 : step x rest = .ok (cp, k)) (h2 : slow (rest.drop k) = .ok cps) :
    slow (x :: rest) = .ok (cp :: cps) := by
  rw [slow, h1]; simp only []; rw [h2]

theorem slow_cons_err {x : Nat} {rest : List Nat} {e : Err}
    (h1 : step x rest = .error e) : slow (x :: rest) = .error e := by
  rw [slow, h1]

/-! ### the specification's encoder -/

theorem encodeUnit_bytes (c : Nat) (hc : c < 65536) : ∀ b ∈ encodeUnit c, 0 < b ∧ b < 240 := by
  intro b hb
  unfold encodeUnit at hb
  split at hb
  · simp at hb; omega
  · split at hb
    · simp at hb; omega
    · split at hb
      · simp at hb; omega
      · simp at hb; omega

theorem encode_bytes : ∀ (u : List Nat), (∀ c ∈ u, c < 65536) → ∀ b ∈ encode u, 0 < b ∧ b < 240
  | [], _, b, hb => by simp [encode] at hb
  | c :: cs, hu, b, hb => by
    simp only [encode, List.mem_append] at hb
    rcases hb with hb | hb
    · exact encodeUnit_bytes c (hu c (by simp)) b hb
    · exact encode_bytes cs (fun x hx => hu x (by simp [hx])) b hb

theorem zero_not_mem_encode (u : List Nat) (hu : ∀ c ∈ u, c < 65536) : 0 ∉ encode u := by
  intro h; have := (encode_bytes u hu 0 h).1; omega

/-- the bytes after a high surrogate do not look like a low surrogate unless one follows -/
theorem encode_not_low_head (cs : List Nat) (hcs : ∀ c ∈ cs, c < 65536)
    (h : ∀ l t, cs = l :: t → ¬ IsLow l) :
    ¬ ∃ b5 b6 t, encode cs = 0xED :: b5 :: b6 :: t ∧ 176 ≤ b5 ∧ b5 < 192 := by
  rintro ⟨b5, b6, t, he, h5, h5'⟩
  cases cs with
  | nil => simp [encode] at he
  | cons l tl =>
    have hl : l < 65536 := hcs l (by simp)
    have hnl : ¬ IsLow l := h l tl rfl
    unfold IsLow at hnl
    simp only [encode, encodeUnit] at he
    split at he
    · simp at he
    · split at he
      · simp at he; omega
      · split at he
        · simp at he; omega
        · simp at he; omega

theorem utf16_unit (c : Nat) (hc : c < 65536) : utf16 c = [c] := by
  unfold utf16; rw [if_pos hc]

/-- slow loop on the encoding of any UTF-16 unit sequence: succeeds, and the resulting
    code points are exactly that sequence in UTF-16 -/
theorem slow_encode : ∀ (n : Nat) (u : List Nat), u.length ≤ n → (∀ c ∈ u, c < 65536) →
    ∃ cps, slow (encode u) = .ok cps ∧ utf16s cps = u := by
  intro n
  induction n with
  | zero =>
    intro u hl _
    have : u = [] := List.eq_nil_of_length_eq_zero (by omega)
    subst this
    exact ⟨[], slow_nil, rfl⟩
  | succ n ih =>
    intro u hl hu
    cases u with
    | nil => exact ⟨[], slow_nil, rfl⟩
    | cons c cs =>
      have hc : c < 65536 := hu c (by simp)
      have hcs : ∀ x ∈ cs, x < 65536 := fun x hx => hu x (by simp [hx])
      have hlen : cs.length ≤ n := by simp at hl; omega
      by_cases h0 : c = 0
      · -- C0 80
        subst h0
        obtain ⟨cps, h1, h2⟩ := ih cs hlen hcs
        have hs : step 0xC0 (0x80 :: encode cs) = .ok (0, 1) := by
          rw [step_two 0xC0 0x80 _ (by omega) (by omega)]
        refine ⟨0 :: cps, ?_, ?_⟩
        · show slow (0xC0 :: 0x80 :: encode cs) = _
          exact slow_cons_ok hs (by simpa using h1)
        · simp [utf16s, utf16, h2]
      · by_cases h1b : c < 0x80
        · obtain ⟨cps, h1, h2⟩ := ih cs hlen hcs
          refine ⟨c :: cps, ?_, ?_⟩
          · have he : encode (c :: cs) = c :: encode cs := by
              simp [encode, encodeUnit, h0, h1b]
            rw [he]
            exact slow_cons_ok (step_ascii c _ (by omega) h1b) (by simpa using h1)
          · simp [utf16s, utf16_unit c hc, h2]
        · by_cases h2b : c < 0x800
          · obtain ⟨cps, h1, h2⟩ := ih cs hlen hcs
            refine ⟨c :: cps, ?_, ?_⟩
            · have he : encode (c :: cs) = (0xC0 + c / 64) :: (0x80 + c % 64) :: encode cs := by
                simp [encode, encodeUnit, h0, h1b, h2b]
              rw [he]
              have hs := step_two (0xC0 + c / 64) (0x80 + c % 64) (encode cs) (by omega) (by omega)
              have hv : (0xC0 + c / 64) % 32 * 64 + (0x80 + c % 64) % 64 = c := by omega
              rw [hv] at hs
              exact slow_cons_ok hs (by simpa using h1)
            · simp [utf16s, utf16_unit c hc, h2]
          · -- three-byte form
            have he : encode (c :: cs)
                = (0xE0 + c / 4096) :: (0x80 + c / 64 % 64) :: (0x80 + c % 64) :: encode cs := by
              simp [encode, encodeUnit, h0, h1b, h2b]
            by_cases hsix : IsHigh c ∧ ∃ l t, cs = l :: t ∧ IsLow l
            · obtain ⟨hh, l, t, hcs', hlow⟩ := hsix
              subst hcs'
              unfold IsHigh at hh
              unfold IsLow at hlow
              have hl' : l < 65536 := hcs l (by simp)
              have ht : ∀ x ∈ t, x < 65536 := fun x hx => hcs x (by simp [hx])
              have htl : t.length ≤ n := by simp at hlen; omega
              obtain ⟨cps, h1, h2⟩ := ih t htl ht
              have he2 : encode (c :: l :: t)
                  = 0xED :: (0x80 + c / 64 % 64) :: (0x80 + c % 64) :: 0xED ::
                    (0x80 + l / 64 % 64) :: (0x80 + l % 64) :: encode t := by
                have e1 : 0xE0 + c / 4096 = 0xED := by omega
                have e2 : 0xE0 + l / 4096 = 0xED := by omega
                have hl0 : ¬ l = 0 := by omega
                have hl1 : ¬ l < 0x80 := by omega
                have hl2 : ¬ l < 0x800 := by omega
                rw [he]
                simp [encode, encodeUnit, hl0, hl1, hl2, e1, e2]
              have hs := step_six (0x80 + c / 64 % 64) (0x80 + c % 64) (0x80 + l / 64 % 64)
                (0x80 + l % 64) (encode t) (by omega) (by omega) (by omega) (by omega)
              refine ⟨(0x10000 + ((0x80 + c / 64 % 64) % 16 * 65536 + (0x80 + c % 64) % 64 * 1024
                + (0x80 + l / 64 % 64) % 16 * 64 + (0x80 + l % 64) % 64)) :: cps, ?_, ?_⟩
              · rw [he2]
                exact slow_cons_ok hs (by simpa using h1)
              · simp only [utf16s, h2, utf16]
                rw [if_neg (by omega)]
                simp only [List.cons_append, List.nil_append, List.cons.injEq, and_true]
                constructor <;> omega
            · obtain ⟨cps, h1, h2⟩ := ih cs hlen hcs
              refine ⟨c :: cps, ?_, ?_⟩
              · rw [he]
                have hn : ¬ SixCond (0xE0 + c / 4096) (0x80 + c / 64 % 64) (encode cs) := by
                  rintro ⟨hx, hA, hE⟩
                  have hh : IsHigh c := by unfold IsHigh; omega
                  refine encode_not_low_head cs hcs ?_ hE
                  intro l t hlt hlow
                  exact hsix ⟨hh, l, t, hlt, hlow⟩
                have hs := step_three (0xE0 + c / 4096) (0x80 + c / 64 % 64) (0x80 + c % 64)
                  (encode cs) (by omega) (by omega) (by omega)
                  (fun b hb => by have := (encode_bytes cs hcs b hb).2; omega) hn
                have hv : (0xE0 + c / 4096) % 16 * 4096 + (0x80 + c / 64 % 64) % 64 * 64
                    + (0x80 + c % 64) % 64 = c := by omega
                rw [hv] at hs
                exact slow_cons_ok hs (by simpa using h1)
              · simp [utf16s, utf16_unit c hc, h2]

/-! ### the fast path (CPython's strict UTF-8 decoder) agrees with the slow loop
     whenever it is eligible, succeeds, and no four-byte lead is present -/

def FastByte (b : Nat) : Prop := b < 0xF0 ∧ b ≠ 0xED ∧ b ≠ 0xC0 ∧ b ≠ 0

theorem strictStep_agrees (x : Nat) (rest : List Nat) (cp k : Nat) (hx : FastByte x)
    (hr : ∀ b ∈ rest, b < 256) (h : strictStep x rest = some (cp, k)) :
    step x rest = .ok (cp, k) := by
  obtain ⟨hx1, hx2, hx3, hx4⟩ := hx
  unfold strictStep at h
  split at h
  · injection h with h; injection h with ha hb; subst ha; subst hb
    exact step_ascii _ _ (by omega) (by assumption)
  · split at h
    · rename_i h2
      split at h
      · rename_i b2 r
        split at h
        · injection h with h; injection h with ha hb; subst ha; subst hb
          exact step_two x b2 r (by omega) (by omega)
        · cases h
      · cases h
    · split at h
      · rename_i h3
        split at h
        · rename_i b2 b3 r
          split at h
          · injection h with h; injection h with ha hb; subst ha; subst hb
            refine step_three x b2 b3 r (by omega) (by omega) (hr b2 (by simp))
              (fun b hb => hr b (by simp [hb])) ?_
            rintro ⟨hED, _⟩; exact hx2 hED
          · cases h
        · cases h
      · split at h
        · omega
        · cases h

theorem fastByte_of_eligible (bs : List Nat) (h240 : ∀ b ∈ bs, b < 0xF0)
    (he : fastEligible bs = true) : ∀ b ∈ bs, FastByte b := by
  intro b hb
  unfold fastEligible at he
  simp only [Bool.and_eq_true, Bool.not_eq_true', List.contains_eq_mem,
    decide_eq_false_iff_not] at he
  refine ⟨h240 b hb, ?_, ?_, ?_⟩
  · rintro rfl; exact he.1.1 hb
  · rintro rfl; exact he.1.2 hb
  · rintro rfl; exact he.2 hb

theorem strict_agrees : ∀ (n : Nat) (bs cps : List Nat), bs.length ≤ n → (∀ b ∈ bs, FastByte b) →
    strict bs = some cps → slow bs = .ok cps := by
  intro n
  induction n with
  | zero =>
    intro bs cps hl _ h
    have : bs = [] := List.eq_nil_of_length_eq_zero (by omega)
    subst this
    rw [strict] at h; injection h with h; subst h; exact slow_nil
  | succ n ih =>
    intro bs cps hl hb h
    cases bs with
    | nil => rw [strict] at h; injection h with h; subst h; exact slow_nil
    | cons x rest =>
      rw [strict] at h
      split at h
      · cases h
      · rename_i cp k hstep
        split at h
        · cases h
        · rename_i cps' hrec
          injection h with h; subst h
          have hrest : ∀ b ∈ rest, FastByte b := fun b hb' => hb b (by simp [hb'])
          have h1 := strictStep_agrees x rest cp k (hb x (by simp))
            (fun b hb' => by have := (hrest b hb').1; omega) hstep
          have h2 := ih (rest.drop k) cps' (by simp at hl ⊢; omega)
            (fun b hb' => hrest b (List.mem_of_mem_drop hb')) hrec
          exact slow_cons_ok h1 h2

/-- without a four-byte lead (F0..FF) the C decoder is its slow loop -/
theorem decode_eq_slow (bs : List Nat) (h240 : ∀ b ∈ bs, b < 0xF0) : decode bs = slow bs := by
  unfold decode
  split
  · rename_i he
    split
    · rename_i cps hs
      exact (strict_agrees bs.length bs cps (Nat.le_refl _) (fastByte_of_eligible bs h240 he) hs).symm
    · rfl
  · rfl

/-! ### read_null_terminated_string -/

theorem takeWhile_ne0_append (s t : List Nat) (hs : 0 ∉ s) :
    (s ++ 0 :: t).takeWhile (· != 0) = s := by
  induction s with
  | nil => simp
  | cons a s ih =>
    have ha : a ≠ 0 := fun h => hs (by simp [h])
    have hs' : 0 ∉ s := fun h => hs (by simp [h])
    simp [ha, ih hs']

theorem dropWhile_ne0_append (s t : List Nat) (hs : 0 ∉ s) :
    (s ++ 0 :: t).dropWhile (· != 0) = 0 :: t := by
  induction s with
  | nil => simp
  | cons a s ih =>
    have ha : a ≠ 0 := fun h => hs (by simp [h])
    have hs' : 0 ∉ s := fun h => hs (by simp [h])
    simp [ha, ih hs']

/-- one iteration when the terminator is inside the chunk -/
theorem ntBody_done (fixed : Bool) (chunk : Nat) (pre s post acc : List Nat) (hs : 0 ∉ s)
    (hlt : s.length < chunk) :
    ntBody fixed chunk (pre ++ (s ++ 0 :: post)) pre.length acc
      = .done (acc ++ s) (pre.length + s.length + 1) := by
  obtain ⟨m, hm⟩ : ∃ m, chunk = s.length + (m + 1) := ⟨chunk - s.length - 1, by omega⟩
  have hz : ((pre ++ (s ++ 0 :: post)).drop pre.length).take chunk = s ++ 0 :: post.take m := by
    rw [List.drop_left, hm, List.take_append]
    simp [List.take_of_length_le]
  unfold ntBody
  simp only [hz]
  rw [if_neg (by simp)]
  rw [if_pos (by simp)]
  rw [takeWhile_ne0_append s _ hs, dropWhile_ne0_append s _ hs]
  simp only [List.drop_succ_cons, List.drop_zero, List.length_append, List.length_cons]
  congr 1
  omega

/-- one iteration when the chunk ends before the terminator -/
theorem ntBody_more (chunk : Nat) (pre s post acc : List Nat) (hs : 0 ∉ s)
    (hc : 0 < chunk) (hge : chunk ≤ s.length) :
    ntBody true chunk (pre ++ (s ++ 0 :: post)) pre.length acc
      = .more (pre.length + chunk) (acc ++ s.take chunk) := by
  have hz : ((pre ++ (s ++ 0 :: post)).drop pre.length).take chunk = s.take chunk := by
    rw [List.drop_left, List.take_append_of_le_length hge]
  have hlen : (s.take chunk).length = chunk := by simp [List.length_take]; omega
  have hne : (s.take chunk).isEmpty = false := by
    cases hh : s.take chunk with
    | nil => rw [hh] at hlen; simp at hlen; omega
    | cons _ _ => rfl
  have h0 : (s.take chunk).contains 0 = false := by
    simp only [List.contains_eq_mem, decide_eq_false_iff_not]
    exact fun h => hs (List.mem_of_mem_take h)
  unfold ntBody
  simp only [hz, hne, h0, hlen]
  simp

theorem ntLoop_spec (chunk : Nat) (hc : 0 < chunk) (post : List Nat) :
    ∀ (n : Nat) (s pre acc : List Nat) (k : Nat), s.length ≤ n → 0 ∉ s →
      (ntLoop chunk (pre ++ (s ++ 0 :: post)) pre.length acc k).1
        = some (acc ++ s, pre.length + s.length + 1) := by
  intro n
  induction n with
  | zero =>
    intro s pre acc k hl hs
    rw [ntLoop]
    split
    · rename_i h; rw [ntBody_done true chunk pre s post acc hs (by omega)] at h; cases h
    · rename_i h; rw [ntBody_done true chunk pre s post acc hs (by omega)] at h
      injection h with h1 h2; subst h1; subst h2; rfl
    · rename_i h; rw [ntBody_done true chunk pre s post acc hs (by omega)] at h; cases h
  | succ n ih =>
    intro s pre acc k hl hs
    by_cases hlt : s.length < chunk
    · rw [ntLoop]
      split
      · rename_i h; rw [ntBody_done true chunk pre s post acc hs hlt] at h; cases h
      · rename_i h; rw [ntBody_done true chunk pre s post acc hs hlt] at h
        injection h with h1 h2; subst h1; subst h2; rfl
      · rename_i h; rw [ntBody_done true chunk pre s post acc hs hlt] at h; cases h
    · have hge : chunk ≤ s.length := by omega
      rw [ntLoop]
      split
      · rename_i h; rw [ntBody_more chunk pre s post acc hs hc hge] at h; cases h
      · rename_i h; rw [ntBody_more chunk pre s post acc hs hc hge] at h; cases h
      · rename_i p a h
        rw [ntBody_more chunk pre s post acc hs hc hge] at h
        injection h with h1 h2; subst h1; subst h2
        have hfile : pre ++ (s ++ 0 :: post) = (pre ++ s.take chunk) ++ (s.drop chunk ++ 0 :: post) := by
          rw [List.append_assoc, ← List.append_assoc (s.take chunk), List.take_append_drop]
        have hpos : pre.length + chunk = (pre ++ s.take chunk).length := by
          simp [List.length_take]; omega
        rw [hfile, hpos]
        rw [ih (s.drop chunk) (pre ++ s.take chunk) (acc ++ s.take chunk) (k + 1)
          (by simp [List.length_drop]; omega) (fun h => hs (List.mem_of_mem_drop h))]
        simp only [List.append_assoc, List.take_append_drop, List.length_append, List.length_take,
          List.length_drop]
        congr 2
        omega

/-- one iteration of the fixed code when no terminator is left -/
theorem ntLoop_eof (chunk : Nat) (file : List Nat) :
    ∀ (n pos : Nat) (acc : List Nat) (k : Nat), file.length - pos ≤ n →
      (∀ b ∈ file.drop pos, b ≠ 0) → (ntLoop chunk file pos acc k).1 = none := by
  intro n
  induction n with
  | zero =>
    intro pos acc k hl h0
    have hd : file.drop pos = [] := List.drop_eq_nil_of_le (by omega)
    rw [ntLoop]
    have hb : ntBody true chunk file pos acc = .eof := by
      unfold ntBody; simp [hd]
    split
    · rfl
    · rename_i h; rw [hb] at h; cases h
    · rename_i h; rw [hb] at h; cases h
  | succ n ih =>
    intro pos acc k hl h0
    rw [ntLoop]
    split
    · rfl
    · rename_i s p h
      exfalso
      unfold ntBody at h
      simp only [Bool.true_and] at h
      split at h
      · cases h
      · split at h
        · rename_i _ hc
          simp only [List.contains_eq_mem, decide_eq_true_eq] at hc
          exact h0 0 (List.mem_of_mem_take hc) rfl
        · cases h
    · rename_i p a h
      have hlt := ntBody_more_lt h
      have hp : pos ≤ p := by
        unfold ntBody at h
        simp only [Bool.true_and] at h
        split at h
        · cases h
        · split at h
          · cases h
          · injection h with h1 _; omega
      refine ih p a (k + 1) (by omega) ?_
      intro b hb
      have : file.drop p = (file.drop pos).drop (p - pos) := by
        rw [List.drop_drop]; congr 1; omega
      rw [this] at hb
      exact h0 b (List.mem_of_mem_drop hb)

/-- the loop never runs more iterations than there are bytes left, plus one -/
theorem ntLoop_steps (chunk : Nat) (file : List Nat) :
    ∀ (n pos : Nat) (acc : List Nat) (k : Nat), file.length - pos ≤ n →
      (ntLoop chunk file pos acc k).2 ≤ k + (file.length - pos) + 1 := by
  intro n
  induction n with
  | zero =>
    intro pos acc k hl
    rw [ntLoop]
    split
    · simp
    · simp
    · rename_i p a h
      have := ntBody_more_lt h
      omega
  | succ n ih =>
    intro pos acc k hl
    rw [ntLoop]
    split
    · simp
    · simp
    · rename_i p a h
      have hlt := ntBody_more_lt h
      have := ih p a (k + 1) (by omega)
      omega

end AgVerif.Mutf8
