/- C01: byte round trip of the classes 10x 12x 11n 11x 10t (generated layout; tactic `rt2` of Proof/InsnRoundtrip.lean) -/
import AgVerif.Proof.InsnRoundtrip
set_option linter.unusedSimpArgs false
set_option linter.unusedVariables false
namespace AgVerif.Insn
open AgVerif.Gen

theorem rt_10x (bs : List Nat) (hb : AllBytes bs) (x : Insn) (h : decode .f10x bs = .ok x) :
    encode x = some (bs.take (Opcodes.length .f10x)) := by
  have hl := decode_ok_length h
  rt2

theorem rt_12x (bs : List Nat) (hb : AllBytes bs) (x : Insn) (h : decode .f12x bs = .ok x) :
    encode x = some (bs.take (Opcodes.length .f12x)) := by
  have hl := decode_ok_length h
  rt2

theorem rt_11n (bs : List Nat) (hb : AllBytes bs) (x : Insn) (h : decode .f11n bs = .ok x) :
    encode x = some (bs.take (Opcodes.length .f11n)) := by
  have hl := decode_ok_length h
  rt2

theorem rt_11x (bs : List Nat) (hb : AllBytes bs) (x : Insn) (h : decode .f11x bs = .ok x) :
    encode x = some (bs.take (Opcodes.length .f11x)) := by
  have hl := decode_ok_length h
  rt2

theorem rt_10t (bs : List Nat) (hb : AllBytes bs) (x : Insn) (h : decode .f10t bs = .ok x) :
    encode x = some (bs.take (Opcodes.length .f10t)) := by
  have hl := decode_ok_length h
  rt2

end AgVerif.Insn
